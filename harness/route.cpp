// C04/C05 correspondence harness (run under simmpi on an N x p layout).
//   tables                 every rank prints the layout tables and next_hop(d, scheme) for all d, 3 schemes
//   a2a <k> <padlen>       all-to-all, k messages per (s,d) pair in one epoch (aggregated buffers), then barrier
//   p2p <lo> <hi>          for every source s in [lo,hi) and every d: marker, ONE async s->d, barrier
//                          (routing = YGM_COMM_ROUTING); wire log carries the isend sequence
//   bcast <lo> <hi>        for every origin o in [lo,hi): marker, ONE async_bcast from o, barrier
//   subbcast <split> <order>  world + a sub-communicator of another layout, same handler type broadcast from
//                          every origin of each; every member prints its per-origin execution counts
//   conc <script>          concurrent broadcasts / mcasts / point-to-point asyncs, also issued from handlers
//     script = ops separated by ';', op index = uid:
//       <R|C> b <issuer> <child>            async_bcast
//       <R|C> m <issuer> <child> d,d,..|-   async_mcast(dests)
//       <R|C> a <issuer> <child> <dest>     async(dest)
//       B                                   barrier + snapshot of the per-uid execution counters
//     R = issued from the main program by <issuer>; C = issued from inside the handler of its parent,
//     by rank <issuer> when that rank executes the parent (child = index of the op to spawn, -1 none)
#include "hcommon.hpp"
#include <ygm/comm.hpp>

namespace {
struct Op { char root = 'R'; char kind = 'B'; int issuer = 0; int child = -1; int dest = 0; std::vector<int> dests; };
std::vector<Op>   g_ops;
std::vector<long> g_cnt;

std::vector<Op> parse(const char* s) {
  std::vector<Op> ops; std::stringstream ss(s); std::string t;
  while (std::getline(ss, t, ';')) {
    std::stringstream os(t); std::vector<std::string> f; std::string w; while (os >> w) f.push_back(w);
    if (f.empty()) continue;
    Op o;
    if (f[0] == "B") { o.kind = 'B'; ops.push_back(o); continue; }
    o.root = f[0][0]; o.kind = f[1][0]; o.issuer = atoi(f[2].c_str()); o.child = atoi(f[3].c_str());
    if (o.kind == 'a') o.dest = atoi(f[4].c_str());
    if (o.kind == 'm' && f[4] != "-") for (long d : hc::longs(f[4].c_str())) o.dests.push_back((int)d);
    ops.push_back(o);
  }
  return ops;
}

void issue(ygm::comm& c, int idx);
struct handler {
  void operator()(ygm::comm* c, int uid, int child) {
    g_cnt[uid]++;
    if (child >= 0 && g_ops[child].issuer == c->rank()) issue(*c, child);
  }
};
void issue(ygm::comm& c, int idx) {
  const Op& o = g_ops[idx];
  switch (o.kind) {
    case 'b': c.async_bcast(handler(), idx, o.child); break;
    case 'm': c.async_mcast(o.dests, handler(), idx, o.child); break;
    case 'a': c.async(o.dest, handler(), idx, o.child); break;
  }
}
// one handler TYPE for the broadcasts of every communicator of the sub-communicator mode
std::vector<std::vector<int>> g_hits;
struct bump { void operator()(int tag, int origin) { g_hits[tag][origin]++; } };
void bcast_all(ygm::comm& c, int tag) {
  g_hits[tag].assign(c.size(), 0);
  for (int o = 0; o < c.size(); ++o) { if (c.rank() == o) c.async_bcast(bump(), tag, o); c.barrier(); }
  std::ostringstream os; os << "hits " << tag << " " << c.layout().node_size() << " " << c.layout().local_size() << " " << c.rank() << " :";
  for (int o = 0; o < c.size(); ++o) os << " " << g_hits[tag][o];
  hc::out(os.str());
}
const char* sname(int k) { return k == 0 ? "NONE" : k == 1 ? "NR" : "NLNR"; }
}  // namespace

extern "C" int sim_main(int argc, char** argv) {
  ygm::comm world(MPI_COMM_WORLD);
  hc::open_out(world.rank());
  std::string mode = argc > 1 ? argv[1] : "tables";
  const int n = world.size(), me = world.rank();
  if (mode == "tables") {
    const auto& L = world.layout();
    { std::ostringstream o; o << "layout " << L.node_id() << " " << L.local_id() << " " << L.node_size() << " " << L.local_size() << " " << L.size() << " " << L.rank(); hc::out(o.str()); }
    { std::ostringstream o; o << "strided"; for (int r : L.strided_ranks()) o << " " << r; hc::out(o.str()); }
    { std::ostringstream o; o << "local"; for (int r : L.local_ranks()) o << " " << r; hc::out(o.str()); }
    { std::ostringstream o; o << "r2n"; for (int r = 0; r < n; ++r) o << " " << L.node_id(r); hc::out(o.str()); }
    { std::ostringstream o; o << "r2l"; for (int r = 0; r < n; ++r) o << " " << L.local_id(r); hc::out(o.str()); }
    { std::ostringstream o; o << "isl"; for (int r = 0; r < n; ++r) o << " " << (int)L.is_local(r); hc::out(o.str()); }
    { std::ostringstream o; o << "iss"; for (int r = 0; r < n; ++r) o << " " << (int)L.is_strided(r); hc::out(o.str()); }
    ygm::detail::routing_type sch[3] = {ygm::detail::routing_type::NONE, ygm::detail::routing_type::NR, ygm::detail::routing_type::NLNR};
    for (int k = 0; k < 3; ++k) {
      std::ostringstream o; o << "hop " << sname(k);
      for (int d = 0; d < n; ++d) o << " " << world.router().next_hop(d, sch[k]);
      hc::out(o.str());
    }
    // the default-route overload must be the configured scheme (it is what async/forwarding call)
    { std::ostringstream o; o << "hopdef"; for (int d = 0; d < n; ++d) o << " " << world.router().next_hop(d); hc::out(o.str()); }
  } else if (mode == "p2p") {
    int lo = atoi(argv[2]), hi = atoi(argv[3]);
    for (int s = lo; s < hi && s < n; ++s)
      for (int d = 0; d < n; ++d) {
        if (me == s) {
          hc::ev("p2p " + std::to_string(s) + " " + std::to_string(d));
          world.async(d, [](int uid) { hc::ev("x " + std::to_string(uid)); }, s * n + d);
        }
        world.barrier();
      }
    if (me == 0) hc::ev("end");
  } else if (mode == "a2a") {
    // aggregated traffic: every rank issues k messages to every rank (itself included) in ONE epoch, then barrier.
    // payload = (int32 uid, string of padlen bytes): uid = ((s*n)+d)*k+j sits at offset 2 of the message (after the
    // 16-bit lambda id), so a physical buffer in the wire log can be split into its messages and each one followed
    int k = atoi(argv[2]), padlen = atoi(argv[3]);
    std::string pad((size_t)padlen, 'p');
    hc::ev("a2a begin");
    for (int j = 0; j < k; ++j)
      for (int d = 0; d < n; ++d)
        world.async(d, [](int uid, const std::string&) { hc::ev("x " + std::to_string(uid)); }, (me * n + d) * k + j, pad);
    world.barrier();
    if (me == 0) hc::ev("end");
  } else if (mode == "bcast") {
    int lo = atoi(argv[2]), hi = atoi(argv[3]);
    for (int o = lo; o < hi && o < n; ++o) {
      if (me == o) {
        hc::ev("bc " + std::to_string(o));
        world.async_bcast([](int uid) { hc::ev("x " + std::to_string(uid)); }, o);
      }
      world.barrier();
    }
    if (me == 0) hc::ev("end");
  } else if (mode == "subbcast") {
    // communicators with DIFFERENT layouts in one process, the same handler type broadcast on each of them
    // split: 0 = by parity of the local id, 1 = lower / upper half of the local ids, 2 = by parity of the node id
    int split = atoi(argv[2]), order = atoi(argv[3]);
    const auto& L = world.layout();
    int color = split == 0 ? L.local_id() % 2 : split == 1 ? (L.local_id() < L.local_size() / 2 ? 0 : 1) : L.node_id() % 2;
    MPI_Comm subc; MPI_Comm_split(MPI_COMM_WORLD, color, me, &subc);
    g_hits.resize(3);
    {
      ygm::comm sub(subc);
      if (order == 0) { bcast_all(world, 0); bcast_all(sub, 1); bcast_all(world, 2); }
      else { bcast_all(sub, 1); bcast_all(world, 0); bcast_all(sub, 2); }
      world.barrier();
    }
    MPI_Comm_free(&subc);
  } else if (mode == "conc") {
    g_ops = parse(argv[2]); g_cnt.assign(g_ops.size(), 0);
    int nb = 0;
    auto snap = [&]() { std::ostringstream o; o << "snap " << nb++; for (size_t u = 0; u < g_cnt.size(); ++u) if (g_cnt[u]) o << " " << u << ":" << g_cnt[u]; hc::out(o.str()); };
    for (size_t i = 0; i < g_ops.size(); ++i) {
      if (g_ops[i].kind == 'B') { world.barrier(); snap(); }
      else if (g_ops[i].root == 'R' && g_ops[i].issuer == me) issue(world, (int)i);
    }
    world.barrier(); snap();
  }
  return 0;
}
