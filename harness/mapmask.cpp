// C08 (map visitor callbacks run under an interrupt mask): every rank calls map_impl::local_visit from its MAIN
// program on keys it owns, with a visitor that sends asyncs (capacity 0: every send flushes and polls), while all
// peers keep sending it messages.  No handler may start on a rank between the visitor's begin and end.
// args: <seed> <rounds> <sends per visit>
#define HC_OWN_HOOK
#include "hcommon.hpp"
#include <ygm/comm.hpp>
#include <ygm/container/map.hpp>

extern "C" void ygm_verif_hook(const char* tag, long a, long b, long c) {
  if (tag[0] == 'e' || tag[0] == 'i') { char buf[96]; snprintf(buf, sizeof buf, "k %s %ld %ld %ld", tag, a, b, c); simmpi_log(buf); }
}
static long g_hits = 0;

extern "C" int sim_main(int argc, char** argv) {
  ygm::comm world(MPI_COMM_WORLD);
  hc::rng g(atol(argv[1]) * 977 + world.rank());
  int rounds = atoi(argv[2]), nsend = atoi(argv[3]);
  ygm::container::map<int, int> m(world);
  std::vector<int> mine;
  for (int k = 0; k < 64; ++k) if (m.owner(k) == world.rank()) mine.push_back(k);
  for (int k : mine) m.async_insert(k, 0);
  world.barrier();
  auto pm = m.get_ygm_ptr();
  for (int rd = 0; rd < rounds; ++rd) {
    // traffic towards everybody, so that receives are pending while visitors run
    for (int i = 0; i < 6; ++i) world.async((int)g.below(world.size()), [](int x) { g_hits++; }, i);
    if (!mine.empty()) {
      int key = mine[g.below(mine.size())];
      auto visitor = [nsend, &world](const int& k, int& v) {
        hc::ev("V+");
        v++;
        for (int i = 0; i < nsend; ++i) world.async((k + i + 1) % world.size(), [](int x) { g_hits++; }, i);
        hc::ev("V-");
      };
      pm->local_visit(key, visitor);
    }
    if (g.below(3) == 0) world.local_progress();
  }
  world.barrier();
  return 0;
}
