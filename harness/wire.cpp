// C06 correspondence harness: the real cereal::YGMOutputArchive / YGMInputArchive and the real
// comm::async / async_bcast / handle_next_receive, driven with generated values of a catalogue
// of argument-type shapes.  Every value is logged as a *description* (type tokens + value tokens,
// see lean/Driver/Wire.lean) so that the Lean model can re-encode it.
//
//   wire shapes                          one line per shape: "shape <idx> | <type>"
//   wire ser <seed> <big> <casefile>     casefile lines "<k> <shape> <sz>"  ->
//                                        "case <k> <shape> <sz> | <type> | <value> | x<hex>"
//   wire load <seed> <big> <casefile>    casefile lines "<k> <shape> <sz> x<hex>"; the real input archive
//                                        reads <hex> and must reproduce the value of case k -> "load <k> <ok> <empty>"
//   wire traffic <seed> <big> <nmsg>     calibration (one message per handler type, alone in its buffer),
//                                        then <nmsg> generated asyncs per rank + broadcasts; lines
//                                        "sent <uid> <dest|-1> <hidx> x<fn> | N <types> | <values>" and
//                                        "recv <uid> <hidx> <value ok> <functor ok> <comm ok> <fnv of value tokens>"
//   wire probe <a|b> <seed>             one message with a 16-byte function object (a: async to the last rank,
//                                        b: async_bcast) -> "precv <uid> <value ok> <functor ok>"; also the only
//                                        mode of the small -DWIRE_PROBE_ONLY build (compiled at -O0 by the check)
//   wire traffic ... <sb>                sb=1: broadcasts also use handler types with functor state
//   wire ptrbig <seed> <N>               every rank registers N (> 65536) ygm_ptr<PObj> (direct construction, no collective),
//                                        then pointers with indices around 2^16, 2^17 and up to N-1 travel through async
//                                        and async_bcast, alone and inside a vector; the handler dereferences them:
//                                        "psent <uid> <dest|-1> <want..>" / "precv <uid> <want> <arrived index> <object ok> <address ok>"
//   (ser/load: ygm_ptr values are forged with indices up to 2^32-1 — they are archived, never dereferenced)
#include "hcommon.hpp"
#include <ygm/comm.hpp>
#include <cstring>

// ----------------------------------------------------------------- probe (shared by both builds)
namespace probe {
static uint8_t pbyte(uint64_t uid, size_t i) { return (uint8_t)((uid * 0x9e3779b97f4a7c15ULL >> (8 * (i % 8))) + 31 * i); }
struct PF { uint8_t st[16];
  void operator()(uint64_t uid, const int8_t& v) { bool fok = true; for (size_t i = 0; i < 16; ++i) fok = fok && st[i] == pbyte(uid, i);
    hc::out("precv " + std::to_string(uid) + " " + (v == (int8_t)(uid % 100) ? "1" : "0") + " " + (fok ? "1" : "0")); } };
static int run(int argc, char** argv) {
  ygm::comm world(MPI_COMM_WORLD); hc::open_out(world.rank());
  bool bc = argc > 2 && argv[2][0] == 'b'; uint64_t uid = argc > 3 ? strtoull(argv[3], 0, 10) : 42;
  PF f; for (size_t i = 0; i < 16; ++i) f.st[i] = pbyte(uid, i);
  world.barrier();
  if (world.rank() == 0) { if (bc) world.async_bcast(f, uid, (int8_t)(uid % 100)); else world.async(world.size() - 1, f, uid, (int8_t)(uid % 100)); }
  world.barrier();
  hc::out("done");
  return 0; }
}  // namespace probe

#ifdef WIRE_PROBE_ONLY
extern "C" int sim_main(int argc, char** argv) { return probe::run(argc, argv); }
#else
#include <ygm/detail/cereal_boost_json.hpp>
#include <ygm/detail/ygm_ptr.hpp>
#include <fstream>
#include <limits>
#include <map>
#include <set>
#include <tuple>
#include <type_traits>

namespace bj = boost::json;
using hc::rng;

static uint64_t mix(uint64_t a, uint64_t b) { rng g(a * 0x9e3779b97f4a7c15ULL ^ (b + 0x7f4a7c15ULL)); g.next(); return g.next(); }
static uint64_t fnv(const std::string& s) { uint64_t h = 1469598103934665603ULL; for (unsigned char c : s) { h ^= c; h *= 1099511628211ULL; } return h; }
static void put_hex(std::string& o, const void* p, size_t n) { static const char* H = "0123456789abcdef"; const unsigned char* c = (const unsigned char*)p; o.push_back('x'); for (size_t i = 0; i < n; ++i) { o.push_back(H[c[i] >> 4]); o.push_back(H[c[i] & 15]); } }
static bool get_hex(const std::string& s, std::vector<std::byte>& out) {
  if (s.empty() || s[0] != 'x' || (s.size() - 1) % 2) return false; out.clear();
  auto v = [](char c) { return c <= '9' ? c - '0' : c - 'a' + 10; };
  for (size_t i = 1; i + 1 < s.size(); i += 2) out.push_back((std::byte)(v(s[i]) * 16 + v(s[i + 1]))); return true; }

// ----------------------------------------------------------------- globals of one rank process
struct Ctx { uint64_t seed = 1; size_t big = 300; int rank = 0; int nranks = 1; ygm::comm* comm = nullptr; bool stateful_bcast = true; bool forge_ptrs = false; } ctx;
static const int NPTR = 5;
static int g_pool[NPTR];
static std::vector<ygm::ygm_ptr<int>>& ptrs() { static std::vector<ygm::ygm_ptr<int>> p; return p; }
static int pool_value(int rank, int i) { return 1000 * (rank + 1) + i; }

static size_t small(rng& g) { uint64_t r = g.below(8); return r < 2 ? 0 : r < 4 ? 1 : (size_t)(r - 2); }
// container length: the requested size at the top level, small below
static size_t len_at(rng& g, size_t sz, int depth) { return depth == 0 ? sz : small(g); }

// ----------------------------------------------------------------- descriptions: D<T>
struct User1 { uint32_t a; std::string s; std::vector<int16_t> v; template <class Ar> void serialize(Ar& ar) { ar(a, s, v); } };
struct User2 { int8_t x; std::map<uint16_t, std::string> m; double d;
  template <class Ar> void save(Ar& ar) const { ar(x, m, d); } template <class Ar> void load(Ar& ar) { ar(x, m, d); } };

template <class T, class = void> struct D;
template <class T> std::string desc(const T& v) { std::string o; D<T>::put(o, v); return o.empty() ? o : o.substr(1); }
static void tok(std::string& o, const std::string& t) { o.push_back(' '); o += t; }

template <class T> struct D<T, std::enable_if_t<std::is_integral_v<T> && !std::is_same_v<T, bool>>> {
  static std::string ty() { return (std::is_signed_v<T> ? "i" : "u") + std::to_string(8 * sizeof(T)); }
  static T gen(rng& g, size_t, int) { switch (g.below(7)) { case 0: return 0; case 1: return 1; case 2: return std::numeric_limits<T>::max(); case 3: return std::numeric_limits<T>::min(); case 4: return (T)-1; default: return (T)g.next(); } }
  static void put(std::string& o, const T& v) { if constexpr (std::is_signed_v<T>) tok(o, std::to_string((long long)v)); else tok(o, std::to_string((unsigned long long)v)); } };
template <> struct D<bool> { static std::string ty() { return "bool"; } static bool gen(rng& g, size_t, int) { return g.below(2); } static void put(std::string& o, const bool& v) { tok(o, v ? "1" : "0"); } };
template <> struct D<float> { static std::string ty() { return "f32"; }
  static float gen(rng& g, size_t, int) { uint32_t b; switch (g.below(6)) { case 0: b = 0; break; case 1: b = 0x80000000u; break; case 2: b = 0x7fc00001u; break; case 3: b = 0xff800000u; break; default: b = (uint32_t)g.next(); } float f; memcpy(&f, &b, 4); return f; }
  static void put(std::string& o, const float& v) { uint32_t b; memcpy(&b, &v, 4); tok(o, std::to_string(b)); } };
template <> struct D<double> { static std::string ty() { return "f64"; }
  static double gen(rng& g, size_t, int) { uint64_t b; switch (g.below(6)) { case 0: b = 0; break; case 1: b = 0x8000000000000000ULL; break; case 2: b = 0x7ff8000000000001ULL; break; case 3: b = 0x7ff0000000000000ULL; break; default: b = g.next(); } double f; memcpy(&f, &b, 8); return f; }
  static void put(std::string& o, const double& v) { uint64_t b; memcpy(&b, &v, 8); tok(o, std::to_string(b)); } };
template <> struct D<std::string> { static std::string ty() { return "str"; }
  static std::string gen(rng& g, size_t sz, int depth) { size_t n = len_at(g, sz, depth); std::string s(n, '\0'); bool ascii = g.below(2); uint64_t w = 0; for (size_t i = 0; i < n; ++i) { if (i % 8 == 0) w = g.next(); unsigned char c = (unsigned char)(w >> (8 * (i % 8))); s[i] = ascii ? (char)(32 + c % 95) : (char)c; } return s; }
  static void put(std::string& o, const std::string& v) { o.push_back(' '); put_hex(o, v.data(), v.size()); } };
template <class T> struct D<std::vector<T>> { static std::string ty() { return "vec " + D<T>::ty(); }
  static std::vector<T> gen(rng& g, size_t sz, int depth) { size_t n = len_at(g, sz, depth); std::vector<T> v; v.reserve(n); for (size_t i = 0; i < n; ++i) v.push_back(D<T>::gen(g, 0, depth + 1)); return v; }
  static void put(std::string& o, const std::vector<T>& v) { tok(o, std::to_string(v.size())); for (size_t i = 0; i < v.size(); ++i) { T e = v[i]; D<T>::put(o, e); } } };
template <class T> struct D<std::set<T>> { static std::string ty() { return "set " + D<T>::ty(); }
  static std::set<T> gen(rng& g, size_t sz, int depth) { size_t n = len_at(g, sz, depth); std::set<T> v; for (size_t i = 0; i < n; ++i) v.insert(D<T>::gen(g, 0, depth + 1)); return v; }
  static void put(std::string& o, const std::set<T>& v) { tok(o, std::to_string(v.size())); for (const auto& e : v) D<T>::put(o, e); } };
template <class K, class V> struct D<std::map<K, V>> { static std::string ty() { return "map " + D<K>::ty() + " " + D<V>::ty(); }
  static std::map<K, V> gen(rng& g, size_t sz, int depth) { size_t n = len_at(g, sz, depth); std::map<K, V> v; for (size_t i = 0; i < n; ++i) { K k = D<K>::gen(g, 0, depth + 1); v.emplace(k, D<V>::gen(g, 0, depth + 1)); } return v; }
  static void put(std::string& o, const std::map<K, V>& v) { tok(o, std::to_string(v.size())); for (const auto& e : v) { D<K>::put(o, e.first); D<V>::put(o, e.second); } } };
template <class A, class B> struct D<std::pair<A, B>> { static std::string ty() { return "pair " + D<A>::ty() + " " + D<B>::ty(); }
  static std::pair<A, B> gen(rng& g, size_t sz, int depth) { A a = D<A>::gen(g, sz, depth); B b = D<B>::gen(g, sz, depth); return {a, b}; }
  static void put(std::string& o, const std::pair<A, B>& v) { D<A>::put(o, v.first); D<B>::put(o, v.second); } };
template <class... Ts> struct D<std::tuple<Ts...>> {
  static std::string ty() { std::string s = "tup " + std::to_string(sizeof...(Ts)); ((s += " " + D<Ts>::ty()), ...); return s; }
  static std::tuple<Ts...> gen(rng& g, size_t sz, int depth) { return std::tuple<Ts...>{D<Ts>::gen(g, sz, depth)...}; }   // braced init: left to right
  static void put(std::string& o, const std::tuple<Ts...>& v) { std::apply([&o](const Ts&... e) { (D<Ts>::put(o, e), ...); }, v); } };
template <> struct D<ygm::ygm_ptr<int>> { static std::string ty() { return "ptr"; }
  // archive-only modes: any 32-bit index (the object is 4 bytes: its uint32_t idx); such pointers are never dereferenced
  static ygm::ygm_ptr<int> forge(uint32_t idx) {
    if constexpr (sizeof(ygm::ygm_ptr<int>) == sizeof(uint32_t)) { ygm::ygm_ptr<int> p; memcpy((void*)&p, &idx, sizeof idx); return p; }
    else return ptrs()[idx % NPTR]; }
  static ygm::ygm_ptr<int> gen(rng& g, size_t, int) {
    if (!ctx.forge_ptrs) return ptrs()[g.below(NPTR)];
    switch (g.below(9)) { case 0: return ptrs()[g.below(NPTR)]; case 1: return forge(65535); case 2: return forge(65536); case 3: return forge(65537 + (uint32_t)g.below(5000));
      case 4: return forge(0x7fffffffu + (uint32_t)g.below(2)); case 5: return forge(0xfffffffeu + (uint32_t)g.below(2)); case 6: return forge((uint32_t)g.next());
      case 7: return forge((uint32_t)(65536 * (1 + g.below(65535)))); default: return forge((uint32_t)(65536 + g.below(1u << 20))); } }
  static void put(std::string& o, const ygm::ygm_ptr<int>& v) { tok(o, std::to_string(v.index())); } };
template <> struct D<User1> { static std::string ty() { return "tup 3 u32 str vec i16"; }
  static User1 gen(rng& g, size_t sz, int depth) { User1 u; u.a = D<uint32_t>::gen(g, sz, depth); u.s = D<std::string>::gen(g, sz, depth); u.v = D<std::vector<int16_t>>::gen(g, sz, depth); return u; }
  static void put(std::string& o, const User1& u) { D<uint32_t>::put(o, u.a); D<std::string>::put(o, u.s); D<std::vector<int16_t>>::put(o, u.v); } };
template <> struct D<User2> { static std::string ty() { return "tup 3 i8 map u16 str f64"; }
  static User2 gen(rng& g, size_t sz, int depth) { User2 u; u.x = D<int8_t>::gen(g, sz, depth); u.m = D<std::map<uint16_t, std::string>>::gen(g, sz, depth); u.d = D<double>::gen(g, sz, depth); return u; }
  static void put(std::string& o, const User2& u) { D<int8_t>::put(o, u.x); D<std::map<uint16_t, std::string>>::put(o, u.m); D<double>::put(o, u.d); } };
template <> struct D<bj::value> { static std::string ty() { return "json"; }
  static bj::value genv(rng& g, size_t sz, int depth, int jdepth) {
    uint64_t k = (jdepth >= 3) ? g.below(6) : (jdepth == 0 ? 5 + g.below(3) : g.below(8));
    switch (k) {
      case 0: return bj::value(nullptr);
      case 1: return bj::value(D<bool>::gen(g, 0, 1));
      case 2: return bj::value(D<int64_t>::gen(g, 0, 1));
      case 3: return bj::value(D<uint64_t>::gen(g, 0, 1));
      case 4: return bj::value(D<double>::gen(g, 0, 1));
      case 5: { std::string s = D<std::string>::gen(g, sz, depth); return bj::value(bj::string(s.data(), s.size())); }
      case 6: { bj::array a; size_t n = len_at(g, sz, depth); for (size_t i = 0; i < n; ++i) a.push_back(genv(g, 0, depth + 1, jdepth + 1)); return bj::value(std::move(a)); }
      default: { bj::object ob; size_t n = len_at(g, sz, depth); for (size_t i = 0; i < n; ++i) { std::string key = D<std::string>::gen(g, 0, 1); ob.emplace(key, genv(g, 0, depth + 1, jdepth + 1)); } return bj::value(std::move(ob)); }
    } }
  static bj::value gen(rng& g, size_t sz, int depth) { return genv(g, sz, depth, 0); }
  static void put(std::string& o, const bj::value& v) {
    if (v.is_null()) tok(o, "0");
    else if (v.is_bool()) { tok(o, "1"); tok(o, v.as_bool() ? "1" : "0"); }
    else if (v.is_int64()) { tok(o, "2"); tok(o, std::to_string((long long)v.as_int64())); }
    else if (v.is_uint64()) { tok(o, "3"); tok(o, std::to_string((unsigned long long)v.as_uint64())); }
    else if (v.is_double()) { tok(o, "4"); double d = v.as_double(); D<double>::put(o, d); }
    else if (v.is_string()) { tok(o, "5"); o.push_back(' '); put_hex(o, v.as_string().data(), v.as_string().size()); }
    else if (v.is_array()) { tok(o, "6"); tok(o, std::to_string(v.as_array().size())); for (const auto& e : v.as_array()) put(o, e); }
    else { tok(o, "7"); tok(o, std::to_string(v.as_object().size())); for (const auto& kv : v.as_object()) { o.push_back(' '); put_hex(o, kv.key().data(), kv.key().size()); put(o, kv.value()); } } } };

// ----------------------------------------------------------------- the catalogue of shapes
using S = std::string;
template <class T> using V = std::vector<T>;
using Shapes = std::tuple<
    uint8_t, uint16_t, uint32_t, uint64_t, int8_t, int16_t, int32_t, int64_t, bool, float, double,          // 0-10
    S, V<uint8_t>, V<uint32_t>, V<bool>, V<S>, V<V<int16_t>>, V<double>,                                   // 11-17
    std::pair<uint16_t, S>, std::tuple<int8_t, double, S>, std::pair<std::pair<uint8_t, uint8_t>, V<double>>,  // 18-20
    std::map<S, uint64_t>, std::map<uint32_t, V<S>>, std::map<int64_t, std::map<S, V<uint8_t>>>,         // 21-23
    std::set<int32_t>, std::set<S>, V<std::pair<uint64_t, float>>, V<std::tuple<bool, uint8_t, std::set<uint16_t>>>,  // 24-27
    V<std::map<uint8_t, S>>, ygm::ygm_ptr<int>, V<ygm::ygm_ptr<int>>, User1, V<User2>, bj::value,          // 28-33
    std::tuple<V<S>, std::map<S, std::pair<int32_t, V<float>>>, uint16_t>, std::tuple<uint64_t>>;          // 34-35
constexpr size_t NSHAPES = std::tuple_size_v<Shapes>;

static size_t pick_size(rng& g) {   // container length classes: empty, one, few, boundary, large
  switch (g.below(12)) { case 0: case 1: return 0; case 2: case 3: return 1; case 4: case 5: case 6: return 2 + g.below(7);
    case 7: return 255 + g.below(3); case 8: return ctx.big; case 9: return g.below(ctx.big + 1); default: return 2 + g.below(30); } }
template <class T> static T gen_case(uint64_t k, size_t sz) { rng g(mix(ctx.seed, k)); return D<T>::gen(g, sz, 0); }
static size_t size_of_uid(uint64_t uid) { rng g(mix(ctx.seed ^ 0x51ed, uid)); return pick_size(g); }
template <class T> static T gen_uid(uint64_t uid) { return gen_case<T>(uid, size_of_uid(uid)); }

template <class T> static std::string ser_case(uint64_t k, size_t sz) {
  T v = gen_case<T>(k, sz); std::vector<std::byte> buf;
  { cereal::YGMOutputArchive oa(buf); oa(v); }
  std::string o = "| " + D<T>::ty() + " | " + desc(v) + " | "; put_hex(o, buf.data(), buf.size()); return o; }
template <class T> static std::string load_case(uint64_t k, size_t sz, std::vector<std::byte>& bytes) {
  T exp = gen_case<T>(k, sz); T got{};
  cereal::YGMInputArchive ia(bytes.data(), bytes.size()); ia(got);
  return std::string(desc(got) == desc(exp) ? "1" : "0") + " " + (ia.empty() ? "1" : "0"); }

struct ShapeOps { std::string (*ty)(); std::string (*ser)(uint64_t, size_t); std::string (*load)(uint64_t, size_t, std::vector<std::byte>&); };
template <size_t... I> static std::vector<ShapeOps> make_ops(std::index_sequence<I...>) {
  return {ShapeOps{&D<std::tuple_element_t<I, Shapes>>::ty, &ser_case<std::tuple_element_t<I, Shapes>>, &load_case<std::tuple_element_t<I, Shapes>>}...}; }

// ----------------------------------------------------------------- traffic: handlers
static uint8_t fn_byte(uint64_t uid, size_t i) { return (uint8_t)mix(uid ^ 0xf00d, i + 1); }
static std::map<uint64_t, int>& seen() { static std::map<uint64_t, int> m; return m; }

template <class T> static void on_recv(int hidx, uint64_t uid, const T& v, const uint8_t* st, size_t K, bool has_comm, ygm::comm* c) {
  T exp = gen_uid<T>(uid); std::string dv = desc(v);
  bool ok = dv == desc(exp); bool fok = true; for (size_t i = 0; i < K; ++i) fok = fok && st[i] == fn_byte(uid, i);
  bool cok = !has_comm || c == ctx.comm;
  if constexpr (std::is_same_v<T, ygm::ygm_ptr<int>>) { ok = ok && (*v == pool_value(ctx.rank, (int)(&*v - g_pool))); }
  hc::out("recv " + std::to_string(uid) + " " + std::to_string(hidx) + " " + (ok ? "1" : "0") + " " + (fok ? "1" : "0") + " " + (cok ? "1" : "0") + " " + std::to_string(fnv("" + std::to_string(uid) + (dv.empty() ? "" : " " + dv))));
}
// function objects with K bytes of state; with / without the optional comm* parameter (meta/functional.hpp)
template <class T, int H, size_t K> struct FnC { uint8_t st[K]; void operator()(ygm::comm* c, uint64_t uid, const T& v) { on_recv<T>(H, uid, v, st, K, true, c); } };
template <class T, int H, size_t K> struct FnN { uint8_t st[K]; void operator()(uint64_t uid, const T& v) { on_recv<T>(H, uid, v, st, K, false, nullptr); } };
// functor-only messages: no arguments at all, the uid travels in the functor state
template <int H> struct Fn0 { uint64_t uid; uint8_t extra[3]; uint8_t pad[5];
  void operator()(ygm::comm* c) { bool fok = true; for (size_t i = 0; i < 3; ++i) fok = fok && extra[i] == fn_byte(uid, i); for (size_t i = 0; i < 5; ++i) fok = fok && pad[i] == 0;
    hc::out("recv " + std::to_string(uid) + " " + std::to_string(H) + " 1 " + (fok ? "1" : "0") + " " + (c == ctx.comm ? "1" : "0") + " " + std::to_string(fnv(""))); } };
// two value arguments
template <int H> struct Fn2 { uint8_t st[2];
  void operator()(uint64_t uid, const std::string& a, const std::vector<uint32_t>& b) { on_recv<std::pair<std::string, std::vector<uint32_t>>>(H, uid, {a, b}, st, 2, false, nullptr); } };

struct Handler { int hidx; bool bcast_ok; void (*send)(ygm::comm&, int dest, uint64_t uid, bool bcast); };
template <class F> static void fill_state(F& f, uint64_t uid, size_t K) { for (size_t i = 0; i < K; ++i) f.st[i] = fn_byte(uid, i); }
static void log_sent(uint64_t uid, int dest, int hidx, const void* fn, size_t K, const std::string& tys, const std::string& vals) {
  std::string o = "sent " + std::to_string(uid) + " " + std::to_string(dest) + " " + std::to_string(hidx) + " "; put_hex(o, fn, K); o += " | " + tys + " | " + vals; hc::out(o); }

template <class T, int H, int KIND> static void send_h(ygm::comm& w, int dest, uint64_t uid, bool bcast) {
  T v = gen_uid<T>(uid); std::string dv = desc(v);
  std::string tys = "2 u64 " + D<T>::ty(), vals = std::to_string(uid) + (dv.empty() ? "" : " " + dv);
  auto go = [&](auto fn, size_t K) { log_sent(uid, bcast ? -1 : dest, H, &fn, K, tys, vals); if (bcast) w.async_bcast(fn, uid, v); else w.async(dest, fn, uid, v); };
  if constexpr (KIND == 0) go([](ygm::comm* c, uint64_t uid, const T& v) { on_recv<T>(H, uid, v, nullptr, 0, true, c); }, 0);
  else if constexpr (KIND == 1) go([](uint64_t uid, const T& v) { on_recv<T>(H, uid, v, nullptr, 0, false, nullptr); }, 0);
  else if constexpr (KIND == 2) { FnC<T, H, 5> f; fill_state(f, uid, 5); go(f, 5); }
  else if constexpr (KIND == 3) { FnN<T, H, 16> f; fill_state(f, uid, 16); go(f, 16); }
  else { FnC<T, H, 1> f; fill_state(f, uid, 1); go(f, 1); }
}
template <int H> static void send_fn0(ygm::comm& w, int dest, uint64_t uid, bool) {
  Fn0<H> f; memset(&f, 0, sizeof f); f.uid = uid; for (size_t i = 0; i < 3; ++i) f.extra[i] = fn_byte(uid, i);
  log_sent(uid, dest, H, &f, sizeof f, "0", ""); w.async(dest, f); }
template <int H> static void send_fn2(ygm::comm& w, int dest, uint64_t uid, bool) {
  using P = std::pair<std::string, std::vector<uint32_t>>; P v = gen_uid<P>(uid); Fn2<H> f; fill_state(f, uid, 2);
  log_sent(uid, dest, H, &f, 2, "3 u64 str vec u32", std::to_string(uid) + " " + desc(v)); w.async(dest, f, uid, v.first, v.second); }

// handler types: every shape with two functor kinds (one stateless, one with state), + the two specials
template <size_t... I> static std::vector<Handler> make_handlers(std::index_sequence<I...>) {
  std::vector<Handler> h = {Handler{(int)(2 * I), (I % 5 == 1), &send_h<std::tuple_element_t<I, Shapes>, (int)(2 * I), (int)(I % 2)>}...};
  std::vector<Handler> g = {Handler{(int)(2 * I + 1), (I % 7 == 4), &send_h<std::tuple_element_t<I, Shapes>, (int)(2 * I + 1), (int)(2 + I % 3)>}...};
  std::vector<Handler> all; for (size_t i = 0; i < h.size(); ++i) { all.push_back(h[i]); all.push_back(g[i]); }
  all.push_back(Handler{(int)(2 * NSHAPES), false, &send_fn0<(int)(2 * NSHAPES)>});
  all.push_back(Handler{(int)(2 * NSHAPES + 1), false, &send_fn2<(int)(2 * NSHAPES + 1)>});
  return all; }

static void read_lines(const char* path, std::vector<std::vector<std::string>>& out) {
  std::ifstream f(path); std::string line; while (std::getline(f, line)) { std::stringstream ss(line); std::vector<std::string> w; std::string t; while (ss >> t) w.push_back(t); if (!w.empty()) out.push_back(w); } }

// ----------------------------------------------------------------- ptrbig: pointers whose registry index exceeds 16 bits
struct PObj { uint64_t tag; };
static std::vector<PObj> g_objs;
static uint64_t ptag(int rank, uint64_t i) { return mix(0xabcd00 + rank, i); }
static void ptr_report(uint64_t uid, uint32_t want, const ygm::ygm_ptr<PObj>& p) {
  bool inreg = p.index() < g_objs.size();
  bool tagok = inreg && (*p).tag == ptag(ctx.rank, want);          // dereference: must reach the object the sender pointed to
  bool addrok = inreg && &*p == &g_objs[want];
  hc::out("precv " + std::to_string(uid) + " " + std::to_string(want) + " " + std::to_string(p.index()) + " " + (tagok ? "1" : "0") + " " + (addrok ? "1" : "0")); }
static int run_ptrbig(int argc, char** argv) {
  ctx.seed = strtoull(argv[2], 0, 10); size_t N = strtoull(argv[3], 0, 10);
  ygm::comm world(MPI_COMM_WORLD); ctx.comm = &world; ctx.rank = world.rank(); ctx.nranks = world.size();
  hc::open_out(world.rank());
  g_objs.resize(N); for (size_t i = 0; i < N; ++i) g_objs[i].tag = ptag(ctx.rank, i);
  std::vector<ygm::ygm_ptr<PObj>> ps; ps.reserve(N);
  for (size_t i = 0; i < N; ++i) ps.emplace_back(&g_objs[i]);       // ygm_ptr(T*): idx = sptrs.size(); sptrs.push_back(t)
  hc::out("registered " + std::to_string(N) + " " + std::to_string(ps.front().index()) + " " + std::to_string(ps.back().index()));
  world.barrier();
  rng g(mix(ctx.seed, 99 + ctx.rank));
  std::vector<uint32_t> idxs = {0, 1, 255, 65534, 65535, 65536, 65537, 65541, 69999, 131071, 131072, 131073, 196608, (uint32_t)(N - 1), (uint32_t)(N - 2)};
  for (int i = 0; i < 6; ++i) idxs.push_back((uint32_t)g.below(N));
  for (int i = 0; i < 4; ++i) idxs.push_back((uint32_t)(65536 + g.below(N - 65536)));
  uint64_t seq = 0;
  auto h1 = [](uint64_t uid, uint32_t want, const ygm::ygm_ptr<PObj>& p) { ptr_report(uid, want, p); };
  auto h2 = [](uint64_t uid, const std::vector<uint32_t>& want, const std::vector<ygm::ygm_ptr<PObj>>& v) {
    if (v.size() != want.size()) { hc::out("precv " + std::to_string(uid) + " 0 0 0 0 size-mismatch"); return; }
    for (size_t i = 0; i < v.size(); ++i) ptr_report(uid, want[i], v[i]); };
  for (uint32_t ix : idxs) {
    if (ix >= N) continue;
    uint64_t uid = ((uint64_t)(ctx.rank + 1) << 32) | seq++; int dest = (int)g.below(ctx.nranks);
    hc::out("psent " + std::to_string(uid) + " " + std::to_string(dest) + " " + std::to_string(ix));
    world.async(dest, h1, uid, ix, ps[ix]);
    if (g.below(3) == 0) {
      uid = ((uint64_t)(ctx.rank + 1) << 32) | seq++;
      hc::out("psent " + std::to_string(uid) + " -1 " + std::to_string(ix));
      world.async_bcast(h1, uid, ix, ps[ix]); }
  }
  for (int rep = 0; rep < 3; ++rep) {   // several pointers in one container argument, neighbours on both sides of 2^16
    std::vector<uint32_t> want; std::vector<ygm::ygm_ptr<PObj>> v; std::string w;
    size_t n = 2 + g.below(6); for (size_t i = 0; i < n; ++i) { uint32_t ix = idxs[g.below(idxs.size())]; if (ix >= N) ix = (uint32_t)(N - 1); want.push_back(ix); v.push_back(ps[ix]); w += " " + std::to_string(ix); }
    uint64_t uid = ((uint64_t)(ctx.rank + 1) << 32) | seq++; bool bc = rep == 2; int dest = (int)g.below(ctx.nranks);
    hc::out("psent " + std::to_string(uid) + " " + std::to_string(bc ? -1 : dest) + w);
    if (bc) world.async_bcast(h2, uid, want, v); else world.async(dest, h2, uid, want, v);
  }
  world.barrier();
  hc::out("done");
  return 0; }

extern "C" int sim_main(int argc, char** argv) {
  std::string mode = argc > 1 ? argv[1] : "shapes";
  if (mode == "probe") return probe::run(argc, argv);
  if (mode == "ptrbig") return run_ptrbig(argc, argv);
  auto ops = make_ops(std::make_index_sequence<NSHAPES>{});
  if (mode == "shapes" || mode == "ser" || mode == "load") {
    hc::open_out(0);
    for (int i = 0; i < NPTR; ++i) { g_pool[i] = pool_value(0, i); ptrs().push_back(ygm::ygm_ptr<int>(&g_pool[i])); }
    ctx.forge_ptrs = true;
    if (mode == "shapes") { for (size_t i = 0; i < ops.size(); ++i) hc::out("shape " + std::to_string(i) + " | " + ops[i].ty()); return 0; }
    ctx.seed = strtoull(argv[2], 0, 10); ctx.big = strtoull(argv[3], 0, 10);
    std::vector<std::vector<std::string>> cases; read_lines(argv[4], cases);
    for (auto& c : cases) {
      if (c.size() < 3) continue;
      uint64_t k = strtoull(c[0].c_str(), 0, 10); size_t s = strtoull(c[1].c_str(), 0, 10), sz = strtoull(c[2].c_str(), 0, 10);
      if (c.size() < 3 || s >= ops.size()) continue;
      if (mode == "ser") hc::out("case " + c[0] + " " + c[1] + " " + c[2] + " " + ops[s].ser(k, sz));
      else { std::vector<std::byte> b; if (c.size() < 4 || !get_hex(c[3], b)) { hc::out("load " + c[0] + " bad-hex"); continue; } hc::out("load " + c[0] + " " + ops[s].load(k, sz, b)); }
    }
    return 0;
  }
  // ---- traffic
  ctx.seed = strtoull(argv[2], 0, 10); ctx.big = strtoull(argv[3], 0, 10); long nmsg = atol(argv[4]);
  ctx.stateful_bcast = argc > 5 ? atoi(argv[5]) != 0 : true;
  ygm::comm world(MPI_COMM_WORLD); ctx.comm = &world; ctx.rank = world.rank(); ctx.nranks = world.size();
  hc::open_out(world.rank());
  for (int i = 0; i < NPTR; ++i) { g_pool[i] = pool_value(ctx.rank, i); ptrs().push_back(world.make_ygm_ptr(g_pool[i])); }
  auto hs = make_handlers(std::make_index_sequence<NSHAPES>{});
  if (!ctx.stateful_bcast) for (auto& h : hs) if (h.hidx % 2 == 1) h.bcast_ok = false;   // odd handler types carry functor state
  world.barrier();
  // calibration: one message of every handler type, alone in its buffer, rank 0 -> last rank
  const uint64_t CAL = 1ULL << 62, CALB = 3ULL << 61;
  for (auto& h : hs) { if (ctx.rank == 0) { hc::ev("calib " + std::to_string(h.hidx)); h.send(world, ctx.nranks - 1, CAL + h.hidx, false); } world.barrier(); }
  for (auto& h : hs) if (h.bcast_ok) { if (ctx.rank == 0) { hc::ev("calibb " + std::to_string(h.hidx)); h.send(world, 0, CALB + h.hidx, true); } world.barrier(); }
  if (ctx.rank == 0) hc::ev("calib end");
  world.barrier();
  // generated traffic
  rng g(mix(ctx.seed, 7777 + ctx.rank));
  for (long i = 0; i < nmsg; ++i) {
    uint64_t uid = ((uint64_t)(ctx.rank + 1) << 32) | (uint64_t)i;
    const Handler& h = hs[(g.below(3) == 0) ? g.below(hs.size()) : (size_t)((i * 7 + ctx.rank * 13) % hs.size())];
    bool bc = h.bcast_ok && g.below(3) == 0;
    int dest = (int)g.below(ctx.nranks);
    h.send(world, dest, uid, bc);
    if (g.below(23) == 0) world.local_progress();
    if (i == nmsg / 3) world.barrier();
  }
  world.barrier();
  hc::out("done");
  return 0;
}
#endif  // WIRE_PROBE_ONLY
