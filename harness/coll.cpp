// C09 correspondence harness: the real collectives of ygm::comm / collective.hpp on every rank.
//   coll types                     -> `type <cty> <sizeof> <kind> <MPI datatype>` for every mpi_typeof specialisation
//   coll vals <seed> <rounds>      -> value tests.  All ranks derive ALL ranks' inputs from the seed; each test prints
//                                       `r <round> <test> <result>` on every rank and `i <round> <test> <in_0> … <in_{n-1}>` on rank 0.
//                                     Strings are written `_<chars>`, vectors `_item,item,…` (item = str:int).
//                                     IEEE tests (`f…:f32|f64`) print float/double as hex bit patterns (`nan` canonical): rounding-
//                                     sensitive magnitudes, near-overflow values, one infinity.
//   coll async <seed> <rounds> [nfn] -> "free-function reductions complete outstanding asyncs": chains of asyncs are issued and a
//                                     free function is called WITHOUT a barrier; prints `a <round> <fn> <handlers run here> <expected>`
//   coll asyncval <seed> <rounds> [nfn] -> the idiom `ygm::sum(counter, world)`: chains of asyncs whose handlers UPDATE a per-rank variable
//                                     are issued, then a free function is called ON THAT VARIABLE without a barrier; prints
//                                     `v <round> <fn> <var at call> <flag at call> <result> <var after return> <expected final var>`
//   coll sweep <kind> <sizes>      -> size-boundary sweep of the serialised collectives: one run loops over all sizes (`a-b,c,d-e`), no YGM
//                                     traffic in between; kinds all_reduce_str | all_reduce_vec64 | all_reduce_vecpair | mpi_bcast_str | bcast_str |
//                                     sendrecv_str; every rank prints `s <size> <root> <crc32 of the printed result token> <token length>`
//   coll prims                     -> brackets one call of every collective with `enter <c>` / `exit <c>` events on the wire log
// The blocking members (comm::all_reduce*, ygm::bcast) are only called right after a barrier() (see DESIGN.md D7).
#include "hcommon.hpp"
#include <ygm/comm.hpp>
#include <ygm/collective.hpp>
#include <algorithm>
#include <cmath>
#include <cstring>
#include <limits>
#include <type_traits>
#include <utility>

static int g_rank = 0, g_size = 1;
static inline uint64_t mix(uint64_t z) { z += 0x9e3779b97f4a7c15ULL; z = (z ^ (z >> 30)) * 0xbf58476d1ce4e5b9ULL; z = (z ^ (z >> 27)) * 0x94d049bb133111ebULL; return z ^ (z >> 31); }

// ------------------------------------------------------------------ printing
using vec_t = std::vector<std::pair<std::string, int>>;
template <class T> std::string show(const T& v) {
  if constexpr (std::is_same<T, bool>::value) return v ? "1" : "0";
  else if constexpr (std::is_floating_point<T>::value) return std::to_string((long long)v);
  else if constexpr (std::is_signed<T>::value) return std::to_string((long long)v);
  else return std::to_string((unsigned long long)v);
}
template <> std::string show<std::string>(const std::string& s) { return "_" + s; }
template <> std::string show<vec_t>(const vec_t& v) {
  std::string o = "_";
  for (size_t i = 0; i < v.size(); ++i) { if (i) o += ","; o += v[i].first + ":" + std::to_string(v[i].second); }
  return o;
}
template <class T> void emit(int round, const std::string& test, const std::vector<T>& in, const T& res) {
  hc::out("r " + std::to_string(round) + " " + test + " " + show(res));
  if (g_rank == 0) { std::string l = "i " + std::to_string(round) + " " + test; for (size_t k = 0; k < in.size(); ++k) { T x = in[k]; l += " " + show(x); } hc::out(l); }
}

// ------------------------------------------------------------------ generators (same stream on every rank)
// full: whole range of T incl. extremes; small: sums of g_size values cannot overflow a signed T / stay exact in double
template <class T> std::vector<T> gen(hc::rng& g, bool small) {
  std::vector<T> v(g_size);
  int style = (int)g.below(6);   // 0 all equal, 1 extremes mixed in, else random
  for (int i = 0; i < g_size; ++i) {
    if constexpr (std::is_same<T, bool>::value) {
      v[i] = style == 0 ? (g.s & 1) : (style == 1 ? true : (style == 2 ? (i != (int)(g.s % g_size)) : (g.next() & 1)));
    } else if constexpr (std::is_floating_point<T>::value) {
      long long lim = small ? (1LL << 40) : (1LL << 50);
      v[i] = (T)((long long)(g.next() % (uint64_t)(2 * lim)) - lim);
      if (style == 1 && g.below(3) == 0) v[i] = (T)(g.below(2) ? lim : -lim);
    } else if constexpr (std::is_signed<T>::value) {
      long long lo = std::numeric_limits<T>::min(), hi = std::numeric_limits<T>::max();
      if (small) { lo /= 32; hi /= 32; }
      unsigned long long span = (unsigned long long)hi - (unsigned long long)lo + 1ULL;   // 0 means 2^64
      unsigned long long r = g.next(); if (span) r %= span;
      v[i] = (T)(long long)((unsigned long long)lo + r);
      if (style == 1 && g.below(3) == 0) v[i] = (T)(g.below(2) ? hi : lo);
    } else {
      unsigned long long hi = std::numeric_limits<T>::max();
      v[i] = (T)(g.next() & hi);
      if (style == 1 && g.below(3) == 0) v[i] = (T)(g.below(2) ? hi : 0);
    }
    if (style == 0 && i > 0) v[i] = v[0];
  }
  return v;
}
static std::string gen_str(hc::rng& g, int maxlen) { std::string s; int L = (int)g.below(maxlen + 1); for (int j = 0; j < L; ++j) s.push_back((char)('a' + g.below(26))); return s; }
static std::vector<std::string> gen_strs(hc::rng& g) { std::vector<std::string> v(g_size); for (auto& s : v) s = gen_str(g, 5); return v; }
static vec_t gen_vec1(hc::rng& g) { vec_t v; int L = (int)g.below(4); for (int j = 0; j < L; ++j) { std::string s = gen_str(g, 2); s.push_back((char)('a' + g.below(26))); v.emplace_back(s, (int)g.below(199) - 99); } return v; }
static std::vector<vec_t> gen_vecs(hc::rng& g) { std::vector<vec_t> v(g_size); for (auto& x : v) x = gen_vec1(g); return v; }

// ------------------------------------------------------------------ IEEE float / double, bit exact
template <class T> std::string fshow(const T& v) {
  if (v != v) return "nan";
  char buf[32];
  if constexpr (sizeof(T) == 4) { uint32_t b; memcpy(&b, &v, 4); snprintf(buf, sizeof buf, "%08x", b); }
  else { uint64_t b; memcpy(&b, &v, 8); snprintf(buf, sizeof buf, "%016llx", (unsigned long long)b); }
  return buf;
}
template <class T> void femit(int round, const std::string& test, const std::vector<T>& in, const T& res) {
  hc::out("r " + std::to_string(round) + " " + test + " " + fshow(res));
  if (g_rank == 0) { std::string l = "i " + std::to_string(round) + " " + test; for (auto& x : in) l += " " + fshow(x); hc::out(l); }
}
// rounding-sensitive inputs: no NaN, no -0.0, at most one infinity per vector (so the unchanged code never produces NaN
// in a rank-order fold); adding a value to a much smaller prefix absorbs it, partial sums may overflow
template <class T> std::vector<T> gen_ieee(hc::rng& g) {
  const T MAXV = std::numeric_limits<T>::max();
  const T big = sizeof(T) == 4 ? (T)1e8 : (T)1e16;          // above 2^24 resp. 2^53: big + 1 == big
  const T mixed[] = {(T)1, big, (T)0.1, -big, (T)3, (T)1e-3, (T)0.5, big * 3, (T)-1, (T)0.3, (T)0.7, big / 7};
  const T nearmax[] = {MAXV * (T)0.6, MAXV * (T)0.75, MAXV, -MAXV * (T)0.5, (T)1, MAXV * (T)0.3, MAXV * (T)0.9};
  const T smalls[] = {(T)1, (T)0.5, (T)0.1, (T)0.3, (T)2.5};
  std::vector<T> v(g_size);
  int style = (int)g.below(5);
  int infpos = (int)g.below(g_size); bool infneg = g.below(2);
  for (int i = 0; i < g_size; ++i) {
    switch (style) {
      case 0: v[i] = mixed[g.below(12)]; break;
      case 1: v[i] = nearmax[g.below(7)]; break;
      case 2: v[i] = (i == infpos) ? (infneg ? -std::numeric_limits<T>::infinity() : std::numeric_limits<T>::infinity()) : mixed[g.below(12)]; break;
      case 3: { T m = (T)0.5 + (T)((double)(g.next() >> 11) / 9007199254740992.0) / 2; int e = (int)g.below(81) - 40;
                v[i] = std::ldexp(m, e) * (g.below(2) ? (T)1 : (T)-1); break; }
      default: v[i] = (i % 2 == 0) ? smalls[g.below(5)] : (g.below(2) ? big : big * 3) * (g.below(4) == 0 ? (T)-1 : (T)1); break;   // large after small
    }
  }
  return v;
}
template <class T> void ieee(ygm::comm& w, hc::rng& g, int round, const std::string& ty) {
  auto in = gen_ieee<T>(g);
  const T m = in[g_rank];
  w.barrier();
  femit(round, "fall_reduce_sum:" + ty, in, w.all_reduce_sum(m));
  femit(round, "fall_reduce_min:" + ty, in, w.all_reduce_min(m));
  femit(round, "fall_reduce_max:" + ty, in, w.all_reduce_max(m));
  w.barrier();
  femit(round, "ftree_SUM:" + ty, in, w.all_reduce(m, [](const T& a, const T& b) { return (T)(a + b); }));
  femit(round, "ftree_MIN:" + ty, in, w.all_reduce(m, [](const T& a, const T& b) { return b < a ? b : a; }));
  femit(round, "ftree_MAX:" + ty, in, w.all_reduce(m, [](const T& a, const T& b) { return a < b ? b : a; }));
  femit(round, "fsum:" + ty, in, ygm::sum(m, w));
  femit(round, "fmin:" + ty, in, ygm::min(m, w));
  femit(round, "fmax:" + ty, in, ygm::max(m, w));
  femit(round, "fprefix_sum:" + ty, in, ygm::prefix_sum(m, w));
  int root = (int)g.below(g_size);
  T b = m;
  w.barrier();
  ygm::bcast(b, root, w);
  femit(round, "fbcast:" + ty + ":" + std::to_string(root), in, b);
}

// ------------------------------------------------------------------ value tests
template <class T> void numeric(ygm::comm& w, hc::rng& g, int round, const std::string& ty) {
  auto full = gen<T>(g, false), small = gen<T>(g, true);
  const T mf = full[g_rank], ms = small[g_rank];
  w.barrier();
  emit(round, "all_reduce_sum:" + ty, small, w.all_reduce_sum(ms));
  emit(round, "all_reduce_min:" + ty, full, w.all_reduce_min(mf));
  emit(round, "all_reduce_max:" + ty, full, w.all_reduce_max(mf));
  w.barrier();
  emit(round, "tree_SUM:" + ty, small, w.all_reduce(ms, [](const T& a, const T& b) { return (T)(a + b); }));
  emit(round, "tree_MIN:" + ty, full, w.all_reduce(mf, [](const T& a, const T& b) { return b < a ? b : a; }));
  emit(round, "tree_MAX:" + ty, full, w.all_reduce(mf, [](const T& a, const T& b) { return a < b ? b : a; }));
  emit(round, "sum:" + ty, small, ygm::sum(ms, w));
  emit(round, "min:" + ty, full, ygm::min(mf, w));
  emit(round, "max:" + ty, full, ygm::max(mf, w));
  emit(round, "prefix_sum:" + ty, small, ygm::prefix_sum(ms, w));
  int root = (int)g.below(g_size);
  T b = full[g_rank];
  w.barrier();
  ygm::bcast(b, root, w);
  emit(round, "bcast:" + ty + ":" + std::to_string(root), full, b);
}

template <class T> void same_test(ygm::comm& w, hc::rng& g, int round, const std::string& ty, std::vector<T> in) {
  // variant: 0 = all ranks hold rank-0's value, 1 = exactly one rank (possibly 0) differs, 2 = as generated
  int variant = (int)g.below(3); int odd = (int)g.below(g_size);
  if (variant < 2) { for (int i = 1; i < g_size; ++i) in[i] = in[0]; }
  std::vector<T> orig = in;
  if (variant == 1) {
    if constexpr (std::is_same<T, int64_t>::value) in[odd] = in[odd] + 1;
    else if constexpr (std::is_same<T, std::string>::value) in[odd] = in[odd] + "x";
    else in[odd].emplace_back("zz", 7);
  }
  w.barrier();
  bool res = ygm::is_same(in[g_rank], w);
  hc::out("r " + std::to_string(round) + " is_same:" + ty + " " + (res ? "1" : "0"));
  if (g_rank == 0) { std::string l = "i " + std::to_string(round) + " is_same:" + ty; for (auto& x : in) l += " " + show(x); hc::out(l); }
}

static void vals(ygm::comm& w, uint64_t seed, int rounds) {
  for (int round = 0; round < rounds; ++round) {
    hc::rng g(mix(seed * 1000003ULL + (uint64_t)round) ^ ((uint64_t)g_size << 48));
    numeric<int8_t>(w, g, round, "i8");   numeric<int16_t>(w, g, round, "i16");
    numeric<int32_t>(w, g, round, "i32"); numeric<int64_t>(w, g, round, "i64");
    numeric<uint8_t>(w, g, round, "u8");  numeric<uint16_t>(w, g, round, "u16");
    numeric<uint32_t>(w, g, round, "u32"); numeric<uint64_t>(w, g, round, "u64");
    numeric<double>(w, g, round, "f64");
    for (int k = 0; k < 3; ++k) {   // three input styles per round and type
      ieee<float>(w, g, round * 3 + k, "f32");
      ieee<double>(w, g, round * 3 + k, "f64");
    }
    {  // bool
      auto in = gen<bool>(g, false); bool m = in[g_rank];
      emit(round, "logical_and", in, ygm::logical_and(m, w));
      emit(round, "logical_or", in, ygm::logical_or(m, w));
      w.barrier();
      emit(round, "tree_LAND:bool", in, w.all_reduce(m, [](const bool& a, const bool& b) { return a && b; }));
      emit(round, "tree_LOR:bool", in, w.all_reduce(m, [](const bool& a, const bool& b) { return a || b; }));
      int root = (int)g.below(g_size); bool b = m; w.barrier(); ygm::bcast(b, root, w);
      emit(round, "bcast:bool:" + std::to_string(root), in, b);
    }
    {  // std::string through the serialised path; non-commutative merges pin the tree
      auto in = gen_strs(g); const std::string m = in[g_rank];
      w.barrier();
      emit(round, "tree_cat", in, w.all_reduce(m, [](const std::string& a, const std::string& b) { return a + b; }));
      emit(round, "tree_paren", in, w.all_reduce(m, [](const std::string& a, const std::string& b) { return "(" + a + "." + b + ")"; }));
      for (int root = 0; root < g_size; ++root) {
        std::string b = m; w.barrier(); ygm::bcast(b, root, w);
        emit(round, "bcast_str:" + std::to_string(root), in, b);
      }
      same_test<std::string>(w, g, round, "str", in);
      // the public transfer helpers of comm, directly: mpi_bcast from every root, mpi_send/mpi_recv ping-pong between (2k, 2k+1)
      for (int root = 0; root < g_size; ++root) {
        w.barrier();
        emit(round, "mpi_bcast:" + std::to_string(root), in, w.mpi_bcast(m, root, w.get_mpi_comm()));
      }
      w.barrier();
      std::string got = m;
      if (g_rank % 2 == 0 && g_rank + 1 < g_size) { w.mpi_send(m, g_rank + 1, 3, w.get_mpi_comm()); got = w.mpi_recv<std::string>(g_rank + 1, 4, w.get_mpi_comm()); }
      else if (g_rank % 2 == 1) { got = w.mpi_recv<std::string>(g_rank - 1, 3, w.get_mpi_comm()); w.mpi_send(got + m, g_rank - 1, 4, w.get_mpi_comm()); }
      emit(round, "sendrecv", in, got);
    }
    {  // vector<pair<string,int>>
      auto in = gen_vecs(g); const vec_t m = in[g_rank];
      w.barrier();
      emit(round, "tree_vec", in, w.all_reduce(m, [](const vec_t& a, const vec_t& b) { vec_t r = a; r.insert(r.end(), b.begin(), b.end()); return r; }));
      for (int root = 0; root < g_size; ++root) {
        vec_t b = m; w.barrier(); ygm::bcast(b, root, w);
        emit(round, "bcast_vec:" + std::to_string(root), in, b);
      }
      same_test<vec_t>(w, g, round, "vec", in);
    }
    {  // POD bcast from every root
      auto in = gen<int64_t>(g, false);
      for (int root = 0; root < g_size; ++root) {
        int64_t b = in[g_rank]; w.barrier(); ygm::bcast(b, root, w);
        emit(round, "bcast:i64:" + std::to_string(root), in, b);
      }
      same_test<int64_t>(w, g, round, "i64", in);
    }
  }
}

// ------------------------------------------------------------------ asyncs must be complete when a free-function reduction returns
static long g_handled = 0;
static int chain_dest(uint64_t h) { return (int)(mix(h) % (uint64_t)g_size); }
struct hop_fn {
  template <typename Comm> void operator()(Comm* c, uint64_t h, int32_t ttl) {
    g_handled++;
    if (ttl > 0) { uint64_t nh = mix(h ^ 0x5bd1e995ULL); c->async(chain_dest(nh), hop_fn(), nh, ttl - 1); }
  }
};
static void asyncs(ygm::comm& w, uint64_t seed, int rounds, int nfn) {
  static const char* fns[] = {"sum", "min", "max", "prefix_sum", "logical_and", "logical_or", "is_same"};
  std::vector<long> expected(g_size, 0);
  for (int round = 0; round < rounds; ++round) {
    hc::rng g(mix(seed * 7919ULL + (uint64_t)round) ^ ((uint64_t)g_size << 40));
    int fn = (round + (int)(seed % (uint64_t)nfn)) % nfn;   // nfn = 6 leaves out is_same (its bcast precedes the barrier: D7 hazard with tiny buffers)
    // every rank computes every chain (so it knows how many handlers must have run here) and issues its own
    for (int origin = 0; origin < g_size; ++origin) {
      int k = 1 + (int)g.below(4);
      for (int j = 0; j < k; ++j) {
        uint64_t h = g.next(); int ttl = (int)g.below(4);
        if (origin == g_rank) w.async(chain_dest(h), hop_fn(), h, (int32_t)ttl);
        uint64_t hh = h;
        for (int t = ttl; t >= 0; --t) { expected[chain_dest(hh)]++; hh = mix(hh ^ 0x5bd1e995ULL); }
      }
    }
    long v = (long)g_rank + 1; long res = 0;
    switch (fn) {   // NO barrier here: the free function must provide it
      case 0: res = ygm::sum(v, w); break;
      case 1: res = ygm::min(v, w); break;
      case 2: res = ygm::max(v, w); break;
      case 3: res = ygm::prefix_sum(v, w); break;
      case 4: res = ygm::logical_and(v > 0, w); break;
      case 5: res = ygm::logical_or(v > 1, w); break;
      case 6: res = ygm::is_same((long)7, w); break;
    }
    long seen = g_handled;     // read before anything else can make progress
    hc::out("a " + std::to_string(round) + " " + fns[fn] + " " + std::to_string(seen) + " " + std::to_string(expected[g_rank]) + " " + std::to_string(res));
    w.barrier();               // separates the rounds whatever the free function did
  }
}

// ------------------------------------------------------------------ reductions over a variable that outstanding asyncs still update
static long g_var = 0; static bool g_flag = false;
static long delta_of(uint64_t h) { long d = (long)(mix(h ^ 0x7f4a7c15ULL) % 101) - 50; return d == 0 ? 1 : d; }
struct upd_fn {
  template <typename Comm> void operator()(Comm* c, uint64_t h, int32_t ttl) {
    g_var += delta_of(h); g_flag = (delta_of(h) & 1) != 0;
    if (ttl > 0) { uint64_t nh = mix(h ^ 0x5bd1e995ULL); c->async(chain_dest(nh), upd_fn(), nh, ttl - 1); }
  }
};
static void asyncval(ygm::comm& w, uint64_t seed, int rounds, int nfn) {
  static const char* fns[] = {"sum", "min", "max", "prefix_sum", "logical_and", "logical_or", "is_same"};
  for (int round = 0; round < rounds; ++round) {
    hc::rng g(mix(seed * 104729ULL + (uint64_t)round) ^ ((uint64_t)g_size << 36));
    int fn = (round + (int)(seed % (uint64_t)nfn)) % nfn;
    // initial values of the variable (is_same: equal everywhere, so that it is true AT THE CALL unless a handler already ran)
    std::vector<long> fin(g_size);
    for (int r = 0; r < g_size; ++r) fin[r] = (fn == 6) ? 7 : (long)(g.next() % 100);
    w.barrier();                       // previous round is quiescent: safe to reset
    g_var = fin[g_rank]; g_flag = (g.s >> (g_rank % 60)) & 1;
    w.barrier();                       // nobody issues before everybody has reset
    for (int origin = 0; origin < g_size; ++origin) {
      int k = 1 + (int)g.below(4);
      for (int j = 0; j < k; ++j) {
        uint64_t h = g.next(); int ttl = (int)g.below(4);
        if (origin == g_rank) w.async(chain_dest(h), upd_fn(), h, (int32_t)ttl);
        uint64_t hh = h;
        for (int t = ttl; t >= 0; --t) { fin[chain_dest(hh)] += delta_of(hh); hh = mix(hh ^ 0x5bd1e995ULL); }
      }
    }
    const long at = g_var; const bool atf = g_flag;     // what the variables hold at the call (handlers may already have run)
    long res = 0;
    switch (fn) {   // the variable itself is passed; NO barrier here
      case 0: res = ygm::sum(g_var, w); break;
      case 1: res = ygm::min(g_var, w); break;
      case 2: res = ygm::max(g_var, w); break;
      case 3: res = ygm::prefix_sum(g_var, w); break;
      case 4: res = ygm::logical_and(g_flag, w); break;
      case 5: res = ygm::logical_or(g_flag, w); break;
      case 6: res = ygm::is_same(g_var, w); break;
    }
    long after = g_var;
    hc::out("v " + std::to_string(round) + " " + fns[fn] + " " + std::to_string(at) + " " + (atf ? "1" : "0") + " " + std::to_string(res) + " " +
            std::to_string(after) + " " + std::to_string(fin[g_rank]));
  }
  w.barrier();
}

// ------------------------------------------------------------------ size-boundary sweep of the serialised transfers
static uint32_t crc32_of(const std::string& s) {
  static uint32_t tab[256]; static bool init = false;
  if (!init) { for (uint32_t i = 0; i < 256; ++i) { uint32_t c = i; for (int k = 0; k < 8; ++k) c = (c & 1) ? 0xEDB88320u ^ (c >> 1) : c >> 1; tab[i] = c; } init = true; }
  uint32_t c = 0xFFFFFFFFu; for (unsigned char ch : s) c = tab[(c ^ ch) & 0xFF] ^ (c >> 8); return c ^ 0xFFFFFFFFu;
}
// input of rank r for size parameter L: period-26 pattern depending on (r, L); the check regenerates it
static std::string sweep_str(int r, long L) { std::string s((size_t)L, 'a'); long off = (long)r * 7 + L; for (long j = 0; j < L; ++j) s[(size_t)j] = (char)('a' + (j * 3 + off) % 26); return s; }
static std::vector<uint64_t> sweep_vec64(int r, long k) { std::vector<uint64_t> v((size_t)k); for (long j = 0; j < k; ++j) v[(size_t)j] = (uint64_t)(r * 1000003L + j * 17 + k); return v; }
static std::string show64(const std::vector<uint64_t>& v) { std::string o = "_"; for (size_t i = 0; i < v.size(); ++i) { if (i) o += ","; o += std::to_string((unsigned long long)v[i]); } return o; }
static std::vector<std::pair<long, long>> parse_sizes(const char* spec) {
  std::vector<std::pair<long, long>> v; std::stringstream ss(spec); std::string t;
  while (std::getline(ss, t, ',')) { if (t.empty()) continue; size_t d = t.find('-'); if (d == std::string::npos) v.emplace_back(atol(t.c_str()), atol(t.c_str())); else v.emplace_back(atol(t.substr(0, d).c_str()), atol(t.substr(d + 1).c_str())); }
  return v;
}
static void sweep_line(long L, int root, const std::string& tok) {
  hc::out("s " + std::to_string(L) + " " + std::to_string(root) + " " + std::to_string(crc32_of(tok)) + " " + std::to_string(tok.size()));
}
static void sweep(ygm::comm& w, const std::string& kind, const char* spec) {
  w.barrier();      // the only YGM traffic; everything below is blocking MPI on m_comm_other
  std::vector<int> roots = {0}; if (g_size > 1) roots.push_back(g_size - 1); if (g_size > 2) roots.push_back(g_size / 2);
  for (auto range : parse_sizes(spec)) for (long L = range.first; L <= range.second; ++L) {
    if (kind == "all_reduce_str") {
      sweep_line(L, -1, show(w.all_reduce(sweep_str(g_rank, L), [](const std::string& a, const std::string& b) { return a + b; })));
    } else if (kind == "all_reduce_vec64") {
      sweep_line(L, -1, show64(w.all_reduce(sweep_vec64(g_rank, L), [](const std::vector<uint64_t>& a, const std::vector<uint64_t>& b) { auto r = a; r.insert(r.end(), b.begin(), b.end()); return r; })));
    } else if (kind == "all_reduce_vecpair") {
      vec_t m; m.emplace_back(sweep_str(g_rank, L), g_rank - 2);
      sweep_line(L, -1, show(w.all_reduce(m, [](const vec_t& a, const vec_t& b) { vec_t r = a; r.insert(r.end(), b.begin(), b.end()); return r; })));
    } else if (kind == "mpi_bcast_str") {
      for (int root : roots) sweep_line(L, root, show(w.mpi_bcast(sweep_str(g_rank, L), root, w.get_mpi_comm())));
    } else if (kind == "bcast_str") {
      for (int root : roots) { std::string b = sweep_str(g_rank, L); ygm::bcast(b, root, w); sweep_line(L, root, show(b)); }
    } else if (kind == "sendrecv_str") {   // (2k -> 2k+1) and back, as in `vals`
      std::string m = sweep_str(g_rank, L), got = m;
      if (g_rank % 2 == 0 && g_rank + 1 < g_size) { w.mpi_send(m, g_rank + 1, 3, w.get_mpi_comm()); got = w.mpi_recv<std::string>(g_rank + 1, 4, w.get_mpi_comm()); }
      else if (g_rank % 2 == 1) { got = w.mpi_recv<std::string>(g_rank - 1, 3, w.get_mpi_comm()); w.mpi_send(got + m, g_rank - 1, 4, w.get_mpi_comm()); }
      sweep_line(L, -1, show(got));
    }
  }
}

// ------------------------------------------------------------------ program structure on the wire log
static void prims(ygm::comm& w) {
  long v = g_rank + 1; bool b = true; std::string s = "r" + std::to_string(g_rank);
  w.barrier();
#define BR(name, call) do { w.barrier(); hc::ev(std::string("enter ") + name); call; hc::ev(std::string("exit ") + name); } while (0)
  BR("sum", ygm::sum(v, w));
  BR("min", ygm::min(v, w));
  BR("max", ygm::max(v, w));
  BR("prefix_sum", ygm::prefix_sum(v, w));
  BR("logical_and", ygm::logical_and(b, w));
  BR("logical_or", ygm::logical_or(b, w));
  BR("bcast", ygm::bcast(v, 0, w));
  BR("bcast", ygm::bcast(s, g_size - 1, w));
  BR("is_same", ygm::is_same(v, w));
  BR("all_reduce_sum", w.all_reduce_sum(v));
  BR("all_reduce_min", w.all_reduce_min(v));
  BR("all_reduce_max", w.all_reduce_max(v));
  BR("all_reduce", w.all_reduce(s, [](const std::string& a, const std::string& c) { return a + c; }));
#undef BR
  // cf_barrier() is a barrier: no rank leaves before every rank has entered (ranks enter skewed: the higher the rank the later)
  for (int k = 0; k < 3; ++k) {
    w.barrier();
    for (int i = 0; i < g_rank * 4; ++i) w.local_progress();
    hc::ev("cfb+ " + std::to_string(k)); w.cf_barrier(); hc::ev("cfb- " + std::to_string(k));
  }
}

template <class T> void type_line(const char* name) {
  const char* kind = std::is_same<T, bool>::value ? "bool" : std::is_same<T, char>::value ? "char"
                   : std::is_floating_point<T>::value ? "float" : std::is_signed<T>::value ? "sint" : "uint";
  MPI_Datatype d = ygm::detail::mpi_typeof(T());
  const char* dn = d == MPI_CHAR ? "CHAR" : d == MPI_CXX_BOOL ? "CXX_BOOL" : d == MPI_INT8_T ? "INT8_T" : d == MPI_INT16_T ? "INT16_T"
                 : d == MPI_INT32_T ? "INT32_T" : d == MPI_INT64_T ? "INT64_T" : d == MPI_UINT8_T ? "UINT8_T" : d == MPI_UINT16_T ? "UINT16_T"
                 : d == MPI_UINT32_T ? "UINT32_T" : d == MPI_UINT64_T ? "UINT64_T" : d == MPI_FLOAT ? "FLOAT" : d == MPI_DOUBLE ? "DOUBLE"
                 : d == MPI_LONG_DOUBLE ? "LONG_DOUBLE" : "OTHER";
  hc::out(std::string("type ") + name + " " + std::to_string(sizeof(T)) + " " + kind + " " + dn);
}

extern "C" int sim_main(int argc, char** argv) {
  ygm::comm world(MPI_COMM_WORLD);
  g_rank = world.rank(); g_size = world.size();
  hc::open_out(g_rank);
  std::string mode = argc > 1 ? argv[1] : "types";
  uint64_t seed = argc > 2 ? strtoull(argv[2], nullptr, 10) : 1; int rounds = argc > 3 ? atoi(argv[3]) : 1;
  if (mode == "types") {
    type_line<char>("char"); type_line<bool>("bool");
    type_line<int8_t>("i8"); type_line<int16_t>("i16"); type_line<int32_t>("i32"); type_line<int64_t>("i64");
    type_line<uint8_t>("u8"); type_line<uint16_t>("u16"); type_line<uint32_t>("u32"); type_line<uint64_t>("u64");
    type_line<float>("f32"); type_line<double>("f64"); type_line<long double>("ldouble");
    // the types the library itself passes through mpi_typeof
    type_line<size_t>("size_t");
  } else if (mode == "vals") vals(world, seed, rounds);
  else if (mode == "async") asyncs(world, seed, rounds, argc > 4 ? atoi(argv[4]) : 7);
  else if (mode == "asyncval") asyncval(world, seed, rounds, argc > 4 ? atoi(argv[4]) : 7);
  else if (mode == "sweep") sweep(world, argc > 2 ? argv[2] : "all_reduce_str", argc > 3 ? argv[3] : "0-64");
  else if (mode == "prims") prims(world);
  hc::out("done");
  return 0;
}
