// C10/C13 correspondence harness: the real array block partition and the real hash
// owners, evaluated on every rank.  args: "array" len,len,...  |  "hash" nkeys seed
#include "hcommon.hpp"
#include <ygm/comm.hpp>
#include <ygm/container/array.hpp>
#include <ygm/container/map.hpp>
#include <ygm/container/set.hpp>
#include <ygm/container/disjoint_set.hpp>
#include <ygm/io/multi_output.hpp>

extern "C" int sim_main(int argc, char** argv) {
  ygm::comm world(MPI_COMM_WORLD);
  hc::open_out(world.rank());
  std::string mode = argc > 1 ? argv[1] : "array";
  if (mode == "array") {
    for (long len : hc::longs(argv[2])) {
      ygm::container::array<int> a(world, (size_t)len);
      hc::out("begin " + std::to_string(len));   // a trap below leaves 'begin' without 'owners'
      std::ostringstream o; o << "owners " << len;
      for (long i = 0; i < len; ++i) o << " " << a.owner(i);
      hc::out(o.str());
      std::ostringstream m; m << "mine " << len;
      for (long i = 0; i < len; ++i) if (a.is_mine(i)) m << " " << i;
      hc::out(m.str());
      std::ostringstream f; f << "forall " << len;
      a.for_all([&f](const size_t idx, int& v) { f << " " << idx; });
      hc::out(f.str());
    }
  } else {  // hash owners of generated keys, through every hash-partitioned container
    long nkeys = atol(argv[2]); hc::rng g(atol(argv[3]));
    ygm::container::map<int64_t, int> mi(world); ygm::container::map<std::string, int> ms(world);
    ygm::container::set<int64_t> si(world); ygm::container::set<std::string> ss(world);

    std::ostringstream o; o << "hash";
    for (long k = 0; k < nkeys; ++k) {
      int64_t ik = (k % 3 == 0) ? (int64_t)k : (int64_t)g.next();
      std::string sk; size_t L = (k == 0) ? 0 : g.below(24); for (size_t j = 0; j < L; ++j) sk.push_back((char)(32 + g.below(95)));
      size_t hi = std::hash<int64_t>{}(ik), hs = std::hash<std::string>{}(sk);
      o << " " << hi << ":" << mi.owner(ik) << ":" << si.owner(ik) << " " << hs << ":" << ms.owner(sk) << ":" << ss.owner(sk);
    }
    hc::out(o.str());
  }
  return 0;
}
