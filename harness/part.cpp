// C10/C13 correspondence harness: the real array block partition and the real hash
// owners, evaluated on every rank.  args: "array" len,len,...  |  "hash" nkeys seed  |  "keyeq" seed  | ...
#include "hcommon.hpp"
#include <ygm/comm.hpp>
#include <ygm/container/array.hpp>
#include <ygm/container/map.hpp>
#include <ygm/container/set.hpp>
#include <ygm/container/disjoint_set.hpp>
#include <ygm/io/multi_output.hpp>
#include <cstring>

// key types whose object bytes are not in 1:1 correspondence with their value (mode "keyeq"): equal keys are ONE key
struct vkey { uint32_t id; uint32_t tag; template <class A> void serialize(A& ar) { ar(id, tag); } };   // identity = id only
inline bool operator<(const vkey& x, const vkey& y) { return x.id < y.id; }
inline bool operator==(const vkey& x, const vkey& y) { return x.id == y.id; }
struct pkey { uint8_t a; uint64_t b; template <class A> void serialize(A& ar) { ar(a, b); } };           // 7 padding bytes
inline bool operator<(const pkey& x, const pkey& y) { return x.a != y.a ? x.a < y.a : x.b < y.b; }
inline bool operator==(const pkey& x, const pkey& y) { return x.a == y.a && x.b == y.b; }
namespace std {
template <> struct hash<vkey> { size_t operator()(const vkey& k) const { return std::hash<uint32_t>{}(k.id); } };
template <> struct hash<pkey> { size_t operator()(const pkey& k) const { return std::hash<uint64_t>{}(k.b * 257 + k.a); } };
}  // namespace std
static __attribute__((noinline)) void make_pkey(pkey* out, uint8_t a, uint64_t b, int garbage) {
  memset((void*)out, garbage, sizeof(pkey));   // the padding keeps the garbage: only the named members are assigned
  out->a = a; out->b = b;
  if (((const unsigned char*)out)[3] != (unsigned char)garbage) hc::out("padlost");
}

extern "C" int sim_main(int argc, char** argv) {
  ygm::comm world(MPI_COMM_WORLD);
  hc::open_out(world.rank());
  std::string mode = argc > 1 ? argv[1] : "array";
  if (mode == "array") {
    for (long len : hc::longs(argv[2])) {
      ygm::container::array<int> a(world, (size_t)len);
      hc::out("begin " + std::to_string(len));   // a trap below leaves 'begin' without 'owners'
      std::ostringstream o; o << "owners " << len;
      for (long i = 0; i < len; ++i) o << " " << a.owner(i);
      hc::out(o.str());
      std::ostringstream m; m << "mine " << len;
      for (long i = 0; i < len; ++i) if (a.is_mine(i)) m << " " << i;
      hc::out(m.str());
      std::ostringstream f; f << "forall " << len;
      a.for_all([&f](const size_t idx, int& v) { f << " " << idx; });
      hc::out(f.str());
    }
  } else if (mode == "resize") {   // array(a) then resize(b): the layout must be the one of a fresh array(b)
    auto as = hc::longs(argv[2]); auto bs = hc::longs(argv[3]);
    for (size_t k = 0; k < as.size(); ++k) {
      long a0 = as[k], len = bs[k];
      ygm::container::array<int> a(world, (size_t)a0);
      a.resize((size_t)len);
      hc::out("begin " + std::to_string(k));
      std::ostringstream o; o << "owners " << k;
      for (long i = 0; i < len; ++i) o << " " << a.owner(i);
      hc::out(o.str());
      std::ostringstream m; m << "mine " << k;
      for (long i = 0; i < len; ++i) if (a.is_mine(i)) m << " " << i;
      hc::out(m.str());
      std::ostringstream f; f << "forall " << k;
      a.for_all([&f](const size_t idx, int& v) { f << " " << idx; });
      hc::out(f.str());
      hc::out("size " + std::to_string(k) + " " + std::to_string(a.size()));
    }
  } else if (mode == "stored") {   // data for a key lives only on its owner: what each rank holds after a barrier
    long nkeys = atol(argv[2]); hc::rng g(atol(argv[3]));
    ygm::container::map<int64_t, int> mi(world); ygm::container::set<std::string> ss(world);
    ygm::container::disjoint_set<int64_t> ds(world);
    for (long k = 0; k < nkeys; ++k) {
      int64_t key = (int64_t)g.below(4 * nkeys + 1);
      if ((k + world.rank()) % 2 == 0) { mi.async_insert(key, (int)k); ss.async_insert("s" + std::to_string(key)); }
      if (k % 2 == 0) ds.async_union(key, (int64_t)g.below(4 * nkeys + 1));
      else ds.async_union_and_execute(key, (int64_t)g.below(4 * nkeys + 1), [](const int64_t& a, const int64_t& b) {});
    }
    world.barrier();
    // a second round of unions over existing trees, so that walks climb through parents on other ranks (path splitting)
    for (long k = 0; k < nkeys; ++k) {
      int64_t a = (int64_t)g.below(4 * nkeys + 1), b = (int64_t)g.below(4 * nkeys + 1);
      if (k % 3 == 0) ds.async_union(a, b);
      else ds.async_union_and_execute(a, b, [](const int64_t& x, const int64_t& y) {});
    }
    world.barrier();
    std::vector<int64_t> probe; for (long k = 0; k < 40; ++k) probe.push_back((int64_t)g.below(4 * nkeys + 1));
    ds.all_find(probe);          // path compression messages must also go to the owner
    world.barrier();
    std::ostringstream a, b, c;
    a << "map"; mi.for_all([&](const int64_t& k, int& v) { a << " " << k << ":" << mi.owner(k); });
    b << "set"; ss.for_all([&](const std::string& k) { b << " " << k << ":" << ss.owner(k); });
    c << "dset"; ds.for_all([&](const int64_t& k, const int64_t& rep) { c << " " << k << ":" << std::hash<int64_t>{}(k) % (size_t)world.size(); });
    hc::out(a.str()); hc::out(b.str()); hc::out(c.str());
    hc::out("sizes " + std::to_string(mi.size()) + " " + std::to_string(ss.size()) + " " + std::to_string(ds.size()));
  } else if (mode == "twocomm") {
    // two communicators of DIFFERENT size in one process, containers of the same type on both, the same keys used on
    // one and then the other: owners must be computed per communicator (hash % that communicator's size)
    long nkeys = atol(argv[2]); hc::rng g(atol(argv[3]));
    int wr = world.rank(), ws = world.size();
    MPI_Comm subc; MPI_Comm_split(MPI_COMM_WORLD, wr < ws - 1 ? 0 : 1, wr, &subc);
    {
      ygm::comm sub(subc);
      ygm::container::map<int64_t, int> mw(world); ygm::container::map<int64_t, int> msub(sub);
      std::ostringstream o; o << "owners";
      for (long k = 0; k < nkeys; ++k) {
        int64_t key = (int64_t)g.below(1000);
        int ow = mw.owner(key); int os = msub.owner(key); int ow2 = mw.owner(key);
        o << " " << std::hash<int64_t>{}(key) << ":" << ow << ":" << os << ":" << ow2 << ":" << sub.size();
        if (wr == 0) { mw.async_insert(key, 1); }
        if (sub.rank() == 0 && wr < ws - 1) { msub.async_insert(key, 2); }
      }
      world.barrier(); sub.barrier();
      hc::out(o.str());
      std::ostringstream a, b;
      a << "mapw"; mw.for_all([&](const int64_t& k, int& v) { a << " " << k << ":" << std::hash<int64_t>{}(k) % (size_t)ws; });
      b << "maps"; msub.for_all([&](const int64_t& k, int& v) { b << " " << k << ":" << std::hash<int64_t>{}(k) % (size_t)sub.size(); });
      hc::out(a.str()); hc::out(b.str() + " | " + std::to_string(sub.rank()) + " " + std::to_string(sub.size()));
      world.barrier();
    }
    MPI_Comm_free(&subc);
    // a communicator over the SAME processes in another rank order: the ygm rank must be the MPI rank in THAT communicator
    MPI_Comm revc; MPI_Comm_split(MPI_COMM_WORLD, 0, ws - 1 - wr, &revc);
    {
      int mr; MPI_Comm_rank(revc, &mr);
      ygm::comm rev(revc);
      ygm::container::map<int64_t, int> mr_(rev);
      hc::rng g2(atol(argv[3]) + 7);
      for (long k = 0; k < nkeys; ++k) { int64_t key = (int64_t)g2.below(1000); if (mr == 0) mr_.async_insert(key, 3); }
      rev.barrier();
      std::ostringstream c; c << "mapr"; mr_.for_all([&](const int64_t& k, int& v) { c << " " << k << ":" << std::hash<int64_t>{}(k) % (size_t)ws; });
      hc::out(c.str() + " | " + std::to_string(mr) + " " + std::to_string(rev.rank()) + " " + std::to_string(mr_.owner(0)));
      rev.barrier();
    }
    MPI_Comm_free(&revc);
  } else if (mode == "keyeq") {
    // owner must be a function of the KEY (as Compare / operator== see it), not of its object representation:
    // one line per key `eq <kind> <key> <owner> <owner> ...` = owners of several representations of that key through map and set
    hc::rng g(atol(argv[2]));
    ygm::container::map<double, int> md(world); ygm::container::set<double> sd(world);
    ygm::container::map<vkey, int> mv(world);   ygm::container::set<vkey> sv(world);
    ygm::container::map<pkey, int> mp(world);   ygm::container::set<pkey> sp(world);
    { double pz = 0.0, nz = -0.0; volatile double one = 1.0; double nz2 = -pz * one, pz2 = nz + pz;   // zeros computed at run time as well
      std::ostringstream z; z << "eq d 0.0 " << md.owner(pz) << " " << md.owner(nz) << " " << sd.owner(pz) << " " << sd.owner(nz)
                              << " " << md.owner(nz2) << " " << sd.owner(nz2) << " " << md.owner(pz2) << " " << sd.owner(pz2);
      hc::out(z.str()); }
    const uint32_t tags[] = {0u, 1u, (uint32_t)world.rank(), 255u, 0x80000000u, 0xffffffffu, (uint32_t)g.next()};
    for (int i = 0; i < 24; ++i) {
      uint32_t id = i < 8 ? (uint32_t)i : i == 8 ? 0xffffffffu : (uint32_t)g.next();
      std::ostringstream o; o << "eq v " << id;
      for (uint32_t t : tags) { vkey k{id, t}; o << " " << mv.owner(k) << " " << sv.owner(k); }
      hc::out(o.str());
    }
    const int fills[] = {0x00, 0x01, 0x11, 0xab, 0xff, (int)(g.next() & 0xff), 0x10 * ((world.rank() % 15) + 1)};
    for (int i = 0; i < 24; ++i) {
      uint8_t a = (uint8_t)(i < 4 ? i : g.next()); uint64_t b = i < 8 ? (uint64_t)(i / 4) : i == 8 ? ~uint64_t(0) : g.next();
      std::ostringstream o; o << "eq p " << (unsigned)a << ":" << b;
      for (int f : fills) { pkey k; make_pkey(&k, a, b, f); o << " " << mp.owner(k) << " " << sp.owner(k); }
      hc::out(o.str());
    }
  } else {  // hash owners of generated keys, through every hash-partitioned container
    long nkeys = atol(argv[2]); hc::rng g(atol(argv[3]));
    ygm::container::map<int64_t, int> mi(world); ygm::container::map<std::string, int> ms(world);
    ygm::container::set<int64_t> si(world); ygm::container::set<std::string> ss(world);
    ygm::container::map<double, int> md(world); ygm::container::set<double> sd(world);
    { // keys that compare equal are ONE key: +0.0 and -0.0 must have the same owner
      std::ostringstream z; z << "zeros " << md.owner(0.0) << " " << md.owner(-0.0) << " " << sd.owner(0.0) << " " << sd.owner(-0.0); hc::out(z.str()); }

    std::ostringstream o; o << "hash";
    for (long k = 0; k < nkeys; ++k) {
      int64_t ik = (k % 3 == 0) ? (int64_t)k : (int64_t)g.next();
      std::string sk; size_t L = (k == 0) ? 0 : g.below(24); for (size_t j = 0; j < L; ++j) sk.push_back((char)(32 + g.below(95)));
      size_t hi = std::hash<int64_t>{}(ik), hs = std::hash<std::string>{}(sk);
      o << " " << hi << ":" << mi.owner(ik) << ":" << si.owner(ik) << " " << hs << ":" << ms.owner(sk) << ":" << ss.owner(sk);
      if (k % 4 == 0) { double dk = (k == 0) ? 0.0 : (k == 4) ? -0.0 : (k == 8) ? 1e-300 : (double)(int64_t)g.next() / 977.0;
        o << " " << std::hash<double>{}(dk) << ":" << md.owner(dk) << ":" << sd.owner(dk); }
    }
    hc::out(o.str());
  }
  return 0;
}
