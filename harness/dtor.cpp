// C02 (implicit barriers): a container is destroyed right after asynchronous operations were issued, with no
// explicit barrier.  The destructor's barrier must complete all of them: every rank's count of executed visitor
// callbacks at the moment ITS destructor returns is already final.  args: <seed> <ops per rank>
#include "hcommon.hpp"
#include <ygm/comm.hpp>
#include <ygm/container/map.hpp>
#include <ygm/container/set.hpp>
#include <ygm/container/array.hpp>
#include <ygm/container/bag.hpp>
#include <ygm/container/disjoint_set.hpp>
#include <ygm/container/counting_set.hpp>

static long g_exec = 0;

extern "C" int sim_main(int argc, char** argv) {
  ygm::comm world(MPI_COMM_WORLD);
  hc::open_out(world.rank());
  hc::rng g(atol(argv[1]) * 1000 + world.rank());
  long k = atol(argv[2]);
  auto report = [&](const char* what, long issued) {
    long at_dtor = g_exec;
    world.barrier();
    long after = g_exec;
    hc::out(std::string(what) + " issued=" + std::to_string(issued) + " at_dtor=" + std::to_string(at_dtor) + " after_barrier=" + std::to_string(after));
    g_exec = 0;
    world.barrier();
  };
  long n;
  { n = 0; { ygm::container::map<int, int> m(world);
      for (long i = 0; i < k; ++i) { m.async_visit((int)g.below(50), [](const int& key, int& v) { g_exec++; v++; }); n++; } }
    report("map", n); }
  { n = 0; { ygm::container::set<int> s(world);
      for (long i = 0; i < k; ++i) { int key = (int)(world.rank() * 100000 + i); s.async_insert_exe_if_missing(key, [](const int& key) { g_exec++; }); n++; } }
    report("set", n); }
  { n = 0; { ygm::container::array<long> a(world, 37);
      for (long i = 0; i < k; ++i) { a.async_visit(g.below(37), [](const size_t idx, long& v) { g_exec++; v++; }); n++; } }
    report("array", n); }
  { n = 0; { ygm::container::disjoint_set<int> d(world);
      for (long i = 0; i < k; ++i) { d.async_visit((int)g.below(60), [](const auto& item_info) { g_exec++; }); n++; } }
    report("disjoint_set", n); }
  { // bag / counting_set have no visitor: count through a second container that outlives them
    n = 0; ygm::container::map<int, int> tally(world);
    { ygm::container::bag<int> b(world); auto pt = tally.get_ygm_ptr();
      for (long i = 0; i < k; ++i) { b.async_insert((int)i); world.async((int)g.below(world.size()), [](int x) { g_exec++; }, (int)i); n++; } }
    report("bag", n); }
  { // construction / destruction churn with a RANK-DEPENDENT heap history: registering a new container (ygm_ptr slot, checked
    // with an all-reduce in the constructor) must not depend on whether the allocator hands out an address that a destroyed
    // container of the same type occupied before
    using M = ygm::container::map<int, int>;
    for (int round = 0; round < 3; ++round) {
      M* a = new M(world);
      a->async_insert(world.rank(), round);
      delete a;                                              // destructor barrier
      void* keep = nullptr;
      if ((world.rank() + round) % 2 == 1) keep = ::operator new(sizeof(M));   // takes the block just freed on these ranks
      M* b = new M(world);                                   // same address as `a` on some ranks, a fresh one on the others
      n = 0;
      for (long i = 0; i < k; ++i) { b->async_visit((int)g.below(50), [](const int& key, int& v) { g_exec++; v++; }); n++; }
      delete b;
      ::operator delete(keep);
      report("churn", n);
    }
  }
  return 0;
}
