// C17 harness: the real ygm::container::disjoint_set<int64_t> driven by a script.
// argv[1] = M:<mode>: w = the script runs on a ygm::comm over MPI_COMM_WORLD; sw:<split> / ws:<split> = the SAME script
// (same function, same template instantiations) additionally runs on a sub-communicator built with MPI_Comm_split, before
// (sw) or after (ws) the world run; split p = colour is the parity of the world rank, l = last rank alone vs. the rest, n = one
// sub-communicator per node (the check only picks splits that keep the number of ranks per node uniform: ygm's layout
// arithmetic assumes that).
// Every colour group runs the script on its own sub-communicator; script ranks that do not exist there issue nothing.
// Output lines are prefixed "@<run>.<container> " with run = w or s.
// A token may be prefixed "1/" to address a SECOND disjoint_set of the same type alive on the same communicator.
// ":str" in argv[1] runs disjoint_set<std::string> (order-preserving encoding of the script's numbers) instead of <int64_t>,
// ":dbl" disjoint_set<double> (number 0 is named +0.0 and -0.0 alternately).
// Every rank parses the whole script (argv[2..]); tokens:
//   u:<r>:<a>:<b>   rank r (or * = every rank) calls async_union(a, b)
//   x:<r>:<a>:<b>   ... async_union_and_execute(a, b, cb)      (cb logs "c <epoch> a b")
//   B               barrier()
//   D:<id>          barrier; rank 0 visits every known item with a logging visitor that only reads
//                   ("d <id> item rank parent" on the owner's out file); barrier.  Known items all
//                   exist already, so async_visit's insert-if-absent does not fire.
//   N:<id>          "n <id> num_sets size" on every rank
//   F:<id>:<mode>[:i,j]  all_find (collective), the items i,j (usually unknown to the container) join the known ones; mode a = rank 0 asks for all known items, s = rank r asks
//                   for the items at positions p with p % nranks == r, e = every rank asks for all;
//                   "f <id> item rep" per returned pair
//   A:<id>          for_all: "a <id> item rep" per local item
//   E               the container is destroyed and a new one constructed at the same address (no barrier of the harness in between)
//   K               clear() on every rank (callbacks are tagged with the number of clears returned so far:
//                   "c <epoch> a b <seg>")
#include "hcommon.hpp"
#include <ygm/comm.hpp>
#include <ygm/container/disjoint_set.hpp>
#include <set>
#include <memory>
#include <optional>

static int g_epoch[2] = {0, 0};
static int g_seg[2] = {0, 0};   // number of clear() calls that have returned on this rank, per container
static std::string g_run = "w";

static std::vector<std::string> split(const std::string& s, char sep) {
  std::vector<std::string> v; std::stringstream ss(s); std::string t;
  while (std::getline(ss, t, sep)) v.push_back(t);
  return v;
}
static void emit(int cid, const std::string& line) { hc::out("@" + g_run + "." + std::to_string(cid) + " " + line); }

// item types: int64_t, or std::string holding the zero-padded decimal of the script's number ("k000000000123"): the
// lexicographic order of those strings is the numeric order, so the model (items = naturals) applies unchanged.  A string
// that is not of that form (e.g. a default-constructed "") is printed as -1.
template <class T> struct codec;
template <> struct codec<int64_t> {
  static int64_t enc(int64_t v, int = 0) { return v; }
  static std::string show(const int64_t& v) { return std::to_string(v); }
};
template <> struct codec<std::string> {
  static std::string enc(int64_t v, int = 0) { char b[32]; snprintf(b, sizeof b, "k%012lld", (long long)v); return b; }
  static std::string show(const std::string& s) {
    if (s.size() != 13 || s[0] != 'k') return "-1";
    return std::to_string(atoll(s.c_str() + 1));
  }
};

// doubles: script number v is the double 1.5 * v (exact, order preserving); the number 0 is written +0.0 or -0.0 depending on
// the position of the token that names it: the two zeros compare equal, so they are ONE item
template <> struct codec<double> {
  static double enc(int64_t v, int flip = 0) { if (v == 0) return flip ? -0.0 : 0.0; return 1.5 * (double)v; }
  static std::string show(const double& d) {
    double q = d / 1.5; long long r = (long long)(q < 0 ? q - 0.5 : q + 0.5);
    if ((double)r * 1.5 != d) return "-1";
    return std::to_string(r);
  }
};

// the scenario body: identical code (and template instantiations) whatever communicator it is given
template <class T>
static void run_script(ygm::comm& c, int argc, char** argv, int first, bool two) {
  using dset_t = ygm::container::disjoint_set<T>;
  using cd = codec<T>;
  g_epoch[0] = g_epoch[1] = 0; g_seg[0] = g_seg[1] = 0;
  {
    // std::optional: an "epoch" (token E) destroys the container and constructs the next one AT THE SAME ADDRESS
    std::optional<dset_t> dsv[2];
    dsv[0].emplace(c);
    if (two) dsv[1].emplace(c);
    std::set<int64_t> known[2];
    const int me = c.rank(), n = c.size();
    for (int i = first; i < argc; ++i) {
      std::string tok = argv[i];
      int cid = 0;
      if (tok.size() > 2 && tok[1] == '/') { cid = tok[0] - '0'; tok = tok.substr(2); }
      if (cid == 1 && !two) continue;
      dset_t& ds = *dsv[cid];
      const int flip = i & 1;
      auto f = split(tok, ':');
      if (f.empty()) continue;
      const std::string& op = f[0];
      if (op == "u" || op == "x") {
        int64_t a = atoll(f[2].c_str()), b = atoll(f[3].c_str());
        bool all = f[1] == "*"; int r = all ? -1 : atoi(f[1].c_str());
        if (!all && r >= n) continue;               // that rank does not exist on this communicator
        known[cid].insert(a); known[cid].insert(b);
        if (all || r == me) {
          if (op == "u") ds.async_union(cd::enc(a, flip), cd::enc(b, !flip));
          else ds.async_union_and_execute(cd::enc(a, flip), cd::enc(b, !flip), [](const T& oa, const T& ob, const int& cid) {
            emit(cid, "c " + std::to_string(g_epoch[cid]) + " " + codec<T>::show(oa) + " " + codec<T>::show(ob) + " " + std::to_string(g_seg[cid]));
          }, cid);
        }
      } else if (op == "B") {
        c.barrier();
      } else if (op == "D") {
        int id = atoi(f[1].c_str());
        c.barrier();
        if (me == 0) {
          for (int64_t it : known[cid])
            ds.async_visit(cd::enc(it, flip), [](auto& item_info, int id, int cid) {
              emit(cid, "d " + std::to_string(id) + " " + codec<T>::show(item_info.first) + " " +
                        std::to_string((int)item_info.second.get_rank()) + " " + codec<T>::show(item_info.second.get_parent()));
            }, id, cid);
        }
        c.barrier();
        g_epoch[cid] = id + 1;
      } else if (op == "N") {
        size_t ns = ds.num_sets(); size_t sz = ds.size();
        emit(cid, "n " + f[1] + " " + std::to_string(ns) + " " + std::to_string(sz));
      } else if (op == "F") {
        // F:<id>:<mode>[:i,j,..]: the listed items (typically never passed to any union) are asked for as well; all_find
        // creates a singleton for an unknown item, so they are known from here on
        if (f.size() > 3) for (long v : hc::longs(f[3].c_str())) known[cid].insert(v);
        std::vector<T> q; size_t p = 0;
        for (int64_t it : known[cid]) {
          bool mine = f[2] == "e" || (f[2] == "a" && me == 0) || (f[2] == "s" && (int)(p % n) == me);
          if (mine) q.push_back(cd::enc(it, (flip + me) & 1));
          ++p;
        }
        auto res = ds.all_find(q);
        for (auto& kv : res) emit(cid, "f " + f[1] + " " + cd::show(kv.first) + " " + cd::show(kv.second));
        emit(cid, "fq " + f[1] + " " + std::to_string(q.size()) + " " + std::to_string(res.size()));
      } else if (op == "A") {
        std::string id = f[1];
        ds.for_all([&id, cid](const T& item, const T& rep) {
          emit(cid, "a " + id + " " + cd::show(item) + " " + cd::show(rep));
        });
      } else if (op == "K") {
        // collective; may directly follow async_union calls (no barrier in between): clear() itself
        // must first complete everything in flight, then empty the container
        ds.clear(); known[cid].clear(); ++g_seg[cid];
      } else if (op == "E") {
        // end of an epoch: the container goes out of scope right after fire-and-forget unions (its destructor has to
        // complete them) and the next epoch's container of the same type is constructed at the same address
        dsv[cid].reset();
        dsv[cid].emplace(c);
        known[cid].clear(); ++g_seg[cid];
      }
    }
    c.barrier();
  }
  emit(0, "end");
}

static bool g_str = false, g_dbl = false;
static void run_any(ygm::comm& c, int argc, char** argv, bool two) {
  if (g_str) run_script<std::string>(c, argc, argv, 2, two);
  else if (g_dbl) run_script<double>(c, argc, argv, 2, two);
  else run_script<int64_t>(c, argc, argv, 2, two);
}

static void run_world(int argc, char** argv, bool two) {
  ygm::comm world(MPI_COMM_WORLD);
  g_run = "w";
  run_any(world, argc, argv, two);
}

static void run_sub(int argc, char** argv, bool two, char kind) {
  int wr = 0, ws = 1;
  MPI_Comm_rank(MPI_COMM_WORLD, &wr); MPI_Comm_size(MPI_COMM_WORLD, &ws);
  const char* ppn_s = getenv("SIMMPI_PPN"); int ppn = ppn_s ? atoi(ppn_s) : ws; if (ppn < 1) ppn = 1;
  const char* pl = getenv("SIMMPI_PLACEMENT"); bool cyclic = pl && std::string(pl) == "cyclic";
  int nodes = ws / ppn > 0 ? ws / ppn : 1;
  int node_of = cyclic ? (wr % nodes) : (wr / ppn);
  int colour = kind == 'p' ? (wr % 2) : kind == 'n' ? node_of : (wr < ws - 1 ? 0 : 1);
  MPI_Comm subc; MPI_Comm_split(MPI_COMM_WORLD, colour, wr, &subc);
  {
    ygm::comm sub(subc);
    g_run = "s";
    hc::out("@s.0 group " + std::to_string(colour) + " " + std::to_string(sub.rank()) + " " + std::to_string(sub.size()));
    run_any(sub, argc, argv, two);
  }
  MPI_Comm_free(&subc);
}

extern "C" int sim_main(int argc, char** argv) {
  int wr = 0;
  MPI_Comm_rank(MPI_COMM_WORLD, &wr);
  hc::open_out(wr);
  auto m = split(argc > 1 ? argv[1] : "M:w", ':');      // M:<w|sw|ws>[:<p|l|n>][:2][:str]
  std::string mode = m.size() > 1 ? m[1] : "w";
  char kind = m.size() > 2 && !m[2].empty() ? m[2][0] : 'p';
  bool two = false;
  for (auto& x : m) { if (x == "2") two = true; if (x == "str") g_str = true; if (x == "dbl") g_dbl = true; }
  if (mode == "sw") { run_sub(argc, argv, two, kind); run_world(argc, argv, two); }
  else if (mode == "ws") { run_world(argc, argv, two); run_sub(argc, argv, two, kind); }
  else run_world(argc, argv, two);
  hc::out("done");
  return 0;
}
