// C17 harness: the real ygm::container::disjoint_set<int64_t> driven by a script.
// Every rank parses the whole script (argv[1..]); tokens:
//   u:<r>:<a>:<b>   rank r (or * = every rank) calls async_union(a, b)
//   x:<r>:<a>:<b>   ... async_union_and_execute(a, b, cb)      (cb logs "c <epoch> a b")
//   B               barrier()
//   D:<id>          barrier; rank 0 visits every known item with a logging visitor that only reads
//                   ("d <id> item rank parent" on the owner's out file); barrier.  Known items all
//                   exist already, so async_visit's insert-if-absent does not fire.
//   N:<id>          "n <id> num_sets size" on every rank
//   F:<id>:<mode>   all_find (collective): mode a = rank 0 asks for all known items, s = rank r asks
//                   for the items at positions p with p % nranks == r, e = every rank asks for all;
//                   "f <id> item rep" per returned pair
//   A:<id>          for_all: "a <id> item rep" per local item
//   K               clear() on every rank (callbacks are tagged with the number of clears returned so far:
//                   "c <epoch> a b <seg>")
#include "hcommon.hpp"
#include <ygm/comm.hpp>
#include <ygm/container/disjoint_set.hpp>
#include <set>

static int g_epoch = 0;
static int g_seg = 0;   // number of clear() calls that have returned on this rank

static std::vector<std::string> split(const std::string& s, char sep) {
  std::vector<std::string> v; std::stringstream ss(s); std::string t;
  while (std::getline(ss, t, sep)) v.push_back(t);
  return v;
}

extern "C" int sim_main(int argc, char** argv) {
  ygm::comm world(MPI_COMM_WORLD);
  hc::open_out(world.rank());
  {
    ygm::container::disjoint_set<int64_t> ds(world);
    std::set<int64_t> known;
    const int me = world.rank(), n = world.size();
    for (int i = 1; i < argc; ++i) {
      auto f = split(argv[i], ':');
      if (f.empty()) continue;
      const std::string& op = f[0];
      if (op == "u" || op == "x") {
        int64_t a = atoll(f[2].c_str()), b = atoll(f[3].c_str());
        known.insert(a); known.insert(b);
        if (f[1] == "*" || atoi(f[1].c_str()) == me) {
          if (op == "u") ds.async_union(a, b);
          else ds.async_union_and_execute(a, b, [](const int64_t& oa, const int64_t& ob) {
            hc::out("c " + std::to_string(g_epoch) + " " + std::to_string(oa) + " " + std::to_string(ob) + " " + std::to_string(g_seg));
          });
        }
      } else if (op == "B") {
        world.barrier();
      } else if (op == "D") {
        int id = atoi(f[1].c_str());
        world.barrier();
        if (me == 0) {
          for (int64_t it : known)
            ds.async_visit(it, [](auto& item_info, int id) {
              hc::out("d " + std::to_string(id) + " " + std::to_string(item_info.first) + " " +
                      std::to_string((int)item_info.second.get_rank()) + " " + std::to_string(item_info.second.get_parent()));
            }, id);
        }
        world.barrier();
        g_epoch = id + 1;
      } else if (op == "N") {
        size_t ns = ds.num_sets(); size_t sz = ds.size();
        hc::out("n " + f[1] + " " + std::to_string(ns) + " " + std::to_string(sz));
      } else if (op == "F") {
        std::vector<int64_t> q; size_t p = 0;
        for (int64_t it : known) {
          bool mine = f[2] == "e" || (f[2] == "a" && me == 0) || (f[2] == "s" && (int)(p % n) == me);
          if (mine) q.push_back(it);
          ++p;
        }
        auto res = ds.all_find(q);
        for (auto& kv : res) hc::out("f " + f[1] + " " + std::to_string(kv.first) + " " + std::to_string(kv.second));
        hc::out("fq " + f[1] + " " + std::to_string(q.size()) + " " + std::to_string(res.size()));
      } else if (op == "A") {
        std::string id = f[1];
        ds.for_all([&id](const int64_t& item, const int64_t& rep) {
          hc::out("a " + id + " " + std::to_string(item) + " " + std::to_string(rep));
        });
      } else if (op == "K") {
        // collective; may directly follow async_union calls (no barrier in between): clear() itself
        // must first complete everything in flight, then empty the container
        ds.clear(); known.clear(); ++g_seg;
      }
    }
    world.barrier();
  }
  hc::out("end");
  return 0;
}
