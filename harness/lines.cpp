// C18 correspondence harness: the real line_parser / csv_parser / ndjson_parser on generated
// file sets.   args: <kind: lines|csv|ndjson> <specfile> <pathmode: files|dir|dup|tree-rec|tree-flat> [<calls> [<g0>]]
// <calls> (default 1): number of back-to-back for_all calls on the SAME parser object with the same callback
// type (so they share for_all's function-local static assignment list); every call prints "C <k>" first.
// <g0> (default 0 = parse on a ygm::comm over MPI_COMM_WORLD): split the world into the groups [0,g0) and [g0,size)
// with MPI_Comm_split, build one ygm::comm per group, every group parses the whole set with its own parser.
// tree-rec / tree-flat: the files live in a directory tree (data/a*.txt, data/d1/a*.txt, data/d1/e/a*.txt, plus an
// empty directory; file index order = sorted path order); the parser gets {data} with recursive = true / false.
//
// specfile:  "<nfiles>" then per file "<finalNL 0|1> <nlines> <len_0> ... <len_{nlines-1}>".
// Rank 0 writes the files to $SIMMPI_TMP/data/f%03d.txt (removed with the run's temp dir); the
// text of line i of file f with length L is a fixed function text(kind,f,i,L) that carries
// (f,i) whenever L allows it.  Every rank then runs <kind>_parser::for_all over the set and
// prints one item per callback; rank 0 finally reads every file sequentially with
// std::getline (the oracle) and prints the same items prefixed with "Q <f> <i>".
//
// items   lines :  "L <f> <i> <len>"   line carries a header and its whole text is text(f,i,len)
//                  "S <len> <text>"    short line (no room for the header)
//                  "X <len> <prefix>"  anything else (never expected)
//         csv   :  "R <nfields> <digest>"     (oracle: also for nfields = 0)
//         ndjson:  "J <digest>"
#include "hcommon.hpp"
#include <ygm/comm.hpp>
#include <ygm/io/line_parser.hpp>
#include <ygm/io/csv_parser.hpp>
#include <ygm/io/ndjson_parser.hpp>
#include <filesystem>
#include <fstream>

namespace {
std::string rev_dec(size_t i) { std::string s = std::to_string(i); return std::string(s.rbegin(), s.rend()); }

std::string text_lines(size_t f, size_t i, size_t L) {
  std::string t = rev_dec(i) + ":" + std::to_string(f) + ":";
  if (t.size() >= L) return t.substr(0, L);
  size_t p = t.size(); t.resize(L);
  for (; p < L; ++p) t[p] = (char)('a' + ((p + i) % 26));
  return t;
}
std::string text_csv(size_t f, size_t i, size_t L) {
  std::string t;
  if (i % 19 == 5) return std::string(L, ' ');                     // blank line: no fields
  if (i % 17 == 3) t = "#";                                         // comment: no fields
  t += std::to_string(f) + "," + std::to_string(i) + ",\"q \"\"x\"\", y\",  z" + std::to_string(i % 7) + " ,";
  if (t.size() >= L) return t.substr(0, L);
  size_t p = t.size(); t.resize(L);
  for (; p < L; ++p) t[p] = (p % 97 == 0) ? ',' : (char)('a' + ((p + i) % 26));
  return t;
}
std::string text_ndjson(size_t f, size_t i, size_t L) {            // needs L >= 40
  std::string head = "{\"f\":" + std::to_string(f) + ",\"i\":" + std::to_string(i) + ",\"p\":\"";
  std::string tail = "\"}";
  std::string t = head;
  size_t fill = L > head.size() + tail.size() ? L - head.size() - tail.size() : 0;
  for (size_t p = 0; p < fill; ++p) t.push_back((char)('a' + ((p + i) % 26)));
  return t + tail;
}
std::string text_of(const std::string& kind, size_t f, size_t i, size_t L) {
  return kind == "lines" ? text_lines(f, i, L) : kind == "csv" ? text_csv(f, i, L) : text_ndjson(f, i, L);
}

std::string clean(const std::string& s, size_t cap) {
  std::string o;
  for (size_t k = 0; k < s.size() && k < cap; ++k) { char c = s[k]; o.push_back((isalnum((unsigned char)c) || strchr(",.:#\"-{}", c)) && c ? c : '_'); }
  return o;
}

// item for a delivered text line
std::string item_line(const std::string& line) {
  size_t a = line.find(':');
  if (a != std::string::npos && a > 0) {
    size_t b = line.find(':', a + 1);
    if (b != std::string::npos && b > a + 1 && b < 48) {
      bool dig = true;
      for (size_t k = 0; k < b; ++k) if (k != a && !isdigit((unsigned char)line[k])) dig = false;
      if (dig) {
        std::string ri = line.substr(0, a); std::string is(ri.rbegin(), ri.rend());
        size_t i = strtoull(is.c_str(), nullptr, 10), f = strtoull(line.substr(a + 1, b - a - 1).c_str(), nullptr, 10);
        if (text_lines(f, i, line.size()) == line)
          return "L " + std::to_string(f) + " " + std::to_string(i) + " " + std::to_string(line.size());
      }
    }
  }
  if (line.size() <= 48) return "S " + std::to_string(line.size()) + " " + clean(line, 48);
  return "X " + std::to_string(line.size()) + " " + clean(line, 32);
}
std::string item_csv(const std::vector<ygm::io::detail::csv_field>& v) {
  size_t tot = 0; for (auto& x : v) tot += x.as_string().size();
  std::string d = std::to_string(v.size());
  for (size_t k = 0; k < v.size() && k < 5; ++k) d += "|" + clean(v[k].as_string(), 14);
  return "R " + std::to_string(v.size()) + " " + d + "|" + std::to_string(tot);
}
std::string item_json(const boost::json::object& o) {
  std::string d = std::to_string(o.size());
  if (o.contains("f")) d += "|" + std::to_string(o.at("f").to_number<int64_t>());
  if (o.contains("i")) d += "|" + std::to_string(o.at("i").to_number<int64_t>());
  if (o.contains("p")) { auto& s = o.at("p").as_string(); d += "|" + std::to_string(s.size()) + "|" + clean(std::string(s.data(), std::min<size_t>(s.size(), 6)), 6); }
  return "J " + d;
}
}  // namespace

extern "C" int sim_main(int argc, char** argv) {
  int wrank = 0, wsize = 1;
  MPI_Comm_rank(MPI_COMM_WORLD, &wrank); MPI_Comm_size(MPI_COMM_WORLD, &wsize);
  hc::open_out(wrank);
  if (argc < 4) return 2;
  std::string kind = argv[1], spec = argv[2], pathmode = argv[3];
  int calls = argc > 4 ? atoi(argv[4]) : 1;
  int g0 = argc > 5 ? atoi(argv[5]) : 0;
  const char* td = getenv("SIMMPI_TMP");
  std::string dir = std::string(td ? td : ".") + "/data";
  // LINES_PATHLEN=L: pad the directory so that the path string of a top-level file ("<dir>/f000.txt", 9 characters after
  // the directory) is exactly L characters long (boundary lengths of the serialized path: 255, 256, ...)
  if (const char* pl = getenv("LINES_PATHLEN")) {
    size_t L = strtoull(pl, nullptr, 10), base = std::string(td ? td : ".").size() + 1 + 5 + 9;
    if (L > base + 1 && L - base - 1 <= 250) dir = std::string(td ? td : ".") + "/" + std::string(L - base - 1, 'p') + "/data";
  }
  bool tree = pathmode == "tree-rec" || pathmode == "tree-flat";

  // ---- read the spec (every rank: only the file count is needed off rank 0)
  FILE* sf = fopen(spec.c_str(), "r");
  if (!sf) return 3;
  size_t nfiles = 0; if (fscanf(sf, "%zu", &nfiles) != 1) return 3;
  std::vector<std::string> names;
  size_t t1 = (nfiles + 2) / 3, t2 = t1 + (nfiles + 1) / 3;        // top level: [0,t1), d1: [t1,t2), d1/e: [t2,n)
  for (size_t f = 0; f < nfiles; ++f) {
    char b[48];
    if (tree) snprintf(b, sizeof b, "%s/a%03zu.txt", f < t1 ? "" : f < t2 ? "/d1" : "/d1/e", f);
    else snprintf(b, sizeof b, "/f%03zu.txt", f);
    names.push_back(dir + b);
  }
  {
    ygm::comm world(MPI_COMM_WORLD);
    if (wrank == 0) {
      std::filesystem::create_directories(dir);
      if (tree) { std::filesystem::create_directories(dir + "/d1/e"); std::filesystem::create_directories(dir + "/d0empty"); }
      for (size_t f = 0; f < nfiles; ++f) {
        int nl = 0; size_t n = 0; if (fscanf(sf, "%d %zu", &nl, &n) != 2) return 3;
        FILE* o = fopen(names[f].c_str(), "wb"); if (!o) return 4;
        for (size_t i = 0; i < n; ++i) {
          size_t L = 0; if (fscanf(sf, "%zu", &L) != 1) return 3;
          std::string t = text_of(kind, f, i, L);
          if (t.size() != L) { fprintf(stderr, "text rule cannot produce length %zu\n", L); return 5; }
          fwrite(t.data(), 1, t.size(), o);
          if (i + 1 < n || nl) fputc('\n', o);
        }
        fclose(o);
        hc::out("F " + std::to_string(f) + " " + std::to_string(std::filesystem::file_size(names[f])));
      }
    }
    fclose(sf);
    world.barrier();
  }

  std::vector<std::string> paths;
  bool recursive = pathmode == "tree-rec";
  if (pathmode == "dir" || tree) paths.push_back(dir);
  else if (pathmode == "dup") { for (auto it = names.rbegin(); it != names.rend(); ++it) paths.push_back(*it); paths.push_back(dir); for (auto& p : names) paths.push_back(p); }
  else paths = names;

  // ---- the communicator the parser lives on
  MPI_Comm sub = MPI_COMM_WORLD;
  if (g0 > 0 && g0 < wsize) MPI_Comm_split(MPI_COMM_WORLD, wrank < g0 ? 0 : 1, wrank, &sub);
  {
    ygm::comm c(sub);
    // ---- the real parsers
    if (kind == "lines") {
      ygm::io::line_parser lp(c, paths, false, recursive);
      for (int k = 0; k < calls; ++k) {
        hc::out("C " + std::to_string(k));
        lp.for_all([](const std::string& line) { hc::out(item_line(line)); });
      }
    } else if (kind == "csv") {
      ygm::io::csv_parser cp(c, paths, false, recursive);
      for (int k = 0; k < calls; ++k) {
        hc::out("C " + std::to_string(k));
        cp.for_all([](const std::vector<ygm::io::detail::csv_field>& v) { hc::out(item_csv(v)); });
      }
    } else {
      ygm::io::ndjson_parser jp(c, paths, false, recursive);
      for (int k = 0; k < calls; ++k) {
        hc::out("C " + std::to_string(k));
        jp.for_all([](const boost::json::object& o) { hc::out(item_json(o)); });
      }
    }
    c.barrier();
  }

  // ---- oracle: sequential std::getline over every file, same item function / real record parsers
  if (wrank == 0) {
    for (size_t f = 0; f < nfiles; ++f) {
      std::ifstream ifs(names[f]); std::string line; size_t i = 0;
      while (std::getline(ifs, line)) {
        std::string it = kind == "lines" ? item_line(line)
                       : kind == "csv"   ? item_csv(ygm::io::detail::parse_csv_line(line))
                                         : item_json(boost::json::parse(line).as_object());
        hc::out("Q " + std::to_string(f) + " " + std::to_string(i) + " " + it);
        ++i;
      }
    }
  }
  return 0;
}
