// swap() followed at once by operations, no barrier in between (C11 / C12 / C14): A.swap(B) exchanges the CONTENTS of two
// containers collectively; an operation issued on A after swap() returned must act on A's new contents on every rank.
//   args: <kind map|set|bag> <seed> <rounds> <nkeys>
// every rank prints per round:  r <round> A <sorted contents> | B <sorted contents>
#include "hcommon.hpp"
#include <ygm/comm.hpp>
#include <ygm/container/map.hpp>
#include <ygm/container/set.hpp>
#include <ygm/container/bag.hpp>

extern "C" int sim_main(int argc, char** argv) {
  ygm::comm world(MPI_COMM_WORLD);
  hc::open_out(world.rank());
  std::string kind = argv[1]; long seed = atol(argv[2]), rounds = atol(argv[3]), nkeys = atol(argv[4]);
  const int me = world.rank(), n = world.size();
  auto dump = [&](int round, const std::vector<std::string>& a, const std::vector<std::string>& b) {
    std::ostringstream o; o << "r " << round << " A"; for (auto& x : a) o << " " << x; o << " | B"; for (auto& x : b) o << " " << x; hc::out(o.str()); };
  if (kind == "map") {
    ygm::container::map<int, int> A(world), B(world);
    for (long rd = 0; rd < rounds; ++rd) {
      // phase 1: every rank writes (k -> 100*rd + rank) for its keys into A, (k -> -1) into B; rank-skewed extra traffic makes ranks leave the barrier apart
      for (long k = me; k < nkeys; k += n) { A.async_insert((int)k, (int)(100 * rd + 1)); B.async_insert((int)k, -1); }
      if (me == (int)((seed + rd) % n)) for (int j = 0; j < 40; ++j) A.async_visit_if_exists(1000000 + j, [](const int&, int&) {});
      A.swap(B);                                   // A now holds the -1s, B the 100*rd+1s
      for (long k = me; k < nkeys; k += n) A.async_insert((int)((k + 1) % nkeys), 7);   // must land in A's new contents, on every rank
      world.barrier();
      std::vector<std::string> a, b;
      A.for_all([&](const int& k, int& v) { a.push_back(std::to_string(k) + ":" + std::to_string(v)); });
      B.for_all([&](const int& k, int& v) { b.push_back(std::to_string(k) + ":" + std::to_string(v)); });
      std::sort(a.begin(), a.end()); std::sort(b.begin(), b.end()); dump((int)rd, a, b);
      A.clear(); B.clear();
    }
  } else if (kind == "ser") {
    // serialize() followed at once by inserts: the image is the contents at the time of serialize(), the later inserts are not in it
    std::string prefix = std::string(argv[5]) + "/img";
    for (long rd = 0; rd < rounds; ++rd) {
      std::vector<std::string> a, b;
      ygm::container::map<int, int> A(world), B(world);
      for (long k = me; k < nkeys; k += n) A.async_insert((int)k, (int)(100 * rd + 1));
      if (me == (int)((seed + rd) % n)) for (int j = 0; j < 40; ++j) A.async_visit_if_exists(1000000 + j, [](const int&, int&) {});
      A.serialize(prefix);
      for (long k = me; k < nkeys; k += n) A.async_insert((int)(1000 + (k + 1) % nkeys), 7);
      world.barrier();
      B.deserialize(prefix);
      B.for_all([&](const int& k, int& v) { a.push_back(std::to_string(k) + ":" + std::to_string(v)); });
      A.for_all([&](const int& k, int& v) { b.push_back(std::to_string(k) + ":" + std::to_string(v)); });
      std::sort(a.begin(), a.end()); std::sort(b.begin(), b.end()); dump((int)rd, a, b);
    }
  } else if (kind == "deser" || kind == "deserset" || kind == "deserbag") {
    // deserialize() followed at once by inserts: they must survive (the load must not overwrite them on a slower rank)
    std::string prefix = std::string(argv[5]) + "/img";
    for (long rd = 0; rd < rounds; ++rd) {
      std::vector<std::string> a, b;
      if (kind == "deser") {
        ygm::container::map<int, int> A(world), B(world);
        for (long k = me; k < nkeys; k += n) A.async_insert((int)k, (int)(100 * rd + 1));
        A.serialize(prefix);
        if (me == (int)((seed + rd) % n)) for (int j = 0; j < 40; ++j) A.async_visit_if_exists(1000000 + j, [](const int&, int&) {});
        B.deserialize(prefix);
        for (long k = me; k < nkeys; k += n) B.async_insert((int)(1000 + (k + 1) % nkeys), 7);
        world.barrier();
        B.for_all([&](const int& k, int& v) { a.push_back(std::to_string(k) + ":" + std::to_string(v)); });
      } else if (kind == "deserset") {
        ygm::container::set<int> A(world), B(world);
        for (long k = me; k < nkeys; k += n) A.async_insert((int)k);
        A.serialize(prefix);
        if (me == (int)((seed + rd) % n)) for (int j = 0; j < 40; ++j) A.async_erase(1000000 + j);
        B.deserialize(prefix);
        for (long k = me; k < nkeys; k += n) B.async_insert((int)(1000 + (k + 1) % nkeys));
        world.barrier();
        B.for_all([&](const int& k) { a.push_back(std::to_string(k)); });
      } else {
        ygm::container::bag<int> A(world), B(world);
        for (long k = me; k < nkeys; k += n) A.async_insert((int)k);
        A.serialize(prefix);
        B.deserialize(prefix);
        for (long k = me; k < nkeys; k += n) B.async_insert((int)(1000 + k));
        world.barrier();
        for (int x : B.gather_to_vector()) a.push_back(std::to_string(x));
        if (me != 0) a.clear();
      }
      std::sort(a.begin(), a.end()); dump((int)rd, a, b);
    }
  } else if (kind == "set") {
    ygm::container::set<int> A(world), B(world);
    for (long rd = 0; rd < rounds; ++rd) {
      for (long k = me; k < nkeys; k += n) B.async_insert((int)k);
      if (me == (int)((seed + rd) % n)) for (int j = 0; j < 40; ++j) A.async_erase(1000000 + j);
      A.swap(B);                                   // A = {0..nkeys-1}, B = {}
      for (long k = me; k < nkeys; k += n) A.async_erase((int)((k + 1) % nkeys));        // A must end empty
      world.barrier();
      std::vector<std::string> a, b;
      A.for_all([&](const int& k) { a.push_back(std::to_string(k)); });
      B.for_all([&](const int& k) { b.push_back(std::to_string(k)); });
      std::sort(a.begin(), a.end()); std::sort(b.begin(), b.end()); dump((int)rd, a, b);
      A.clear(); B.clear();
    }
  } else {
    ygm::container::bag<int> A(world), B(world);
    for (long rd = 0; rd < rounds; ++rd) {
      for (long k = me; k < nkeys; k += n) B.async_insert((int)k);
      A.swap(B);                                   // A = all k, B = {}
      for (long k = me; k < nkeys; k += n) A.async_insert((int)(1000 + k));               // A = all k and all 1000+k
      world.barrier();
      std::vector<std::string> a, b;
      for (int x : A.gather_to_vector(0)) a.push_back(std::to_string(x));
      for (int x : B.gather_to_vector(0)) b.push_back(std::to_string(x));
      std::sort(a.begin(), a.end()); std::sort(b.begin(), b.end()); if (me == 0) dump((int)rd, a, b);
      A.clear(); B.clear();
    }
  }
  return 0;
}
