// C11/C12 correspondence harness: the real ygm::container::map / multimap / set / multiset driven by a
// scenario file.   args:  map|multimap|set|multiset  <kinds>  <scenario file>  [variant]
//        (or:  keyeq <d|v|p><m|s> <scenario file>  - key-equivalence scenarios, see the section "key equivalence" below)
//   kinds: key kind + value kind, 's' = std::string, 'i' = int64_t, 'u' = uint64_t over the full range (sets: key kind only)
//   variant: 'd' default template arguments (hash_partitioner, std::less)
//            'g' Compare = std::greater<Key>
//            'p' Compare = alt_compare (a different strict total order) and Partitioner = alt_partitioner
//   The comparator only orders the local std::multimap / std::multiset and the partitioner only picks the owner:
//   the semantics (and the Lean model) are the same for every variant.
// Scenario directives (every rank reads the whole file, executes the directives in order):
//   keys =k ...            print `O =k <owner>` for every listed key
//   dv =x =y               default values of containers 0 and 1 (maps; must be the first directive)
//   o <rank> <c> <op ...>  rank issues the operation on container c (syntax of lean/Driver/MapSet.lean)
//   sr <rank>              that rank calls comm.stats_reset() (public API; must not influence anything)
//   copy                   (maps) container 1 is destroyed and re-created as a copy of container 0 (copy constructor)
//   B                      world.barrier()
//   size c | count c =k | forall c | gather c <rank|-1> =k ... | topk c n | swap | clear c
//   consume c vis | consumeiter c vis            (sets)
// Output per rank (hc::out): `I <line>` just before a main operation is issued, `P` (1-rank runs only) when a message is
// packed into the send buffer, `cb <c> <record>` for every
// user-lambda invocation, `em <c> <op>` for every operation a lambda issues, `M <line>` when a
// directive other than `o` completes, followed by its answer (`S n`, `C n`, `F pairs`, `G pairs`, `T pairs`).
// The user lambdas are the table `mapUser` / `setUser` of lean/Driver/MapSet.lean.
#define HC_OWN_HOOK
#include "hcommon.hpp"
#include <ygm/comm.hpp>
#include <ygm/container/map.hpp>
#include <ygm/container/set.hpp>
#include <ygm/for_all_adapter.hpp>
#include <fstream>
#include <memory>
#include <algorithm>
#include <cstring>

using i64 = int64_t;
static const i64 MOD = 1000003;

// 1-rank runs: `P` marks the moment a message is packed into the send buffer (comm.ipp hook "pk"); on one rank
// the execution order is the packing order
static bool g_log_pack = false;
extern "C" void ygm_verif_hook(const char* tag, long, long, long) {
  if (g_log_pack && tag[0] == 'p' && tag[1] == 'k' && tag[2] == 0) hc::out("P");
}

template <class T> struct codec;
template <> struct codec<std::string> {
  static std::string dec(const std::string& t) { return t.substr(1); }
  static std::string enc(const std::string& v) { return "=" + v; }
  static std::string dk(const std::string& k) { return k + "~"; }
  static bool        gen2(const std::string& k) { return k.size() >= 2 && k.compare(k.size() - 2, 2, "^^") == 0; }
  static std::string prod(const std::string& k) { return k + "^"; }
};
template <> struct codec<i64> {
  static i64         dec(const std::string& t) { return atoll(t.c_str() + 1); }
  static std::string enc(const i64& v) { return "=" + std::to_string(v); }
  static i64         dk(const i64& k) { return k + 1000000; }
  static bool        gen2(const i64& k) { return !(k < 5000000); }
  static i64         prod(const i64& k) { return k + 3000000; }
};
using u64 = uint64_t;
template <> struct codec<u64> {   // keys / values over the whole 64-bit range (bit 63 set, all ones, ...); arithmetic wraps mod 2^64
  static u64         dec(const std::string& t) { return strtoull(t.c_str() + 1, nullptr, 10); }
  static std::string enc(const u64& v) { return "=" + std::to_string(v); }
  static u64         dk(const u64& k) { return k + 1000000; }
  static bool        gen2(const u64& k) { return k % 4 >= 2; }
  static u64         prod(const u64& k) { return k + 1; }
};
template <class T> std::string E(const T& v) { return codec<T>::enc(v); }

// value semantics of the registered lambdas
template <class V> struct vsem;
template <> struct vsem<std::string> {
  using V = std::string;
  static V vis1(const V& v, const V& a) { return v + a; }
  static V vis3(const V& v, const V& a) { return a + v; }
  static V v2_1(const V& v, const V& n, const V& a) { return v + n + a; }
  static V g1(const V& v, const V& a) { return v + a; }
  template <class It> static V g4(It b, It e) { V r; for (; b != e; ++b) r += b->second; return r; }
  static V red(int rop, const V& x, const V& y) { return rop == 0 ? x + y : rop == 1 ? (x < y ? y : x) : (y < x ? y : x); }
};
template <> struct vsem<i64> {
  using V = i64;
  static V vis1(const V& v, const V& a) { return (3 * v + a) % MOD; }
  static V vis3(const V& v, const V& a) { return (a + 7 * v) % MOD; }
  static V v2_1(const V& v, const V& n, const V& a) { return (5 * v + 3 * n + a) % MOD; }
  static V g1(const V& v, const V& a) { return (v + a) % MOD; }
  template <class It> static V g4(It b, It e) { V r = 0; for (; b != e; ++b) r += b->second; return r % MOD; }
  static V red(int rop, const V& x, const V& y) { return rop == 0 ? (2 * x + y) % MOD : rop == 1 ? (x < y ? y : x) : (x + y) % MOD; }
};

// a strict total order different from operator< and from operator>: strings by (length, text), integers by (residue mod 7, value)
template <class K> struct alt_compare;
template <> struct alt_compare<std::string> {
  bool operator()(const std::string& a, const std::string& b) const { return a.size() != b.size() ? a.size() < b.size() : a < b; }
};
template <> struct alt_compare<i64> {
  bool operator()(const i64& a, const i64& b) const { i64 ra = ((a % 7) + 7) % 7, rb = ((b % 7) + 7) % 7; return ra != rb ? ra < rb : a < b; }
};
// a partitioner different from hash_partitioner
template <class K> struct alt_partitioner {
  std::pair<size_t, size_t> operator()(const K& k, size_t nranks, size_t nbanks) const {
    size_t h = std::hash<K>{}(k) * 0x9e3779b97f4a7c15ULL + 12345;
    h ^= h >> 29;
    return std::make_pair((h / 3) % nranks, (h / nranks) % nbanks);
  }
};

template <> struct vsem<u64> {
  using V = u64;
  static V vis1(const V& v, const V& a) { return 3 * v + a; }
  static V vis3(const V& v, const V& a) { return a + 7 * v; }
  static V v2_1(const V& v, const V& n, const V& a) { return 5 * v + 3 * n + a; }
  static V g1(const V& v, const V& a) { return v + a; }
  template <class It> static V g4(It b, It e) { V r = 0; for (; b != e; ++b) r += b->second; return r; }
  static V red(int rop, const V& x, const V& y) { return rop == 0 ? 2 * x + y : rop == 1 ? (x < y ? y : x) : x + y; }
};

template <class V, int ROP> struct reducer { V operator()(const V& x, const V& y) const { return vsem<V>::red(ROP, x, y); } };

template <class K, class V> struct visitor {
  template <class P> void operator()(P pmap, const K& key, V& value, const int& c, const int& vis, const V& arg) {
    hc::out("cb " + std::to_string(c) + " s " + std::to_string(vis) + " " + E(key) + " " + E(value) + " " + E(arg));
    K d = codec<K>::dk(key);
    switch (vis) {
      case 1: value = vsem<V>::vis1(value, arg); break;
      case 2: hc::out("em " + std::to_string(c) + " red " + E(d) + " " + E(value) + " 1");
              pmap->async_reduce(d, value, reducer<V, 1>()); break;
      case 3: value = vsem<V>::vis3(value, arg);
              hc::out("em " + std::to_string(c) + " vis " + E(d) + " 1 " + E(arg));
              pmap->async_visit(d, visitor<K, V>(), c, 1, arg); break;
      case 4: hc::out("em " + std::to_string(c) + " insm " + E(d) + " " + E(value));
              pmap->async_insert_multi(d, value); break;
      default: break;
    }
  }
};
template <class K, class V> struct visitor2 {
  template <class P> void operator()(P pmap, const K& key, V& value, const V& offered, const int& c, const int& vis, const V& arg) {
    hc::out("cb " + std::to_string(c) + " o " + std::to_string(vis) + " " + E(key) + " " + E(value) + " " + E(offered) + " " + E(arg));
    K d = codec<K>::dk(key);
    switch (vis) {
      case 1: value = vsem<V>::v2_1(value, offered, arg); break;
      case 2: hc::out("em " + std::to_string(c) + " red " + E(d) + " " + E(offered) + " 1");
              pmap->async_reduce(d, offered, reducer<V, 1>()); break;
      default: break;
    }
  }
};
template <class K, class V> struct visitorG {
  template <class P, class It> void operator()(P pmap, It b, It e, const int& c, const int& vis, const V& arg) {
    std::string l = "cb " + std::to_string(c) + " g " + std::to_string(vis) + " " + E(b->first) + " " + E(arg);
    for (It i = b; i != e; ++i) l += " " + E(i->second);
    hc::out(l);
    K key = b->first;
    K d   = codec<K>::dk(key);
    switch (vis) {
      case 1: for (It i = b; i != e; ++i) i->second = vsem<V>::g1(i->second, arg); break;
      case 4: { V s = vsem<V>::g4(b, e);
                hc::out("em " + std::to_string(c) + " insm " + E(d) + " " + E(s));
                pmap->async_insert_multi(d, s); break; }
      case 5: { std::vector<V> vs; for (It i = b; i != e; ++i) vs.push_back(i->second);
                std::reverse(vs.begin(), vs.end()); size_t j = 0; for (It i = b; i != e; ++i) i->second = vs[j++]; break; }
      default: break;
    }
  }
};

static std::vector<std::string> toks(const std::string& line) {
  std::vector<std::string> v; std::stringstream ss(line); std::string t; while (ss >> t) v.push_back(t); return v;
}
static std::vector<std::string> read_lines(const char* path) {
  std::vector<std::string> v; std::ifstream f(path); std::string l; while (std::getline(f, l)) v.push_back(l); return v;
}

template <class K, class V, bool MULTI, class Part = ygm::container::detail::hash_partitioner<K>, class Cmp = std::less<K>>
int run_map(ygm::comm& world, const std::vector<std::string>& lines) {
  using C = typename std::conditional<MULTI, ygm::container::multimap<K, V, Part, Cmp>, ygm::container::map<K, V, Part, Cmp>>::type;
  V dv0 = V(), dv1 = V();
  if (!lines.empty()) { auto w = toks(lines[0]); if (w.size() == 3 && w[0] == "dv") { dv0 = codec<V>::dec(w[1]); dv1 = codec<V>::dec(w[2]); } }
  std::unique_ptr<C> cs[2];
  cs[0].reset(new C(world, dv0)); cs[1].reset(new C(world, dv1));
  C& c0 = *cs[0];
  auto cmp = [](const std::pair<K, V>& a, const std::pair<K, V>& b) {
    return a.second > b.second || (a.second == b.second && a.first < b.first); };
  for (size_t li = 0; li < lines.size(); ++li) {
    auto w = toks(lines[li]);
    if (w.empty() || w[0] == "dv") continue;
    if (w[0] == "sr") { if (atoi(w[1].c_str()) == world.rank()) world.stats_reset(); continue; }
    if (w[0] == "o") {
      if (atoi(w[1].c_str()) != world.rank()) continue;
      int c = atoi(w[2].c_str()); C& m = *cs[c]; const std::string& op = w[3];
      hc::out("I " + std::to_string(li));
      K k = codec<K>::dec(w[4]);
      if (op == "insm" || op == "ins") m.async_insert(k, codec<V>::dec(w[5]));
      else if (op == "era") m.async_erase(k);
      else if (op == "vis") m.async_visit(k, visitor<K, V>(), c, atoi(w[5].c_str()), codec<V>::dec(w[6]));
      else if (op == "vie") m.async_visit_if_exists(k, visitor<K, V>(), c, atoi(w[5].c_str()), codec<V>::dec(w[6]));
      else if constexpr (MULTI) {
        if (op == "visg") m.async_visit_group(k, visitorG<K, V>(), c, atoi(w[5].c_str()), codec<V>::dec(w[6]));
        else { hc::out("bad-op " + lines[li]); return 3; }
      } else {
        if (op == "iim") m.async_insert_if_missing(k, codec<V>::dec(w[5]));
        else if (op == "iev") m.async_insert_if_missing_else_visit(k, codec<V>::dec(w[5]), visitor2<K, V>(), c, atoi(w[6].c_str()), codec<V>::dec(w[7]));
        else if (op == "red") {
          V v = codec<V>::dec(w[5]); int rop = atoi(w[6].c_str());
          if (rop == 0) m.async_reduce(k, v, reducer<V, 0>()); else if (rop == 1) m.async_reduce(k, v, reducer<V, 1>()); else m.async_reduce(k, v, reducer<V, 2>());
        } else { hc::out("bad-op " + lines[li]); return 3; }
      }
      continue;
    }
    std::string ans;
    if (w[0] == "B") world.barrier();
    else if (w[0] == "keys") { for (size_t i = 1; i < w.size(); ++i) hc::out("O " + w[i] + " " + std::to_string(c0.owner(codec<K>::dec(w[i])))); }
    else if (w[0] == "size") ans = "S " + std::to_string(cs[atoi(w[1].c_str())]->size());
    else if (w[0] == "count") ans = "C " + std::to_string(cs[atoi(w[1].c_str())]->count(codec<K>::dec(w[2])));
    else if (w[0] == "forall") {
      ans = "F";
      cs[atoi(w[1].c_str())]->for_all([&ans](const K& k, V& v) { ans += " " + E(k) + " " + E(v) + ";"; });
    } else if (w[0] == "gather") {
      int who = atoi(w[2].c_str()); std::vector<K> ks;
      if (who < 0 || who == world.rank()) for (size_t i = 3; i < w.size(); ++i) ks.push_back(codec<K>::dec(w[i]));
      auto res = cs[atoi(w[1].c_str())]->all_gather(ks);
      ans = "G"; for (auto& kv : res) ans += " " + E(kv.first) + " " + E(kv.second) + ";";
    } else if (w[0] == "topk") {
      auto res = cs[atoi(w[1].c_str())]->topk((size_t)atol(w[2].c_str()), cmp);
      ans = "T"; for (auto& kv : res) ans += " " + E(kv.first) + " " + E(kv.second) + ";";
    } else if (w[0] == "swap") cs[0]->swap(*cs[1]);
    else if (w[0] == "clear") cs[atoi(w[1].c_str())]->clear();
    else if (w[0] == "copy") {
      // container 1 is destroyed and replaced by a COPY of container 0 (copy constructor); the script goes on at once,
      // on the copy and on the original
      cs[1].reset();
      cs[1].reset(new C(*cs[0]));
    }
    else { hc::out("bad-directive " + lines[li]); return 3; }
    hc::out("M " + std::to_string(li));
    if (!ans.empty()) hc::out(ans);
  }
  world.barrier();
  cs[1].reset(); cs[0].reset();
  return 0;
}

// ---------------------------------------------------------------------------------------- sets
template <class S> struct setreg { static S*& at(int c) { static S* p[2] = {nullptr, nullptr}; return p[c]; } };

template <class K, class S, bool MULTI> struct exe_visitor {
  void operator()(const K& key, const int& c, const int& vis, const K& arg) {
    hc::out("cb " + std::to_string(c) + " x " + std::to_string(vis) + " " + E(key) + " " + E(arg));
    K d = codec<K>::dk(key);
    if constexpr (!MULTI) {
      S* s = setreg<S>::at(c);
      switch (vis) {
        case 2: hc::out("em " + std::to_string(c) + " ins " + E(d)); s->async_insert(d); break;
        case 3: hc::out("em " + std::to_string(c) + " ieim " + E(d) + " 0 " + E(arg));
                s->async_insert_exe_if_missing(d, exe_visitor<K, S, MULTI>(), c, 0, arg); break;
        default: break;
      }
    }
  }
};

template <class K, bool MULTI, class Part = ygm::container::detail::hash_partitioner<K>, class Cmp = std::less<K>>
int run_set(ygm::comm& world, const std::vector<std::string>& lines) {
  using S = typename std::conditional<MULTI, ygm::container::multiset<K, Part, Cmp>, ygm::container::set<K, Part, Cmp>>::type;
  S  c0(world), c1(world);
  S* cs[2] = {&c0, &c1};
  setreg<S>::at(0) = &c0; setreg<S>::at(1) = &c1;
  for (size_t li = 0; li < lines.size(); ++li) {
    auto w = toks(lines[li]);
    if (w.empty() || w[0] == "dv") continue;
    if (w[0] == "sr") { if (atoi(w[1].c_str()) == world.rank()) world.stats_reset(); continue; }
    if (w[0] == "o") {
      if (atoi(w[1].c_str()) != world.rank()) continue;
      int c = atoi(w[2].c_str()); S& s = *cs[c]; const std::string& op = w[3];
      hc::out("I " + std::to_string(li));
      K k = codec<K>::dec(w[4]);
      if (op == "ins" || op == "insm") s.async_insert(k);
      else if (op == "era") s.async_erase(k);
      else if constexpr (!MULTI) {
        int vis = atoi(w[5].c_str()); K a = codec<K>::dec(w[6]);
        if (op == "ieim") s.async_insert_exe_if_missing(k, exe_visitor<K, S, MULTI>(), c, vis, a);
        else if (op == "ieic") s.async_insert_exe_if_contains(k, exe_visitor<K, S, MULTI>(), c, vis, a);
        else if (op == "eim") s.async_exe_if_missing(k, exe_visitor<K, S, MULTI>(), c, vis, a);
        else if (op == "eic") s.async_exe_if_contains(k, exe_visitor<K, S, MULTI>(), c, vis, a);
        else { hc::out("bad-op " + lines[li]); return 3; }
      } else { hc::out("bad-op " + lines[li]); return 3; }
      continue;
    }
    std::string ans;
    if (w[0] == "B") world.barrier();
    else if (w[0] == "keys") { for (size_t i = 1; i < w.size(); ++i) hc::out("O " + w[i] + " " + std::to_string(c0.owner(codec<K>::dec(w[i])))); }
    else if (w[0] == "size") ans = "S " + std::to_string(cs[atoi(w[1].c_str())]->size());
    else if (w[0] == "count") ans = "C " + std::to_string(cs[atoi(w[1].c_str())]->count(codec<K>::dec(w[2])));
    else if (w[0] == "forall") {
      ans = "F";
      cs[atoi(w[1].c_str())]->for_all([&ans](const K& k) { ans += " " + E(k) + ";"; });
    } else if (w[0] == "consume" || w[0] == "consumeiter") {
      int c = atoi(w[1].c_str()); int vis = atoi(w[2].c_str()); S& s = *cs[c];
      auto fn = [c, vis, &s](const K& k) {
        hc::out("cb " + std::to_string(c) + " c " + std::to_string(vis) + " " + E(k));
        if ((vis == 1 || vis == 6) && !codec<K>::gen2(k)) {
          K p = codec<K>::prod(k);
          hc::out("em " + std::to_string(c) + (MULTI ? " insm " : " ins ") + E(p));
          s.async_insert(p);
        }
      };
      if (w[0] == "consume") { ygm::for_all_consume_adapter<S> ad(s); ad.for_all(fn); }
      else { ygm::consume_all_iterative_adapter<S> ad(s); ad.consume_all(fn); }
    } else if (w[0] == "swap") c0.swap(c1);
    else if (w[0] == "clear") cs[atoi(w[1].c_str())]->clear();
    else { hc::out("bad-directive " + lines[li]); return 3; }
    hc::out("M " + std::to_string(li));
    if (!ans.empty()) hc::out(ans);
  }
  world.barrier();
  return 0;
}

// ---------------------------------------------------------------------------------------- key equivalence ("keyeq")
// A key is what the container's Compare (resp. operator==) says it is, not its object representation.  Key types whose
// bytes are not in 1:1 correspondence with their value:
//   d  double: +0.0 / -0.0 are one key
//   v  vkey {uint32 id; uint32 tag}: operator<, operator== and std::hash look at id only (tag differs between call sites)
//   p  pkey {uint8 a; uint64 b}: 7 padding bytes, deliberately filled with different garbage (memset before the fields)
// args: keyeq <d|v|p><m|s> <scenario>      (m = ygm::container::map<K,int64_t>, s = ygm::container::set<K>)
// directives:  o <rank> <op> <key> [value]   op: vis vie red iev ins iim era (map) | ins era (set)
//              B | size | count <key> | own <key>... | forall | gather <rank|-1> <key>...
// key tokens:  d `=<strtod text>`   v `=<id>:<tag>`   p `=<a>:<b>:<garbage byte>`
// every rank prints `A <line> <answer>` for every directive with an answer (S n | C n | O owners | F k v; | G k v;)
struct vkey { uint32_t id; uint32_t tag; template <class A> void serialize(A& ar) { ar(id, tag); } };
inline bool operator<(const vkey& x, const vkey& y) { return x.id < y.id; }
inline bool operator==(const vkey& x, const vkey& y) { return x.id == y.id; }
struct pkey { uint8_t a; uint64_t b; template <class A> void serialize(A& ar) { ar(a, b); } };
inline bool operator<(const pkey& x, const pkey& y) { return x.a != y.a ? x.a < y.a : x.b < y.b; }
inline bool operator==(const pkey& x, const pkey& y) { return x.a == y.a && x.b == y.b; }
namespace std {
template <> struct hash<vkey> { size_t operator()(const vkey& k) const { return std::hash<uint32_t>{}(k.id); } };
template <> struct hash<pkey> { size_t operator()(const pkey& k) const { return std::hash<uint64_t>{}(k.b * 257 + k.a); } };
}  // namespace std

template <class K> struct keq;
template <> struct keq<double> {
  static __attribute__((noinline)) void make(double* out, const std::string& t) { *out = strtod(t.c_str() + 1, nullptr); }
  static std::string enc(const double& k) { char b[64]; snprintf(b, sizeof b, "=%.17g", k); return b; }
};
template <> struct keq<vkey> {
  static __attribute__((noinline)) void make(vkey* out, const std::string& t) {
    char* e = nullptr; out->id = (uint32_t)strtoull(t.c_str() + 1, &e, 10); out->tag = (uint32_t)strtoull(e + 1, nullptr, 10);
  }
  static std::string enc(const vkey& k) { return "=" + std::to_string(k.id) + ":" + std::to_string(k.tag); }
};
template <> struct keq<pkey> {
  static __attribute__((noinline)) void make(pkey* out, const std::string& t) {
    char* e = nullptr; unsigned long long a = strtoull(t.c_str() + 1, &e, 10); unsigned long long b = strtoull(e + 1, &e, 10);
    int g = (int)strtoull(e + 1, nullptr, 10);
    memset((void*)out, g, sizeof(pkey));        // the padding bytes keep the garbage: only the named members are assigned
    out->a = (uint8_t)a; out->b = (uint64_t)b;
    if (((const unsigned char*)out)[3] != (unsigned char)g) hc::out("padlost");
  }
  static std::string enc(const pkey& k) { return "=" + std::to_string((unsigned)k.a) + ":" + std::to_string(k.b); }
};
template <class K> struct kq_inc { void operator()(const K&, i64& v) { ++v; } };
template <class K> struct kq_add { void operator()(const K&, i64& v, const i64& offered) { v += offered; } };

template <class K, bool MAP> int run_keyeq(ygm::comm& world, const std::vector<std::string>& lines) {
  using C = typename std::conditional<MAP, ygm::container::map<K, i64>, ygm::container::set<K>>::type;
  C m(world);
  for (size_t li = 0; li < lines.size(); ++li) {
    auto w = toks(lines[li]);
    if (w.empty()) continue;
    if (w[0] == "o") {
      if (atoi(w[1].c_str()) != world.rank()) continue;
      const std::string& op = w[2];
      K k; keq<K>::make(&k, w[3]);
      i64 v = w.size() > 4 ? atoll(w[4].c_str()) : 0;
      if (op == "era") m.async_erase(k);
      else if constexpr (MAP) {
        if (op == "vis") m.async_visit(k, kq_inc<K>());
        else if (op == "vie") m.async_visit_if_exists(k, kq_inc<K>());
        else if (op == "red") m.async_reduce(k, v, std::plus<i64>());
        else if (op == "iev") m.async_insert_if_missing_else_visit(k, v, kq_add<K>());
        else if (op == "ins") m.async_insert(k, v);
        else if (op == "iim") m.async_insert_if_missing(k, v);
        else { hc::out("bad-op " + lines[li]); return 3; }
      } else {
        if (op == "ins") m.async_insert(k);
        else { hc::out("bad-op " + lines[li]); return 3; }
      }
      continue;
    }
    std::string ans;
    if (w[0] == "B") { world.barrier(); continue; }
    else if (w[0] == "size") ans = "S " + std::to_string(m.size());
    else if (w[0] == "count") { K k; keq<K>::make(&k, w[1]); ans = "C " + std::to_string(m.count(k)); }
    else if (w[0] == "own") { ans = "O"; for (size_t i = 1; i < w.size(); ++i) { K k; keq<K>::make(&k, w[i]); ans += " " + std::to_string(m.owner(k)); } }
    else if (w[0] == "forall") {
      ans = "F";
      if constexpr (MAP) m.for_all([&ans](const K& k, i64& v) { ans += " " + keq<K>::enc(k) + " " + std::to_string(v) + ";"; });
      else m.for_all([&ans](const K& k) { ans += " " + keq<K>::enc(k) + ";"; });
    } else if (w[0] == "gather") {
      if constexpr (MAP) {
        int who = atoi(w[1].c_str()); std::vector<K> ks;
        if (who < 0 || who == world.rank()) for (size_t i = 2; i < w.size(); ++i) { K k; keq<K>::make(&k, w[i]); ks.push_back(k); }
        auto res = m.all_gather(ks);
        ans = "G"; for (auto& kv : res) ans += " " + keq<K>::enc(kv.first) + " " + std::to_string(kv.second) + ";";
      } else { hc::out("bad-directive " + lines[li]); return 3; }
    } else { hc::out("bad-directive " + lines[li]); return 3; }
    hc::out("A " + std::to_string(li) + " " + ans);
  }
  world.barrier();
  return 0;
}

static int dispatch_keyeq(ygm::comm& world, const std::string& kinds, const std::vector<std::string>& lines) {
  if (kinds == "dm") return run_keyeq<double, true>(world, lines);
  if (kinds == "ds") return run_keyeq<double, false>(world, lines);
  if (kinds == "vm") return run_keyeq<vkey, true>(world, lines);
  if (kinds == "vs") return run_keyeq<vkey, false>(world, lines);
  if (kinds == "pm") return run_keyeq<pkey, true>(world, lines);
  if (kinds == "ps") return run_keyeq<pkey, false>(world, lines);
  hc::out("bad-kinds");
  return 2;
}

// the scenario body takes the communicator as a parameter: the same code (same template instantiations, same lambda /
// functor types) runs on a sub-communicator and on the world communicator of one process
static int dispatch(ygm::comm& world, const std::string& what, const std::string& kinds, const std::string& variant,
                    const std::vector<std::string>& lines) {
  g_log_pack = world.size() == 1;
  if (what == "keyeq") { g_log_pack = false; return dispatch_keyeq(world, kinds, lines); }
  using str = std::string;
  using hp_s = ygm::container::detail::hash_partitioner<str>; using hp_i = ygm::container::detail::hash_partitioner<i64>;
  if (variant == "g") {
    bool multi = what == "multimap" || what == "multiset";
    if (what == "map" || what == "multimap") {
      if (kinds == "ss") return multi ? run_map<str, str, true, hp_s, std::greater<str>>(world, lines) : run_map<str, str, false, hp_s, std::greater<str>>(world, lines);
      if (kinds == "is") return multi ? run_map<i64, str, true, hp_i, std::greater<i64>>(world, lines) : run_map<i64, str, false, hp_i, std::greater<i64>>(world, lines);
      if (kinds == "si") return multi ? run_map<str, i64, true, hp_s, std::greater<str>>(world, lines) : run_map<str, i64, false, hp_s, std::greater<str>>(world, lines);
    } else {
      if (kinds == "s") return multi ? run_set<str, true, hp_s, std::greater<str>>(world, lines) : run_set<str, false, hp_s, std::greater<str>>(world, lines);
      if (kinds == "i") return multi ? run_set<i64, true, hp_i, std::greater<i64>>(world, lines) : run_set<i64, false, hp_i, std::greater<i64>>(world, lines);
    }
    hc::out("bad-kinds"); return 2;
  }
  if (variant == "p") {
    bool multi = what == "multimap" || what == "multiset";
    if (what == "map" || what == "multimap") {
      if (kinds == "ss") return multi ? run_map<str, str, true, alt_partitioner<str>, alt_compare<str>>(world, lines) : run_map<str, str, false, alt_partitioner<str>, alt_compare<str>>(world, lines);
      if (kinds == "is") return multi ? run_map<i64, str, true, alt_partitioner<i64>, alt_compare<i64>>(world, lines) : run_map<i64, str, false, alt_partitioner<i64>, alt_compare<i64>>(world, lines);
    } else {
      if (kinds == "s") return multi ? run_set<str, true, alt_partitioner<str>, alt_compare<str>>(world, lines) : run_set<str, false, alt_partitioner<str>, alt_compare<str>>(world, lines);
      if (kinds == "i") return multi ? run_set<i64, true, alt_partitioner<i64>, alt_compare<i64>>(world, lines) : run_set<i64, false, alt_partitioner<i64>, alt_compare<i64>>(world, lines);
    }
    hc::out("bad-kinds"); return 2;
  }
  if (what == "map" || what == "multimap") {
    bool multi = what == "multimap";
    if (kinds == "uu") return multi ? run_map<u64, u64, true>(world, lines) : run_map<u64, u64, false>(world, lines);
    if (kinds == "us") return multi ? run_map<u64, std::string, true>(world, lines) : run_map<u64, std::string, false>(world, lines);
    if (kinds == "ss") return multi ? run_map<std::string, std::string, true>(world, lines) : run_map<std::string, std::string, false>(world, lines);
    if (kinds == "is") return multi ? run_map<i64, std::string, true>(world, lines) : run_map<i64, std::string, false>(world, lines);
    if (kinds == "si") return multi ? run_map<std::string, i64, true>(world, lines) : run_map<std::string, i64, false>(world, lines);
  } else {
    bool multi = what == "multiset";
    if (kinds == "u") return multi ? run_set<u64, true>(world, lines) : run_set<u64, false>(world, lines);
    if (kinds == "s") return multi ? run_set<std::string, true>(world, lines) : run_set<std::string, false>(world, lines);
    if (kinds == "i") return multi ? run_set<i64, true>(world, lines) : run_set<i64, false>(world, lines);
  }
  hc::out("bad-kinds");
  return 2;
}

// args: what kinds scenario [variant] [comms]
//   comms: "w" world only (default) | "sw-<split>" sub-communicator first, then world | "ws-<split>" world first, then sub
//   split (by the local id of a rank on its node, so that sub-communicators keep a uniform ranks-per-node layout):
//   "last" = local ids 0..ppn-2 versus local id ppn-1,  "parity" = even versus odd local ids (every rank is in one
//   sub-communicator, every sub-communicator runs the scenario: ranks named by the script that do not exist there issue nothing)
// `PH <world|sub> <group> <rank> <size>` precedes the output of each run.
extern "C" int sim_main(int argc, char** argv) {
  int wr = 0, wn = 1;
  MPI_Comm_rank(MPI_COMM_WORLD, &wr); MPI_Comm_size(MPI_COMM_WORLD, &wn);
  hc::open_out(wr);
  if (argc < 4) { hc::out("usage"); return 2; }
  std::string what = argv[1], kinds = argv[2], variant = argc > 4 ? argv[4] : "d", comms = argc > 5 ? argv[5] : "w";
  auto lines = read_lines(argv[3]);
  auto run_world = [&]() {
    ygm::comm world(MPI_COMM_WORLD);
    hc::out("PH world 0 " + std::to_string(world.rank()) + " " + std::to_string(world.size()));
    return dispatch(world, what, kinds, variant, lines);
  };
  auto run_sub = [&]() {
    bool parity = comms.find("parity") != std::string::npos;
    // split by the rank's local id on its node, so that every sub-communicator has the same number of ranks on every node
    const char* e = getenv("SIMMPI_PPN"); int ppn = e ? atoi(e) : wn; if (ppn <= 0 || wn % ppn != 0) ppn = wn;
    const char* pl = getenv("SIMMPI_PLACEMENT");
    bool cyclic = pl && std::string(pl) == "cyclic";     // round-robin placement: rank r lives on node r % N
    int local = cyclic ? wr / (wn / ppn) : wr % ppn;
    int colour = parity ? (local % 2) : (local < ppn - 1 ? 0 : 1);
    MPI_Comm subc;
    MPI_Comm_split(MPI_COMM_WORLD, colour, wr, &subc);
    int rc;
    {
      ygm::comm sub(subc);
      hc::out("PH sub " + std::to_string(colour) + " " + std::to_string(sub.rank()) + " " + std::to_string(sub.size()));
      rc = dispatch(sub, what, kinds, variant, lines);
    }
    MPI_Comm_free(&subc);
    return rc;
  };
  int rc = 0;
  if (comms.rfind("sw", 0) == 0) { rc = run_sub(); if (rc == 0) rc = run_world(); }
  else if (comms.rfind("ws", 0) == 0) { rc = run_world(); if (rc == 0) rc = run_sub(); }
  else rc = run_world();
  return rc;
}
