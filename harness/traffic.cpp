// `traffic`: scenario interpreter over the real ygm::comm, run under simmpi.
// Serves C01 C02 C03 C05 C07 C08: every rank interprets the scenario file (argv[1]); all
// messages use one functor type carrying (uid, epoch, ttl, flags, blob); handler behaviour
// (children, progress calls, callbacks) is a pure function of the uid (splitmix64), so the
// check can recompute the whole message DAG.  Events go to the coordinator's ordered log:
//   k <tag> a b c            instrumentation hooks of /repo (YGM_VERIF_HOOKS)
//   A <uid> <dest> <size> <ctx>   async about to be issued (ctx m=main h=handler c=callback)
//   a <uid>                  async returned
//   BC <uid> <size> <ctx> / bc <uid>      async_bcast ;  MC <uid> <size> <dests> / mc <uid>
//   X <uid> <epoch> <ok> <leg>   handler entered (blob verified: ok=1) ; x <uid> handler left
//   E <e> barrier about to be called ; e <e> barrier returned
//   P / p  local_progress ; W <flag> / w <flag> local_wait_until ; M+ / M- harness mask
//   R <uid> callback registered ; C <uid> callback runs ; c <uid> callback done
//   Q+ / Q-  everything this rank logs in between belongs to the SECOND communicator (scenario line
//            `op <e> -1 other <k>`: every rank, at that point of epoch e, sends k messages on a second ygm::comm
//            living in the same process and runs its barrier); the checks drop that window from the history
#define HC_OWN_HOOK
#include "hcommon.hpp"
#include <ygm/comm.hpp>
#include <ygm/detail/interrupt_mask.hpp>
#include <fstream>
#include <memory>
#include <map>

static ygm::comm* g_world = nullptr;
static int g_rank = 0, g_size = 1;
static int g_depth = 0;          // handler nesting as seen by the harness
static bool g_in_cb = false;
static std::map<long, bool> g_flags;
static int g_maxfan = 2, g_hprog_pct = 20, g_hcb_pct = 5, g_hbc_pct = 0, g_hburst_pct = 0, g_hburst_k = 0;
static std::vector<long> g_sizes = {0, 8, 100, 600};

extern "C" void ygm_verif_hook(const char* tag, long a, long b, long c) {
  char buf[160]; snprintf(buf, sizeof buf, "k %s %ld %ld %ld", tag, a, b, c); simmpi_log(buf);
}

static inline uint64_t mix(uint64_t z) { z += 0x9e3779b97f4a7c15ULL; z = (z ^ (z >> 30)) * 0xbf58476d1ce4e5b9ULL; z = (z ^ (z >> 27)) * 0x94d049bb133111ebULL; return z ^ (z >> 31); }
static std::vector<uint8_t> blob_of(uint64_t uid, long size) {
  std::vector<uint8_t> b((size_t)size); uint64_t s = mix(uid ^ 0xabcdef);
  for (long i = 0; i < size; ++i) { if (i % 8 == 0) s = mix(s); b[i] = (uint8_t)(s >> (8 * (i % 8))); }
  return b;
}
static char ctx() { return g_in_cb ? 'c' : (g_depth > 0 ? 'h' : 'm'); }

struct msg_fn;
static void issue_async(uint64_t uid, int dest, long size, int epoch, int ttl);
static void issue_bcast(uint64_t uid, long size, int epoch, int ttl);

// what the handler of message `uid` does after verifying its payload (pure function of uid)
static void handler_body(uint64_t uid, int epoch, int ttl) {
  if (ttl <= 0) return;
  uint64_t h = mix(uid * 0x51ed27);
  int fan = (int)(h % (uint64_t)(g_maxfan + 1)); h = mix(h);
  for (int i = 0; i < fan; ++i) {
    uint64_t cu = uid * 8 + (uint64_t)i + 1; uint64_t hh = mix(cu);
    int dest = (int)(hh % (uint64_t)g_size); hh = mix(hh);
    long size = g_sizes[hh % g_sizes.size()]; hh = mix(hh);
    if ((int)(hh % 100) < g_hbc_pct) issue_bcast(cu, size, epoch, 0);
    else issue_async(cu, dest, size, epoch, ttl - 1);
  }
  if ((int)(h % 100) < g_hprog_pct) { hc::ev("P"); g_world->local_progress(); hc::ev("p"); }
  h = mix(h);
  if ((int)(h % 100) < g_hcb_pct) {
    uint64_t cu = uid * 8 + 7; int dest = (int)(mix(cu) % (uint64_t)g_size);
    hc::ev("R " + std::to_string(cu));
    g_world->register_pre_barrier_callback([cu, dest, epoch]() {
      hc::ev("C " + std::to_string(cu)); bool was = g_in_cb; g_in_cb = true;
      issue_async(cu, dest, 8, epoch, 0);
      g_in_cb = was; hc::ev("c " + std::to_string(cu)); });
  }
  h = mix(h);
  if ((int)(h % 100) < g_hburst_pct) {
    // a long-running handler: k times { send a small message ; local_progress } — hundreds of flushes inside ONE handler
    for (int j = 0; j < g_hburst_k; ++j) {
      uint64_t cu = uid * 4096 + 16 + (uint64_t)j; int dest = (int)(mix(cu) % (uint64_t)g_size);
      issue_async(cu, dest, 8, epoch, 0);
      hc::ev("P"); g_world->local_progress(); hc::ev("p");
    }
  }
}

static int g_fstate = 0;     // param fstate 1: every message uses a function object WITH state (8 bytes)
static inline void on_message(uint64_t uid, int32_t epoch, int32_t ttl, int32_t leg, const std::vector<uint8_t>& blob, bool state_ok);

struct msg_fn {
  template <typename Comm>
  void operator()(Comm* c, uint64_t uid, int32_t epoch, int32_t ttl, int32_t leg, const std::vector<uint8_t>& blob) {
    on_message(uid, epoch, ttl, leg, blob, true);
  }
};
struct msg_fn_s {
  uint64_t salt;
  template <typename Comm>
  void operator()(Comm* c, uint64_t uid, int32_t epoch, int32_t ttl, int32_t leg, const std::vector<uint8_t>& blob) {
    on_message(uid, epoch, ttl, leg, blob, salt == (uid ^ 0x5a5a5a5a5a5aULL));
  }
};

static inline void on_message(uint64_t uid, int32_t epoch, int32_t ttl, int32_t leg, const std::vector<uint8_t>& blob, bool state_ok) {
  {
    g_depth++;
    bool ok = state_ok && (blob == blob_of(uid, (long)blob.size()));
    hc::ev("X " + std::to_string(uid) + " " + std::to_string(epoch) + " " + (ok ? "1" : "0") + " " + std::to_string(leg) + " " + std::to_string(blob.size()) + " " + std::to_string(g_depth));
    if (leg >= 1000) g_flags[leg - 1000] = true;   // flag-setting message
    handler_body(uid, epoch, ttl);
    hc::ev("x " + std::to_string(uid));
    g_depth--;
  }
}

static void issue_async(uint64_t uid, int dest, long size, int epoch, int ttl) {
  auto b = blob_of(uid, size);
  hc::ev("A " + std::to_string(uid) + " " + std::to_string(dest) + " " + std::to_string(size) + " " + ctx());
  if (g_fstate) g_world->async(dest, msg_fn_s{uid ^ 0x5a5a5a5a5a5aULL}, uid, (int32_t)epoch, (int32_t)ttl, (int32_t)0, b);
  else g_world->async(dest, msg_fn(), uid, (int32_t)epoch, (int32_t)ttl, (int32_t)0, b);
  hc::ev("a " + std::to_string(uid));
}
static void issue_flag(uint64_t uid, int dest, long flag, int epoch) {
  auto b = blob_of(uid, 4);
  hc::ev("A " + std::to_string(uid) + " " + std::to_string(dest) + " 4 " + ctx());
  if (g_fstate) g_world->async(dest, msg_fn_s{uid ^ 0x5a5a5a5a5a5aULL}, uid, (int32_t)epoch, (int32_t)0, (int32_t)(1000 + flag), b);
  else g_world->async(dest, msg_fn(), uid, (int32_t)epoch, (int32_t)0, (int32_t)(1000 + flag), b);
  hc::ev("a " + std::to_string(uid));
}
static void issue_bcast(uint64_t uid, long size, int epoch, int ttl) {
  auto b = blob_of(uid, size);
  hc::ev("BC " + std::to_string(uid) + " " + std::to_string(size) + " " + ctx());
  if (g_fstate) g_world->async_bcast(msg_fn_s{uid ^ 0x5a5a5a5a5a5aULL}, uid, (int32_t)epoch, (int32_t)ttl, (int32_t)1, b);
  else g_world->async_bcast(msg_fn(), uid, (int32_t)epoch, (int32_t)ttl, (int32_t)1, b);
  hc::ev("bc " + std::to_string(uid));
}
static void issue_mcast(uint64_t uid, long size, int epoch, const std::vector<int>& dests) {
  auto b = blob_of(uid, size); std::string ds; for (int d : dests) ds += std::to_string(d) + ",";
  hc::ev("MC " + std::to_string(uid) + " " + std::to_string(size) + " " + ds);
  if (g_fstate) g_world->async_mcast(dests, msg_fn_s{uid ^ 0x5a5a5a5a5a5aULL}, uid, (int32_t)epoch, (int32_t)0, (int32_t)2, b);
  else g_world->async_mcast(dests, msg_fn(), uid, (int32_t)epoch, (int32_t)0, (int32_t)2, b);
  hc::ev("mc " + std::to_string(uid));
}

struct Op { std::string kind; std::vector<std::string> f; };

extern "C" int sim_main(int argc, char** argv) {
  std::vector<std::vector<Op>> prog;   // per epoch, this rank's ops
  int my = -1;
  int subcomm = 0; long precomm_kb = -1;
  { std::ifstream pre(argv[1]); std::string l; while (std::getline(pre, l)) { std::stringstream ss(l); std::string w, k; long v; ss >> w; if (w == "param") { ss >> k >> v; if (k == "fstate") g_fstate = (int)v; if (k == "subcomm") subcomm = (int)v; if (k == "precomm") precomm_kb = v; } } }
  MPI_Comm base = MPI_COMM_WORLD;
  if (subcomm) {   // a communicator whose rank order is the reverse of MPI_COMM_WORLD's
    int wr, ws; MPI_Comm_rank(MPI_COMM_WORLD, &wr); MPI_Comm_size(MPI_COMM_WORLD, &ws);
    MPI_Comm_split(MPI_COMM_WORLD, 0, ws - 1 - wr, &base);
  }
  // the second communicator (rank order reversed w.r.t. `base`) is created on first use
  // (declared before `world`: destroyed after it, so that its destructor barrier runs when world is gone)
  struct other_comm { std::unique_ptr<ygm::comm> c; MPI_Comm mc = MPI_COMM_NULL;
    ~other_comm() { if (c) { hc::ev("Q+"); c.reset(); MPI_Comm_free(&mc); hc::ev("Q-"); } } } oc;
  std::unique_ptr<ygm::comm>& other = oc.c; MPI_Comm& otherc = oc.mc;
  if (precomm_kb >= 0) {
    // param precomm <kb>: the second communicator is built FIRST, under another YGM_COMM_BUFFER_SIZE_KB / YGM_COMM_ROUTING (as test
    // programs that loop over configurations do with setenv); the communicator under test, built afterwards, must use ITS environment
    const char* kb0 = getenv("YGM_COMM_BUFFER_SIZE_KB"); std::string kbs = kb0 ? kb0 : ""; const char* rt0 = getenv("YGM_COMM_ROUTING"); std::string rts = rt0 ? rt0 : "";
    setenv("YGM_COMM_BUFFER_SIZE_KB", std::to_string(precomm_kb).c_str(), 1);
    setenv("YGM_COMM_ROUTING", rts == "NONE" || rts.empty() ? "NLNR" : "NONE", 1);
    hc::ev("Q+");
    { int br, bs; MPI_Comm_rank(base, &br); MPI_Comm_size(base, &bs); MPI_Comm_split(base, 0, bs - 1 - br, &otherc); other.reset(new ygm::comm(otherc)); }
    hc::ev("Q-");
    if (kb0) setenv("YGM_COMM_BUFFER_SIZE_KB", kbs.c_str(), 1); else unsetenv("YGM_COMM_BUFFER_SIZE_KB");
    if (rt0) setenv("YGM_COMM_ROUTING", rts.c_str(), 1); else unsetenv("YGM_COMM_ROUTING");
  }
  ygm::comm world(base);
  g_world = &world; g_rank = world.rank(); g_size = world.size(); my = g_rank;
  hc::ev("ID " + std::to_string(g_rank));
  std::ifstream in(argv[1]); std::string line; int epochs = 0;
  std::vector<std::pair<int, Op>> ops;
  while (std::getline(in, line)) {
    std::stringstream ss(line); std::string w; ss >> w;
    if (w == "epochs") ss >> epochs;
    else if (w == "param") { std::string k; long v; ss >> k >> v; if (k == "maxfan") g_maxfan = v; else if (k == "hprog") g_hprog_pct = v; else if (k == "hcb") g_hcb_pct = v; else if (k == "hbc") g_hbc_pct = v; else if (k == "hburst") g_hburst_pct = v; else if (k == "hburstk") g_hburst_k = v; }
    else if (w == "sizes") { g_sizes.clear(); long v; while (ss >> v) g_sizes.push_back(v); }
    else if (w == "op") { int e, r; ss >> e >> r; Op o; ss >> o.kind; std::string t; while (ss >> t) o.f.push_back(t); if (r == my || r == -1) ops.push_back({e, o}); }
  }
  {
    std::unique_ptr<ygm::detail::interrupt_mask> mask; int mask_left = 0;
    for (int e = 0; e < epochs; ++e) {
      for (auto& eo : ops) {
        if (eo.first != e) continue; const Op& o = eo.second;
        if (o.kind == "async") issue_async(strtoull(o.f[0].c_str(), 0, 10), atoi(o.f[1].c_str()), atol(o.f[2].c_str()), e, atoi(o.f[3].c_str()));
        else if (o.kind == "bcast") issue_bcast(strtoull(o.f[0].c_str(), 0, 10), atol(o.f[1].c_str()), e, atoi(o.f[2].c_str()));
        else if (o.kind == "mcast") { std::vector<int> d; for (long x : hc::longs(o.f[2].c_str())) d.push_back((int)x); issue_mcast(strtoull(o.f[0].c_str(), 0, 10), atol(o.f[1].c_str()), e, d); }
        else if (o.kind == "setflag") issue_flag(strtoull(o.f[0].c_str(), 0, 10), atoi(o.f[1].c_str()), atol(o.f[2].c_str()), e);
        else if (o.kind == "progress") { hc::ev("P"); world.local_progress(); hc::ev("p"); }
        else if (o.kind == "waitflag") { long f = atol(o.f[0].c_str()); hc::ev("W " + o.f[0]); world.local_wait_until([f]() { return g_flags[f]; }); hc::ev("w " + o.f[0]); }
        else if (o.kind == "mask") { mask_left = atoi(o.f[0].c_str()) + 1; hc::ev("M+"); mask.reset(new ygm::detail::interrupt_mask(world)); }
        else if (o.kind == "cb") { uint64_t cu = strtoull(o.f[0].c_str(), 0, 10); int dest = atoi(o.f[1].c_str()); long size = atol(o.f[2].c_str()); hc::ev("R " + o.f[0]);
          world.register_pre_barrier_callback([cu, dest, size, e]() { hc::ev("C " + std::to_string(cu)); bool was = g_in_cb; g_in_cb = true; issue_async(cu, dest, size, e, 1); g_in_cb = was; hc::ev("c " + std::to_string(cu)); }); }
        else if (o.kind == "cfbarrier") { hc::ev("CF+"); world.cf_barrier(); hc::ev("CF-"); }   // control-flow barrier (MPI_Barrier): all ranks, mid-epoch
        else if (o.kind == "statsreset") { world.stats_reset(); }   // public API; must not influence delivery or termination
        else if (o.kind == "gate") {   // gate <kind> <who> <epoch> <count> <max_steps>: directed schedules (simmpi_gate)
          simmpi_gate(atoi(o.f[0].c_str()), atoi(o.f[1].c_str()), atoi(o.f[2].c_str()), atoi(o.f[3].c_str()), atoi(o.f[4].c_str()));
        }
        else if (o.kind == "other") {
          hc::ev("Q+");
          if (!other) { int br, bs; MPI_Comm_rank(base, &br); MPI_Comm_size(base, &bs); MPI_Comm_split(base, 0, bs - 1 - br, &otherc); other.reset(new ygm::comm(otherc)); }
          int k = atoi(o.f[0].c_str());
          if (other->rank() == 0) for (int i = 0; i < k; ++i) other->async(other->size() - 1, [](int) {}, i);
          other->barrier();
          hc::ev("Q-");
        }
        else if (o.kind == "allreduce") { hc::ev("AR"); long v = world.all_reduce_sum((long)1); hc::ev("ar " + std::to_string(v)); }
        if (mask && --mask_left == 0) { mask.reset(); hc::ev("M-"); }
      }
      if (mask) { mask.reset(); hc::ev("M-"); }
      hc::ev("E " + std::to_string(e)); world.barrier(); hc::ev("e " + std::to_string(e));
    }
    // the destructor's implicit barrier is epoch `epochs`: a last batch issued without an explicit barrier
    for (auto& eo : ops) {
      if (eo.first != epochs) continue; const Op& o = eo.second;
      if (o.kind == "async") issue_async(strtoull(o.f[0].c_str(), 0, 10), atoi(o.f[1].c_str()), atol(o.f[2].c_str()), epochs, atoi(o.f[3].c_str()));
      else if (o.kind == "bcast") issue_bcast(strtoull(o.f[0].c_str(), 0, 10), atol(o.f[1].c_str()), epochs, atoi(o.f[2].c_str()));
    }
    hc::ev("E " + std::to_string(epochs));
  }
  return 0;   // ~comm runs the final barrier; its hooks (bar+/bar-) mark it in the log
}
