// Shared helpers of the correspondence harnesses (run under simmpi).
#pragma once
#include <mpi.h>
#include <cstdio>
#include <cstdlib>
#include <cstdint>
#include <string>
#include <sstream>
#include <vector>

// Default (no-op) definition of the instrumentation hook of /repo (guard YGM_VERIF_HOOKS).
// A harness that wants the events defines a strong `ygm_verif_hook` itself.
#ifndef HC_OWN_HOOK
extern "C" __attribute__((weak)) void ygm_verif_hook(const char*, long, long, long) {}
#endif

namespace hc {
// per-rank output file $SIMMPI_TMP/out.<rank>: bulk data, collected by run_sim
inline FILE*& outf() { static FILE* f = nullptr; return f; }
inline void open_out(int rank) {
  const char* d = getenv("SIMMPI_TMP");
  std::string p = std::string(d ? d : ".") + "/out." + std::to_string(rank);
  outf() = fopen(p.c_str(), "w");
}
inline void out(const std::string& s) {
  static size_t written = 0;     // a runaway handler must not fill the disk
  if (!outf()) return;
  written += s.size() + 1;
  if (written > (size_t(256) << 20)) { fputs("hc::out budget exceeded (runaway output)\n", stderr); fflush(outf()); abort(); }
  fputs(s.c_str(), outf()); fputc('\n', outf()); fflush(outf());
}
// event on the coordinator's totally ordered wire log
inline void ev(const std::string& s) { simmpi_log(s.c_str()); }
// splitmix64: every random choice of a harness derives from one state
struct rng { uint64_t s; explicit rng(uint64_t seed) : s(seed) {}
  uint64_t next() { uint64_t z = (s += 0x9e3779b97f4a7c15ULL); z = (z ^ (z >> 30)) * 0xbf58476d1ce4e5b9ULL; z = (z ^ (z >> 27)) * 0x94d049bb133111ebULL; return z ^ (z >> 31); }
  uint64_t below(uint64_t n) { return n ? next() % n : 0; } };
inline std::vector<long> longs(const char* s) { std::vector<long> v; std::stringstream ss(s); std::string t; while (std::getline(ss, t, ',')) if (!t.empty()) v.push_back(atol(t.c_str())); return v; }
}  // namespace hc
