// C13/C14 correspondence harness: the real ygm::container::array, bag and tagged_bag driven by a
// script that every rank executes (collective ops by all, an async op only by the rank it names).
//   argv: "array" <len> <default> <script>   |  "bag" <script>  |  "tbag" <script>
// script = ops separated by ';', fields separated by ' '.
//  array ops (value type uint64_t, wrap-around arithmetic):
//    s r i v  async_set      p/m/x/d r i v  plus/minus/multiplies/divides    a/o/e r i v  bit_and/or/xor
//    A/O r i v logical_and/or   + r i / - r i  increment/decrement   v r i k  async_visit (val = val*3 + k + 7*index)
//    w r i k  async_visit with the (ptr, index, value, args) visitor signature (same function)
//    B barrier   F for_all(index,value) dump   V for_all(value) dump   C copy-construct array #1 from #0   T n  select target
//    K n  construct and destroy n scratch arrays of the same type   N len dv  array #1 := a fresh array
//    Z len [fill]  resize(len[, fill]) — followed by NO barrier
//    E form fam c salt k  for_all (form i: (index,value&), v: (value&)) whose callback modifies the value (fam-op c) and emits
//       k rounds of async fam-updates to the visited element, its right neighbour and a far element of the SAME array
//  "lifetimes" <script>: several arrays of the SAME type (array<uint64_t>) held by std::unique_ptr in numbered slots, created and
//    destroyed in the order the script says (not nested):
//    n k len dv|-  slot k := new array(world, len[, dv])   y k j  slot k := copy of slot j   D k  destroy slot k
//    T k  select target   <update ops as above>   B barrier   c k  barrier + for_all dump `life k size idx:val ...` + barrier
//  bag ops (items uint64_t):
//    i r x  async_insert(x)   t r x d  async_insert(x,d)   v r d x,x,..|-  async_insert(vector,d)   W r d n start  async_insert({start..start+n-1}, d)
//    B barrier   D dump (local_for_all order + local_size)   R rebalance   L seed  local_shuffle   G seed  global_shuffle + barrier
//    (during R and G every rank prints `snap <vector>` after each message it executes; G prints the ranks it drew as `gdest`)
//    S swap(bag0,bag1)   T n  select target   g d  gather_to_vector(d)   a  gather_to_vector()   z size()   c clear()
//  tbag ops: J x  every rank: async_insert(x+rank) immediately followed by all_gather({fresh tag, previous fresh tag})
//  tbag ops (two tagged bags):  T n  select   S  swap(tb0,tb1)   i r x  insert (prints tag)   V r tag k  async_visit(tag, += k)   X r tag k  async_visit_if_exists
//    E r tag  async_erase   B barrier   D dump (tag:item:owner, sorted)   g tag,tag,..  all_gather   z size()
#define HC_OWN_HOOK
#include "hcommon.hpp"
#include <ygm/comm.hpp>
#include <ygm/container/array.hpp>
#include <ygm/container/bag.hpp>
#include <ygm/container/tagged_bag.hpp>
#include <algorithm>
#include <memory>
#include <random>

typedef uint64_t u64;

struct urbg {  // harness-supplied UniformRandomBitGenerator (the library default seeds from random_device)
  using result_type = uint64_t;
  hc::rng g; uint64_t calls = 0;
  explicit urbg(uint64_t s) : g(s) {}
  static constexpr result_type min() { return 0; }
  static constexpr result_type max() { return UINT64_MAX; }
  result_type operator()() { ++calls; return g.next(); }
};

// While a rebalance / global_shuffle is in progress, the local vector is recorded after every executed
// message (hook "ex-" of comm.ipp), so that the interleaving of this rank's pops / swap-out with the
// arrivals can be read off.
static ygm::container::bag<u64>* g_snap_bag = nullptr;
extern "C" void ygm_verif_hook(const char* tag, long, long, long) {
  if (!g_snap_bag || tag[0] != 'e' || tag[1] != 'x' || tag[2] != '-') return;
  std::ostringstream o; o << "snap";
  g_snap_bag->local_for_all([&o](u64& x) { o << " " << x; });
  hc::out(o.str());
}

static std::vector<std::vector<std::string>> parse(const char* s) {
  std::vector<std::vector<std::string>> ops;
  std::stringstream ss(s); std::string op;
  while (std::getline(ss, op, ';')) {
    std::stringstream os(op); std::string w; std::vector<std::string> f;
    while (os >> w) f.push_back(w);
    if (!f.empty()) ops.push_back(f);
  }
  return ops;
}
static u64 U(const std::string& s) { return strtoull(s.c_str(), nullptr, 10); }
static std::vector<u64> list(const std::string& s) {
  std::vector<u64> v; if (s == "-") return v;
  std::stringstream ss(s); std::string t; while (std::getline(ss, t, ',')) if (!t.empty()) v.push_back(U(t));
  return v;
}
template <class It> static std::string join(const char* head, It b, It e) {
  std::ostringstream o; o << head; for (; b != e; ++b) o << " " << *b; return o.str();
}

typedef std::vector<std::string> args_t;   // a scenario: mode followed by its arguments

typedef ygm::container::array<u64> arr_t;

// one asynchronous update `c` of element i of t (issued by the calling rank)
static void array_update(arr_t& t, char c, size_t i, u64 x) {
  switch (c) {
    case 's': t.async_set(i, x); break;
    case 'p': t.async_plus(i, x); break;
    case 'm': t.async_minus(i, x); break;
    case 'x': t.async_multiplies(i, x); break;
    case 'd': t.async_divides(i, x); break;
    case 'a': t.async_bit_and(i, x); break;
    case 'o': t.async_bit_or(i, x); break;
    case 'e': t.async_bit_xor(i, x); break;
    case 'A': t.async_logical_and(i, x); break;
    case 'O': t.async_logical_or(i, x); break;
    case '+': t.async_increment(i); break;
    case '-': t.async_decrement(i); break;
    case 'v': t.async_visit(i, [](const size_t idx, u64& v, const u64& k) { v = v * 3 + k + 7 * idx; }, x); break;
    case 'w': t.async_visit(i, [](auto parr, const size_t idx, u64& v, const u64& k) { v = v * 3 + k + 7 * idx; }, x); break;
    default: hc::out(std::string("bad-op ") + c);
  }
}

static int run_array(ygm::comm& world, const args_t& argv) {
  size_t len = U(argv[1]); u64 dv = U(argv[2]);
  std::unique_ptr<arr_t> a[2];
  a[0].reset(new arr_t(world, len, dv));
  int cur = 0; int me = world.rank();
  for (auto& f : parse(argv[3].c_str())) {
    char c = f[0][0];
    arr_t& t = *a[cur];
    if (c == 'B') { world.barrier(); continue; }
    if (c == 'T') { cur = (int)U(f[1]); continue; }
    if (c == 'C') { a[1].reset(new arr_t(*a[0])); world.barrier(); continue; }
    // n scratch arrays of the same type constructed and destroyed (every construction takes a new ygm_ptr slot)
    if (c == 'K') {   // `K n`: fresh constructions; `K n c`: copies of array #0 (cheaper: no resize barriers)
      if (f.size() > 2) { for (u64 k = 0; k < U(f[1]); ++k) { arr_t scratch(*a[0]); } }
      else { for (u64 k = 0; k < U(f[1]); ++k) { arr_t scratch(world, 1, (u64)0); } }
      world.barrier(); continue; }
    // a second, independent array of the same type (other length / default) alive next to array #0
    if (c == 'N') { a[1].reset(new arr_t(world, U(f[1]), U(f[2]))); world.barrier(); continue; }
    if (c == 'F') {
      std::ostringstream o; o << "forall";
      t.for_all([&o](const size_t idx, u64& v) { o << " " << idx << ":" << v; });
      hc::out(o.str()); world.barrier(); continue;   // a rank still inside for_all's barrier would execute the next phase's updates
    }
    if (c == 'V') {
      std::ostringstream o; o << "values";
      t.for_all([&o](u64& v) { o << " " << v; });
      hc::out(o.str()); world.barrier(); continue;
    }
    if (c == 'z') { hc::out("size " + std::to_string(t.size())); continue; }
    if (c == 'E') {
      // for_all whose callback updates the array it iterates: own modification through the reference plus, per round,
      // async updates to the visited element, to its right neighbour and to a far element (one operator family)
      char form = f[1][0], fam = f[2][0]; u64 cc = U(f[3]), salt = U(f[4]), k = U(f[5]);
      size_t len = t.size();
      arr_t* pa = &t;
      auto send = [pa, fam](size_t i, u64 x) {
        switch (fam) {
          case 'p': pa->async_plus(i, x); break;
          case 'x': pa->async_multiplies(i, x); break;
          case 'a': pa->async_bit_and(i, x); break;
          case 'o': pa->async_bit_or(i, x); break;
          default: pa->async_bit_xor(i, x); break;
        }
      };
      auto body = [send, fam, cc, salt, k, len](size_t g, u64& v) {
        switch (fam) {
          case 'p': v = v + cc; break;
          case 'x': v = v * cc; break;
          case 'a': v = v & cc; break;
          case 'o': v = v | cc; break;
          default: v = v ^ cc; break;
        }
        for (u64 j = 0; j < k; ++j) {
          u64 x = (g * 3 + salt + j) % 97 + 1;
          send(g, x);
          send((g + 1) % len, x + 1);
          send((g * 7 + salt + j) % len, x + 2);
        }
      };
      if (form == 'i') {
        t.for_all([body](const size_t idx, u64& v) { body(idx, v); });
      } else {
        // value-only form: the callback learns its index from the rank's first owned index and a counter
        size_t first = 0; while (first < len && !t.is_mine(first)) ++first;
        size_t n = 0;
        t.for_all([body, first, &n](u64& v) { body(first + n, v); ++n; });
      }
      world.barrier();
      continue;
    }
    // explicit resize: NO barrier is added after it, the script issues updates right away
    if (c == 'Z') { if (f.size() > 2) t.resize(U(f[1]), U(f[2])); else t.resize(U(f[1])); continue; }
    if ((int)U(f[1]) != me) continue;
    size_t i = U(f[2]); u64 x = f.size() > 3 ? U(f[3]) : 0;
    array_update(t, c, i, x);
  }
  world.barrier();
  a[1].reset(); a[0].reset();
  return 0;
}

// Arrays of one type whose lifetimes are NOT nested: slots of unique_ptr, constructed / copied / destroyed in script order.
static int run_lifetimes(ygm::comm& world, const args_t& argv) {
  std::vector<std::unique_ptr<arr_t>> a(16);
  int cur = 0; int me = world.rank();
  for (auto& f : parse(argv[1].c_str())) {
    char c = f[0][0];
    if (c == 'B') { world.barrier(); continue; }
    if (c == 'T') { cur = (int)U(f[1]); continue; }
    if (c == 'n' || c == 'y' || c == 'D' || c == 'c') {
      size_t k = U(f[1]);
      if (k >= a.size() || (c == 'n' || c == 'y' ? (bool)a[k] : !a[k]) || (c == 'y' && (U(f[2]) >= a.size() || !a[U(f[2])]))) { hc::out("bad-slot " + f[0] + " " + f[1]); return 1; }
      if (c == 'n') {
        if (f[3] == "-") a[k] = std::make_unique<arr_t>(world, U(f[2]));
        else a[k] = std::make_unique<arr_t>(world, U(f[2]), U(f[3]));
      } else if (c == 'y') {
        a[k] = std::make_unique<arr_t>(*a[U(f[2])]); world.barrier();
      } else if (c == 'D') {
        a[k].reset();
      } else {
        world.barrier();
        std::ostringstream o; o << "life " << k << " " << a[k]->size();
        a[k]->for_all([&o](const size_t idx, u64& v) { o << " " << idx << ":" << v; });
        hc::out(o.str()); world.barrier();
      }
      continue;
    }
    if ((int)U(f[1]) != me) continue;
    if (cur < 0 || (size_t)cur >= a.size() || !a[cur]) { hc::out("bad-target"); return 1; }
    array_update(*a[cur], c, U(f[2]), f.size() > 3 ? U(f[3]) : 0);
  }
  world.barrier();
  for (auto& p : a) p.reset();      // oldest slot first
  return 0;
}

static int run_bag(ygm::comm& world, const args_t& argv) {
  typedef ygm::container::bag<u64> bag_t;
  bag_t b0(world), b1(world);
  bag_t* bags[2] = {&b0, &b1};
  int cur = 0; int me = world.rank();
  for (auto& f : parse(argv[1].c_str())) {
    char c = f[0][0];
    bag_t& t = *bags[cur];
    switch (c) {
      case 'B': world.barrier(); break;
      case 'T': cur = (int)U(f[1]); break;
      case 'D': {
        std::vector<u64> it; t.local_for_all([&it](u64& x) { it.push_back(x); });
        hc::out(join("bag", it.begin(), it.end()));
        hc::out("lsize " + std::to_string(t.local_size()));
        world.barrier();   // keep the next phase's inserts out of a slower rank's dump
      } break;
      case 'R': hc::out("rebalance-begin"); g_snap_bag = &t; t.rebalance(); g_snap_bag = nullptr; hc::out("rebalance-end"); break;
      case 'L': { urbg r(U(f[1]) * 1000003ULL + me); t.local_shuffle(r); world.barrier(); } break;
      case 'G': {   // global_shuffle + the barrier that completes it
        urbg r(U(f[1]) * 1000003ULL + me), r2 = r;
        hc::out("gshuffle-begin"); g_snap_bag = &t;
        t.global_shuffle(r);
        world.barrier();
        g_snap_bag = nullptr;
        // the ranks std::uniform_int_distribution<>(0, size-1) drew, one per item swapped out: replay the generator
        std::uniform_int_distribution<> distrib(0, world.size() - 1);
        std::vector<int> d; while (r2.calls < r.calls) d.push_back(distrib(r2));
        hc::out(join("gdest", d.begin(), d.end()));
        hc::out("gshuffle-end");
      } break;
      case 'S': b0.swap(b1); world.barrier(); break;
      case 'g': { auto v = t.gather_to_vector((int)U(f[1])); hc::out(join("gather", v.begin(), v.end())); world.barrier(); } break;
      case 'a': { auto v = t.gather_to_vector(); hc::out(join("gatherall", v.begin(), v.end())); world.barrier(); } break;
      case 'z': hc::out("size " + std::to_string(t.size())); world.barrier(); break;
      case 'c': t.clear(); world.barrier(); break;
      case 'i': if ((int)U(f[1]) == me) t.async_insert(U(f[2])); break;
      case 't': if ((int)U(f[1]) == me) t.async_insert(U(f[2]), (int)U(f[3])); break;
      case 'v': if ((int)U(f[1]) == me) t.async_insert(list(f[3]), (int)U(f[2])); break;
      case 'W': if ((int)U(f[1]) == me) {   // vector insert of the n consecutive items start, start+1, ...
        std::vector<u64> v(U(f[3])); for (size_t k = 0; k < v.size(); ++k) v[k] = U(f[4]) + k;
        t.async_insert(v, (int)U(f[2]));
      } break;
      default: hc::out(std::string("bad-op ") + c);
    }
  }
  world.barrier();
  return 0;
}

static int run_tbag(ygm::comm& world, const args_t& argv) {
  typedef ygm::container::tagged_bag<u64> tb_t;
  tb_t tb0(world), tb1(world);
  tb_t* tbs[2] = {&tb0, &tb1};
  std::vector<size_t> mine[2];     // per slot: the fresh tags of this rank's J steps
  int cur = 0;
  int me = world.rank();
  for (auto& f : parse(argv[1].c_str())) {
    char c = f[0][0];
    tb_t& tb = *tbs[cur];
    switch (c) {
      case 'B': world.barrier(); break;
      case 'T': cur = (int)U(f[1]); break;
      case 'S': tb0.swap(tb1); world.barrier(); break;
      case 'i': if ((int)U(f[1]) == me) { auto tag = tb.async_insert(U(f[2])); hc::out("tag " + std::to_string(tag)); } break;
      case 'V': if ((int)U(f[1]) == me) tb.async_visit(U(f[2]), [](const size_t& tag, u64& v, const u64& k) { v += k; }, U(f[3])); break;
      case 'X': if ((int)U(f[1]) == me) tb.async_visit_if_exists(U(f[2]), [](const size_t& tag, u64& v, const u64& k) { v += k; }, U(f[3])); break;
      case 'E': if ((int)U(f[1]) == me) tb.async_erase(U(f[2])); break;
      case 'J': {   // every rank inserts x+rank and AT ONCE (no barrier, no size()) gathers its fresh tag and the one before
        auto tag = tb.async_insert(U(f[1]) + me);
        hc::out("tag " + std::to_string(tag));
        std::vector<size_t> q{tag}; if (!mine[cur].empty()) q.push_back(mine[cur].back());
        mine[cur].push_back(tag);
        auto m = tb.all_gather(q);
        std::ostringstream o; o << "jgather";
        for (auto& p : m) o << " " << p.first << ":" << p.second;
        hc::out(o.str()); world.barrier();
      } break;
      case 'D': {
        std::vector<std::pair<size_t, u64>> it;
        tb.for_all([&it](const size_t& tag, u64& v) { it.push_back({tag, v}); });
        std::sort(it.begin(), it.end());
        std::ostringstream o; o << "tbag";
        for (auto& p : it) o << " " << p.first << ":" << p.second << ":" << tb.owner(p.first);
        hc::out(o.str()); world.barrier();
        // (tagged_bag::local_size/local_erase/local_clear do not compile in this tree: they reach into map's private impl)
      } break;
      case 'g': {
        auto tags = list(f[1]); std::vector<size_t> tg(tags.begin(), tags.end());
        auto m = tb.all_gather(tg);
        std::ostringstream o; o << "allgather";
        for (auto& p : m) o << " " << p.first << ":" << p.second;
        hc::out(o.str()); world.barrier();
      } break;
      case 'z': hc::out("size " + std::to_string(tb.size())); world.barrier(); break;
      default: hc::out(std::string("bad-op ") + c);
    }
  }
  world.barrier();
  return 0;
}

// bag<std::string>: items carry their own length prefix on the wire.  ops: i r len seed | B | R | a (gather to all, sorted len:hash)
static int run_sbag(ygm::comm& world, const args_t& argv) {
  ygm::container::bag<std::string> b(world);
  int me = world.rank();
  for (auto& f : parse(argv[1].c_str())) {
    char c = f[0][0];
    if (c == 'B') world.barrier();
    else if (c == 'R') { b.rebalance(); }
    else if (c == 'i') { if ((int)U(f[1]) == me) { std::string s(U(f[2]), 'a'); hc::rng g(U(f[3])); for (auto& ch : s) ch = (char)(33 + g.below(90)); b.async_insert(s); } }
    else if (c == 'a') {
      auto v = b.gather_to_vector();
      std::vector<std::string> d;
      for (auto& s : v) { uint64_t h = 1469598103934665603ULL; for (unsigned char ch : s) { h ^= ch; h *= 1099511628211ULL; }   // FNV-1a
        d.push_back(std::to_string(s.size()) + ":" + std::to_string(h)); }
      std::sort(d.begin(), d.end());
      hc::out(join("sgather", d.begin(), d.end())); world.barrier();
    }
  }
  world.barrier();
  return 0;
}

static int run_scenario(ygm::comm& c, const args_t& a) {
  if (a.empty()) return 0;
  if (a[0] == "array") return run_array(c, a);
  if (a[0] == "lifetimes") return run_lifetimes(c, a);
  if (a[0] == "bag") return run_bag(c, a);
  if (a[0] == "tbag") return run_tbag(c, a);
  if (a[0] == "sbag") return run_sbag(c, a);
  hc::out("bad-mode");
  return 1;
}

static args_t split_bar(const char* s) {
  args_t v; std::stringstream ss(s); std::string t;
  while (std::getline(ss, t, '|')) v.push_back(t);
  return v;
}

// argv:  <mode> <args...>                                  the scenario on the world communicator (as before)
//   or:  sub <split> <order> <k> <size> <scen> ... <world-scen>   (scen = mode|arg|arg...)
//        the SAME scenario code (same container / lambda types) additionally runs on a sub-communicator of another size,
//        built with MPI_Comm_split (split = parity: colour = world rank % 2; droplast: rank < n-1 versus the last rank;
//        bynode:<ppn>: colour = parity of the node id),
//        before (order = sub-first) or after (world-first) the world run, in the same process.  Each group runs the scenario
//        listed for its size.  Sections of the output are introduced by `@sub colour subrank subsize` / `@world`.
extern "C" int sim_main(int argc, char** argv) {
  int wr = 0, wn = 1;
  MPI_Comm_rank(MPI_COMM_WORLD, &wr); MPI_Comm_size(MPI_COMM_WORLD, &wn);
  hc::open_out(wr);
  std::string first = argc > 1 ? argv[1] : "";
  if (first != "sub") {
    args_t a; for (int i = 1; i < argc; ++i) a.push_back(argv[i]);
    ygm::comm world(MPI_COMM_WORLD);
    return run_scenario(world, a);
  }
  std::string split = argv[2], order = argv[3];
  int k = atoi(argv[4]);
  std::vector<std::pair<int, args_t>> subs;
  for (int i = 0; i < k; ++i) subs.push_back({atoi(argv[5 + 2 * i]), split_bar(argv[6 + 2 * i])});
  args_t wscen = split_bar(argv[5 + 2 * k]);
  int rc = 0;
  auto do_world = [&]() {
    ygm::comm world(MPI_COMM_WORLD);
    hc::out("@world");
    rc |= run_scenario(world, wscen);
  };
  auto do_sub = [&]() {
    int colour = split == "parity" ? wr % 2 : split.rfind("bynode:", 0) == 0 ? (wr / atoi(split.c_str() + 7)) % 2 : (wr < wn - 1 ? 0 : 1);
    MPI_Comm subc;
    MPI_Comm_split(MPI_COMM_WORLD, colour, wr, &subc);
    {
      ygm::comm sub(subc);
      hc::out("@sub " + std::to_string(colour) + " " + std::to_string(sub.rank()) + " " + std::to_string(sub.size()));
      for (auto& p : subs) if (p.first == sub.size()) { rc |= run_scenario(sub, p.second); break; }
    }
    MPI_Comm_free(&subc);
  };
  if (order == "sub-first") { do_sub(); do_world(); } else { do_world(); do_sub(); }
  return rc;
}
