// C15/C16 correspondence harness: the real counting_set count cache and the real reducing
// adapter (map and array targets, reduce_by_key_map), driven by a script that the check
// generates from the seed.  args: <mode> <scriptfile> [opid] [subcomm] [split]
//   subcomm 0: the scenario runs on the world communicator only
//           1: first on a sub-communicator (MPI_Comm_split of MPI_COMM_WORLD), then on the world, in the same process
//           2: first on the world, then on the sub-communicator
//   split   0: colour = parity of the on-node index   1: colour = parity of the node (one node: lower / upper half)
//   Both runs go through the same template instantiations.  On a communicator of size g the script lines of ranks >= g
//   and handler sends to ranks >= g are not issued (a forward to a rank >= g is dropped).
//   Script line `T <J>`: TWO containers of the same type are alive at once on the communicator; key k belongs to
//   container (k >> 20) >= J (disjoint key sets, same cache slots), operations interleave as the script says.
//   mode  cset | rmap | rarr | rswapk | rswapr | rbkvec | rbkbag | rbkbag2
//         rswapk / rswapr: reductions into map A through an adapter, A.swap(B) at every script barrier but the last, more
//         reductions into A (adapter kept alive across the swap / re-created after it); prints A then B (input bag lives on a SECOND ygm::comm over the same ranks
//         and still has un-barriered async_inserts when reduce_by_key_map is called)
//   opid  0 sum  1 max  2 xor  |  operators for which the value-initialised T{} (0) is NOT neutral:
//         3 min  4 product mod 1000003  5 bitwise and  6 max of the values read as signed 64-bit (negatives)
// script lines (every rank reads the whole file and interprets the lines of its rank):
//   U k k k ...                    key universe (owners are printed, final queries use it)
//   L len                          rarr: array length
//   <rank> i <k> <v>               main-context async_insert(k) / async_reduce(k, v)
//   <rank> h <d> <k> <v> <d2> <k2> <v2>   send a handler to rank d that inserts (k, v) and, when d2 >= 0,
//                                  sends a second handler to d2 that inserts (k2, v2)
//   <rank> n <k> <cnt>             cset only: verif_cache_insert_n(k, cnt) — as if k had been inserted cnt times on this rank
//                                  (one real cache_insert, then cnt-1 added to the cached count); reaches the INT32_MAX guard
//   <rank> b                       barrier (every rank has the same number of them)
//   <rank> M+ / <rank> M-          the main program holds a ygm::detail::interrupt_mask over the ops in between (no barrier
//                                  inside); events M+ / M- bracket its lifetime: no handler may start (X+) in between
//   <rank> p                       local_progress() (events P+ / P-)
// Events on the coordinator's ordered log (only while tracing is on, i.e. during the script):
//   ib k v / ie     harness calls async_insert / async_reduce        hb / he   harness handler body
//   sb / se         harness's own comm.async (not a container send)  bb / be   barrier
//   pk k v / uk k v the instrumented key (cset) / value (reduce) is serialised / deserialised
//   S / R           comm::async packed-phase begins (hook as+) / returns (hook as-)
//   FB / FE         a pre-barrier callback begins / ends (hooks cb+ / cb-)      RC   one is registered (hook rcb)
//   ph <name> <commrank> <commsize>   a scenario run begins on communicator <name> (sub | world); also written to the out file
//   X+ / X-         comm executes a received message (hooks ex+ / ex-)
// Results go to the per-rank out file: own, snap, count, countall, size, forall, topk, gather, kv.
#define HC_OWN_HOOK
#include "hcommon.hpp"
#include <ygm/comm.hpp>
#include <ygm/detail/interrupt_mask.hpp>
#include <ygm/container/counting_set.hpp>
#include <ygm/container/map.hpp>
#include <ygm/container/array.hpp>
#include <ygm/container/bag.hpp>
#include <ygm/container/detail/reducing_adapter.hpp>
#include <ygm/container/reduce_by_key.hpp>
#include <fstream>
#include <functional>

static bool g_trace = false;
static ygm::comm* g_world = nullptr;   // the communicator the scenario currently runs on
static uint64_t g_twinJ = 0;           // > 0: two containers, key k belongs to container (k >> 20) >= g_twinJ
static int g_opid = 0;
static const uint64_t NOKEY = ~0ULL, BADKEY = ~0ULL - 1;

extern "C" void ygm_verif_hook(const char* tag, long a, long b, long c) {
  if (!g_trace) return;
  if (tag[0] == 'a' && tag[1] == 's') simmpi_log(tag[2] == '+' ? "S" : "R");
  else if (tag[0] == 'c' && tag[1] == 'b') simmpi_log(tag[2] == '+' ? "FB" : "FE");
  else if (tag[0] == 'e' && tag[1] == 'x') simmpi_log(tag[2] == '+' ? "X+" : "X-");
  else if (tag[0] == 'r' && tag[1] == 'c' && tag[2] == 'b') simmpi_log("RC");   // a pre-barrier callback is registered
}
static void evk(const char* t, uint64_t k, uint64_t v) {
  if (!g_trace) return;
  char b[96]; snprintf(b, sizeof b, "%s %llu %llu", t, (unsigned long long)k, (unsigned long long)v); simmpi_log(b);
}
static void evs(const char* t) { if (g_trace) simmpi_log(t); }

// ---- instrumented key of the counting_set: hash = id, so ids equal modulo 2^20 share a cache slot
struct HK {
  uint64_t id = 0;
  HK() {}
  explicit HK(uint64_t i) : id(i) {}
  bool operator==(const HK& o) const { return id == o.id; }
  bool operator<(const HK& o) const { return id < o.id; }
  template <class Ar> void save(Ar& ar) const { ar(id); evk("pk", id, 1); }
  template <class Ar> void load(Ar& ar) { ar(id); evk("uk", id, 1); }
};
namespace std { template <> struct hash<HK> { size_t operator()(const HK& k) const { return (size_t)k.id; } }; }

// ---- instrumented value of the reducing adapter: carries the key it was contributed for, so that
// serialisation events name (key, value) for every key type and mixing two keys is visible
struct HV {
  uint64_t val = 0, key = NOKEY;
  HV() {}
  HV(uint64_t v, uint64_t k) : val(v), key(k) {}
  bool operator==(const HV& o) const { return val == o.val && key == o.key; }
  template <class Ar> void save(Ar& ar) const { ar(val, key); evk("pk", key, val); }
  template <class Ar> void load(Ar& ar) { ar(val, key); evk("uk", key, val); }
};
struct Red {   // stateless (the library calls it through a null pointer); the operator is chosen by g_opid
  HV operator()(const HV& a, const HV& b) const {
    HV r;
    switch (g_opid) {
      case 0: r.val = a.val + b.val; break;
      case 1: r.val = a.val > b.val ? a.val : b.val; break;
      case 2: r.val = a.val ^ b.val; break;
      case 3: r.val = a.val < b.val ? a.val : b.val; break;
      case 4: r.val = (a.val % 1000003ULL) * (b.val % 1000003ULL) % 1000003ULL; break;
      case 5: r.val = a.val & b.val; break;
      default: r.val = (int64_t)a.val > (int64_t)b.val ? a.val : b.val; break;
    }
    r.key = a.key == NOKEY ? b.key : (b.key == NOKEY || b.key == a.key ? a.key : BADKEY);
    return r;
  }
};

struct op_t { int rank; char kind; long d; uint64_t k, v; long d2; uint64_t k2, v2; };
struct script_t { std::vector<uint64_t> universe; uint64_t len = 0; uint64_t twinJ = 0; size_t nquery = ~(size_t)0 /* Q n: only the first n keys of a container are queried one by one */; std::vector<op_t> all; std::vector<op_t> ops; };
static script_t read_script(const char* path) {
  script_t s; std::ifstream in(path); std::string line;
  while (std::getline(in, line)) {
    std::istringstream ss(line); std::string w; ss >> w;
    if (w.empty()) continue;
    if (w == "U") { uint64_t k; while (ss >> k) s.universe.push_back(k); continue; }
    if (w == "L") { ss >> s.len; continue; }
    if (w == "T") { ss >> s.twinJ; continue; }
    if (w == "Q") { ss >> s.nquery; continue; }
    op_t o{}; o.rank = atoi(w.c_str()); std::string kd; ss >> kd; o.kind = kd[0]; o.d2 = -1;
    if (kd == "M+") o.kind = '('; else if (kd == "M-") o.kind = ')';
    if (o.kind == 'i' || o.kind == 'n') ss >> o.k >> o.v;
    else if (o.kind == 'h') ss >> o.d >> o.k >> o.v >> o.d2 >> o.k2 >> o.v2;
    s.all.push_back(o);
  }
  return s;
}
static int sel(uint64_t k) { return g_twinJ && (k >> 20) >= g_twinJ ? 1 : 0; }
static std::string u(uint64_t x) { return std::to_string((unsigned long long)x); }

// ---- generic script interpreter over the current communicator; H::insert performs the container call
template <typename Ptr, typename H>
static void run_script(const script_t& s, Ptr pa, Ptr pb, H, std::function<void(int)> after_barrier) {
  int phase = 0, size = g_world->size();
  std::unique_ptr<ygm::detail::interrupt_mask> user_mask;
  for (const op_t& o : s.ops) {
    if (o.kind == '(') { evs("M+"); user_mask.reset(new ygm::detail::interrupt_mask(*g_world)); continue; }
    if (o.kind == ')') { user_mask.reset(); evs("M-"); continue; }
    if (o.kind == 'p') { evs("P+"); g_world->local_progress(); evs("P-"); continue; }
    if (o.kind == 'i') { H::insert(sel(o.k) ? pb : pa, o.k, o.v); }
    else if (o.kind == 'n') { H::insert_n(sel(o.k) ? pb : pa, o.k, o.v); }
    else if (o.kind == 'h') { if (o.d < size) { evs("sb"); g_world->async((int)o.d, H(), pa, pb, o.k, o.v, (int)o.d2, o.k2, o.v2); evs("se"); } }
    else if (o.kind == 'b') { evs("bb"); g_world->barrier(); evs("be"); after_barrier(phase++); }
  }
}
template <typename Ptr, typename H>
static void handler_body(Ptr pa, Ptr pb, uint64_t k, uint64_t v, int d2, uint64_t k2, uint64_t v2) {
  evs("hb"); H::insert(sel(k) ? pb : pa, k, v);
  if (d2 >= 0 && d2 < g_world->size()) { evs("sb"); g_world->async(d2, H(), pa, pb, k2, v2, -1, (uint64_t)0, (uint64_t)0); evs("se"); }
  evs("he");
}

using CS = ygm::container::counting_set<HK>;
// verif_cache_insert_n exists only in trees with the verification hooks
template <typename T, typename = void> struct has_insert_n : std::false_type {};
template <typename T> struct has_insert_n<T, std::void_t<decltype(std::declval<T&>().verif_cache_insert_n(std::declval<const HK&>(), 1))>> : std::true_type {};
template <typename T> static void call_insert_n(T& cs, uint64_t k, uint64_t n) {
  if constexpr (has_insert_n<T>::value) { evk("ib", k, n); cs.verif_cache_insert_n(HK(k), (int32_t)n); evs("ie"); }
  else { hc::out("nopreload"); }
}
struct cs_handler {
  static void insert_n(ygm::ygm_ptr<CS> p, uint64_t k, uint64_t n) { call_insert_n(*p, k, n); }
  static void insert(ygm::ygm_ptr<CS> p, uint64_t k, uint64_t v) { evk("ib", k, 1); p->async_insert(HK(k)); evs("ie"); }
  void operator()(ygm::ygm_ptr<CS> pa, ygm::ygm_ptr<CS> pb, uint64_t k, uint64_t v, int d2, uint64_t k2, uint64_t v2) {
    handler_body<ygm::ygm_ptr<CS>, cs_handler>(pa, pb, k, v, d2, k2, v2);
  }
};
template <typename RA>
struct ra_handler {
  static void insert_n(ygm::ygm_ptr<RA>, uint64_t, uint64_t) {}
  static void insert(ygm::ygm_ptr<RA> p, uint64_t k, uint64_t v) { evk("ib", k, v); p->async_reduce(k, HV(v, k)); evs("ie"); }
  void operator()(ygm::ygm_ptr<RA> pa, ygm::ygm_ptr<RA> pb, uint64_t k, uint64_t v, int d2, uint64_t k2, uint64_t v2) {
    handler_body<ygm::ygm_ptr<RA>, ra_handler<RA>>(pa, pb, k, v, d2, k2, v2);
  }
};

// initial value of the array elements: neutral for the operator on the value range the check uses
// (the array folds every contribution into the element's previous value)
static uint64_t array_init() {
  switch (g_opid) { case 3: return 1ULL << 63; case 4: return 1; case 5: return ~0ULL; case 6: return 1ULL << 63; default: return 0; }
}

static void report_cset(CS& cs, const script_t& s, int c, ygm::comm& comm) {
  hc::out("cont " + std::to_string(c));
  std::vector<uint64_t> uni; for (uint64_t k : s.universe) if (sel(k) == c && uni.size() < s.nquery) uni.push_back(k);
  for (uint64_t k : uni) hc::out("count " + u(k) + " " + u(cs.count(HK(k))));
  hc::out("countall " + u(cs.count_all()));
  hc::out("size " + u(cs.size()));
  { std::ostringstream o; o << "forall"; cs.for_all([&o](const HK& k, size_t& cnt) { o << " " << k.id << ":" << cnt; }); hc::out(o.str()); }
  { auto t = cs.topk(3, [](const std::pair<HK, size_t>& a, const std::pair<HK, size_t>& b) { return a.second > b.second || (a.second == b.second && a.first < b.first); });
    std::ostringstream o; o << "topk"; for (auto& kv : t) o << " " << kv.first.id << ":" << kv.second; hc::out(o.str()); }
  { std::vector<HK> keys; for (size_t i = 0; i < uni.size(); ++i) if ((i + comm.rank()) % 2 == 0) keys.push_back(HK(uni[i]));
    auto g = cs.all_gather(keys);
    std::ostringstream o; o << "gather"; for (auto& kv : g) o << " " << kv.first.id << ":" << kv.second; hc::out(o.str()); }
}

// ---- one complete scenario on communicator `comm` (containers are created and destroyed inside)
static void scenario(ygm::comm& comm, MPI_Comm mc, const std::string& name, const std::string& mode, script_t& s) {
  g_world = &comm;
  g_twinJ = s.twinJ;
  s.ops.clear();
  for (const op_t& o : s.all) if (o.rank == comm.rank()) s.ops.push_back(o);
  { std::string l = "ph " + name + " " + std::to_string(comm.rank()) + " " + std::to_string(comm.size()); simmpi_log(l.c_str()); hc::out(l); }
  const bool twin = s.twinJ > 0;
  if (mode == "cset") {
    CS csa(comm);
    std::unique_ptr<CS> csb_owner; if (twin) csb_owner.reset(new CS(comm));
    CS& csb = twin ? *csb_owner : csa;
    for (uint64_t k : s.universe) hc::out("own " + u(k) + " " + std::to_string(csa.is_mine(HK(k)) ? comm.rank() : -1));
    g_trace = true;   // before the barrier: a rank still inside it already executes handlers of faster ranks
    comm.barrier();
    run_script(s, csa.get_ygm_ptr(), csb.get_ygm_ptr(), cs_handler(), [&](int ph) {
      hc::out("snap " + std::to_string(ph) + " " + u(csa.count_all()) + " " + u(twin ? csb.count_all() : 0)); });
    g_trace = false;
    comm.barrier();
    report_cset(csa, s, 0, comm);
    if (twin) report_cset(csb, s, 1, comm);
  } else if (mode == "rmap") {
    using M = ygm::container::map<uint64_t, HV>;
    M ma(comm); std::unique_ptr<M> mb_owner; if (twin) mb_owner.reset(new M(comm));
    M& mb = twin ? *mb_owner : ma;
    for (uint64_t k : s.universe) hc::out("own " + u(k) + " " + std::to_string(ma.owner(k)));
    // cf_barrier: no rank starts the next phase before every rank has listed its contents
    auto dump1 = [&](M& m, const std::string& tag) { std::ostringstream o; o << tag; m.for_all([&o](const uint64_t& k, HV& v) { o << " " << k << ":" << v.val << ":" << v.key; }); hc::out(o.str()); };
    auto dump = [&](const std::string& tag) { dump1(ma, tag); if (twin) dump1(mb, tag); comm.cf_barrier(); };
    {
      auto ra = ygm::container::detail::make_reducing_adapter(ma, Red());
      using RA = decltype(ra);
      std::unique_ptr<RA> rb_owner; if (twin) rb_owner.reset(new RA(mb, Red()));
      RA& rb = twin ? *rb_owner : ra;
      auto pra = comm.make_ygm_ptr(ra); auto prb = comm.make_ygm_ptr(rb);
      g_trace = true;
      comm.barrier();
      run_script(s, pra, prb, ra_handler<RA>(), [&](int ph) { dump("snap " + std::to_string(ph)); });
      evs("bb");
    }   // ~reducing_adapter: barrier
    evs("be");
    g_trace = false;
    dump("kv");
  } else if (mode == "rarr") {
    using A = ygm::container::array<HV>;
    A aa(comm, (size_t)s.len, HV(array_init(), NOKEY)); std::unique_ptr<A> ab_owner; if (twin) ab_owner.reset(new A(comm, (size_t)s.len, HV(array_init(), NOKEY)));
    A& ab = twin ? *ab_owner : aa;
    for (uint64_t k : s.universe) hc::out("own " + u(k) + " " + std::to_string(aa.owner(k)));
    auto dump1 = [&](A& a, const std::string& tag) { std::ostringstream o; o << tag; a.for_all([&o](const size_t k, HV& v) { if (v.key != NOKEY) o << " " << k << ":" << v.val << ":" << v.key; }); hc::out(o.str()); };
    auto dump = [&](const std::string& tag) { dump1(aa, tag); if (twin) dump1(ab, tag); comm.cf_barrier(); };
    {
      auto ra = ygm::container::detail::make_reducing_adapter(aa, Red());
      using RA = decltype(ra);
      std::unique_ptr<RA> rb_owner; if (twin) rb_owner.reset(new RA(ab, Red()));
      RA& rb = twin ? *rb_owner : ra;
      auto pra = comm.make_ygm_ptr(ra); auto prb = comm.make_ygm_ptr(rb);
      g_trace = true;
      comm.barrier();
      run_script(s, pra, prb, ra_handler<RA>(), [&](int ph) { dump("snap " + std::to_string(ph)); });
      evs("bb");
    }
    evs("be");
    g_trace = false;
    dump("kv");
  } else if (mode == "rswapk" || mode == "rswapr") {
    using M = ygm::container::map<uint64_t, HV>;
    M ma(comm), mb(comm);
    for (uint64_t k : s.universe) hc::out("own " + u(k) + " " + std::to_string(ma.owner(k)));
    auto dump1 = [&](M& m, const std::string& tag) { std::ostringstream o; o << tag; m.for_all([&o](const uint64_t& k, HV& v) { o << " " << k << ":" << v.val << ":" << v.key; }); hc::out(o.str()); };
    size_t nb = 0; for (const op_t& o : s.ops) if (o.kind == 'b') ++nb;
    size_t i = 0, seen = 0;
    auto batch = [&](auto& ra) {   // contributions up to the next script barrier
      for (; i < s.ops.size() && s.ops[i].kind != 'b'; ++i) if (s.ops[i].kind == 'i') ra.async_reduce(s.ops[i].k, HV(s.ops[i].v, s.ops[i].k));
      ++i; ++seen;
    };
    if (mode == "rswapk") {
      auto ra = ygm::container::detail::make_reducing_adapter(ma, Red());
      // cf_barrier after swap(): map::swap has no exit synchronisation — a rank still inside its barrier would apply a
      // reduction of a faster rank's next batch to the not-yet-swapped local map (a property of map::swap, not of the adapter)
      while (seen < nb) { batch(ra); comm.barrier(); if (seen < nb) { ma.swap(mb); comm.cf_barrier(); } }
    } else {
      while (seen < nb) {
        { auto ra = ygm::container::detail::make_reducing_adapter(ma, Red()); batch(ra); }
        if (seen < nb) ma.swap(mb);
      }
    }
    dump1(ma, "kv"); dump1(mb, "kv");
  } else {   // reduce_by_key_map over a local vector or a distributed bag of (key, value) pairs
    std::vector<std::pair<uint64_t, HV>> vec;
    for (const op_t& o : s.ops) if (o.kind == 'i') vec.push_back({o.k, HV(o.v, o.k)});
    for (uint64_t k : s.universe) hc::out("own " + u(k) + " " + std::to_string((int)(k % (uint64_t)comm.size())));
    auto dump = [&](ygm::container::map<uint64_t, HV>& m) { std::ostringstream o; o << "kv"; m.for_all([&o](const uint64_t& k, HV& v) { o << " " << k << ":" << v.val << ":" << v.key; }); hc::out(o.str()); hc::out("size " + u(m.size())); };
    if (mode == "rbkvec") {
      g_trace = true;
      auto res = ygm::container::reduce_by_key_map<uint64_t, HV>(vec, Red(), comm);
      g_trace = false;
      dump(res);
    } else if (mode == "rbkbag") {
      ygm::container::bag<std::pair<uint64_t, HV>> bag(comm);
      for (auto& kv : vec) bag.async_insert(kv);
      comm.barrier();
      g_trace = true;
      auto res = ygm::container::reduce_by_key_map<uint64_t, HV>(bag, Red(), comm);
      g_trace = false;
      dump(res);
    } else {   // rbkbag2: the input lives on another communicator over the same ranks, inserts still pending
      ygm::comm second(mc);
      {
        ygm::container::bag<std::pair<uint64_t, HV>> bag(second);
        for (auto& kv : vec) bag.async_insert(kv);      // no barrier: for_all inside reduce_by_key_map must deliver them
        auto res = ygm::container::reduce_by_key_map<uint64_t, HV>(bag, Red(), comm);
        dump(res);
      }
    }
  }
  g_world = nullptr;
}

static void on_sub(ygm::comm& world, int split, const std::string& mode, script_t& s) {
  int wr = world.rank(), ppn = world.layout().local_size(), nodes = world.layout().node_size();
  int colour = split == 0 ? (world.layout().local_id() % 2)
                          : (nodes > 1 ? world.layout().node_id() % 2 : (wr < world.size() / 2 ? 0 : 1));
  (void)ppn;
  MPI_Comm subc;
  MPI_Comm_split(MPI_COMM_WORLD, colour, wr, &subc);
  {
    ygm::comm sub(subc);
    scenario(sub, subc, "sub", mode, s);
  }   // the ygm::comm is destroyed before its MPI communicator is freed
  MPI_Comm_free(&subc);
}

extern "C" int sim_main(int argc, char** argv) {
  ygm::comm world(MPI_COMM_WORLD);
  hc::open_out(world.rank());
  std::string mode = argc > 1 ? argv[1] : "cset";
  script_t s = read_script(argv[2]);
  g_opid = argc > 3 ? atoi(argv[3]) : 0;
  int subcomm = argc > 4 ? atoi(argv[4]) : 0, split = argc > 5 ? atoi(argv[5]) : 0;
  if (subcomm == 1) on_sub(world, split, mode, s);
  scenario(world, MPI_COMM_WORLD, "world", mode, s);
  if (subcomm == 2) on_sub(world, split, mode, s);
  return 0;
}
