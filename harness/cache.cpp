// C15/C16 correspondence harness: the real counting_set count cache and the real reducing
// adapter (map and array targets, reduce_by_key_map), driven by a script that the check
// generates from the seed.  args: <mode> <scriptfile> [opid]
//   mode  cset | rmap | rarr | rbkvec | rbkbag
//   opid  0 sum  1 max  2 xor  |  operators for which the value-initialised T{} (0) is NOT neutral:
//         3 min  4 product mod 1000003  5 bitwise and  6 max of the values read as signed 64-bit (negatives)
// script lines (every rank reads the whole file and interprets the lines of its rank):
//   U k k k ...                    key universe (owners are printed, final queries use it)
//   L len                          rarr: array length
//   <rank> i <k> <v>               main-context async_insert(k) / async_reduce(k, v)
//   <rank> h <d> <k> <v> <d2> <k2> <v2>   send a handler to rank d that inserts (k, v) and, when d2 >= 0,
//                                  sends a second handler to d2 that inserts (k2, v2)
//   <rank> b                       barrier (every rank has the same number of them)
// Events on the coordinator's ordered log (only while tracing is on, i.e. during the script):
//   ib k v / ie     harness calls async_insert / async_reduce        hb / he   harness handler body
//   sb / se         harness's own comm.async (not a container send)  bb / be   barrier
//   pk k v / uk k v the instrumented key (cset) / value (reduce) is serialised / deserialised
//   S / R           comm::async packed-phase begins (hook as+) / returns (hook as-)
//   FB / FE         a pre-barrier callback begins / ends (hooks cb+ / cb-)
//   X+ / X-         comm executes a received message (hooks ex+ / ex-)
// Results go to the per-rank out file: own, snap, count, countall, size, forall, topk, gather, kv.
#define HC_OWN_HOOK
#include "hcommon.hpp"
#include <ygm/comm.hpp>
#include <ygm/container/counting_set.hpp>
#include <ygm/container/map.hpp>
#include <ygm/container/array.hpp>
#include <ygm/container/bag.hpp>
#include <ygm/container/detail/reducing_adapter.hpp>
#include <ygm/container/reduce_by_key.hpp>
#include <fstream>
#include <functional>

static bool g_trace = false;
static ygm::comm* g_world = nullptr;
static int g_opid = 0;
static const uint64_t NOKEY = ~0ULL, BADKEY = ~0ULL - 1;

extern "C" void ygm_verif_hook(const char* tag, long a, long b, long c) {
  if (!g_trace) return;
  if (tag[0] == 'a' && tag[1] == 's') simmpi_log(tag[2] == '+' ? "S" : "R");
  else if (tag[0] == 'c' && tag[1] == 'b') simmpi_log(tag[2] == '+' ? "FB" : "FE");
  else if (tag[0] == 'e' && tag[1] == 'x') simmpi_log(tag[2] == '+' ? "X+" : "X-");
}
static void evk(const char* t, uint64_t k, uint64_t v) {
  if (!g_trace) return;
  char b[96]; snprintf(b, sizeof b, "%s %llu %llu", t, (unsigned long long)k, (unsigned long long)v); simmpi_log(b);
}
static void evs(const char* t) { if (g_trace) simmpi_log(t); }

// ---- instrumented key of the counting_set: hash = id, so ids equal modulo 2^20 share a cache slot
struct HK {
  uint64_t id = 0;
  HK() {}
  explicit HK(uint64_t i) : id(i) {}
  bool operator==(const HK& o) const { return id == o.id; }
  bool operator<(const HK& o) const { return id < o.id; }
  template <class Ar> void save(Ar& ar) const { ar(id); evk("pk", id, 1); }
  template <class Ar> void load(Ar& ar) { ar(id); evk("uk", id, 1); }
};
namespace std { template <> struct hash<HK> { size_t operator()(const HK& k) const { return (size_t)k.id; } }; }

// ---- instrumented value of the reducing adapter: carries the key it was contributed for, so that
// serialisation events name (key, value) for every key type and mixing two keys is visible
struct HV {
  uint64_t val = 0, key = NOKEY;
  HV() {}
  HV(uint64_t v, uint64_t k) : val(v), key(k) {}
  bool operator==(const HV& o) const { return val == o.val && key == o.key; }
  template <class Ar> void save(Ar& ar) const { ar(val, key); evk("pk", key, val); }
  template <class Ar> void load(Ar& ar) { ar(val, key); evk("uk", key, val); }
};
struct Red {   // stateless (the library calls it through a null pointer); the operator is chosen by g_opid
  HV operator()(const HV& a, const HV& b) const {
    HV r;
    switch (g_opid) {
      case 0: r.val = a.val + b.val; break;
      case 1: r.val = a.val > b.val ? a.val : b.val; break;
      case 2: r.val = a.val ^ b.val; break;
      case 3: r.val = a.val < b.val ? a.val : b.val; break;
      case 4: r.val = (a.val % 1000003ULL) * (b.val % 1000003ULL) % 1000003ULL; break;
      case 5: r.val = a.val & b.val; break;
      default: r.val = (int64_t)a.val > (int64_t)b.val ? a.val : b.val; break;
    }
    r.key = a.key == NOKEY ? b.key : (b.key == NOKEY || b.key == a.key ? a.key : BADKEY);
    return r;
  }
};

struct op_t { int rank; char kind; long d; uint64_t k, v; long d2; uint64_t k2, v2; };
struct script_t { std::vector<uint64_t> universe; uint64_t len = 0; std::vector<op_t> ops; };
static script_t read_script(const char* path, int me) {
  script_t s; std::ifstream in(path); std::string line;
  while (std::getline(in, line)) {
    std::istringstream ss(line); std::string w; ss >> w;
    if (w.empty()) continue;
    if (w == "U") { uint64_t k; while (ss >> k) s.universe.push_back(k); continue; }
    if (w == "L") { ss >> s.len; continue; }
    op_t o{}; o.rank = atoi(w.c_str()); std::string kd; ss >> kd; o.kind = kd[0]; o.d2 = -1;
    if (o.kind == 'i') ss >> o.k >> o.v;
    else if (o.kind == 'h') ss >> o.d >> o.k >> o.v >> o.d2 >> o.k2 >> o.v2;
    if (o.rank == me) s.ops.push_back(o);
  }
  return s;
}

// ---- generic script interpreter; Ins(k, v) performs the container call
template <typename Ptr, typename Handler>
static void run_script(const script_t& s, Ptr p, Handler, std::function<void(int)> after_barrier) {
  int phase = 0;
  for (const op_t& o : s.ops) {
    if (o.kind == 'i') { Handler::insert(p, o.k, o.v); }
    else if (o.kind == 'h') { evs("sb"); g_world->async((int)o.d, Handler(), p, o.k, o.v, (int)o.d2, o.k2, o.v2); evs("se"); }
    else if (o.kind == 'b') { evs("bb"); g_world->barrier(); evs("be"); after_barrier(phase++); }
  }
}

using CS = ygm::container::counting_set<HK>;
struct cs_handler {
  static void insert(ygm::ygm_ptr<CS> p, uint64_t k, uint64_t v) { evk("ib", k, 1); p->async_insert(HK(k)); evs("ie"); }
  void operator()(ygm::ygm_ptr<CS> p, uint64_t k, uint64_t v, int d2, uint64_t k2, uint64_t v2) {
    evs("hb"); insert(p, k, v);
    if (d2 >= 0) { evs("sb"); g_world->async(d2, cs_handler(), p, k2, v2, -1, (uint64_t)0, (uint64_t)0); evs("se"); }
    evs("he");
  }
};

template <typename RA>
struct ra_handler {
  static void insert(ygm::ygm_ptr<RA> p, uint64_t k, uint64_t v) { evk("ib", k, v); p->async_reduce(k, HV(v, k)); evs("ie"); }
  void operator()(ygm::ygm_ptr<RA> p, uint64_t k, uint64_t v, int d2, uint64_t k2, uint64_t v2) {
    evs("hb"); insert(p, k, v);
    if (d2 >= 0) { evs("sb"); g_world->async(d2, ra_handler<RA>(), p, k2, v2, -1, (uint64_t)0, (uint64_t)0); evs("se"); }
    evs("he");
  }
};

// initial value of the array elements: neutral for the operator on the value range the check uses
// (the array folds every contribution into the element's previous value)
static uint64_t array_init() {
  switch (g_opid) { case 3: return 1ULL << 63; case 4: return 1; case 5: return ~0ULL; case 6: return 1ULL << 63; default: return 0; }
}
static std::string u(uint64_t x) { return std::to_string((unsigned long long)x); }

extern "C" int sim_main(int argc, char** argv) {
  ygm::comm world(MPI_COMM_WORLD);
  g_world = &world;
  hc::open_out(world.rank());
  std::string mode = argc > 1 ? argv[1] : "cset";
  script_t s = read_script(argv[2], world.rank());
  g_opid = argc > 3 ? atoi(argv[3]) : 0;

  if (mode == "cset") {
    CS cs(world);
    auto pcs = cs.get_ygm_ptr();
    for (uint64_t k : s.universe) hc::out("own " + u(k) + " " + std::to_string(cs.is_mine(HK(k)) ? world.rank() : -1));
    g_trace = true;   // before the barrier: a rank still inside it already executes handlers of faster ranks
    world.barrier();
    run_script(s, pcs, cs_handler(), [&](int ph) { hc::out("snap " + std::to_string(ph) + " " + u(cs.count_all())); });
    g_trace = false;
    world.barrier();
    for (uint64_t k : s.universe) hc::out("count " + u(k) + " " + u(cs.count(HK(k))));
    hc::out("countall " + u(cs.count_all()));
    hc::out("size " + u(cs.size()));
    { std::ostringstream o; o << "forall"; cs.for_all([&o](const HK& k, size_t& c) { o << " " << k.id << ":" << c; }); hc::out(o.str()); }
    { auto t = cs.topk(3, [](const std::pair<HK, size_t>& a, const std::pair<HK, size_t>& b) { return a.second > b.second || (a.second == b.second && a.first < b.first); });
      std::ostringstream o; o << "topk"; for (auto& kv : t) o << " " << kv.first.id << ":" << kv.second; hc::out(o.str()); }
    { std::vector<HK> keys; for (size_t i = 0; i < s.universe.size(); ++i) if ((i + world.rank()) % 2 == 0) keys.push_back(HK(s.universe[i]));
      auto g = cs.all_gather(keys);
      std::ostringstream o; o << "gather"; for (auto& kv : g) o << " " << kv.first.id << ":" << kv.second; hc::out(o.str()); }
  } else if (mode == "rmap") {
    ygm::container::map<uint64_t, HV> m(world);
    for (uint64_t k : s.universe) hc::out("own " + u(k) + " " + std::to_string(m.owner(k)));
    // cf_barrier: no rank starts the next phase before every rank has listed its contents
    auto dump = [&](const std::string& tag) { std::ostringstream o; o << tag; m.for_all([&o](const uint64_t& k, HV& v) { o << " " << k << ":" << v.val << ":" << v.key; }); hc::out(o.str()); world.cf_barrier(); };
    {
      auto ra = ygm::container::detail::make_reducing_adapter(m, Red());
      using RA = decltype(ra);
      auto pra = world.make_ygm_ptr(ra);
      g_trace = true;
      world.barrier();
      run_script(s, pra, ra_handler<RA>(), [&](int ph) { dump("snap " + std::to_string(ph)); });
      evs("bb");
    }   // ~reducing_adapter: barrier
    evs("be");
    g_trace = false;
    dump("kv");
  } else if (mode == "rarr") {
    ygm::container::array<HV> a(world, (size_t)s.len, HV(array_init(), NOKEY));
    for (uint64_t k : s.universe) hc::out("own " + u(k) + " " + std::to_string(a.owner(k)));
    auto dump = [&](const std::string& tag) { std::ostringstream o; o << tag; a.for_all([&o](const size_t k, HV& v) { if (v.key != NOKEY) o << " " << k << ":" << v.val << ":" << v.key; }); hc::out(o.str()); world.cf_barrier(); };
    {
      auto ra = ygm::container::detail::make_reducing_adapter(a, Red());
      using RA = decltype(ra);
      auto pra = world.make_ygm_ptr(ra);
      g_trace = true;
      world.barrier();
      run_script(s, pra, ra_handler<RA>(), [&](int ph) { dump("snap " + std::to_string(ph)); });
      evs("bb");
    }
    evs("be");
    g_trace = false;
    dump("kv");
  } else {   // reduce_by_key_map over a local vector or a distributed bag of (key, value) pairs
    std::vector<std::pair<uint64_t, HV>> vec;
    for (const op_t& o : s.ops) if (o.kind == 'i') vec.push_back({o.k, HV(o.v, o.k)});
    for (uint64_t k : s.universe) hc::out("own " + u(k) + " " + std::to_string((int)(k % (uint64_t)world.size())));
    auto dump = [&](ygm::container::map<uint64_t, HV>& m) { std::ostringstream o; o << "kv"; m.for_all([&o](const uint64_t& k, HV& v) { o << " " << k << ":" << v.val << ":" << v.key; }); hc::out(o.str()); hc::out("size " + u(m.size())); };
    if (mode == "rbkvec") {
      g_trace = true;
      auto res = ygm::container::reduce_by_key_map<uint64_t, HV>(vec, Red(), world);
      g_trace = false;
      dump(res);
    } else {
      ygm::container::bag<std::pair<uint64_t, HV>> bag(world);
      for (auto& kv : vec) bag.async_insert(kv);
      world.barrier();
      { std::ostringstream o; o << "bag"; bag.for_all([&o](std::pair<uint64_t, HV>& kv) { o << " " << kv.first << ":" << kv.second.val; }); hc::out(o.str()); }
      g_trace = true;
      auto res = ygm::container::reduce_by_key_map<uint64_t, HV>(bag, Red(), world);
      g_trace = false;
      dump(res);
    }
  }
  return 0;
}
