// C19 / C20 correspondence harness: the real multi_output / daily_output and the real
// serialize / deserialize members, run under simmpi.  Everything is written below
// $SIMMPI_TMP (the run's temp dir); results go to the per-rank out file as hex.
//
//   mo   <seed> <L|-1 default> <append 0/1> <nsub> <nwrites> <maxlen> <flags>
//        flags: 1 prefix given with trailing '/', 2 pre-existing files, 4 some writes are
//        issued from inside a handler (typed arguments and stream manipulators are always among the writes), 8 second generation on the same prefix (same modes),
//        16 the prefix directory lies below directories that do not exist yet, 32 only flat subpaths (files directly in the prefix),
//        64 subpaths of total length 253..257
//   mo2  <seed> <order 0|1> <nwrites>         two communicators (world; world split n-1 + 1), a multi_output on each, same subpaths
//   many <nobjects>                           > 65536 output objects, the first still alive (thorough tier)
//   day  <seed> <L> <nwrites> <ts,ts,...>      daily_output, timestamps steered by the check
//   ser  <kind> <seed> <nitems> <flags>
//        kind: map multimap set multiset bag cset mapcount bagd (bag<double>) bagpd (bag<pair<int,double>>) mapd (map<string,double>)
//        flags: 1 pre-populated target, 2 barrier before serialize (otherwise the inserts
//        are still pending), 4 strings may contain NUL, 8 only rank 0 inserts, 16 non-empty
//        default value, 32 short alphabet (many duplicates / shared prefixes), 64 directed: exactly the keys "a\\0b" and "a\\0c",
//        8192 thousands of dependent pairs (insert k; erase k / insert k v1; insert k v2) per rank pending at serialize,
//        kind cset2: two counting_sets alive, both with un-flushed inserts at serialize and at deserialize (4096: source first),
//        1024 operations issued on the TARGET right before deserialize, no barrier in between,
//        128 reused prefix: a different container is serialized to the same prefix first (512: a tiny one instead of a
//        big one; 256: its files are also planted at rank indices size..2*size-1 plus one unparsable file)
//   leak                                      observation: can a post-serialize insert reach another rank's image?
//   tok  <hex token> ...                      cereal JSONInputArchive on `{"value0": <token>}`
#include "hcommon.hpp"
#include <ygm/comm.hpp>
#include <ygm/container/bag.hpp>
#include <ygm/container/counting_set.hpp>
#include <ygm/container/map.hpp>
#include <ygm/container/set.hpp>
#include <ygm/io/daily_output.hpp>
#include <ygm/io/multi_output.hpp>
#include <cereal/archives/json.hpp>
#include <cereal/types/string.hpp>
#include <cmath>
#include <cstring>
#include <ctime>
#include <iomanip>
#include <limits>
#include <filesystem>
#include <fstream>
#include <map>

namespace fs = std::filesystem;

static std::string hex(const std::string& s) {
  if (s.empty()) return "-";
  static const char* d = "0123456789abcdef";
  std::string o; o.reserve(2 * s.size());
  for (unsigned char c : s) { o.push_back(d[c >> 4]); o.push_back(d[c & 15]); }
  return o;
}
static std::string unhex(const std::string& h) {
  if (h == "-") return "";
  std::string o;
  auto nib = [](char c) { return c <= '9' ? c - '0' : (c | 32) - 'a' + 10; };
  for (size_t i = 0; i + 1 < h.size(); i += 2) o.push_back((char)(nib(h[i]) * 16 + nib(h[i + 1])));
  return o;
}
static std::string slurp(const std::string& p) {
  std::ifstream is(p, std::ios::binary);
  return std::string((std::istreambuf_iterator<char>(is)), std::istreambuf_iterator<char>());
}
static std::string tmpdir() { const char* d = getenv("SIMMPI_TMP"); return d ? d : "."; }

// a line: any bytes except '\n'; lengths steered around the buffer length
static std::string gen_line(hc::rng& g, long L, long maxlen) {
  size_t len;
  switch (g.below(10)) {
    case 6: len = 253 + g.below(5); break;                                  // around a one-byte length
    case 7: len = (size_t)maxlen - (maxlen > 0 ? g.below(2) : 0); break;    // maxlen-1 / maxlen (65535 / 65536 in the thorough tier)
    case 0: len = 0; break;
    case 1: len = 1; break;
    case 2: len = (L > 0 && L < 100000) ? (size_t)L - 1 : 3; break;      // exactly fills the buffer with its '\n'
    case 3: len = (L >= 0 && L < 100000) ? (size_t)L : 5; break;        // one over
    case 4: len = (L >= 0 && L < 100000) ? (size_t)L + 1 + g.below(40) : 50; break;
    case 5: len = (size_t)maxlen; break;
    default: len = g.below((uint64_t)maxlen + 1); break;
  }
  std::string s; s.reserve(len);
  bool text = g.below(3) != 0;
  for (size_t i = 0; i < len; ++i) {
    char c = text ? (char)(32 + g.below(95)) : (char)g.below(256);
    if (c == '\n') c = '\r';
    s.push_back(c);
  }
  return s;
}

// subpaths: files f<i> below random chains of directories d<j> (a file name never equals a directory name)
static std::vector<std::string> gen_subpaths(hc::rng& g, long n, bool flat = false, bool longnames = false) {
  std::vector<std::string> v;
  for (long i = 0; i < n; ++i) {
    if (longnames) {   // total subpath length 253..257, path components below NAME_MAX
      size_t target = 253 + (size_t)(i % 5);
      std::string p = "d" + std::to_string(i) + std::string(120, 'x') + "/f" + std::to_string(i);
      p += std::string(target - p.size(), 'y');
      v.push_back(p);
      continue;
    }
    std::string p;
    size_t depth = flat ? 0 : g.below(4);
    for (size_t k = 0; k < depth; ++k) p += "d" + std::to_string(g.below(3)) + "/";
    p += "f" + std::to_string(i) + (g.below(3) == 0 ? ".txt" : "");
    v.push_back(p);
  }
  return v;
}

static ygm::io::multi_output<>* g_mo = nullptr;

static void dump_tree(const std::string& root) {
  if (!fs::exists(root)) { hc::out("notree"); return; }
  hc::out("dumped");
  std::vector<std::string> files;
  for (auto& e : fs::recursive_directory_iterator(root))
    if (e.is_regular_file()) files.push_back(e.path().string());
    else if (e.is_directory()) hc::out("d " + hex(fs::relative(e.path(), root).string()));
  std::sort(files.begin(), files.end());
  for (auto& f : files) hc::out("f " + hex(fs::relative(f, root).string()) + " " + hex(slurp(f)));
}

static int run_mo(ygm::comm& world, int argc, char** argv) {
  uint64_t seed = strtoull(argv[2], 0, 10);
  long L = atol(argv[3]); bool append = atoi(argv[4]) != 0;
  long nsub = atol(argv[5]), nwrites = atol(argv[6]), maxlen = atol(argv[7]); int flags = atoi(argv[8]);
  hc::rng shared(seed);
  std::string root = tmpdir() + "/mo" + ((flags & 16) ? "/deep/er" : "");
  std::string prefix = root + ((flags & 1) ? "/" : "");
  auto subs = gen_subpaths(shared, nsub, flags & 32, flags & 64);
  if (flags & 2) {   // pre-existing content: some of the subpaths, plus one file nobody writes to
    std::vector<std::pair<std::string, std::string>> olds;
    for (size_t i = 0; i < subs.size(); ++i)
      if (shared.below(2) == 0) {
        std::string c; size_t k = shared.below(3);
        for (size_t j = 0; j < k; ++j) c += gen_line(shared, 8, 12) + "\n";
        if (shared.below(4) == 0) c += "tail-without-newline";
        olds.push_back({subs[i], c});
      }
    olds.push_back({"d0/untouched", "keep me\n"});
    if (world.rank0())
      for (auto& [s, c] : olds) {
        fs::create_directories(fs::path(root + "/" + s).parent_path());
        std::ofstream os(root + "/" + s, std::ios::binary); os << c; os.close();
        hc::out("old " + hex(s) + " " + hex(c));
      }
    world.cf_barrier();
  }
  int gens = (flags & 8) ? 2 : 1;
  for (int gen = 0; gen < gens; ++gen) {
    hc::rng mine(seed * 1000003ULL + 7919ULL * (uint64_t)world.rank() + 31ULL * (uint64_t)gen + 1);
    hc::out("gen " + std::to_string(gen));
    {
      std::unique_ptr<ygm::io::multi_output<>> mo;
      if (L < 0) mo.reset(new ygm::io::multi_output<>(world, prefix));
      else mo.reset(new ygm::io::multi_output<>(world, prefix, (size_t)L, append));
      g_mo = mo.get();
      long Lm = L < 0 ? 1024 * 1024 : L;
      for (long i = 0; i < nwrites; ++i) {
        // a few hot subpaths so that several ranks write to the same file
        const std::string& sub = subs[mine.below(3) == 0 ? mine.below(std::min<uint64_t>(2, subs.size())) : mine.below(subs.size())];
        std::string line = gen_line(mine, Lm, maxlen);
        unsigned how = (flags & 4) ? mine.below(4) : mine.below(3);
        // the oracle for a line is what a FRESH std::ostringstream produces for the call's own arguments
        auto wl = [&](const std::string& sp, auto&&... args) {
          mo->async_write_line(sp, args...);
          std::ostringstream fresh; (fresh << ... << args);
          hc::out("w " + hex(sp) + " " + hex(fresh.str()));
          return fresh.str();
        };
        if (how == 2) {            // typed arguments, some calls with sticky manipulators
          unsigned long u = (unsigned long)mine.below(3) == 0 ? mine.next() : mine.below(100000);
          unsigned long u2 = mine.below(4096);
          long sn = (long)mine.below(200000) - 100000;
          double dbl = (mine.below(4) == 0) ? 1e6 * (double)mine.below(1000) : (double)mine.below(1000000007) / 1000003.0;
          bool bo = mine.below(2);
          std::string hu = "n:" + std::to_string(u), hu2 = "n:" + std::to_string(u2), hb = bo ? "b:1" : "b:0";
          switch (mine.below(10)) {
            case 0: { auto l = wl(sub, "c=", u, " ", bo); hc::out("p " + hex(l) + " s:" + hex("c=") + " " + hu + " s:" + hex(" ") + " " + hb); break; }
            case 1: { auto l = wl(sub, "h=", std::hex, u, " ", std::dec, u2); hc::out("p " + hex(l) + " s:" + hex("h=") + " m:hex " + hu + " s:" + hex(" ") + " m:dec " + hu2); break; }
            case 2: { auto l = wl(sub, std::boolalpha, bo, std::oct, u2); hc::out("p " + hex(l) + " m:boolalpha " + hb + " m:oct " + hu2); break; }
            case 3: { auto l = wl(sub, u2, bo, "|", u); hc::out("p " + hex(l) + " " + hu2 + " " + hb + " s:" + hex("|") + " " + hu); break; }
            case 4: wl(sub, "n=", sn, " d=", dbl, " b=", bo); break;
            case 5: wl(sub, "f=", std::fixed, std::setprecision(2), dbl); break;
            case 6: wl(sub, std::scientific, dbl, " ", std::uppercase, std::hex, std::showbase, u2); break;
            case 7: wl(sub, std::setw(8), std::setfill('*'), sn, std::setw(6), u2); break;
            case 8: wl(sub, dbl, " ", sn, " ", bo, " ", u2); break;
            default: wl(sub, std::setprecision(12), dbl / 7.0, std::showpos, sn); break;
          }
        } else if (how == 3) {     // written from inside a handler on another rank
          int dest = (int)mine.below(world.size());
          world.async(dest, [](const std::string& sub, const std::string& line) {
            g_mo->async_write_line(sub, line);
            hc::out("w " + hex(sub) + " " + hex(line));
          }, sub, line);
        } else if (how == 0) {
          mo->async_write_line(sub, line);
          hc::out("w " + hex(sub) + " " + hex(line));
        } else if (how == 1) {   // several stream arguments are packed into one line
          long num = (long)mine.below(100000) - 50000;
          mo->async_write_line(sub, line, num, '|', line.size());
          hc::out("w " + hex(sub) + " " + hex(line + std::to_string(num) + "|" + std::to_string(line.size())));
        }
      }
      mo.reset();       // handlers run at the latest in the destructor's barrier, where *mo is still alive
      g_mo = nullptr;
    }
    world.cf_barrier();
    if (world.rank0()) dump_tree(root);
    world.cf_barrier();
  }
  return 0;
}

// two communicators of different size in one process (world of n; split into ranks 0..n-2 and rank n-1), a multi_output on
// each, the same subpath names on both, writes interleaved; order 0: world objects first, 1: sub-communicator objects first
static int run_mo2(ygm::comm& world, int argc, char** argv) {
  uint64_t seed = strtoull(argv[2], 0, 10); int order = atoi(argv[3]); long nwrites = atol(argv[4]);
  int grp = world.rank() < world.size() - 1 ? 0 : 1;
  MPI_Comm subc; MPI_Comm_split(MPI_COMM_WORLD, grp, world.rank(), &subc);
  {
    ygm::comm sub(subc);
    hc::rng shared(seed), mine(seed * 1000003ULL + 7919ULL * (uint64_t)world.rank() + 1);
    auto subs = gen_subpaths(shared, 6);
    std::string rootW = tmpdir() + "/mo2w", rootS = tmpdir() + (grp == 0 ? "/mo2s" : "/mo2t");
    std::unique_ptr<ygm::io::multi_output<>> moW, moS;
    if (order == 0) { moW.reset(new ygm::io::multi_output<>(world, rootW, 16, false)); moS.reset(new ygm::io::multi_output<>(sub, rootS, 16, false)); }
    else { moS.reset(new ygm::io::multi_output<>(sub, rootS, 16, false)); moW.reset(new ygm::io::multi_output<>(world, rootW, 16, false)); }
    for (long i = 0; i < nwrites; ++i) {
      const std::string& sp = subs[mine.below(subs.size())];
      std::string line = gen_line(mine, 16, 24);
      bool onW = (order == 0) ? (i % 3 != 2) : (i % 3 == 2);
      if (mine.below(4) == 0) onW = !onW;
      if (onW) { moW->async_write_line(sp, line); hc::out("w2 W " + hex(sp) + " " + hex(line)); }
      else { moS->async_write_line(sp, line); hc::out(std::string("w2 ") + (grp == 0 ? "S" : "T") + " " + hex(sp) + " " + hex(line)); }
    }
    if (order == 0) { moS.reset(); moW.reset(); } else { moW.reset(); moS.reset(); }
    world.cf_barrier();
    if (world.rank0()) { hc::out("tree W"); dump_tree(rootW); hc::out("tree S"); dump_tree(tmpdir() + "/mo2s"); hc::out("tree T"); dump_tree(tmpdir() + "/mo2t"); }
    world.cf_barrier();
  }
  MPI_Comm_free(&subc);
  return 0;
}

// more than 65536 output objects over the life of the process, the first one still alive (thorough tier)
static int run_many(ygm::comm& world, int argc, char** argv) {
  long nobj = atol(argv[2]);
  std::string root = tmpdir() + "/many";
  {
    ygm::io::multi_output<> first(world, root + "/first", 8, false);
    for (long i = 0; i < nobj; ++i) {
      if (i % 2) { ygm::io::multi_output<> mo(world, root + "/tmp", 8, true); if (i % 4096 == 1) { mo.async_write_line("t", "tmp line"); hc::out("w " + hex("tmp/t") + " " + hex("tmp line")); } }
      else { ygm::io::daily_output<> d(world, root + "/day", 8, true); if (i % 4096 == 0) { d.async_write_line(86400ULL * 365, "day line"); hc::out("w " + hex("day/1971/1/1") + " " + hex("day line")); } }
    }
    ygm::io::multi_output<> last(world, root + "/last", 8, false);
    for (int i = 0; i < 5; ++i) {
      std::string l = "line " + std::to_string(world.rank()) + "." + std::to_string(i);
      first.async_write_line("a/f", "F" + l); hc::out("w " + hex("first/a/f") + " " + hex("F" + l));
      last.async_write_line("a/f", "L" + l); hc::out("w " + hex("last/a/f") + " " + hex("L" + l));
    }
  }
  world.cf_barrier();
  if (world.rank0()) dump_tree(root);
  world.cf_barrier();
  return 0;
}

static int run_day(ygm::comm& world, int argc, char** argv) {
  uint64_t seed = strtoull(argv[2], 0, 10); long L = atol(argv[3]); long nwrites = atol(argv[4]);
  std::vector<uint64_t> tss;
  { std::stringstream ss(argv[5]); std::string t; while (std::getline(ss, t, ',')) if (!t.empty()) tss.push_back(strtoull(t.c_str(), 0, 10)); }
  std::string root = tmpdir() + "/day";
  hc::rng mine(seed * 1000003ULL + 7919ULL * (uint64_t)world.rank() + 1);
  {
    ygm::io::daily_output<> d(world, root, (size_t)L, false);
    std::vector<uint64_t> plan;      // every timestamp at least once (dealt round-robin over the ranks), then random repeats
    for (size_t i = 0; i < tss.size(); ++i) if ((int)(i % world.size()) == world.rank()) plan.push_back(tss[i]);
    for (long i = 0; i < nwrites; ++i) plan.push_back(tss[mine.below(tss.size())]);
    for (uint64_t ts : plan) {
      std::string line = std::to_string(ts) + " " + gen_line(mine, L, 20);
      d.async_write_line(ts, line);
      std::time_t t = (std::time_t)ts; std::tm tmv; gmtime_r(&t, &tmv);
      hc::out("t " + std::to_string(ts) + " " + hex(line) + " " + std::to_string(tmv.tm_year + 1900) + " " +
              std::to_string(tmv.tm_mon + 1) + " " + std::to_string(tmv.tm_mday));
    }
  }
  world.cf_barrier();
  if (world.rank0()) dump_tree(root);
  world.cf_barrier();
  return 0;
}

// ---------------------------------------------------------------------------- C20
static std::string gen_str(hc::rng& g, int flags) {
  static const char* specials[] = {"", "\"", "\\", "\\\"", "\x01", "\x1f", "\x7f", "\x80", "\xff", "\xc3\xa9", "/", "\t\n\r\b\f",
                                   "\\u0041", "a\"b\\c", "{\"k\": 1}", " ", "\xe2\x82\xac", "\xf0\x9f\x98\x80", "\xc0\xaf", "\xed\xa0\x80"};
  unsigned pick = g.below(10);
  std::string s;
  if (pick == 0) s = specials[g.below(sizeof(specials) / sizeof(*specials))];
  else {
    size_t len = (flags & 32) ? g.below(3) : g.below(pick < 3 ? 4 : 24);
    for (size_t i = 0; i < len; ++i) {
      unsigned m = (flags & 32) ? 9 : g.below(10);
      char c;
      if (m == 9) c = (char)('a' + g.below(2));
      else if (m < 2) c = (char)(1 + g.below(31));                 // control characters (no NUL)
      else if (m == 2) c = (char)(128 + g.below(128));             // non-ASCII bytes
      else if (m == 3) c = "\"\\/'"[g.below(4)];
      else c = (char)(32 + g.below(95));
      s.push_back(c);
    }
  }
  if ((flags & 4) && g.below(3) == 0) s.insert(s.begin() + g.below(s.size() + 1), '\0');
  return s;
}

template <class C> struct kindof;
using SMap = ygm::container::map<std::string, std::string>;
using SMMap = ygm::container::multimap<std::string, std::string>;
using SSet = ygm::container::set<std::string>;
using SMSet = ygm::container::multiset<std::string>;
using SBag = ygm::container::bag<std::string>;
using SCSet = ygm::container::counting_set<std::string>;
using CMap = ygm::container::map<std::string, size_t>;
using DBag = ygm::container::bag<double>;
using PBag = ygm::container::bag<std::pair<int, double>>;
using DMap = ygm::container::map<std::string, double>;

static std::string bits_be(double d) { uint64_t u; std::memcpy(&u, &d, 8); std::string s; for (int i = 7; i >= 0; --i) s.push_back((char)(u >> (8 * i))); return s; }
static std::string int_be(int v) { uint32_t u = (uint32_t)v; std::string s; for (int i = 3; i >= 0; --i) s.push_back((char)(u >> (8 * i))); return s; }
// a double determined by a key string: many-digit, tiny, denormal, huge, negative zero, or any finite bit pattern
static double dval(const std::string& k) {
  hc::rng g(std::hash<std::string>{}(k) ^ 0xd0b1eULL);
  static const double sp[] = {1.0 / 3.0, 0.0031415926535897933, 1e-20, 5e-324, 2.2250738585072009e-308, std::numeric_limits<double>::min(),
                              std::numeric_limits<double>::max(), -0.0, 0.1, 1e15 + 0.3, 123456789.123456789, -2.0 / 3.0, 1e-15, 9.999999999999999e-16,
                              6.02214076e23, 1.0, 0.0, 4.9406564584124654e-324, 1e300, -1e-300};
  switch (g.below(4)) {
    case 0: return sp[g.below(sizeof(sp) / sizeof(*sp))];
    case 1: return (double)g.next() / 18446744073709551616.0;               // (0,1), 53 random bits
    case 2: { uint64_t u = g.next(); if (((u >> 52) & 0x7ff) == 0x7ff) u &= ~(1ULL << 62); double d; std::memcpy(&d, &u, 8); return d; }
    default: return std::ldexp((double)g.next() / 18446744073709551616.0, (int)g.below(120) - 100);
  }
}

static std::string valof(const std::string& k) {  // deterministic value so that duplicate map keys agree
  std::string v = "v:" + k; std::reverse(v.begin(), v.end()); if (k.size() % 3 == 0) v.clear(); return v;
}
static size_t countof(const std::string& k, uint64_t seed) {
  hc::rng g(std::hash<std::string>{}(k) ^ seed);
  switch (g.below(5)) { case 0: return 0; case 1: return 1; case 2: return (size_t)-1; case 3: return (size_t)1 << 63; default: return g.next(); }
}

template <class C> static void dump(C& c, const char* tag) {
  if constexpr (std::is_same_v<C, DBag>)
    c.for_all([tag](double& v) { hc::out(std::string(tag) + " " + hex(bits_be(v))); });
  else if constexpr (std::is_same_v<C, PBag>)
    c.for_all([tag](std::pair<int, double>& p) { hc::out(std::string(tag) + " " + hex(int_be(p.first) + bits_be(p.second))); });
  else if constexpr (std::is_same_v<C, DMap>)
    c.for_all([tag](const std::string& k, double& v) { hc::out(std::string(tag) + " " + hex(k) + ":" + hex(bits_be(v))); });
  else if constexpr (std::is_same_v<C, SSet> || std::is_same_v<C, SMSet> || std::is_same_v<C, SBag>)
    c.for_all([tag](const std::string& k) { hc::out(std::string(tag) + " " + hex(k)); });
  else if constexpr (std::is_same_v<C, SCSet> || std::is_same_v<C, CMap>)
    c.for_all([tag](const std::string& k, size_t& v) { hc::out(std::string(tag) + " " + hex(k) + ":" + std::to_string(v)); });
  else
    c.for_all([tag](const std::string& k, std::string& v) { hc::out(std::string(tag) + " " + hex(k) + ":" + hex(v)); });
}

template <class C> static void insert_one(C& c, const std::string& k, uint64_t seed, const std::string& tag = "ins") {
  if constexpr (std::is_same_v<C, SMap>) { c.async_insert(k, valof(k)); hc::out(tag + " " + hex(k) + ":" + hex(valof(k))); }
  else if constexpr (std::is_same_v<C, SMMap>) { std::string v = valof(k) + std::to_string(seed % 7); c.async_insert(k, v); hc::out(tag + " " + hex(k) + ":" + hex(v)); }
  else if constexpr (std::is_same_v<C, CMap>) { size_t v = countof(k, 12345); c.async_insert(k, v); hc::out(tag + " " + hex(k) + ":" + std::to_string(v)); }
  else if constexpr (std::is_same_v<C, DBag>) { double v = dval(k); c.async_insert(v); hc::out(tag + " " + hex(bits_be(v))); }
  else if constexpr (std::is_same_v<C, PBag>) { std::pair<int, double> v((int)(std::hash<std::string>{}(k) & 0xffff) - 30000, dval(k)); c.async_insert(v); hc::out(tag + " " + hex(int_be(v.first) + bits_be(v.second))); }
  else if constexpr (std::is_same_v<C, DMap>) { double v = dval(k); c.async_insert(k, v); hc::out(tag + " " + hex(k) + ":" + hex(bits_be(v))); }
  else { c.async_insert(k); hc::out(tag + " " + hex(k)); }
}

// an element that is not part of the image, put into the target before deserialize
template <class B> static void insert_foreign(B& b, const std::string& k) {
  if constexpr (std::is_same_v<B, SMap> || std::is_same_v<B, SMMap>) b.async_insert(k, "STALE-VALUE");
  else if constexpr (std::is_same_v<B, CMap>) b.async_insert(k, 77);
  else if constexpr (std::is_same_v<B, DBag>) b.async_insert(555.0 + (double)k.size());
  else if constexpr (std::is_same_v<B, PBag>) b.async_insert(std::make_pair(555, 555.0 + (double)k.size()));
  else if constexpr (std::is_same_v<B, DMap>) b.async_insert(k, 555.0);
  else b.async_insert(k);
}

template <class A, class B, class... CtorArgs>
static int run_ser_t(ygm::comm& world, uint64_t seed, long nitems, int flags, CtorArgs... dv) {
  std::string fname = tmpdir() + "/img.";
  hc::rng mine(seed * 1000003ULL + 7919ULL * (uint64_t)world.rank() + 1);
  hc::rng shared(seed ^ 0x5eedULL);
  std::vector<std::string> pool;   // shared pool so that different ranks insert equal keys
  for (long i = 0; i < nitems; ++i) pool.push_back(gen_str(shared, flags));
  size_t my_inserts = 0;
  if (flags & 128) {
    // the prefix is REUSED: a different container X is serialized to it first (big: every rank owns plenty; with 512
    // tiny: one key), optionally (256) its rank files are also copied to the indices size..2*size-1 as if the prefix had
    // first been used on twice as many ranks, plus one unparsable file beyond them
    {
      A x(world, dv...);
      hc::rng xr(seed * 77 + 13 * (uint64_t)world.rank() + 5);
      long nx = (flags & 512) ? (world.rank0() ? 1 : 0) : 30;
      for (long i = 0; i < nx; ++i) insert_one(x, "stale-" + std::to_string(world.rank()) + "-" + std::to_string(i) + gen_str(xr, 0), xr.below(1000), "xins");
      x.serialize(fname);
    }
    world.cf_barrier();
    if ((flags & 256) && world.rank0()) {
      for (int r = 0; r < world.size(); ++r) {
        std::ofstream os(fname + std::to_string(r + world.size()), std::ios::binary); os << slurp(fname + std::to_string(r));
      }
      std::ofstream os(fname + std::to_string(2 * world.size()), std::ios::binary); os << "this is not an image";
    }
    world.cf_barrier();
  }
  {
    A a(world, dv...);
    if (flags & 64) {                // directed minimal content: two keys that differ only after a NUL byte
      if (world.rank0()) { insert_one(a, std::string("a\0b", 3), 1); insert_one(a, std::string("a\0c", 3), 2); my_inserts = 2; }
    } else if (!(flags & 8) || world.rank0())
      for (long i = 0; i < nitems; ++i) {
        std::string k = mine.below(2) ? pool[mine.below(pool.size())] : gen_str(mine, flags);
        insert_one(a, k, mine.below(1000)); ++my_inserts;
      }
    if (flags & 8192) {
      // dependent pairs of one issuer on one key, issued right before serialize: insert k; erase k  /  insert k v1; insert k v2.
      // Per-issuer order must be kept by the delivery: no erased key, no first value may be in the image.
      const long np = 2500;
      const std::string me = std::to_string(world.rank());
      for (long i = 0; i < np; ++i) {
        std::string ke = "erased-" + me + "-" + std::to_string(i), ko = "over-" + me + "-" + std::to_string(i);
        if constexpr (std::is_same_v<A, SSet> || std::is_same_v<A, SMSet>) { a.async_insert(ke); a.async_erase(ke); }
        else if constexpr (std::is_same_v<A, SMMap>) { a.async_insert(ke, "first"); a.async_erase(ke); }
        else if constexpr (std::is_same_v<A, SMap>) {
          if (i % 20 == 0) { a.async_insert(ko, "first"); a.async_insert(ko, "second"); hc::out("ins " + hex(ko) + ":" + hex("second")); }
          else { a.async_insert(ke, "first"); a.async_erase(ke); }
        } else if constexpr (std::is_same_v<A, CMap>) {
          if (i % 20 == 0) { a.async_insert(ko, 1); a.async_insert(ko, 2); hc::out("ins " + hex(ko) + ":2"); }
          else { a.async_insert(ke, 1); a.async_erase(ke); }
        } else if constexpr (std::is_same_v<A, DMap>) {
          if (i % 20 == 0) { a.async_insert(ko, 1.0); a.async_insert(ko, 2.0); hc::out("ins " + hex(ko) + ":" + hex(bits_be(2.0))); }
          else { a.async_insert(ke, 1.0); a.async_erase(ke); }
        }
      }
    }
    if (flags & 2) world.barrier();
    a.serialize(fname);            // otherwise: the inserts above are still pending here
    if (fs::exists(fname + std::to_string(world.rank()))) hc::out("file " + hex(slurp(fname + std::to_string(world.rank()))));
    else hc::out("nofile");
    dump(a, "a");
    hc::out("cursor-expected " + std::to_string(my_inserts));
    world.cf_barrier();            // for_all = barrier + local iteration: nobody may issue anything new before everybody has iterated
    if (world.rank0()) {           // the names serialize created under the prefix
      std::vector<std::string> names;
      for (auto& e : fs::directory_iterator(tmpdir())) { std::string n = e.path().filename().string(); if (n.rfind("img.", 0) == 0) names.push_back(n); }
      std::sort(names.begin(), names.end());
      std::string l = "names"; for (auto& n : names) l += " " + hex(n); hc::out(l);
    }
    world.cf_barrier();
  }
  {
    B b(world);
    if (flags & 1) {               // the target holds unrelated content (and, for bags, an advanced cursor)
      hc::rng other(seed + 99 + world.rank());
      for (int i = 0; i < 5 + world.rank(); ++i) {
        insert_foreign(b, "old" + gen_str(other, 0));
      }
      world.barrier();
    }
    if (flags & 1024) {            // operations on the target that are STILL PENDING when deserialize is called (no barrier):
      hc::rng pr(seed + 4242 + 17 * (uint64_t)world.rank());   // fresh keys, and keys of the image with other values / extra increments
      for (int i = 0; i < 8; ++i)
        insert_foreign(b, (i % 2 && !pool.empty()) ? pool[pr.below(pool.size())] : "old-pending" + gen_str(pr, 0));
    }
    b.deserialize(fname);
    dump(b, "b");
    world.cf_barrier();
    // the extra member: default value (maps), round-robin cursor (bag), default count (counting_set)
    if constexpr (std::is_same_v<B, SMap> || std::is_same_v<B, SMMap>) hc::out("extra " + hex(b.default_value()));
    else if constexpr (std::is_same_v<B, CMap>) hc::out("extra " + std::to_string(b.default_value()));
    else if constexpr (std::is_same_v<B, DMap>) hc::out("extra " + hex(bits_be(b.default_value())));
    else if constexpr (std::is_same_v<B, SBag>) {
      b.async_insert("\x02marker" + std::to_string(world.rank()));   // lands on (cursor + rank) % size
      dump(b, "m");
    } else if constexpr (std::is_same_v<B, SCSet>) {
      b.async_insert("\x02marker" + std::to_string(world.rank()));   // new key: default + 1
      dump(b, "m");
    }
  }
  return 0;
}

// two counting_sets of one type alive on one communicator, BOTH with inserts still in their count cache when serialize /
// deserialize reach their barrier (flag 4096: the source fills its cache first, otherwise the target does)
static int run_cset2(ygm::comm& world, uint64_t seed, long nitems, int flags) {
  std::string fname = tmpdir() + "/img.";
  hc::rng mine(seed * 1000003ULL + 7919ULL * (uint64_t)world.rank() + 1);
  hc::rng shared(seed ^ 0x5eedULL);
  hc::rng pr(seed + 4242 + 17 * (uint64_t)world.rank());
  std::vector<std::string> pool;
  for (long i = 0; i < nitems; ++i) pool.push_back(gen_str(shared, flags));
  SCSet t(world);
  SCSet s(world);
  size_t my_inserts = 0;
  auto fill_t = [&](int k) { for (int i = 0; i < k; ++i) t.async_insert((i % 2 && !pool.empty()) ? pool[pr.below(pool.size())] : "old-pending" + gen_str(pr, 0)); };
  auto fill_s = [&]() {
    if (!(flags & 8) || world.rank0())
      for (long i = 0; i < nitems; ++i) { insert_one(s, mine.below(2) ? pool[mine.below(pool.size())] : gen_str(mine, flags), 0); ++my_inserts; }
  };
  if (flags & 4096) { fill_s(); fill_t(6); } else { fill_t(6); fill_s(); }
  s.serialize(fname);              // both caches are non-empty here
  if (fs::exists(fname + std::to_string(world.rank()))) hc::out("file " + hex(slurp(fname + std::to_string(world.rank()))));
  else hc::out("nofile");
  dump(s, "a");
  hc::out("cursor-expected " + std::to_string(my_inserts));
  world.cf_barrier();
  if (world.rank0()) {
    std::vector<std::string> names;
    for (auto& e : fs::directory_iterator(tmpdir())) { std::string n = e.path().filename().string(); if (n.rfind("img.", 0) == 0) names.push_back(n); }
    std::sort(names.begin(), names.end());
    std::string l = "names"; for (auto& n : names) l += " " + hex(n); hc::out(l);
  }
  world.cf_barrier();
  // again both caches non-empty, this time at deserialize's barrier
  if (flags & 4096) { s.async_insert("\x03late" + std::to_string(world.rank())); fill_t(4); } else { fill_t(4); s.async_insert("\x03late" + std::to_string(world.rank())); }
  t.deserialize(fname);
  dump(t, "b");
  world.cf_barrier();
  // both containers must keep counting: one more insert per rank into each
  t.async_insert("\x02marker" + std::to_string(world.rank()));
  s.async_insert("\x02marker" + std::to_string(world.rank()));
  dump(t, "m");
  world.cf_barrier();
  dump(s, "ms");
  world.cf_barrier();
  return 0;
}

static int run_ser(ygm::comm& world, int argc, char** argv) {
  std::string kind = argv[2]; uint64_t seed = strtoull(argv[3], 0, 10); long n = atol(argv[4]); int flags = atoi(argv[5]);
  std::string dv = (flags & 16) ? std::string("d\"v\\\x01\xff") : std::string();
  if (kind == "map") return (flags & 16) ? run_ser_t<SMap, SMap>(world, seed, n, flags, dv) : run_ser_t<SMap, SMap>(world, seed, n, flags);
  if (kind == "multimap") return (flags & 16) ? run_ser_t<SMMap, SMMap>(world, seed, n, flags, dv) : run_ser_t<SMMap, SMMap>(world, seed, n, flags);
  if (kind == "set") return run_ser_t<SSet, SSet>(world, seed, n, flags);
  if (kind == "multiset") return run_ser_t<SMSet, SMSet>(world, seed, n, flags);
  if (kind == "bag") return run_ser_t<SBag, SBag>(world, seed, n, flags);
  if (kind == "cset") return run_ser_t<SCSet, SCSet>(world, seed, n, flags);
  if (kind == "cset2") return run_cset2(world, seed, n, flags);
  // large counts: written by a map<string,size_t> (same map_impl image), read by a counting_set
  if (kind == "bagd") return run_ser_t<DBag, DBag>(world, seed, n, flags);
  if (kind == "bagpd") return run_ser_t<PBag, PBag>(world, seed, n, flags);
  if (kind == "mapd") return (flags & 16) ? run_ser_t<DMap, DMap>(world, seed, n, flags, 0.1) : run_ser_t<DMap, DMap>(world, seed, n, flags);
  if (kind == "mapcount") return (flags & 16) ? run_ser_t<CMap, SCSet>(world, seed, n, flags, (size_t)5) : run_ser_t<CMap, SCSet>(world, seed, n, flags);
  return 2;
}

// observation only (not part of the property): serialize has no barrier AFTER the write, so an operation issued by a
// rank that has already returned from serialize can still reach the image of a rank that is slower to leave the barrier
static int run_leak(ygm::comm& world, int argc, char** argv) {
  std::string fname = tmpdir() + "/leak.";
  SBag a(world);
  for (int i = 0; i < 3; ++i) a.async_insert("pre" + std::to_string(world.rank()) + "." + std::to_string(i));
  a.serialize(fname);
  if (world.rank0()) for (int d = 1; d < world.size(); ++d) a.async_insert("POST", d);
  std::string img = slurp(fname + std::to_string(world.rank()));
  hc::out(std::string("image-has-post ") + (img.find("POST") != std::string::npos ? "1" : "0"));
  world.barrier();
  return 0;
}

static int run_tok(ygm::comm& world, int argc, char** argv) {
  for (int i = 2; i < argc; ++i) {
    std::string tok = unhex(argv[i]);
    std::stringstream ss; ss << "{\"value0\": " << tok << "}";
    try {
      cereal::JSONInputArchive ia(ss);
      std::string s; ia(s);
      hc::out("ok " + hex(s));
    } catch (const std::exception& e) { hc::out("err"); }
  }
  return 0;
}

extern "C" int sim_main(int argc, char** argv) {
  ygm::comm world(MPI_COMM_WORLD);
  hc::open_out(world.rank());
  std::string mode = argc > 1 ? argv[1] : "";
  if (mode == "mo") return run_mo(world, argc, argv);
  if (mode == "day") return run_day(world, argc, argv);
  if (mode == "mo2") return run_mo2(world, argc, argv);
  if (mode == "many") return run_many(world, argc, argv);
  if (mode == "ser") return run_ser(world, argc, argv);
  if (mode == "tok") return run_tok(world, argc, argv);
  if (mode == "leak") return run_leak(world, argc, argv);
  return 2;
}
