import YgmVerif.Model.Bcast
import YgmVerif.Lemmas.Router
/-! Helper lemmas for the broadcast fan-out model: the C remainder fix-up, the layered
partner loop (`break` = filter on an increasing list), membership characterisations of
the three stages and their duplicate-freeness. -/
namespace YgmVerif.Bcast
open YgmVerif.Router

/-! ### arithmetic -/

theorem mod_add_right_cancel {x y a p : Nat} (hx : x < p) (hy : y < p)
    (h : (x + a) % p = (y + a) % p) : x = y := by
  rcases Nat.le_total x y with hxy | hxy
  · have h0 := Nat.sub_mod_eq_zero_of_mod_eq h.symm
    have e : y + a - (x + a) = y - x := by omega
    rw [e, Nat.mod_eq_of_lt (by omega)] at h0
    omega
  · have h0 := Nat.sub_mod_eq_zero_of_mod_eq h
    have e : x + a - (y + a) = x - y := by omega
    rw [e, Nat.mod_eq_of_lt (by omega)] at h0
    omega

/-- the C expression `(local_id - node_id) % local_size` with the negative fix-up, in `Nat` -/
theorem offsetOf_eq (p l a : Nat) :
    offsetOf p l a =
      if a ≤ l then (l - a) % p
      else if (a - l) % p = 0 then 0 else p - (a - l) % p := by
  unfold offsetOf
  by_cases h : a ≤ l
  · rw [if_pos h]
    have e : (l : Int) - (a : Int) = ((l - a : Nat) : Int) := by omega
    simp only [e, ← Int.ofNat_tmod]
    have : ¬ (((l - a) % p : Nat) : Int) < 0 := by omega
    rw [if_neg this]; rfl
  · rw [if_neg h]
    have e : (l : Int) - (a : Int) = -((a - l : Nat) : Int) := by omega
    simp only [e, Int.neg_tmod, ← Int.ofNat_tmod]
    by_cases hm : (a - l) % p = 0
    · rw [if_pos hm, hm]; simp
    · rw [if_neg hm]
      have : -(((a - l) % p : Nat) : Int) < 0 := by omega
      rw [if_pos this]; omega

/-- what the offset is for: it is a node index class `< p` with
`(offset + my node) ≡ my on-node index (mod p)` -/
theorem offsetOf_spec {p : Nat} (hp : 0 < p) {l : Nat} (hl : l < p) (a : Nat) :
    offsetOf p l a < p ∧ (offsetOf p l a + a) % p = l := by
  rw [offsetOf_eq]
  by_cases h : a ≤ l
  · rw [if_pos h]
    refine ⟨Nat.mod_lt _ hp, ?_⟩
    rw [Nat.mod_add_mod, Nat.sub_add_cancel h, Nat.mod_eq_of_lt hl]
  · rw [if_neg h]
    have hk := Nat.div_add_mod (a - l) p
    have hm := Nat.mod_lt (a - l) hp
    by_cases hz : (a - l) % p = 0
    · rw [if_pos hz]
      refine ⟨hp, ?_⟩
      have : 0 + a = l + p * ((a - l) / p) := by omega
      rw [this, Nat.add_mul_mod_self_left, Nat.mod_eq_of_lt hl]
    · rw [if_neg hz]
      refine ⟨by omega, ?_⟩
      have : p - (a - l) % p + a = l + p * ((a - l) / p + 1) := by
        rw [Nat.mul_add, Nat.mul_one]; omega
      rw [this, Nat.add_mul_mod_self_left, Nat.mod_eq_of_lt hl]

theorem partnerOffset_eq (p r : Nat) :
    partnerOffset p r =
      if node p r ≤ loc p r then (loc p r - node p r) % p
      else if (node p r - loc p r) % p = 0 then 0 else p - (node p r - loc p r) % p :=
  offsetOf_eq p (loc p r) (node p r)

theorem partnerOffset_spec {p : Nat} (hp : 0 < p) (r : Nat) :
    partnerOffset p r < p ∧ (partnerOffset p r + node p r) % p = loc p r :=
  offsetOf_spec hp (loc_lt hp r) (node p r)

/-- on a list sorted by `≤`, leaving the loop at the first element `≥ n` keeps exactly
the elements `< n` -/
theorem takeWhile_lt_eq_filter (n : Nat) :
    ∀ (l : List Nat), l.Pairwise (· ≤ ·) →
      l.takeWhile (fun c => decide (c < n)) = l.filter (fun c => decide (c < n))
  | [], _ => rfl
  | x :: xs, h => by
    rw [List.pairwise_cons] at h
    by_cases hx : x < n
    · rw [List.takeWhile_cons_of_pos (by simpa using hx), List.filter_cons_of_pos (by simpa using hx),
        takeWhile_lt_eq_filter n xs h.2]
    · rw [List.takeWhile_cons_of_neg (by simpa using hx), List.filter_cons_of_neg (by simpa using hx)]
      symm; rw [List.filter_eq_nil_iff]
      intro y hy; have := h.1 y hy; simp; omega

/-! ### stage 2: the layered partner loop -/

theorem candidates_pairwise_lt {p : Nat} (hp : 0 < p) (N r : Nat) :
    (layerCandidates N p r).Pairwise (· < ·) := by
  unfold layerCandidates
  rw [List.pairwise_map]
  exact List.pairwise_lt_range.imp
    (fun h => Nat.add_lt_add_left (Nat.mul_lt_mul_of_pos_right h hp) _)

/-- the `break` keeps exactly the partner nodes `< N` -/
theorem remotePartners_eq {p : Nat} (hp : 0 < p) (N r : Nat) :
    remotePartners N p r =
      (((layerCandidates N p r).filter (fun b => decide (b < N))).map (strided p r)).filter
        (fun c => !isLocal p r c) := by
  unfold remotePartners
  rw [takeWhile_lt_eq_filter _ _ ((candidates_pairwise_lt hp N r).imp Nat.le_of_lt)]

theorem div_lt_numLayers {N p b : Nat} (hp : 0 < p) (hb : b < N) : b / p < numLayers N p := by
  unfold numLayers
  have hle : b / p ≤ N / p := Nat.div_le_div_right (Nat.le_of_lt hb)
  by_cases hz : N % p > 0
  · rw [if_pos hz]; omega
  · rw [if_neg hz]
    have hN := Nat.div_add_mod N p
    have : b < N / p * p := by rw [Nat.mul_comm]; omega
    have := (Nat.div_lt_iff_lt_mul hp).2 this
    omega

/-- stage-2 destinations of `r`: the ranks with `r`'s on-node index on every *other* node
`b < N` with `(b + node r) ≡ loc r (mod p)` -/
theorem mem_remotePartners {p : Nat} (hp : 0 < p) (N r q : Nat) :
    q ∈ remotePartners N p r ↔
      q < N * p ∧ node p q ≠ node p r ∧ loc p q = loc p r ∧
        (node p q + node p r) % p = loc p r := by
  have hj := loc_lt hp r
  obtain ⟨hoff, hspec⟩ := partnerOffset_spec hp r
  rw [remotePartners_eq hp]
  constructor
  · intro h
    rw [List.mem_filter, List.mem_map] at h
    obtain ⟨⟨b, hb, rfl⟩, hc⟩ := h
    rw [List.mem_filter] at hb
    obtain ⟨hm, hbN⟩ := hb
    unfold layerCandidates at hm
    rw [List.mem_map] at hm
    obtain ⟨l, _, rfl⟩ := hm
    simp only [decide_eq_true_eq] at hbN
    simp only [Bool.not_eq_true', isLocal, beq_eq_false_iff_ne, ne_eq] at hc
    unfold strided at hc ⊢
    rw [node_mk hj] at hc
    rw [node_mk hj, loc_mk hj]
    refine ⟨mk_lt hbN hj, fun e => hc e.symm, rfl, ?_⟩
    have : partnerOffset p r + l * p + node p r = (partnerOffset p r + node p r) + l * p := by omega
    rw [this, Nat.add_mul_mod_self_right, hspec]
  · rintro ⟨hq, hne, hl, hm⟩
    have hb := node_lt hq
    -- the node of `q` is in the residue class of the offset
    have hres : node p q % p = partnerOffset p r := by
      apply mod_add_right_cancel (a := node p r) (Nat.mod_lt _ hp) hoff
      rw [Nat.mod_add_mod, hm, hspec]
    have hdm := Nat.div_add_mod (node p q) p
    rw [List.mem_filter, List.mem_map]
    refine ⟨⟨node p q, ?_, ?_⟩, ?_⟩
    · rw [List.mem_filter]
      refine ⟨?_, by simpa using hb⟩
      unfold layerCandidates
      rw [List.mem_map]
      refine ⟨node p q / p, List.mem_range.2 (div_lt_numLayers hp hb), ?_⟩
      rw [Nat.mul_comm]; omega
    · unfold strided
      rw [← hl]; exact mk_node_loc p q
    · simp only [Bool.not_eq_true', isLocal, beq_eq_false_iff_ne, ne_eq]
      exact fun e => hne e.symm

theorem remotePartners_nodup {p : Nat} (hp : 0 < p) (N r : Nat) : (remotePartners N p r).Nodup := by
  rw [remotePartners_eq hp]
  refine List.Pairwise.sublist List.filter_sublist ?_
  rw [List.pairwise_map]
  refine ((candidates_pairwise_lt hp N r).sublist List.filter_sublist).imp ?_
  intro a b hab e
  unfold strided mk at e
  have := Nat.mul_lt_mul_of_pos_right hab hp
  omega

/-- for the block placement the repaired loop (lookup by partner node) and the loop before the repair (rank
arithmetic `+= local_size²`, `break` on the rank) compute the same partners in the same order -/
theorem remotePartners_eq_old {p : Nat} (hp : 0 < p) (N r : Nat) :
    remotePartners N p r = remotePartnersOld N p r := by
  have hj := loc_lt hp r
  unfold remotePartnersOld
  split
  · unfold remotePartners
    have e1 : (List.range (numLayers N p)).map (fun l => strided p r (partnerOffset p r) + l * (p * p))
        = (layerCandidates N p r).map (strided p r) := by
      unfold layerCandidates
      rw [List.map_map]
      apply List.map_congr_left
      intro l _
      simp only [Function.comp, strided, mk]
      rw [Nat.add_mul, Nat.mul_assoc]; omega
    have e2 : ((fun c => decide (c < N * p)) ∘ strided p r) = (fun b => decide (b < N)) := by
      funext b
      simp only [Function.comp, strided]
      apply decide_eq_decide.2
      constructor
      · intro h
        have := node_lt h
        rwa [node_mk hj] at this
      · intro h; exact mk_lt h hj
    rw [e1, List.takeWhile_map, e2]
  · rename_i hoff
    rw [remotePartners_eq hp]
    have : (layerCandidates N p r).filter (fun b => decide (b < N)) = [] := by
      rw [List.filter_eq_nil_iff]
      intro b hb
      unfold layerCandidates at hb
      rw [List.mem_map] at hb
      obtain ⟨l, _, rfl⟩ := hb
      simp; omega
    rw [this]; rfl

/-! ### on-node tables -/

theorem mem_localTable {p : Nat} (hp : 0 < p) (r t : Nat) :
    t ∈ localTable p r ↔ node p t = node p r := by
  unfold localTable localRank
  rw [List.mem_map]
  constructor
  · rintro ⟨j, hj, rfl⟩; exact node_mk (List.mem_range.1 hj)
  · intro h
    exact ⟨loc p t, List.mem_range.2 (loc_lt hp t), by rw [← h]; exact mk_node_loc p t⟩

theorem localTable_nodup (p r : Nat) : (localTable p r).Nodup := by
  unfold localTable localRank
  rw [List.Nodup, List.pairwise_map]
  exact List.nodup_range.imp (fun h => by unfold mk; omega)

theorem mem_localOthers {p : Nat} (hp : 0 < p) (q t : Nat) :
    t ∈ localOthers p q ↔ node p t = node p q ∧ t ≠ q := by
  unfold localOthers
  rw [List.mem_filter, mem_localTable hp]
  simp

theorem localOthers_nodup (p q : Nat) : (localOthers p q).Nodup :=
  (localTable_nodup p q).sublist List.filter_sublist

/-! ### the executing ranks, stage by stage -/

/-- receivers of stage-2 legs -/
def exec2 (N p o : Nat) : List Nat := (localTable p o).flatMap (remotePartners N p)
/-- receivers of stage-3 legs -/
def exec3 (N p o : Nat) : List Nat := (exec2 N p o).flatMap (localOthers p)

theorem stage1_dst (p o : Nat) : (stage1 p o).map Leg.dst = localTable p o := by
  unfold stage1
  rw [List.map_map]
  simp [Function.comp_def, Leg.dst]

theorem stage2_dst (N p o : Nat) : (stage2 N p o).map Leg.dst = exec2 N p o := by
  unfold stage2 exec2
  rw [List.map_flatMap, ← stage1_dst p o, List.flatMap_map]
  congr 1; funext g
  rw [List.map_map]
  simp [Function.comp_def, Leg.dst]

theorem stage3_dst (N p o : Nat) : (stage3 N p o).map Leg.dst = exec3 N p o := by
  unfold stage3 exec3
  rw [List.map_flatMap, ← stage2_dst N p o, List.flatMap_map]
  congr 1; funext g
  rw [List.map_map]
  simp [Function.comp_def, Leg.dst]

theorem bcastExec_eq (N p o : Nat) :
    bcastExec N p o = localTable p o ++ exec2 N p o ++ exec3 N p o := by
  unfold bcastExec bcastLegs
  rw [List.map_append, List.map_append, stage1_dst, stage2_dst, stage3_dst]

/-- stage 2 reaches, on every other node `b`, exactly the rank with on-node index
`(b + origin's node) % p` -/
theorem mem_exec2 {p : Nat} (hp : 0 < p) (N o q : Nat) :
    q ∈ exec2 N p o ↔
      q < N * p ∧ node p q ≠ node p o ∧ (node p q + node p o) % p = loc p q := by
  unfold exec2
  rw [List.mem_flatMap]
  constructor
  · rintro ⟨r, hr, hq⟩
    rw [mem_localTable hp] at hr
    rw [mem_remotePartners hp] at hq
    obtain ⟨h1, h2, h3, h4⟩ := hq
    rw [hr] at h2 h4
    exact ⟨h1, h2, by rw [h4, h3]⟩
  · rintro ⟨h1, h2, h3⟩
    have hl := loc_lt hp q
    refine ⟨mk p (node p o) (loc p q), (mem_localTable hp _ _).2 (node_mk hl), ?_⟩
    rw [mem_remotePartners hp, node_mk hl, loc_mk hl]
    exact ⟨h1, h2, rfl, h3⟩

/-- stage 3 reaches, on every other node, exactly the remaining ranks -/
theorem mem_exec3 {p : Nat} (hp : 0 < p) (N o t : Nat) :
    t ∈ exec3 N p o ↔
      t < N * p ∧ node p t ≠ node p o ∧ (node p t + node p o) % p ≠ loc p t := by
  unfold exec3
  rw [List.mem_flatMap]
  constructor
  · rintro ⟨q, hq, ht⟩
    rw [mem_exec2 hp] at hq
    rw [mem_localOthers hp] at ht
    obtain ⟨h1, h2, h3⟩ := hq
    obtain ⟨hn, hne⟩ := ht
    refine ⟨?_, by rw [hn]; exact h2, ?_⟩
    · rw [← mk_node_loc p t, hn]; exact mk_lt (node_lt h1) (loc_lt hp t)
    · intro e
      rw [hn, h3] at e
      exact hne (rank_ext hn e.symm)
  · rintro ⟨h1, h2, h3⟩
    have hc : (node p t + node p o) % p < p := Nat.mod_lt _ hp
    refine ⟨mk p (node p t) ((node p t + node p o) % p), ?_, ?_⟩
    · rw [mem_exec2 hp, node_mk hc, loc_mk hc]
      exact ⟨mk_lt (node_lt h1) hc, h2, rfl⟩
    · rw [mem_localOthers hp, node_mk hc]
      refine ⟨rfl, fun e => h3 ?_⟩
      have := congrArg (loc p) e
      rw [loc_mk hc] at this
      exact this.symm

theorem exec2_nodup {p : Nat} (hp : 0 < p) (N o : Nat) : (exec2 N p o).Nodup := by
  unfold exec2
  rw [List.Nodup, List.pairwise_flatMap]
  refine ⟨fun r _ => remotePartners_nodup hp N r, ?_⟩
  unfold localTable
  rw [List.pairwise_map]
  refine List.Pairwise.imp_of_mem ?_ List.nodup_range
  intro j1 j2 h1 h2 hne x hx y hy e
  subst e
  have a1 := ((mem_remotePartners hp N _ x).1 hx).2.2.1
  have a2 := ((mem_remotePartners hp N _ x).1 hy).2.2.1
  unfold localRank at a1 a2
  rw [loc_mk (List.mem_range.1 h1)] at a1
  rw [loc_mk (List.mem_range.1 h2)] at a2
  exact hne (a1.symm.trans a2)

theorem exec3_nodup {p : Nat} (hp : 0 < p) (N o : Nat) : (exec3 N p o).Nodup := by
  unfold exec3
  rw [List.Nodup, List.pairwise_flatMap]
  refine ⟨fun q _ => localOthers_nodup p q, ?_⟩
  refine List.Pairwise.imp_of_mem ?_ (exec2_nodup hp N o)
  intro q1 q2 h1 h2 hne x hx y hy e
  subst e
  have n1 := ((mem_localOthers hp q1 x).1 hx).1
  have n2 := ((mem_localOthers hp q2 x).1 hy).1
  have e1 := ((mem_exec2 hp N o q1).1 h1).2.2
  have e2 := ((mem_exec2 hp N o q2).1 h2).2.2
  have hn : node p q1 = node p q2 := n1.symm.trans n2
  apply hne
  apply rank_ext hn
  rw [← e1, ← e2, hn]

theorem bcastExec_nodup {p : Nat} (hp : 0 < p) (N o : Nat) : (bcastExec N p o).Nodup := by
  rw [bcastExec_eq, List.nodup_append, List.nodup_append]
  refine ⟨⟨localTable_nodup p o, exec2_nodup hp N o, ?_⟩, exec3_nodup hp N o, ?_⟩
  · intro x hx y hy e
    subst e
    exact ((mem_exec2 hp N o x).1 hy).2.1 ((mem_localTable hp o x).1 hx)
  · intro x hx y hy e
    subst e
    have h3 := (mem_exec3 hp N o x).1 hy
    rcases List.mem_append.1 hx with h | h
    · exact h3.2.1 ((mem_localTable hp o x).1 h)
    · exact h3.2.2 ((mem_exec2 hp N o x).1 h).2.2

/-- the executing ranks are exactly the ranks of the communicator -/
theorem mem_bcastExec {N p o : Nat} (ho : o < N * p) (r : Nat) :
    r ∈ bcastExec N p o ↔ r < N * p := by
  have hp := pos_of_lt_mul ho
  rw [bcastExec_eq, List.mem_append, List.mem_append, mem_localTable hp, mem_exec2 hp, mem_exec3 hp]
  constructor
  · rintro ((h | h) | h)
    · rw [← mk_node_loc p r, h]; exact mk_lt (node_lt ho) (loc_lt hp r)
    · exact h.1
    · exact h.1
  · intro hr
    by_cases h : node p r = node p o
    · exact Or.inl (Or.inl h)
    · by_cases hc : (node p r + node p o) % p = loc p r
      · exact Or.inl (Or.inr ⟨hr, h, hc⟩)
      · exact Or.inr ⟨hr, h, hc⟩

end YgmVerif.Bcast
