import YgmVerif.Model.Flush
/-!
# A deterministic driver of the flush loop and its termination measure

`Model/Flush.lean` is a labelled small-step model of `comm::flush_all_local_and_process_incoming`; its `step`
says which transitions the (repaired) code MAY take.  Here the code's own control flow is made a function:
`adv env cbEff fb` executes, from a driver state, the unique label the loop would execute next, against

* `env i s`     — what the `i`-th call of `process_receive_queue` does when made in state `s`,
* `cbEff j s`   — the effect (callbacks, unsent bytes, posted sends afterwards) of the `j`-th pre-barrier callback,
* `fb s`        — the size of the front buffer of the destination queue (the bytes one `flush_send_buffer` removes).

The driver state adds three counters to `St`: polls made (`np`), callbacks run (`nc`) and the polls still owed by
the last flush of loop C (`owe`): in the real code each iteration of loop C is `flush_send_buffer(dest)` — which
itself polls once — followed by an explicit `process_receive_queue()`, i.e. flushC, pollC, pollC.

Proved here:
* `next_step` / `run_labels`: every driver step is a `step` of the model (given polls satisfying `WF` and the return rule);
* `measure_adv`: once the environment is quiet and the callbacks tame, every driver step strictly decreases `measure`;
* `iter_done_of_measure_le`: hence the driver is at `Done` after `measure` steps.
-/
namespace YgmVerif.Flush

/-- driver state: the loop state, the number of polls made, of callbacks run, and the polls loop C still owes -/
structure DSt where
  st : St
  np : Nat
  nc : Nat
  owe : Nat
  deriving DecidableEq, Repr

def dstart (c u q : Nat) : DSt := { st := start c u q, np := 0, nc := 0, owe := 0 }

section driver
variable (env : Nat → St → Poll) (cbEff : Nat → St → Nat × Nat × Nat) (fb : St → Nat)

/-- the label the code executes next (none: the loop has returned) -/
def next (d : DSt) : Option Label :=
  match d.st.pc with
  | .A => some (.pollA (env d.np d.st))
  | .B => if 0 < d.st.cbs then some (.cb (cbEff d.nc d.st).1 (cbEff d.nc d.st).2.1 (cbEff d.nc d.st).2.2) else some .endB
  | .C => if 0 < d.owe then some (.pollC (env d.np d.st))
          else if 0 < d.st.ub then some (.flushC (fb d.st)) else some .endC
  | .D => if 0 < d.st.sq then some (.pollD (env d.np d.st)) else some .endD
  | .Done => none

/-- one step of the driver (defined independently of `step`; `next_step` relates the two) -/
def adv (d : DSt) : DSt :=
  match d.st.pc with
  | .A => { d with st := { apply d.st (env d.np d.st) with pc := .B, did := (env d.np d.st).ret }, np := d.np + 1 }
  | .B => if 0 < d.st.cbs then
            { d with st := { d.st with did := true, cbs := (cbEff d.nc d.st).1, ub := (cbEff d.nc d.st).2.1,
                                       sq := (cbEff d.nc d.st).2.2 }, nc := d.nc + 1 }
          else { d with st := { d.st with pc := .C } }
  | .C => if 0 < d.owe then { d with st := apply d.st (env d.np d.st), np := d.np + 1, owe := d.owe - 1 }
          else if 0 < d.st.ub then
            { d with st := { d.st with did := true, ub := d.st.ub - fb d.st, sq := d.st.sq + 1 }, owe := 2 }
          else { d with st := { d.st with pc := .D } }
  | .D => if 0 < d.st.sq then
            { d with st := { apply d.st (env d.np d.st) with did := d.st.did || (env d.np d.st).ret }, np := d.np + 1 }
          else { d with st := { d.st with pc := if d.st.did then .A else .Done } }
  | .Done => d

def iter : Nat → DSt → DSt
  | 0, d => d
  | n + 1, d => iter n (adv env cbEff fb d)

/-- the labels of the first `n` driver steps (shorter if the loop returns earlier) -/
def labels : Nat → DSt → List Label
  | 0, _ => []
  | n + 1, d => match next env cbEff fb d with
    | none => []
    | some l => l :: labels n (adv env cbEff fb d)

end driver

/-! ## hypotheses on the environment -/

/-- every poll is a legal poll of the repaired code: `WF` and the return-value rule -/
def EnvOK (env : Nat → St → Poll) : Prop :=
  ∀ i s, WF s (env i s) = true ∧ (env i s).ret = (env i s).recvd

/-- the front buffer of a non-empty destination queue is non-empty and part of the unsent bytes -/
def FlushOK (fb : St → Nat) : Prop := ∀ s, 0 < s.ub → 0 < fb s ∧ fb s ≤ s.ub

/-- **the environment is quiet from poll `K` on**: a poll receives nothing (so it runs no handler: callbacks and
unsent bytes unchanged, no new posted send, returns false), and a poll of the wait loop D — the only place where
the loop waits for MPI — completes at least one posted send. -/
def QuietFrom (K : Nat) (env : Nat → St → Poll) : Prop :=
  ∀ i s, K ≤ i →
    (env i s).recvd = false ∧ (env i s).ret = false ∧ (env i s).cbs = s.cbs ∧ (env i s).ub = s.ub ∧
    (env i s).sq ≤ s.sq ∧ (s.pc = .D → 0 < s.sq → (env i s).sq < s.sq)

/-- the literal (stronger) form: EVERY quiet poll made while sends are posted completes one -/
def QuietFromStrong (K : Nat) (env : Nat → St → Poll) : Prop :=
  ∀ i s, K ≤ i →
    (env i s).recvd = false ∧ (env i s).ret = false ∧ (env i s).cbs = s.cbs ∧ (env i s).ub = s.ub ∧
    (0 < s.sq → (env i s).sq < s.sq) ∧ (s.sq = 0 → (env i s).sq = 0)

theorem QuietFromStrong.weaken {K : Nat} {env : Nat → St → Poll} (h : QuietFromStrong K env) : QuietFrom K env := by
  intro i s hi
  obtain ⟨h1, h2, h3, h4, h5, h6⟩ := h i s hi
  refine ⟨h1, h2, h3, h4, ?_, fun _ hq => h5 hq⟩
  by_cases hq : 0 < s.sq
  · exact Nat.le_of_lt (h5 hq)
  · have : s.sq = 0 := by omega
    rw [h6 this]; omega

/-- a quiet poll is a legal poll -/
theorem QuietFrom.envOK_from {K : Nat} {env : Nat → St → Poll} (h : QuietFrom K env) (i : Nat) (s : St) (hi : K ≤ i) :
    WF s (env i s) = true ∧ (env i s).ret = (env i s).recvd := by
  obtain ⟨h1, h2, h3, h4, h5, _⟩ := h i s hi
  refine ⟨?_, by rw [h1, h2]⟩
  simp [WF, h1, h3, h4, h5]

/-- **the callbacks are tame from callback `J` on**: the callback that runs is consumed and registers no new one
(`cbs` strictly decreases); it may buffer up to `U` new bytes and post up to `Q` new sends (which the loop then has
to flush and wait for).  Its own flushes/polls may also decrease `ub` and `sq` arbitrarily. -/
def CbTame (J U Q : Nat) (cbEff : Nat → St → Nat × Nat × Nat) : Prop :=
  ∀ j s, J ≤ j → 0 < s.cbs →
    (cbEff j s).1 < s.cbs ∧ (cbEff j s).2.1 ≤ s.ub + U ∧ (cbEff j s).2.2 ≤ s.sq + Q

/-- driver-state invariant needed for soundness: polls are owed only inside loop C, after a flush (which set `did`) -/
def DOk (d : DSt) : Prop := 0 < d.owe → d.st.pc = .C ∧ d.st.did = true

theorem dOk_dstart (c u q : Nat) : DOk (dstart c u q) := by
  intro h; simp [dstart] at h

section lemmas
variable {env : Nat → St → Poll} {cbEff : Nat → St → Nat × Nat × Nat} {fb : St → Nat}

theorem dOk_adv (d : DSt) (h : DOk d) : DOk (adv env cbEff fb d) := by
  obtain ⟨⟨pc, did, c, u, q⟩, np, nc, o⟩ := d
  simp only [DOk] at h ⊢
  cases pc
  · -- A
    intro ho; simp only [adv] at ho
    have := (h ho).1; simp at this
  · -- B
    simp only [adv]; split
    · intro ho; have := (h ho).1; simp at this
    · intro ho; have := (h ho).1; simp at this
  · -- C
    simp only [adv]; split
    · rename_i ho; intro _; have := h ho; simp_all [apply]
    · split
      · intro _; simp
      · intro ho; simp_all
  · -- D
    simp only [adv]; split
    · intro ho; have := (h ho).1; simp at this
    · intro ho; have := (h ho).1; simp at this
  · simpa [adv] using h

theorem dOk_iter (n : Nat) (d : DSt) (h : DOk d) : DOk (iter env cbEff fb n d) := by
  induction n generalizing d with
  | zero => exact h
  | succ n ih => exact ih _ (dOk_adv d h)

@[simp] theorem adv_done (d : DSt) (h : d.st.pc = .Done) : adv env cbEff fb d = d := by
  obtain ⟨⟨pc, did, c, u, q⟩, np, nc, o⟩ := d
  simp only at h; subst h; rfl

theorem iter_done (n : Nat) (d : DSt) (h : d.st.pc = .Done) : iter env cbEff fb n d = d := by
  induction n with
  | zero => rfl
  | succ n ih => simp only [iter, adv_done d h, ih]

theorem iter_add (m n : Nat) (d : DSt) :
    iter env cbEff fb (m + n) d = iter env cbEff fb n (iter env cbEff fb m d) := by
  induction m generalizing d with
  | zero => simp [iter]
  | succ m ih => rw [Nat.succ_add]; simp only [iter]; exact ih _

theorem next_none_iff (d : DSt) : next env cbEff fb d = none ↔ d.st.pc = .Done := by
  obtain ⟨⟨pc, did, c, u, q⟩, np, nc, o⟩ := d
  cases pc <;> simp [next] <;> (repeat' split) <;> simp

/-- the counters never decrease -/
theorem np_adv (d : DSt) : d.np ≤ (adv env cbEff fb d).np := by
  obtain ⟨⟨pc, did, c, u, q⟩, np, nc, o⟩ := d
  cases pc <;> simp only [adv] <;> (repeat' split) <;> simp

theorem nc_adv (d : DSt) : d.nc ≤ (adv env cbEff fb d).nc := by
  obtain ⟨⟨pc, did, c, u, q⟩, np, nc, o⟩ := d
  cases pc <;> simp only [adv] <;> (repeat' split) <;> simp

theorem np_iter (n : Nat) (d : DSt) : d.np ≤ (iter env cbEff fb n d).np := by
  induction n generalizing d with
  | zero => exact Nat.le_refl _
  | succ n ih => exact Nat.le_trans (np_adv d) (ih _)

theorem nc_iter (n : Nat) (d : DSt) : d.nc ≤ (iter env cbEff fb n d).nc := by
  induction n generalizing d with
  | zero => exact Nat.le_refl _
  | succ n ih => exact Nat.le_trans (nc_adv d) (ih _)

/-! ## soundness: the driver only takes steps of the model -/

/-- the hypotheses on the polls are only needed for the polls the driver still has to make -/
def EnvOKFrom (K : Nat) (env : Nat → St → Poll) : Prop :=
  ∀ i s, K ≤ i → WF s (env i s) = true ∧ (env i s).ret = (env i s).recvd

theorem EnvOK.from {env : Nat → St → Poll} (h : EnvOK env) (K : Nat) : EnvOKFrom K env := fun i s _ => h i s

/-- **every driver step is accepted by `step`** -/
theorem next_step (henv : EnvOKFrom d.np env) (hfb : FlushOK fb) (hok : DOk d) (hnd : d.st.pc ≠ .Done) :
    ∃ l, next env cbEff fb d = some l ∧ step d.st l = some (adv env cbEff fb d).st := by
  obtain ⟨⟨pc, did, c, u, q⟩, np, nc, o⟩ := d
  have he := henv np ⟨pc, did, c, u, q⟩ (Nat.le_refl _)
  cases pc
  · -- A
    refine ⟨_, rfl, ?_⟩
    simp [step, stepWith, adv, he.1, he.2]
  · -- B
    by_cases hc : 0 < c
    · refine ⟨.cb (cbEff nc ⟨.B, did, c, u, q⟩).1 (cbEff nc ⟨.B, did, c, u, q⟩).2.1 (cbEff nc ⟨.B, did, c, u, q⟩).2.2, by simp [next, hc], ?_⟩
      simp [step, stepWith, adv, hc]
    · refine ⟨.endB, by simp [next, hc], ?_⟩
      have : c = 0 := by omega
      simp [step, stepWith, adv, this]
  · -- C
    by_cases ho : 0 < o
    · have hd := (hok ho).2
      simp only at hd
      subst hd
      refine ⟨.pollC (env np ⟨.C, true, c, u, q⟩), by simp [next, ho], ?_⟩
      simp [step, stepWith, adv, ho, he.1, he.2]
    · by_cases hu : 0 < u
      · have := hfb ⟨.C, did, c, u, q⟩ hu
        refine ⟨.flushC (fb ⟨.C, did, c, u, q⟩), by simp [next, ho, hu], ?_⟩
        simp only at this
        simp [step, stepWith, adv, ho, hu, this.1, this.2]
      · refine ⟨.endC, by simp [next, ho, hu], ?_⟩
        have : u = 0 := by omega
        simp [step, stepWith, adv, ho, this]
  · -- D
    by_cases hq : 0 < q
    · refine ⟨.pollD (env np ⟨.D, did, c, u, q⟩), by simp [next, hq], ?_⟩
      simp [step, stepWith, adv, hq, he.1, he.2]
    · refine ⟨.endD, by simp [next, hq], ?_⟩
      have : q = 0 := by omega
      simp [step, stepWith, adv, this]
  · exact absurd rfl hnd

/-- the first `n` driver steps form a history accepted by the model -/
theorem run_labels (hfb : FlushOK fb) (n : Nat) (d : DSt) (henv : EnvOKFrom d.np env) (hok : DOk d) :
    run d.st (labels env cbEff fb n d) = some (iter env cbEff fb n d).st := by
  induction n generalizing d with
  | zero => rfl
  | succ n ih =>
    by_cases hnd : d.st.pc = .Done
    · have hn : next env cbEff fb d = none := (next_none_iff d).2 hnd
      simp only [labels, hn, iter, adv_done d hnd, iter_done n d hnd]; rfl
    · obtain ⟨l, hl, hs⟩ := next_step (cbEff := cbEff) henv hfb hok hnd
      simp only [labels, hl, iter, run, runWith]
      have hs' : step d.st l = some (adv env cbEff fb d).st := hs
      rw [hs']
      have henv' : EnvOKFrom (adv env cbEff fb d).np env :=
        fun i s hi => henv i s (Nat.le_trans (np_adv d) hi)
      exact ih _ henv' (dOk_adv d hok)

/-! ## the variant -/

/-- cost of one pass whose `A` finds work pending (it is followed by one clean pass) or not -/
def hA (c u : Nat) : Nat := 4 + (if 0 < c ∨ 0 < u then 4 else 0)

/-- control-flow overhead still ahead: the `pollA/endB/endC/endD` steps of this pass and of the passes it forces -/
def overhead (s : St) : Nat :=
  match s.pc with
  | .A => hA s.cbs s.ub
  | .B => 3 + (if s.did = true ∨ 0 < s.cbs ∨ 0 < s.ub then 4 else 0)
  | .C => 2 + (if s.did = true ∨ 0 < s.ub then hA s.cbs 0 else 0)
  | .D => 1 + (if s.did = true then hA s.cbs s.ub else 0)
  | .Done => 0

/-- steps one pending callback can cost: itself, `U` bytes (4 steps each) and `Q` sends (1 step each) -/
def cbCost (U Q : Nat) : Nat := 1 + 4 * U + Q

/-- **the variant** (= the bound): a callback costs `cbCost`; an unsent byte at most 4 steps (flushC, pollC, pollC
and the pollD of the send it becomes); a posted send 1 pollD; an owed poll 1; plus the control-flow overhead ≤ 10 -/
def measure (U Q : Nat) (d : DSt) : Nat :=
  cbCost U Q * d.st.cbs + 4 * d.st.ub + d.st.sq + d.owe + overhead d.st

theorem overhead_le (s : St) : overhead s ≤ 10 := by
  obtain ⟨pc, did, c, u, q⟩ := s
  cases pc <;> simp only [overhead, hA] <;> (repeat' split) <;> omega

/-- closed form of an upper bound of the variant -/
def bound (U Q : Nat) (d : DSt) : Nat :=
  (1 + 4 * U + Q) * d.st.cbs + 4 * d.st.ub + d.st.sq + d.owe + 10

theorem measure_le_bound (U Q : Nat) (d : DSt) : measure U Q d ≤ bound U Q d := by
  have := overhead_le d.st
  simp only [measure, bound, cbCost]; omega

/-- **every driver step decreases the variant** once polls are quiet and callbacks tame -/
theorem measure_adv {K J U Q : Nat} (hq : QuietFrom K env) (hc : CbTame J U Q cbEff) (hfb : FlushOK fb)
    (d : DSt) (hK : K ≤ d.np) (hJ : J ≤ d.nc) (hnd : d.st.pc ≠ .Done) :
    measure U Q (adv env cbEff fb d) < measure U Q d := by
  obtain ⟨⟨pc, did, c, u, q⟩, np, nc, o⟩ := d
  simp only at hK hJ hnd
  cases pc
  · -- A : pollA
    obtain ⟨_, h2, h3, h4, h5, _⟩ := hq np ⟨.A, did, c, u, q⟩ hK
    simp only at h3 h4 h5
    simp only [measure, adv, apply, overhead, hA, h2, h3, h4]
    simp only [Bool.false_eq_true, false_or]
    split <;> omega
  · -- B
    simp only [adv]
    split
    · -- cb
      rename_i hcp
      obtain ⟨h1, h2, h3⟩ := hc nc ⟨.B, did, c, u, q⟩ hJ hcp
      simp only at h1 h2 h3
      simp only [measure, overhead, true_or, if_true, hcp, or_true]
      have hm : cbCost U Q * ((cbEff nc ⟨.B, did, c, u, q⟩).1 + 1) ≤ cbCost U Q * c :=
        Nat.mul_le_mul_left _ h1
      rw [Nat.mul_succ] at hm
      have hcc : cbCost U Q = 1 + 4 * U + Q := rfl
      omega
    · -- endB
      rename_i hcp
      have hc0 : c = 0 := by omega
      subst hc0
      simp only [measure, overhead, hA, Nat.lt_irrefl, false_or]
      by_cases hd : did = true <;> by_cases hu : 0 < u <;> simp [hd, hu]
  · -- C
    simp only [adv]
    split
    · -- pollC
      rename_i ho
      obtain ⟨_, _, h3, h4, h5, _⟩ := hq np ⟨.C, did, c, u, q⟩ hK
      simp only at h3 h4 h5
      simp only [measure, apply, overhead, h3, h4]
      omega
    · split
      · -- flushC
        rename_i ho hu
        obtain ⟨hb1, hb2⟩ := hfb ⟨.C, did, c, u, q⟩ hu
        simp only at hb1 hb2
        simp only [measure, overhead, true_or, if_true, hu, or_true]
        omega
      · -- endC
        rename_i ho hu
        have hu0 : u = 0 := by omega
        subst hu0
        simp only [measure, overhead, Nat.lt_irrefl, or_false]
        omega
  · -- D
    simp only [adv]
    split
    · -- pollD
      rename_i hqp
      obtain ⟨_, h2, h3, h4, _, h6⟩ := hq np ⟨.D, did, c, u, q⟩ hK
      have h6' := h6 rfl hqp
      simp only at h3 h4 h6'
      simp only [measure, apply, overhead, h2, h3, h4, Bool.or_false]
      omega
    · -- endD
      by_cases hd : did = true
      · subst hd; simp only [measure, overhead, if_true]; omega
      · have hd' : did = false := by simpa using hd
        subst hd'
        simp only [measure, overhead, Bool.false_eq_true, if_false]; omega
  · exact absurd rfl hnd

/-- hence after `measure` (or more) steps the driver is at `Done` -/
theorem iter_done_of_measure_le {K J U Q : Nat} (hq : QuietFrom K env) (hc : CbTame J U Q cbEff) (hfb : FlushOK fb)
    (n : Nat) (d : DSt) (hK : K ≤ d.np) (hJ : J ≤ d.nc) (hm : measure U Q d ≤ n) :
    (iter env cbEff fb n d).st.pc = .Done := by
  induction n generalizing d with
  | zero =>
    by_cases hnd : d.st.pc = .Done
    · exact hnd
    · have := measure_adv hq hc hfb d hK hJ hnd; omega
  | succ n ih =>
    by_cases hnd : d.st.pc = .Done
    · rw [iter_done _ d hnd]; exact hnd
    · have := measure_adv hq hc hfb d hK hJ hnd
      exact ih _ (Nat.le_trans hK (np_adv d)) (Nat.le_trans hJ (nc_adv d)) (by omega)

end lemmas

end YgmVerif.Flush
