import YgmVerif.Model.Lines
/-! Helper lemmas for the line_parser model: cursor/offset facts for the reader, the
`Tiling` invariant of rank 0's carving loop, and the gluing lemma for adjacent ranges. -/
namespace YgmVerif.Lines

/-! ### offsets -/

/-- keep the index of the lines whose start offset satisfies `p` -/
def pick (p : Nat → Bool) (x : Nat × Nat) : Option Nat := if p x.1 then some x.2 else none

theorem offsets_length (pos : Nat) (l : List Nat) : (offsets pos l).length = l.length := by
  induction l generalizing pos with
  | nil => rfl
  | cons a r ih => simp [offsets, ih]

theorem mem_offsets_zipIdx {pos k : Nat} {l : List Nat} {x : Nat × Nat}
    (h : x ∈ (offsets pos l).zipIdx k) : pos ≤ x.1 ∧ x.1 < pos + bytesTerm l := by
  induction l generalizing pos k with
  | nil => simp [offsets] at h
  | cons a r ih =>
    simp only [offsets, List.zipIdx_cons, List.mem_cons] at h
    rcases h with h | h
    · subst h; simp [bytesTerm]; omega
    · have := ih h; simp [bytesTerm]; omega

theorem offsets_zipIdx_snd (pos k : Nat) (l : List Nat) :
    ((offsets pos l).zipIdx k).map (·.2) = List.range' k l.length := by
  induction l generalizing pos k with
  | nil => rfl
  | cons a r ih => simp [offsets, List.range'_succ, ih]

/-- a suffix of a well-formed file is well formed -/
def WFs (nl : Bool) (l : List Nat) : Prop := nl = false → l.getLast? ≠ some 0

theorem WFs_tail {nl : Bool} {a : Nat} {r : List Nat} (h : WFs nl (a :: r)) (hr : r ≠ []) : WFs nl r := by
  intro hn
  have := h hn
  cases r with
  | nil => exact absurd rfl hr
  | cons b r' => simpa [List.getLast?_cons_cons] using this

theorem filterMap_congr' {α β : Type} {g h : α → Option β} {l : List α} (H : ∀ x ∈ l, g x = h x) :
    l.filterMap g = l.filterMap h := by
  induction l with
  | nil => rfl
  | cons a t ih =>
    rw [List.filterMap_cons, List.filterMap_cons, H a (List.mem_cons_self ..),
      ih (fun x hx => H x (List.mem_cons_of_mem _ hx))]

theorem filterMap_pick_nil {p : Nat → Bool} {l : List (Nat × Nat)} (h : ∀ x ∈ l, p x.1 = false) :
    l.filterMap (pick p) = [] := by
  rw [List.filterMap_eq_nil_iff]
  intro x hx; simp [pick, h x hx]

theorem filterMap_pick_congr {p q : Nat → Bool} {l : List (Nat × Nat)} (h : ∀ x ∈ l, p x.1 = q x.1) :
    l.filterMap (pick p) = l.filterMap (pick q) := by
  apply filterMap_congr'
  intro x hx; simp [pick, h x hx]

/-! ### the reader -/

theorem readLoop_spec (nl : Bool) (e : Nat) (l : List Nat) (i pos : Nat) (hwf : WFs nl l) :
    readLoop nl e l i pos = ((offsets pos l).zipIdx i).filterMap (pick (fun s => decide (s ≤ e))) := by
  induction l generalizing i pos with
  | nil => rfl
  | cons a r ih =>
    simp only [readLoop, offsets, List.zipIdx_cons]
    by_cases hp : pos ≤ e
    · simp only [hp, if_true]
      by_cases hlast : (r.isEmpty && !nl) = true
      · simp only [hlast, if_true]
        have hr : r = [] := by
          simp only [Bool.and_eq_true, List.isEmpty_iff] at hlast; exact hlast.1
        have hn : nl = false := by
          simp only [Bool.and_eq_true, Bool.not_eq_true'] at hlast; exact hlast.2
        subst hr
        have ha : a ≠ 0 := by
          intro h0; subst h0; exact hwf hn rfl
        simp [ha, pick, hp, offsets]
      · have hlast' : (r.isEmpty && !nl) = false := by simpa using hlast
        simp only [hlast', Bool.false_eq_true, if_false]
        have hwr : WFs nl r := by
          by_cases hr : r = []
          · subst hr; intro hn; simp
          · exact WFs_tail hwf hr
        rw [ih (i + 1) (pos + a + 1) hwr]
        simp [pick, hp]
    · simp only [hp, if_false]
      symm
      rw [List.filterMap_cons]
      have h1 : pick (fun s => decide (s ≤ e)) (pos, i) = none := by simp [pick, hp]
      rw [h1]
      apply filterMap_pick_nil
      intro x hx
      have := (mem_offsets_zipIdx hx).1
      simp; omega

theorem skip_spec (nl : Bool) (e b : Nat) (l : List Nat) (i s : Nat) (hs : s ≤ b) (hwf : WFs nl l) :
    (match skipFrom nl l i s b with
      | none => []
      | some (rest, i', pos') => readLoop nl e rest i' pos')
    = ((offsets s l).zipIdx i).filterMap (pick (fun t => decide (b < t) && decide (t ≤ e))) := by
  induction l generalizing i s with
  | nil => rfl
  | cons a r ih =>
    have hhead : pick (fun t => decide (b < t) && decide (t ≤ e)) (s, i) = none := by
      simp [pick]; omega
    simp only [skipFrom, offsets, List.zipIdx_cons, List.filterMap_cons, hhead]
    by_cases hb : b ≤ s + a
    · simp only [hb, if_true]
      by_cases hlast : (r.isEmpty && !nl) = true
      · simp only [hlast, if_true]
        have hr : r = [] := by
          simp only [Bool.and_eq_true, List.isEmpty_iff] at hlast; exact hlast.1
        subst hr; simp [offsets]
      · have hlast' : (r.isEmpty && !nl) = false := by simpa using hlast
        simp only [hlast', Bool.false_eq_true, if_false]
        have hwr : WFs nl r := by
          by_cases hr : r = []
          · subst hr; intro hn; simp
          · exact WFs_tail hwf hr
        rw [readLoop_spec nl e r (i + 1) (s + a + 1) hwr]
        apply filterMap_pick_congr
        intro x hx
        have := (mem_offsets_zipIdx hx).1
        have hx1 : b < x.1 := by omega
        simp [hx1]
    · simp only [hb, if_false]
      have hwr : WFs nl r := by
        by_cases hr : r = []
        · subst hr; intro hn; simp
        · exact WFs_tail hwf hr
      exact ih (i + 1) (s + a + 1) (by omega) hwr

theorem readRange_eq (f : File) (b e : Nat) (hwf : f.WF) :
    readRange f b e = (f.starts.zipIdx).filterMap (pick (inRange b e)) := by
  unfold readRange File.starts
  by_cases hb : b > 0
  · simp only [hb, if_true]
    have := skip_spec f.finalNL e b f.lens 0 0 (Nat.zero_le _) hwf
    refine Eq.trans this ?_
    apply filterMap_pick_congr
    intro x _
    have hb0 : (b == 0) = false := by simp; omega
    simp [inRange, hb0]
  · have hb0 : b = 0 := by omega
    subst hb0
    simp only [Nat.lt_irrefl, if_false]
    rw [readLoop_spec f.finalNL e f.lens 0 0 hwf]
    apply filterMap_pick_congr
    intro x _
    simp only [inRange]
    by_cases hx : x.1 = 0
    · simp [hx]
    · have : 0 < x.1 := Nat.pos_of_ne_zero hx
      simp [hx, this]

/-- gluing: predicates `p`, `q` exclusive, `r = p ∨ q` -/
theorem pick_split_perm (p q r : Nat → Bool) (l : List (Nat × Nat))
    (hr : ∀ x ∈ l, r x.1 = (p x.1 || q x.1)) (hd : ∀ x ∈ l, ¬ (p x.1 = true ∧ q x.1 = true)) :
    (l.filterMap (pick p) ++ l.filterMap (pick q)).Perm (l.filterMap (pick r)) := by
  induction l with
  | nil => simp
  | cons x t ih =>
    have iht := ih (fun y hy => hr y (List.mem_cons_of_mem _ hy)) (fun y hy => hd y (List.mem_cons_of_mem _ hy))
    have hrx := hr x (List.mem_cons_self ..)
    have hdx := hd x (List.mem_cons_self ..)
    cases hp : p x.1 <;> cases hq : q x.1
    · simp [pick, hp, hq, hrx]; simpa [pick] using iht
    · simp only [List.filterMap_cons, pick, hp, hq, hrx, Bool.or_true, Bool.false_eq_true, if_true, if_false]
      exact List.perm_middle.trans (List.Perm.cons _ iht)
    · simp only [List.filterMap_cons, pick, hp, hq, hrx, Bool.or_false, Bool.false_eq_true, if_true, if_false, List.cons_append]
      exact List.Perm.cons _ iht
    · exact absurd ⟨hp, hq⟩ hdx

theorem readRange_split (f : File) (b m e : Nat) (hwf : f.WF) (hbm : b < m) (hme : m ≤ e) :
    (readRange f b m ++ readRange f m e).Perm (readRange f b e) := by
  rw [readRange_eq f b m hwf, readRange_eq f m e hwf, readRange_eq f b e hwf]
  apply pick_split_perm
  · intro x _
    rw [Bool.eq_iff_iff]
    simp only [inRange, Bool.or_eq_true, Bool.and_eq_true, decide_eq_true_eq, beq_iff_eq]
    omega
  · intro x _ h
    have hm0 : (m == 0) = false := by simp; omega
    simp only [inRange, hm0, Bool.false_and, Bool.false_or, Bool.or_eq_true, Bool.and_eq_true,
      decide_eq_true_eq, beq_iff_eq] at h
    omega

/-- reading `[0, size]` delivers every line -/
theorem readRange_whole (f : File) (hwf : f.WF) :
    readRange f 0 f.size = List.range f.lens.length := by
  rw [readRange_eq f 0 f.size hwf, List.range_eq_range', ← offsets_zipIdx_snd 0 0 f.lens]
  unfold File.starts
  rw [← List.filterMap_eq_map]
  apply filterMap_congr'
  intro x hx
  have hlt := (mem_offsets_zipIdx hx).2
  have hsz : x.1 ≤ f.size := by
    unfold File.size; split <;> omega
  simp only [pick, inRange, Function.comp]
  by_cases h0 : x.1 = 0
  · simp [h0]
  · have : 0 < x.1 := Nat.pos_of_ne_zero h0
    simp [this, hsz]

theorem size_eq_zero_lens {f : File} (hwf : f.WF) (h : f.size = 0) : f.lens = [] := by
  unfold File.size at h
  cases hl : f.lens with
  | nil => rfl
  | cons a r =>
    rw [hl] at h
    cases hn : f.finalNL
    · -- no final newline: bytesTerm (a :: r) - 1 = 0 forces a = 0, r = []
      simp [hn, bytesTerm] at h
      cases r with
      | nil =>
        have : a = 0 := by simp [bytesTerm] at h; omega
        subst this
        exact absurd (by rw [hl]; rfl) (hwf hn)
      | cons c r' => simp [bytesTerm] at h
    · simp [hn, bytesTerm] at h

/-! ### rank 0's loop -/

/-- `Tiling rem L`: the list of assignments `L` consumes the remaining files `rem` (back
first): each file is cut, from its current position to its size, into consecutive pieces,
every piece but the last non-empty and ending strictly inside the file. -/
inductive Tiling : List Rem → List Range → Prop
  | nil : Tiling [] []
  | whole {f cur fsz : Nat} {rest : List Rem} {L : List Range} :
      Tiling rest L → Tiling ((f, cur, fsz) :: rest) (⟨f, cur, fsz⟩ :: L)
  | part {f cur fsz x : Nat} {rest : List Rem} {L : List Range} :
      Tiling ((f, cur + x, fsz) :: rest) L → 0 < x → cur + x < fsz →
      Tiling ((f, cur, fsz) :: rest) (⟨f, cur, cur + x⟩ :: L)

/-- bytes not yet assigned -/
def remBytes : List Rem → Nat
  | [] => 0
  | (_, cur, fsz) :: rest => (fsz - cur) + remBytes rest

theorem rankLoop_spec (rem : List Rem) (bud : Nat) :
    (∀ L, Tiling (rankLoop rem bud).2 L → Tiling rem ((rankLoop rem bud).1 ++ L)) ∧
    ((rankLoop rem bud).2 = [] ∨ remBytes rem = remBytes (rankLoop rem bud).2 + bud) := by
  induction rem generalizing bud with
  | nil => simp [rankLoop]
  | cons x rest ih =>
    obtain ⟨f, cur, fsz⟩ := x
    simp only [rankLoop]
    by_cases hb : bud = 0
    · simp [hb]
    · simp only [hb, if_false]
      by_cases hgt : fsz - cur > bud
      · simp only [hgt, if_true]
        refine ⟨fun L hL => ?_, Or.inr ?_⟩
        · exact Tiling.part hL (Nat.pos_of_ne_zero hb) (by omega)
        · simp only [remBytes]; omega
      · simp only [hgt, if_false]
        obtain ⟨ih1, ih2⟩ := ih (bud - (fsz - cur))
        refine ⟨fun L hL => ?_, ?_⟩
        · exact Tiling.whole (ih1 L hL)
        · rcases ih2 with h | h
          · exact Or.inl h
          · right; simp only [remBytes]; omega

theorem carveLoop_tiling (bpr : Nat) (k : Nat) (rem : List Rem)
    (hb : rem = [] ∨ remBytes rem < k * bpr) : Tiling rem (carveLoop bpr k rem).flatten := by
  induction k generalizing rem with
  | zero =>
    rcases hb with h | h
    · subst h; exact Tiling.nil
    · simp at h
  | succ k ih =>
    simp only [carveLoop, List.flatten_cons]
    obtain ⟨h1, h2⟩ := rankLoop_spec rem bpr
    apply h1
    apply ih
    rcases h2 with h | h
    · exact Or.inl h
    · rcases hb with hb | hb
      · subst hb; left; simp [rankLoop]
      · right; rw [Nat.succ_mul] at hb; omega

theorem carveLoop_length (bpr k : Nat) (rem : List Rem) : (carveLoop bpr k rem).length = k := by
  induction k generalizing rem with
  | zero => rfl
  | succ k ih => simp [carveLoop, ih]

theorem remBytes_append (a b : List Rem) : remBytes (a ++ b) = remBytes a + remBytes b := by
  induction a with
  | nil => simp [remBytes]
  | cons x t ih => obtain ⟨f, c, s⟩ := x; simp [remBytes, ih]; omega

theorem remBytes_reverse (a : List Rem) : remBytes a.reverse = remBytes a := by
  induction a with
  | nil => rfl
  | cons x t ih =>
    obtain ⟨f, c, s⟩ := x
    simp [List.reverse_cons, remBytes_append, remBytes, ih]; omega

theorem remBytes_init_aux (sizes : List Nat) (k : Nat) :
    remBytes ((sizes.zipIdx k).map (fun (p : Nat × Nat) => (p.2, 0, p.1))) = sizes.sum := by
  induction sizes generalizing k with
  | nil => rfl
  | cons a t ih => simp [List.zipIdx_cons, remBytes, ih]

theorem remBytes_initRem (sizes : List Nat) : remBytes (initRem sizes) = sizes.sum := by
  unfold initRem; rw [remBytes_reverse, remBytes_init_aux]

theorem lt_mul_budget (total n G : Nat) (hn : 0 < n) : total < n * budget total n G := by
  have h1 : n * (total / n + 1) ≤ n * budget total n G :=
    Nat.mul_le_mul_left n (Nat.le_max_left _ _)
  have h2 := Nat.div_add_mod total n
  have h3 := Nat.mod_lt total hn
  rw [Nat.mul_add, Nat.mul_one] at h1
  omega

theorem carve_tiling (sizes : List Nat) (n G : Nat) (hn : 0 < n) (htot : 0 < sizes.sum) :
    Tiling (initRem sizes) (carve sizes n G).flatten := by
  unfold carve
  simp only [htot, if_true]
  apply carveLoop_tiling
  right
  rw [remBytes_initRem]
  exact lt_mul_budget _ _ _ hn

end YgmVerif.Lines
