import YgmVerif.Model.Part
/-! Helper lemmas for the block partition. -/
namespace YgmVerif.Part

theorem small_mul_add (len ranks : Nat) : ranks * small len ranks + rem len ranks = len := by
  unfold small rem; exact Nat.div_add_mod len ranks

theorem rem_lt (len ranks : Nat) (h : 0 < ranks) : rem len ranks < ranks := Nat.mod_lt _ h

theorem large_of_rem_pos (len ranks : Nat) (h : 0 < rem len ranks) :
    large len ranks = small len ranks + 1 := by unfold large; simp [h]

theorem large_of_rem_zero (len ranks : Nat) (h : rem len ranks = 0) :
    large len ranks = small len ranks := by unfold large; simp [h]

/-- start of rank r, in closed form -/
theorem start_eq (len ranks r : Nat) :
    start len ranks r = r * small len ranks + min r (rem len ranks) := by
  unfold start
  by_cases h : r < rem len ranks
  · have hp : 0 < rem len ranks := by omega
    simp only [h, if_true, large_of_rem_pos _ _ hp, Nat.mul_add, Nat.mul_one]
    rw [Nat.min_eq_left (by omega)]
  · simp only [h, if_false]
    rw [Nat.min_eq_right (by omega)]
    by_cases hp : 0 < rem len ranks
    · rw [large_of_rem_pos _ _ hp, Nat.mul_add, Nat.mul_one]
      have : r = rem len ranks + (r - rem len ranks) := by omega
      conv => rhs; rw [this, Nat.add_mul]
      omega
    · have hz : rem len ranks = 0 := by omega
      simp [hz]

theorem localSize_eq (len ranks r : Nat) :
    localSize len ranks r = small len ranks + (if r < rem len ranks then 1 else 0) := rfl

end YgmVerif.Part
