import YgmVerif.Model.BagOps
import YgmVerif.Props.C10
/-! Helper lemmas for the bag model (`BagOps`): sums, permutations of flattened vectors,
counting of rebalance targets. -/
namespace YgmVerif.BagOps
open YgmVerif.Part

variable {α : Type}

/-! ### sums over `List.range` -/

theorem sum_map_add (L : List Nat) (f g : Nat → Nat) :
    (L.map (fun t => f t + g t)).sum = (L.map f).sum + (L.map g).sum := by
  induction L with
  | nil => rfl
  | cons x xs ih => simp only [List.map_cons, List.sum_cons, ih]; omega

theorem sum_map_congr (L : List Nat) (f g : Nat → Nat) (h : ∀ t ∈ L, f t = g t) :
    (L.map f).sum = (L.map g).sum := by
  induction L with
  | nil => rfl
  | cons x xs ih =>
    simp only [List.map_cons, List.sum_cons]
    rw [h x (by simp), ih (fun t ht => h t (by simp [ht]))]

theorem sum_map_zero (L : List Nat) : (L.map (fun _ => 0)).sum = 0 := by
  induction L with
  | nil => rfl
  | cons x xs ih => rw [List.map_cons, List.sum_cons, ih]

/-- a sum that is non-zero at one index only -/
theorem sum_indicator (n r : Nat) (h : Nat → Nat) :
    ((List.range n).map (fun t => if t = r then h t else 0)).sum = if r < n then h r else 0 := by
  induction n with
  | zero => simp
  | succ n ih =>
    rw [List.range_succ, List.map_append, List.sum_append, ih]
    simp only [List.map_cons, List.map_nil, List.sum_cons, List.sum_nil]
    by_cases h1 : r < n
    · have : ¬ (n = r) := by omega
      simp [h1, this]; omega
    · by_cases h2 : n = r
      · subst h2; simp
      · have : ¬ (r < n + 1) := by omega
        simp [h1, h2, this]

theorem sum_filter_map (L : List Nat) (p : Nat → Bool) (g : Nat → Nat) :
    ((L.filter p).map g).sum = (L.map (fun t => if p t then g t else 0)).sum := by
  induction L with
  | nil => rfl
  | cons x xs ih =>
    rw [List.filter_cons]
    by_cases hp : p x = true
    · simp [hp, ih]
    · simp [hp, ih]

theorem sum_filter_pos (L : List Nat) (g : Nat → Nat) :
    ((L.filter (fun t => g t > 0)).map g).sum = (L.map g).sum := by
  rw [sum_filter_map]
  apply sum_map_congr
  intro t _
  by_cases h : g t > 0
  · simp [h]
  · have : g t = 0 := by omega
    simp [this]

/-! ### flattened vectors -/

theorem flatten_modify_append (L : List (List α)) (d : Nat) (xs : List α) (h : d < L.length) :
    (L.modify d (· ++ xs)).flatten.Perm (L.flatten ++ xs) := by
  induction L generalizing d with
  | nil => simp at h
  | cons l L ih =>
    cases d with
    | zero =>
      simp only [List.modify_zero_cons, List.flatten_cons, List.append_assoc]
      exact List.Perm.append_left l List.perm_append_comm
    | succ d =>
      simp only [List.modify_succ_cons, List.flatten_cons, List.append_assoc]
      exact List.Perm.append_left l (ih d (by simpa using h))

theorem flatten_set_perm (L : List (List α)) (r : Nat) (old new : List α) (h : L[r]? = some old)
    (hp : new.Perm old) : (L.set r new).flatten.Perm L.flatten := by
  induction L generalizing r with
  | nil => simp at h
  | cons l L ih =>
    cases r with
    | zero =>
      simp only [List.getElem?_cons_zero, Option.some.injEq] at h
      subst h
      simp only [List.set_cons_zero, List.flatten_cons]
      exact List.Perm.append_right _ hp
    | succ r =>
      simp only [List.getElem?_cons_succ] at h
      simp only [List.set_cons_succ, List.flatten_cons]
      exact List.Perm.append_left l (ih r h)

theorem length_getD_modify_append (L : List (List α)) (d r : Nat) (xs : List α) :
    ((L.modify d (· ++ xs)).getD r []).length =
      (L.getD r []).length + (if d = r ∧ r < L.length then xs.length else 0) := by
  simp only [List.getD_eq_getElem?_getD, List.getElem?_modify]
  by_cases hr : r < L.length
  · rw [List.getElem?_eq_getElem hr]
    by_cases hd : d = r
    · simp [hd, hr]
    · simp [hd]
  · rw [List.getElem?_eq_none (by omega)]
    simp [hr]

/-! ### delivery -/

/-- number of items the messages `ms` bring to rank `d` -/
def recv (ms : List (Msg α)) (d : Nat) : Nat := ((ms.filter (fun m => m.dest == d)).map (fun m => m.items.length)).sum

theorem recv_nil (d : Nat) : recv ([] : List (Msg α)) d = 0 := rfl

theorem recv_cons (m : Msg α) (ms : List (Msg α)) (d : Nat) :
    recv (m :: ms) d = (if m.dest = d then m.items.length else 0) + recv ms d := by
  unfold recv
  rw [List.filter_cons]
  by_cases h : m.dest = d
  · simp [h]
  · simp [h]

theorem recv_append (ms ms' : List (Msg α)) (d : Nat) : recv (ms ++ ms') d = recv ms d + recv ms' d := by
  unfold recv; simp [List.filter_append]

theorem recv_perm {ms ms' : List (Msg α)} (h : ms.Perm ms') (d : Nat) : recv ms d = recv ms' d := by
  unfold recv
  exact ((h.filter _).map _).sum_nat

theorem recv_flatMap {β : Type} (L : List β) (f : β → List (Msg α)) (d : Nat) :
    recv (L.flatMap f) d = (L.map (fun x => recv (f x) d)).sum := by
  induction L with
  | nil => rfl
  | cons x xs ih => simp [List.flatMap_cons, recv_append, ih]

theorem deliver_inv {b b' : Bag α} {m : Msg α} (h : deliver b m = some b') :
    m.dest < b.bags.length ∧ b' = { b with bags := b.bags.modify m.dest (· ++ m.items) } := by
  unfold deliver at h
  split at h
  · exact ⟨by assumption, (Option.some.inj h).symm⟩
  · simp at h

/-- everything a successful batch of deliveries does -/
theorem deliverAll_spec {b b' : Bag α} {ms : List (Msg α)} (h : deliverAll b ms = some b') :
    b'.ranks = b.ranks ∧ b'.rr = b.rr ∧ b'.bags.length = b.bags.length ∧
    (items b').Perm (items b ++ ms.flatMap (·.items)) ∧
    (∀ r, (b'.bags.getD r []).length = (b.bags.getD r []).length + recv ms r) ∧
    (∀ m ∈ ms, m.dest < b.bags.length) := by
  induction ms generalizing b with
  | nil =>
    simp only [deliverAll, Option.some.injEq] at h
    subst h
    simp [recv_nil]
  | cons m ms ih =>
    simp only [deliverAll] at h
    cases h1 : deliver b m with
    | none => simp [h1] at h
    | some b1 =>
      simp only [h1, Option.bind_some] at h
      obtain ⟨hd, rfl⟩ := deliver_inv h1
      obtain ⟨e1, e2, e3, e4, e5, e6⟩ := ih h
      simp only [List.length_modify] at e3 e6
      refine ⟨e1, e2, e3, ?_, ?_, ?_⟩
      · refine e4.trans ?_
        simp only [items, List.flatMap_cons]
        rw [← List.append_assoc]
        exact List.Perm.append_right _ (flatten_modify_append _ _ _ hd)
      · intro r
        rw [e5 r, length_getD_modify_append, recv_cons]
        by_cases hr : m.dest = r
        · subst hr; simp [hd]; omega
        · simp [hr]
      · intro x hx
        rcases List.mem_cons.mp hx with rfl | hx
        · exact hd
        · exact e6 x hx

theorem deliverAll_some (b : Bag α) (ms : List (Msg α)) (h : ∀ m ∈ ms, m.dest < b.bags.length) :
    ∃ b', deliverAll b ms = some b' := by
  induction ms generalizing b with
  | nil => exact ⟨b, rfl⟩
  | cons m ms ih =>
    have hd := h m (by simp)
    simp only [deliverAll, deliver, hd, if_true, Option.bind_some]
    apply ih
    intro x hx
    simp only [List.length_modify]
    exact h x (by simp [hx])

/-! ### reordering by a permutation of positions -/

theorem filterMap_range_getElem? {γ : Type} (ms : List γ) :
    (List.range ms.length).filterMap (ms[·]?) = ms := by
  induction ms with
  | nil => rfl
  | cons x xs ih =>
    rw [List.length_cons, List.range_succ_eq_map, List.filterMap_cons]
    simp only [List.getElem?_cons_zero, List.filterMap_map]
    have : ((fun i => (x :: xs)[i]?) ∘ Nat.succ) = (fun i => xs[i]?) := by funext i; simp
    rw [this, ih]

theorem reorder_perm {γ : Type} (ms : List γ) (sched : List Nat) (h : sched.Perm (List.range ms.length)) :
    (reorder ms sched).Perm ms := by
  unfold reorder
  have := h.filterMap (ms[·]?)
  rw [filterMap_range_getElem?] at this
  exact this

theorem deliverSched_inv {b b' : Bag α} {ms : List (Msg α)} {sched : List Nat}
    (h : deliverSched b ms sched = some b') :
    (reorder ms sched).Perm ms ∧ deliverAll b (reorder ms sched) = some b' := by
  unfold deliverSched at h
  split at h
  case isTrue hp => exact ⟨reorder_perm ms sched (List.isPerm_iff.mp hp), h⟩
  case isFalse => simp at h

/-- a scheduled batch: same facts as `deliverAll_spec`, stated for the issued list `ms` -/
theorem deliverSched_spec {b b' : Bag α} {ms : List (Msg α)} {sched : List Nat}
    (h : deliverSched b ms sched = some b') :
    b'.ranks = b.ranks ∧ b'.rr = b.rr ∧ b'.bags.length = b.bags.length ∧
    (items b').Perm (items b ++ ms.flatMap (·.items)) ∧
    (∀ r, (b'.bags.getD r []).length = (b.bags.getD r []).length + recv ms r) ∧
    (∀ m ∈ ms, m.dest < b.bags.length) := by
  obtain ⟨hp, hd⟩ := deliverSched_inv h
  obtain ⟨e1, e2, e3, e4, e5, e6⟩ := deliverAll_spec hd
  refine ⟨e1, e2, e3, e4.trans (List.Perm.append_left _ (hp.flatMap_right _)), ?_, ?_⟩
  · intro r; rw [e5 r, recv_perm hp]
  · intro m hm; exact e6 m (hp.mem_iff.mpr hm)

theorem deliverSched_some (b : Bag α) (ms : List (Msg α)) (sched : List Nat)
    (hs : sched.Perm (List.range ms.length)) (h : ∀ m ∈ ms, m.dest < b.bags.length) :
    ∃ b', deliverSched b ms sched = some b' := by
  unfold deliverSched
  rw [if_pos (List.isPerm_iff.mpr hs)]
  apply deliverAll_some
  intro m hm
  exact h m ((reorder_perm ms sched hs).mem_iff.mp hm)

/-! ### counting rebalance targets -/

theorem cntT_add (tot ranks pre s1 s2 t : Nat) :
    cntT tot ranks pre (s1 + s2) t = cntT tot ranks pre s1 t + cntT tot ranks (pre + s1) s2 t := by
  simp [cntT, List.range_add, List.filter_append, List.filter_map, Function.comp_def, Nat.add_assoc]

theorem prefixOf_succ (szs : List Nat) (k : Nat) :
    prefixOf szs (k + 1) = prefixOf szs k + szs.getD k 0 := by
  unfold prefixOf
  rw [List.take_add_one, List.sum_append, List.getD_eq_getElem?_getD]
  cases szs[k]? <;> simp

theorem prefixOf_zero (szs : List Nat) : prefixOf szs 0 = 0 := by simp [prefixOf]

theorem prefixOf_length (szs : List Nat) : prefixOf szs szs.length = szs.sum := by simp [prefixOf]

theorem prefixOf_mono (szs : List Nat) {a b : Nat} (h : a ≤ b) : prefixOf szs a ≤ prefixOf szs b := by
  induction h with
  | refl => exact Nat.le_refl _
  | step _ ih => rw [prefixOf_succ]; omega

theorem prefixOf_le_sum (szs : List Nat) (k : Nat) : prefixOf szs k ≤ szs.sum := by
  by_cases h : k ≤ szs.length
  · rw [← prefixOf_length]; exact prefixOf_mono szs h
  · unfold prefixOf; rw [List.take_of_length_le (by omega)]; exact Nat.le_refl _

/-- the positions of ranks `0..k-1` are the positions `0 .. prefix k - 1` -/
theorem sum_cntT_prefix (tot ranks t : Nat) (szs : List Nat) (k : Nat) :
    ((List.range k).map (fun s => cntT tot ranks (prefixOf szs s) (szs.getD s 0) t)).sum =
      cntT tot ranks 0 (prefixOf szs k) t := by
  induction k with
  | zero => simp [prefixOf_zero, cntT]
  | succ k ih =>
    rw [List.range_succ, List.map_append, List.sum_append, ih, prefixOf_succ, cntT_add]
    simp

theorem length_filter_interval (n s z : Nat) :
    ((List.range n).filter (fun i => decide (s ≤ i ∧ i < s + z))).length = min (n - s) z := by
  induction n with
  | zero => simp
  | succ n ih =>
    rw [List.range_succ, List.filter_append, List.length_append, ih]
    by_cases h : s ≤ n ∧ n < s + z
    · simp [h]; omega
    · simp [h]; omega

/-- of the positions `0..tot-1`, exactly `localSize r` have target `r` -/
theorem cntT_total (tot ranks r : Nat) (hr : 0 < ranks) (hrr : r < ranks) :
    cntT tot ranks 0 tot r = localSize tot ranks r := by
  have hle : start tot ranks (r+1) ≤ start tot ranks ranks := start_mono _ _ (by omega)
  rw [start_succ, start_ranks _ _ hr] at hle
  unfold cntT
  have : (List.range tot).filter (fun i => rebalanceTarget tot ranks (0 + i) == some r) =
      (List.range tot).filter (fun i => decide (start tot ranks r ≤ i ∧ i < start tot ranks r + localSize tot ranks r)) := by
    apply List.filter_congr
    intro i hi
    have hi' : i < tot := List.mem_range.mp hi
    simp only [Nat.zero_add, rebalanceTarget]
    obtain ⟨q, hq, _, hq1, hq2⟩ := owner_spec tot ranks i hr hi'
    by_cases hc : start tot ranks r ≤ i ∧ i < start tot ranks r + localSize tot ranks r
    · rw [owner_unique tot ranks i r hr hi' hc.1 hc.2]; simp [hc]
    · rw [hq]
      have : q ≠ r := by rintro rfl; exact hc ⟨hq1, hq2⟩
      simp [hc, this]
  rw [this, length_filter_interval]
  omega

/-- every position has exactly one target below `ranks` -/
theorem sum_cntT_ranks (tot ranks pre sz : Nat) (hr : 0 < ranks) (h : pre + sz ≤ tot) :
    ((List.range ranks).map (cntT tot ranks pre sz)).sum = sz := by
  induction sz with
  | zero =>
    have : cntT tot ranks pre 0 = fun _ => 0 := by funext t; simp [cntT]
    rw [this]
    exact sum_map_zero _
  | succ sz ih =>
    have hstep : ∀ t, cntT tot ranks pre (sz + 1) t =
        cntT tot ranks pre sz t + (if t = (rebalanceTarget tot ranks (pre + sz)).getD ranks then 1 else 0) := by
      intro t
      obtain ⟨q, hq, hqr, _, _⟩ := owner_spec tot ranks (pre + sz) hr (by omega)
      unfold cntT
      rw [List.range_succ, List.filter_append, List.length_append]
      simp only [rebalanceTarget, hq, Option.getD_some]
      by_cases ht : t = q
      · subst ht; simp [hq]
      · have : ¬ (q = t) := fun h => ht h.symm
        simp [hq, ht, this]
    have hfun : (cntT tot ranks pre (sz + 1)) = fun t =>
        cntT tot ranks pre sz t + (if t = (rebalanceTarget tot ranks (pre + sz)).getD ranks then 1 else 0) := by
      funext t; exact hstep t
    rw [hfun, sum_map_add, ih (by omega), sum_indicator]
    obtain ⟨q, hq, hqr, _, _⟩ := owner_spec tot ranks (pre + sz) hr (by omega)
    simp [rebalanceTarget, hq, hqr]

theorem no_traps (tot ranks pre sz : Nat) (hr : 0 < ranks) (h : pre + sz ≤ tot) :
    traps tot ranks pre sz = false := by
  unfold traps
  rw [Bool.eq_false_iff]
  intro hc
  rw [List.any_eq_true] at hc
  obtain ⟨i, hi, hn⟩ := hc
  have hi' := List.mem_range.mp hi
  obtain ⟨q, hq, _⟩ := owner_spec tot ranks (pre + i) hr (by omega)
  simp [rebalanceTarget, hq] at hn

/-- what a rank sends plus what it keeps is what it holds -/
theorem sum_sendCount (tot ranks pre sz r : Nat) (hr : 0 < ranks) (hrr : r < ranks) (h : pre + sz ≤ tot) :
    ((List.range ranks).map (sendCount tot ranks pre sz r)).sum + cntT tot ranks pre sz r = sz := by
  have h1 := sum_cntT_ranks tot ranks pre sz hr h
  have h2 : (List.range ranks).map (cntT tot ranks pre sz) =
      (List.range ranks).map (fun t => sendCount tot ranks pre sz r t + (if t = r then cntT tot ranks pre sz t else 0)) := by
    apply List.map_congr_left
    intro t _
    unfold sendCount
    by_cases ht : t = r <;> simp [ht]
  rw [h2, sum_map_add, sum_indicator] at h1
  simp only [hrr, if_true] at h1
  exact h1

theorem sum_sendKeys (tot ranks pre sz r : Nat) :
    ((sendKeys tot ranks pre sz r).map (sendCount tot ranks pre sz r)).sum =
      ((List.range ranks).map (sendCount tot ranks pre sz r)).sum := by
  unfold sendKeys
  exact sum_filter_pos _ _

/-- through the keys of `to_send`, rank `d < ranks` is sent `sendCount d` items -/
theorem sum_sendKeys_at (tot ranks pre sz r d : Nat) (hd : d < ranks) :
    (((sendKeys tot ranks pre sz r).filter (fun t => t == d)).map (sendCount tot ranks pre sz r)).sum =
      sendCount tot ranks pre sz r d := by
  unfold sendKeys
  rw [List.filter_filter, sum_filter_map]
  have : ((List.range ranks).map (fun t => if ((t == d) && decide (sendCount tot ranks pre sz r t > 0)) = true
        then sendCount tot ranks pre sz r t else 0)).sum =
      ((List.range ranks).map (fun t => if t = d then sendCount tot ranks pre sz r t else 0)).sum := by
    apply sum_map_congr
    intro t _
    by_cases ht : t = d
    · subst ht
      by_cases hp : sendCount tot ranks pre sz r t > 0
      · simp [hp]
      · have : sendCount tot ranks pre sz r t = 0 := by omega
        simp [this]
    · simp [ht]
  rw [this, sum_indicator]
  simp [hd]

/-! ### local_pop and the shipping loop -/

theorem localPop_inv {l kept popped : List α} {n : Nat} (h : localPop l n = some (kept, popped)) :
    n ≤ l.length ∧ kept ++ popped = l ∧ popped.length = n ∧ kept.length + n = l.length := by
  unfold localPop at h
  split at h
  case isTrue hn =>
    simp only [Option.some.injEq, Prod.mk.injEq] at h
    obtain ⟨rfl, rfl⟩ := h
    refine ⟨hn, List.take_append_drop _ _, ?_, ?_⟩
    · simp; omega
    · simp; omega
  case isFalse => simp at h

/-! ### the interleaving machine -/

/-- everything the machine holds: local bags and messages in flight -/
def Net.all (st : Net α) : List α := st.bags.flatten ++ st.flight.flatMap (·.items)

/-- the three kinds of successful steps -/
theorem Net.step_cases {st st' : Net α} {e : Ev} (h : st.step e = some st') :
    (∃ s ds t n rest l kept popped, e = .act s ds ∧ st.todo[s]? = some (.pop t n :: rest) ∧ st.bags[s]? = some l ∧
        localPop l n = some (kept, popped) ∧
        st' = { bags := st.bags.set s kept, todo := st.todo.set s rest,
                flight := st.flight ++ [{ dest := t, items := popped }] }) ∨
    (∃ s ds rest l ms, e = .act s ds ∧ st.todo[s]? = some (.shuf :: rest) ∧ st.bags[s]? = some l ∧
        shuffleMsgs l ds = some ms ∧
        st' = { bags := st.bags.set s [], todo := st.todo.set s rest, flight := st.flight ++ ms }) ∨
    (∃ k m, e = .recv k ∧ st.flight[k]? = some m ∧ m.dest < st.bags.length ∧
        st' = { st with bags := st.bags.modify m.dest (· ++ m.items), flight := st.flight.eraseIdx k }) := by
  cases e with
  | act s ds =>
    simp only [Net.step] at h
    split at h
    next t n rest l ht hl =>
      cases hp : localPop l n with
      | none => simp [hp] at h
      | some p =>
        obtain ⟨kept, popped⟩ := p
        simp only [hp, Option.map_some, Option.some.injEq] at h
        exact Or.inl ⟨s, ds, t, n, rest, l, kept, popped, rfl, ht, hl, hp, h.symm⟩
    next rest l ht hl =>
      cases hp : shuffleMsgs l ds with
      | none => simp [hp] at h
      | some ms =>
        simp only [hp, Option.map_some, Option.some.injEq] at h
        exact Or.inr (Or.inl ⟨s, ds, rest, l, ms, rfl, ht, hl, hp, h.symm⟩)
    · simp at h
  | recv k =>
    simp only [Net.step] at h
    split at h
    next m hm =>
      split at h
      next hd =>
        simp only [Option.some.injEq] at h
        exact Or.inr (Or.inr ⟨k, m, rfl, hm, hd, h.symm⟩)
      · simp at h
    · simp at h

theorem flatten_set_split (L : List (List α)) (s : Nat) (k p : List α) (h : L[s]? = some (k ++ p)) :
    ((L.set s k).flatten ++ p).Perm L.flatten := by
  induction L generalizing s with
  | nil => simp at h
  | cons l L ih =>
    cases s with
    | zero =>
      simp only [List.getElem?_cons_zero, Option.some.injEq] at h
      subst h
      simp only [List.set_cons_zero, List.flatten_cons, List.append_assoc]
      exact List.Perm.append_left k List.perm_append_comm
    | succ s =>
      simp only [List.getElem?_cons_succ] at h
      simp only [List.set_cons_succ, List.flatten_cons, List.append_assoc]
      exact List.Perm.append_left l (ih s h)

theorem perm_cons_eraseIdx {γ : Type} (L : List γ) (k : Nat) (m : γ) (h : L[k]? = some m) :
    L.Perm (m :: L.eraseIdx k) := by
  induction L generalizing k with
  | nil => simp at h
  | cons x xs ih =>
    cases k with
    | zero =>
      simp only [List.getElem?_cons_zero, Option.some.injEq] at h
      subst h; simp
    | succ k =>
      simp only [List.getElem?_cons_succ] at h
      simp only [List.eraseIdx_cons_succ]
      exact (List.Perm.cons x (ih k h)).trans (List.Perm.swap m x _)

theorem zipWith_items (l : List α) (ds : List Nat) (h : ds.length = l.length) :
    (List.zipWith (fun x d => ({ dest := d, items := [x] } : Msg α)) l ds).flatMap (·.items) = l := by
  induction l generalizing ds with
  | nil => simp
  | cons x xs ih =>
    cases ds with
    | nil => simp at h
    | cons d ds => simp [List.flatMap_cons, ih ds (by simpa using h)]

theorem zipWith_dests (l : List α) (ds : List Nat) (h : ds.length = l.length) :
    (List.zipWith (fun x d => ({ dest := d, items := [x] } : Msg α)) l ds).map (·.dest) = ds := by
  induction l generalizing ds with
  | nil => cases ds with
    | nil => rfl
    | cons d ds => simp at h
  | cons x xs ih =>
    cases ds with
    | nil => simp at h
    | cons d ds =>
      simp only [List.zipWith_cons_cons, List.map_cons]
      rw [ih ds (by simpa using h)]

theorem shuffleMsgs_inv {l : List α} {ds : List Nat} {ms : List (Msg α)} (h : shuffleMsgs l ds = some ms) :
    ms.flatMap (·.items) = l ∧ ms.map (·.dest) = ds ∧ ds.length = l.length := by
  unfold shuffleMsgs at h
  split at h
  next hl =>
    simp only [Option.some.injEq] at h
    subst h
    exact ⟨zipWith_items l ds hl, zipWith_dests l ds hl, hl⟩
  · simp at h

/-- **conservation, one step**: no event loses, duplicates or invents an item -/
theorem Net.step_conserved {st st' : Net α} {e : Ev} (h : st.step e = some st') :
    st'.all.Perm st.all ∧ st'.bags.length = st.bags.length ∧ st'.todo.length = st.todo.length := by
  rcases Net.step_cases h with ⟨s, ds, t, n, rest, l, kept, popped, _, _, hl, hp, rfl⟩ |
    ⟨s, ds, rest, l, ms, _, _, hl, hp, rfl⟩ | ⟨k, m, _, hm, hd, rfl⟩
  · obtain ⟨_, p2, _, _⟩ := localPop_inv hp
    refine ⟨?_, by simp, by simp⟩
    simp only [Net.all, List.flatMap_append, List.flatMap_cons, List.flatMap_nil, List.append_nil]
    rw [← p2] at hl
    have := flatten_set_split st.bags s kept popped hl
    -- (F' ++ (M ++ p)) ~ (F ++ M)
    refine (List.perm_append_comm_assoc _ _ _).trans ?_
    refine (List.Perm.append_left _ this).trans ?_
    exact List.perm_append_comm
  · obtain ⟨e1, _, _⟩ := shuffleMsgs_inv hp
    refine ⟨?_, by simp, by simp⟩
    simp only [Net.all, List.flatMap_append]
    rw [e1]
    have := flatten_set_split st.bags s [] l (by simpa using hl)
    refine (List.perm_append_comm_assoc _ _ _).trans ?_
    refine (List.Perm.append_left _ this).trans ?_
    exact List.perm_append_comm
  · refine ⟨?_, by simp, rfl⟩
    simp only [Net.all]
    have h1 := flatten_modify_append st.bags m.dest m.items hd
    have h2 : (st.flight.flatMap (·.items)).Perm (m.items ++ (st.flight.eraseIdx k).flatMap (·.items)) := by
      have := (perm_cons_eraseIdx st.flight k m hm).flatMap_right (·.items)
      simpa [List.flatMap_cons] using this
    refine (List.Perm.append_right _ h1).trans ?_
    rw [List.append_assoc]
    exact List.Perm.append_left _ h2.symm

theorem Net.run_conserved {st st' : Net α} {evs : List Ev} (h : st.run evs = some st') :
    st'.all.Perm st.all ∧ st'.bags.length = st.bags.length ∧ st'.todo.length = st.todo.length := by
  induction evs generalizing st with
  | nil => simp only [Net.run, Option.some.injEq] at h; subst h; exact ⟨List.Perm.refl _, rfl, rfl⟩
  | cons e es ih =>
    simp only [Net.run] at h
    cases h1 : st.step e with
    | none => simp [h1] at h
    | some st1 =>
      simp only [h1, Option.bind_some] at h
      have a := Net.step_conserved h1
      have b := ih h
      exact ⟨b.1.trans a.1, by omega, by omega⟩

theorem Net.done_inv {st : Net α} (h : st.done = true) : st.flight = [] ∧ ∀ l ∈ st.todo, l = [] := by
  unfold Net.done at h
  simp only [Bool.and_eq_true, List.all_eq_true, List.isEmpty_iff] at h
  exact ⟨h.2, h.1⟩

/-! ### the counting invariant of `rebalance` under arbitrary interleavings -/

def owedAt (r : Nat) (l : List Act) : Nat := ((l.filter (Act.goesTo r)).map Act.size).sum
def needOf (l : List Act) : Nat := (l.map Act.size).sum
/-- what rank `r` still has to pop -/
def Net.need (st : Net α) (r : Nat) : Nat := needOf (st.todo.getD r [])
/-- what other ranks still have to pop for `r` -/
def Net.owed (st : Net α) (r : Nat) : Nat :=
  ((List.range st.todo.length).map (fun s => owedAt r (st.todo.getD s []))).sum
/-- held + in flight towards `r` + still to be popped for `r` -/
def Net.load (st : Net α) (r : Nat) : Nat := (st.bags.getD r []).length + recv st.flight r + st.owed r

structure RInv (target : Nat → Nat) (st : Net α) : Prop where
  len : st.todo.length = st.bags.length
  pops : ∀ l ∈ st.todo, ∀ a ∈ l, a.isPop = true
  bal : ∀ r, r < st.bags.length → st.load r = target r + st.need r
  room : ∀ s, st.need s ≤ (st.bags.getD s []).length
  fdest : ∀ m ∈ st.flight, m.dest < st.bags.length
  tdest : ∀ l ∈ st.todo, ∀ a ∈ l, ∀ t n, a = Act.pop t n → t < st.bags.length

theorem getD_set {β : Type} (L : List β) (s i : Nat) (x d : β) :
    (L.set s x).getD i d = if i = s ∧ s < L.length then x else L.getD i d := by
  simp only [List.getD_eq_getElem?_getD, List.getElem?_set]
  by_cases h : s = i
  · subst h
    by_cases hl : s < L.length
    · simp [hl]
    · simp [hl]
  · have : ¬ (i = s) := fun e => h e.symm
    simp [h, this]

theorem sum_range_set {β : Type} (L : List β) (s : Nat) (x d : β) (g : β → Nat) (hs : s < L.length) :
    ((List.range L.length).map (fun i => g ((L.set s x).getD i d))).sum + g (L.getD s d) =
      ((List.range L.length).map (fun i => g (L.getD i d))).sum + g x := by
  have e1 : (List.range L.length).map (fun i => g ((L.set s x).getD i d) + (if i = s then g (L.getD s d) else 0)) =
      (List.range L.length).map (fun i => g (L.getD i d) + (if i = s then g x else 0)) := by
    apply List.map_congr_left
    intro i _
    rw [getD_set]
    by_cases h : i = s
    · subst h; simp [hs]; omega
    · simp [h]
  have e2 := congrArg List.sum e1
  rw [sum_map_add, sum_map_add, sum_indicator, sum_indicator] at e2
  simpa [hs] using e2

theorem recv_singleton (m : Msg α) (r : Nat) : recv [m] r = if m.dest = r then m.items.length else 0 := by
  rw [recv_cons, recv_nil]; simp

theorem RInv.step {target : Nat → Nat} {st st' : Net α} {e : Ev} (hi : RInv target st) (h : st.step e = some st') :
    RInv target st' := by
  rcases Net.step_cases h with ⟨s, ds, t, n, rest, l, kept, popped, _, ht, hl, hp, rfl⟩ |
    ⟨s, ds, rest, l, ms, _, ht, _, _, _⟩ | ⟨k, m, _, hm, hd, rfl⟩
  · -- rank s pops n items for t
    obtain ⟨hn, p2, p3, p4⟩ := localPop_inv hp
    have hs : s < st.todo.length := (List.getElem?_eq_some_iff.mp ht).1
    have hsb : s < st.bags.length := (List.getElem?_eq_some_iff.mp hl).1
    have htodo : st.todo.getD s [] = Act.pop t n :: rest := by
      simp [List.getD_eq_getElem?_getD, ht]
    have hbag : st.bags.getD s [] = l := by simp [List.getD_eq_getElem?_getD, hl]
    have hmem : (Act.pop t n :: rest) ∈ st.todo := List.mem_of_getElem? ht
    have hneed : ∀ r, needOf (st.todo.getD r []) =
        needOf ((st.todo.set s rest).getD r []) + (if r = s then n else 0) := by
      intro r
      rw [getD_set]
      by_cases hr : r = s
      · subst hr
        rw [if_pos ⟨rfl, hs⟩, htodo, if_pos rfl]
        simp only [needOf, List.map_cons, List.sum_cons, Act.size]; omega
      · rw [if_neg (fun h => hr h.1), if_neg hr]; rfl
    have howed : ∀ r, ((List.range st.todo.length).map (fun i => owedAt r (st.todo.getD i []))).sum =
        ((List.range st.todo.length).map (fun i => owedAt r ((st.todo.set s rest).getD i []))).sum +
          (if t = r then n else 0) := by
      intro r
      have := sum_range_set st.todo s rest [] (owedAt r) hs
      rw [htodo] at this
      have e : owedAt r (Act.pop t n :: rest) = owedAt r rest + (if t = r then n else 0) := by
        unfold owedAt
        rw [List.filter_cons]
        by_cases htr : t = r
        · simp [Act.goesTo, htr, Act.size]; omega
        · simp [Act.goesTo, htr]
      omega
    refine ⟨by simpa using hi.len, ?_, ?_, ?_, ?_, ?_⟩
    · intro l' hl' a ha
      rcases List.mem_or_eq_of_mem_set hl' with h1 | h1
      · exact hi.pops l' h1 a ha
      · subst h1; exact hi.pops _ hmem a (List.mem_cons_of_mem _ ha)
    · intro r hr
      have hr' : r < st.bags.length := by simpa using hr
      have hb := hi.bal r hr'
      have h1 := hneed r
      have h2 := howed r
      simp only [Net.load, Net.owed, Net.need, List.length_set] at hb ⊢
      rw [recv_append, recv_singleton, getD_set]
      simp only []
      by_cases hrs : r = s
      · subst hrs
        rw [if_pos rfl] at h1
        rw [if_pos ⟨rfl, hsb⟩]
        rw [hbag] at hb
        by_cases htr : t = r
        · rw [if_pos htr] at h2 ⊢; omega
        · rw [if_neg htr] at h2 ⊢; omega
      · rw [if_neg hrs] at h1
        rw [if_neg (fun h => hrs h.1)]
        by_cases htr : t = r
        · rw [if_pos htr] at h2 ⊢; omega
        · rw [if_neg htr] at h2 ⊢; omega
    · intro r
      have h1 := hneed r
      have hro := hi.room r
      simp only [Net.need] at hro ⊢
      rw [getD_set st.bags]
      by_cases hrs : r = s
      · subst hrs
        rw [if_pos rfl] at h1
        rw [if_pos ⟨rfl, hsb⟩]
        rw [hbag] at hro; omega
      · rw [if_neg hrs] at h1
        rw [if_neg (fun h => hrs h.1)]; omega
    · intro m hm
      simp only [List.length_set]
      rcases List.mem_append.mp hm with h1 | h1
      · exact hi.fdest m h1
      · simp only [List.mem_singleton] at h1
        subst h1
        exact hi.tdest _ hmem _ (List.mem_cons_self) t n rfl
    · intro l' hl' a ha t' n' hat
      simp only [List.length_set]
      rcases List.mem_or_eq_of_mem_set hl' with h1 | h1
      · exact hi.tdest l' h1 a ha t' n' hat
      · subst h1; exact hi.tdest _ hmem a (List.mem_cons_of_mem _ ha) t' n' hat
  · -- no shuffle actions in a rebalance
    have hmem : (Act.shuf :: rest) ∈ st.todo := List.mem_of_getElem? ht
    have := hi.pops _ hmem Act.shuf List.mem_cons_self
    simp [Act.isPop] at this
  · -- a shipped vector is executed
    have hperm := perm_cons_eraseIdx st.flight k m hm
    refine ⟨by simpa using hi.len, hi.pops, ?_, ?_, ?_, ?_⟩
    · intro r hr
      have hr' : r < st.bags.length := by simpa using hr
      have hb := hi.bal r hr'
      simp only [Net.load, Net.owed, Net.need] at hb ⊢
      rw [length_getD_modify_append]
      have := recv_perm hperm r
      rw [recv_cons] at this
      by_cases hmr : m.dest = r
      · simp only [hmr, hr', and_self, if_true] at this ⊢; omega
      · simp only [hmr, false_and, if_false] at this ⊢; omega
    · intro s
      have := hi.room s
      simp only [Net.need] at this ⊢
      rw [length_getD_modify_append]; omega
    · intro x hx
      simp only [List.length_modify]
      exact hi.fdest x (List.mem_of_mem_eraseIdx hx)
    · intro l' hl' a ha t' n' hat
      simp only [List.length_modify]
      exact hi.tdest l' hl' a ha t' n' hat

theorem RInv.run {target : Nat → Nat} {st st' : Net α} {evs : List Ev} (hi : RInv target st)
    (h : st.run evs = some st') : RInv target st' := by
  induction evs generalizing st with
  | nil => simp only [Net.run, Option.some.injEq] at h; subst h; exact hi
  | cons e es ih =>
    simp only [Net.run] at h
    cases h1 : st.step e with
    | none => simp [h1] at h
    | some st1 =>
      simp only [h1, Option.bind_some] at h
      exact ih (hi.step h1) h

/-- when everything is done, every rank holds its target -/
theorem RInv.final {target : Nat → Nat} {st : Net α} (hi : RInv target st) (hd : st.done = true) (r : Nat)
    (hr : r < st.bags.length) : (st.bags.getD r []).length = target r := by
  obtain ⟨hf, ht⟩ := Net.done_inv hd
  have hb := hi.bal r hr
  have hall : ∀ s, st.todo.getD s [] = [] := by
    intro s
    rw [List.getD_eq_getElem?_getD]
    cases hs : st.todo[s]? with
    | none => rfl
    | some l => exact ht l (List.mem_of_getElem? hs)
  simp only [Net.load, Net.owed, Net.need, hf, recv_nil, hall, needOf, owedAt] at hb
  simp only [List.filter_nil, List.map_nil, List.sum_nil] at hb
  rw [sum_map_zero] at hb
  omega

/-- **no abort in any interleaving**: in a state satisfying the invariant every enabled event succeeds
(`local_pop`'s assertion holds, the destination is a rank of the communicator) -/
theorem RInv.progress {target : Nat → Nat} {st : Net α} (hi : RInv target st) :
    (∀ s ds a rest, st.todo[s]? = some (a :: rest) → (st.step (.act s ds)).isSome = true) ∧
    (∀ k, k < st.flight.length → (st.step (.recv k)).isSome = true) := by
  constructor
  · intro s ds a rest ht
    have hs : s < st.todo.length := (List.getElem?_eq_some_iff.mp ht).1
    have hsb : s < st.bags.length := by rw [← hi.len]; exact hs
    have hmem : (a :: rest) ∈ st.todo := List.mem_of_getElem? ht
    have hpop := hi.pops _ hmem a List.mem_cons_self
    cases a with
    | shuf => simp [Act.isPop] at hpop
    | pop t n =>
      have hroom := hi.room s
      simp only [Net.need, List.getD_eq_getElem?_getD, ht, Option.getD_some, needOf, List.map_cons, List.sum_cons,
        Act.size, List.getElem?_eq_getElem hsb] at hroom
      simp only [Net.step, ht, List.getElem?_eq_getElem hsb]
      have : n ≤ (st.bags[s]).length := by omega
      simp [localPop, this]
  · intro k hk
    have hm := hi.fdest st.flight[k] (List.getElem_mem hk)
    simp [Net.step, List.getElem?_eq_getElem hk, hm]

end YgmVerif.BagOps
