import YgmVerif.Model.BagOps
import YgmVerif.Props.C10
/-! Helper lemmas for the bag model (`BagOps`): sums, permutations of flattened vectors,
counting of rebalance targets. -/
namespace YgmVerif.BagOps
open YgmVerif.Part

variable {α : Type}

/-! ### sums over `List.range` -/

theorem sum_map_add (L : List Nat) (f g : Nat → Nat) :
    (L.map (fun t => f t + g t)).sum = (L.map f).sum + (L.map g).sum := by
  induction L with
  | nil => rfl
  | cons x xs ih => simp only [List.map_cons, List.sum_cons, ih]; omega

theorem sum_map_congr (L : List Nat) (f g : Nat → Nat) (h : ∀ t ∈ L, f t = g t) :
    (L.map f).sum = (L.map g).sum := by
  induction L with
  | nil => rfl
  | cons x xs ih =>
    simp only [List.map_cons, List.sum_cons]
    rw [h x (by simp), ih (fun t ht => h t (by simp [ht]))]

theorem sum_map_zero (L : List Nat) : (L.map (fun _ => 0)).sum = 0 := by
  induction L with
  | nil => rfl
  | cons x xs ih => rw [List.map_cons, List.sum_cons, ih]

/-- a sum that is non-zero at one index only -/
theorem sum_indicator (n r : Nat) (h : Nat → Nat) :
    ((List.range n).map (fun t => if t = r then h t else 0)).sum = if r < n then h r else 0 := by
  induction n with
  | zero => simp
  | succ n ih =>
    rw [List.range_succ, List.map_append, List.sum_append, ih]
    simp only [List.map_cons, List.map_nil, List.sum_cons, List.sum_nil]
    by_cases h1 : r < n
    · have : ¬ (n = r) := by omega
      simp [h1, this]; omega
    · by_cases h2 : n = r
      · subst h2; simp
      · have : ¬ (r < n + 1) := by omega
        simp [h1, h2, this]

theorem sum_filter_map (L : List Nat) (p : Nat → Bool) (g : Nat → Nat) :
    ((L.filter p).map g).sum = (L.map (fun t => if p t then g t else 0)).sum := by
  induction L with
  | nil => rfl
  | cons x xs ih =>
    rw [List.filter_cons]
    by_cases hp : p x = true
    · simp [hp, ih]
    · simp [hp, ih]

theorem sum_filter_pos (L : List Nat) (g : Nat → Nat) :
    ((L.filter (fun t => g t > 0)).map g).sum = (L.map g).sum := by
  rw [sum_filter_map]
  apply sum_map_congr
  intro t _
  by_cases h : g t > 0
  · simp [h]
  · have : g t = 0 := by omega
    simp [this]

/-! ### flattened vectors -/

theorem flatten_modify_append (L : List (List α)) (d : Nat) (xs : List α) (h : d < L.length) :
    (L.modify d (· ++ xs)).flatten.Perm (L.flatten ++ xs) := by
  induction L generalizing d with
  | nil => simp at h
  | cons l L ih =>
    cases d with
    | zero =>
      simp only [List.modify_zero_cons, List.flatten_cons, List.append_assoc]
      exact List.Perm.append_left l List.perm_append_comm
    | succ d =>
      simp only [List.modify_succ_cons, List.flatten_cons, List.append_assoc]
      exact List.Perm.append_left l (ih d (by simpa using h))

theorem flatten_set_perm (L : List (List α)) (r : Nat) (old new : List α) (h : L[r]? = some old)
    (hp : new.Perm old) : (L.set r new).flatten.Perm L.flatten := by
  induction L generalizing r with
  | nil => simp at h
  | cons l L ih =>
    cases r with
    | zero =>
      simp only [List.getElem?_cons_zero, Option.some.injEq] at h
      subst h
      simp only [List.set_cons_zero, List.flatten_cons]
      exact List.Perm.append_right _ hp
    | succ r =>
      simp only [List.getElem?_cons_succ] at h
      simp only [List.set_cons_succ, List.flatten_cons]
      exact List.Perm.append_left l (ih r h)

theorem length_getD_modify_append (L : List (List α)) (d r : Nat) (xs : List α) :
    ((L.modify d (· ++ xs)).getD r []).length =
      (L.getD r []).length + (if d = r ∧ r < L.length then xs.length else 0) := by
  simp only [List.getD_eq_getElem?_getD, List.getElem?_modify]
  by_cases hr : r < L.length
  · rw [List.getElem?_eq_getElem hr]
    by_cases hd : d = r
    · simp [hd, hr]
    · simp [hd]
  · rw [List.getElem?_eq_none (by omega)]
    simp [hr]

/-! ### delivery -/

/-- number of items the messages `ms` bring to rank `d` -/
def recv (ms : List (Msg α)) (d : Nat) : Nat := ((ms.filter (fun m => m.dest == d)).map (fun m => m.items.length)).sum

theorem recv_nil (d : Nat) : recv ([] : List (Msg α)) d = 0 := rfl

theorem recv_cons (m : Msg α) (ms : List (Msg α)) (d : Nat) :
    recv (m :: ms) d = (if m.dest = d then m.items.length else 0) + recv ms d := by
  unfold recv
  rw [List.filter_cons]
  by_cases h : m.dest = d
  · simp [h]
  · simp [h]

theorem recv_append (ms ms' : List (Msg α)) (d : Nat) : recv (ms ++ ms') d = recv ms d + recv ms' d := by
  unfold recv; simp [List.filter_append]

theorem recv_perm {ms ms' : List (Msg α)} (h : ms.Perm ms') (d : Nat) : recv ms d = recv ms' d := by
  unfold recv
  exact ((h.filter _).map _).sum_nat

theorem recv_flatMap {β : Type} (L : List β) (f : β → List (Msg α)) (d : Nat) :
    recv (L.flatMap f) d = (L.map (fun x => recv (f x) d)).sum := by
  induction L with
  | nil => rfl
  | cons x xs ih => simp [List.flatMap_cons, recv_append, ih]

theorem deliver_inv {b b' : Bag α} {m : Msg α} (h : deliver b m = some b') :
    m.dest < b.bags.length ∧ b' = { b with bags := b.bags.modify m.dest (· ++ m.items) } := by
  unfold deliver at h
  split at h
  · exact ⟨by assumption, (Option.some.inj h).symm⟩
  · simp at h

/-- everything a successful batch of deliveries does -/
theorem deliverAll_spec {b b' : Bag α} {ms : List (Msg α)} (h : deliverAll b ms = some b') :
    b'.ranks = b.ranks ∧ b'.rr = b.rr ∧ b'.bags.length = b.bags.length ∧
    (items b').Perm (items b ++ ms.flatMap (·.items)) ∧
    (∀ r, (b'.bags.getD r []).length = (b.bags.getD r []).length + recv ms r) ∧
    (∀ m ∈ ms, m.dest < b.bags.length) := by
  induction ms generalizing b with
  | nil =>
    simp only [deliverAll, Option.some.injEq] at h
    subst h
    simp [recv_nil]
  | cons m ms ih =>
    simp only [deliverAll] at h
    cases h1 : deliver b m with
    | none => simp [h1] at h
    | some b1 =>
      simp only [h1, Option.bind_some] at h
      obtain ⟨hd, rfl⟩ := deliver_inv h1
      obtain ⟨e1, e2, e3, e4, e5, e6⟩ := ih h
      simp only [List.length_modify] at e3 e6
      refine ⟨e1, e2, e3, ?_, ?_, ?_⟩
      · refine e4.trans ?_
        simp only [items, List.flatMap_cons]
        rw [← List.append_assoc]
        exact List.Perm.append_right _ (flatten_modify_append _ _ _ hd)
      · intro r
        rw [e5 r, length_getD_modify_append, recv_cons]
        by_cases hr : m.dest = r
        · subst hr; simp [hd]; omega
        · simp [hr]
      · intro x hx
        rcases List.mem_cons.mp hx with rfl | hx
        · exact hd
        · exact e6 x hx

theorem deliverAll_some (b : Bag α) (ms : List (Msg α)) (h : ∀ m ∈ ms, m.dest < b.bags.length) :
    ∃ b', deliverAll b ms = some b' := by
  induction ms generalizing b with
  | nil => exact ⟨b, rfl⟩
  | cons m ms ih =>
    have hd := h m (by simp)
    simp only [deliverAll, deliver, hd, if_true, Option.bind_some]
    apply ih
    intro x hx
    simp only [List.length_modify]
    exact h x (by simp [hx])

/-! ### reordering by a permutation of positions -/

theorem filterMap_range_getElem? {γ : Type} (ms : List γ) :
    (List.range ms.length).filterMap (ms[·]?) = ms := by
  induction ms with
  | nil => rfl
  | cons x xs ih =>
    rw [List.length_cons, List.range_succ_eq_map, List.filterMap_cons]
    simp only [List.getElem?_cons_zero, List.filterMap_map]
    have : ((fun i => (x :: xs)[i]?) ∘ Nat.succ) = (fun i => xs[i]?) := by funext i; simp
    rw [this, ih]

theorem reorder_perm {γ : Type} (ms : List γ) (sched : List Nat) (h : sched.Perm (List.range ms.length)) :
    (reorder ms sched).Perm ms := by
  unfold reorder
  have := h.filterMap (ms[·]?)
  rw [filterMap_range_getElem?] at this
  exact this

theorem deliverSched_inv {b b' : Bag α} {ms : List (Msg α)} {sched : List Nat}
    (h : deliverSched b ms sched = some b') :
    (reorder ms sched).Perm ms ∧ deliverAll b (reorder ms sched) = some b' := by
  unfold deliverSched at h
  split at h
  case isTrue hp => exact ⟨reorder_perm ms sched (List.isPerm_iff.mp hp), h⟩
  case isFalse => simp at h

/-- a scheduled batch: same facts as `deliverAll_spec`, stated for the issued list `ms` -/
theorem deliverSched_spec {b b' : Bag α} {ms : List (Msg α)} {sched : List Nat}
    (h : deliverSched b ms sched = some b') :
    b'.ranks = b.ranks ∧ b'.rr = b.rr ∧ b'.bags.length = b.bags.length ∧
    (items b').Perm (items b ++ ms.flatMap (·.items)) ∧
    (∀ r, (b'.bags.getD r []).length = (b.bags.getD r []).length + recv ms r) ∧
    (∀ m ∈ ms, m.dest < b.bags.length) := by
  obtain ⟨hp, hd⟩ := deliverSched_inv h
  obtain ⟨e1, e2, e3, e4, e5, e6⟩ := deliverAll_spec hd
  refine ⟨e1, e2, e3, e4.trans (List.Perm.append_left _ (hp.flatMap_right _)), ?_, ?_⟩
  · intro r; rw [e5 r, recv_perm hp]
  · intro m hm; exact e6 m (hp.mem_iff.mpr hm)

theorem deliverSched_some (b : Bag α) (ms : List (Msg α)) (sched : List Nat)
    (hs : sched.Perm (List.range ms.length)) (h : ∀ m ∈ ms, m.dest < b.bags.length) :
    ∃ b', deliverSched b ms sched = some b' := by
  unfold deliverSched
  rw [if_pos (List.isPerm_iff.mpr hs)]
  apply deliverAll_some
  intro m hm
  exact h m ((reorder_perm ms sched hs).mem_iff.mp hm)

/-! ### counting rebalance targets -/

theorem cntT_add (tot ranks pre s1 s2 t : Nat) :
    cntT tot ranks pre (s1 + s2) t = cntT tot ranks pre s1 t + cntT tot ranks (pre + s1) s2 t := by
  simp [cntT, List.range_add, List.filter_append, List.filter_map, Function.comp_def, Nat.add_assoc]

theorem prefixOf_succ (szs : List Nat) (k : Nat) :
    prefixOf szs (k + 1) = prefixOf szs k + szs.getD k 0 := by
  unfold prefixOf
  rw [List.take_add_one, List.sum_append, List.getD_eq_getElem?_getD]
  cases szs[k]? <;> simp

theorem prefixOf_zero (szs : List Nat) : prefixOf szs 0 = 0 := by simp [prefixOf]

theorem prefixOf_length (szs : List Nat) : prefixOf szs szs.length = szs.sum := by simp [prefixOf]

theorem prefixOf_mono (szs : List Nat) {a b : Nat} (h : a ≤ b) : prefixOf szs a ≤ prefixOf szs b := by
  induction h with
  | refl => exact Nat.le_refl _
  | step _ ih => rw [prefixOf_succ]; omega

theorem prefixOf_le_sum (szs : List Nat) (k : Nat) : prefixOf szs k ≤ szs.sum := by
  by_cases h : k ≤ szs.length
  · rw [← prefixOf_length]; exact prefixOf_mono szs h
  · unfold prefixOf; rw [List.take_of_length_le (by omega)]; exact Nat.le_refl _

/-- the positions of ranks `0..k-1` are the positions `0 .. prefix k - 1` -/
theorem sum_cntT_prefix (tot ranks t : Nat) (szs : List Nat) (k : Nat) :
    ((List.range k).map (fun s => cntT tot ranks (prefixOf szs s) (szs.getD s 0) t)).sum =
      cntT tot ranks 0 (prefixOf szs k) t := by
  induction k with
  | zero => simp [prefixOf_zero, cntT]
  | succ k ih =>
    rw [List.range_succ, List.map_append, List.sum_append, ih, prefixOf_succ, cntT_add]
    simp

theorem length_filter_interval (n s z : Nat) :
    ((List.range n).filter (fun i => decide (s ≤ i ∧ i < s + z))).length = min (n - s) z := by
  induction n with
  | zero => simp
  | succ n ih =>
    rw [List.range_succ, List.filter_append, List.length_append, ih]
    by_cases h : s ≤ n ∧ n < s + z
    · simp [h]; omega
    · simp [h]; omega

/-- of the positions `0..tot-1`, exactly `localSize r` have target `r` -/
theorem cntT_total (tot ranks r : Nat) (hr : 0 < ranks) (hrr : r < ranks) :
    cntT tot ranks 0 tot r = localSize tot ranks r := by
  have hle : start tot ranks (r+1) ≤ start tot ranks ranks := start_mono _ _ (by omega)
  rw [start_succ, start_ranks _ _ hr] at hle
  unfold cntT
  have : (List.range tot).filter (fun i => rebalanceTarget tot ranks (0 + i) == some r) =
      (List.range tot).filter (fun i => decide (start tot ranks r ≤ i ∧ i < start tot ranks r + localSize tot ranks r)) := by
    apply List.filter_congr
    intro i hi
    have hi' : i < tot := List.mem_range.mp hi
    simp only [Nat.zero_add, rebalanceTarget]
    obtain ⟨q, hq, _, hq1, hq2⟩ := owner_spec tot ranks i hr hi'
    by_cases hc : start tot ranks r ≤ i ∧ i < start tot ranks r + localSize tot ranks r
    · rw [owner_unique tot ranks i r hr hi' hc.1 hc.2]; simp [hc]
    · rw [hq]
      have : q ≠ r := by rintro rfl; exact hc ⟨hq1, hq2⟩
      simp [hc, this]
  rw [this, length_filter_interval]
  omega

/-- every position has exactly one target below `ranks` -/
theorem sum_cntT_ranks (tot ranks pre sz : Nat) (hr : 0 < ranks) (h : pre + sz ≤ tot) :
    ((List.range ranks).map (cntT tot ranks pre sz)).sum = sz := by
  induction sz with
  | zero =>
    have : cntT tot ranks pre 0 = fun _ => 0 := by funext t; simp [cntT]
    rw [this]
    exact sum_map_zero _
  | succ sz ih =>
    have hstep : ∀ t, cntT tot ranks pre (sz + 1) t =
        cntT tot ranks pre sz t + (if t = (rebalanceTarget tot ranks (pre + sz)).getD ranks then 1 else 0) := by
      intro t
      obtain ⟨q, hq, hqr, _, _⟩ := owner_spec tot ranks (pre + sz) hr (by omega)
      unfold cntT
      rw [List.range_succ, List.filter_append, List.length_append]
      simp only [rebalanceTarget, hq, Option.getD_some]
      by_cases ht : t = q
      · subst ht; simp [hq]
      · have : ¬ (q = t) := fun h => ht h.symm
        simp [hq, ht, this]
    have hfun : (cntT tot ranks pre (sz + 1)) = fun t =>
        cntT tot ranks pre sz t + (if t = (rebalanceTarget tot ranks (pre + sz)).getD ranks then 1 else 0) := by
      funext t; exact hstep t
    rw [hfun, sum_map_add, ih (by omega), sum_indicator]
    obtain ⟨q, hq, hqr, _, _⟩ := owner_spec tot ranks (pre + sz) hr (by omega)
    simp [rebalanceTarget, hq, hqr]

theorem no_traps (tot ranks pre sz : Nat) (hr : 0 < ranks) (h : pre + sz ≤ tot) :
    traps tot ranks pre sz = false := by
  unfold traps
  rw [Bool.eq_false_iff]
  intro hc
  rw [List.any_eq_true] at hc
  obtain ⟨i, hi, hn⟩ := hc
  have hi' := List.mem_range.mp hi
  obtain ⟨q, hq, _⟩ := owner_spec tot ranks (pre + i) hr (by omega)
  simp [rebalanceTarget, hq] at hn

/-- what a rank sends plus what it keeps is what it holds -/
theorem sum_sendCount (tot ranks pre sz r : Nat) (hr : 0 < ranks) (hrr : r < ranks) (h : pre + sz ≤ tot) :
    ((List.range ranks).map (sendCount tot ranks pre sz r)).sum + cntT tot ranks pre sz r = sz := by
  have h1 := sum_cntT_ranks tot ranks pre sz hr h
  have h2 : (List.range ranks).map (cntT tot ranks pre sz) =
      (List.range ranks).map (fun t => sendCount tot ranks pre sz r t + (if t = r then cntT tot ranks pre sz t else 0)) := by
    apply List.map_congr_left
    intro t _
    unfold sendCount
    by_cases ht : t = r <;> simp [ht]
  rw [h2, sum_map_add, sum_indicator] at h1
  simp only [hrr, if_true] at h1
  exact h1

theorem sum_sendKeys (tot ranks pre sz r : Nat) :
    ((sendKeys tot ranks pre sz r).map (sendCount tot ranks pre sz r)).sum =
      ((List.range ranks).map (sendCount tot ranks pre sz r)).sum := by
  unfold sendKeys
  exact sum_filter_pos _ _

/-- through the keys of `to_send`, rank `d < ranks` is sent `sendCount d` items -/
theorem sum_sendKeys_at (tot ranks pre sz r d : Nat) (hd : d < ranks) :
    (((sendKeys tot ranks pre sz r).filter (fun t => t == d)).map (sendCount tot ranks pre sz r)).sum =
      sendCount tot ranks pre sz r d := by
  unfold sendKeys
  rw [List.filter_filter, sum_filter_map]
  have : ((List.range ranks).map (fun t => if ((t == d) && decide (sendCount tot ranks pre sz r t > 0)) = true
        then sendCount tot ranks pre sz r t else 0)).sum =
      ((List.range ranks).map (fun t => if t = d then sendCount tot ranks pre sz r t else 0)).sum := by
    apply sum_map_congr
    intro t _
    by_cases ht : t = d
    · subst ht
      by_cases hp : sendCount tot ranks pre sz r t > 0
      · simp [hp]
      · have : sendCount tot ranks pre sz r t = 0 := by omega
        simp [this]
    · simp [ht]
  rw [this, sum_indicator]
  simp [hd]

/-! ### local_pop and the shipping loop -/

theorem localPop_inv {l kept popped : List α} {n : Nat} (h : localPop l n = some (kept, popped)) :
    n ≤ l.length ∧ kept ++ popped = l ∧ popped.length = n ∧ kept.length + n = l.length := by
  unfold localPop at h
  split at h
  case isTrue hn =>
    simp only [Option.some.injEq, Prod.mk.injEq] at h
    obtain ⟨rfl, rfl⟩ := h
    refine ⟨hn, List.take_append_drop _ _, ?_, ?_⟩
    · simp; omega
    · simp; omega
  case isFalse => simp at h

/-- the loop over `to_send`: destinations and sizes of the shipped vectors, and what is left -/
theorem ship_spec (cnt : Nat → Nat) {l k : List α} {ord : List Nat} {ms : List (Msg α)}
    (h : ship cnt l ord = some (k, ms)) :
    ms.map (·.dest) = ord ∧ ms.map (fun m => m.items.length) = ord.map cnt ∧
    k.length + (ord.map cnt).sum = l.length ∧ l = k ++ ms.reverse.flatMap (·.items) := by
  induction ord generalizing l k ms with
  | nil =>
    simp only [ship, Option.some.injEq, Prod.mk.injEq] at h
    obtain ⟨rfl, rfl⟩ := h
    simp
  | cons t ts ih =>
    simp only [ship] at h
    split at h
    case h_1 => simp at h
    case h_2 kept popped hpop =>
    cases hs : ship cnt kept ts with
    | none => simp [hs] at h
    | some p =>
      obtain ⟨k', ms'⟩ := p
      simp only [hs, Option.map_some, Option.some.injEq, Prod.mk.injEq] at h
      obtain ⟨rfl, rfl⟩ := h
      obtain ⟨e1, e2, e3, e4⟩ := ih hs
      obtain ⟨_, p2, p3, p4⟩ := localPop_inv hpop
      refine ⟨by simp [e1], by simp [e2, p3], ?_, ?_⟩
      · simp only [List.map_cons, List.sum_cons]; omega
      · rw [← p2, e4]; simp

theorem ship_some (cnt : Nat → Nat) (l : List α) (ord : List Nat) (h : (ord.map cnt).sum ≤ l.length) :
    ∃ k ms, ship cnt l ord = some (k, ms) := by
  induction ord generalizing l with
  | nil => exact ⟨l, [], rfl⟩
  | cons t ts ih =>
    simp only [List.map_cons, List.sum_cons] at h
    have hn : cnt t ≤ l.length := by omega
    simp only [ship, localPop, hn, if_true]
    obtain ⟨k, ms, hk⟩ := ih (l.take (l.length - cnt t)) (by simp; omega)
    exact ⟨k, _, by rw [hk]; rfl⟩

/-- items received by `d` from a list of messages with known destinations and sizes -/
theorem recv_of_maps (g : Nat → Nat) {ms : List (Msg α)} {ord : List Nat}
    (h1 : ms.map (·.dest) = ord) (h2 : ms.map (fun m => m.items.length) = ord.map g) (d : Nat) :
    recv ms d = ((ord.filter (fun t => t == d)).map g).sum := by
  induction ms generalizing ord with
  | nil => simp at h1; subst h1; rfl
  | cons m ms ih =>
    cases ord with
    | nil => simp at h1
    | cons t ts =>
      simp only [List.map_cons, List.cons.injEq] at h1 h2
      rw [recv_cons, ih h1.2 h2.2, List.filter_cons]
      by_cases hd : t = d
      · simp [h1.1, hd]; rw [h2.1, hd]
      · simp [h1.1, hd]

/-! ### allSome -/

theorem allSome_eq_some {γ : Type} {L : List (Option γ)} {l : List γ} (h : allSome L = some l) :
    L = l.map some := by
  induction L generalizing l with
  | nil => simp only [allSome, Option.some.injEq] at h; subst h; rfl
  | cons x xs ih =>
    cases x with
    | none => simp [allSome] at h
    | some x =>
      simp only [allSome] at h
      cases hx : allSome xs with
      | none => simp [hx] at h
      | some l' =>
        simp only [hx, Option.map_some, Option.some.injEq] at h
        subst h
        simp [ih hx]

theorem allSome_of_forall {γ : Type} (L : List (Option γ)) (h : ∀ x ∈ L, x.isSome) : ∃ l, allSome L = some l := by
  induction L with
  | nil => exact ⟨[], rfl⟩
  | cons x xs ih =>
    cases x with
    | none => have := h none (by simp); simp at this
    | some x =>
      obtain ⟨l, hl⟩ := ih (fun y hy => h y (by simp [hy]))
      exact ⟨x :: l, by simp [allSome, hl]⟩

theorem allSome_map_range {γ : Type} {f : Nat → Option γ} {n : Nat} {plan : List γ}
    (h : allSome ((List.range n).map f) = some plan) :
    plan.length = n ∧ ∀ r, r < n → f r = plan[r]? := by
  have e := allSome_eq_some h
  have hl : plan.length = n := by
    have := congrArg List.length e; simp at this; omega
  refine ⟨hl, ?_⟩
  intro r hr
  have := congrArg (fun L => L[r]?) e
  simp only [List.getElem?_map, List.getElem?_range hr, Option.map_some] at this
  cases hp : plan[r]? with
  | none => rw [hp] at this; simp at this
  | some p => rw [hp] at this; simpa using this

/-! ### one rank's part of rebalance -/

theorem rebalanceRank_spec {tot ranks pre r : Nat} {l k : List α} {ord : List Nat} {ms : List (Msg α)}
    (hr : 0 < ranks) (hrr : r < ranks) (hle : pre + l.length ≤ tot)
    (h : rebalanceRank tot ranks pre r l ord = some (k, ms)) :
    k.length = cntT tot ranks pre l.length r ∧
    (∀ d, d < ranks → recv ms d = sendCount tot ranks pre l.length r d) ∧
    l = k ++ ms.reverse.flatMap (·.items) ∧
    (∀ m ∈ ms, m.dest < ranks) := by
  unfold rebalanceRank at h
  rw [no_traps tot ranks pre l.length hr hle] at h
  simp only [Bool.false_eq_true, if_false] at h
  split at h
  case isFalse => simp at h
  case isTrue hp =>
  have hperm := List.isPerm_iff.mp hp
  obtain ⟨e1, e2, e3, e4⟩ := ship_spec _ h
  have hsum : (ord.map (sendCount tot ranks pre l.length r)).sum =
      ((List.range ranks).map (sendCount tot ranks pre l.length r)).sum := by
    rw [(hperm.map _).sum_nat, sum_sendKeys]
  have htot := sum_sendCount tot ranks pre l.length r hr hrr hle
  refine ⟨by omega, ?_, e4, ?_⟩
  · intro d hd
    rw [recv_of_maps _ e1 e2 d, ((hperm.filter _).map _).sum_nat, sum_sendKeys_at _ _ _ _ _ _ hd]
  · intro m hm
    have : m.dest ∈ ord := by rw [← e1]; exact List.mem_map_of_mem hm
    have := hperm.mem_iff.mp this
    unfold sendKeys at this
    exact List.mem_range.mp (List.mem_filter.mp this).1

theorem rebalanceRank_some {tot ranks pre r : Nat} (l : List α) {ord : List Nat}
    (hr : 0 < ranks) (hrr : r < ranks) (hle : pre + l.length ≤ tot)
    (hp : ord.Perm (sendKeys tot ranks pre l.length r)) :
    ∃ k ms, rebalanceRank tot ranks pre r l ord = some (k, ms) := by
  unfold rebalanceRank
  rw [no_traps tot ranks pre l.length hr hle]
  simp only [Bool.false_eq_true, if_false, List.isPerm_iff.mpr hp, if_true]
  apply ship_some
  rw [(hp.map _).sum_nat, sum_sendKeys]
  have := sum_sendCount tot ranks pre l.length r hr hrr hle
  omega

end YgmVerif.BagOps
