import YgmVerif.Model.BarrierME
import YgmVerif.Lemmas.Barrier
/-!
Invariant proof for the multi-epoch barrier model: relation-style `Step` (one constructor per label), the
22-clause invariant `Inv` (the epoch-agnostic clauses of the single-epoch proof + the epoch-boundary clauses
`bIn bOut bBase j2 bDef` + the history clauses `hI preI deadI` indexed by epoch), `inv_init`, `inv_step` clause by
clause, and the final arithmetic `exit_dead`.
-/
namespace YgmVerif.BarrierME
open YgmVerif.Barrier (sumTo upd b2n upd_same upd_other sumTo_congr sumTo_change sumTo_le sandwich sumTo_ind_full
  sumTo_ind_lt sumTo_zero_all b2n_false b2n_true sumTo_upd sumTo_b2n_upd sumTo_const_zero)

inductive Step (n : Nat) : Sys → Sys → Prop where
  | issue (s : Sys) (r : Nat) (hr : r < n) (h : s.inBar r = false ∨ s.busy r = true) :
      Step n s { s with sent := upd s.sent r (s.sent r + 1), und := s.und + 1 }
  | start (s : Sys) (r : Nat) (hr : r < n) (hu : 0 < s.und) (hb : s.busy r = false) :
      Step n s { s with busy := upd s.busy r true, und := s.und - 1 }
  | finish (s : Sys) (r : Nat) (hr : r < n) (hb : s.busy r = true) :
      Step n s { s with busy := upd s.busy r false, recvd := upd s.recvd r (s.recvd r + 1) }
  | regcb (s : Sys) (r : Nat) (hr : r < n) (h : s.inBar r = false ∨ s.busy r = true) :
      Step n s { s with cbs := upd s.cbs r (s.cbs r + 1) }
  | runcb (s : Sys) (r k j : Nat) (hr : r < n) (hc : 0 < s.cbs r) (hb : s.busy r = false) :
      Step n s { s with cbs := upd s.cbs r (s.cbs r - 1 + j), sent := upd s.sent r (s.sent r + k),
                        und := s.und + k }
  | enter (s : Sys) (r : Nat) (hr : r < n) (hi : s.inBar r = false) (hb : s.busy r = false) :
      Step n s { s with inBar := upd s.inBar r true, prev := upd s.prev r (1, 2), cur := upd s.cur r (3, 4),
                        base := upd s.base r (s.rounds r) }
  | contribute (s : Sys) (r : Nat) (hr : r < n) (hi : s.inBar r = true) (hb : s.busy r = false)
      (hc : s.cbs r = 0) (hg : s.rounds r = s.got r)
      (hx : ¬ ((s.cur r).1 = (s.cur r).2 ∧ s.prev r = s.cur r)) :
      Step n s { s with
        rounds := upd s.rounds r (s.rounds r + 1),
        cnt := upd s.cnt (s.rounds r) (s.cnt (s.rounds r) + 1),
        accS := upd s.accS (s.rounds r) (s.accS (s.rounds r) + s.sent r),
        accR := upd s.accR (s.rounds r) (s.accR (s.rounds r) + s.recvd r),
        snapS := upd s.snapS (s.rounds r) (upd (s.snapS (s.rounds r)) r (s.sent r)),
        snapR := upd s.snapR (s.rounds r) (upd (s.snapR (s.rounds r)) r (s.recvd r)),
        gS := if s.cnt (s.rounds r) = 0 then upd s.gS (s.rounds r) s.sent else s.gS,
        gR := if s.cnt (s.rounds r) = 0 then upd s.gR (s.rounds r) s.recvd else s.gR,
        gPre := if s.cnt (s.rounds r) = 0 then upd s.gPre (s.rounds r) (Pre n s (s.rounds r)) else s.gPre,
        gDead := if s.cnt (s.rounds r) = 0 then upd s.gDead (s.rounds r) (Dead n s) else s.gDead }
  | result (s : Sys) (r : Nat) (hr : r < n) (hi : s.inBar r = true) (hg : s.rounds r = s.got r + 1)
      (hc : s.cnt (s.got r) = n) :
      Step n s { s with
        prev := upd s.prev r (s.cur r),
        cur := upd s.cur r (s.accR (s.got r), s.accS (s.got r)),
        got := upd s.got r (s.got r + 1) }
  | exit (s : Sys) (r : Nat) (hr : r < n) (hi : s.inBar r = true) (hg : s.rounds r = s.got r)
      (h1 : (s.cur r).1 = (s.cur r).2) (h2 : s.prev r = s.cur r) :
      Step n s { s with inBar := upd s.inBar r false, epoch := upd s.epoch r (s.epoch r + 1),
                        bnd := upd s.bnd (s.epoch r + 1) (s.rounds r) }

def ExitEnabled (s : Sys) (r : Nat) : Prop :=
  s.inBar r = true ∧ s.rounds r = s.got r ∧ (s.cur r).1 = (s.cur r).2 ∧ s.prev r = s.cur r

/-- the exit rule evaluated on the (global) results of rounds j and j+1, i.e. "a rank may leave at index j+2" -/
def RuleAt (s : Sys) (j : Nat) : Prop :=
  s.accR (j+1) = s.accS (j+1) ∧ s.accR j = s.accR (j+1) ∧ s.accS j = s.accS (j+1)

inductive Reachable (n : Nat) : Sys → Prop where
  | init : Reachable n init
  | step (s s' : Sys) (h : Reachable n s) (st : Step n s s') : Reachable n s'

structure Inv (n : Nat) (s : Sys) : Prop where
  ledger : s.und + sumTo n (fun r => b2n (s.busy r)) + sumTo n s.recvd = sumTo n s.sent
  rg : ∀ r, r < n → s.got r ≤ s.rounds r ∧ s.rounds r ≤ s.got r + 1
  cntI : ∀ k, s.cnt k = sumTo n (fun r => if k < s.rounds r then 1 else 0)
  accSI : ∀ k, s.accS k = sumTo n (fun r => if k < s.rounds r then s.snapS k r else 0)
  accRI : ∀ k, s.accR k = sumTo n (fun r => if k < s.rounds r then s.snapR k r else 0)
  monoNow : ∀ r, r < n → ∀ k, k < s.rounds r → s.snapS k r ≤ s.sent r ∧ s.snapR k r ≤ s.recvd r
  monoSnap : ∀ r, r < n → ∀ k, k + 1 < s.rounds r →
      s.snapS k r ≤ s.snapS (k+1) r ∧ s.snapR k r ≤ s.snapR (k+1) r
  gotC : ∀ r, r < n → ∀ k, k < s.got r → s.cnt k = n
  gLow : ∀ k, 0 < s.cnt (k+1) → ∀ r, r < n → s.snapS k r ≤ s.gS (k+1) r ∧ s.snapR k r ≤ s.gR (k+1) r
  gHigh : ∀ k, 0 < s.cnt k → ∀ r, r < n → k < s.rounds r →
      s.gS k r ≤ s.snapS k r ∧ s.gR k r ≤ s.snapR k r
  ord : ∀ k, 0 < s.cnt (k+1) → s.cnt k = n
  gNow : ∀ k, 0 < s.cnt k → ∀ r, r < n → s.gS k r ≤ s.sent r ∧ s.gR k r ≤ s.recvd r
  /-- the result pairs a rank holds are the sentinels / the global sums of its last two rounds of THIS barrier -/
  res : ∀ r, r < n → s.inBar r = true →
        (s.got r = s.base r → s.cur r = (3,4)) ∧
        (s.got r = s.base r + 1 → s.prev r = (3,4)) ∧
        (∀ k, s.base r ≤ k → s.got r = k + 1 → s.cur r = (s.accR k, s.accS k)) ∧
        (∀ k, s.base r ≤ k → s.got r = k + 2 → s.prev r = (s.accR k, s.accS k))
  /-- (J1) a rank inside barrier e started it at round `bnd e` -/
  bIn : ∀ r, r < n → s.inBar r = true → s.base r = s.bnd (s.epoch r)
  /-- a rank outside a barrier has consumed everything it contributed and stands at the boundary of its epoch -/
  bOut : ∀ r, r < n → s.inBar r = false → s.rounds r = s.bnd (s.epoch r) ∧ s.got r = s.rounds r
  bBase : ∀ r, r < n → s.inBar r = true → s.base r ≤ s.got r
  /-- (J2) a rank has gone past no index of its barrier at which the exit rule held -/
  j2 : ∀ r, r < n → s.inBar r = true → ∀ j, s.base r ≤ j → j + 2 < s.rounds r → ¬ RuleAt s j
  /-- a completed epoch e ends at the FIRST index ≥ bnd e + 2 at which the rule holds (on complete rounds) -/
  bDef : ∀ q, q < n → ∀ e, e < s.epoch q → ∃ m, s.bnd (e+1) = m + 2 ∧ s.bnd e ≤ m ∧ s.cnt (m+1) = n ∧
        RuleAt s m ∧ ∀ j, s.bnd e ≤ j → j < m → ¬ RuleAt s j
  cbI : ∀ r, r < n → s.inBar r = true → ∀ k, s.base r ≤ k → s.rounds r = k + 1 → 0 < s.cbs r →
        s.busy r = true ∨ s.snapR k r < s.recvd r
  hI : ∀ k e, 0 < s.cnt (k+1) → sumTo n (s.gS (k+1)) = sumTo n (s.gR (k+1)) →
        (∀ r, r < n → s.gR (k+1) r = s.snapR k r) → s.gPre (k+1) e → s.gDead (k+1) e
  preI : ∀ k e, 0 < s.cnt k → AllLe n s e →
        (∃ r, r < n ∧ s.inBar r = true ∧ s.epoch r = e ∧ s.base r < k ∧ k ≤ s.rounds r) → s.gPre k e
  deadI : ∀ k e, 0 < s.cnt k → s.gDead k e → AllLe n s e → Dead n s e

theorem all_rounds_gt {n : Nat} {s : Sys} (hi : Inv n s) (k : Nat) (h : s.cnt k = n) :
    ∀ r, r < n → k < s.rounds r := by
  intro r hr
  have := hi.cntI k
  rw [h] at this
  have e : sumTo n (fun r => if decide (k < s.rounds r) = true then 1 else 0) = n := by
    have e2 : sumTo n (fun r => if decide (k < s.rounds r) = true then 1 else 0)
        = sumTo n (fun r => if k < s.rounds r then 1 else 0) := by
      apply sumTo_congr; intro i _; simp
    rw [e2]; exact this.symm
  have := sumTo_ind_full n (fun r => decide (k < s.rounds r)) e r hr
  simpa using this

theorem none_rounds_gt {n : Nat} {s : Sys} (hi : Inv n s) (k : Nat) (h : s.cnt k = 0) :
    ∀ r, r < n → ¬ k < s.rounds r := by
  intro r hr hlt
  have := hi.cntI k
  rw [h] at this
  have := sumTo_zero_all n _ this.symm r hr
  simp [hlt] at this
theorem step_ledger {n : Nat} {s s' : Sys} (hi : Inv n s) (st : Step n s s') :
    s'.und + sumTo n (fun r => b2n (s'.busy r)) + sumTo n s'.recvd = sumTo n s'.sent := by
  have hl := hi.ledger
  cases st with
  | issue r hr h =>
    simp only
    have := sumTo_upd n s.sent r (s.sent r + 1) hr
    omega
  | start r hr hu hb =>
    simp only
    have := sumTo_b2n_upd n s.busy r true hr
    rw [hb, b2n_false, b2n_true] at this
    omega
  | finish r hr hb =>
    simp only
    have a := sumTo_b2n_upd n s.busy r false hr
    rw [hb, b2n_false, b2n_true] at a
    have b := sumTo_upd n s.recvd r (s.recvd r + 1) hr
    omega
  | regcb r hr h => simpa using hl
  | runcb r k j hr hc hb =>
    simp only
    have := sumTo_upd n s.sent r (s.sent r + k) hr
    omega
  | enter r hr hi' hb => simpa using hl
  | contribute r hr hi' hb hc hg hx => simpa using hl
  | result r hr hi' hg hc => simpa using hl
  | exit r hr hi' hg h1 h2 => simpa using hl

theorem step_rg {n : Nat} {s s' : Sys} (hi : Inv n s) (st : Step n s s') :
    ∀ r, r < n → s'.got r ≤ s'.rounds r ∧ s'.rounds r ≤ s'.got r + 1 := by
  intro q hq
  have h0 := hi.rg q hq
  cases st with
  | issue r hr h => simpa using h0
  | start r hr hu hb => simpa using h0
  | finish r hr hb => simpa using h0
  | regcb r hr h => simpa using h0
  | runcb r k j hr hc hb => simpa using h0
  | enter r hr hi' hb => simpa using h0
  | contribute r hr hi' hb hc hg hx =>
    simp only
    by_cases e : q = r
    · subst e; simp; omega
    · simp [upd_other _ _ _ _ e]; exact h0
  | result r hr hi' hg hc =>
    simp only
    by_cases e : q = r
    · subst e; simp; omega
    · simp [upd_other _ _ _ _ e]; exact h0
  | exit r hr hi' hg h1 h2 => simpa using h0


theorem step_cntI {n : Nat} {s s' : Sys} (hi : Inv n s) (st : Step n s s') :
    ∀ k, s'.cnt k = sumTo n (fun r => if k < s'.rounds r then 1 else 0) := by
  intro k
  have h0 := hi.cntI k
  cases st with
  | issue r hr h => simpa using h0
  | start r hr hu hb => simpa using h0
  | finish r hr hb => simpa using h0
  | regcb r hr h => simpa using h0
  | runcb r k j hr hc hb => simpa using h0
  | enter r hr hi' hb => simpa using h0
  | contribute r hr hi' hb hc hg hx =>
    simp only
    have hch := sumTo_change n (fun q => if k < s.rounds q then 1 else 0)
      (fun q => if k < upd s.rounds r (s.rounds r + 1) q then 1 else 0) r hr
      (fun i _ hne => by simp [upd_other _ _ _ _ hne])
    simp only [upd_same] at hch
    by_cases e : k = s.rounds r
    · subst e
      simp only [upd_same]
      simp at hch
      omega
    · rw [upd_other _ _ _ _ e]
      have e1 : (k < s.rounds r + 1) = (k < s.rounds r) := by
        apply propext; constructor <;> intro h <;> omega
      simp only [e1] at hch
      omega
  | result r hr hi' hg hc => simpa using h0
  | exit r hr hi' hg h1 h2 => simpa using h0

theorem step_accSI {n : Nat} {s s' : Sys} (hi : Inv n s) (st : Step n s s') :
    ∀ k, s'.accS k = sumTo n (fun r => if k < s'.rounds r then s'.snapS k r else 0) := by
  intro k
  have h0 := hi.accSI k
  cases st with
  | issue r hr h => simpa using h0
  | start r hr hu hb => simpa using h0
  | finish r hr hb => simpa using h0
  | regcb r hr h => simpa using h0
  | runcb r k j hr hc hb => simpa using h0
  | enter r hr hi' hb => simpa using h0
  | contribute r hr hi' hb hc hg hx =>
    simp only
    by_cases e : k = s.rounds r
    · subst e
      simp only [upd_same]
      have hch := sumTo_change n (fun q => if s.rounds r < s.rounds q then s.snapS (s.rounds r) q else 0)
        (fun q => if s.rounds r < upd s.rounds r (s.rounds r + 1) q then upd (s.snapS (s.rounds r)) r (s.sent r) q else 0) r hr
        (fun i _ hne => by simp [upd_other _ _ _ _ hne])
      simp at hch
      omega
    · rw [upd_other _ _ _ _ e, upd_other _ _ _ _ e]
      rw [h0]
      apply sumTo_congr
      intro i _
      by_cases ei : i = r
      · subst ei; simp only [upd_same]
        have : (k < s.rounds i + 1) = (k < s.rounds i) := by
          apply propext; constructor <;> intro h <;> omega
        simp only [this]
      · rw [upd_other _ _ _ _ ei]
  | result r hr hi' hg hc => simpa using h0
  | exit r hr hi' hg h1 h2 => simpa using h0

theorem step_accRI {n : Nat} {s s' : Sys} (hi : Inv n s) (st : Step n s s') :
    ∀ k, s'.accR k = sumTo n (fun r => if k < s'.rounds r then s'.snapR k r else 0) := by
  intro k
  have h0 := hi.accRI k
  cases st with
  | issue r hr h => simpa using h0
  | start r hr hu hb => simpa using h0
  | finish r hr hb => simpa using h0
  | regcb r hr h => simpa using h0
  | runcb r k j hr hc hb => simpa using h0
  | enter r hr hi' hb => simpa using h0
  | contribute r hr hi' hb hc hg hx =>
    simp only
    by_cases e : k = s.rounds r
    · subst e
      simp only [upd_same]
      have hch := sumTo_change n (fun q => if s.rounds r < s.rounds q then s.snapR (s.rounds r) q else 0)
        (fun q => if s.rounds r < upd s.rounds r (s.rounds r + 1) q then upd (s.snapR (s.rounds r)) r (s.recvd r) q else 0) r hr
        (fun i _ hne => by simp [upd_other _ _ _ _ hne])
      simp at hch
      omega
    · rw [upd_other _ _ _ _ e, upd_other _ _ _ _ e]
      rw [h0]
      apply sumTo_congr
      intro i _
      by_cases ei : i = r
      · subst ei; simp only [upd_same]
        have : (k < s.rounds i + 1) = (k < s.rounds i) := by
          apply propext; constructor <;> intro h <;> omega
        simp only [this]
      · rw [upd_other _ _ _ _ ei]
  | result r hr hi' hg hc => simpa using h0
  | exit r hr hi' hg h1 h2 => simpa using h0


theorem contrib_not_full {n : Nat} {s : Sys} (hi : Inv n s) (r : Nat) (hr : r < n)
    (h : s.cnt (s.rounds r) = n) : False := by
  have := all_rounds_gt hi (s.rounds r) h r hr
  omega

theorem step_monoNow {n : Nat} {s s' : Sys} (hi : Inv n s) (st : Step n s s') :
    ∀ r, r < n → ∀ k, k < s'.rounds r → s'.snapS k r ≤ s'.sent r ∧ s'.snapR k r ≤ s'.recvd r := by
  intro q hq k
  have h0 := hi.monoNow q hq k
  cases st with
  | issue r hr h =>
    simp only; intro hk; have := h0 hk
    by_cases e : q = r
    · subst e; simp; omega
    · simp [upd_other _ _ _ _ e]; exact this
  | start r hr hu hb => simpa using h0
  | finish r hr hb =>
    simp only; intro hk; have := h0 hk
    by_cases e : q = r
    · subst e; simp; omega
    · simp [upd_other _ _ _ _ e]; exact this
  | regcb r hr h => simpa using h0
  | runcb r k j hr hc hb =>
    simp only; intro hk; have := h0 hk
    by_cases e : q = r
    · subst e; simp; omega
    · simp [upd_other _ _ _ _ e]; exact this
  | enter r hr hi' hb => simpa using h0
  | contribute r hr hi' hb hc hg hx =>
    simp only
    by_cases e : q = r
    · subst e
      simp only [upd_same]
      intro hk
      by_cases ek : k = s.rounds q
      · subst ek; simp
      · rw [upd_other _ _ _ _ ek, upd_other _ _ _ _ ek]; exact h0 (by omega)
    · rw [upd_other _ _ _ _ e]
      intro hk
      by_cases ek : k = s.rounds r
      · subst ek; simp only [upd_same]; rw [upd_other _ _ _ _ e, upd_other _ _ _ _ e]; exact h0 hk
      · rw [upd_other _ _ _ _ ek, upd_other _ _ _ _ ek]; exact h0 hk
  | result r hr hi' hg hc => simpa using h0
  | exit r hr hi' hg h1 h2 => simpa using h0

theorem step_monoSnap {n : Nat} {s s' : Sys} (hi : Inv n s) (st : Step n s s') :
    ∀ r, r < n → ∀ k, k + 1 < s'.rounds r →
      s'.snapS k r ≤ s'.snapS (k+1) r ∧ s'.snapR k r ≤ s'.snapR (k+1) r := by
  intro q hq k
  have h0 := hi.monoSnap q hq k
  cases st with
  | issue r hr h => simpa using h0
  | start r hr hu hb => simpa using h0
  | finish r hr hb => simpa using h0
  | regcb r hr h => simpa using h0
  | runcb r k j hr hc hb => simpa using h0
  | enter r hr hi' hb => simpa using h0
  | contribute r hr hi' hb hc hg hx =>
    simp only
    by_cases e : q = r
    · subst e
      simp only [upd_same]
      intro hk
      have ek : k ≠ s.rounds q := by omega
      rw [upd_other _ _ _ _ ek, upd_other _ _ _ _ ek]
      by_cases ek1 : k + 1 = s.rounds q
      · rw [ek1]; simp only [upd_same]
        exact hi.monoNow q hq k (by omega)
      · rw [upd_other _ _ _ _ ek1, upd_other _ _ _ _ ek1]; exact h0 (by omega)
    · rw [upd_other _ _ _ _ e]
      intro hk
      have key : ∀ (f : Nat → Nat → Nat) (v : Nat) (j : Nat),
          upd f (s.rounds r) (upd (f (s.rounds r)) r v) j q = f j q := by
        intro f v j
        by_cases ej : j = s.rounds r
        · subst ej; simp only [upd_same]; rw [upd_other _ _ _ _ e]
        · rw [upd_other _ _ _ _ ej]
      rw [key, key, key, key]; exact h0 hk
  | result r hr hi' hg hc => simpa using h0
  | exit r hr hi' hg h1 h2 => simpa using h0

theorem step_gotC {n : Nat} {s s' : Sys} (hi : Inv n s) (st : Step n s s') :
    ∀ r, r < n → ∀ k, k < s'.got r → s'.cnt k = n := by
  intro q hq k
  have h0 := hi.gotC q hq k
  cases st with
  | issue r hr h => simpa using h0
  | start r hr hu hb => simpa using h0
  | finish r hr hb => simpa using h0
  | regcb r hr h => simpa using h0
  | runcb r k j hr hc hb => simpa using h0
  | enter r hr hi' hb => simpa using h0
  | contribute r hr hi' hb hc hg hx =>
    simp only
    intro hk
    by_cases ek : k = s.rounds r
    · subst ek; exact (contrib_not_full hi r hr (h0 hk)).elim
    · rw [upd_other _ _ _ _ ek]; exact h0 hk
  | result r hr hi' hg hc =>
    simp only
    by_cases e : q = r
    · subst e; simp only [upd_same]; intro hk
      by_cases ek : k = s.got q
      · subst ek; exact hc
      · exact h0 (by omega)
    · rw [upd_other _ _ _ _ e]; exact h0
  | exit r hr hi' hg h1 h2 => simpa using h0

theorem step_ord {n : Nat} {s s' : Sys} (hi : Inv n s) (st : Step n s s') :
    ∀ k, 0 < s'.cnt (k+1) → s'.cnt k = n := by
  intro k
  have h0 := hi.ord k
  cases st with
  | issue r hr h => simpa using h0
  | start r hr hu hb => simpa using h0
  | finish r hr hb => simpa using h0
  | regcb r hr h => simpa using h0
  | runcb r k j hr hc hb => simpa using h0
  | enter r hr hi' hb => simpa using h0
  | contribute r hr hi' hb hc hg hx =>
    simp only
    by_cases ek : k = s.rounds r
    · subst ek
      have ne1 : s.rounds r + 1 ≠ s.rounds r := by omega
      rw [upd_other _ _ _ _ ne1]
      intro hpos; exact (contrib_not_full hi r hr (h0 hpos)).elim
    · rw [upd_other _ _ _ _ ek]
      by_cases ek1 : k + 1 = s.rounds r
      · intro _; exact hi.gotC r hr k (by omega)
      · rw [upd_other _ _ _ _ ek1]; exact h0
  | result r hr hi' hg hc => simpa using h0
  | exit r hr hi' hg h1 h2 => simpa using h0


theorem step_gNow {n : Nat} {s s' : Sys} (hi : Inv n s) (st : Step n s s') :
    ∀ k, 0 < s'.cnt k → ∀ r, r < n → s'.gS k r ≤ s'.sent r ∧ s'.gR k r ≤ s'.recvd r := by
  intro k
  have h0 := hi.gNow k
  cases st with
  | issue r hr h =>
    simp only; intro hp q hq; have := h0 hp q hq
    by_cases e : q = r
    · subst e; simp; omega
    · simp [upd_other _ _ _ _ e]; exact this
  | start r hr hu hb => simpa using h0
  | finish r hr hb =>
    simp only; intro hp q hq; have := h0 hp q hq
    by_cases e : q = r
    · subst e; simp; omega
    · simp [upd_other _ _ _ _ e]; exact this
  | regcb r hr h => simpa using h0
  | runcb r k j hr hc hb =>
    simp only; intro hp q hq; have := h0 hp q hq
    by_cases e : q = r
    · subst e; simp; omega
    · simp [upd_other _ _ _ _ e]; exact this
  | enter r hr hi' hb => simpa using h0
  | contribute r hr hi' hb hc hg hx =>
    simp only
    by_cases hc0 : s.cnt (s.rounds r) = 0
    · simp only [hc0, if_true]
      by_cases ek : k = s.rounds r
      · subst ek; simp only [upd_same]; intro _ q hq; omega
      · rw [upd_other _ _ _ _ ek, upd_other _ _ _ _ ek, upd_other _ _ _ _ ek]; exact h0
    · simp only [hc0, if_false]
      by_cases ek : k = s.rounds r
      · subst ek; intro _ q hq; exact h0 (by omega) q hq
      · rw [upd_other _ _ _ _ ek]; exact h0
  | result r hr hi' hg hc => simpa using h0
  | exit r hr hi' hg h1 h2 => simpa using h0

theorem snap_other {s : Sys} (f : Nat → Nat → Nat) (r q v j : Nat) (e : q ≠ r) :
    upd f (s.rounds r) (upd (f (s.rounds r)) r v) j q = f j q := by
  by_cases ej : j = s.rounds r
  · subst ej; simp only [upd_same]; rw [upd_other _ _ _ _ e]
  · rw [upd_other _ _ _ _ ej]

theorem step_gLow {n : Nat} {s s' : Sys} (hi : Inv n s) (st : Step n s s') :
    ∀ k, 0 < s'.cnt (k+1) → ∀ r, r < n →
      s'.snapS k r ≤ s'.gS (k+1) r ∧ s'.snapR k r ≤ s'.gR (k+1) r := by
  intro k
  have h0 := hi.gLow k
  cases st with
  | issue r hr h => simpa using h0
  | start r hr hu hb => simpa using h0
  | finish r hr hb => simpa using h0
  | regcb r hr h => simpa using h0
  | runcb r k j hr hc hb => simpa using h0
  | enter r hr hi' hb => simpa using h0
  | contribute r hr hi' hb hc hg hx =>
    simp only
    by_cases ek : k = s.rounds r
    · -- a contribution to round k while round k+1 has started: impossible
      subst ek
      have ne1 : s.rounds r + 1 ≠ s.rounds r := by omega
      rw [upd_other _ _ _ _ ne1]
      intro hpos; exact (contrib_not_full hi r hr (hi.ord _ hpos)).elim
    · rw [upd_other _ _ _ _ ek, upd_other _ _ _ _ ek]
      by_cases ek1 : k + 1 = s.rounds r
      · -- contribution to round k+1
        have hfull : s.cnt k = n := hi.gotC r hr k (by omega)
        have hall := all_rounds_gt hi k hfull
        by_cases hc0 : s.cnt (s.rounds r) = 0
        · simp only [hc0, if_true]
          rw [ek1]; simp only [upd_same]
          intro _ q hq; exact hi.monoNow q hq k (hall q hq)
        · simp only [hc0, if_false]
          intro _ q hq; exact h0 (by rw [ek1]; omega) q hq
      · rw [upd_other _ _ _ _ ek1]
        by_cases hc0 : s.cnt (s.rounds r) = 0
        · simp only [hc0, if_true]
          rw [upd_other _ _ _ _ ek1, upd_other _ _ _ _ ek1]; exact h0
        · simp only [hc0, if_false]; exact h0
  | result r hr hi' hg hc => simpa using h0
  | exit r hr hi' hg h1 h2 => simpa using h0

theorem step_gHigh {n : Nat} {s s' : Sys} (hi : Inv n s) (st : Step n s s') :
    ∀ k, 0 < s'.cnt k → ∀ r, r < n → k < s'.rounds r →
      s'.gS k r ≤ s'.snapS k r ∧ s'.gR k r ≤ s'.snapR k r := by
  intro k
  have h0 := hi.gHigh k
  cases st with
  | issue r hr h => simpa using h0
  | start r hr hu hb => simpa using h0
  | finish r hr hb => simpa using h0
  | regcb r hr h => simpa using h0
  | runcb r k j hr hc hb => simpa using h0
  | enter r hr hi' hb => simpa using h0
  | contribute r hr hi' hb hc hg hx =>
    simp only
    intro hpos q hq
    by_cases ek : k = s.rounds r
    · subst ek
      simp only [upd_same]
      by_cases e : q = r
      · subst e
        simp only [upd_same]
        intro _
        by_cases hc0 : s.cnt (s.rounds q) = 0
        · simp only [hc0, if_true, upd_same]; omega
        · simp only [hc0, if_false]; exact hi.gNow _ (by omega) q hq
      · rw [upd_other _ _ _ _ e, upd_other _ _ _ _ e, upd_other _ _ _ _ e]
        intro hlt
        by_cases hc0 : s.cnt (s.rounds r) = 0
        · exact (none_rounds_gt hi _ hc0 q hq hlt).elim
        · simp only [hc0, if_false]; exact h0 (by omega) q hq hlt
    · rw [upd_other _ _ _ _ ek] at hpos
      rw [upd_other _ _ _ _ ek, upd_other _ _ _ _ ek]
      have hg' : (if s.cnt (s.rounds r) = 0 then upd s.gS (s.rounds r) s.sent else s.gS) k = s.gS k := by
        split
        · rw [upd_other _ _ _ _ ek]
        · rfl
      have hg'' : (if s.cnt (s.rounds r) = 0 then upd s.gR (s.rounds r) s.recvd else s.gR) k = s.gR k := by
        split
        · rw [upd_other _ _ _ _ ek]
        · rfl
      rw [hg', hg'']
      by_cases e : q = r
      · subst e; simp only [upd_same]; intro hlt; exact h0 hpos q hq (by omega)
      · rw [upd_other _ _ _ _ e]; exact h0 hpos q hq
  | result r hr hi' hg hc => simpa using h0
  | exit r hr hi' hg h1 h2 => simpa using h0
/-! ### the epoch-dependent clauses -/

theorem ruleAt_congr (s s' : Sys) (j : Nat) (a : s'.accR j = s.accR j) (b : s'.accR (j+1) = s.accR (j+1))
    (c : s'.accS j = s.accS j) (d : s'.accS (j+1) = s.accS (j+1)) : RuleAt s' j ↔ RuleAt s j := by
  unfold RuleAt; rw [a, b, c, d]

/-- all rounds up to a complete one are complete -/
theorem full_below {n : Nat} {s : Sys} (hi : Inv n s) (npos : 0 < n) (m : Nat) (h : s.cnt m = n) :
    ∀ j, j ≤ m → s.cnt j = n := by
  induction m with
  | zero => intro j hj; have : j = 0 := by omega
            subst this; exact h
  | succ k ih =>
    intro j hj
    by_cases e : j = k + 1
    · subst e; exact h
    · exact ih (hi.ord k (by omega)) j (by omega)

/-- an enabled exit: the rank consumed at least two results of this barrier and the rule holds on the last two -/
theorem exit_shape {n : Nat} {s : Sys} (hi : Inv n s) (r : Nat) (hr : r < n) (hx : ExitEnabled s r) :
    ∃ k, s.got r = k + 2 ∧ s.base r ≤ k ∧ RuleAt s k := by
  obtain ⟨hin, _, h1, h2⟩ := hx
  obtain ⟨r0, r1, r2, r3⟩ := hi.res r hr hin
  have hb := hi.bBase r hr hin
  by_cases e0 : s.got r = s.base r
  · have := r0 e0; rw [this] at h1; simp at h1
  · by_cases e1 : s.got r = s.base r + 1
    · have hp := r1 e1; rw [hp] at h2; rw [← h2] at h1; simp at h1
    · obtain ⟨k, hk⟩ : ∃ k, s.got r = k + 2 := ⟨s.got r - 2, by omega⟩
      refine ⟨k, hk, by omega, ?_⟩
      have hcur := r2 (k+1) (by omega) (by omega)
      have hprev := r3 k (by omega) hk
      rw [hcur] at h1 h2; rw [hprev] at h2
      simp only at h1
      have h2a : s.accR k = s.accR (k+1) := by have := congrArg Prod.fst h2; simpa using this
      have h2b : s.accS k = s.accS (k+1) := by have := congrArg Prod.snd h2; simpa using this
      exact ⟨h1, h2a, h2b⟩

/-- conversely: the rule on the last two results of this barrier enables the exit -/
theorem rule_exit {n : Nat} {s : Sys} (hi : Inv n s) (r : Nat) (hr : r < n) (hin : s.inBar r = true)
    (k : Nat) (hk : s.got r = k + 2) (hb : s.base r ≤ k) (h : RuleAt s k) :
    (s.cur r).1 = (s.cur r).2 ∧ s.prev r = s.cur r := by
  obtain ⟨_, _, r2, r3⟩ := hi.res r hr hin
  have hcur := r2 (k+1) (by omega) (by omega)
  have hprev := r3 k hb hk
  obtain ⟨a, b, c⟩ := h
  rw [hcur, hprev]
  exact ⟨a, by rw [b, c]⟩

/-- a later exit of an epoch happens at the index the first one recorded -/
theorem exit_idx {n : Nat} {s : Sys} (hi : Inv n s) (r : Nat) (hr : r < n) (hx : ExitEnabled s r)
    (q : Nat) (hq : q < n) (hlt : s.epoch r < s.epoch q) : s.bnd (s.epoch r + 1) = s.rounds r := by
  obtain ⟨k, hk, hbk, hrule⟩ := exit_shape hi r hr hx
  obtain ⟨m, hm, hbm, _, hrm, hfirst⟩ := hi.bDef q hq (s.epoch r) hlt
  have hbase := hi.bIn r hr hx.1
  have hj2 := hi.j2 r hr hx.1
  have hrg := hx.2.1
  have h1 : ¬ m < k := fun h => hj2 m (by omega) (by omega) hrm
  have h2 : ¬ k < m := fun h => hfirst k (by omega) h hrule
  omega

theorem exit_bnd {n : Nat} {s : Sys} (hi : Inv n s) (r : Nat) (hr : r < n) (hx : ExitEnabled s r)
    (q : Nat) (hq : q < n) (e : Nat) (he : e ≤ s.epoch q) :
    upd s.bnd (s.epoch r + 1) (s.rounds r) e = s.bnd e := by
  by_cases h : e = s.epoch r + 1
  · subst h; rw [upd_same]; exact (exit_idx hi r hr hx q hq (by omega)).symm
  · exact upd_other _ _ _ _ h

theorem step_res {n : Nat} {s s' : Sys} (hi : Inv n s) (st : Step n s s') :
    ∀ r, r < n → s'.inBar r = true →
        (s'.got r = s'.base r → s'.cur r = (3,4)) ∧
        (s'.got r = s'.base r + 1 → s'.prev r = (3,4)) ∧
        (∀ k, s'.base r ≤ k → s'.got r = k + 1 → s'.cur r = (s'.accR k, s'.accS k)) ∧
        (∀ k, s'.base r ≤ k → s'.got r = k + 2 → s'.prev r = (s'.accR k, s'.accS k)) := by
  intro q hq
  have h0 := hi.res q hq
  cases st with
  | issue r hr h => exact h0
  | start r hr hu hb => exact h0
  | finish r hr hb => exact h0
  | regcb r hr h => exact h0
  | runcb r k j hr hc hb => exact h0
  | enter r hr hi' hb =>
    simp only
    by_cases e : q = r
    · subst e
      have := hi.bOut q hq hi'
      simp only [upd_same]
      intro _
      refine ⟨?_, ?_, ?_, ?_⟩ <;> intros <;> first | trivial | rfl | omega
    · rw [upd_other _ _ _ _ e, upd_other _ _ _ _ e, upd_other _ _ _ _ e, upd_other _ _ _ _ e]; exact h0
  | contribute r hr hi' hb hc hg hx =>
    simp only
    intro hin
    obtain ⟨a, b, c, d⟩ := h0 hin
    refine ⟨a, b, ?_, ?_⟩
    · intro k hbk hk
      by_cases ek : k = s.rounds r
      · subst ek; exact (contrib_not_full hi r hr (hi.gotC q hq _ (by omega))).elim
      · rw [upd_other _ _ _ _ ek, upd_other _ _ _ _ ek]; exact c k hbk hk
    · intro k hbk hk
      by_cases ek : k = s.rounds r
      · subst ek; exact (contrib_not_full hi r hr (hi.gotC q hq _ (by omega))).elim
      · rw [upd_other _ _ _ _ ek, upd_other _ _ _ _ ek]; exact d k hbk hk
  | result r hr hi' hg hc =>
    simp only
    by_cases e : q = r
    · subst e
      simp only [upd_same]
      intro hin
      obtain ⟨a, b, c, d⟩ := h0 hin
      have hbb := hi.bBase q hq hin
      refine ⟨fun h => by omega, fun h => a (by omega), ?_, ?_⟩
      · intro k _ hk
        have : k = s.got q := by omega
        subst this; rfl
      · intro k hbk hk
        exact c k hbk (by omega)
    · rw [upd_other _ _ _ _ e, upd_other _ _ _ _ e, upd_other _ _ _ _ e]; exact h0
  | exit r hr hi' hg h1 h2 =>
    simp only
    by_cases e : q = r
    · subst e; simp
    · rw [upd_other _ _ _ _ e]; exact h0

theorem step_bIn {n : Nat} {s s' : Sys} (hi : Inv n s) (st : Step n s s') :
    ∀ r, r < n → s'.inBar r = true → s'.base r = s'.bnd (s'.epoch r) := by
  intro q hq
  have h0 := hi.bIn q hq
  cases st with
  | issue r hr h => exact h0
  | start r hr hu hb => exact h0
  | finish r hr hb => exact h0
  | regcb r hr h => exact h0
  | runcb r k j hr hc hb => exact h0
  | enter r hr hi' hb =>
    simp only
    by_cases e : q = r
    · subst e; simp only [upd_same]; intro _; exact (hi.bOut q hq hi').1
    · rw [upd_other _ _ _ _ e, upd_other _ _ _ _ e]; exact h0
  | contribute r hr hi' hb hc hg hx => exact h0
  | result r hr hi' hg hc => exact h0
  | exit r hr hi' hg h1 h2 =>
    simp only
    by_cases e : q = r
    · subst e; simp
    · rw [upd_other _ _ _ _ e, upd_other _ _ _ _ e]
      intro hin
      rw [exit_bnd hi r hr ⟨hi', hg, h1, h2⟩ q hq _ (Nat.le_refl _)]; exact h0 hin

theorem step_bOut {n : Nat} {s s' : Sys} (hi : Inv n s) (st : Step n s s') :
    ∀ r, r < n → s'.inBar r = false → s'.rounds r = s'.bnd (s'.epoch r) ∧ s'.got r = s'.rounds r := by
  intro q hq
  have h0 := hi.bOut q hq
  cases st with
  | issue r hr h => exact h0
  | start r hr hu hb => exact h0
  | finish r hr hb => exact h0
  | regcb r hr h => exact h0
  | runcb r k j hr hc hb => exact h0
  | enter r hr hi' hb =>
    simp only
    by_cases e : q = r
    · subst e; simp
    · rw [upd_other _ _ _ _ e]; exact h0
  | contribute r hr hi' hb hc hg hx =>
    simp only
    by_cases e : q = r
    · subst e; intro h; rw [hi'] at h; cases h
    · rw [upd_other _ _ _ _ e]; exact h0
  | result r hr hi' hg hc =>
    simp only
    by_cases e : q = r
    · subst e; intro h; rw [hi'] at h; cases h
    · rw [upd_other _ _ _ _ e]; exact h0
  | exit r hr hi' hg h1 h2 =>
    simp only
    by_cases e : q = r
    · subst e; intro _
      refine ⟨?_, hg.symm⟩
      show s.rounds q = upd s.bnd (s.epoch q + 1) (s.rounds q) (upd s.epoch q (s.epoch q + 1) q)
      rw [upd_same, upd_same]
    · rw [upd_other _ _ _ _ e, upd_other _ _ _ _ e]
      intro hin
      rw [exit_bnd hi r hr ⟨hi', hg, h1, h2⟩ q hq _ (Nat.le_refl _)]; exact h0 hin

theorem step_bBase {n : Nat} {s s' : Sys} (hi : Inv n s) (st : Step n s s') :
    ∀ r, r < n → s'.inBar r = true → s'.base r ≤ s'.got r := by
  intro q hq
  have h0 := hi.bBase q hq
  cases st with
  | issue r hr h => exact h0
  | start r hr hu hb => exact h0
  | finish r hr hb => exact h0
  | regcb r hr h => exact h0
  | runcb r k j hr hc hb => exact h0
  | enter r hr hi' hb =>
    simp only
    by_cases e : q = r
    · subst e; simp only [upd_same]; intro _; have := hi.bOut q hq hi'; omega
    · rw [upd_other _ _ _ _ e, upd_other _ _ _ _ e]; exact h0
  | contribute r hr hi' hb hc hg hx => exact h0
  | result r hr hi' hg hc =>
    simp only
    by_cases e : q = r
    · subst e; simp only [upd_same]; intro hin; have := h0 hin; omega
    · rw [upd_other _ _ _ _ e]; exact h0
  | exit r hr hi' hg h1 h2 =>
    simp only
    by_cases e : q = r
    · subst e; simp
    · rw [upd_other _ _ _ _ e]; exact h0

theorem step_j2 {n : Nat} {s s' : Sys} (hi : Inv n s) (st : Step n s s') :
    ∀ r, r < n → s'.inBar r = true → ∀ j, s'.base r ≤ j → j + 2 < s'.rounds r → ¬ RuleAt s' j := by
  intro q hq
  have h0 := hi.j2 q hq
  cases st with
  | issue r hr h => exact h0
  | start r hr hu hb => exact h0
  | finish r hr hb => exact h0
  | regcb r hr h => exact h0
  | runcb r k j hr hc hb => exact h0
  | enter r hr hi' hb =>
    simp only
    by_cases e : q = r
    · subst e; simp only [upd_same]; intro _ j h1 h2; omega
    · rw [upd_other _ _ _ _ e, upd_other _ _ _ _ e]; exact h0
  | contribute r hr hi' hb hc hg hx =>
    intro hin j hbj hlt
    have hin' : s.inBar q = true := hin
    have hbj' : s.base q ≤ j := hbj
    have hrgq := hi.rg q hq
    -- rounds j, j+1 are complete, hence not the round being contributed to
    have hlt' : j + 2 < s.rounds q ∨ (q = r ∧ j + 2 = s.got q) := by
      by_cases e : q = r
      · subst e
        have : j + 2 < upd s.rounds q (s.rounds q + 1) q := hlt
        rw [upd_same] at this
        omega
      · have : j + 2 < upd s.rounds r (s.rounds r + 1) q := hlt
        rw [upd_other _ _ _ _ e] at this
        exact Or.inl this
    have hf1 : s.cnt (j+1) = n := hi.gotC q hq (j+1) (by omega)
    have hf0 : s.cnt j = n := hi.gotC q hq j (by omega)
    have n0 : j ≠ s.rounds r := fun e => contrib_not_full hi r hr (e ▸ hf0)
    have n1 : j + 1 ≠ s.rounds r := fun e => contrib_not_full hi r hr (e ▸ hf1)
    intro hrule
    have hrule' : RuleAt s j :=
      (ruleAt_congr s _ j (upd_other _ _ _ _ n0) (upd_other _ _ _ _ n1) (upd_other _ _ _ _ n0)
        (upd_other _ _ _ _ n1)).1 hrule
    rcases hlt' with h | ⟨e, h⟩
    · exact h0 hin' j hbj' h hrule'
    · subst e
      exact hx (rule_exit hi q hq hin' j h.symm hbj' hrule')
  | result r hr hi' hg hc => exact h0
  | exit r hr hi' hg h1 h2 =>
    simp only
    by_cases e : q = r
    · subst e; simp
    · rw [upd_other _ _ _ _ e]; exact h0

theorem step_bDef {n : Nat} {s s' : Sys} (hi : Inv n s) (st : Step n s s') :
    ∀ q, q < n → ∀ e, e < s'.epoch q → ∃ m, s'.bnd (e+1) = m + 2 ∧ s'.bnd e ≤ m ∧ s'.cnt (m+1) = n ∧
        RuleAt s' m ∧ ∀ j, s'.bnd e ≤ j → j < m → ¬ RuleAt s' j := by
  intro q hq
  have h0 := hi.bDef q hq
  cases st with
  | issue r hr h => exact h0
  | start r hr hu hb => exact h0
  | finish r hr hb => exact h0
  | regcb r hr h => exact h0
  | runcb r k j hr hc hb => exact h0
  | enter r hr hi' hb => exact h0
  | contribute r hr hi' hb hc hg hx =>
    intro e he
    obtain ⟨m, a, b, c, d, f⟩ := h0 e he
    have npos : 0 < n := by omega
    have hfull := full_below hi npos (m+1) c
    have nr : ∀ j, j ≤ m + 1 → j ≠ s.rounds r := fun j hj e => contrib_not_full hi r hr (e ▸ hfull j hj)
    refine ⟨m, a, b, ?_, ?_, ?_⟩
    · show upd s.cnt (s.rounds r) (s.cnt (s.rounds r) + 1) (m+1) = n
      rw [upd_other _ _ _ _ (nr (m+1) (Nat.le_refl _))]; exact c
    · exact (ruleAt_congr s _ m (upd_other _ _ _ _ (nr m (by omega))) (upd_other _ _ _ _ (nr (m+1) (by omega)))
        (upd_other _ _ _ _ (nr m (by omega))) (upd_other _ _ _ _ (nr (m+1) (by omega)))).2 d
    · intro j hj1 hj2 hrule
      have hrule' : RuleAt s j :=
        (ruleAt_congr s _ j (upd_other _ _ _ _ (nr j (by omega))) (upd_other _ _ _ _ (nr (j+1) (by omega)))
          (upd_other _ _ _ _ (nr j (by omega))) (upd_other _ _ _ _ (nr (j+1) (by omega)))).1 hrule
      exact f j hj1 hj2 hrule'
  | result r hr hi' hg hc => exact h0
  | exit r hr hi' hg h1 h2 =>
    have hxe : ExitEnabled s r := ⟨hi', hg, h1, h2⟩
    by_cases hex : ∃ q0, q0 < n ∧ s.epoch r < s.epoch q0
    · -- the boundary of this epoch is already recorded: nothing changes
      obtain ⟨q0, hq0, hlt0⟩ := hex
      have hb : upd s.bnd (s.epoch r + 1) (s.rounds r) = s.bnd := by
        funext x
        by_cases h : x = s.epoch r + 1
        · subst h; rw [upd_same]; exact (exit_idx hi r hr hxe q0 hq0 hlt0).symm
        · exact upd_other _ _ _ _ h
      simp only [hb]
      intro e he
      by_cases eq : q = r
      · subst eq
        simp only [upd_same] at he
        by_cases e1 : e = s.epoch q
        · subst e1; exact hi.bDef q0 hq0 _ hlt0
        · exact h0 e (by omega)
      · rw [upd_other _ _ _ _ eq] at he; exact h0 e he
    · -- first exit of the epoch
      have hall : ∀ q0, q0 < n → s.epoch q0 ≤ s.epoch r := fun q0 hq0 =>
        Nat.le_of_not_lt (fun h => hex ⟨q0, hq0, h⟩)
      simp only
      intro e he
      have hele : e ≤ s.epoch r := by
        by_cases eq : q = r
        · subst eq; simp only [upd_same] at he; omega
        · rw [upd_other _ _ _ _ eq] at he; have := hall q hq; omega
      by_cases e1 : e = s.epoch r
      · subst e1
        obtain ⟨k, hk, hbk, hrule⟩ := exit_shape hi r hr hxe
        have hbase := hi.bIn r hr hi'
        have ne : s.epoch r ≠ s.epoch r + 1 := by omega
        rw [upd_same, upd_other _ _ _ _ ne]
        refine ⟨k, by omega, by omega, hi.gotC r hr (k+1) (by omega), hrule, ?_⟩
        intro j hj1 hj2
        exact hi.j2 r hr hi' j (by omega) (by omega)
      · have ne0 : e ≠ s.epoch r + 1 := by omega
        have ne1 : e + 1 ≠ s.epoch r + 1 := by omega
        rw [upd_other _ _ _ _ ne0, upd_other _ _ _ _ ne1]
        exact hi.bDef r hr e (by omega)

theorem step_cbI {n : Nat} {s s' : Sys} (hi : Inv n s) (st : Step n s s') :
    ∀ r, r < n → s'.inBar r = true → ∀ k, s'.base r ≤ k → s'.rounds r = k + 1 → 0 < s'.cbs r →
        s'.busy r = true ∨ s'.snapR k r < s'.recvd r := by
  intro q hq
  have h0 := hi.cbI q hq
  cases st with
  | issue r hr h => exact h0
  | start r hr hu hb =>
    simp only
    by_cases e : q = r
    · subst e; simp
    · rw [upd_other _ _ _ _ e]; exact h0
  | finish r hr hb =>
    simp only
    by_cases e : q = r
    · subst e; simp only [upd_same]
      intro hin k _ hk _
      have := (hi.monoNow q hq k (by omega)).2
      right; omega
    · rw [upd_other _ _ _ _ e, upd_other _ _ _ _ e]; exact h0
  | regcb r hr h =>
    simp only
    by_cases e : q = r
    · subst e; simp only [upd_same]
      intro hin k _ hk _
      rcases h with h | h
      · rw [hin] at h; cases h
      · left; exact h
    · rw [upd_other _ _ _ _ e]; exact h0
  | runcb r k j hr hc hb =>
    simp only
    by_cases e : q = r
    · subst e; simp only [upd_same]
      intro hin k hbk hk _
      exact h0 hin k hbk hk hc
    · rw [upd_other _ _ _ _ e]; exact h0
  | enter r hr hi' hb =>
    simp only
    by_cases e : q = r
    · subst e; simp only [upd_same]
      intro _ k hbk hk; omega
    · rw [upd_other _ _ _ _ e, upd_other _ _ _ _ e]; exact h0
  | contribute r hr hi' hb hc hg hx =>
    simp only
    by_cases e : q = r
    · subst e; intro _ k _ _ hpos; omega
    · rw [upd_other _ _ _ _ e]
      intro hin k hbk hk hpos
      rw [snap_other s.snapR r q _ k e]
      exact h0 hin k hbk hk hpos
  | result r hr hi' hg hc => exact h0
  | exit r hr hi' hg h1 h2 =>
    simp only
    by_cases e : q = r
    · subst e; simp
    · rw [upd_other _ _ _ _ e]; exact h0

theorem bnd_mono (s : Sys) (e : Nat) (h : ∀ e', e' < e → s.bnd e' + 2 ≤ s.bnd (e'+1)) :
    ∀ e', e' < e → s.bnd (e'+1) ≤ s.bnd e := by
  induction e with
  | zero => intro e' he'; omega
  | succ e ih =>
    intro e' he'
    by_cases h1 : e' = e
    · subst h1; exact Nat.le_refl _
    · have a := ih (fun x hx => h x (by omega)) e' (by omega)
      have b := h e (by omega)
      omega

/-- at the first contribution to round k+1: if the global counters balance and nobody has handled anything since
its round-k contribution, and nobody is beyond epoch e while some rank of epoch e already took part in round k,
then the system is quiescent in epoch e -/
theorem dead_at_first {n : Nat} {s : Sys} (hi : Inv n s) (r : Nat) (hr : r < n) (k : Nat)
    (hk : s.rounds r = k + 1) (hg : s.rounds r = s.got r) (hc0 : s.cnt (k+1) = 0)
    (hsum : sumTo n s.sent = sumTo n s.recvd) (hsnap : ∀ q, q < n → s.recvd q = s.snapR k q)
    (e : Nat) (hpre : Pre n s (k+1) e) : Dead n s e := by
  have hl := hi.ledger
  have hz : sumTo n (fun q => b2n (s.busy q)) = 0 := by omega
  have hund : s.und = 0 := by omega
  have hfull : s.cnt k = n := hi.gotC r hr k (by omega)
  have hall := all_rounds_gt hi k hfull
  have hnone := none_rounds_gt hi (k+1) hc0
  obtain ⟨hle, w, hw, hwin, hwe, hwb⟩ := hpre
  subst hwe
  have hwB := hi.bIn w hw hwin
  have hdef := hi.bDef w hw
  have hmono := bnd_mono s (s.epoch w) (fun e' he' => by
    obtain ⟨m, a, b, _⟩ := hdef e' he'; omega)
  refine ⟨hund, ?_⟩
  intro q hq
  have hb : s.busy q = false := by
    have := sumTo_zero_all n _ hz q hq
    simp only [b2n] at this
    cases hbq : s.busy q
    · rfl
    · rw [hbq] at this; simp at this
  have hrq : s.rounds q = k + 1 := by
    have a := hall q hq
    have b := hnone q hq
    omega
  have hqe : s.epoch q ≤ s.epoch w := hle q hq
  have key : s.inBar q = true ∧ s.epoch q = s.epoch w := by
    rcases Nat.lt_or_ge (s.epoch q) (s.epoch w) with hlt | hge
    · exfalso
      have hm1 := hmono (s.epoch q) hlt
      obtain ⟨m, a, b, _, d, _⟩ := hdef (s.epoch q) hlt
      cases hiq : s.inBar q
      · have := (hi.bOut q hq hiq).1
        omega
      · have hbq := hi.bIn q hq hiq
        exact hi.j2 q hq hiq m (by omega) (by omega) d
    · have he : s.epoch q = s.epoch w := by omega
      cases hiq : s.inBar q
      · have := (hi.bOut q hq hiq).1
        rw [he] at this
        exfalso; omega
      · exact ⟨rfl, he⟩
  have hcb : s.cbs q = 0 := by
    rcases Nat.eq_zero_or_pos (s.cbs q) with h | h
    · exact h
    · have hbq := hi.bIn q hq key.1
      rw [key.2] at hbq
      rcases hi.cbI q hq key.1 k (by omega) hrq h with h1 | h1
      · rw [hb] at h1; cases h1
      · have := hsnap q hq; omega
  exact ⟨hb, hcb, key.1, key.2⟩

theorem step_hI {n : Nat} {s s' : Sys} (hi : Inv n s) (st : Step n s s') :
    ∀ k e, 0 < s'.cnt (k+1) → sumTo n (s'.gS (k+1)) = sumTo n (s'.gR (k+1)) →
        (∀ r, r < n → s'.gR (k+1) r = s'.snapR k r) → s'.gPre (k+1) e → s'.gDead (k+1) e := by
  intro k e
  have h0 := hi.hI k e
  cases st with
  | issue r hr h => exact h0
  | start r hr hu hb => exact h0
  | finish r hr hb => exact h0
  | regcb r hr h => exact h0
  | runcb r k j hr hc hb => exact h0
  | enter r hr hi' hb => exact h0
  | contribute r hr hi' hb hc hg hx =>
    simp only
    by_cases ek : k = s.rounds r
    · subst ek
      have ne1 : s.rounds r + 1 ≠ s.rounds r := by omega
      rw [upd_other _ _ _ _ ne1]
      intro hpos; exact (contrib_not_full hi r hr (hi.ord _ hpos)).elim
    · have hsn : ∀ q, upd s.snapR (s.rounds r) (upd (s.snapR (s.rounds r)) r (s.recvd r)) k q = s.snapR k q := by
        intro q; rw [upd_other _ _ _ _ ek]
      by_cases ek1 : k + 1 = s.rounds r
      · by_cases hc0 : s.cnt (s.rounds r) = 0
        · simp only [hc0, if_true]
          rw [ek1]; simp only [upd_same]
          intro _ hsum hsnap hpre
          rw [← ek1] at hpre
          apply dead_at_first hi r hr k ek1.symm hg (by rw [ek1]; exact hc0) hsum _ e hpre
          intro q hq; rw [← hsn q]; exact hsnap q hq
        · simp only [hc0, if_false]
          intro _ hsum hsnap hpre
          apply h0 (by rw [ek1]; omega) hsum _ hpre
          intro q hq; rw [← hsn q]; exact hsnap q hq
      · rw [upd_other _ _ _ _ ek1]
        have e1 : (if s.cnt (s.rounds r) = 0 then upd s.gS (s.rounds r) s.sent else s.gS) (k+1) = s.gS (k+1) := by
          split
          · rw [upd_other _ _ _ _ ek1]
          · rfl
        have e2 : (if s.cnt (s.rounds r) = 0 then upd s.gR (s.rounds r) s.recvd else s.gR) (k+1) = s.gR (k+1) := by
          split
          · rw [upd_other _ _ _ _ ek1]
          · rfl
        have e3 : (if s.cnt (s.rounds r) = 0 then upd s.gDead (s.rounds r) (Dead n s) else s.gDead) (k+1) = s.gDead (k+1) := by
          split
          · rw [upd_other _ _ _ _ ek1]
          · rfl
        have e4 : (if s.cnt (s.rounds r) = 0 then upd s.gPre (s.rounds r) (Pre n s (s.rounds r)) else s.gPre) (k+1) = s.gPre (k+1) := by
          split
          · rw [upd_other _ _ _ _ ek1]
          · rfl
        rw [e1, e2, e3, e4]
        intro hpos hsum hsnap hpre
        apply h0 hpos hsum _ hpre
        intro q hq; rw [← hsn q]; exact hsnap q hq
  | result r hr hi' hg hc => exact h0
  | exit r hr hi' hg h1 h2 => exact h0

theorem step_preI {n : Nat} {s s' : Sys} (hi : Inv n s) (st : Step n s s') :
    ∀ k e, 0 < s'.cnt k → AllLe n s' e →
        (∃ r, r < n ∧ s'.inBar r = true ∧ s'.epoch r = e ∧ s'.base r < k ∧ k ≤ s'.rounds r) → s'.gPre k e := by
  intro k e
  have h0 := hi.preI k e
  cases st with
  | issue r hr h => exact h0
  | start r hr hu hb => exact h0
  | finish r hr hb => exact h0
  | regcb r hr h => exact h0
  | runcb r k j hr hc hb => exact h0
  | enter r hr hi' hb =>
    intro hp hle ⟨w, hw, hwin, hwe, hwb, hwr⟩
    refine h0 hp hle ⟨w, hw, ?_⟩
    by_cases ew : w = r
    · subst ew
      have : s.rounds w < k := by simpa using hwb
      have : k ≤ s.rounds w := hwr
      omega
    · simp only [upd_other _ _ _ _ ew] at hwin hwb
      exact ⟨hwin, hwe, hwb, hwr⟩
  | contribute r hr hi' hb hc hg hx =>
    intro hp hle ⟨w, hw, hwin, hwe, hwb, hwr⟩
    have hle' : AllLe n s e := hle
    have hwin' : s.inBar w = true := hwin
    have hwe' : s.epoch w = e := hwe
    have hwb' : s.base w < k := hwb
    by_cases ek : k = s.rounds r
    · subst ek
      by_cases hc0 : s.cnt (s.rounds r) = 0
      · show (if s.cnt (s.rounds r) = 0 then upd s.gPre (s.rounds r) (Pre n s (s.rounds r)) else s.gPre)
          (s.rounds r) e
        simp only [hc0, if_true, upd_same]
        exact ⟨hle', w, hw, hwin', hwe', hwb'⟩
      · show (if s.cnt (s.rounds r) = 0 then upd s.gPre (s.rounds r) (Pre n s (s.rounds r)) else s.gPre)
          (s.rounds r) e
        simp only [hc0, if_false]
        refine h0 (by omega) hle' ⟨w, hw, hwin', hwe', hwb', ?_⟩
        by_cases ew : w = r
        · subst ew; exact Nat.le_refl _
        · have : s.rounds r ≤ upd s.rounds r (s.rounds r + 1) w := hwr
          rw [upd_other _ _ _ _ ew] at this; exact this
    · have hp' : 0 < s.cnt k := by
        have : 0 < upd s.cnt (s.rounds r) (s.cnt (s.rounds r) + 1) k := hp
        rw [upd_other _ _ _ _ ek] at this; exact this
      have e4 : (if s.cnt (s.rounds r) = 0 then upd s.gPre (s.rounds r) (Pre n s (s.rounds r)) else s.gPre) k
          = s.gPre k := by
        split
        · rw [upd_other _ _ _ _ ek]
        · rfl
      show (if s.cnt (s.rounds r) = 0 then upd s.gPre (s.rounds r) (Pre n s (s.rounds r)) else s.gPre) k e
      rw [e4]
      refine h0 hp' hle' ⟨w, hw, hwin', hwe', hwb', ?_⟩
      by_cases ew : w = r
      · subst ew
        have h1 : k ≤ s.rounds w + 1 := by
          have : k ≤ upd s.rounds w (s.rounds w + 1) w := hwr
          rw [upd_same] at this; exact this
        rcases Nat.lt_or_ge (s.rounds w) k with hlt | hge
        · -- k = rounds w + 1 has started although w has not contributed to round k-1
          have hk1 : k = s.rounds w + 1 := by omega
          subst hk1
          exact (contrib_not_full hi w hw (hi.ord _ hp')).elim
        · exact hge
      · have : k ≤ upd s.rounds r (s.rounds r + 1) w := hwr
        rw [upd_other _ _ _ _ ew] at this; exact this
  | result r hr hi' hg hc => exact h0
  | exit r hr hi' hg h1 h2 =>
    intro hp hle ⟨w, hw, hwin, hwe, hwb, hwr⟩
    have hle' : AllLe n s e := by
      intro q hq
      have := hle q hq
      by_cases eq : q = r
      · subst eq
        have : upd s.epoch q (s.epoch q + 1) q ≤ e := this
        rw [upd_same] at this; omega
      · have : upd s.epoch r (s.epoch r + 1) q ≤ e := this
        rw [upd_other _ _ _ _ eq] at this; exact this
    by_cases ew : w = r
    · subst ew
      have : upd s.inBar w false w = true := hwin
      rw [upd_same] at this; cases this
    · have a : upd s.inBar r false w = true := hwin
      have b : upd s.epoch r (s.epoch r + 1) w = e := hwe
      rw [upd_other _ _ _ _ ew] at a b
      exact h0 hp hle' ⟨w, hw, a, b, hwb, hwr⟩

theorem step_deadI {n : Nat} {s s' : Sys} (hi : Inv n s) (st : Step n s s') :
    ∀ k e, 0 < s'.cnt k → s'.gDead k e → AllLe n s' e → Dead n s' e := by
  intro k e
  have h0 := hi.deadI k e
  cases st with
  | issue r hr h =>
    intro hp hd hle
    have hd' := h0 hp hd hle
    obtain ⟨hb, _, hin, _⟩ := hd'.2 r hr
    rcases h with h | h
    · rw [hin] at h; cases h
    · rw [hb] at h; cases h
  | start r hr hu hb =>
    intro hp hd hle
    have hd' := h0 hp hd hle
    have := hd'.1; omega
  | finish r hr hb =>
    intro hp hd hle
    have hd' := h0 hp hd hle
    have := (hd'.2 r hr).1; rw [hb] at this; cases this
  | regcb r hr h =>
    intro hp hd hle
    have hd' := h0 hp hd hle
    obtain ⟨hb, _, hin, _⟩ := hd'.2 r hr
    rcases h with h | h
    · rw [hin] at h; cases h
    · rw [hb] at h; cases h
  | runcb r k j hr hc hb =>
    intro hp hd hle
    have hd' := h0 hp hd hle
    have := (hd'.2 r hr).2.1; omega
  | enter r hr hi' hb =>
    intro hp hd hle
    have hd' := h0 hp hd hle
    have := (hd'.2 r hr).2.2.1; rw [hi'] at this; cases this
  | contribute r hr hi' hb hc hg hx =>
    intro hp hd hle
    have hle' : AllLe n s e := hle
    show Dead n s e
    by_cases ek : k = s.rounds r
    · subst ek
      have hd' : (if s.cnt (s.rounds r) = 0 then upd s.gDead (s.rounds r) (Dead n s) else s.gDead)
          (s.rounds r) e := hd
      by_cases hc0 : s.cnt (s.rounds r) = 0
      · simp only [hc0, if_true, upd_same] at hd'; exact hd'
      · simp only [hc0, if_false] at hd'; exact h0 (by omega) hd' hle'
    · have hp' : 0 < s.cnt k := by
        have : 0 < upd s.cnt (s.rounds r) (s.cnt (s.rounds r) + 1) k := hp
        rw [upd_other _ _ _ _ ek] at this; exact this
      have hd' : (if s.cnt (s.rounds r) = 0 then upd s.gDead (s.rounds r) (Dead n s) else s.gDead) k e := hd
      have e3 : (if s.cnt (s.rounds r) = 0 then upd s.gDead (s.rounds r) (Dead n s) else s.gDead) k = s.gDead k := by
        split
        · rw [upd_other _ _ _ _ ek]
        · rfl
      rw [e3] at hd'; exact h0 hp' hd' hle'
  | result r hr hi' hg hc => exact h0
  | exit r hr hi' hg h1 h2 =>
    intro hp hd hle
    exfalso
    have hle' : AllLe n s e := by
      intro q hq
      have := hle q hq
      by_cases eq : q = r
      · subst eq
        have : upd s.epoch q (s.epoch q + 1) q ≤ e := this
        rw [upd_same] at this; omega
      · have : upd s.epoch r (s.epoch r + 1) q ≤ e := this
        rw [upd_other _ _ _ _ eq] at this; exact this
    have hd' := h0 hp hd hle'
    have h3 := (hd'.2 r hr).2.2.2
    have h4 : upd s.epoch r (s.epoch r + 1) r ≤ e := hle r hr
    rw [upd_same] at h4; omega

theorem inv_step {n : Nat} {s s' : Sys} (hi : Inv n s) (st : Step n s s') : Inv n s' where
  ledger := step_ledger hi st
  rg := step_rg hi st
  cntI := step_cntI hi st
  accSI := step_accSI hi st
  accRI := step_accRI hi st
  monoNow := step_monoNow hi st
  monoSnap := step_monoSnap hi st
  gotC := step_gotC hi st
  gLow := step_gLow hi st
  gHigh := step_gHigh hi st
  ord := step_ord hi st
  gNow := step_gNow hi st
  res := step_res hi st
  bIn := step_bIn hi st
  bOut := step_bOut hi st
  bBase := step_bBase hi st
  j2 := step_j2 hi st
  bDef := step_bDef hi st
  cbI := step_cbI hi st
  hI := step_hI hi st
  preI := step_preI hi st
  deadI := step_deadI hi st

theorem inv_init (n : Nat) : Inv n init := by
  have hz : ∀ (f : Nat → Nat), sumTo n (fun r => if (0:Nat) < 0 then f r else 0) = 0 := by
    intro f
    have e : sumTo n (fun r => if (0:Nat) < 0 then f r else 0) = sumTo n (fun _ => 0) := by
      apply sumTo_congr; intro i _; simp
    rw [e, sumTo_const_zero]
  refine { ledger := ?_, rg := ?_, cntI := ?_, accSI := ?_, accRI := ?_, monoNow := ?_, monoSnap := ?_,
           gotC := ?_, gLow := ?_, gHigh := ?_, ord := ?_, gNow := ?_, res := ?_, bIn := ?_, bOut := ?_,
           bBase := ?_, j2 := ?_, bDef := ?_, cbI := ?_, hI := ?_, preI := ?_, deadI := ?_ }
  · show 0 + sumTo n (fun _ => b2n false) + sumTo n (fun _ => 0) = sumTo n (fun _ => 0)
    have : sumTo n (fun _ => b2n false) = 0 := sumTo_const_zero n
    rw [this, sumTo_const_zero]
  · intro r _; exact ⟨Nat.le_refl _, Nat.le_succ _⟩
  · intro k
    show 0 = sumTo n (fun _ => if k < 0 then 1 else 0)
    have e : sumTo n (fun _ => if k < 0 then 1 else 0) = sumTo n (fun _ => 0) := by
      apply sumTo_congr; intro i _; simp
    rw [e, sumTo_const_zero]
  · intro k
    show 0 = sumTo n (fun _ => if k < 0 then 0 else 0)
    have e : sumTo n (fun _ => if k < 0 then 0 else 0) = sumTo n (fun _ => 0) := by
      apply sumTo_congr; intro i _; simp
    rw [e, sumTo_const_zero]
  · intro k
    show 0 = sumTo n (fun _ => if k < 0 then 0 else 0)
    have e : sumTo n (fun _ => if k < 0 then 0 else 0) = sumTo n (fun _ => 0) := by
      apply sumTo_congr; intro i _; simp
    rw [e, sumTo_const_zero]
  · intro r _ k hk; exact absurd hk (Nat.not_lt_zero _)
  · intro r _ k hk; exact absurd hk (Nat.not_lt_zero _)
  · intro r _ k hk; exact absurd hk (Nat.not_lt_zero _)
  · intro k hp; exact absurd hp (Nat.lt_irrefl _)
  · intro k hp; exact absurd hp (Nat.lt_irrefl _)
  · intro k hp; exact absurd hp (Nat.lt_irrefl _)
  · intro k hp; exact absurd hp (Nat.lt_irrefl _)
  · intro r _ hin; cases hin
  · intro r _ hin; cases hin
  · intro r _ _; exact ⟨rfl, rfl⟩
  · intro r _ hin; cases hin
  · intro r _ hin; cases hin
  · intro q _ e he; exact absurd he (Nat.not_lt_zero _)
  · intro r _ hin; cases hin
  · intro k e hp; exact absurd hp (Nat.lt_irrefl _)
  · intro k e hp; exact absurd hp (Nat.lt_irrefl _)
  · intro k e hp; exact absurd hp (Nat.lt_irrefl _)

theorem reachable_inv {n : Nat} {s : Sys} (h : Reachable n s) : Inv n s := by
  induction h with
  | init => exact inv_init n
  | step s s' _ st ih => exact inv_step ih st

/-- the final arithmetic: from the invariants, an enabled exit while nobody has completed this rank's barrier means
the system is quiescent in that epoch -/
theorem exit_dead {n : Nat} {s : Sys} (hi : Inv n s) (r : Nat) (hr : r < n) (hx : ExitEnabled s r)
    (hle : AllLe n s (s.epoch r)) : Dead n s (s.epoch r) := by
  obtain ⟨k, hk, hbk, hrule⟩ := exit_shape hi r hr hx
  obtain ⟨hin, hrg, _, _⟩ := hx
  obtain ⟨h1, h2a, h2b⟩ := hrule
  have hc1 : s.cnt (k+1) = n := hi.gotC r hr (k+1) (by omega)
  have hc0 : s.cnt k = n := hi.gotC r hr k (by omega)
  have hall1 := all_rounds_gt hi (k+1) hc1
  have hall0 := all_rounds_gt hi k hc0
  have npos : 0 < n := by omega
  have eS1 : s.accS (k+1) = sumTo n (s.snapS (k+1)) := by
    rw [hi.accSI]; apply sumTo_congr; intro i hi'; simp [hall1 i hi']
  have eR1 : s.accR (k+1) = sumTo n (s.snapR (k+1)) := by
    rw [hi.accRI]; apply sumTo_congr; intro i hi'; simp [hall1 i hi']
  have eS0 : s.accS k = sumTo n (s.snapS k) := by
    rw [hi.accSI]; apply sumTo_congr; intro i hi'; simp [hall0 i hi']
  have eR0 : s.accR k = sumTo n (s.snapR k) := by
    rw [hi.accRI]; apply sumTo_congr; intro i hi'; simp [hall0 i hi']
  have cpos : 0 < s.cnt (k+1) := by omega
  have lowS : ∀ i, i < n → s.snapS k i ≤ s.gS (k+1) i := fun i hi' => (hi.gLow k cpos i hi').1
  have lowR : ∀ i, i < n → s.snapR k i ≤ s.gR (k+1) i := fun i hi' => (hi.gLow k cpos i hi').2
  have highS : ∀ i, i < n → s.gS (k+1) i ≤ s.snapS (k+1) i := fun i hi' => (hi.gHigh (k+1) cpos i hi' (hall1 i hi')).1
  have highR : ∀ i, i < n → s.gR (k+1) i ≤ s.snapR (k+1) i := fun i hi' => (hi.gHigh (k+1) cpos i hi' (hall1 i hi')).2
  have sS := sandwich n (s.snapS k) (s.gS (k+1)) (s.snapS (k+1)) lowS highS (by omega)
  have sR := sandwich n (s.snapR k) (s.gR (k+1)) (s.snapR (k+1)) lowR highR (by omega)
  have gSsum : sumTo n (s.gS (k+1)) = sumTo n (s.snapS k) := sumTo_congr _ _ _ (fun i hi' => (sS i hi').1)
  have gRsum : sumTo n (s.gR (k+1)) = sumTo n (s.snapR k) := sumTo_congr _ _ _ (fun i hi' => (sR i hi').1)
  have hpre : s.gPre (k+1) (s.epoch r) :=
    hi.preI (k+1) (s.epoch r) cpos hle ⟨r, hr, hin, rfl, by omega, by omega⟩
  have hd := hi.hI k (s.epoch r) cpos (by omega) (fun i hi' => (sR i hi').1) hpre
  exact hi.deadI (k+1) (s.epoch r) cpos hd hle

end YgmVerif.BarrierME
