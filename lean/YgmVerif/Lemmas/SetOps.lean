import YgmVerif.Model.SetOps
/-!
Helper lemmas for `YgmVerif.SetOps`: how each remote lambda acts on the multiplicity of one key,
and the instance `keyed` that plugs `SetOps.apply` into `Dist.Keyed`.
-/
namespace YgmVerif.SetOps

variable {K A : Type} [DecidableEq K]

theorem count_append_single_same (s : List K) (k : K) : count (s ++ [k]) k = count s k + 1 := by
  simp [count, List.count_append]

theorem count_append_single_other (s : List K) (k k' : K) (h : k' ≠ k) :
    count (s ++ [k]) k' = count s k' := by
  have : ¬ k = k' := fun e => h e.symm
  simp [count, List.count_append, this]

theorem count_eraseAll_same (s : List K) (k : K) :
    count (s.filter (fun x => decide (x ≠ k))) k = 0 := by
  unfold count
  rw [List.count_eq_zero]
  simp [List.mem_filter]

theorem count_eraseAll_other (s : List K) (k k' : K) (h : k' ≠ k) :
    count (s.filter (fun x => decide (x ≠ k))) k' = count s k' := by
  unfold count
  exact List.count_filter (by simp [h])

theorem count_erase_same (s : List K) (k : K) : count (s.erase k) k = count s k - 1 := by
  unfold count; exact List.count_erase_self

theorem count_erase_other (s : List K) (k k' : K) (h : k' ≠ k) :
    count (s.erase k) k' = count s k' := by
  unfold count; exact List.count_erase_of_ne h

/-- every operation acts on the multiplicity of its own key as `applyK` says -/
theorem apply_same (u : User K A) (s : List K) (op : Op K A) :
    count (apply u s op).1 op.key = (applyK u (count s op.key) op).1 := by
  cases op with
  | insert k =>
    simp only [apply, applyK, Op.key]
    by_cases h : count s k = 0 <;> simp [h, count_append_single_same]
  | insertMulti k => simp [apply, applyK, Op.key, count_append_single_same]
  | erase k => simp only [apply, applyK, Op.key]; exact count_eraseAll_same s k
  | insertExeIfMissing k vis a =>
    simp only [apply, applyK, Op.key]
    by_cases h : count s k = 0 <;> simp [h, count_append_single_same]
  | insertExeIfContains k vis a =>
    simp only [apply, applyK, Op.key]
    by_cases h : count s k = 0 <;> simp [h, count_append_single_same]
  | exeIfMissing k vis a =>
    simp only [apply, applyK, Op.key]
    by_cases h : count s k = 0 <;> simp [h]
  | exeIfContains k vis a =>
    simp only [apply, applyK, Op.key]
    by_cases h : count s k = 1 <;> simp [h]
  | pop k vis =>
    simp only [apply, applyK, Op.key]
    by_cases h : count s k = 0 <;> simp [h, count_erase_same]

/-- … and leaves the multiplicity of every other key alone -/
theorem apply_other (u : User K A) (s : List K) (op : Op K A) (k : K) (hk : k ≠ op.key) :
    count (apply u s op).1 k = count s k := by
  cases op with
  | insert k' =>
    simp only [apply, Op.key] at hk ⊢
    split <;> simp [count_append_single_other s k' k hk]
  | insertMulti k' =>
    simp only [apply, Op.key] at hk ⊢
    exact count_append_single_other s k' k hk
  | erase k' =>
    simp only [apply, Op.key] at hk ⊢
    exact count_eraseAll_other s k' k hk
  | insertExeIfMissing k' vis a =>
    simp only [apply, Op.key] at hk ⊢
    split <;> simp [count_append_single_other s k' k hk]
  | insertExeIfContains k' vis a =>
    simp only [apply, Op.key] at hk ⊢
    split <;> simp [count_append_single_other s k' k hk]
  | exeIfMissing k' vis a =>
    simp only [apply, Op.key] at hk ⊢
    split <;> rfl
  | exeIfContains k' vis a =>
    simp only [apply, Op.key] at hk ⊢
    split <;> rfl
  | pop k' vis =>
    simp only [apply, Op.key] at hk ⊢
    split
    · rfl
    · exact count_erase_other s k' k hk

theorem apply_out (u : User K A) (s : List K) (op : Op K A) :
    (apply u s op).2 = (applyK u (count s op.key) op).2 := by
  cases op with
  | insert k => simp only [apply, applyK, Op.key]; split <;> rfl
  | insertMulti k => rfl
  | erase k => rfl
  | insertExeIfMissing k vis a => simp only [apply, applyK, Op.key]; split <;> simp_all
  | insertExeIfContains k vis a => simp only [apply, applyK, Op.key]; split <;> simp_all
  | exeIfMissing k vis a => simp only [apply, applyK, Op.key]; split <;> simp_all
  | exeIfContains k vis a => simp only [apply, applyK, Op.key]; split <;> simp_all
  | pop k vis => simp only [apply, applyK, Op.key]; split <;> simp_all

omit [DecidableEq K] in
theorem applyK_cb_key (u : User K A) (n : Nat) (op : Op K A) (cb : Cb K A)
    (h : cb ∈ (applyK u n op).2.2) : cb.key = op.key := by
  cases op <;> simp only [applyK] at h <;> (try split at h) <;> simp at h <;> (subst h; rfl)

/-- `SetOps` is a keyed container: the part of the state that belongs to a key is its multiplicity -/
def keyed (u : User K A) : Dist.Keyed (List K) (Op K A) (Cb K A) K Nat where
  apply := apply u
  key := Op.key
  cbKey := Cb.key
  proj := count
  applyK := applyK u
  proj_same := apply_same u
  proj_other := fun s op k hk => apply_other u s op k hk
  out_local := apply_out u
  cb_key := applyK_cb_key u

end YgmVerif.SetOps
