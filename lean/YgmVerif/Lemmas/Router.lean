import YgmVerif.Model.Router
/-! Helper lemmas for the layout / router model: `node`/`loc`/`mk` arithmetic, the value of
`nextHop` in each branch, and closed forms of `route` for NR and NLNR. -/
namespace YgmVerif.Router

theorem node_mk {p a i : Nat} (hi : i < p) : node p (mk p a i) = a := by
  unfold node mk
  have hp : 0 < p := by omega
  rw [Nat.mul_comm, Nat.mul_add_div hp, Nat.div_eq_of_lt hi]; rfl

theorem loc_mk {p a i : Nat} (hi : i < p) : loc p (mk p a i) = i := by
  unfold loc mk
  rw [Nat.mul_add_mod_self_right, Nat.mod_eq_of_lt hi]

theorem mk_node_loc (p r : Nat) : mk p (node p r) (loc p r) = r := by
  unfold mk node loc
  rw [Nat.mul_comm]; exact Nat.div_add_mod r p

theorem loc_lt {p : Nat} (hp : 0 < p) (r : Nat) : loc p r < p := Nat.mod_lt _ hp

theorem node_lt {N p r : Nat} (h : r < N * p) : node p r < N := by
  unfold node
  have hp : 0 < p := by
    rcases Nat.eq_zero_or_pos p with h0 | h0
    · subst h0; simp at h
    · exact h0
  exact (Nat.div_lt_iff_lt_mul hp).2 h

theorem mk_lt {N p a i : Nat} (ha : a < N) (hi : i < p) : mk p a i < N * p := by
  unfold mk
  have h1 : a * p + p ≤ N * p := by
    have : (a + 1) * p ≤ N * p := Nat.mul_le_mul_right p ha
    rwa [Nat.add_mul, Nat.one_mul] at this
  omega

theorem pos_of_lt_mul {N p r : Nat} (h : r < N * p) : 0 < p := by
  rcases Nat.eq_zero_or_pos p with h0 | h0
  · subst h0; simp at h
  · exact h0

/-- a rank is determined by its node and its on-node index -/
theorem rank_ext {p x y : Nat} (hn : node p x = node p y) (hl : loc p x = loc p y) : x = y := by
  rw [← mk_node_loc p x, ← mk_node_loc p y, hn, hl]

theorem mk_eq_iff {p a i r : Nat} (hi : i < p) : mk p a i = r ↔ node p r = a ∧ loc p r = i := by
  constructor
  · intro h; subst h; exact ⟨node_mk hi, loc_mk hi⟩
  · rintro ⟨h1, h2⟩; rw [← h1, ← h2]; exact mk_node_loc p r

theorem channel_lt {p : Nat} (hp : 0 < p) (me d : Nat) : channel p me d < p := Nat.mod_lt _ hp

/-! ### `nextHop`, branch by branch -/

theorem nextHop_none (p me d : Nat) : nextHop .NONE p me d = d := rfl

theorem nextHop_local (sch : Scheme) {p me d : Nat} (h : node p me = node p d) :
    nextHop sch p me d = d := by
  cases sch <;> simp [nextHop, isLocal, h]

theorem nextHop_NR_remote {p me d : Nat} (h : node p me ≠ node p d) :
    nextHop .NR p me d = mk p (node p d) (loc p me) := by
  simp [nextHop, isLocal, h, strided]

/-- NLNR, I am the channel rank of my node for the destination's node: off-node hop -/
theorem nextHop_NLNR_chan {p me d : Nat} (h : node p me ≠ node p d)
    (hc : loc p me = channel p me d) : nextHop .NLNR p me d = mk p (node p d) (loc p me) := by
  have hme : me = localRank p me (channel p me d) := by
    unfold localRank; rw [← hc]; exact (mk_node_loc p me).symm
  simp only [nextHop, isLocal, beq_iff_eq, h, if_false]
  rw [if_pos hme]; rfl

/-- NLNR, I am not the channel rank: on-node hop to it -/
theorem nextHop_NLNR_nochan {p me d : Nat} (hp : 0 < p) (h : node p me ≠ node p d)
    (hc : loc p me ≠ channel p me d) : nextHop .NLNR p me d = mk p (node p me) (channel p me d) := by
  have hme : me ≠ localRank p me (channel p me d) := by
    intro e
    have := congrArg (loc p) e
    unfold localRank at this
    rw [loc_mk (channel_lt hp me d)] at this
    exact hc this
  simp only [nextHop, isLocal, beq_iff_eq, h, if_false]
  rw [if_neg hme]; rfl

/-! ### closed forms of the routes -/

theorem route_none_eq (p s d : Nat) : route .NONE p s d = [d] := by
  simp [route, routeFuel, routeFrom, nextHop]

theorem route_local_eq (sch : Scheme) {p s d : Nat} (h : node p s = node p d) :
    route sch p s d = [d] := by
  simp [route, routeFuel, routeFrom, nextHop_local sch h]

theorem route_NR_eq {p : Nat} (hp : 0 < p) (s d : Nat) :
    route .NR p s d =
      if node p s = node p d then [d]
      else if loc p s = loc p d then [d]
      else [mk p (node p d) (loc p s), d] := by
  by_cases h : node p s = node p d
  · rw [if_pos h]; exact route_local_eq _ h
  · rw [if_neg h]
    have hi := loc_lt hp s
    by_cases hl : loc p s = loc p d
    · rw [if_pos hl]
      have : mk p (node p d) (loc p s) = d := by rw [hl]; exact mk_node_loc p d
      simp [route, routeFuel, routeFrom, nextHop_NR_remote h, this]
    · rw [if_neg hl]
      have hne : mk p (node p d) (loc p s) ≠ d := by
        intro e; have := congrArg (loc p) e; rw [loc_mk hi] at this; exact hl this
      have h2 : nextHop .NR p (mk p (node p d) (loc p s)) d = d :=
        nextHop_local _ (node_mk hi)
      simp [route, routeFuel, routeFrom, nextHop_NR_remote h, hne, h2]

theorem route_NLNR_eq {p : Nat} (hp : 0 < p) (s d : Nat) :
    route .NLNR p s d =
      if node p s = node p d then [d]
      else if loc p s = channel p s d then
        (if loc p s = loc p d then [d] else [mk p (node p d) (loc p s), d])
      else
        (if channel p s d = loc p d then [mk p (node p s) (channel p s d), d]
         else [mk p (node p s) (channel p s d), mk p (node p d) (channel p s d), d]) := by
  by_cases h : node p s = node p d
  · rw [if_pos h]; exact route_local_eq _ h
  · rw [if_neg h]
    have hi := loc_lt hp s
    have hcl := channel_lt hp s d
    by_cases hc : loc p s = channel p s d
    · rw [if_pos hc]
      by_cases hl : loc p s = loc p d
      · rw [if_pos hl]
        have : mk p (node p d) (loc p s) = d := by rw [hl]; exact mk_node_loc p d
        simp [route, routeFuel, routeFrom, nextHop_NLNR_chan h hc, this]
      · rw [if_neg hl]
        have hne : mk p (node p d) (loc p s) ≠ d := by
          intro e; have := congrArg (loc p) e; rw [loc_mk hi] at this; exact hl this
        have h2 : nextHop .NLNR p (mk p (node p d) (loc p s)) d = d :=
          nextHop_local _ (node_mk hi)
        simp [route, routeFuel, routeFrom, nextHop_NLNR_chan h hc, hne, h2]
    · rw [if_neg hc]
      -- first hop: on-node to the channel rank `m`
      have h1 : nextHop .NLNR p s d = mk p (node p s) (channel p s d) := nextHop_NLNR_nochan hp h hc
      have hm_node : node p (mk p (node p s) (channel p s d)) = node p s := node_mk hcl
      have hm_loc : loc p (mk p (node p s) (channel p s d)) = channel p s d := loc_mk hcl
      have hm_ne : mk p (node p s) (channel p s d) ≠ d := by
        intro e; have := congrArg (node p) e; rw [hm_node] at this; exact h this
      -- second hop: the channel rank sends off-node
      have hm_chan : channel p (mk p (node p s) (channel p s d)) d = channel p s d := by
        show (node p d + node p (mk p (node p s) (channel p s d))) % p = channel p s d
        rw [hm_node]; rfl
      have h2 : nextHop .NLNR p (mk p (node p s) (channel p s d)) d
          = mk p (node p d) (channel p s d) := by
        have := nextHop_NLNR_chan (p := p) (me := mk p (node p s) (channel p s d)) (d := d)
          (by rw [hm_node]; exact h) (by rw [hm_loc, hm_chan])
        rw [this, hm_loc]
      by_cases hl : channel p s d = loc p d
      · rw [if_pos hl]
        have : mk p (node p d) (channel p s d) = d := by rw [hl]; exact mk_node_loc p d
        simp [route, routeFuel, routeFrom, h1, hm_ne, h2, this]
      · rw [if_neg hl]
        have hne : mk p (node p d) (channel p s d) ≠ d := by
          intro e; have := congrArg (loc p) e; rw [loc_mk hcl] at this; exact hl this
        have h3 : nextHop .NLNR p (mk p (node p d) (channel p s d)) d = d :=
          nextHop_local _ (node_mk hcl)
        simp [route, routeFuel, routeFrom, h1, hm_ne, h2, hne, h3]

end YgmVerif.Router
