import YgmVerif.Model.Wire
/-! Helper lemmas for `YgmVerif.Wire`: field round trips, element-wise container round trips. -/
namespace YgmVerif.Wire

/-! ### little-endian fields -/

theorem leBytes_length (k n : Nat) : (leBytes k n).length = k := by
  induction k generalizing n with
  | zero => rfl
  | succ k ih => simp [leBytes, ih]

theorem leVal_leBytes (k n : Nat) (h : n < 256 ^ k) : leVal (leBytes k n) = n := by
  induction k generalizing n with
  | zero => simp [leBytes, leVal]; simp at h; omega
  | succ k ih =>
    simp only [leBytes, leVal]
    have h1 : n / 256 < 256 ^ k := by
      rw [Nat.div_lt_iff_lt_mul (by decide)]; rw [Nat.pow_succ] at h; omega
    rw [ih _ h1]
    have : (UInt8.ofNat (n % 256)).toNat = n % 256 := by
      simp [UInt8.toNat_ofNat']
    rw [this]; omega

/-- a field of `k` bytes only keeps `n mod 256^k` (this is the `uint32_t` truncation of
`message_size`) -/
theorem leBytes_mod (k n : Nat) : leBytes k (n % 256 ^ k) = leBytes k n := by
  induction k generalizing n with
  | zero => rfl
  | succ k ih =>
    simp only [leBytes]
    have h1 : n % 256 ^ (k+1) % 256 = n % 256 := by
      rw [Nat.pow_succ, Nat.mul_comm]; exact Nat.mod_mul_right_mod n 256 (256 ^ k)
    have h2 : n % 256 ^ (k+1) / 256 = (n / 256) % 256 ^ k := by
      rw [Nat.pow_succ, Nat.mul_comm]; exact Nat.mod_mul_right_div_self n 256 (256 ^ k)
    rw [h1, h2, ih]

theorem toTwos_lt (k : Nat) (z : Int) : toTwos k z < 256 ^ k := by
  have hc : (((256:Nat) ^ k : Nat) : Int) = (256:Int) ^ k := by simp
  have hMpos : 0 < (256:Int) ^ k := Int.pow_pos (by decide)
  have he0 := Int.emod_nonneg z (Int.ne_of_gt hMpos)
  have he1 := Int.emod_lt_of_pos z hMpos
  unfold toTwos
  omega

theorem ofTwos_toTwos (k : Nat) (z : Int) (h1 : -((256:Int) ^ k) ≤ 2 * z) (h2 : 2 * z < (256:Int) ^ k) :
    ofTwos k (toTwos k z) = z := by
  have hc : (((256:Nat) ^ k : Nat) : Int) = (256:Int) ^ k := by simp
  have hMpos : 0 < (256:Int) ^ k := Int.pow_pos (by decide)
  have he0 := Int.emod_nonneg z (Int.ne_of_gt hMpos)
  have he1 := Int.emod_lt_of_pos z hMpos
  have hcase : z % (256:Int) ^ k = z ∨ z % (256:Int) ^ k = z + (256:Int) ^ k := by
    by_cases hz : 0 ≤ z
    · left; exact Int.emod_eq_of_lt hz (by omega)
    · right
      rw [← Int.add_emod_right z ((256:Int) ^ k)]
      exact Int.emod_eq_of_lt (by omega) (by omega)
  unfold ofTwos toTwos
  split <;> omega

/-! ### reading raw bytes -/

theorem takeAcc_append (a r acc : Bytes) :
    takeAcc a.length (a ++ r) acc = some (acc.reverse ++ a, r) := by
  induction a generalizing acc with
  | nil => simp [takeAcc]
  | cons x xs ih => simp [takeAcc, ih]

theorem take?_append (a r : Bytes) : take? a.length (a ++ r) = some (a, r) := by
  simp [take?, takeAcc_append]

theorem take?_append' (a r : Bytes) (k : Nat) (hk : k = a.length) : take? k (a ++ r) = some (a, r) := by
  subst hk; exact take?_append a r

theorem readNat_leBytes (k n : Nat) (h : n < 256 ^ k) (r : Bytes) :
    readNat k (leBytes k n ++ r) = some (n, r) := by
  unfold readNat
  rw [take?_append' (leBytes k n) r k (leBytes_length k n).symm]
  simp [leVal_leBytes k n h]

/-! ### primitive values -/

theorem desU_ser (k n : Nat) (h : n < 256 ^ k) (r : Bytes) : desU k (leBytes k n ++ r) = some (.u k n, r) := by
  simp [desU, readNat_leBytes k n h]

theorem desF_ser (k n : Nat) (h : n < 256 ^ k) (r : Bytes) : desF k (leBytes k n ++ r) = some (.f k n, r) := by
  simp [desF, readNat_leBytes k n h]

theorem desI_ser (k : Nat) (z : Int) (h1 : -((256:Int) ^ k) ≤ 2 * z) (h2 : 2 * z < (256:Int) ^ k) (r : Bytes) :
    desI k (leBytes k (toTwos k z) ++ r) = some (.i k z, r) := by
  simp [desI, readNat_leBytes k _ (toTwos_lt k z), ofTwos_toTwos k z h1 h2]

theorem desBool_ser (b : Bool) (r : Bytes) : desBool ((if b then 1 else 0) :: r) = some (.bool b, r) := by
  cases b <;> simp [desBool]

theorem desStr_ser (bs : Bytes) (h : bs.length < 256 ^ 8) (r : Bytes) :
    desStr (leBytes 8 bs.length ++ (bs ++ r)) = some (.str bs, r) := by
  simp [desStr, readNat_leBytes 8 _ h, take?_append]

theorem desPtr_ser (n : Nat) (h : n < 256 ^ 4) (r : Bytes) : desPtr (leBytes 4 n ++ r) = some (.ptr n, r) := by
  simp [desPtr, readNat_leBytes 4 n h]

theorem desOpaque_ser (bs r : Bytes) : desOpaque bs.length (bs ++ r) = some (.raw bs, r) := by
  simp [desOpaque, take?_append]

/-! ### containers -/

theorem desNAcc_serList (d : Bytes → Option (Val × Bytes)) (vs : List Val) (rest : Bytes) (acc : List Val)
    (h : ∀ v ∈ vs, ∀ rest, d (ser v ++ rest) = some (v, rest)) :
    desNAcc d vs.length (serList vs ++ rest) acc = some (acc.reverse ++ vs, rest) := by
  induction vs generalizing acc with
  | nil => simp [desNAcc, serList]
  | cons v vs ih =>
    simp only [List.length_cons, serList, List.append_assoc, desNAcc]
    rw [h v (by simp)]
    simp only
    rw [ih _ (fun w hw => h w (by simp [hw]))]
    simp

theorem desN_serList (d : Bytes → Option (Val × Bytes)) (vs : List Val) (rest : Bytes)
    (h : ∀ v ∈ vs, ∀ rest, d (ser v ++ rest) = some (v, rest)) :
    desN d vs.length (serList vs ++ rest) = some (vs, rest) := by
  simp [desN, desNAcc_serList d vs rest [] h]

theorem desSeq_ser (d : Bytes → Option (Val × Bytes)) (vs : List Val) (hl : vs.length < 256 ^ 8) (rest : Bytes)
    (h : ∀ v ∈ vs, ∀ rest, d (ser v ++ rest) = some (v, rest)) :
    desSeq d (ser (.seq vs) ++ rest) = some (.seq vs, rest) := by
  simp only [ser, List.append_assoc, desSeq]
  rw [readNat_leBytes 8 _ hl]
  simp only
  rw [desN_serList d vs rest h]

theorem desPair_ser (da db : Bytes → Option (Val × Bytes)) (x y : Val) (rest : Bytes)
    (hx : ∀ rest, da (ser x ++ rest) = some (x, rest)) (hy : ∀ rest, db (ser y ++ rest) = some (y, rest)) :
    desPair da db (ser (.pair x y) ++ rest) = some (.pair x y, rest) := by
  simp only [ser, List.append_assoc, desPair]
  rw [hx]; simp only; rw [hy]

theorem serList_length_mem (vs : List Val) (v : Val) (h : v ∈ vs) : (ser v).length ≤ (serList vs).length := by
  induction vs with
  | nil => cases h
  | cons w ws ih =>
    simp only [serList, List.length_append]
    rcases List.mem_cons.mp h with rfl | h'
    · omega
    · have := ih h'; omega

/-! ### boost::json values -/

theorem desJson_ser (v : Val) (h : IsJson v) :
    ∀ (fuel : Nat) (rest : Bytes), (ser v).length ≤ fuel → desJson fuel (ser v ++ rest) = some (v, rest) := by
  induction h with
  | null =>
    intro fuel rest hf
    cases fuel with
    | zero => simp [ser, leBytes] at hf
    | succ f => rfl
  | bool b =>
    intro fuel rest hf
    cases fuel with
    | zero => simp [ser, leBytes] at hf
    | succ f =>
      show desJson (f+1) ((1 : UInt8) :: ((if b then 1 else 0) :: rest)) = _
      simp [desJson, desBool_ser]
  | int z h1 h2 =>
    intro fuel rest hf
    cases fuel with
    | zero => simp [ser, leBytes] at hf
    | succ f =>
      show desJson (f+1) ((2 : UInt8) :: (leBytes 8 (toTwos 8 z) ++ rest)) = _
      simp [desJson, desI_ser 8 z h1 h2]
  | uint n h =>
    intro fuel rest hf
    cases fuel with
    | zero => simp [ser, leBytes] at hf
    | succ f =>
      show desJson (f+1) ((3 : UInt8) :: (leBytes 8 n ++ rest)) = _
      simp [desJson, desU_ser 8 n h]
  | dbl n h =>
    intro fuel rest hf
    cases fuel with
    | zero => simp [ser, leBytes] at hf
    | succ f =>
      show desJson (f+1) ((4 : UInt8) :: (leBytes 8 n ++ rest)) = _
      simp [desJson, desF_ser 8 n h]
  | str bs h =>
    intro fuel rest hf
    cases fuel with
    | zero => simp [ser, leBytes] at hf
    | succ f =>
      show desJson (f+1) ((5 : UInt8) :: ((leBytes 8 bs.length ++ bs) ++ rest)) = _
      simp [desJson, desStr_ser bs h]
  | arr js hl hj ih =>
    intro fuel rest hf
    cases fuel with
    | zero => simp [ser, leBytes] at hf
    | succ f =>
      have hlen : (ser (.pair (.u 1 6) (.seq js))).length = 9 + (serList js).length := by
        simp [ser, leBytes_length]; omega
      have key : desSeq (desJson f) (ser (.seq js) ++ rest) = some (.seq js, rest) :=
        desSeq_ser (desJson f) js hl rest (fun j hjm rest' =>
          ih j hjm f rest' (by have := serList_length_mem js j hjm; omega))
      show desJson (f+1) ((6 : UInt8) :: (ser (.seq js) ++ rest)) = _
      simp [desJson, key]
  | obj ms hl hk hj ih =>
    intro fuel rest hf
    cases fuel with
    | zero => simp [ser, leBytes] at hf
    | succ f =>
      have hlen : (ser (.pair (.u 1 7) (.seq (ms.map fun m => .pair (.str m.1) m.2)))).length
          = 9 + (serList (ms.map fun m => .pair (.str m.1) m.2)).length := by
        simp [ser, leBytes_length]; omega
      have key : desSeq (desPair desStr (desJson f)) (ser (.seq (ms.map fun m => .pair (.str m.1) m.2)) ++ rest)
          = some (.seq (ms.map fun m => .pair (.str m.1) m.2), rest) := by
        apply desSeq_ser _ _ (by simpa using hl)
        intro v hv rest'
        obtain ⟨m, hm, rfl⟩ := List.mem_map.mp hv
        apply desPair_ser
        · intro r; simp only [ser, List.append_assoc]; exact desStr_ser m.1 (hk m hm) r
        · intro r
          apply ih m hm f r
          have h1 := serList_length_mem _ _ hv
          have h2 : (ser m.2).length ≤ (ser (.pair (.str m.1) m.2)).length := by
            simp [ser]; omega
          omega
      show desJson (f+1) ((7 : UInt8) :: (ser (.seq (ms.map fun m => .pair (.str m.1) m.2)) ++ rest)) = _
      simp [desJson, key]

/-! ### the type-directed round trip -/

theorem des_ser_aux (v : Val) (t : Ty) (h : HasTy v t) : ∀ rest : Bytes, des t (ser v ++ rest) = some (v, rest) := by
  induction h with
  | unit => intro rest; rfl
  | u k n h => intro rest; simpa [ser, des] using desU_ser k n h rest
  | i k z h1 h2 => intro rest; simpa [ser, des] using desI_ser k z h1 h2 rest
  | bool b => intro rest; simpa [ser, des] using desBool_ser b rest
  | f32 n h => intro rest; simpa [ser, des] using desF_ser 4 n h rest
  | f64 n h => intro rest; simpa [ser, des] using desF_ser 8 n h rest
  | str bs h => intro rest; simpa [ser, des] using desStr_ser bs h rest
  | vec t vs hl hv ih => intro rest; simp only [des]; exact desSeq_ser _ vs hl rest ih
  | set t vs hl hv ih => intro rest; simp only [des]; exact desSeq_ser _ vs hl rest ih
  | map k v vs hl hv ih =>
    intro rest; simp only [des]
    exact desSeq_ser _ vs hl rest (fun x hx r => by have := ih x hx r; simpa [des] using this)
  | pair a b x y hx hy ihx ihy => intro rest; simp only [des]; exact desPair_ser _ _ x y rest ihx ihy
  | ptr n h => intro rest; simpa [ser, des] using desPtr_ser n h rest
  | raw bs => intro rest; simpa [ser, des] using desOpaque_ser bs rest
  | json v hj =>
    intro rest; simp only [des]
    exact desJson_ser v hj _ rest (by simp)

theorem desAll_ser_aux (vs : List Val) (ts : List Ty) (h : HasTys vs ts) :
    ∀ rest : Bytes, desAll ts (serList vs ++ rest) = some (vs, rest) := by
  induction h with
  | nil => intro rest; rfl
  | cons v t vs ts hv _ ih =>
    intro rest
    simp only [serList, List.append_assoc, desAll]
    rw [des_ser_aux v t hv]; simp only; rw [ih]

/-! ### messages -/

/-- a message the code can have produced, as far as the wire format is concerned: the widths of
`uint16_t lid`, `uint32_t message_size`, `int32_t dest`, and the handler registered under `lid`
reads this functor size and these argument types -/
structure MsgOk (tbl : Table) (m : Msg) : Prop where
  lid : m.lid < 256 ^ 2
  tys : ∃ tys, tbl m.lid = some (m.fn.length, tys) ∧ HasTys m.args tys
  size : (body m).length < 256 ^ 4
  dest : 2 * m.dest < 256 ^ 4

theorem header_length (s : Nat) (d : Int) : (header s d).length = 8 := by
  simp [header, leBytes_length]

theorem readHeader (s : Nat) (d : Int) (hs : s < 256 ^ 4) (r : Bytes) :
    readNat 4 (header s d ++ r) = some (s, leBytes 4 (toTwos 4 d) ++ r) := by
  simp only [header, List.append_assoc]
  exact readNat_leBytes 4 s hs _

theorem desHandler_body (tbl : Table) (m : Msg) (ok : MsgOk tbl m) (rest : Bytes) :
    desHandler tbl (body m ++ rest) = some ((m.lid, m.fn, m.args), rest) := by
  obtain ⟨tys, ht, hty⟩ := ok.tys
  simp only [body, List.append_assoc, desHandler]
  rw [readNat_leBytes 2 _ ok.lid]
  simp only [ht]
  rw [take?_append]
  simp only
  rw [desAll_ser_aux _ _ hty]

theorem pow4 : ((256:Int) ^ 4) = 4294967296 := by decide

theorem parseStep_encode (routed : Bool) (tbl : Table) (me : Int) (m : Msg) (ok : MsgOk tbl m) (rest : Bytes) :
    parseStep routed tbl me (encodeMsg routed m ++ rest) = some (view routed me m, rest) := by
  cases routed with
  | false =>
    simp only [parseStep, encodeMsg, view, Bool.false_eq_true, if_false]
    rw [desHandler_body tbl m ok]
  | true =>
    simp only [parseStep, encodeMsg, view, if_true, List.append_assoc]
    have hd := ok.dest
    have hp := pow4
    cases hb : m.bcast with
    | true =>
      simp only [msgHeader, hb, if_true]
      rw [readHeader 0 (-1) (by decide)]
      simp only
      rw [readNat_leBytes 4 _ (toTwos_lt 4 (-1))]
      simp only
      rw [ofTwos_toTwos 4 (-1) (by decide) (by decide)]
      simp only [true_and, or_true, if_true]
      rw [desHandler_body tbl m ok]
    | false =>
      simp only [msgHeader, hb, Bool.false_eq_true, if_false]
      rw [readHeader _ _ ok.size]
      simp only
      rw [readNat_leBytes 4 _ (toTwos_lt 4 _)]
      simp only
      rw [ofTwos_toTwos 4 (m.dest : Int) (by omega) (by omega)]
      by_cases hme : (m.dest : Int) = me
      · simp only [hme, true_or, if_true]
        rw [desHandler_body tbl m ok]
      · have hneg : ¬ ((m.dest : Int) = me ∨ ((m.dest : Int) = -1 ∧ (body m).length = 0)) := by omega
        rw [if_neg hneg, if_neg hme, take?_append]

theorem encodeMsg_cons (routed : Bool) (m : Msg) : ∃ b bs, encodeMsg routed m = b :: bs := by
  have hb : ∃ b bs, body m = b :: bs := ⟨_, _, rfl⟩
  cases routed with
  | false => simpa [encodeMsg] using hb
  | true =>
    cases hbc : m.bcast <;> simp only [encodeMsg, msgHeader, hbc, if_true, Bool.false_eq_true, if_false, header, leBytes]
      <;> exact ⟨_, _, rfl⟩

theorem parseLoop_encode (routed : Bool) (tbl : Table) (me : Int) (ms : List Msg)
    (ok : ∀ m ∈ ms, MsgOk tbl m) :
    ∀ fuel, (encodeAll routed ms).length ≤ fuel →
      parseLoop routed tbl me fuel (encodeAll routed ms) = some (ms.map (view routed me)) := by
  induction ms with
  | nil => intro fuel _; cases fuel <;> rfl
  | cons m ms ih =>
    intro fuel hf
    obtain ⟨b, bs, hb⟩ := encodeMsg_cons routed m
    simp only [encodeAll] at hf ⊢
    cases fuel with
    | zero => rw [hb] at hf; simp at hf
    | succ f =>
      have hstep := parseStep_encode routed tbl me m (ok m (by simp)) (encodeAll routed ms)
      rw [hb, List.cons_append] at hstep ⊢
      simp only [parseLoop, hstep]
      rw [ih (fun x hx => ok x (by simp [hx])) f (by rw [hb] at hf; simp at hf; omega)]
      rfl

theorem encodeAll_append (routed : Bool) (a b : List Msg) :
    encodeAll routed (a ++ b) = encodeAll routed a ++ encodeAll routed b := by
  induction a with
  | nil => rfl
  | cons m a ih => simp [encodeAll, ih]

theorem patch_mid (a old c new : Bytes) (h : old.length = new.length) :
    patch (a ++ (old ++ c)) a.length new = a ++ (new ++ c) := by
  simp [patch, ← h]

theorem forwardAll_views (me : Int) (ms : List Msg) (buf : Bytes) :
    forwardAll (ms.map (view true me)) buf
      = buf ++ encodeAll true (ms.filter fun m => !m.bcast && !decide ((m.dest : Int) = me)) := by
  induction ms generalizing buf with
  | nil => simp [forwardAll, encodeAll]
  | cons m ms ih =>
    simp only [List.map_cons, List.filter_cons]
    cases hb : m.bcast with
    | true => simp [view, hb, forwardAll, ih]
    | false =>
      by_cases hme : (m.dest : Int) = me
      · simp [view, hb, hme, forwardAll, ih]
      · simp [view, hb, hme, forwardAll, ih, forwardCopy, encodeAll, encodeMsg, msgHeader]

end YgmVerif.Wire
