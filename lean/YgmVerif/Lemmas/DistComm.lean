import YgmVerif.Model.DistComm
import YgmVerif.Props.C02C01
/-!
Lemmas for `YgmVerif.DistComm` (a `Dist` container run over the joint messaging model `Comm`):

* list facts: a list is a permutation of its classes by a key (`perm_flatMap_filter`);
* `run_snoc` / `ghostRun_snoc` / `reach_induction`: induction over accepted histories from program start, one label at
  a time at the END of the history, so that every theorem about reachable joint states (C01, C02ME, C02C01) is
  available for the state before and after the label;
* `step_executed`, `step_cur`: what one joint step does to the execution record and to the ghost `cur`;
* handler atomicity: `no_execBegin_while_running`, `cur_stable`, `handlers_do_not_overlap`;
* ghost invariants: `tagged_uids`, `mem_is_fold`, `tags_accounted`, `executed_rank_lt`, `executed_owned`,
  `mem_eq_execGlobal`, `emitted_eq`.
-/
namespace YgmVerif.DistComm
open YgmVerif
open YgmVerif.Comm (Label St Msg Link)
open YgmVerif.Barrier (upd upd_same upd_other)

variable {σ Op Cb : Type}

/-! ### lists -/

theorem flatMap_congr_mem {α β} {f g : α → List β} : ∀ {l : List α}, (∀ a ∈ l, f a = g a) →
    l.flatMap f = l.flatMap g
  | [], _ => rfl
  | a :: l, h => by
    simp only [List.flatMap_cons]
    rw [h a List.mem_cons_self, flatMap_congr_mem (fun b hb => h b (List.mem_cons_of_mem _ hb))]

/-- a list is a permutation of the concatenation of its classes by a key, for any duplicate-free list of keys that
covers the keys occurring -/
theorem perm_flatMap_filter {α κ} [BEq κ] [LawfulBEq κ] (f : α → κ) : ∀ (keys : List κ) (l : List α),
    keys.Nodup → (∀ x ∈ l, f x ∈ keys) → l.Perm (keys.flatMap (fun k => l.filter (fun x => f x == k)))
  | [], l, _, hc => by
    cases l with
    | nil => exact List.Perm.refl _
    | cons x xs => exact absurd (hc x List.mem_cons_self) (by simp)
  | k :: ks, l, hn, hc => by
    rw [List.nodup_cons] at hn
    rw [List.flatMap_cons]
    have h1 := (List.filter_append_perm (fun x => f x == k) l).symm
    refine h1.trans (List.Perm.append (List.Perm.refl _) ?_)
    have hc' : ∀ x ∈ l.filter (fun x => !(f x == k)), f x ∈ ks := by
      intro x hx
      rw [List.mem_filter] at hx
      rcases List.mem_cons.1 (hc x hx.1) with h | h
      · rw [h] at hx; simp at hx
      · exact h
    refine (perm_flatMap_filter f ks _ hn.2 hc').trans ?_
    rw [flatMap_congr_mem]
    intro k' hk'
    rw [List.filter_filter]
    apply List.filter_congr
    intro x _
    by_cases hxk : f x = k'
    · have : f x ≠ k := fun h => hn.1 (by rw [← h, hxk]; exact hk')
      simp [hxk]
      intro h; exact this (hxk.trans h)
    · simp [hxk]

theorem snoc_induction {α} {P : List α → Prop} (h0 : P []) (hs : ∀ l a, P l → P (l ++ [a])) : ∀ l, P l := by
  intro l
  rw [← List.reverse_reverse l]
  induction l.reverse with
  | nil => exact h0
  | cons a t ih => rw [List.reverse_cons]; exact hs _ _ ih

theorem foldl_snoc {α β} (f : β → α → β) (b : β) (l : List α) (a : α) :
    (l ++ [a]).foldl f b = f (l.foldl f b) a := by
  rw [List.foldl_append]; rfl

/-! ### histories, one label at a time at the end -/

theorem run_snoc {n : Nat} {nh : Nat → Nat → Nat} {s0 s' : St} (ls : List Label) (l : Label)
    (h : Comm.run n nh s0 (ls ++ [l]) = some s') :
    ∃ s, Comm.run n nh s0 ls = some s ∧ Comm.step n nh s l = some s' := by
  induction ls generalizing s0 with
  | nil =>
    simp only [List.nil_append, Comm.run] at h
    cases hst : Comm.step n nh s0 l with
    | none => rw [hst] at h; cases h
    | some s1 => rw [hst] at h; simp only at h; cases h; exact ⟨s0, rfl, hst⟩
  | cons a ls ih =>
    simp only [List.cons_append, Comm.run] at h ⊢
    cases hst : Comm.step n nh s0 a with
    | none => rw [hst] at h; cases h
    | some s1 => rw [hst] at h; exact ih h

theorem ghostRun_snoc (c : Dist.Container σ Op Cb) (opOf : Nat → Op) {n : Nat} {nh : Nat → Nat → Nat}
    {s0 s s' : St} (G0 : Ghost σ Op) (ls : List Label) (l : Label)
    (h : Comm.run n nh s0 ls = some s) (hst : Comm.step n nh s l = some s') :
    ghostRun c opOf n nh s0 G0 (ls ++ [l]) = gnext c opOf s (ghostRun c opOf n nh s0 G0 ls) l := by
  induction ls generalizing s0 G0 with
  | nil =>
    simp only [Comm.run] at h; cases h
    simp only [List.nil_append, ghostRun, hst]
  | cons a ls ih =>
    simp only [Comm.run] at h
    cases hsa : Comm.step n nh s0 a with
    | none => rw [hsa] at h; cases h
    | some s1 =>
      rw [hsa] at h
      simp only [List.cons_append, ghostRun, hsa]
      exact ih _ h

/-- induction over the accepted histories from program start -/
theorem reach_induction (c : Dist.Container σ Op Cb) (opOf : Nat → Op) (n : Nat) (nh : Nat → Nat → Nat)
    (g : Nat → σ) {P : List Label → St → Ghost σ Op → Prop}
    (h0 : P [] Comm.init (Ghost.init g))
    (hs : ∀ ls s l s', Comm.run n nh Comm.init ls = some s → Comm.step n nh s l = some s' →
      Comm.run n nh Comm.init (ls ++ [l]) = some s' →
      P ls s (ghostOf c opOf n nh g ls) → P (ls ++ [l]) s' (gnext c opOf s (ghostOf c opOf n nh g ls) l)) :
    ∀ ls s, Comm.run n nh Comm.init ls = some s → P ls s (ghostOf c opOf n nh g ls) := by
  intro ls
  induction ls using snoc_induction with
  | h0 =>
    intro s h
    simp only [Comm.run] at h; cases h
    exact h0
  | hs ls l ih =>
    intro s' h
    obtain ⟨s, hrun, hst⟩ := run_snoc ls l h
    have := hs ls s l s' hrun hst h (ih s hrun)
    unfold ghostOf at this ⊢
    rw [ghostRun_snoc c opOf _ ls l hrun hst]
    exact this

/-! ### what one joint step does to the execution record and to `cur` -/

theorem dStep_executed_eq {n : Nat} {nh : Nat → Nat → Nat} {d d' : Deliver.St} {l : Deliver.Label}
    (h : Deliver.step n nh d l = some d') :
    d'.executed = d.executed ++ (match l with | .exec r u => [(r, u)] | _ => []) := by
  cases l with
  | async r uid dest direct =>
    simp only [Deliver.step] at h; split at h
    · cases h; simp
    · cases h
  | isend r hop =>
    simp only [Deliver.step] at h; split at h
    · cases h; simp
    · cases h
  | recvBegin r src seq =>
    simp only [Deliver.step] at h; split at h
    · cases h; simp
    · cases h
  | exec r uid =>
    simp only [Deliver.step] at h; split at h
    · cases h; rfl
    · cases h
  | fwd r uid =>
    simp only [Deliver.step] at h; split at h
    · split at h
      · cases h; simp
      · cases h
    · cases h
  | recvEnd r =>
    simp only [Deliver.step] at h; split at h
    · cases h; simp
    · cases h

/-- only `execEnd r uid` appends to the execution record, and it appends `(r, uid)` -/
theorem step_executed {n : Nat} {nh : Nat → Nat → Nat} {s s' : St} {l : Label}
    (h : Comm.step n nh s l = some s') : s'.d.executed = s.d.executed ++ execRec l := by
  have hD := (Comm.step_some h).2.1
  cases l with
  | async r uid dest direct =>
    simp only [Comm.projD, Comm.dRun_single] at hD
    simpa [execRec] using dStep_executed_eq hD
  | isend r hop =>
    simp only [Comm.projD, Comm.dRun_single] at hD
    simpa [execRec] using dStep_executed_eq hD
  | recvBegin r src seq =>
    simp only [Comm.projD, Comm.dRun_single] at hD
    simpa [execRec] using dStep_executed_eq hD
  | fwd r uid =>
    simp only [Comm.projD, Comm.dRun_single] at hD
    simpa [execRec] using dStep_executed_eq hD
  | recvEnd r =>
    simp only [Comm.projD, Comm.dRun_single] at hD
    simpa [execRec] using dStep_executed_eq hD
  | execEnd r uid =>
    simp only [Comm.projD, Comm.dRun_single] at hD
    simpa [execRec] using dStep_executed_eq hD
  | runcb r msgs j =>
    simp only [Comm.projD] at hD
    obtain ⟨_, _, _, _, _, h5⟩ := Comm.asyncs_run msgs s.d s'.d hD
    simp [execRec, h5]
  | execBegin r uid => simp only [Comm.projD, Comm.dRun_nil] at hD; simp [execRec, ← Option.some.inj hD]
  | regcb r => simp only [Comm.projD, Comm.dRun_nil] at hD; simp [execRec, ← Option.some.inj hD]
  | enter r => simp only [Comm.projD, Comm.dRun_nil] at hD; simp [execRec, ← Option.some.inj hD]
  | contribute r => simp only [Comm.projD, Comm.dRun_nil] at hD; simp [execRec, ← Option.some.inj hD]
  | result r => simp only [Comm.projD, Comm.dRun_nil] at hD; simp [execRec, ← Option.some.inj hD]
  | exit r => simp only [Comm.projD, Comm.dRun_nil] at hD; simp [execRec, ← Option.some.inj hD]

theorem step_cur {n : Nat} {nh : Nat → Nat → Nat} {s s' : St} {l : Label}
    (h : Comm.step n nh s l = some s') : s'.cur = Comm.nextCur s l := (Comm.step_some h).2.2.2

theorem reach_inv {n : Nat} {nh : Nat → Nat → Nat} {ls : List Label} {s : St}
    (h : Comm.run n nh Comm.init ls = some s) : Deliver.Inv s.d ∧ Link n s := Comm.run_link h

/-- `execBegin r uid` is only accepted when no handler is running on r -/
theorem execBegin_cur_none {n : Nat} {nh : Nat → Nat → Nat} {s s' : St} {r uid : Nat} (hl : Link n s)
    (h : Comm.step n nh s (.execBegin r uid) = some s') : s.cur r = none := by
  have hB := (Comm.step_some h).2.2.1
  simp only [Comm.projB, Comm.bRun_single, BarrierME.step] at hB
  split at hB
  · rename_i hc; exact Comm.cur_none_of_not_busy hl r hc.2.2
  · cases hB

/-- a pre-barrier callback only runs when no handler is running on r -/
theorem runcb_cur_none {n : Nat} {nh : Nat → Nat → Nat} {s s' : St} {r j : Nat} {msgs : List Msg} (hl : Link n s)
    (h : Comm.step n nh s (.runcb r msgs j) = some s') : s.cur r = none := by
  have hB := (Comm.step_some h).2.2.1
  simp only [Comm.projB, Comm.bRun_single, BarrierME.step] at hB
  split at hB
  · rename_i hc; exact Comm.cur_none_of_not_busy hl r hc.2.2
  · cases hB

theorem execEnd_cur {n : Nat} {nh : Nat → Nat → Nat} {s s' : St} {r uid : Nat}
    (h : Comm.step n nh s (.execEnd r uid) = some s') : s.cur r = some uid := by
  have hg := (Comm.step_some h).1
  simpa [Comm.guard] using hg

theorem execEnd_lt {n : Nat} {nh : Nat → Nat → Nat} {s s' : St} {r uid : Nat}
    (h : Comm.step n nh s (.execEnd r uid) = some s') : r < n := by
  have hB := (Comm.step_some h).2.2.1
  simp only [Comm.projB, Comm.bRun_single, BarrierME.step] at hB
  split at hB
  · rename_i hc; exact hc.1
  · cases hB

/-- the message whose handler is running has not been recorded as executed (the record is written at `execEnd`) -/
theorem cur_not_executed {n : Nat} {s : St} (hd : Deliver.Inv s.d) (hl : Link n s) {r u : Nat}
    (hc : s.cur r = some u) (q : Nat) : (q, u) ∉ s.d.executed := by
  intro hx
  obtain ⟨_, _, e, he, hu, hloc, _⟩ := hl.curWalk r u hc
  obtain ⟨e', he', hu', hloc'⟩ := hd.execDone q u hx
  have := Deliver.eq_of_uid_eq hd.nodup he he' (by rw [hu, hu'])
  rw [this, hloc'] at hloc
  cases hloc

/-! ### handler atomicity -/

/-- **handlers are atomic per rank (state form)**: while the handler of `u` runs on rank r, no `execBegin` is accepted
on r (`BarrierME.start` requires `busy r = false`, and `busy r` ⇔ `cur r ≠ none`) -/
theorem no_execBegin_while_running {n : Nat} {nh : Nat → Nat → Nat} {s : St} (hl : Link n s) {r u : Nat}
    (hc : s.cur r = some u) (v : Nat) : Comm.step n nh s (.execBegin r v) = none := by
  cases h : Comm.step n nh s (.execBegin r v) with
  | none => rfl
  | some s' => have := execBegin_cur_none hl h; rw [hc] at this; cases this

/-- while the handler of `u` runs on r and has not returned, `cur r` stays `some u` whatever else happens -/
theorem cur_stable {n : Nat} {nh : Nat → Nat → Nat} {r u : Nat} : ∀ (mid : List Label) {s s' : St},
    Deliver.Inv s.d → Link n s → s.cur r = some u → Comm.run n nh s mid = some s' →
    (∀ l ∈ mid, l ≠ .execEnd r u) → s'.cur r = some u
  | [], s, s', _, _, hc, h, _ => by simp only [Comm.run] at h; cases h; exact hc
  | l :: mid, s, s', hd, hl, hc, h, hne => by
    simp only [Comm.run] at h
    cases hst : Comm.step n nh s l with
    | none => rw [hst] at h; cases h
    | some s1 =>
      rw [hst] at h
      have hd1 := Deliver.inv_run _ hd (Comm.step_some hst).2.1
      have hl1 := Comm.link_step hd hl hst
      refine cur_stable mid hd1 hl1 ?_ h (fun l' hl' => hne l' (List.mem_cons_of_mem _ hl'))
      rw [step_cur hst]
      cases l with
      | execBegin r' v =>
        simp only [Comm.nextCur]
        by_cases hr : r = r'
        · subst hr; rw [no_execBegin_while_running hl hc v] at hst; cases hst
        · rw [upd_other _ _ _ _ hr]; exact hc
      | execEnd r' v =>
        simp only [Comm.nextCur]
        by_cases hr : r = r'
        · subst hr
          have := execEnd_cur hst
          rw [hc] at this; cases this
          exact absurd rfl (hne _ List.mem_cons_self)
        · rw [upd_other _ _ _ _ hr]; exact hc
      | _ => exact hc

/-- **handlers are atomic per rank (history form)**: in every accepted joint history, between two handler starts on
the same rank the first handler has returned — no two handlers overlap on one rank -/
theorem handlers_do_not_overlap (n : Nat) (nh : Nat → Nat → Nat) (pre mid post : List Label) (r u v : Nat) (s : St)
    (h : Comm.run n nh Comm.init (pre ++ .execBegin r u :: (mid ++ .execBegin r v :: post)) = some s) :
    .execEnd r u ∈ mid := by
  -- split the run
  have split : ∀ (a b : List Label) (s0 s2 : St), Comm.run n nh s0 (a ++ b) = some s2 →
      ∃ s1, Comm.run n nh s0 a = some s1 ∧ Comm.run n nh s1 b = some s2 := by
    intro a
    induction a with
    | nil => intro b s0 s2 h; exact ⟨s0, rfl, h⟩
    | cons x a ih =>
      intro b s0 s2 h
      simp only [List.cons_append, Comm.run] at h ⊢
      cases hst : Comm.step n nh s0 x with
      | none => rw [hst] at h; cases h
      | some sx => rw [hst] at h; exact ih b sx s2 h
  obtain ⟨s1, h1, h2⟩ := split _ _ _ _ h
  simp only [Comm.run] at h2
  cases hst : Comm.step n nh s1 (.execBegin r u) with
  | none => rw [hst] at h2; cases h2
  | some s2 =>
    rw [hst] at h2
    obtain ⟨s3, h3, h4⟩ := split _ _ _ _ h2
    simp only [Comm.run] at h4
    obtain ⟨hd1, hl1⟩ := reach_inv h1
    have hd2 := Deliver.inv_run _ hd1 (Comm.step_some hst).2.1
    have hl2 := Comm.link_step hd1 hl1 hst
    have hc2 : s2.cur r = some u := by rw [step_cur hst]; simp [Comm.nextCur]
    obtain ⟨hd3, hl3⟩ := Comm.inv_run mid hd2 hl2 h3
    by_cases hnot : Label.execEnd r u ∈ mid
    · exact hnot
    · have hc3 := cur_stable (nh := nh) mid hd2 hl2 hc2 h3 (fun l hl e => hnot (e ▸ hl))
      rw [no_execBegin_while_running hl3 hc3 v] at h4
      cases h4

/-! ### ghost invariants -/

section Ghost
variable (c : Dist.Container σ Op Cb) (owner : Op → Nat) (opOf : Nat → Op) (n : Nat) (nh : Nat → Nat → Nat)
  (g : Nat → σ)

/-- the tagged list lists exactly the messages the history issued, in order -/
theorem tagged_uids (ls : List Label) (s : St) (h : Comm.run n nh Comm.init ls = some s) :
    (ghostOf c opOf n nh g ls).tagged.map (·.2) = (ls.flatMap Comm.issued).map (·.1) := by
  refine reach_induction c opOf n nh g
    (P := fun ls _ G => G.tagged.map (·.2) = (ls.flatMap Comm.issued).map (·.1)) rfl ?_ ls s h
  intro ls s l s' _ _ _ ih
  rw [List.flatMap_append, List.map_append, ← ih]
  cases l <;> simp [gnext, Comm.issued, Function.comp_def]

/-- rank ids in the execution record are ranks -/
theorem executed_rank_lt (ls : List Label) (s : St) (h : Comm.run n nh Comm.init ls = some s) :
    ∀ p ∈ s.d.executed, p.1 < n := by
  have := reach_induction (σ := Unit) (Op := Unit) (Cb := Unit) ⟨fun _ _ => ((), [], [])⟩ (fun _ => ()) n nh
    (fun _ => ()) (P := fun _ s _ => ∀ p ∈ s.d.executed, p.1 < n)
    (by intro p hp; cases hp) ?_ ls s h
  · exact this
  intro ls s l s' _ hst _ ih p hp
  rw [step_executed hst, List.mem_append] at hp
  rcases hp with hp | hp
  · exact ih p hp
  · cases l <;> simp only [execRec, List.mem_singleton, List.not_mem_nil] at hp
    subst hp; exact execEnd_lt hst

/-- **(1)** the memory of rank r is `foldl apply` over the operations executed on r, in execution order -/
theorem mem_is_fold (ls : List Label) (s : St) (h : Comm.run n nh Comm.init ls = some s) (r : Nat) :
    (ghostOf c opOf n nh g ls).mem r =
      (opsExecutedOn opOf r s).foldl (fun st op => (c.apply st op).1) (g r) := by
  refine reach_induction c opOf n nh g
    (P := fun _ s G => ∀ r, G.mem r = (opsExecutedOn opOf r s).foldl (fun st op => (c.apply st op).1) (g r))
    (fun _ => rfl) ?_ ls s h r
  intro ls s l s' _ hst _ ih q
  have hx := step_executed hst
  unfold opsExecutedOn uidsExecutedOn at ih ⊢
  rw [hx]
  cases l with
  | execEnd r uid =>
    simp only [execRec, gnext, List.filter_append, List.map_append]
    by_cases hq : q = r
    · subst hq
      simp only [upd_same, List.filter_cons, beq_self_eq_true, if_true, List.filter_nil, List.map_cons, List.map_nil]
      rw [foldl_snoc, ← ih]
    · rw [upd_other _ _ _ _ hq]
      have : ((r, uid).1 == q) = false := by simp; exact fun e => hq e.symm
      simp only [List.filter_cons, this, Bool.false_eq_true, if_false, List.filter_nil, List.map_nil, List.append_nil]
      exact ih q
  | _ => simpa [execRec, gnext] using ih q

/-- every handler-issued message was issued by a handler that has returned (is in the record) or is running -/
theorem tags_accounted (ls : List Label) (s : St) (h : Comm.run n nh Comm.init ls = some s) :
    ∀ u v, (some u, v) ∈ (ghostOf c opOf n nh g ls).tagged →
      u ∈ s.d.executed.map (·.2) ∨ ∃ r, s.cur r = some u := by
  refine reach_induction c opOf n nh g
    (P := fun _ s G => ∀ u v, (some u, v) ∈ G.tagged → u ∈ s.d.executed.map (·.2) ∨ ∃ r, s.cur r = some u)
    (by intro u v hm; cases hm) ?_ ls s h
  intro ls s l s' hrun hst _ ih u v hm
  have hx := step_executed hst
  have hc := step_cur hst
  obtain ⟨_, hl⟩ := reach_inv hrun
  cases l with
  | async r uid dest direct =>
    simp only [gnext, List.mem_append, List.mem_singleton, Prod.mk.injEq] at hm
    rw [hx, hc]; simp only [execRec, List.append_nil, Comm.nextCur]
    rcases hm with hm | hm
    · exact ih u v hm
    · exact Or.inr ⟨r, hm.1.symm⟩
  | runcb r msgs j =>
    simp only [gnext, List.mem_append, List.mem_map, Prod.mk.injEq] at hm
    rw [hx, hc]; simp only [execRec, List.append_nil, Comm.nextCur]
    rcases hm with hm | ⟨m, _, hm, _⟩
    · exact ih u v hm
    · exact Or.inr ⟨r, hm⟩
  | execBegin r uid =>
    simp only [gnext] at hm
    rw [hx, hc]; simp only [execRec, List.append_nil, Comm.nextCur]
    rcases ih u v hm with h1 | ⟨q, hq⟩
    · exact Or.inl h1
    · refine Or.inr ⟨q, ?_⟩
      have hqr : q ≠ r := by
        intro e; subst e
        rw [execBegin_cur_none hl hst] at hq; cases hq
      rw [upd_other _ _ _ _ hqr]; exact hq
  | execEnd r uid =>
    simp only [gnext] at hm
    rw [hx, hc]; simp only [execRec, Comm.nextCur, List.map_append, List.mem_append, List.map_cons, List.map_nil,
      List.mem_singleton]
    rcases ih u v hm with h1 | ⟨q, hq⟩
    · exact Or.inl (Or.inl h1)
    · by_cases hqr : q = r
      · subst hqr
        have := execEnd_cur hst
        rw [hq] at this; cases this
        exact Or.inl (Or.inr rfl)
      · exact Or.inr ⟨q, by rw [upd_other _ _ _ _ hqr]; exact hq⟩
  | isend r hop => simp only [gnext] at hm; rw [hx, hc]; simpa [execRec, Comm.nextCur] using ih u v hm
  | recvBegin r src seq => simp only [gnext] at hm; rw [hx, hc]; simpa [execRec, Comm.nextCur] using ih u v hm
  | fwd r uid => simp only [gnext] at hm; rw [hx, hc]; simpa [execRec, Comm.nextCur] using ih u v hm
  | recvEnd r => simp only [gnext] at hm; rw [hx, hc]; simpa [execRec, Comm.nextCur] using ih u v hm
  | regcb r => simp only [gnext] at hm; rw [hx, hc]; simpa [execRec, Comm.nextCur] using ih u v hm
  | enter r => simp only [gnext] at hm; rw [hx, hc]; simpa [execRec, Comm.nextCur] using ih u v hm
  | contribute r => simp only [gnext] at hm; rw [hx, hc]; simpa [execRec, Comm.nextCur] using ih u v hm
  | result r => simp only [gnext] at hm; rw [hx, hc]; simpa [execRec, Comm.nextCur] using ih u v hm
  | exit r => simp only [gnext] at hm; rw [hx, hc]; simpa [execRec, Comm.nextCur] using ih u v hm

/-- messages issued by a pre-barrier callback are tagged `none` (callbacks run outside handlers), so they count as
main-issued -/
theorem runcb_tag_none (ls : List Label) (s s' : St) (r j : Nat) (msgs : List Msg)
    (h : Comm.run n nh Comm.init ls = some s) (hst : Comm.step n nh s (.runcb r msgs j) = some s') :
    (gnext c opOf s (ghostOf c opOf n nh g ls) (.runcb r msgs j)).tagged =
      (ghostOf c opOf n nh g ls).tagged ++ msgs.map (fun m => (none, m.1)) := by
  simp only [gnext, runcb_cur_none (reach_inv h).2 hst]

/-- **(2)** under the issuing discipline, a handler execution recorded on rank r carries an operation owned by r -/
theorem executed_owned (ls : List Label) (s : St) (h : Comm.run n nh Comm.init ls = some s)
    (ha : Addressed owner opOf ls) : ∀ p ∈ s.d.executed, owner (opOf p.2) = p.1 := by
  intro p hp
  obtain ⟨e, he, hu, hd⟩ := Deliver.C01_exec_at_dest n nh _ s.d (Comm.run_projD ls h) p.1 p.2 hp
  have hk := Comm.C02C01_entries_are_the_asyncs n nh ls s h
  have hm : Deliver.key e ∈ ls.flatMap Comm.issued := by
    rw [← hk]; exact List.mem_map.2 ⟨e, he, rfl⟩
  have := (ha _ hm).1
  simp only [Deliver.key] at this
  rw [← hu, ← hd, this]

/-- the operations executed on r are the operations of the global execution sequence owned by r -/
theorem opsExecutedOn_eq_filter (ls : List Label) (s : St) (h : Comm.run n nh Comm.init ls = some s)
    (ha : Addressed owner opOf ls) (r : Nat) :
    opsExecutedOn opOf r s = (execOps opOf s).filter (fun o => owner o = r) := by
  unfold opsExecutedOn uidsExecutedOn execOps
  rw [List.filter_map, List.map_map]
  have : s.d.executed.filter ((fun o => decide (owner o = r)) ∘ fun p => opOf p.2) =
      s.d.executed.filter (fun p => p.1 == r) := by
    apply List.filter_congr
    intro p hp
    simp only [Function.comp_def, executed_owned owner opOf n nh ls s h ha p hp]
    by_cases hpr : p.1 = r <;> simp [hpr]
  rw [this]; rfl

/-- under the issuing discipline the ghost memory IS `Dist.execGlobal` of the global execution sequence -/
theorem mem_eq_execGlobal (ls : List Label) (s : St) (h : Comm.run n nh Comm.init ls = some s)
    (ha : Addressed owner opOf ls) (r : Nat) :
    (ghostOf c opOf n nh g ls).mem r = Dist.execGlobal c owner g (execOps opOf s) r := by
  rw [Dist.execGlobal_rank, Dist.run_state_eq_foldl, mem_is_fold c opOf n nh g ls s h r,
    opsExecutedOn_eq_filter owner opOf n nh ls s h ha r]

theorem execGlobal_snoc (owner : Op → Nat) (g : Nat → σ) (E : List Op) (op : Op) :
    Dist.execGlobal c owner g (E ++ [op]) =
      fun r => if r = owner op then (c.apply (Dist.execGlobal c owner g E r) op).1
               else Dist.execGlobal c owner g E r := by
  induction E generalizing g with
  | nil => rfl
  | cons x E ih => simp only [List.cons_append, Dist.execGlobal]; rw [ih]

theorem emittedGlobal_snoc (owner : Op → Nat) (g : Nat → σ) (E : List Op) (op : Op) :
    Dist.emittedGlobal c owner g (E ++ [op]) =
      Dist.emittedGlobal c owner g E ++ (c.apply (Dist.execGlobal c owner g E (owner op)) op).2.1 := by
  induction E generalizing g with
  | nil => simp [Dist.emittedGlobal, Dist.execGlobal]
  | cons x E ih =>
    simp only [List.cons_append, Dist.emittedGlobal, Dist.execGlobal]
    rw [ih, List.append_assoc]

theorem addressed_prefix {owner : Op → Nat} {opOf : Nat → Op} {ls : List Label} {l : Label}
    (ha : Addressed owner opOf (ls ++ [l])) : Addressed owner opOf ls := by
  intro m hm
  apply ha
  rw [List.flatMap_append]
  exact List.mem_append_left _ hm

theorem conforms_gnext {s : St} {G : Ghost σ Op} {l : Label} (h : (gnext c opOf s G l).Conforms) : G.Conforms := by
  intro p hp
  apply h
  cases l <;> simp only [gnext] <;> first | exact hp | exact List.mem_append_left _ hp

/-- **the emitted operations of `Dist` are the handler-issued messages**: under the issuing discipline and
`HandlersApply`, `Dist.emittedGlobal` of the global execution sequence is the concatenation, over the executed
handlers in execution order, of the operations of the messages each of them issued -/
theorem emitted_eq (ls : List Label) (s : St) (h : Comm.run n nh Comm.init ls = some s)
    (ha : Addressed owner opOf ls) (hh : HandlersApply c opOf n nh g ls) :
    Dist.emittedGlobal c owner g (execOps opOf s) =
      s.d.executed.flatMap (fun p => (children (ghostOf c opOf n nh g ls).tagged p.2).map opOf) := by
  refine reach_induction c opOf n nh g
    (P := fun ls s G => Addressed owner opOf ls → G.Conforms →
      Dist.emittedGlobal c owner g (execOps opOf s) = s.d.executed.flatMap (fun p => (children G.tagged p.2).map opOf))
    (fun _ _ => rfl) ?_ ls s h ha hh
  intro ls s l s' hrun hst hrun' ih ha' hc'
  have ha0 := addressed_prefix ha'
  have hc0 := conforms_gnext c opOf hc'
  have ih' := ih ha0 hc0
  have hx := step_executed hst
  obtain ⟨hd, hl⟩ := reach_inv hrun
  -- messages appended to `tagged` with the tag `s.cur r` do not change the children of any executed handler
  have keep : ∀ (r : Nat) (news : List Nat),
      s.d.executed.flatMap (fun p => (children ((ghostOf c opOf n nh g ls).tagged ++
        news.map (fun v => (s.cur r, v))) p.2).map opOf) =
      s.d.executed.flatMap (fun p => (children (ghostOf c opOf n nh g ls).tagged p.2).map opOf) := by
    intro r news
    apply flatMap_congr_mem
    intro p hp
    have : (news.map (fun v => (s.cur r, v))).filter (fun t => t.1 == some p.2) = [] := by
      apply List.filter_eq_nil_iff.2
      intro t ht
      obtain ⟨v, _, rfl⟩ := List.mem_map.1 ht
      simp only [beq_iff_eq]
      intro hcu
      exact cur_not_executed hd hl hcu p.1 hp
    simp only [children, List.filter_append, this, List.append_nil]
  cases l with
  | async r uid dest direct =>
    unfold execOps at ih' ⊢
    rw [hx]; simp only [execRec, List.append_nil, gnext]
    rw [ih']
    exact (keep r [uid]).symm
  | runcb r msgs j =>
    unfold execOps at ih' ⊢
    rw [hx]; simp only [execRec, List.append_nil, gnext]
    rw [ih']
    have := keep r (msgs.map (·.1))
    rw [List.map_map] at this
    exact this.symm
  | execEnd r uid =>
    have hown : owner (opOf uid) = r :=
      executed_owned owner opOf n nh _ s' hrun' ha' (r, uid) (by rw [hx]; simp [execRec])
    have hmem := mem_eq_execGlobal c owner opOf n nh g ls s hrun ha0 r
    have hlog : (children (ghostOf c opOf n nh g ls).tagged uid).map opOf =
        (c.apply ((ghostOf c opOf n nh g ls).mem r) (opOf uid)).2.1 :=
      hc' _ (by simp only [gnext]; exact List.mem_append_right _ List.mem_cons_self)
    unfold execOps at ih' hmem ⊢
    rw [hx]
    simp only [execRec, gnext, List.map_append, List.map_cons, List.map_nil, List.flatMap_append, List.flatMap_cons,
      List.flatMap_nil, List.append_nil]
    rw [emittedGlobal_snoc, hown, ← hmem, ← hlog, ih']
  | isend r hop => unfold execOps at ih' ⊢; rw [hx]; simpa [execRec, gnext] using ih'
  | recvBegin r src seq => unfold execOps at ih' ⊢; rw [hx]; simpa [execRec, gnext] using ih'
  | fwd r uid => unfold execOps at ih' ⊢; rw [hx]; simpa [execRec, gnext] using ih'
  | recvEnd r => unfold execOps at ih' ⊢; rw [hx]; simpa [execRec, gnext] using ih'
  | execBegin r uid => unfold execOps at ih' ⊢; rw [hx]; simpa [execRec, gnext] using ih'
  | regcb r => unfold execOps at ih' ⊢; rw [hx]; simpa [execRec, gnext] using ih'
  | enter r => unfold execOps at ih' ⊢; rw [hx]; simpa [execRec, gnext] using ih'
  | contribute r => unfold execOps at ih' ⊢; rw [hx]; simpa [execRec, gnext] using ih'
  | result r => unfold execOps at ih' ⊢; rw [hx]; simpa [execRec, gnext] using ih'
  | exit r => unfold execOps at ih' ⊢; rw [hx]; simpa [execRec, gnext] using ih'

end Ghost

end YgmVerif.DistComm
