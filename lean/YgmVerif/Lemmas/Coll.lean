import YgmVerif.Model.Coll
/-! Helper lemmas for the reduction tree of `comm::all_reduce` (property C09):
ancestor relation of the implicit binary heap, membership / no-duplicates of `subtreeList`,
and the fold identity for an associative merge. -/
namespace YgmVerif.Coll

theorem parent_firstChild (r : Nat) : parent (firstChild r) = r := by
  simp only [parent, firstChild]; omega
theorem parent_secondChild (r : Nat) : parent (secondChild r) = r := by
  simp only [parent, secondChild]; omega
theorem child_of_parent (c : Nat) (h : 0 < c) : firstChild (parent c) = c ∨ secondChild (parent c) = c := by
  simp only [parent, firstChild, secondChild]; omega

inductive Anc (r : Nat) : Nat → Prop
  | self : Anc r r
  | left {m : Nat} : Anc r m → Anc r (firstChild m)
  | right {m : Nat} : Anc r m → Anc r (secondChild m)

theorem Anc.le {r m : Nat} (h : Anc r m) : r ≤ m := by
  induction h with
  | self => exact Nat.le_refl _
  | left _ ih => simp only [firstChild]; omega
  | right _ ih => simp only [secondChild]; omega

theorem Anc.trans {a b c : Nat} (h1 : Anc a b) (h2 : Anc b c) : Anc a c := by
  induction h2 with
  | self => exact h1
  | left _ ih => exact .left ih
  | right _ ih => exact .right ih

theorem Anc.inv {r m : Nat} (h : Anc r m) : m = r ∨ (r < m ∧ Anc r (parent m)) := by
  induction h with
  | self => exact .inl rfl
  | @left k hk _ =>
    right; rw [parent_firstChild]; exact ⟨by have := hk.le; simp only [firstChild]; omega, hk⟩
  | @right k hk _ =>
    right; rw [parent_secondChild]; exact ⟨by have := hk.le; simp only [secondChild]; omega, hk⟩

theorem anc_zero (m : Nat) : Anc 0 m := by
  induction m using Nat.strongRecOn with
  | _ m ih =>
    by_cases h : m = 0
    · subst h; exact .self
    · rcases child_of_parent m (by omega) with hc | hc
      · rw [← hc]; exact .left (ih _ (by simp only [parent]; omega))
      · rw [← hc]; exact .right (ih _ (by simp only [parent]; omega))

theorem subtreeList_of_lt {n r : Nat} (h : r < n) :
    subtreeList n r = r :: (subtreeList n (firstChild r) ++ subtreeList n (secondChild r)) := by
  rw [subtreeList]; simp [h]

theorem subtreeList_of_ge {n r : Nat} (h : ¬ r < n) : subtreeList n r = [] := by
  rw [subtreeList]; simp [h]


theorem child_mem_subtreeList {n r k c : Nat} (hk : k ∈ subtreeList n r) (hc : c < n)
    (hp : c = firstChild k ∨ c = secondChild k) : c ∈ subtreeList n r := by
  fun_induction subtreeList n r with
  | case1 r hr ih1 ih2 =>
    simp only [List.mem_cons, List.mem_append] at hk ⊢
    rcases hk with rfl | hk | hk
    · right
      rcases hp with rfl | rfl
      · left; rw [subtreeList_of_lt hc]; simp
      · right; rw [subtreeList_of_lt hc]; simp
    · exact .inr (.inl (ih1 hk))
    · exact .inr (.inr (ih2 hk))
  | case2 r hr => simp at hk

theorem mem_subtreeList {n r m : Nat} : m ∈ subtreeList n r ↔ m < n ∧ Anc r m := by
  constructor
  · intro h
    fun_induction subtreeList n r with
    | case1 r hr ih1 ih2 =>
      simp only [List.mem_cons, List.mem_append] at h
      rcases h with rfl | h | h
      · exact ⟨hr, .self⟩
      · exact ⟨(ih1 h).1, Anc.trans (.left .self) (ih1 h).2⟩
      · exact ⟨(ih2 h).1, Anc.trans (.right .self) (ih2 h).2⟩
    | case2 r hr => simp at h
  · rintro ⟨hm, ha⟩
    induction ha with
    | self => rw [subtreeList_of_lt hm]; simp
    | @left k hk ih =>
      have hkn : k < n := by simp only [firstChild] at hm; omega
      exact child_mem_subtreeList (ih hkn) hm (.inl rfl)
    | @right k hk ih =>
      have hkn : k < n := by simp only [secondChild] at hm; omega
      exact child_mem_subtreeList (ih hkn) hm (.inr rfl)

theorem anc_siblings_disjoint {r m : Nat} (h1 : Anc (firstChild r) m) (h2 : Anc (secondChild r) m) : False := by
  induction m using Nat.strongRecOn with
  | _ m ih =>
    rcases h1.inv with e1 | ⟨l1, p1⟩
    · subst e1; have := h2.le; simp only [firstChild, secondChild] at this; omega
    · rcases h2.inv with e2 | ⟨l2, p2⟩
      · subst e2
        rw [parent_secondChild] at p1
        have := p1.le; simp only [firstChild] at this; omega
      · exact ih (parent m) (by simp only [parent]; simp only [firstChild] at l1; omega) p1 p2

theorem subtreeList_nodup (n r : Nat) : (subtreeList n r).Nodup := by
  fun_induction subtreeList n r with
  | case1 r hr ih1 ih2 =>
    rw [List.nodup_cons, List.nodup_append]
    refine ⟨?_, ih1, ih2, ?_⟩
    · intro h
      simp only [List.mem_append, mem_subtreeList] at h
      rcases h with ⟨_, h⟩ | ⟨_, h⟩
      · have := h.le; simp only [firstChild] at this; omega
      · have := h.le; simp only [secondChild] at this; omega
    · intro a ha b hb hab
      subst hab
      exact anc_siblings_disjoint (mem_subtreeList.mp ha).2 (mem_subtreeList.mp hb).2
  | case2 r hr => exact List.nodup_nil

theorem subtreeList_perm_range (n : Nat) : (subtreeList n 0).Perm (List.range n) := by
  rw [List.perm_ext_iff_of_nodup (subtreeList_nodup n 0) List.nodup_range]
  intro a
  rw [mem_subtreeList, List.mem_range]
  exact ⟨fun h => h.1, fun h => ⟨h, anc_zero a⟩⟩

/-! fold lemmas -/
theorem foldl_assoc_shift {α : Type} (f : α → α → α) (assoc : ∀ a b c, f (f a b) c = f a (f b c))
    (a b : α) (l : List α) : l.foldl f (f a b) = f a (l.foldl f b) := by
  induction l generalizing b with
  | nil => rfl
  | cons x t ih => simp only [List.foldl_cons]; rw [assoc, ih]


theorem subtreeVal_unfold {α : Type} (n : Nat) (merge : α → α → α) (x : Nat → α) (r : Nat) :
    subtreeVal n merge x r =
      (let t1 := if firstChild r < n then merge (x r) (subtreeVal n merge x (firstChild r)) else x r
       if secondChild r < n then merge t1 (subtreeVal n merge x (secondChild r)) else t1) := by
  rw [subtreeVal]; simp only [dite_eq_ite]

/-- head of a non-empty subtree list -/
theorem subtreeList_head_tail {n r : Nat} (h : r < n) :
    subtreeList n r = r :: (subtreeList n r).tail := by
  rw [subtreeList_of_lt h]; rfl

theorem subtreeVal_eq_foldl {α : Type} (merge : α → α → α)
    (assoc : ∀ a b c, merge (merge a b) c = merge a (merge b c))
    (n : Nat) (x : Nat → α) (r : Nat) (hr : r < n) :
    subtreeVal n merge x r = ((subtreeList n r).tail.map x).foldl merge (x r) := by
  induction hd : n - r using Nat.strongRecOn generalizing r with
  | _ d ih =>
    have fold_sub : ∀ c, r < c → c < n →
        ∀ (a : α) (l : List Nat), ((l ++ subtreeList n c).map x).foldl merge a
          = merge ((l.map x).foldl merge a) (subtreeVal n merge x c) := by
      intro c hrc hc a l
      rw [ih (n - c) (by omega) c hc rfl, subtreeList_head_tail hc]
      simp only [List.map_append, List.map_cons, List.foldl_append, List.foldl_cons, List.tail_cons]
      rw [foldl_assoc_shift merge assoc]
    rw [subtreeVal_unfold, subtreeList_of_lt hr, List.tail_cons]
    by_cases h1 : firstChild r < n <;> by_cases h2 : secondChild r < n <;> simp only [h1, h2, if_true, if_false]
    · rw [fold_sub _ (by simp only [secondChild]; omega) h2]
      have := fold_sub _ (by simp only [firstChild]; omega) h1 (x r) []
      simp only [List.nil_append, List.map_nil, List.foldl_nil] at this
      rw [this]
    · rw [subtreeList_of_ge h2, List.append_nil]
      have := fold_sub _ (by simp only [firstChild]; omega) h1 (x r) []
      simp only [List.nil_append, List.map_nil, List.foldl_nil] at this
      rw [this]
    · rw [subtreeList_of_ge h1, List.nil_append]
      have := fold_sub _ (by simp only [secondChild]; omega) h2 (x r) []
      simp only [List.nil_append, List.map_nil, List.foldl_nil] at this
      rw [this]
    · rw [subtreeList_of_ge h1, subtreeList_of_ge h2]; rfl
end YgmVerif.Coll
