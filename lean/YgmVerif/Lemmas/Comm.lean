import YgmVerif.Model.Comm
import YgmVerif.Lemmas.Deliver
import YgmVerif.Lemmas.BarrierME
/-!
Lemmas for the product system `YgmVerif.Comm`:

* the component histories are recoverable (`run_projD`, `run_projB`): a joint run is a run of each component on its
  projection, so every theorem about `Deliver` / `BarrierME` transfers;
* the LINKING invariant `Link` between the two components: BarrierME's abstract number `und` IS the number of Deliver
  entries that are neither executed nor being executed, the counters `sent` / `recvd` ARE the number of entries / of
  executed entries, a rank is `busy` iff the ghost `cur` names the entry it is executing, and that entry sits in the
  buffer the rank is walking;  `link_step`: every joint step preserves it.
-/
namespace YgmVerif.Comm
open YgmVerif
open YgmVerif.Barrier (sumTo upd b2n upd_same upd_other sumTo_upd sumTo_b2n_upd b2n_true b2n_false)
open YgmVerif.Deliver (Entry Loc relocate isDone inWalkOf inWalkOf_iff inWireOf_iff inBufOf_iff eq_of_uid_eq)

/-! ### component runs -/

theorem dRun_nil (n : Nat) (nh : Nat → Nat → Nat) (d : Deliver.St) : Deliver.run n nh d [] = some d := rfl
theorem bRun_nil (n : Nat) (b : BarrierME.Sys) : BarrierME.run n b [] = some b := rfl

theorem dRun_single (n : Nat) (nh : Nat → Nat → Nat) (d : Deliver.St) (l : Deliver.Label) :
    Deliver.run n nh d [l] = Deliver.step n nh d l := by
  simp only [Deliver.run]
  cases Deliver.step n nh d l <;> rfl

theorem bRun_single (n : Nat) (b : BarrierME.Sys) (l : BarrierME.Label) :
    BarrierME.run n b [l] = BarrierME.step n b l := by
  simp only [BarrierME.run]
  cases BarrierME.step n b l <;> rfl

theorem dRun_append (n : Nat) (nh : Nat → Nat → Nat) (d d1 d2 : Deliver.St) (a b : List Deliver.Label)
    (h1 : Deliver.run n nh d a = some d1) (h2 : Deliver.run n nh d1 b = some d2) :
    Deliver.run n nh d (a ++ b) = some d2 := by
  induction a generalizing d with
  | nil => simp only [Deliver.run] at h1; cases h1; exact h2
  | cons l ls ih =>
    simp only [List.cons_append, Deliver.run] at h1 ⊢
    cases hst : Deliver.step n nh d l with
    | none => rw [hst] at h1; cases h1
    | some d' => rw [hst] at h1; simp only; exact ih d' h1

theorem bRun_append (n : Nat) (s s1 s2 : BarrierME.Sys) (a b : List BarrierME.Label)
    (h1 : BarrierME.run n s a = some s1) (h2 : BarrierME.run n s1 b = some s2) :
    BarrierME.run n s (a ++ b) = some s2 := by
  induction a generalizing s with
  | nil => simp only [BarrierME.run] at h1; cases h1; exact h2
  | cons l ls ih =>
    simp only [List.cons_append, BarrierME.run] at h1 ⊢
    cases hst : BarrierME.step n s l with
    | none => rw [hst] at h1; cases h1
    | some s' => rw [hst] at h1; simp only; exact ih s' h1

/-- what an accepted joint step consists of -/
theorem step_some {n : Nat} {nh : Nat → Nat → Nat} {s s' : St} {l : Label} (h : step n nh s l = some s') :
    guard s l = true ∧ Deliver.run n nh s.d (projD l) = some s'.d ∧ BarrierME.run n s.b (projB l) = some s'.b ∧
      s'.cur = nextCur s l := by
  unfold step at h
  split at h
  · rename_i hg
    split at h
    · rename_i d' b' hd hb
      cases h
      exact ⟨hg, hd, hb, rfl⟩
    · cases h
  · cases h

/-- **the message-movement history is recoverable**: a joint run is a `Deliver` run on the projection -/
theorem run_projD {n : Nat} {nh : Nat → Nat → Nat} {s s' : St} (ls : List Label)
    (h : run n nh s ls = some s') : Deliver.run n nh s.d (ls.flatMap projD) = some s'.d := by
  induction ls generalizing s with
  | nil => simp only [run] at h; cases h; rfl
  | cons l ls ih =>
    simp only [run] at h
    cases hst : step n nh s l with
    | none => rw [hst] at h; cases h
    | some s1 =>
      rw [hst] at h
      rw [List.flatMap_cons]
      exact dRun_append n nh _ _ _ _ _ (step_some hst).2.1 (ih h)

/-- **the counter / barrier history is recoverable**: a joint run is a `BarrierME` run on the projection -/
theorem run_projB {n : Nat} {nh : Nat → Nat → Nat} {s s' : St} (ls : List Label)
    (h : run n nh s ls = some s') : BarrierME.run n s.b (ls.flatMap projB) = some s'.b := by
  induction ls generalizing s with
  | nil => simp only [run] at h; cases h; rfl
  | cons l ls ih =>
    simp only [run] at h
    cases hst : step n nh s l with
    | none => rw [hst] at h; cases h
    | some s1 =>
      rw [hst] at h
      rw [List.flatMap_cons]
      exact bRun_append n _ _ _ _ _ (step_some hst).2.2.1 (ih h)

/-- the messages issued by a joint history are the `async` calls of its Deliver projection -/
theorem asyncLabels_newKeys (r : Nat) (msgs : List Msg) :
    (asyncLabels r msgs).flatMap Deliver.newKeys = msgs := by
  induction msgs with
  | nil => rfl
  | cons m ms ih =>
    simp only [asyncLabels, List.map_cons, List.flatMap_cons] at ih ⊢
    rw [ih]; rfl

theorem projD_newKeys (l : Label) : (projD l).flatMap Deliver.newKeys = issued l := by
  cases l <;> try rfl
  exact asyncLabels_newKeys _ _

theorem flatMap_projD_newKeys (ls : List Label) :
    (ls.flatMap projD).flatMap Deliver.newKeys = ls.flatMap issued := by
  induction ls with
  | nil => rfl
  | cons l ls ih =>
    simp only [List.flatMap_cons, List.flatMap_append]
    rw [ih, projD_newKeys]

/-! ### counting entries -/

theorem ite_b2n (b : Bool) : (if b = true then 1 else 0) = b2n b := by cases b <;> rfl

theorem countP_map_congr (p p' : Entry → Bool) (f : Entry → Entry) (es : List Entry)
    (h : ∀ e ∈ es, p' (f e) = p e) : (es.map f).countP p' = es.countP p := by
  induction es with
  | nil => rfl
  | cons x xs ih =>
    simp only [List.map_cons, List.countP_cons]
    rw [ih (fun e he => h e (List.mem_cons_of_mem _ he)), h x List.mem_cons_self]

/-- the predicate changes on (at most) the one entry with the uid of `e0` -/
theorem countP_map_flip (p p' : Entry → Bool) (f : Entry → Entry) (es : List Entry)
    (hn : (es.map (·.uid)).Nodup) (e0 : Entry) (he0 : e0 ∈ es)
    (h : ∀ e ∈ es, e.uid ≠ e0.uid → p' (f e) = p e) :
    (es.map f).countP p' + b2n (p e0) = es.countP p + b2n (p' (f e0)) := by
  induction es with
  | nil => cases he0
  | cons x xs ih =>
    simp only [List.map_cons, List.nodup_cons, List.mem_map, not_exists, not_and] at hn
    simp only [List.map_cons, List.countP_cons, ite_b2n]
    rcases List.mem_cons.1 he0 with rfl | hin
    · have := countP_map_congr p p' f xs (fun e he => h e (List.mem_cons_of_mem _ he)
        (fun hu => hn.1 e he hu))
      omega
    · have hne : x.uid ≠ e0.uid := fun hu => hn.1 e0 hin hu.symm
      have hx := h x List.mem_cons_self hne
      have := ih hn.2 hin (fun e he => h e (List.mem_cons_of_mem _ he))
      rw [hx]; omega

/-- the entry is the one whose handler is running (it is in the walk of a rank whose `cur` names it) -/
def beingExec (cur : Nat → Option Nat) (e : Entry) : Bool :=
  match e.loc with
  | .inWalk r => cur r == some e.uid
  | _ => false

/-- the handler of the entry has not started: what BarrierME counts in `und` -/
def pending (cur : Nat → Option Nat) (e : Entry) : Bool := !isDone e && !beingExec cur e

theorem class_partition (cur : Nat → Option Nat) (e : Entry) :
    b2n (pending cur e) + b2n (beingExec cur e) + b2n (isDone e) = 1 := by
  unfold pending beingExec isDone
  cases e.loc with
  | inBuf _ _ => rfl
  | inWire _ _ _ => rfl
  | done _ => rfl
  | inWalk r => simp only; cases (cur r == some e.uid) <;> rfl

/-- every entry is in exactly one of the three classes -/
theorem count_partition (cur : Nat → Option Nat) (es : List Entry) :
    es.countP (pending cur) + es.countP (beingExec cur) + es.countP isDone = es.length := by
  induction es with
  | nil => rfl
  | cons x xs ih =>
    simp only [List.countP_cons, ite_b2n, List.length_cons]
    have := class_partition cur x
    omega

theorem pending_of_loc (cur : Nat → Option Nat) (e : Entry)
    (h : (∃ a hop, e.loc = .inBuf a hop) ∨ (∃ a d k, e.loc = .inWire a d k)) : pending cur e = true := by
  unfold pending beingExec isDone
  rcases h with ⟨a, hop, h⟩ | ⟨a, d, k, h⟩ <;> rw [h] <;> rfl

theorem not_done_of_loc (e : Entry)
    (h : (∃ a hop, e.loc = .inBuf a hop) ∨ (∃ a d k, e.loc = .inWire a d k) ∨ (∃ r, e.loc = .inWalk r)) :
    isDone e = false := by
  unfold isDone
  rcases h with ⟨a, hop, h⟩ | ⟨a, d, k, h⟩ | ⟨r, h⟩ <;> rw [h]

theorem beingExec_iff (cur : Nat → Option Nat) (e : Entry) :
    beingExec cur e = true ↔ ∃ r, e.loc = .inWalk r ∧ cur r = some e.uid := by
  unfold beingExec
  cases hl : e.loc with
  | inBuf _ _ => simp
  | inWire _ _ _ => simp
  | done _ => simp
  | inWalk r => simp

/-! ### the linking invariant -/

structure Link (n : Nat) (s : St) : Prop where
  /-- BarrierME's `und` is the number of entries whose handler has not started -/
  und : s.b.und = s.d.es.countP (pending s.cur)
  /-- Σ m_send_count = number of messages ever issued -/
  sent : sumTo n s.b.sent = s.d.es.length
  /-- Σ m_recv_count = number of messages whose handler has returned -/
  recvd : sumTo n s.b.recvd = s.d.es.countP isDone
  /-- ... = number of handler executions recorded -/
  execLen : s.d.executed.length = s.d.es.countP isDone
  /-- a rank is busy iff `cur` names the message it is executing -/
  busyCur : ∀ r, s.b.busy r = (s.cur r).isSome
  /-- ... and that message is in the buffer the rank is walking, addressed to it (or a broadcast leg) -/
  curWalk : ∀ r u, s.cur r = some u → r < n ∧ s.d.walking r = true ∧
      ∃ e ∈ s.d.es, e.uid = u ∧ e.loc = .inWalk r ∧ (e.dest = r ∨ e.direct = true)

theorem link_init (n : Nat) : Link n init := by
  refine ⟨rfl, ?_, ?_, rfl, fun _ => rfl, ?_⟩
  · exact Barrier.sumTo_const_zero n
  · exact Barrier.sumTo_const_zero n
  · intro r u h; cases h

/-- `Link` only reads these fields -/
theorem link_of_eq {n : Nat} {s s' : St} (hl : Link n s) (hes : s'.d.es = s.d.es)
    (hex : s'.d.executed = s.d.executed) (hw : s'.d.walking = s.d.walking) (hc : s'.cur = s.cur) (hu : s'.b.und = s.b.und)
    (hs : s'.b.sent = s.b.sent) (hr : s'.b.recvd = s.b.recvd) (hb : s'.b.busy = s.b.busy) : Link n s' := by
  refine ⟨?_, ?_, ?_, ?_, ?_, ?_⟩
  · rw [hu, hes, hc]; exact hl.und
  · rw [hs, hes]; exact hl.sent
  · rw [hr, hes]; exact hl.recvd
  · rw [hex, hes]; exact hl.execLen
  · rw [hb, hc]; exact hl.busyCur
  · rw [hc, hw, hes]; exact hl.curWalk

/-- new messages (all in send buffers) are appended, `und` and one rank's `sent` grow by their number -/
theorem link_append {n : Nat} {s : St} (hl : Link n s) (news : List Entry) (r : Nat) (hr : r < n)
    (hn : ∀ e ∈ news, ∃ a hop, e.loc = .inBuf a hop) (d' : Deliver.St) (b' : BarrierME.Sys)
    (hes : d'.es = s.d.es ++ news) (hx : d'.executed = s.d.executed) (hw : d'.walking = s.d.walking)
    (hu : b'.und = s.b.und + news.length) (hs : b'.sent = upd s.b.sent r (s.b.sent r + news.length))
    (hrc : b'.recvd = s.b.recvd) (hb : b'.busy = s.b.busy) : Link n { d := d', b := b', cur := s.cur } := by
  have hz : news.countP isDone = 0 :=
    List.countP_eq_zero.2 (fun e he => by rw [not_done_of_loc e (Or.inl (hn e he))]; simp)
  refine ⟨?_, ?_, ?_, ?_, ?_, ?_⟩
  · show b'.und = d'.es.countP (pending s.cur)
    have : news.countP (pending s.cur) = news.length :=
      List.countP_eq_length.2 (fun e he => pending_of_loc _ e (Or.inl (hn e he)))
    rw [hu, hes, List.countP_append, ← hl.und, this]
  · show sumTo n b'.sent = d'.es.length
    have h1 := sumTo_upd n s.b.sent r (s.b.sent r + news.length) hr
    have h2 := hl.sent
    rw [hs, hes, List.length_append]; omega
  · show sumTo n b'.recvd = d'.es.countP isDone
    rw [hrc, hes, List.countP_append, hz, Nat.add_zero]; exact hl.recvd
  · show d'.executed.length = d'.es.countP isDone
    rw [hx, hes, List.countP_append, hz, Nat.add_zero]; exact hl.execLen
  · show ∀ q, b'.busy q = (s.cur q).isSome
    rw [hb]; exact hl.busyCur
  · intro q u hq
    obtain ⟨h1, h2, e, he, h3⟩ := hl.curWalk q u hq
    refine ⟨h1, ?_, e, ?_, h3⟩
    · show d'.walking q = true
      rw [hw]; exact h2
    · show e ∈ d'.es
      rw [hes]; exact List.mem_append_left _ he

/-- what the `async` calls of a callback do to the message-movement state -/
theorem asyncs_run {n : Nat} {nh : Nat → Nat → Nat} {r : Nat} (msgs : List Msg) (d d' : Deliver.St)
    (h : Deliver.run n nh d (asyncLabels r msgs) = some d') :
    ∃ news : List Entry, d'.es = d.es ++ news ∧ news.length = msgs.length ∧
      (∀ e ∈ news, ∃ a hop, e.loc = .inBuf a hop) ∧ d'.walking = d.walking ∧ d'.executed = d.executed := by
  induction msgs generalizing d with
  | nil =>
    simp only [asyncLabels, List.map_nil, Deliver.run] at h
    cases h
    exact ⟨[], by simp, rfl, (by intro e he; cases he), rfl, rfl⟩
  | cons m ms ih =>
    simp only [asyncLabels, List.map_cons, Deliver.run] at h
    cases hst : Deliver.step n nh d (.async r m.1 m.2.1 m.2.2) with
    | none => rw [hst] at h; cases h
    | some d1 =>
      rw [hst] at h
      obtain ⟨news, h1, h2, h3, h4, h5⟩ := ih d1 h
      simp only [Deliver.step] at hst
      split at hst
      · cases hst
        refine ⟨{ uid := m.1, dest := m.2.1, direct := m.2.2,
                  loc := .inBuf r (if m.2.2 then m.2.1 else nh r m.2.1) } :: news, ?_, ?_, ?_, h4, h5⟩
        · rw [h1]; simp
        · simp [h2]
        · intro e he
          rcases List.mem_cons.1 he with rfl | he
          · exact ⟨_, _, rfl⟩
          · exact h3 e he
      · cases hst

/-- a set of pending entries is moved to a location where they are still pending -/
theorem link_relocate {n : Nat} {s : St} (hl : Link n s) (q : Entry → Bool) (l : Loc) (sq : Nat → Nat)
    (wk : Nat → Bool)
    (hq1 : ∀ e ∈ s.d.es, q e = true → pending s.cur e = true)
    (hq2 : ∀ e ∈ s.d.es, q e = true → pending s.cur { e with loc := l } = true)
    (hwk : ∀ r u, s.cur r = some u → wk r = true) :
    Link n { s with d := { s.d with es := relocate q l s.d.es, sendSeq := sq, walking := wk } } := by
  have hpd : ∀ e, pending s.cur e = true → isDone e = false ∧ beingExec s.cur e = false := by
    intro e he
    unfold pending at he
    simp only [Bool.and_eq_true, Bool.not_eq_true'] at he
    exact he
  have hdn : (relocate q l s.d.es).countP isDone = s.d.es.countP isDone := by
    unfold relocate
    apply countP_map_congr isDone isDone
    intro e he
    by_cases hqe : q e = true
    · simp only [hqe, if_true]; rw [(hpd _ (hq1 e he hqe)).1, (hpd _ (hq2 e he hqe)).1]
    · simp only [hqe]; rfl
  refine ⟨?_, ?_, ?_, ?_, hl.busyCur, ?_⟩
  · show s.b.und = (relocate q l s.d.es).countP (pending s.cur)
    unfold relocate
    rw [countP_map_congr (pending s.cur) (pending s.cur)]
    · exact hl.und
    · intro e he
      by_cases hqe : q e = true
      · simp only [hqe, if_true]; rw [hq1 e he hqe, hq2 e he hqe]
      · simp only [hqe]; rfl
  · show sumTo n s.b.sent = (relocate q l s.d.es).length
    rw [Deliver.relocate_length]; exact hl.sent
  · show sumTo n s.b.recvd = (relocate q l s.d.es).countP isDone
    rw [hdn]; exact hl.recvd
  · show s.d.executed.length = (relocate q l s.d.es).countP isDone
    rw [hdn]; exact hl.execLen
  · intro r u hr
    obtain ⟨h1, _, e, he, h3, h4, h5⟩ := hl.curWalk r u hr
    refine ⟨h1, hwk r u hr, e, ?_, h3, h4, h5⟩
    show e ∈ relocate q l s.d.es
    refine Deliver.mem_relocate.2 ⟨e, he, ?_⟩
    have hqe : q e = false := by
      cases hqe : q e with
      | false => rfl
      | true =>
        have := (hpd _ (hq1 e he hqe)).2
        have hb : beingExec s.cur e = true := (beingExec_iff _ _).2 ⟨r, h4, by rw [hr, h3]⟩
        rw [hb] at this; cases this
    simp [hqe]

theorem cur_none_of_not_busy {n : Nat} {s : St} (hl : Link n s) (r : Nat) (hb : s.b.busy r = false) :
    s.cur r = none := by
  have := hl.busyCur r
  rw [hb] at this
  cases hc : s.cur r with
  | none => rfl
  | some u => rw [hc] at this; cases this

/-- **every joint step preserves the linking invariant** -/
theorem link_step {n : Nat} {nh : Nat → Nat → Nat} {s s' : St} {l : Label} (hd : Deliver.Inv s.d)
    (hl : Link n s) (h : step n nh s l = some s') : Link n s' := by
  obtain ⟨hg, hD, hB, hc⟩ := step_some h
  obtain ⟨d', b', c'⟩ := s'
  simp only at hD hB hc
  subst hc
  cases l with
  | async r uid dest direct =>
    simp only [projD, projB, dRun_single, bRun_single] at hD hB
    simp only [Deliver.step] at hD
    split at hD
    · cases hD
      simp only [BarrierME.step] at hB
      split at hB
      · rename_i hcB
        cases hB
        exact link_append hl [_] r hcB.1
          (by intro e he; rw [List.mem_singleton] at he; exact ⟨_, _, by rw [he]⟩) _ _ rfl rfl rfl rfl rfl rfl rfl
      · cases hB
    · cases hD
  | isend r hop =>
    simp only [projD, projB, dRun_single, bRun_nil] at hD hB
    cases hB
    simp only [Deliver.step] at hD
    split at hD
    · cases hD
      exact link_relocate hl _ _ _ _
        (fun e _ hq => pending_of_loc _ e (Or.inl ⟨r, hop, inBufOf_iff.1 hq⟩))
        (fun e _ _ => pending_of_loc _ _ (Or.inr ⟨_, _, _, rfl⟩))
        (fun q u hq => (hl.curWalk q u hq).2.1)
    · cases hD
  | recvBegin r src seq =>
    simp only [projD, projB, dRun_single, bRun_nil] at hD hB
    cases hB
    simp only [Deliver.step] at hD
    split at hD
    · rename_i hcD
      cases hD
      have hcr : s.cur r = none := by
        cases hcu : s.cur r with
        | none => rfl
        | some u => have := (hl.curWalk r u hcu).2.1; rw [hcD.2.1] at this; cases this
      refine link_relocate hl _ _ _ _
        (fun e _ hq => pending_of_loc _ e (Or.inr ⟨src, r, seq, inWireOf_iff.1 hq⟩)) ?_ ?_
      · intro e _ _
        unfold pending beingExec isDone
        simp [hcr]
      · intro q u hq
        unfold Deliver.upd
        by_cases hqr : q = r
        · simp [hqr]
        · simp only [hqr, if_false]; exact (hl.curWalk q u hq).2.1
    · cases hD
  | fwd r uid =>
    simp only [projD, projB, dRun_single, bRun_nil] at hD hB
    cases hB
    simp only [Deliver.step] at hD
    split at hD
    · rename_i e0 hf
      split at hD
      · rename_i hcD
        cases hD
        have hp0 := List.find?_some hf
        have he0 := List.mem_of_find?_eq_some hf
        simp only [Bool.and_eq_true, beq_iff_eq] at hp0
        refine link_relocate hl _ _ _ _ ?_
          (fun e _ _ => pending_of_loc _ _ (Or.inl ⟨_, _, rfl⟩))
          (fun q u hq => (hl.curWalk q u hq).2.1)
        intro e he hq
        simp only [Bool.and_eq_true, beq_iff_eq] at hq
        have hw := inWalkOf_iff.1 hq.2
        have hee : e = e0 := eq_of_uid_eq hd.nodup he he0 (hq.1.trans hp0.1.symm)
        have hne : s.cur r ≠ some e.uid := by
          intro hcu
          obtain ⟨_, _, e', he', h3, _, h5⟩ := hl.curWalk r e.uid hcu
          have : e' = e0 := eq_of_uid_eq hd.nodup he' he0 (by rw [h3, hee])
          rw [this] at h5
          rcases h5 with h5 | h5
          · exact hcD.2.2.1 h5
          · rw [hcD.2.2.2] at h5; cases h5
        unfold pending beingExec isDone
        rw [hw]; simp [hne]
      · cases hD
    · cases hD
  | recvEnd r =>
    simp only [projD, projB, dRun_single, bRun_nil] at hD hB
    cases hB
    simp only [Deliver.step] at hD
    split at hD
    · rename_i hcD
      cases hD
      refine ⟨hl.und, hl.sent, hl.recvd, hl.execLen, hl.busyCur, ?_⟩
      intro q u hq
      obtain ⟨h1, h2, e, he, h3, h4, h5⟩ := hl.curWalk q u hq
      refine ⟨h1, ?_, e, he, h3, h4, h5⟩
      show Deliver.upd s.d.walking r false q = true
      by_cases hqr : q = r
      · subst hqr
        exact absurd (List.any_eq_true.2 ⟨e, he, inWalkOf_iff.2 h4⟩) hcD.2.2
      · simp only [Deliver.upd, hqr, if_false]; exact h2
    · cases hD
  | execBegin r uid =>
    simp only [projD, projB, bRun_single, dRun_nil] at hD hB
    cases hD
    simp only [BarrierME.step] at hB
    split at hB
    · rename_i hcB
      cases hB
      simp only [guard, runnable, Bool.and_eq_true] at hg
      obtain ⟨e0, he0, hq⟩ := List.any_eq_true.1 hg.2
      simp only [Bool.and_eq_true, beq_iff_eq, Bool.or_eq_true] at hq
      obtain ⟨⟨hu0, hw0⟩, hdest0⟩ := hq
      have hw0' := inWalkOf_iff.1 hw0
      have hcr := cur_none_of_not_busy hl r hcB.2.2
      refine ⟨?_, hl.sent, hl.recvd, hl.execLen, ?_, ?_⟩
      · show s.b.und - 1 = s.d.es.countP (pending (upd s.cur r (some uid)))
        have hf := countP_map_flip (pending s.cur) (pending (upd s.cur r (some uid))) id s.d.es hd.nodup e0 he0
          (by
            intro e he hne
            have hne' : uid ≠ e.uid := fun h => hne (by rw [hu0, h])
            unfold pending beingExec
            simp only [id]
            cases hloc : e.loc with
            | inWalk q =>
              simp only
              by_cases hqr : q = r
              · subst hqr; rw [upd_same, hcr]; simp [hne']
              · rw [upd_other _ _ _ _ hqr]
            | _ => rfl)
        have h1 : pending s.cur e0 = true := by
          unfold pending beingExec isDone; rw [hw0']; simp [hcr]
        have h2 : pending (upd s.cur r (some uid)) (id e0) = false := by
          unfold pending beingExec isDone; simp only [id]; rw [hw0']; simp [hu0]
        rw [List.map_id, h1, h2, b2n_true, b2n_false] at hf
        have := hl.und
        omega
      · intro q
        show upd s.b.busy r true q = (upd s.cur r (some uid) q).isSome
        by_cases hqr : q = r
        · subst hqr; simp [upd_same]
        · rw [upd_other _ _ _ _ hqr, upd_other _ _ _ _ hqr]; exact hl.busyCur q
      · intro q u hq
        have hq' : upd s.cur r (some uid) q = some u := hq
        by_cases hqr : q = r
        · subst hqr
          rw [upd_same] at hq'
          cases hq'
          refine ⟨hcB.1, hg.1, e0, he0, hu0, hw0', ?_⟩
          rcases hdest0 with h | h
          · exact Or.inl (by simpa using h)
          · exact Or.inr h
        · rw [upd_other _ _ _ _ hqr] at hq'
          exact hl.curWalk q u hq'
    · cases hB
  | execEnd r uid =>
    simp only [projD, projB, bRun_single, dRun_single] at hD hB
    simp only [guard, beq_iff_eq] at hg
    simp only [Deliver.step] at hD
    split at hD
    · rename_i hcD
      cases hD
      simp only [BarrierME.step] at hB
      split at hB
      · rename_i hcB
        cases hB
        obtain ⟨e0, he0, hq⟩ := List.any_eq_true.1 hcD.2.2
        simp only [Bool.and_eq_true, beq_iff_eq, Bool.or_eq_true] at hq
        obtain ⟨⟨hu0, hw0⟩, _⟩ := hq
        have hw0' := inWalkOf_iff.1 hw0
        have hf := countP_map_flip isDone isDone
          (fun e => if (e.uid == uid && inWalkOf r e) = true then { e with loc := Loc.done r } else e)
          s.d.es hd.nodup e0 he0
          (by
            intro e he hne
            have : (e.uid == uid && inWalkOf r e) = false := by
              have : e.uid ≠ uid := fun h => hne (by rw [h, hu0])
              simp [this]
            simp [this])
        have hf1 : isDone e0 = false := not_done_of_loc e0 (Or.inr (Or.inr ⟨r, hw0'⟩))
        have hf2 : isDone ((fun e => if (e.uid == uid && inWalkOf r e) = true then
            { e with loc := Loc.done r } else e) e0) = true := by
          simp [hu0, hw0, isDone]
        rw [hf1, hf2, b2n_true, b2n_false] at hf
        refine ⟨?_, ?_, ?_, ?_, ?_, ?_⟩
        · show s.b.und = (relocate (fun e => e.uid == uid && inWalkOf r e) (.done r) s.d.es).countP
            (pending (upd s.cur r none))
          unfold relocate
          rw [countP_map_congr (pending s.cur)]
          · exact hl.und
          · intro e he
            by_cases hqe : (e.uid == uid && inWalkOf r e) = true
            · simp only [hqe, if_true]
              simp only [Bool.and_eq_true, beq_iff_eq] at hqe
              have hw := inWalkOf_iff.1 hqe.2
              have e1 : pending (upd s.cur r none) { e with loc := .done r } = false := by
                simp [pending, isDone]
              have e2 : pending s.cur e = false := by
                unfold pending beingExec isDone; rw [hw]; simp [hg, hqe.1]
              rw [e1, e2]
            · simp only [hqe]
              show pending (upd s.cur r none) e = pending s.cur e
              unfold pending beingExec
              cases hloc : e.loc with
              | inWalk q =>
                simp only
                by_cases hqr : q = r
                · subst hqr
                  have hne : uid ≠ e.uid := by
                    intro hu
                    apply hqe
                    simp [hu, inWalkOf_iff.2 hloc]
                  rw [upd_same, hg]; simp [hne]
                · rw [upd_other _ _ _ _ hqr]
              | _ => rfl
        · show sumTo n s.b.sent = (relocate _ _ s.d.es).length
          rw [Deliver.relocate_length]; exact hl.sent
        · show sumTo n (upd s.b.recvd r (s.b.recvd r + 1)) =
            (relocate (fun e => e.uid == uid && inWalkOf r e) (.done r) s.d.es).countP isDone
          unfold relocate
          show sumTo n (upd s.b.recvd r (s.b.recvd r + 1)) = (s.d.es.map
            (fun e => if (e.uid == uid && inWalkOf r e) = true then { e with loc := Loc.done r } else e)).countP isDone
          have h3 := sumTo_upd n s.b.recvd r (s.b.recvd r + 1) hcB.1
          have h4 := hl.recvd
          omega
        · show (s.d.executed ++ [(r, uid)]).length = (s.d.es.map
            (fun e => if (e.uid == uid && inWalkOf r e) = true then { e with loc := Loc.done r } else e)).countP isDone
          have h4 := hl.execLen
          rw [List.length_append, List.length_singleton]
          omega
        · intro q
          show upd s.b.busy r false q = (upd s.cur r none q).isSome
          by_cases hqr : q = r
          · subst hqr; simp [upd_same]
          · rw [upd_other _ _ _ _ hqr, upd_other _ _ _ _ hqr]; exact hl.busyCur q
        · intro q u hq
          have hq' : upd s.cur r none q = some u := hq
          by_cases hqr : q = r
          · subst hqr; rw [upd_same] at hq'; cases hq'
          · rw [upd_other _ _ _ _ hqr] at hq'
            obtain ⟨h1, h2, e, he, h3, h4, h5⟩ := hl.curWalk q u hq'
            refine ⟨h1, h2, e, ?_, h3, h4, h5⟩
            show e ∈ relocate _ _ s.d.es
            refine Deliver.mem_relocate.2 ⟨e, he, ?_⟩
            have : inWalkOf r e = false := by
              cases hh : inWalkOf r e with
              | false => rfl
              | true =>
                have := inWalkOf_iff.1 hh
                rw [h4] at this
                simp only [Loc.inWalk.injEq] at this
                exact absurd this hqr
            simp [this]
      · cases hB
    · cases hD
  | regcb r =>
    simp only [projD, projB, bRun_single, dRun_nil] at hD hB
    cases hD
    simp only [BarrierME.step] at hB
    split at hB
    · cases hB; exact link_of_eq hl rfl rfl rfl rfl rfl rfl rfl rfl
    · cases hB
  | runcb r msgs j =>
    simp only [projD, projB, bRun_single] at hD hB
    simp only [BarrierME.step] at hB
    split at hB
    · rename_i hcB
      cases hB
      obtain ⟨news, h1, h2, h3, h4, h5⟩ := asyncs_run msgs s.d d' hD
      exact link_append hl news r hcB.1 h3 d' _ h1 h5 h4 (by rw [h2]) (by rw [h2]) rfl rfl
    · cases hB
  | enter r =>
    simp only [projD, projB, bRun_single, dRun_nil] at hD hB
    cases hD
    simp only [BarrierME.step] at hB
    split at hB
    · cases hB; exact link_of_eq hl rfl rfl rfl rfl rfl rfl rfl rfl
    · cases hB
  | contribute r =>
    simp only [projD, projB, bRun_single, dRun_nil] at hD hB
    cases hD
    simp only [BarrierME.step] at hB
    split at hB
    · cases hB; exact link_of_eq hl rfl rfl rfl rfl rfl rfl rfl rfl
    · cases hB
  | result r =>
    simp only [projD, projB, bRun_single, dRun_nil] at hD hB
    cases hD
    simp only [BarrierME.step] at hB
    split at hB
    · cases hB; exact link_of_eq hl rfl rfl rfl rfl rfl rfl rfl rfl
    · cases hB
  | exit r =>
    simp only [projD, projB, bRun_single, dRun_nil] at hD hB
    cases hD
    simp only [BarrierME.step] at hB
    split at hB
    · cases hB; exact link_of_eq hl rfl rfl rfl rfl rfl rfl rfl rfl
    · cases hB

theorem inv_run {n : Nat} {nh : Nat → Nat → Nat} {s s' : St} (ls : List Label) (hd : Deliver.Inv s.d)
    (hl : Link n s) (h : run n nh s ls = some s') : Deliver.Inv s'.d ∧ Link n s' := by
  induction ls generalizing s with
  | nil => simp only [run] at h; cases h; exact ⟨hd, hl⟩
  | cons l ls ih =>
    simp only [run] at h
    cases hst : step n nh s l with
    | none => rw [hst] at h; cases h
    | some s1 =>
      rw [hst] at h
      exact ih (Deliver.inv_run _ hd (step_some hst).2.1) (link_step hd hl hst) h

/-- #busy ranks = number of entries being executed (from the counter ledger of BarrierME and the partition) -/
theorem link_busy_count {n : Nat} {s : St} (hb : BarrierME.Inv n s.b) (hl : Link n s) :
    sumTo n (fun r => b2n (s.b.busy r)) = s.d.es.countP (beingExec s.cur) := by
  have h1 := hb.ledger
  have h2 := count_partition s.cur s.d.es
  have h3 := hl.und
  have h4 := hl.sent
  have h5 := hl.recvd
  omega

/-! ### the execution record only grows -/

theorem dStep_executed {n : Nat} {nh : Nat → Nat → Nat} {d d' : Deliver.St} {l : Deliver.Label}
    (h : Deliver.step n nh d l = some d') : ∃ t, d'.executed = d.executed ++ t := by
  cases l with
  | async r uid dest direct =>
    simp only [Deliver.step] at h; split at h
    · cases h; exact ⟨[], by simp⟩
    · cases h
  | isend r hop =>
    simp only [Deliver.step] at h; split at h
    · cases h; exact ⟨[], by simp⟩
    · cases h
  | recvBegin r src seq =>
    simp only [Deliver.step] at h; split at h
    · cases h; exact ⟨[], by simp⟩
    · cases h
  | exec r uid =>
    simp only [Deliver.step] at h; split at h
    · cases h; exact ⟨[(r, uid)], rfl⟩
    · cases h
  | fwd r uid =>
    simp only [Deliver.step] at h; split at h
    · split at h
      · cases h; exact ⟨[], by simp⟩
      · cases h
    · cases h
  | recvEnd r =>
    simp only [Deliver.step] at h; split at h
    · cases h; exact ⟨[], by simp⟩
    · cases h

theorem dRun_executed {n : Nat} {nh : Nat → Nat → Nat} {d d' : Deliver.St} (ls : List Deliver.Label)
    (h : Deliver.run n nh d ls = some d') : ∃ t, d'.executed = d.executed ++ t := by
  induction ls generalizing d with
  | nil => simp only [Deliver.run] at h; cases h; exact ⟨[], by simp⟩
  | cons l ls ih =>
    simp only [Deliver.run] at h
    cases hst : Deliver.step n nh d l with
    | none => rw [hst] at h; cases h
    | some d1 =>
      rw [hst] at h
      obtain ⟨t1, h1⟩ := dStep_executed hst
      obtain ⟨t2, h2⟩ := ih h
      exact ⟨t1 ++ t2, by rw [h2, h1, List.append_assoc]⟩

theorem run_append {n : Nat} {nh : Nat → Nat → Nat} {s s1 s2 : St} (a b : List Label)
    (h1 : run n nh s a = some s1) (h2 : run n nh s1 b = some s2) : run n nh s (a ++ b) = some s2 := by
  induction a generalizing s with
  | nil => simp only [run] at h1; cases h1; exact h2
  | cons l ls ih =>
    simp only [List.cons_append, run] at h1 ⊢
    cases hst : step n nh s l with
    | none => rw [hst] at h1; cases h1
    | some s' => rw [hst] at h1; simp only; exact ih h1

end YgmVerif.Comm
