import YgmVerif.Model.RouterP
import YgmVerif.Lemmas.Router
/-! Helper lemmas for the placement-generic router model: the value of `nextHop` in each
branch and closed forms of `route` for NR and NLNR, for every well-formed placement. -/
namespace YgmVerif.RouterP
open YgmVerif.Router (Scheme)
namespace Placement

variable {P : Placement}

theorem pos_p {r : Nat} (h : r < P.size) : 0 < P.p := by
  unfold size at h
  rcases Nat.eq_zero_or_pos P.p with h0 | h0
  · rw [h0] at h; simp at h
  · exact h0

theorem channel_lt (hp : 0 < P.p) (me d : Nat) : P.channel me d < P.p := Nat.mod_lt _ hp

/-- a rank is determined by its node id and its local id -/
theorem rank_ext (h : P.WF) {x y : Nat} (hx : x < P.size) (hy : y < P.size)
    (hn : P.nodeOf x = P.nodeOf y) (hl : P.locOf x = P.locOf y) : x = y := by
  rw [← h.rank_node_loc x hx, ← h.rank_node_loc y hy, hn, hl]

/-! ### `nextHop`, branch by branch -/

theorem nextHop_none (me d : Nat) : P.nextHop .NONE me d = d := rfl

theorem nextHop_local (sch : Scheme) {me d : Nat} (e : P.nodeOf me = P.nodeOf d) :
    P.nextHop sch me d = d := by
  cases sch <;> simp [nextHop, isLocal, e]

theorem nextHop_NR_remote {me d : Nat} (ne : P.nodeOf me ≠ P.nodeOf d) :
    P.nextHop .NR me d = P.rankOf (P.nodeOf d) (P.locOf me) := by
  simp [nextHop, isLocal, ne, strided]

/-- NLNR, I am the channel rank of my node for the destination's node: off-node hop -/
theorem nextHop_NLNR_chan (h : P.WF) {me d : Nat} (hme : me < P.size)
    (ne : P.nodeOf me ≠ P.nodeOf d) (hc : P.locOf me = P.channel me d) :
    P.nextHop .NLNR me d = P.rankOf (P.nodeOf d) (P.locOf me) := by
  have e : me = P.localRank me (P.channel me d) := by
    unfold localRank; rw [← hc]; exact (h.rank_node_loc me hme).symm
  simp only [nextHop, isLocal, beq_iff_eq, ne, if_false]
  rw [if_pos e]; rfl

/-- NLNR, I am not the channel rank: on-node hop to it -/
theorem nextHop_NLNR_nochan (h : P.WF) {me d : Nat} (hme : me < P.size)
    (ne : P.nodeOf me ≠ P.nodeOf d) (hc : P.locOf me ≠ P.channel me d) :
    P.nextHop .NLNR me d = P.rankOf (P.nodeOf me) (P.channel me d) := by
  have e : me ≠ P.localRank me (P.channel me d) := by
    intro e
    have := congrArg P.locOf e
    unfold localRank at this
    rw [h.loc_rank _ _ (h.node_lt me hme) (channel_lt (pos_p hme) me d)] at this
    exact hc this
  simp only [nextHop, isLocal, beq_iff_eq, ne, if_false]
  rw [if_neg e]; rfl

/-! ### closed forms of the routes -/

theorem route_none_eq (s d : Nat) : P.route .NONE s d = [d] := by
  simp [route, Router.routeFuel, routeFrom, nextHop]

theorem route_local_eq (sch : Scheme) {s d : Nat} (e : P.nodeOf s = P.nodeOf d) :
    P.route sch s d = [d] := by
  simp [route, Router.routeFuel, routeFrom, nextHop_local sch e]

theorem route_NR_eq (h : P.WF) {s d : Nat} (hs : s < P.size) (hd : d < P.size) :
    P.route .NR s d =
      if P.nodeOf s = P.nodeOf d then [d]
      else if P.locOf s = P.locOf d then [d]
      else [P.rankOf (P.nodeOf d) (P.locOf s), d] := by
  by_cases e : P.nodeOf s = P.nodeOf d
  · rw [if_pos e]; exact route_local_eq _ e
  · rw [if_neg e]
    have hi := h.loc_lt s hs
    have hb := h.node_lt d hd
    by_cases hl : P.locOf s = P.locOf d
    · rw [if_pos hl]
      have : P.rankOf (P.nodeOf d) (P.locOf s) = d := by rw [hl]; exact h.rank_node_loc d hd
      simp [route, Router.routeFuel, routeFrom, nextHop_NR_remote e, this]
    · rw [if_neg hl]
      have hne : P.rankOf (P.nodeOf d) (P.locOf s) ≠ d := by
        intro e'; have := congrArg P.locOf e'; rw [h.loc_rank _ _ hb hi] at this; exact hl this
      have h2 : P.nextHop .NR (P.rankOf (P.nodeOf d) (P.locOf s)) d = d :=
        nextHop_local _ (h.node_rank _ _ hb hi)
      simp [route, Router.routeFuel, routeFrom, nextHop_NR_remote e, hne, h2]

theorem route_NLNR_eq (h : P.WF) {s d : Nat} (hs : s < P.size) (hd : d < P.size) :
    P.route .NLNR s d =
      if P.nodeOf s = P.nodeOf d then [d]
      else if P.locOf s = P.channel s d then
        (if P.locOf s = P.locOf d then [d] else [P.rankOf (P.nodeOf d) (P.locOf s), d])
      else
        (if P.channel s d = P.locOf d then [P.rankOf (P.nodeOf s) (P.channel s d), d]
         else [P.rankOf (P.nodeOf s) (P.channel s d), P.rankOf (P.nodeOf d) (P.channel s d), d]) := by
  by_cases e : P.nodeOf s = P.nodeOf d
  · rw [if_pos e]; exact route_local_eq _ e
  · rw [if_neg e]
    have hi := h.loc_lt s hs
    have ha := h.node_lt s hs
    have hb := h.node_lt d hd
    have hcl := channel_lt (pos_p hs) s d
    by_cases hc : P.locOf s = P.channel s d
    · rw [if_pos hc]
      by_cases hl : P.locOf s = P.locOf d
      · rw [if_pos hl]
        have : P.rankOf (P.nodeOf d) (P.locOf s) = d := by rw [hl]; exact h.rank_node_loc d hd
        simp [route, Router.routeFuel, routeFrom, nextHop_NLNR_chan h hs e hc, this]
      · rw [if_neg hl]
        have hne : P.rankOf (P.nodeOf d) (P.locOf s) ≠ d := by
          intro e'; have := congrArg P.locOf e'; rw [h.loc_rank _ _ hb hi] at this; exact hl this
        have h2 : P.nextHop .NLNR (P.rankOf (P.nodeOf d) (P.locOf s)) d = d :=
          nextHop_local _ (h.node_rank _ _ hb hi)
        simp [route, Router.routeFuel, routeFrom, nextHop_NLNR_chan h hs e hc, hne, h2]
    · rw [if_neg hc]
      -- first hop: on-node to the channel rank `m`
      have h1 : P.nextHop .NLNR s d = P.rankOf (P.nodeOf s) (P.channel s d) :=
        nextHop_NLNR_nochan h hs e hc
      have hm_lt : P.rankOf (P.nodeOf s) (P.channel s d) < P.size := h.rank_lt _ _ ha hcl
      have hm_node : P.nodeOf (P.rankOf (P.nodeOf s) (P.channel s d)) = P.nodeOf s :=
        h.node_rank _ _ ha hcl
      have hm_loc : P.locOf (P.rankOf (P.nodeOf s) (P.channel s d)) = P.channel s d :=
        h.loc_rank _ _ ha hcl
      have hm_ne : P.rankOf (P.nodeOf s) (P.channel s d) ≠ d := by
        intro e'; have := congrArg P.nodeOf e'; rw [hm_node] at this; exact e this
      -- second hop: the channel rank sends off-node
      have hm_chan : P.channel (P.rankOf (P.nodeOf s) (P.channel s d)) d = P.channel s d := by
        show (P.nodeOf d + P.nodeOf (P.rankOf (P.nodeOf s) (P.channel s d))) % P.p = P.channel s d
        rw [hm_node]; rfl
      have h2 : P.nextHop .NLNR (P.rankOf (P.nodeOf s) (P.channel s d)) d
          = P.rankOf (P.nodeOf d) (P.channel s d) := by
        have := nextHop_NLNR_chan h (me := P.rankOf (P.nodeOf s) (P.channel s d)) (d := d) hm_lt
          (by rw [hm_node]; exact e) (by rw [hm_loc, hm_chan])
        rw [this, hm_loc]
      by_cases hl : P.channel s d = P.locOf d
      · rw [if_pos hl]
        have : P.rankOf (P.nodeOf d) (P.channel s d) = d := by rw [hl]; exact h.rank_node_loc d hd
        simp [route, Router.routeFuel, routeFrom, h1, hm_ne, h2, this]
      · rw [if_neg hl]
        have hne : P.rankOf (P.nodeOf d) (P.channel s d) ≠ d := by
          intro e'; have := congrArg P.locOf e'; rw [h.loc_rank _ _ hb hcl] at this; exact hl this
        have h3 : P.nextHop .NLNR (P.rankOf (P.nodeOf d) (P.channel s d)) d = d :=
          nextHop_local _ (h.node_rank _ _ hb hcl)
        simp [route, Router.routeFuel, routeFrom, h1, hm_ne, h2, hne, h3]

end Placement
end YgmVerif.RouterP
