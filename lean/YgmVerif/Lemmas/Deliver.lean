import YgmVerif.Model.Deliver
/-! Invariant and potential-function lemmas for the message-movement model. -/
namespace YgmVerif.Deliver

/-! ### relocate -/

theorem relocate_map_uid (p : Entry → Bool) (l : Loc) (es : List Entry) :
    (relocate p l es).map (·.uid) = es.map (·.uid) := by
  unfold relocate
  rw [List.map_map]
  apply List.map_congr_left
  intro e _; simp only [Function.comp]; split <;> rfl

/-- identity of a message: what `async` was called with -/
def key (e : Entry) : Nat × Nat × Bool := (e.uid, e.dest, e.direct)

theorem relocate_map_key (p : Entry → Bool) (l : Loc) (es : List Entry) :
    (relocate p l es).map key = es.map key := by
  unfold relocate
  rw [List.map_map]
  apply List.map_congr_left
  intro e _; simp only [Function.comp, key]; split <;> rfl

theorem mem_relocate {p : Entry → Bool} {l : Loc} {es : List Entry} {e' : Entry} :
    e' ∈ relocate p l es ↔ ∃ e ∈ es, e' = (if p e then { e with loc := l } else e) := by
  unfold relocate
  simp only [List.mem_map]
  constructor
  · rintro ⟨e, he, rfl⟩; exact ⟨e, he, rfl⟩
  · rintro ⟨e, he, rfl⟩; exact ⟨e, he, rfl⟩

theorem relocate_length (p : Entry → Bool) (l : Loc) (es : List Entry) :
    (relocate p l es).length = es.length := by unfold relocate; simp

/-- entries are determined by their uid when uids are distinct -/
theorem eq_of_uid_eq {es : List Entry} (hn : (es.map (·.uid)).Nodup) {a b : Entry}
    (ha : a ∈ es) (hb : b ∈ es) (h : a.uid = b.uid) : a = b := by
  induction es with
  | nil => cases ha
  | cons x xs ih =>
    simp only [List.map_cons, List.nodup_cons, List.mem_map, not_exists, not_and] at hn
    rcases List.mem_cons.1 ha with rfl | ha'
    · rcases List.mem_cons.1 hb with rfl | hb'
      · rfl
      · exact absurd h.symm (hn.1 b hb')
    · rcases List.mem_cons.1 hb with rfl | hb'
      · exact absurd h (hn.1 a ha')
      · exact ih hn.2 ha' hb'

theorem nodup_map_of_inj_on {α β} {f : α → β} {l : List α}
    (hinj : ∀ a ∈ l, ∀ b ∈ l, f a = f b → a = b) (h : l.Nodup) : (l.map f).Nodup := by
  induction l with
  | nil => simp
  | cons x xs ih =>
    simp only [List.nodup_cons] at h
    simp only [List.map_cons, List.nodup_cons, List.mem_map, not_exists, not_and]
    refine ⟨?_, ih (fun a ha b hb => hinj a (List.mem_cons_of_mem _ ha) b (List.mem_cons_of_mem _ hb)) h.2⟩
    intro y hy hyx
    have := hinj y (List.mem_cons_of_mem _ hy) x List.mem_cons_self hyx
    rw [this] at hy; exact h.1 hy

theorem nodup_of_nodup_map {α β} (g : α → β) {l : List α} (h : (l.map g).Nodup) : l.Nodup := by
  induction l with
  | nil => simp
  | cons x xs ih =>
    simp only [List.map_cons, List.nodup_cons, List.mem_map, not_exists, not_and] at h
    simp only [List.nodup_cons]
    exact ⟨fun hx => h.1 x hx rfl, ih h.2⟩

/-! ### the invariant -/

def isDone (e : Entry) : Bool := match e.loc with | .done _ => true | _ => false

structure Inv (s : St) : Prop where
  nodup : (s.es.map (·.uid)).Nodup
  /-- a `done r` entry has been executed on r -/
  doneExec : ∀ e ∈ s.es, ∀ r, e.loc = .done r → (r, e.uid) ∈ s.executed
  /-- an execution record belongs to a `done` entry -/
  execDone : ∀ r u, (r, u) ∈ s.executed → ∃ e ∈ s.es, e.uid = u ∧ e.loc = .done r
  execNodup : s.executed.Nodup
  /-- routed messages are executed only on their destination -/
  doneDest : ∀ e ∈ s.es, ∀ r, e.loc = .done r → r = e.dest
  /-- broadcast legs travel straight to their physical destination -/
  directBuf : ∀ e ∈ s.es, e.direct = true → ∀ r hop, e.loc = .inBuf r hop → hop = e.dest
  directWire : ∀ e ∈ s.es, e.direct = true → ∀ a d k, e.loc = .inWire a d k → d = e.dest
  directWalk : ∀ e ∈ s.es, e.direct = true → ∀ r, e.loc = .inWalk r → r = e.dest

theorem inv_init : Inv St.init := by
  refine ⟨?_, ?_, ?_, ?_, ?_, ?_, ?_, ?_⟩ <;> simp [St.init]

theorem all_ne_uid {es : List Entry} {u : Nat} (h : es.all (fun e => e.uid != u) = true) :
    ∀ e ∈ es, e.uid ≠ u := by
  intro e he
  have := (List.all_eq_true.1 h) e he
  simpa using this

theorem inBufOf_iff {r hop : Nat} {e : Entry} : inBufOf r hop e = true ↔ e.loc = .inBuf r hop := by
  unfold inBufOf; simp
theorem inWireOf_iff {a d k : Nat} {e : Entry} : inWireOf a d k e = true ↔ e.loc = .inWire a d k := by
  unfold inWireOf; simp
theorem inWalkOf_iff {r : Nat} {e : Entry} : inWalkOf r e = true ↔ e.loc = .inWalk r := by
  unfold inWalkOf; simp

/-- generic preservation: relocating a set of non-`done` entries to a non-`done` location that respects
the broadcast-leg constraints keeps the invariant (executed list unchanged) -/
theorem inv_relocate {s : St} (hi : Inv s) (p : Entry → Bool) (l : Loc) (sq : Nat → Nat) (wk : Nat → Bool)
    (hp : ∀ e ∈ s.es, p e = true → isDone e = false)
    (hl : ∀ r, l ≠ .done r)
    (hb : ∀ e ∈ s.es, p e = true → e.direct = true → ∀ r hop, l = .inBuf r hop → hop = e.dest)
    (hw : ∀ e ∈ s.es, p e = true → e.direct = true → ∀ a d k, l = .inWire a d k → d = e.dest)
    (hk : ∀ e ∈ s.es, p e = true → e.direct = true → ∀ r, l = .inWalk r → r = e.dest) :
    Inv { s with es := relocate p l s.es, sendSeq := sq, walking := wk } := by
  refine ⟨?_, ?_, ?_, hi.execNodup, ?_, ?_, ?_, ?_⟩
  · simp only; rw [relocate_map_uid]; exact hi.nodup
  · intro e' he' r hr
    obtain ⟨e, he, rfl⟩ := mem_relocate.1 he'
    by_cases hpe : p e = true
    · simp only [hpe, if_true] at hr; exact absurd hr (hl r)
    · simp only [hpe] at hr ⊢; exact hi.doneExec e he r hr
  · intro r u hru
    obtain ⟨e, he, hu, hd⟩ := hi.execDone r u hru
    refine ⟨if p e then { e with loc := l } else e, mem_relocate.2 ⟨e, he, rfl⟩, ?_, ?_⟩
    · split <;> exact hu
    · have : p e = false := by
        cases hpe : p e with
        | false => rfl
        | true => have := hp e he hpe; simp [isDone, hd] at this
      simp [this, hd]
  · intro e' he' r hr
    obtain ⟨e, he, rfl⟩ := mem_relocate.1 he'
    by_cases hpe : p e = true
    · simp only [hpe, if_true] at hr; exact absurd hr (hl r)
    · simp only [hpe] at hr ⊢; exact hi.doneDest e he r hr
  · intro e' he' hd r hop hr
    obtain ⟨e, he, rfl⟩ := mem_relocate.1 he'
    by_cases hpe : p e = true
    · simp only [hpe, if_true] at hr hd ⊢; exact hb e he hpe hd r hop hr
    · simp only [hpe] at hr hd ⊢; exact hi.directBuf e he hd r hop hr
  · intro e' he' hd a d k hr
    obtain ⟨e, he, rfl⟩ := mem_relocate.1 he'
    by_cases hpe : p e = true
    · simp only [hpe, if_true] at hr hd ⊢; exact hw e he hpe hd a d k hr
    · simp only [hpe] at hr hd ⊢; exact hi.directWire e he hd a d k hr
  · intro e' he' hd r hr
    obtain ⟨e, he, rfl⟩ := mem_relocate.1 he'
    by_cases hpe : p e = true
    · simp only [hpe, if_true] at hr hd ⊢; exact hk e he hpe hd r hr
    · simp only [hpe] at hr hd ⊢; exact hi.directWalk e he hd r hr

theorem inv_step {n : Nat} {nh : Nat → Nat → Nat} {s s' : St} {l : Label} (hi : Inv s)
    (h : step n nh s l = some s') : Inv s' := by
  cases l with
  | async r uid dest direct =>
    simp only [step] at h
    split at h
    · rename_i hc
      cases h
      have hfresh := all_ne_uid hc.2.2
      refine ⟨?_, ?_, ?_, hi.execNodup, ?_, ?_, ?_, ?_⟩
      · simp only [List.map_append, List.map_cons, List.map_nil]
        rw [List.nodup_append]
        refine ⟨hi.nodup, by simp, ?_⟩
        intro a ha b hb
        simp only [List.mem_map] at ha
        obtain ⟨e, he, rfl⟩ := ha
        simp only [List.mem_singleton] at hb
        rw [hb]; exact hfresh e he
      · intro e he r hr
        rcases List.mem_append.1 he with he | he
        · exact hi.doneExec e he r hr
        · simp only [List.mem_singleton] at he; rw [he] at hr; simp at hr
      · intro r u hru
        obtain ⟨e, he, h1, h2⟩ := hi.execDone r u hru
        exact ⟨e, List.mem_append_left _ he, h1, h2⟩
      · intro e he r hr
        rcases List.mem_append.1 he with he | he
        · exact hi.doneDest e he r hr
        · simp only [List.mem_singleton] at he; rw [he] at hr; simp at hr
      · intro e he hd r' hop hr
        rcases List.mem_append.1 he with he | he
        · exact hi.directBuf e he hd r' hop hr
        · simp only [List.mem_singleton] at he
          rw [he] at hr hd ⊢
          simp only at hd
          simp only [hd, if_true, Loc.inBuf.injEq] at hr
          exact hr.2.symm
      · intro e he hd a d k hr
        rcases List.mem_append.1 he with he | he
        · exact hi.directWire e he hd a d k hr
        · simp only [List.mem_singleton] at he; rw [he] at hr; simp at hr
      · intro e he hd r' hr
        rcases List.mem_append.1 he with he | he
        · exact hi.directWalk e he hd r' hr
        · simp only [List.mem_singleton] at he; rw [he] at hr; simp at hr
    · cases h
  | isend r hop =>
    simp only [step] at h
    split at h
    · cases h
      refine inv_relocate hi _ _ _ _ ?_ (by intro r; simp) ?_ ?_ ?_
      · intro e _ hp; rw [inBufOf_iff] at hp; simp [isDone, hp]
      · intro e _ _ _ r' hop' hl; cases hl
      · intro e he hp hd a d k hl
        rw [inBufOf_iff] at hp
        simp only [Loc.inWire.injEq] at hl
        rw [← hl.2.1]; exact hi.directBuf e he hd r hop hp
      · intro e _ _ _ r' hl; cases hl
    · cases h
  | recvBegin r src seq =>
    simp only [step] at h
    split at h
    · cases h
      refine inv_relocate hi _ _ _ _ ?_ (by intro r; simp) ?_ ?_ ?_
      · intro e _ hp; rw [inWireOf_iff] at hp; simp [isDone, hp]
      · intro e _ _ _ r' hop' hl; cases hl
      · intro e _ _ _ a d k hl; cases hl
      · intro e he hp hd r' hl
        rw [inWireOf_iff] at hp
        simp only [Loc.inWalk.injEq] at hl
        rw [← hl]; exact hi.directWire e he hd src r seq hp
    · cases h
  | exec r uid =>
    simp only [step] at h
    split at h
    · rename_i hc
      cases h
      obtain ⟨e0, he0, hq⟩ := List.any_eq_true.1 hc.2.2
      simp only [Bool.and_eq_true, beq_iff_eq, Bool.or_eq_true] at hq
      obtain ⟨⟨hu0, hw0⟩, hdest0⟩ := hq
      rw [inWalkOf_iff] at hw0
      -- the relocated set is exactly {e0}
      have hsel : ∀ e ∈ s.es, (e.uid == uid && inWalkOf r e) = true → e = e0 := by
        intro e he hp
        simp only [Bool.and_eq_true, beq_iff_eq] at hp
        exact eq_of_uid_eq hi.nodup he he0 (hp.1.trans hu0.symm)
      have hnot : (r, uid) ∉ s.executed := by
        intro hin
        obtain ⟨e, he, h1, h2⟩ := hi.execDone r uid hin
        have := eq_of_uid_eq hi.nodup he he0 (h1.trans hu0.symm)
        rw [this, hw0] at h2; cases h2
      refine ⟨?_, ?_, ?_, ?_, ?_, ?_, ?_, ?_⟩
      · simp only; rw [relocate_map_uid]; exact hi.nodup
      · intro e' he' r' hr
        obtain ⟨e, he, rfl⟩ := mem_relocate.1 he'
        by_cases hpe : (e.uid == uid && inWalkOf r e) = true
        · simp only [hpe, if_true, Loc.done.injEq] at hr ⊢
          simp only [Bool.and_eq_true, beq_iff_eq] at hpe
          rw [← hr, hpe.1]; exact List.mem_append_right _ (by simp)
        · simp only [hpe] at hr ⊢
          exact List.mem_append_left _ (hi.doneExec e he r' hr)
      · intro r' u hru
        rcases List.mem_append.1 hru with hru | hru
        · obtain ⟨e, he, h1, h2⟩ := hi.execDone r' u hru
          refine ⟨if (e.uid == uid && inWalkOf r e) then { e with loc := .done r } else e,
            mem_relocate.2 ⟨e, he, rfl⟩, ?_, ?_⟩
          · split <;> exact h1
          · have : inWalkOf r e = false := by
              cases hh : inWalkOf r e with
              | false => rfl
              | true => rw [inWalkOf_iff] at hh; rw [hh] at h2; cases h2
            simp [this, h2]
        · simp only [List.mem_singleton, Prod.mk.injEq] at hru
          obtain ⟨rfl, rfl⟩ := hru
          refine ⟨{ e0 with loc := .done r' }, mem_relocate.2 ⟨e0, he0, ?_⟩, hu0, rfl⟩
          have : (e0.uid == u && inWalkOf r' e0) = true := by
            simp [hu0, inWalkOf_iff.2 hw0]
          simp [this]
      · simp only; rw [List.nodup_append]
        refine ⟨hi.execNodup, by simp, ?_⟩
        intro a ha b hb
        simp only [List.mem_singleton] at hb
        rw [hb]; intro hab; rw [hab] at ha; exact hnot ha
      · intro e' he' r' hr
        obtain ⟨e, he, rfl⟩ := mem_relocate.1 he'
        by_cases hpe : (e.uid == uid && inWalkOf r e) = true
        · have hee := hsel e he hpe
          simp only [hpe, if_true, Loc.done.injEq] at hr ⊢
          rw [← hr, hee]
          rcases hdest0 with hd | hd
          · exact hd.symm
          · exact hi.directWalk e0 he0 hd r hw0
        · simp only [hpe] at hr ⊢; exact hi.doneDest e he r' hr
      · intro e' he' hd r' hop hr
        obtain ⟨e, he, rfl⟩ := mem_relocate.1 he'
        by_cases hpe : (e.uid == uid && inWalkOf r e) = true
        · simp only [hpe, if_true] at hr; cases hr
        · simp only [hpe] at hr hd ⊢; exact hi.directBuf e he hd r' hop hr
      · intro e' he' hd a d k hr
        obtain ⟨e, he, rfl⟩ := mem_relocate.1 he'
        by_cases hpe : (e.uid == uid && inWalkOf r e) = true
        · simp only [hpe, if_true] at hr; cases hr
        · simp only [hpe] at hr hd ⊢; exact hi.directWire e he hd a d k hr
      · intro e' he' hd r' hr
        obtain ⟨e, he, rfl⟩ := mem_relocate.1 he'
        by_cases hpe : (e.uid == uid && inWalkOf r e) = true
        · simp only [hpe, if_true] at hr; cases hr
        · simp only [hpe] at hr hd ⊢; exact hi.directWalk e he hd r' hr
    · cases h
  | fwd r uid =>
    simp only [step] at h
    split at h
    · rename_i e0 hf
      split at h
      · rename_i hc
        cases h
        have hp0 := List.find?_some hf
        have he0 := List.mem_of_find?_eq_some hf
        simp only [Bool.and_eq_true, beq_iff_eq] at hp0
        have hsel : ∀ e ∈ s.es, (e.uid == uid && inWalkOf r e) = true → e = e0 := by
          intro e he hp
          simp only [Bool.and_eq_true, beq_iff_eq] at hp
          exact eq_of_uid_eq hi.nodup he he0 (hp.1.trans hp0.1.symm)
        refine inv_relocate hi _ _ _ _ ?_ (by intro r; simp) ?_ ?_ ?_
        · intro e _ hp
          simp only [Bool.and_eq_true] at hp
          have := inWalkOf_iff.1 hp.2; simp [isDone, this]
        · intro e he hp hd r' hop' _
          rw [hsel e he hp] at hd; rw [hc.2.2.2] at hd; cases hd
        · intro e _ _ _ a d k hl; cases hl
        · intro e _ _ _ r' hl; cases hl
      · cases h
    · cases h
  | recvEnd r =>
    simp only [step] at h
    split at h
    · cases h
      exact ⟨hi.nodup, hi.doneExec, hi.execDone, hi.execNodup, hi.doneDest, hi.directBuf, hi.directWire,
        hi.directWalk⟩
    · cases h

theorem inv_run {n : Nat} {nh : Nat → Nat → Nat} {s s' : St} (ls : List Label) (hi : Inv s)
    (h : run n nh s ls = some s') : Inv s' := by
  induction ls generalizing s with
  | nil => simp only [run] at h; cases h; exact hi
  | cons l ls ih =>
    simp only [run] at h
    cases hst : step n nh s l with
    | none => rw [hst] at h; cases h
    | some s1 => rw [hst] at h; exact ih (inv_step hi hst) h

/-! ### nothing is lost or duplicated: the identities of the entries only grow by `async` -/

def newKeys : Label → List (Nat × Nat × Bool)
  | .async _ uid dest direct => [(uid, dest, direct)]
  | _ => []

theorem step_keys {n : Nat} {nh : Nat → Nat → Nat} {s s' : St} {l : Label}
    (h : step n nh s l = some s') : s'.es.map key = s.es.map key ++ newKeys l := by
  cases l with
  | async r uid dest direct =>
    simp only [step] at h; split at h
    · cases h; simp [newKeys, key]
    · cases h
  | isend r hop =>
    simp only [step] at h; split at h
    · cases h; simp [newKeys, relocate_map_key]
    · cases h
  | recvBegin r src seq =>
    simp only [step] at h; split at h
    · cases h; simp [newKeys, relocate_map_key]
    · cases h
  | exec r uid =>
    simp only [step] at h; split at h
    · cases h; simp [newKeys, relocate_map_key]
    · cases h
  | fwd r uid =>
    simp only [step] at h; split at h
    · split at h
      · cases h; simp [newKeys, relocate_map_key]
      · cases h
    · cases h
  | recvEnd r =>
    simp only [step] at h; split at h
    · cases h; simp [newKeys]
    · cases h

/-! ### potential: no message circulates for ever -/

def b2n (b : Bool) : Nat := if b then 1 else 0

def sumTo (n : Nat) (f : Nat → Nat) : Nat :=
  match n with
  | 0 => 0
  | k+1 => sumTo k f + f k

/-- remaining work of one entry; `hops x d` = number of sends a message for `d` still needs from rank `x` -/
def pot (hops : Nat → Nat → Nat) (e : Entry) : Nat :=
  let h := fun x => if e.direct then 0 else hops x e.dest
  match e.loc with
  | .done _ => 0
  | .inWalk r => 2 * (3 * h r + 1)
  | .inWire _ d _ => 2 * (3 * h d + 2)
  | .inBuf _ hop => 2 * (3 * h hop + 3)

def total (n : Nat) (hops : Nat → Nat → Nat) (s : St) : Nat :=
  (s.es.map (pot hops)).sum + sumTo n (fun r => b2n (s.walking r))

theorem sum_map_relocate_le (f : Entry → Nat) (p : Entry → Bool) (l : Loc) (es : List Entry)
    (h : ∀ e ∈ es, p e = true → f { e with loc := l } + 2 ≤ f e) :
    ((relocate p l es).map f).sum ≤ (es.map f).sum := by
  induction es with
  | nil => simp [relocate]
  | cons x xs ih =>
    have ih' := ih (fun e he => h e (List.mem_cons_of_mem _ he))
    simp only [relocate, List.map_cons, List.sum_cons] at ih' ⊢
    by_cases hp : p x = true
    · have := h x (List.mem_cons_self) hp
      simp only [hp, if_true]; omega
    · have hp' : p x = false := by cases h' : p x <;> simp_all
      simp only [hp', Bool.false_eq_true, if_false]; omega

theorem sum_map_relocate_lt (f : Entry → Nat) (p : Entry → Bool) (l : Loc) (es : List Entry)
    (h : ∀ e ∈ es, p e = true → f { e with loc := l } + 2 ≤ f e) (hex : es.any p = true) :
    ((relocate p l es).map f).sum + 2 ≤ (es.map f).sum := by
  induction es with
  | nil => simp at hex
  | cons x xs ih =>
    have hle := sum_map_relocate_le f p l xs (fun e he => h e (List.mem_cons_of_mem _ he))
    simp only [relocate, List.map_cons, List.sum_cons] at hle ⊢
    by_cases hp : p x = true
    · have := h x (List.mem_cons_self) hp
      simp only [hp, if_true]; omega
    · have hp' : p x = false := by cases h' : p x <;> simp_all
      simp only [hp', Bool.false_eq_true, if_false]
      have hex' : xs.any p = true := by
        simp only [List.any_cons, Bool.or_eq_true] at hex
        rcases hex with h1 | h1
        · exact absurd h1 hp
        · exact h1
      have := ih (fun e he => h e (List.mem_cons_of_mem _ he)) hex'
      simp only [relocate] at this
      omega

theorem sumTo_upd_b2n (n : Nat) (f : Nat → Bool) (r : Nat) (v : Bool) (hr : r < n) :
    sumTo n (fun q => b2n (upd f r v q)) + b2n (f r) = sumTo n (fun q => b2n (f q)) + b2n v := by
  induction n with
  | zero => omega
  | succ k ih =>
    simp only [sumTo]
    by_cases hrk : r = k
    · subst hrk
      have : sumTo r (fun q => b2n (upd f r v q)) = sumTo r (fun q => b2n (f q)) := by
        clear ih hr
        have : ∀ m, m ≤ r → sumTo m (fun q => b2n (upd f r v q)) = sumTo m (fun q => b2n (f q)) := by
          intro m hm
          induction m with
          | zero => rfl
          | succ j ihj =>
            simp only [sumTo]
            rw [ihj (by omega)]
            have : upd f r v j = f j := by unfold upd; simp; omega
            rw [this]
        exact this r (Nat.le_refl _)
      simp only [upd, if_true] at this ⊢
      omega
    · have h1 := ih (by omega)
      have : upd f r v k = f k := by unfold upd; simp; omega
      rw [this]; omega

def DestLt (n : Nat) (s : St) : Prop := ∀ e ∈ s.es, e.dest < n

theorem destLt_step {n : Nat} {nh : Nat → Nat → Nat} {s s' : St} {l : Label} (hd : DestLt n s)
    (h : step n nh s l = some s') : DestLt n s' := by
  have hk := step_keys h
  intro e he
  have : key e ∈ s'.es.map key := List.mem_map_of_mem he
  rw [hk] at this
  rcases List.mem_append.1 this with h1 | h1
  · obtain ⟨e0, he0, hk0⟩ := List.mem_map.1 h1
    have := hd e0 he0
    simp only [key, Prod.mk.injEq] at hk0
    omega
  · cases l with
    | async r uid dest direct =>
      simp only [step] at h; split at h
      · rename_i hc
        simp only [newKeys, List.mem_singleton, key, Prod.mk.injEq] at h1
        omega
      · cases h
    | _ => simp [newKeys] at h1

/-- the routing function makes progress: every forwarding step gets strictly closer -/
def Progress (n : Nat) (nh hops : Nat → Nat → Nat) : Prop :=
  ∀ r d, r < n → d < n → r ≠ d → hops (nh r d) d < hops r d

theorem step_total {n : Nat} {nh hops : Nat → Nat → Nat} {s s' : St} {l : Label}
    (hi : Inv s) (hd : DestLt n s) (hp : Progress n nh hops) (hl : isAsync l = false)
    (h : step n nh s l = some s') : total n hops s' + 1 ≤ total n hops s := by
  cases l with
  | async r uid dest direct => simp [isAsync] at hl
  | isend r hop =>
    simp only [step] at h; split at h
    · rename_i hc
      cases h
      have := sum_map_relocate_lt (pot hops) (inBufOf r hop) (.inWire r hop (s.sendSeq r)) s.es
        (by intro e _ hpe; rw [inBufOf_iff] at hpe; simp only [pot, hpe]; omega) hc.2
      simp only [total]; omega
    · cases h
  | recvBegin r src seq =>
    simp only [step] at h; split at h
    · rename_i hc
      cases h
      have := sum_map_relocate_lt (pot hops) (inWireOf src r seq) (.inWalk r) s.es
        (by intro e _ hpe; rw [inWireOf_iff] at hpe; simp only [pot, hpe]; omega) hc.2.2.1
      have hw := sumTo_upd_b2n n s.walking r true hc.1
      rw [hc.2.1] at hw
      have e0 : b2n false = 0 := rfl
      have e1 : b2n true = 1 := rfl
      rw [e0, e1] at hw
      simp only [total]
      omega
    · cases h
  | exec r uid =>
    simp only [step] at h; split at h
    · rename_i hc
      cases h
      have hex : s.es.any (fun e => e.uid == uid && inWalkOf r e) = true := by
        obtain ⟨e0, he0, hq⟩ := List.any_eq_true.1 hc.2.2
        simp only [Bool.and_eq_true] at hq
        exact List.any_eq_true.2 ⟨e0, he0, by simp [hq.1.1, hq.1.2]⟩
      have := sum_map_relocate_lt (pot hops) (fun e => e.uid == uid && inWalkOf r e) (.done r) s.es
        (by
          intro e _ hpe
          simp only [Bool.and_eq_true] at hpe
          have := inWalkOf_iff.1 hpe.2
          simp only [pot, this]; omega) hex
      simp only [total]; omega
    · cases h
  | fwd r uid =>
    simp only [step] at h
    split at h
    · rename_i e0 hf
      split at h
      · rename_i hc
        cases h
        have hp0 := List.find?_some hf
        have he0 := List.mem_of_find?_eq_some hf
        simp only [Bool.and_eq_true, beq_iff_eq] at hp0
        have hex : s.es.any (fun e => e.uid == uid && inWalkOf r e) = true :=
          List.any_eq_true.2 ⟨e0, he0, by simp [hp0.1, hp0.2]⟩
        have := sum_map_relocate_lt (pot hops) (fun e => e.uid == uid && inWalkOf r e)
          (.inBuf r (nh r e0.dest)) s.es
          (by
            intro e he hpe
            simp only [Bool.and_eq_true, beq_iff_eq] at hpe
            have hee : e = e0 := eq_of_uid_eq hi.nodup he he0 (hpe.1.trans hp0.1.symm)
            subst hee
            have hw := inWalkOf_iff.1 hpe.2
            have hpr := hp r e.dest hc.1 (hd e he) (fun h' => hc.2.2.1 h'.symm)
            simp only [pot, hw, hc.2.2.2]
            simp only [Bool.false_eq_true, if_false]
            omega) hex
        simp only [total]; omega
      · cases h
    · cases h
  | recvEnd r =>
    simp only [step] at h; split at h
    · rename_i hc
      cases h
      have hw := sumTo_upd_b2n n s.walking r false hc.1
      rw [hc.2.1] at hw
      have e0 : b2n false = 0 := rfl
      have e1 : b2n true = 1 := rfl
      rw [e0, e1] at hw
      simp only [total]
      omega
    · cases h

end YgmVerif.Deliver
