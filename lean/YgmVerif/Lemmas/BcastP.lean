import YgmVerif.Model.BcastP
import YgmVerif.Lemmas.Bcast
/-! Helper lemmas for the placement-generic broadcast fan-out (`YgmVerif.BcastP`): the proofs of `Lemmas/Bcast.lean`
with every piece of rank arithmetic replaced by the specification `Valid` of the lookup tables; block, cyclic and
search-built placements satisfy it. -/
namespace YgmVerif.BcastP
open YgmVerif.Bcast (Leg numLayers offsetOf offsetOf_spec takeWhile_lt_eq_filter mod_add_right_cancel div_lt_numLayers)

variable {N p : Nat} {P : Placement}

/-- a rank is determined by its node and its local id -/
theorem rank_ext (V : Valid N p P) {r r' : Nat} (hr : r < N * p) (hr' : r' < N * p)
    (hn : P.nodeId r = P.nodeId r') (hl : P.localId r = P.localId r') : r = r' := by
  rw [← V.nl_ids r hr, ← V.nl_ids r' hr', hn, hl]

/-! ### the instances -/

theorem valid_block (N : Nat) {p : Nat} (hp : 0 < p) : Valid N p (block p) where
  node_lt := fun _ hr => Router.node_lt hr
  local_lt := fun r _ => Router.loc_lt hp r
  nl_ids := fun r _ => Router.mk_node_loc p r
  nl_lt := fun _ _ ha hj => Router.mk_lt ha hj
  node_nl := fun _ _ _ hj => Router.node_mk hj
  local_nl := fun _ _ _ hj => Router.loc_mk hj

theorem valid_cyclic {N : Nat} (hN : 0 < N) (p : Nat) : Valid N p (cyclic N) where
  node_lt := fun r _ => Nat.mod_lt r hN
  local_lt := fun r hr => by
    show r / N < p
    rw [Nat.div_lt_iff_lt_mul hN, Nat.mul_comm]; exact hr
  nl_ids := fun r _ => Nat.div_add_mod' r N
  nl_lt := fun a j ha hj => by
    show j * N + a < N * p
    have h1 : j * N + a < (j + 1) * N := by rw [Nat.add_mul, Nat.one_mul]; omega
    have h2 : (j + 1) * N ≤ p * N := Nat.mul_le_mul_right N hj
    rw [Nat.mul_comm N p]; omega
  node_nl := fun a j ha _ => by
    show (j * N + a) % N = a
    rw [Nat.add_comm, Nat.add_mul_mod_self_right, Nat.mod_eq_of_lt ha]
  local_nl := fun a j ha _ => by
    show (j * N + a) / N = j
    rw [Nat.add_comm, Nat.add_mul_div_right _ _ hN, Nat.div_eq_of_lt ha, Nat.zero_add]

/-- a placement given by `node_id` / `local_id` alone: if the pair is injective on `[0, N*p)` and onto
`[0,N) × [0,p)`, the table found by search is the inverse -/
theorem valid_ofIds {N p : Nat} (nodeId localId : Nat → Nat)
    (hrange : ∀ r, r < N * p → nodeId r < N ∧ localId r < p)
    (hinj : ∀ r r', r < N * p → r' < N * p → nodeId r = nodeId r' → localId r = localId r' → r = r')
    (hsurj : ∀ a j, a < N → j < p → ∃ r, r < N * p ∧ nodeId r = a ∧ localId r = j) :
    Valid N p (Placement.ofIds (N * p) nodeId localId) := by
  have hfind : ∀ a j, a < N → j < p → ∃ r, r < N * p ∧ nodeId r = a ∧ localId r = j ∧
      (Placement.ofIds (N * p) nodeId localId).nl a j = r := by
    intro a j ha hj
    obtain ⟨r0, hr0, h1, h2⟩ := hsurj a j ha hj
    show ∃ r, r < N * p ∧ nodeId r = a ∧ localId r = j ∧
      ((List.range (N * p)).find? (fun r => nodeId r == a && localId r == j)).getD (N * p) = r
    cases hf : (List.range (N * p)).find? (fun r => nodeId r == a && localId r == j) with
    | none =>
      have := List.find?_eq_none.1 hf r0 (List.mem_range.2 hr0)
      simp [h1, h2] at this
    | some r =>
      have hm := List.mem_range.1 (List.mem_of_find?_eq_some hf)
      have hp' := List.find?_some hf
      simp only [Bool.and_eq_true, beq_iff_eq] at hp'
      exact ⟨r, hm, hp'.1, hp'.2, rfl⟩
  refine ⟨fun r hr => (hrange r hr).1, fun r hr => (hrange r hr).2, ?_, ?_, ?_, ?_⟩
  · intro r hr
    obtain ⟨r', hr', h1, h2, h3⟩ := hfind _ _ (hrange r hr).1 (hrange r hr).2
    show (Placement.ofIds (N * p) nodeId localId).nl (nodeId r) (localId r) = r
    rw [h3]; exact hinj r' r hr' hr h1 h2
  · intro a j ha hj
    obtain ⟨r', hr', _, _, h3⟩ := hfind a j ha hj
    rw [h3]; exact hr'
  · intro a j ha hj
    obtain ⟨r', _, h1, _, h3⟩ := hfind a j ha hj
    rw [h3]; exact h1
  · intro a j ha hj
    obtain ⟨r', _, _, h2, h3⟩ := hfind a j ha hj
    rw [h3]; exact h2

/-! ### stage 2: the layered partner loop -/

theorem partnerOffset_spec (V : Valid N p P) (hp : 0 < p) {r : Nat} (hr : r < N * p) :
    partnerOffset p P r < p ∧ (partnerOffset p P r + P.nodeId r) % p = P.localId r :=
  offsetOf_spec hp (V.local_lt r hr) (P.nodeId r)

theorem candidates_pairwise_lt (hp : 0 < p) (N : Nat) (P : Placement) (r : Nat) :
    (layerCandidates N p P r).Pairwise (· < ·) := by
  unfold layerCandidates
  rw [List.pairwise_map]
  exact List.pairwise_lt_range.imp
    (fun h => Nat.add_lt_add_left (Nat.mul_lt_mul_of_pos_right h hp) _)

/-- the `break` keeps exactly the partner nodes `< N` -/
theorem remotePartners_eq (hp : 0 < p) (N : Nat) (P : Placement) (r : Nat) :
    remotePartners N p P r =
      (((layerCandidates N p P r).filter (fun b => decide (b < N))).map (strided P r)).filter
        (fun c => !isLocal P r c) := by
  unfold remotePartners
  rw [takeWhile_lt_eq_filter _ _ ((candidates_pairwise_lt hp N P r).imp Nat.le_of_lt)]

/-- stage-2 destinations of `r`: the ranks with `r`'s local id on every *other* node `b < N` with
`(b + node r) ≡ local id of r (mod p)` -/
theorem mem_remotePartners (V : Valid N p P) (hp : 0 < p) {r : Nat} (hr : r < N * p) (q : Nat) :
    q ∈ remotePartners N p P r ↔
      q < N * p ∧ P.nodeId q ≠ P.nodeId r ∧ P.localId q = P.localId r ∧
        (P.nodeId q + P.nodeId r) % p = P.localId r := by
  have hj := V.local_lt r hr
  obtain ⟨hoff, hspec⟩ := partnerOffset_spec V hp hr
  rw [remotePartners_eq hp]
  constructor
  · intro h
    rw [List.mem_filter, List.mem_map] at h
    obtain ⟨⟨b, hb, rfl⟩, hc⟩ := h
    rw [List.mem_filter] at hb
    obtain ⟨hm, hbN⟩ := hb
    unfold layerCandidates at hm
    rw [List.mem_map] at hm
    obtain ⟨l, _, rfl⟩ := hm
    simp only [decide_eq_true_eq] at hbN
    simp only [Bool.not_eq_true', isLocal, beq_eq_false_iff_ne, ne_eq] at hc
    unfold strided at hc ⊢
    rw [V.node_nl _ _ hbN hj] at hc
    rw [V.node_nl _ _ hbN hj, V.local_nl _ _ hbN hj]
    refine ⟨V.nl_lt _ _ hbN hj, fun e => hc e.symm, rfl, ?_⟩
    have : partnerOffset p P r + l * p + P.nodeId r = (partnerOffset p P r + P.nodeId r) + l * p := by omega
    rw [this, Nat.add_mul_mod_self_right, hspec]
  · rintro ⟨hq, hne, hl, hm⟩
    have hb := V.node_lt q hq
    -- the node of `q` is in the residue class of the offset
    have hres : P.nodeId q % p = partnerOffset p P r := by
      apply mod_add_right_cancel (a := P.nodeId r) (Nat.mod_lt _ hp) hoff
      rw [Nat.mod_add_mod, hm, hspec]
    have hdm := Nat.div_add_mod (P.nodeId q) p
    rw [List.mem_filter, List.mem_map]
    refine ⟨⟨P.nodeId q, ?_, ?_⟩, ?_⟩
    · rw [List.mem_filter]
      refine ⟨?_, by simpa using hb⟩
      unfold layerCandidates
      rw [List.mem_map]
      refine ⟨P.nodeId q / p, List.mem_range.2 (div_lt_numLayers hp hb), ?_⟩
      rw [Nat.mul_comm]; omega
    · unfold strided
      rw [← hl]; exact V.nl_ids q hq
    · simp only [Bool.not_eq_true', isLocal, beq_eq_false_iff_ne, ne_eq]
      exact fun e => hne e.symm

theorem remotePartners_nodup (V : Valid N p P) (hp : 0 < p) {r : Nat} (hr : r < N * p) :
    (remotePartners N p P r).Nodup := by
  have hj := V.local_lt r hr
  rw [remotePartners_eq hp]
  refine List.Pairwise.sublist List.filter_sublist ?_
  rw [List.pairwise_map]
  refine List.Pairwise.imp_of_mem ?_ ((candidates_pairwise_lt hp N P r).sublist List.filter_sublist)
  intro a b ha hb hab e
  have ha' : a < N := by simpa using (List.mem_filter.1 ha).2
  have hb' : b < N := by simpa using (List.mem_filter.1 hb).2
  have := congrArg P.nodeId e
  unfold strided at this
  rw [V.node_nl _ _ ha' hj, V.node_nl _ _ hb' hj] at this
  omega

/-! ### on-node tables -/

theorem mem_localRanks (V : Valid N p P) {me : Nat} (hme : me < N * p) (t : Nat) :
    t ∈ localRanks P p me ↔ t < N * p ∧ P.nodeId t = P.nodeId me := by
  have ha := V.node_lt me hme
  unfold localRanks
  rw [List.mem_map]
  constructor
  · rintro ⟨j, hj, rfl⟩
    have hj' := List.mem_range.1 hj
    exact ⟨V.nl_lt _ _ ha hj', V.node_nl _ _ ha hj'⟩
  · rintro ⟨ht, h⟩
    exact ⟨P.localId t, List.mem_range.2 (V.local_lt t ht), by rw [← h]; exact V.nl_ids t ht⟩

theorem localRanks_nodup (V : Valid N p P) {me : Nat} (hme : me < N * p) : (localRanks P p me).Nodup := by
  have ha := V.node_lt me hme
  unfold localRanks
  rw [List.Nodup, List.pairwise_map]
  refine List.Pairwise.imp_of_mem ?_ List.nodup_range
  intro j1 j2 h1 h2 hne e
  have := congrArg P.localId e
  rw [V.local_nl _ _ ha (List.mem_range.1 h1), V.local_nl _ _ ha (List.mem_range.1 h2)] at this
  exact hne this

theorem mem_localOthers (V : Valid N p P) {q : Nat} (hq : q < N * p) (t : Nat) :
    t ∈ localOthers P p q ↔ t < N * p ∧ P.nodeId t = P.nodeId q ∧ t ≠ q := by
  unfold localOthers
  rw [List.mem_filter, mem_localRanks V hq]
  simp [and_assoc]

theorem localOthers_nodup (V : Valid N p P) {q : Nat} (hq : q < N * p) : (localOthers P p q).Nodup :=
  (localRanks_nodup V hq).sublist List.filter_sublist

/-! ### the executing ranks, stage by stage -/

/-- receivers of stage-2 legs -/
def exec2 (N p : Nat) (P : Placement) (o : Nat) : List Nat := (localRanks P p o).flatMap (remotePartners N p P)
/-- receivers of stage-3 legs -/
def exec3 (N p : Nat) (P : Placement) (o : Nat) : List Nat := (exec2 N p P o).flatMap (localOthers P p)

theorem stage1_dst (P : Placement) (p o : Nat) : (stage1 P p o).map Leg.dst = localRanks P p o := by
  unfold stage1
  rw [List.map_map]
  simp [Function.comp_def, Leg.dst]

theorem stage2_dst (N p : Nat) (P : Placement) (o : Nat) : (stage2 N p P o).map Leg.dst = exec2 N p P o := by
  unfold stage2 exec2
  rw [List.map_flatMap, ← stage1_dst P p o, List.flatMap_map]
  congr 1; funext g
  rw [List.map_map]
  simp [Function.comp_def, Leg.dst]

theorem stage3_dst (N p : Nat) (P : Placement) (o : Nat) : (stage3 N p P o).map Leg.dst = exec3 N p P o := by
  unfold stage3 exec3
  rw [List.map_flatMap, ← stage2_dst N p P o, List.flatMap_map]
  congr 1; funext g
  rw [List.map_map]
  simp [Function.comp_def, Leg.dst]

theorem bcastExec_eq (N p : Nat) (P : Placement) (o : Nat) :
    bcastExec N p P o = localRanks P p o ++ exec2 N p P o ++ exec3 N p P o := by
  unfold bcastExec bcastLegs
  rw [List.map_append, List.map_append, stage1_dst, stage2_dst, stage3_dst]

/-- stage 2 reaches, on every other node `b`, exactly the rank with local id `(b + origin's node) % p` -/
theorem mem_exec2 (V : Valid N p P) (hp : 0 < p) {o : Nat} (ho : o < N * p) (q : Nat) :
    q ∈ exec2 N p P o ↔
      q < N * p ∧ P.nodeId q ≠ P.nodeId o ∧ (P.nodeId q + P.nodeId o) % p = P.localId q := by
  unfold exec2
  rw [List.mem_flatMap]
  constructor
  · rintro ⟨r, hr, hq⟩
    rw [mem_localRanks V ho] at hr
    rw [mem_remotePartners V hp hr.1] at hq
    obtain ⟨h1, h2, h3, h4⟩ := hq
    rw [hr.2] at h2 h4
    exact ⟨h1, h2, by rw [h4, h3]⟩
  · rintro ⟨h1, h2, h3⟩
    have hl := V.local_lt q h1
    have ha := V.node_lt o ho
    have hr := V.nl_lt _ _ ha hl
    refine ⟨P.nl (P.nodeId o) (P.localId q), (mem_localRanks V ho _).2 ⟨hr, V.node_nl _ _ ha hl⟩, ?_⟩
    rw [mem_remotePartners V hp hr, V.node_nl _ _ ha hl, V.local_nl _ _ ha hl]
    exact ⟨h1, h2, rfl, h3⟩

/-- stage 3 reaches, on every other node, exactly the remaining ranks -/
theorem mem_exec3 (V : Valid N p P) (hp : 0 < p) {o : Nat} (ho : o < N * p) (t : Nat) :
    t ∈ exec3 N p P o ↔
      t < N * p ∧ P.nodeId t ≠ P.nodeId o ∧ (P.nodeId t + P.nodeId o) % p ≠ P.localId t := by
  unfold exec3
  rw [List.mem_flatMap]
  constructor
  · rintro ⟨q, hq, ht⟩
    rw [mem_exec2 V hp ho] at hq
    obtain ⟨h1, h2, h3⟩ := hq
    rw [mem_localOthers V h1] at ht
    obtain ⟨htn, hn, hne⟩ := ht
    refine ⟨htn, by rw [hn]; exact h2, ?_⟩
    intro e
    rw [hn, h3] at e
    exact hne (rank_ext V htn h1 hn e.symm)
  · rintro ⟨h1, h2, h3⟩
    have hc : (P.nodeId t + P.nodeId o) % p < p := Nat.mod_lt _ hp
    have hb := V.node_lt t h1
    have hq := V.nl_lt _ _ hb hc
    refine ⟨P.nl (P.nodeId t) ((P.nodeId t + P.nodeId o) % p), ?_, ?_⟩
    · rw [mem_exec2 V hp ho, V.node_nl _ _ hb hc, V.local_nl _ _ hb hc]
      exact ⟨hq, h2, rfl⟩
    · rw [mem_localOthers V hq, V.node_nl _ _ hb hc]
      refine ⟨h1, rfl, fun e => h3 ?_⟩
      have := congrArg P.localId e
      rw [V.local_nl _ _ hb hc] at this
      exact this.symm

theorem exec2_nodup (V : Valid N p P) (hp : 0 < p) {o : Nat} (ho : o < N * p) : (exec2 N p P o).Nodup := by
  unfold exec2
  rw [List.Nodup, List.pairwise_flatMap]
  refine ⟨fun r hr => remotePartners_nodup V hp ((mem_localRanks V ho r).1 hr).1, ?_⟩
  refine List.Pairwise.imp_of_mem ?_ (localRanks_nodup V ho)
  intro r1 r2 h1 h2 hne x hx y hy e
  subst e
  obtain ⟨hr1, hn1⟩ := (mem_localRanks V ho r1).1 h1
  obtain ⟨hr2, hn2⟩ := (mem_localRanks V ho r2).1 h2
  have a1 := ((mem_remotePartners V hp hr1 x).1 hx).2.2.1
  have a2 := ((mem_remotePartners V hp hr2 x).1 hy).2.2.1
  exact hne (rank_ext V hr1 hr2 (hn1.trans hn2.symm) (a1.symm.trans a2))

theorem exec3_nodup (V : Valid N p P) (hp : 0 < p) {o : Nat} (ho : o < N * p) : (exec3 N p P o).Nodup := by
  unfold exec3
  rw [List.Nodup, List.pairwise_flatMap]
  refine ⟨fun q hq => localOthers_nodup V ((mem_exec2 V hp ho q).1 hq).1, ?_⟩
  refine List.Pairwise.imp_of_mem ?_ (exec2_nodup V hp ho)
  intro q1 q2 h1 h2 hne x hx y hy e
  subst e
  obtain ⟨hq1, _, e1⟩ := (mem_exec2 V hp ho q1).1 h1
  obtain ⟨hq2, _, e2⟩ := (mem_exec2 V hp ho q2).1 h2
  have n1 := ((mem_localOthers V hq1 x).1 hx).2.1
  have n2 := ((mem_localOthers V hq2 x).1 hy).2.1
  have hn : P.nodeId q1 = P.nodeId q2 := n1.symm.trans n2
  apply hne
  apply rank_ext V hq1 hq2 hn
  rw [← e1, ← e2, hn]

theorem bcastExec_nodup (V : Valid N p P) (hp : 0 < p) {o : Nat} (ho : o < N * p) : (bcastExec N p P o).Nodup := by
  rw [bcastExec_eq, List.nodup_append, List.nodup_append]
  refine ⟨⟨localRanks_nodup V ho, exec2_nodup V hp ho, ?_⟩, exec3_nodup V hp ho, ?_⟩
  · intro x hx y hy e
    subst e
    exact ((mem_exec2 V hp ho x).1 hy).2.1 ((mem_localRanks V ho x).1 hx).2
  · intro x hx y hy e
    subst e
    have h3 := (mem_exec3 V hp ho x).1 hy
    rcases List.mem_append.1 hx with h | h
    · exact h3.2.1 ((mem_localRanks V ho x).1 h).2
    · exact h3.2.2 ((mem_exec2 V hp ho x).1 h).2.2

/-- the executing ranks are exactly the ranks of the communicator -/
theorem mem_bcastExec (V : Valid N p P) (hp : 0 < p) {o : Nat} (ho : o < N * p) (r : Nat) :
    r ∈ bcastExec N p P o ↔ r < N * p := by
  rw [bcastExec_eq, List.mem_append, List.mem_append, mem_localRanks V ho, mem_exec2 V hp ho, mem_exec3 V hp ho]
  constructor
  · rintro ((h | h) | h)
    · exact h.1
    · exact h.1
    · exact h.1
  · intro hr
    by_cases h : P.nodeId r = P.nodeId o
    · exact Or.inl (Or.inl ⟨hr, h⟩)
    · by_cases hc : (P.nodeId r + P.nodeId o) % p = P.localId r
      · exact Or.inl (Or.inr ⟨hr, h, hc⟩)
      · exact Or.inr ⟨hr, h, hc⟩

end YgmVerif.BcastP
