import YgmVerif.Model.DeliverBytes
import YgmVerif.Lemmas.Wire
import YgmVerif.Lemmas.Deliver
import YgmVerif.Props.C06
/-! Invariant of the byte-level message-movement model: every byte string is the concatenation of the
encodings of its ghost tags, the ghost tags are exactly the entries `Deliver` has at that location. -/
namespace YgmVerif.DeliverBytes
open YgmVerif
open YgmVerif.Deliver (Loc Entry relocate inBufOf inWireOf inWalkOf isDone)

/-! ### updates -/

theorem updL_same {α} (f : Loc → α) (l : Loc) (v : α) : updL f l v l = v := by simp [updL]

theorem updL_other {α} (f : Loc → α) {l x : Loc} (v : α) (h : x ≠ l) : updL f l v x = f x := by
  simp [updL, h]

theorem moveL_src {α} (f : Loc → α) (src dst : Loc) (e : α) : moveL f src dst e src = e := by
  simp [moveL, updL]

theorem moveL_dst {α} (f : Loc → α) {src dst : Loc} (e : α) (h : src ≠ dst) : moveL f src dst e dst = f src := by
  have : dst ≠ src := fun h' => h h'.symm
  simp [moveL, updL, this]

theorem moveL_other {α} (f : Loc → α) {src dst x : Loc} (e : α) (h1 : x ≠ src) (h2 : x ≠ dst) :
    moveL f src dst e x = f x := by
  simp [moveL, updL, h1, h2]

/-! ### what an accepted `Deliver.step` did -/

theorem dstep_async {n : Nat} {nh : Nat → Nat → Nat} {d d' : Deliver.St} {r uid dest : Nat} {direct : Bool}
    (h : Deliver.step n nh d (.async r uid dest direct) = some d') :
    d' = { d with es := d.es ++ [{ uid := uid, dest := dest, direct := direct,
                                   loc := .inBuf r (if direct then dest else nh r dest) }] } ∧
      (∀ e ∈ d.es, e.uid ≠ uid) := by
  simp only [Deliver.step] at h
  split at h
  · rename_i hc
    cases h
    exact ⟨rfl, Deliver.all_ne_uid hc.2.2⟩
  · cases h

theorem dstep_isend {n : Nat} {nh : Nat → Nat → Nat} {d d' : Deliver.St} {r hop : Nat}
    (h : Deliver.step n nh d (.isend r hop) = some d') :
    d' = { d with es := relocate (inBufOf r hop) (.inWire r hop (d.sendSeq r)) d.es,
                  sendSeq := Deliver.upd d.sendSeq r (d.sendSeq r + 1) } := by
  simp only [Deliver.step] at h
  split at h
  · cases h; rfl
  · cases h

theorem dstep_recvBegin {n : Nat} {nh : Nat → Nat → Nat} {d d' : Deliver.St} {r src seq : Nat}
    (h : Deliver.step n nh d (.recvBegin r src seq) = some d') :
    d' = { d with es := relocate (inWireOf src r seq) (.inWalk r) d.es,
                  walking := Deliver.upd d.walking r true } ∧ d.walking r = false := by
  simp only [Deliver.step] at h
  split at h
  · rename_i hc
    cases h; exact ⟨rfl, hc.2.1⟩
  · cases h

theorem dstep_exec {n : Nat} {nh : Nat → Nat → Nat} {d d' : Deliver.St} {r uid : Nat}
    (h : Deliver.step n nh d (.exec r uid) = some d') :
    d' = { d with es := relocate (fun e => e.uid == uid && inWalkOf r e) (.done r) d.es,
                  executed := d.executed ++ [(r, uid)] } ∧ d.walking r = true ∧
      ∃ e ∈ d.es, e.uid = uid ∧ e.loc = .inWalk r ∧ (e.dest = r ∨ e.direct = true) := by
  simp only [Deliver.step] at h
  split at h
  · rename_i hc
    cases h
    refine ⟨rfl, hc.2.1, ?_⟩
    obtain ⟨e0, he0, hq⟩ := List.any_eq_true.1 hc.2.2
    simp only [Bool.and_eq_true, beq_iff_eq, Bool.or_eq_true] at hq
    exact ⟨e0, he0, hq.1.1, Deliver.inWalkOf_iff.1 hq.1.2, hq.2⟩
  · cases h

theorem dstep_fwd {n : Nat} {nh : Nat → Nat → Nat} {d d' : Deliver.St} {r uid : Nat}
    (h : Deliver.step n nh d (.fwd r uid) = some d') :
    ∃ e0 ∈ d.es, e0.uid = uid ∧ e0.loc = .inWalk r ∧ e0.dest ≠ r ∧ e0.direct = false ∧ d.walking r = true ∧
      d' = { d with es := relocate (fun e => e.uid == uid && inWalkOf r e) (.inBuf r (nh r e0.dest)) d.es } := by
  simp only [Deliver.step] at h
  split at h
  · rename_i e0 hf
    split at h
    · rename_i hc
      cases h
      have hp0 := List.find?_some hf
      have he0 := List.mem_of_find?_eq_some hf
      simp only [Bool.and_eq_true, beq_iff_eq] at hp0
      exact ⟨e0, he0, hp0.1, Deliver.inWalkOf_iff.1 hp0.2, hc.2.2.1, hc.2.2.2, hc.2.1, rfl⟩
    · cases h
  · cases h

theorem dstep_recvEnd {n : Nat} {nh : Nat → Nat → Nat} {d d' : Deliver.St} {r : Nat}
    (h : Deliver.step n nh d (.recvEnd r) = some d') :
    d' = { d with walking := Deliver.upd d.walking r false } ∧ (∀ e ∈ d.es, e.loc ≠ .inWalk r) := by
  simp only [Deliver.step] at h
  split at h
  · rename_i hc
    cases h
    refine ⟨rfl, ?_⟩
    intro e he hl
    apply hc.2.2
    exact List.any_eq_true.2 ⟨e, he, Deliver.inWalkOf_iff.2 hl⟩
  · cases h

/-! ### ghost tags versus `Deliver`'s entries -/

/-- every entry that is not `done` has its tag at its location -/
def LA (es : List Entry) (T : Loc → List Tag) : Prop :=
  ∀ e ∈ es, isDone e = false → ∃ t ∈ T e.loc, t.uid = e.uid

/-- every tag belongs to an entry at that location, with the destination / broadcast flag of the message -/
def LB (es : List Entry) (T : Loc → List Tag) : Prop :=
  ∀ l, ∀ t ∈ T l, ∃ e ∈ es, e.uid = t.uid ∧ e.loc = l ∧ e.dest = t.msg.dest ∧ e.direct = t.msg.bcast

/-- no uid twice in one byte string -/
def LC (T : Loc → List Tag) : Prop := ∀ l, ((T l).map (·.uid)).Nodup

/-- every byte string is the concatenation of the encodings of its tags -/
def BytesOk (routed : Bool) (B : Loc → Bytes) (T : Loc → List Tag) : Prop :=
  ∀ l, B l = Wire.encodeAll routed ((T l).map (·.msg))

theorem isDone_false_of_loc {e : Entry} {l : Loc} (h : e.loc = l) (hl : ∀ r, l ≠ .done r) : isDone e = false := by
  unfold isDone
  rw [h]
  cases l with
  | done r => exact absurd rfl (hl r)
  | _ => rfl

/-! #### moving a whole byte string (isend, recvBegin) -/

theorem move_LA {es : List Entry} {T : Loc → List Tag} {p : Entry → Bool} {src dst : Loc}
    (hp : ∀ e, p e = true ↔ e.loc = src) (hne : src ≠ dst) (hsrc : ∀ r, src ≠ .done r)
    (hempty : T dst = []) (la : LA es T) : LA (relocate p dst es) (moveL T src dst []) := by
  intro e' he' hnd
  obtain ⟨e, he, rfl⟩ := Deliver.mem_relocate.1 he'
  by_cases hpe : p e = true
  · have hs := (hp e).1 hpe
    obtain ⟨t, ht, hu⟩ := la e he (isDone_false_of_loc hs hsrc)
    simp only [hpe, if_true]
    rw [moveL_dst _ _ hne]
    rw [hs] at ht
    exact ⟨t, ht, hu⟩
  · have hs : e.loc ≠ src := fun h => hpe ((hp e).2 h)
    have hif : (if p e = true then ({ e with loc := dst } : Entry) else e) = e := if_neg hpe
    rw [hif] at hnd ⊢
    obtain ⟨t, ht, hu⟩ := la e he hnd
    by_cases hd : e.loc = dst
    · rw [hd, hempty] at ht; cases ht
    · rw [moveL_other _ _ hs hd]; exact ⟨t, ht, hu⟩

theorem move_LB {es : List Entry} {T : Loc → List Tag} {p : Entry → Bool} {src dst : Loc}
    (hp : ∀ e, p e = true ↔ e.loc = src) (hne : src ≠ dst)
    (lb : LB es T) : LB (relocate p dst es) (moveL T src dst []) := by
  intro l t ht
  by_cases h1 : l = src
  · subst h1; rw [moveL_src] at ht; cases ht
  · by_cases h2 : l = dst
    · subst h2
      rw [moveL_dst _ _ hne] at ht
      obtain ⟨e, he, hu, hl, hd, hb⟩ := lb src t ht
      refine ⟨{ e with loc := l }, Deliver.mem_relocate.2 ⟨e, he, ?_⟩, hu, rfl, hd, hb⟩
      simp [(hp e).2 hl]
    · rw [moveL_other _ _ h1 h2] at ht
      obtain ⟨e, he, hu, hl, hd, hb⟩ := lb l t ht
      refine ⟨e, Deliver.mem_relocate.2 ⟨e, he, ?_⟩, hu, hl, hd, hb⟩
      have : ¬ p e = true := fun h => h1 (hl.symm.trans ((hp e).1 h))
      simp [this]

theorem move_LC {T : Loc → List Tag} {src dst : Loc} (hne : src ≠ dst) (lc : LC T) :
    LC (moveL T src dst []) := by
  intro l
  by_cases h1 : l = src
  · subst h1; rw [moveL_src]; simp
  · by_cases h2 : l = dst
    · subst h2; rw [moveL_dst _ _ hne]; exact lc src
    · rw [moveL_other _ _ h1 h2]; exact lc l

theorem move_BytesOk {routed : Bool} {B : Loc → Bytes} {T : Loc → List Tag} {src dst : Loc} (hne : src ≠ dst)
    (hb : BytesOk routed B T) : BytesOk routed (moveL B src dst []) (moveL T src dst []) := by
  intro l
  by_cases h1 : l = src
  · subst h1; rw [moveL_src, moveL_src]; rfl
  · by_cases h2 : l = dst
    · subst h2; rw [moveL_dst _ _ hne, moveL_dst _ _ hne]; exact hb src
    · rw [moveL_other _ _ h1 h2, moveL_other _ _ h1 h2]; exact hb l

theorem move_mem {T : Loc → List Tag} {src dst l : Loc} {t : Tag} (h : t ∈ moveL T src dst [] l) :
    ∃ l', t ∈ T l' := by
  by_cases h1 : l = src
  · subst h1; rw [moveL_src] at h; cases h
  · by_cases h2 : l = dst
    · subst h2
      by_cases hne : l = src
      · exact absurd hne h1
      · rw [moveL_dst _ _ (fun h' => hne h'.symm)] at h; exact ⟨src, h⟩
    · rw [moveL_other _ _ h1 h2] at h; exact ⟨l, h⟩

/-! #### taking the front message off a walk (exec, fwd) -/

/-- `Deliver`'s selection of the entry a walk step is about -/
def sel (r uid : Nat) : Entry → Bool := fun e => e.uid == uid && inWalkOf r e

theorem sel_iff {r uid : Nat} {e : Entry} : sel r uid e = true ↔ e.uid = uid ∧ e.loc = .inWalk r := by
  simp [sel, Deliver.inWalkOf_iff]

theorem front_not_in_rest {T : Loc → List Tag} {r : Nat} {t : Tag} {ts : List Tag} (lc : LC T)
    (hT : T (.inWalk r) = t :: ts) : ∀ t' ∈ ts, t'.uid ≠ t.uid := by
  have := lc (.inWalk r)
  rw [hT] at this
  simp only [List.map_cons, List.nodup_cons, List.mem_map, not_exists, not_and] at this
  intro t' ht' h
  exact this.1 t' ht' h

theorem exec_LA {es : List Entry} {T : Loc → List Tag} {r : Nat} {t : Tag} {ts : List Tag} {l' : Loc}
    (hl' : ∃ q, l' = .done q) (hT : T (.inWalk r) = t :: ts) (la : LA es T) :
    LA (relocate (sel r t.uid) l' es) (updL T (.inWalk r) ts) := by
  intro e' he' hnd
  obtain ⟨e, he, rfl⟩ := Deliver.mem_relocate.1 he'
  by_cases hpe : sel r t.uid e = true
  · obtain ⟨q, rfl⟩ := hl'
    rw [if_pos hpe] at hnd
    simp [isDone] at hnd
  · have hif : (if sel r t.uid e = true then ({ e with loc := l' } : Entry) else e) = e := if_neg hpe
    rw [hif] at hnd ⊢
    obtain ⟨t', ht', hu⟩ := la e he hnd
    by_cases hw : e.loc = .inWalk r
    · rw [hw, hT] at ht'
      rw [hw, updL_same]
      rcases List.mem_cons.1 ht' with rfl | h
      · exact absurd (sel_iff.2 ⟨hu.symm, hw⟩) hpe
      · exact ⟨t', h, hu⟩
    · rw [updL_other _ _ hw]; exact ⟨t', ht', hu⟩

theorem exec_LB {es : List Entry} {T : Loc → List Tag} {r : Nat} {t : Tag} {ts : List Tag} {l' : Loc}
    (hT : T (.inWalk r) = t :: ts) (lb : LB es T) (lc : LC T) :
    LB (relocate (sel r t.uid) l' es) (updL T (.inWalk r) ts) := by
  intro l t' ht'
  by_cases hw : l = .inWalk r
  · subst hw
    rw [updL_same] at ht'
    obtain ⟨e, he, hu, hl, hd, hb⟩ := lb (.inWalk r) t' (by rw [hT]; exact List.mem_cons_of_mem _ ht')
    refine ⟨e, Deliver.mem_relocate.2 ⟨e, he, ?_⟩, hu, hl, hd, hb⟩
    have : ¬ sel r t.uid e = true := by
      intro h; exact front_not_in_rest lc hT t' ht' (hu.symm.trans (sel_iff.1 h).1)
    rw [if_neg this]
  · rw [updL_other _ _ hw] at ht'
    obtain ⟨e, he, hu, hl, hd, hb⟩ := lb l t' ht'
    refine ⟨e, Deliver.mem_relocate.2 ⟨e, he, ?_⟩, hu, hl, hd, hb⟩
    have : ¬ sel r t.uid e = true := by
      intro h; exact hw (hl.symm.trans (sel_iff.1 h).2)
    rw [if_neg this]

theorem exec_LC {T : Loc → List Tag} {r : Nat} {t : Tag} {ts : List Tag}
    (hT : T (.inWalk r) = t :: ts) (lc : LC T) : LC (updL T (.inWalk r) ts) := by
  intro l
  by_cases hw : l = .inWalk r
  · subst hw
    rw [updL_same]
    have := lc (.inWalk r)
    rw [hT] at this
    simp only [List.map_cons, List.nodup_cons] at this
    exact this.2
  · rw [updL_other _ _ hw]; exact lc l

theorem fwd_LA {es : List Entry} {T : Loc → List Tag} {r : Nat} {t : Tag} {ts : List Tag} {l' : Loc}
    (hT : T (.inWalk r) = t :: ts) (la : LA es T) :
    LA (relocate (sel r t.uid) l' es) (updL (updL T (.inWalk r) ts) l' (T l' ++ [t])) := by
  intro e' he' hnd
  obtain ⟨e, he, rfl⟩ := Deliver.mem_relocate.1 he'
  by_cases hpe : sel r t.uid e = true
  · rw [if_pos hpe]
    simp only [updL_same]
    exact ⟨t, by simp, (sel_iff.1 hpe).1.symm⟩
  · have hif : (if sel r t.uid e = true then ({ e with loc := l' } : Entry) else e) = e := if_neg hpe
    rw [hif] at hnd ⊢
    obtain ⟨t', ht', hu⟩ := la e he hnd
    by_cases h1 : e.loc = l'
    · rw [h1, updL_same]; rw [h1] at ht'
      exact ⟨t', List.mem_append_left _ ht', hu⟩
    · rw [updL_other _ _ h1]
      by_cases hw : e.loc = .inWalk r
      · rw [hw, hT] at ht'
        rw [hw, updL_same]
        rcases List.mem_cons.1 ht' with rfl | h
        · exact absurd (sel_iff.2 ⟨hu.symm, hw⟩) hpe
        · exact ⟨t', h, hu⟩
      · rw [updL_other _ _ hw]; exact ⟨t', ht', hu⟩

theorem fwd_LB {es : List Entry} {T : Loc → List Tag} {r : Nat} {t : Tag} {ts : List Tag} {l' : Loc}
    (hl' : l' ≠ .inWalk r) (hT : T (.inWalk r) = t :: ts) (lb : LB es T) (lc : LC T) :
    LB (relocate (sel r t.uid) l' es) (updL (updL T (.inWalk r) ts) l' (T l' ++ [t])) := by
  intro l t' ht'
  by_cases h1 : l = l'
  · subst h1
    rw [updL_same] at ht'
    rcases List.mem_append.1 ht' with h | h
    · obtain ⟨e, he, hu, hl, hd, hb⟩ := lb l t' h
      refine ⟨e, Deliver.mem_relocate.2 ⟨e, he, ?_⟩, hu, hl, hd, hb⟩
      have : ¬ sel r t.uid e = true := by
        intro h'; exact hl' (hl.symm.trans (sel_iff.1 h').2)
      rw [if_neg this]
    · simp only [List.mem_singleton] at h
      subst h
      obtain ⟨e, he, hu, hl, hd, hb⟩ := lb (.inWalk r) t' (by rw [hT]; simp)
      refine ⟨{ e with loc := l }, Deliver.mem_relocate.2 ⟨e, he, ?_⟩, hu, rfl, hd, hb⟩
      rw [if_pos (sel_iff.2 ⟨hu, hl⟩)]
  · rw [updL_other _ _ h1] at ht'
    exact exec_LB hT lb lc l t' ht'

theorem fwd_LC {es : List Entry} {T : Loc → List Tag} {r : Nat} {t : Tag} {ts : List Tag} {l' : Loc}
    (hn : (es.map (·.uid)).Nodup) (hl' : l' ≠ .inWalk r) (hT : T (.inWalk r) = t :: ts) (lb : LB es T) (lc : LC T) :
    LC (updL (updL T (.inWalk r) ts) l' (T l' ++ [t])) := by
  intro l
  by_cases h1 : l = l'
  · subst h1
    rw [updL_same]
    simp only [List.map_append, List.map_cons, List.map_nil]
    rw [List.nodup_append]
    refine ⟨lc l, by simp, ?_⟩
    intro a ha b hb
    simp only [List.mem_singleton] at hb
    subst hb
    intro hab
    obtain ⟨t'', ht'', hu''⟩ := List.mem_map.1 ha
    obtain ⟨e1, he1, hu1, hl1, _, _⟩ := lb l t'' ht''
    obtain ⟨e0, he0, hu0, hl0, _, _⟩ := lb (.inWalk r) t (by rw [hT]; simp)
    have : e1 = e0 := Deliver.eq_of_uid_eq hn he1 he0 (by rw [hu1, hu0, hu'', hab])
    rw [this, hl0] at hl1
    exact hl' hl1.symm
  · rw [updL_other _ _ h1]
    exact exec_LC hT lc l

/-! ### the wire format of one step -/

theorem appendMsg_eq (routed : Bool) (buf : Bytes) (m : Wire.Msg) (h : (Wire.body m).length < 256 ^ 4) :
    appendMsg routed buf m = buf ++ Wire.encodeMsg routed m := by
  unfold appendMsg
  cases hb : m.bcast with
  | true =>
    have : ({ m with bcast := true } : Wire.Msg) = m := by cases m; simp_all
    simp [Wire.queueAppend_eq, this]
  | false =>
    have : ({ m with bcast := false } : Wire.Msg) = m := by cases m; simp_all
    simp [Wire.asyncAppend_eq routed buf m (by simpa using h), this]

theorem view_exec {routed : Bool} {me : Int} {m : Wire.Msg} {size : Nat} {dest : Int} {lid : Nat} {fn : Bytes}
    {args : List Wire.Val} (h : Wire.view routed me m = .exec size dest lid fn args) :
    lid = m.lid ∧ fn = m.fn ∧ args = m.args := by
  unfold Wire.view at h
  split at h
  · split at h
    · cases h; exact ⟨rfl, rfl, rfl⟩
    · split at h
      · cases h; exact ⟨rfl, rfl, rfl⟩
      · cases h
  · cases h; exact ⟨rfl, rfl, rfl⟩

theorem view_fwd {routed : Bool} {me : Int} {m : Wire.Msg} {size : Nat} {dest : Int} {payload : Bytes}
    (h : Wire.view routed me m = .fwd size dest payload) :
    routed = true ∧ m.bcast = false ∧ (m.dest : Int) ≠ me ∧ size = (Wire.body m).length ∧
      dest = (m.dest : Int) ∧ payload = Wire.body m := by
  unfold Wire.view at h
  split at h
  · rename_i hr
    split at h
    · cases h
    · rename_i hb
      split at h
      · cases h
      · rename_i hd
        cases h
        exact ⟨hr, by simpa using hb, hd, rfl, rfl, rfl⟩
  · cases h

theorem forwardCopy_eq (buf : Bytes) (m : Wire.Msg) (hb : m.bcast = false) :
    Wire.forwardCopy buf (Wire.body m).length (m.dest : Int) (Wire.body m) = buf ++ Wire.encodeMsg true m := by
  simp [Wire.forwardCopy, Wire.encodeMsg, Wire.msgHeader, hb]

theorem encodeAll_snoc (routed : Bool) (ms : List Wire.Msg) (m : Wire.Msg) :
    Wire.encodeAll routed (ms ++ [m]) = Wire.encodeAll routed ms ++ Wire.encodeMsg routed m := by
  rw [Wire.encodeAll_append]; simp [Wire.encodeAll]

/-- what the receive loop does with the front of a well-formed byte string -/
theorem parse_front {routed : Bool} {tbl : Wire.Table} {me : Int} {B : Loc → Bytes} {T : Loc → List Tag} {l : Loc}
    {t : Tag} {ts : List Tag} (hb : BytesOk routed B T) (hT : T l = t :: ts) (ok : Wire.MsgOk tbl t.msg) :
    B l = Wire.encodeMsg routed t.msg ++ Wire.encodeAll routed (ts.map (·.msg)) ∧
    Wire.parseStep routed tbl me (B l) = some (Wire.view routed me t.msg, Wire.encodeAll routed (ts.map (·.msg))) := by
  have h1 : B l = Wire.encodeMsg routed t.msg ++ Wire.encodeAll routed (ts.map (·.msg)) := by
    rw [hb l, hT]; rfl
  exact ⟨h1, by rw [h1]; exact Wire.parseStep_encode routed tbl me t.msg ok _⟩

/-! ### what an accepted byte-level step did -/

section steps
variable {n : Nat} {nh : Nat → Nat → Nat} {routed : Bool} {tbl : Wire.Table} {s s' : St}

theorem step_async {r uid : Nat} {m : Wire.Msg} (h : step n nh routed tbl s (.async r uid m) = some s') :
    ∃ d', Deliver.step n (nhEff routed nh) s.d (.async r uid m.dest m.bcast) = some d' ∧
      s' = { s with d := d',
                    bytes := updL s.bytes (.inBuf r (if m.bcast then m.dest else nhEff routed nh r m.dest))
                      (appendMsg routed (s.bytes (.inBuf r (if m.bcast then m.dest else nhEff routed nh r m.dest))) m),
                    tags := updL s.tags (.inBuf r (if m.bcast then m.dest else nhEff routed nh r m.dest))
                      (s.tags (.inBuf r (if m.bcast then m.dest else nhEff routed nh r m.dest)) ++ [⟨uid, m⟩]),
                    issued := s.issued ++ [⟨uid, m⟩] } := by
  simp only [step] at h
  split at h
  · cases h
  · rename_i d' hd
    cases h
    exact ⟨d', hd, rfl⟩

theorem step_isend {r hop : Nat} (h : step n nh routed tbl s (.isend r hop) = some s') :
    ∃ d', Deliver.step n (nhEff routed nh) s.d (.isend r hop) = some d' ∧
      s' = { s with d := d', bytes := moveL s.bytes (.inBuf r hop) (.inWire r hop (s.d.sendSeq r)) [],
                    tags := moveL s.tags (.inBuf r hop) (.inWire r hop (s.d.sendSeq r)) [] } := by
  simp only [step] at h
  split at h
  · cases h
  · rename_i d' hd
    cases h
    exact ⟨d', hd, rfl⟩

theorem step_recvBegin {r a k : Nat} (h : step n nh routed tbl s (.recvBegin r a k) = some s') :
    ∃ d', Deliver.step n (nhEff routed nh) s.d (.recvBegin r a k) = some d' ∧
      s' = { s with d := d', bytes := moveL s.bytes (.inWire a r k) (.inWalk r) [],
                    tags := moveL s.tags (.inWire a r k) (.inWalk r) [] } := by
  simp only [step] at h
  split at h
  · cases h
  · rename_i d' hd
    cases h
    exact ⟨d', hd, rfl⟩

theorem step_exec {r uid : Nat} (h : step n nh routed tbl s (.exec r uid) = some s') :
    ∃ d' t ts size dest lid fn args rest,
      Deliver.step n (nhEff routed nh) s.d (.exec r uid) = some d' ∧ s.tags (.inWalk r) = t :: ts ∧
      Wire.parseStep routed tbl (r : Int) (s.bytes (.inWalk r)) = some (.exec size dest lid fn args, rest) ∧
      t.uid = uid ∧
      s' = { s with d := d', bytes := updL s.bytes (.inWalk r) rest, tags := updL s.tags (.inWalk r) ts,
                    handled := s.handled ++ [⟨r, uid, lid, fn, args⟩] } := by
  simp only [step] at h
  split at h
  · rename_i d' t ts size dest lid fn args rest hd ht hp
    split at h
    · rename_i hu
      cases h
      exact ⟨d', t, ts, size, dest, lid, fn, args, rest, hd, ht, hp, hu, rfl⟩
    · cases h
  · cases h

theorem step_fwd {r uid : Nat} (h : step n nh routed tbl s (.fwd r uid) = some s') :
    ∃ d' t ts size dest payload rest,
      Deliver.step n (nhEff routed nh) s.d (.fwd r uid) = some d' ∧ s.tags (.inWalk r) = t :: ts ∧
      Wire.parseStep routed tbl (r : Int) (s.bytes (.inWalk r)) = some (.fwd size dest payload, rest) ∧
      t.uid = uid ∧
      s' = { s with d := d',
                    bytes := updL (updL s.bytes (.inWalk r) rest) (.inBuf r (nhEff routed nh r dest.toNat))
                      (Wire.forwardCopy (s.bytes (.inBuf r (nhEff routed nh r dest.toNat))) size dest payload),
                    tags := updL (updL s.tags (.inWalk r) ts) (.inBuf r (nhEff routed nh r dest.toNat))
                      (s.tags (.inBuf r (nhEff routed nh r dest.toNat)) ++ [t]) } := by
  simp only [step] at h
  split at h
  · rename_i d' t ts size dest payload rest hd ht hp
    split at h
    · rename_i hu
      cases h
      exact ⟨d', t, ts, size, dest, payload, rest, hd, ht, hp, hu, rfl⟩
    · cases h
  · cases h

theorem step_recvEnd {r : Nat} (h : step n nh routed tbl s (.recvEnd r) = some s') :
    ∃ d', Deliver.step n (nhEff routed nh) s.d (.recvEnd r) = some d' ∧ s.bytes (.inWalk r) = [] ∧
      s' = { s with d := d' } := by
  simp only [step] at h
  split at h
  · cases h
  · rename_i d' hd
    split at h
    · rename_i hb
      cases h
      exact ⟨d', hd, hb, rfl⟩
    · cases h

end steps

/-! ### the invariant -/

def tagKey (t : Tag) : Nat × Nat × Bool := (t.uid, t.msg.dest, t.msg.bcast)

/-- a handler execution was handed exactly what the `async` call named by its uid passed -/
def Matches (x : Handled) (t : Tag) : Prop :=
  t.uid = x.uid ∧ x.rank = t.msg.dest ∧ x.lid = t.msg.lid ∧ x.fn = t.msg.fn ∧ x.args = t.msg.args

structure Inv (routed : Bool) (tbl : Wire.Table) (s : St) : Prop where
  dInv : Deliver.Inv s.d
  bytesOk : BytesOk routed s.bytes s.tags
  tagIssued : ∀ l, ∀ t ∈ s.tags l, t ∈ s.issued
  issuedOk : ∀ t ∈ s.issued, Wire.MsgOk tbl t.msg
  issuedKey : s.issued.map tagKey = s.d.es.map Deliver.key
  la : LA s.d.es s.tags
  lb : LB s.d.es s.tags
  lc : LC s.tags
  handledExec : s.handled.map (fun x => (x.rank, x.uid)) = s.d.executed
  handledArgs : ∀ x ∈ s.handled, ∃ t ∈ s.issued, Matches x t
  walkIdle : ∀ r, s.d.walking r = false → s.tags (.inWalk r) = []
  seqFresh : ∀ a b k, s.d.sendSeq a ≤ k → s.tags (.inWire a b k) = []

theorem inv_init (routed : Bool) (tbl : Wire.Table) : Inv routed tbl St.init := by
  refine ⟨Deliver.inv_init, ?_, ?_, ?_, ?_, ?_, ?_, ?_, ?_, ?_, ?_, ?_⟩
  · intro l; rfl
  · intro l t ht; cases ht
  · intro t ht; cases ht
  · rfl
  · intro e he; cases he
  · intro l t ht; cases ht
  · intro l; exact List.nodup_nil
  · rfl
  · intro x hx; cases hx
  · intro r _; rfl
  · intro a b k _; rfl

/-- well-formedness of a history: the hypotheses `Wire` uses (`MsgOk`: lambda id < 2^16, body < 2^32 bytes,
destination < 2^31, the handler registered under the id reads these argument types, every value `HasTy`) -/
def Label.Ok (tbl : Wire.Table) : Label → Prop
  | .async _ _ m => Wire.MsgOk tbl m
  | _ => True

section inv
variable {n : Nat} {nh : Nat → Nat → Nat} {routed : Bool} {tbl : Wire.Table} {s s' : St}

theorem inv_async {r uid : Nat} {m : Wire.Msg} (hi : Inv routed tbl s) (ok : Wire.MsgOk tbl m)
    (h : step n nh routed tbl s (.async r uid m) = some s') : Inv routed tbl s' := by
  obtain ⟨d', hd, rfl⟩ := step_async h
  have hdi := Deliver.inv_step hi.dInv hd
  obtain ⟨rfl, hfresh⟩ := dstep_async hd
  generalize hl0 : Loc.inBuf r (if m.bcast then m.dest else nhEff routed nh r m.dest) = l0 at *
  refine ⟨hdi, ?_, ?_, ?_, ?_, ?_, ?_, ?_, ?_, ?_, ?_, ?_⟩
  · intro l
    by_cases hl : l = l0
    · subst hl
      simp only [updL_same]
      rw [appendMsg_eq routed _ m ok.size, hi.bytesOk l, List.map_append]
      exact (encodeAll_snoc routed _ m).symm
    · simp only [updL_other _ _ hl]; exact hi.bytesOk l
  · intro l t ht
    by_cases hl : l = l0
    · subst hl
      simp only [updL_same] at ht
      rcases List.mem_append.1 ht with h1 | h1
      · exact List.mem_append_left _ (hi.tagIssued l t h1)
      · exact List.mem_append_right _ h1
    · simp only [updL_other _ _ hl] at ht
      exact List.mem_append_left _ (hi.tagIssued l t ht)
  · intro t ht
    rcases List.mem_append.1 ht with h1 | h1
    · exact hi.issuedOk t h1
    · simp only [List.mem_singleton] at h1; subst h1; exact ok
  · simp only [List.map_append, hi.issuedKey]
    rfl
  · intro e he hnd
    rcases List.mem_append.1 he with h1 | h1
    · obtain ⟨t, ht, hu⟩ := hi.la e h1 hnd
      by_cases hl : e.loc = l0
      · simp only [hl, updL_same]; rw [hl] at ht; exact ⟨t, List.mem_append_left _ ht, hu⟩
      · simp only [updL_other _ _ hl]; exact ⟨t, ht, hu⟩
    · simp only [List.mem_singleton] at h1
      subst h1
      simp only [updL_same]
      exact ⟨⟨uid, m⟩, by simp, rfl⟩
  · intro l t ht
    by_cases hl : l = l0
    · subst hl
      simp only [updL_same] at ht
      rcases List.mem_append.1 ht with h1 | h1
      · obtain ⟨e, he, hu, hloc, hd', hb⟩ := hi.lb l t h1
        exact ⟨e, List.mem_append_left _ he, hu, hloc, hd', hb⟩
      · simp only [List.mem_singleton] at h1
        subst h1
        exact ⟨_, List.mem_append_right _ (List.mem_singleton.2 rfl), rfl, rfl, rfl, rfl⟩
    · simp only [updL_other _ _ hl] at ht
      obtain ⟨e, he, hu, hloc, hd', hb⟩ := hi.lb l t ht
      exact ⟨e, List.mem_append_left _ he, hu, hloc, hd', hb⟩
  · intro l
    by_cases hl : l = l0
    · subst hl
      simp only [updL_same, List.map_append, List.map_cons, List.map_nil]
      rw [List.nodup_append]
      refine ⟨hi.lc l, by simp, ?_⟩
      intro a ha b hb
      simp only [List.mem_singleton] at hb
      subst hb
      intro hab
      obtain ⟨t, ht, hu⟩ := List.mem_map.1 ha
      obtain ⟨e, he, hue, _⟩ := hi.lb l t ht
      exact hfresh e he (by rw [hue, hu, hab])
    · simp only [updL_other _ _ hl]; exact hi.lc l
  · exact hi.handledExec
  · intro x hx
    obtain ⟨t, ht, hm⟩ := hi.handledArgs x hx
    exact ⟨t, List.mem_append_left _ ht, hm⟩
  · intro q hq
    have : Loc.inWalk q ≠ l0 := by rw [← hl0]; intro h'; cases h'
    simp only [updL_other _ _ this]
    exact hi.walkIdle q hq
  · intro a b k hk
    have : Loc.inWire a b k ≠ l0 := by rw [← hl0]; intro h'; cases h'
    simp only [updL_other _ _ this]
    exact hi.seqFresh a b k hk

theorem inv_isend {r hop : Nat} (hi : Inv routed tbl s)
    (h : step n nh routed tbl s (.isend r hop) = some s') : Inv routed tbl s' := by
  obtain ⟨d', hd, rfl⟩ := step_isend h
  have hdi := Deliver.inv_step hi.dInv hd
  have hd' := dstep_isend hd
  subst hd'
  have hp : ∀ e : Entry, inBufOf r hop e = true ↔ e.loc = .inBuf r hop := fun e => Deliver.inBufOf_iff
  have hne : Loc.inBuf r hop ≠ Loc.inWire r hop (s.d.sendSeq r) := by intro h'; cases h'
  have hempty : s.tags (.inWire r hop (s.d.sendSeq r)) = [] := hi.seqFresh r hop _ (Nat.le_refl _)
  refine ⟨hdi, move_BytesOk hne hi.bytesOk, ?_, hi.issuedOk, ?_,
    move_LA hp hne (by intro q h'; cases h') hempty hi.la, move_LB hp hne hi.lb, move_LC hne hi.lc,
    hi.handledExec, hi.handledArgs, ?_, ?_⟩
  · intro l t ht
    obtain ⟨l', ht'⟩ := move_mem ht
    exact hi.tagIssued l' t ht'
  · simp only [Deliver.relocate_map_key]; exact hi.issuedKey
  · intro q hq
    simp only at hq ⊢
    rw [moveL_other _ _ (by intro h'; cases h') (by intro h'; cases h')]
    exact hi.walkIdle q hq
  · intro a b k hk
    simp only at hk ⊢
    by_cases hdst : Loc.inWire a b k = Loc.inWire r hop (s.d.sendSeq r)
    · injection hdst with h1 h2 h3
      subst h1 h2 h3
      simp [Deliver.upd] at hk
      omega
    · rw [moveL_other _ _ (by intro h'; cases h') hdst]
      apply hi.seqFresh a b k
      by_cases har : a = r
      · subst har; simp [Deliver.upd] at hk; omega
      · simpa [Deliver.upd, har] using hk

theorem inv_recvBegin {r a k : Nat} (hi : Inv routed tbl s)
    (h : step n nh routed tbl s (.recvBegin r a k) = some s') : Inv routed tbl s' := by
  obtain ⟨d', hd, rfl⟩ := step_recvBegin h
  have hdi := Deliver.inv_step hi.dInv hd
  obtain ⟨hd', hwalk⟩ := dstep_recvBegin hd
  subst hd'
  have hp : ∀ e : Entry, inWireOf a r k e = true ↔ e.loc = .inWire a r k := fun e => Deliver.inWireOf_iff
  have hne : Loc.inWire a r k ≠ Loc.inWalk r := by intro h'; cases h'
  have hempty : s.tags (.inWalk r) = [] := hi.walkIdle r hwalk
  refine ⟨hdi, move_BytesOk hne hi.bytesOk, ?_, hi.issuedOk, ?_,
    move_LA hp hne (by intro q h'; cases h') hempty hi.la, move_LB hp hne hi.lb, move_LC hne hi.lc,
    hi.handledExec, hi.handledArgs, ?_, ?_⟩
  · intro l t ht
    obtain ⟨l', ht'⟩ := move_mem ht
    exact hi.tagIssued l' t ht'
  · simp only [Deliver.relocate_map_key]; exact hi.issuedKey
  · intro q hq
    simp only at hq ⊢
    have hqr : q ≠ r := by
      intro h'; subst h'; simp [Deliver.upd] at hq
    have hq' : s.d.walking q = false := by
      simpa [Deliver.upd, hqr] using hq
    rw [moveL_other _ _ (by intro h'; cases h') (by intro h'; injection h' with h''; exact hqr h'')]
    exact hi.walkIdle q hq'
  · intro a' b' k' hk
    simp only at hk ⊢
    by_cases hsrc : Loc.inWire a' b' k' = Loc.inWire a r k
    · rw [hsrc, moveL_src]
    · rw [moveL_other _ _ hsrc (by intro h'; cases h')]
      exact hi.seqFresh a' b' k' hk

theorem inv_exec {r uid : Nat} (hi : Inv routed tbl s)
    (h : step n nh routed tbl s (.exec r uid) = some s') : Inv routed tbl s' := by
  obtain ⟨d', t, ts, size, dest, lid, fn, args, rest, hd, hT, hps, hu, rfl⟩ := step_exec h
  subst hu
  have hdi := Deliver.inv_step hi.dInv hd
  obtain ⟨hd', hwalk, e1, he1, hu1, hl1, hdest1⟩ := dstep_exec hd
  subst hd'
  have htmem : t ∈ s.tags (.inWalk r) := by rw [hT]; exact List.mem_cons_self
  have hti : t ∈ s.issued := hi.tagIssued _ t htmem
  obtain ⟨_, hpf⟩ := parse_front (me := (r : Int)) hi.bytesOk hT (hi.issuedOk t hti)
  rw [hpf] at hps
  injection hps with hps
  injection hps with hview hrest
  subst hrest
  obtain ⟨rfl, rfl, rfl⟩ := view_exec hview
  refine ⟨hdi, ?_, ?_, hi.issuedOk, ?_, exec_LA ⟨r, rfl⟩ hT hi.la, exec_LB hT hi.lb hi.lc, exec_LC hT hi.lc,
    ?_, ?_, ?_, ?_⟩
  · intro l
    by_cases hl : l = .inWalk r
    · subst hl; simp only [updL_same]
    · simp only [updL_other _ _ hl]; exact hi.bytesOk l
  · intro l t' ht'
    by_cases hl : l = .inWalk r
    · subst hl
      simp only [updL_same] at ht'
      exact hi.tagIssued _ t' (by rw [hT]; exact List.mem_cons_of_mem _ ht')
    · simp only [updL_other _ _ hl] at ht'
      exact hi.tagIssued l t' ht'
  · simp only [Deliver.relocate_map_key]; exact hi.issuedKey
  · simp only [List.map_append, hi.handledExec, List.map_cons, List.map_nil]
  · intro x hx
    rcases List.mem_append.1 hx with h1 | h1
    · exact hi.handledArgs x h1
    · simp only [List.mem_singleton] at h1
      subst h1
      refine ⟨t, hti, rfl, ?_, rfl, rfl, rfl⟩
      obtain ⟨e0, he0, hu0, hl0, hd0, hb0⟩ := hi.lb _ t htmem
      have : e1 = e0 := Deliver.eq_of_uid_eq hi.dInv.nodup he1 he0 (by rw [hu1, hu0])
      subst this
      show r = t.msg.dest
      rw [← hd0]
      rcases hdest1 with h2 | h2
      · exact h2.symm
      · exact hi.dInv.directWalk e1 he1 h2 r hl1
  · intro q hq
    simp only at hq ⊢
    have hqr : q ≠ r := by intro h'; subst h'; rw [hwalk] at hq; cases hq
    rw [updL_other _ _ (by intro h'; injection h' with h''; exact hqr h'')]
    exact hi.walkIdle q hq
  · intro a b k hk
    simp only at hk ⊢
    rw [updL_other _ _ (by intro h'; cases h')]
    exact hi.seqFresh a b k hk

theorem inv_fwd {r uid : Nat} (hi : Inv routed tbl s)
    (h : step n nh routed tbl s (.fwd r uid) = some s') : Inv routed tbl s' := by
  obtain ⟨d', t, ts, size, dest, payload, rest, hd, hT, hps, hu, rfl⟩ := step_fwd h
  subst hu
  have hdi := Deliver.inv_step hi.dInv hd
  obtain ⟨e1, he1, hu1, hl1, _, _, hwalk, hd'⟩ := dstep_fwd hd
  subst hd'
  have htmem : t ∈ s.tags (.inWalk r) := by rw [hT]; exact List.mem_cons_self
  have hti : t ∈ s.issued := hi.tagIssued _ t htmem
  obtain ⟨_, hpf⟩ := parse_front (me := (r : Int)) hi.bytesOk hT (hi.issuedOk t hti)
  rw [hpf] at hps
  injection hps with hps
  injection hps with hview hrest
  subst hrest
  obtain ⟨hrt, hbc, _, rfl, rfl, rfl⟩ := view_fwd hview
  subst hrt
  obtain ⟨e0, he0, hu0, hl0, hd0, hb0⟩ := hi.lb _ t htmem
  have : e1 = e0 := Deliver.eq_of_uid_eq hi.dInv.nodup he1 he0 (by rw [hu1, hu0])
  subst this
  have hto : ((t.msg.dest : Int)).toNat = e1.dest := by rw [hd0]; exact Int.toNat_natCast _
  rw [hto]
  generalize hl' : Loc.inBuf r (nhEff true nh r e1.dest) = l' at *
  have hne : l' ≠ .inWalk r := by rw [← hl']; intro h'; cases h'
  have hne' : Loc.inWalk r ≠ l' := fun h' => hne h'.symm
  refine ⟨hdi, ?_, ?_, hi.issuedOk, ?_, fwd_LA hT hi.la, fwd_LB hne hT hi.lb hi.lc,
    fwd_LC hi.dInv.nodup hne hT hi.lb hi.lc, hi.handledExec, hi.handledArgs, ?_, ?_⟩
  · intro l
    by_cases hl : l = l'
    · subst hl
      simp only [updL_same]
      rw [forwardCopy_eq _ _ hbc, hi.bytesOk l, List.map_append]
      exact (encodeAll_snoc true _ t.msg).symm
    · simp only [updL_other _ _ hl]
      by_cases hw : l = .inWalk r
      · subst hw; simp only [updL_same]
      · simp only [updL_other _ _ hw]; exact hi.bytesOk l
  · intro l t' ht'
    by_cases hl : l = l'
    · subst hl
      simp only [updL_same] at ht'
      rcases List.mem_append.1 ht' with h1 | h1
      · exact hi.tagIssued l t' h1
      · simp only [List.mem_singleton] at h1; subst h1; exact hti
    · simp only [updL_other _ _ hl] at ht'
      by_cases hw : l = .inWalk r
      · subst hw
        simp only [updL_same] at ht'
        exact hi.tagIssued _ t' (by rw [hT]; exact List.mem_cons_of_mem _ ht')
      · simp only [updL_other _ _ hw] at ht'
        exact hi.tagIssued l t' ht'
  · simp only [Deliver.relocate_map_key]; exact hi.issuedKey
  · intro q hq
    simp only at hq ⊢
    have hqr : q ≠ r := by intro h'; subst h'; rw [hwalk] at hq; cases hq
    rw [updL_other _ _ (by rw [← hl']; intro h'; cases h'),
      updL_other _ _ (by intro h'; injection h' with h''; exact hqr h'')]
    exact hi.walkIdle q hq
  · intro a b k hk
    simp only at hk ⊢
    rw [updL_other _ _ (by rw [← hl']; intro h'; cases h'), updL_other _ _ (by intro h'; cases h')]
    exact hi.seqFresh a b k hk

theorem inv_recvEnd {r : Nat} (hi : Inv routed tbl s)
    (h : step n nh routed tbl s (.recvEnd r) = some s') : Inv routed tbl s' := by
  obtain ⟨d', hd, _, rfl⟩ := step_recvEnd h
  have hdi := Deliver.inv_step hi.dInv hd
  obtain ⟨hd', hnone⟩ := dstep_recvEnd hd
  subst hd'
  refine ⟨hdi, hi.bytesOk, hi.tagIssued, hi.issuedOk, hi.issuedKey, hi.la, hi.lb, hi.lc, hi.handledExec,
    hi.handledArgs, ?_, hi.seqFresh⟩
  intro q hq
  simp only at hq ⊢
  by_cases hqr : q = r
  · subst hqr
    cases hT : s.tags (.inWalk q) with
    | nil => rfl
    | cons t ts =>
      obtain ⟨e, he, _, hl, _⟩ := hi.lb (.inWalk q) t (by rw [hT]; exact List.mem_cons_self)
      exact absurd hl (hnone e he)
  · have : s.d.walking q = false := by simpa [Deliver.upd, hqr] using hq
    exact hi.walkIdle q this

theorem inv_step {l : Label} (hi : Inv routed tbl s) (ok : l.Ok tbl)
    (h : step n nh routed tbl s l = some s') : Inv routed tbl s' := by
  cases l with
  | async r uid m => exact inv_async hi ok h
  | isend r hop => exact inv_isend hi h
  | recvBegin r a k => exact inv_recvBegin hi h
  | exec r uid => exact inv_exec hi h
  | fwd r uid => exact inv_fwd hi h
  | recvEnd r => exact inv_recvEnd hi h

theorem inv_run (ls : List Label) (hi : Inv routed tbl s) (ok : ∀ l ∈ ls, l.Ok tbl)
    (h : run n nh routed tbl s ls = some s') : Inv routed tbl s' := by
  induction ls generalizing s with
  | nil => simp only [run] at h; cases h; exact hi
  | cons l ls ih =>
    simp only [run] at h
    cases hst : step n nh routed tbl s l with
    | none => rw [hst] at h; cases h
    | some s1 =>
      rw [hst] at h
      exact ih (inv_step hi (ok l List.mem_cons_self) hst) (fun l' hl' => ok l' (List.mem_cons_of_mem _ hl')) h

end inv

/-! ### simulation: every byte-level step is the corresponding `Deliver` step on the abstraction -/

section sim
variable {n : Nat} {nh : Nat → Nat → Nat} {routed : Bool} {tbl : Wire.Table} {s s' : St}

theorem step_abs {l : Label} (h : step n nh routed tbl s l = some s') :
    Deliver.step n (nhEff routed nh) s.abs l.abs = some s'.abs := by
  cases l with
  | async r uid m => obtain ⟨d', hd, rfl⟩ := step_async h; exact hd
  | isend r hop => obtain ⟨d', hd, rfl⟩ := step_isend h; exact hd
  | recvBegin r a k => obtain ⟨d', hd, rfl⟩ := step_recvBegin h; exact hd
  | exec r uid => obtain ⟨d', _, _, _, _, _, _, _, _, hd, _, _, _, rfl⟩ := step_exec h; exact hd
  | fwd r uid => obtain ⟨d', _, _, _, _, _, _, hd, _, _, _, rfl⟩ := step_fwd h; exact hd
  | recvEnd r => obtain ⟨d', hd, _, rfl⟩ := step_recvEnd h; exact hd

theorem run_abs (ls : List Label) (h : run n nh routed tbl s ls = some s') :
    Deliver.run n (nhEff routed nh) s.abs (ls.map Label.abs) = some s'.abs := by
  induction ls generalizing s with
  | nil => simp only [run] at h; cases h; rfl
  | cons l ls ih =>
    simp only [run] at h
    cases hst : step n nh routed tbl s l with
    | none => rw [hst] at h; cases h
    | some s1 =>
      rw [hst] at h
      simp only [List.map_cons, Deliver.run, step_abs hst]
      exact ih h

theorem step_issued {l : Label} (h : step n nh routed tbl s l = some s') :
    s'.issued = s.issued ++ newTags l := by
  cases l with
  | async r uid m => obtain ⟨d', hd, rfl⟩ := step_async h; rfl
  | isend r hop => obtain ⟨d', hd, rfl⟩ := step_isend h; simp [newTags]
  | recvBegin r a k => obtain ⟨d', hd, rfl⟩ := step_recvBegin h; simp [newTags]
  | exec r uid => obtain ⟨d', _, _, _, _, _, _, _, _, hd, _, _, _, rfl⟩ := step_exec h; simp [newTags]
  | fwd r uid => obtain ⟨d', _, _, _, _, _, _, hd, _, _, _, rfl⟩ := step_fwd h; simp [newTags]
  | recvEnd r => obtain ⟨d', hd, _, rfl⟩ := step_recvEnd h; simp [newTags]

theorem run_issued (ls : List Label) (h : run n nh routed tbl s ls = some s') :
    s'.issued = s.issued ++ ls.flatMap newTags := by
  induction ls generalizing s with
  | nil => simp only [run] at h; cases h; simp
  | cons l ls ih =>
    simp only [run] at h
    cases hst : step n nh routed tbl s l with
    | none => rw [hst] at h; cases h
    | some s1 =>
      rw [hst] at h
      rw [ih h, step_issued hst]; simp [List.flatMap_cons]

end sim

/-! ### consequences of the invariant -/

theorem eq_of_map_nodup {α β} (f : α → β) {l : List α} (hn : (l.map f).Nodup) {a b : α}
    (ha : a ∈ l) (hb : b ∈ l) (h : f a = f b) : a = b := by
  induction l with
  | nil => cases ha
  | cons x xs ih =>
    simp only [List.map_cons, List.nodup_cons, List.mem_map, not_exists, not_and] at hn
    rcases List.mem_cons.1 ha with rfl | ha'
    · rcases List.mem_cons.1 hb with rfl | hb'
      · rfl
      · exact absurd h.symm (hn.1 b hb')
    · rcases List.mem_cons.1 hb with rfl | hb'
      · exact absurd h (hn.1 a ha')
      · exact ih hn.2 ha' hb'

section cons
variable {routed : Bool} {tbl : Wire.Table} {s : St}

theorem issued_uid_nodup (hi : Inv routed tbl s) : (s.issued.map (·.uid)).Nodup := by
  have h1 : s.issued.map (·.uid) = (s.issued.map tagKey).map (·.1) := by
    rw [List.map_map]; rfl
  have h2 : s.d.es.map (·.uid) = (s.d.es.map Deliver.key).map (·.1) := by
    rw [List.map_map]; rfl
  rw [h1, hi.issuedKey, ← h2]
  exact hi.dInv.nodup

/-- the uid names the call: two issued tags with one uid are the same call -/
theorem issued_unique (hi : Inv routed tbl s) {t1 t2 : Tag} (h1 : t1 ∈ s.issued) (h2 : t2 ∈ s.issued)
    (h : t1.uid = t2.uid) : t1 = t2 :=
  eq_of_map_nodup (·.uid) (issued_uid_nodup hi) h1 h2 h

theorem find_issued (hi : Inv routed tbl s) {t : Tag} (ht : t ∈ s.issued) :
    s.issued.find? (fun t' => t'.uid == t.uid) = some t := by
  cases hf : s.issued.find? (fun t' => t'.uid == t.uid) with
  | none =>
    have := List.find?_eq_none.1 hf t ht
    simp at this
  | some t' =>
    have h1 := List.find?_some hf
    have h2 := List.mem_of_find?_eq_some hf
    simp only [beq_iff_eq] at h1
    rw [issued_unique hi h2 ht h1]

/-- the tags of a byte string are, up to order, the uids `Deliver` has at that location -/
theorem tags_perm (hi : Inv routed tbl s) (l : Loc) (hl : ∀ r, l ≠ .done r) :
    List.Perm ((s.tags l).map (·.uid)) (Deliver.uidsAt s.d (fun e => e.loc == l)) := by
  have hnd : (Deliver.uidsAt s.d (fun e => e.loc == l)).Nodup := by
    unfold Deliver.uidsAt
    exact List.Nodup.sublist (List.Sublist.map _ List.filter_sublist) hi.dInv.nodup
  rw [List.perm_ext_iff_of_nodup (hi.lc l) hnd]
  intro u
  unfold Deliver.uidsAt
  simp only [List.mem_map, List.mem_filter, beq_iff_eq]
  constructor
  · rintro ⟨t, ht, rfl⟩
    obtain ⟨e, he, hu, hloc, _⟩ := hi.lb l t ht
    exact ⟨e, ⟨he, hloc⟩, hu⟩
  · rintro ⟨e, ⟨he, hloc⟩, rfl⟩
    obtain ⟨t, ht, hu⟩ := hi.la e he (isDone_false_of_loc hloc hl)
    rw [hloc] at ht
    exact ⟨t, ht, hu⟩

/-- the key (uid, destination, broadcast flag) of the entry `Deliver` keeps for an issued call -/
theorem issued_entry (hi : Inv routed tbl s) {t : Tag} (ht : t ∈ s.issued) :
    ∃ e ∈ s.d.es, e.uid = t.uid ∧ e.dest = t.msg.dest ∧ e.direct = t.msg.bcast := by
  have : tagKey t ∈ s.issued.map tagKey := List.mem_map_of_mem ht
  rw [hi.issuedKey] at this
  obtain ⟨e, he, hk⟩ := List.mem_map.1 this
  simp only [Deliver.key, tagKey, Prod.mk.injEq] at hk
  exact ⟨e, he, hk.1, hk.2.1, hk.2.2⟩

end cons

/-! ### without routing every byte string is where its messages are addressed to -/

/-- the rank a byte string at this location is (going to be) handled by -/
def target : Loc → Option Nat
  | .inBuf _ hop => some hop
  | .inWire _ d _ => some d
  | .inWalk r => some r
  | .done _ => none

def Unrouted (routed : Bool) (s : St) : Prop :=
  routed = false → ∀ l, ∀ t ∈ s.tags l, ∀ x, target l = some x → x = t.msg.dest

theorem unrouted_init (routed : Bool) : Unrouted routed St.init := by
  intro _ l t ht; cases ht

theorem unrouted_move {routed : Bool} {s : St} {src dst : Loc} (T' : Loc → List Tag)
    (hT' : T' = moveL s.tags src dst []) (hne : src ≠ dst) (htg : target dst = target src)
    (hu : Unrouted routed s) (hr : routed = false) :
    ∀ l, ∀ t ∈ T' l, ∀ x, target l = some x → x = t.msg.dest := by
  subst hT'
  intro l t ht x hx
  by_cases h1 : l = src
  · subst h1; rw [moveL_src] at ht; cases ht
  · by_cases h2 : l = dst
    · subst h2
      rw [moveL_dst _ _ hne] at ht
      rw [htg] at hx
      exact hu hr src t ht x hx
    · rw [moveL_other _ _ h1 h2] at ht
      exact hu hr l t ht x hx

section unrouted
variable {n : Nat} {nh : Nat → Nat → Nat} {routed : Bool} {tbl : Wire.Table} {s s' : St}

theorem unrouted_step {l : Label} (hi : Inv routed tbl s) (hu : Unrouted routed s)
    (h : step n nh routed tbl s l = some s') : Unrouted routed s' := by
  intro hr
  subst hr
  cases l with
  | async r uid m =>
    obtain ⟨d', hd, rfl⟩ := step_async h
    intro l t ht x hx
    simp only at ht
    by_cases hl : l = .inBuf r (if m.bcast then m.dest else nhEff false nh r m.dest)
    · subst hl
      rw [updL_same] at ht
      rcases List.mem_append.1 ht with h1 | h1
      · exact hu rfl _ t h1 x hx
      · simp only [List.mem_singleton] at h1
        subst h1
        simp only [target, Option.some.injEq] at hx
        subst hx
        cases m.bcast <;> rfl
    · rw [updL_other _ _ hl] at ht
      exact hu rfl l t ht x hx
  | isend r hop =>
    obtain ⟨d', hd, rfl⟩ := step_isend h
    exact unrouted_move _ rfl (by intro h'; cases h') rfl hu rfl
  | recvBegin r a k =>
    obtain ⟨d', hd, rfl⟩ := step_recvBegin h
    exact unrouted_move _ rfl (by intro h'; cases h') rfl hu rfl
  | exec r uid =>
    obtain ⟨d', t, ts, _, _, _, _, _, _, hd, hT, _, _, rfl⟩ := step_exec h
    intro l t' ht' x hx
    simp only at ht'
    by_cases hl : l = .inWalk r
    · subst hl
      rw [updL_same] at ht'
      exact hu rfl _ t' (by rw [hT]; exact List.mem_cons_of_mem _ ht') x hx
    · rw [updL_other _ _ hl] at ht'
      exact hu rfl l t' ht' x hx
  | fwd r uid =>
    obtain ⟨d', t, ts, size, dest, payload, rest, hd, hT, hps, _, rfl⟩ := step_fwd h
    have hti : t ∈ s.issued := hi.tagIssued _ t (by rw [hT]; exact List.mem_cons_self)
    obtain ⟨_, hpf⟩ := parse_front (me := (r : Int)) hi.bytesOk hT (hi.issuedOk t hti)
    rw [hpf] at hps
    injection hps with hps
    injection hps with hview _
    have := (view_fwd hview).1
    cases this
  | recvEnd r =>
    obtain ⟨d', hd, _, rfl⟩ := step_recvEnd h
    exact hu rfl

theorem unrouted_run (ls : List Label) (hi : Inv routed tbl s) (hu : Unrouted routed s) (ok : ∀ l ∈ ls, l.Ok tbl)
    (h : run n nh routed tbl s ls = some s') : Unrouted routed s' := by
  induction ls generalizing s with
  | nil => simp only [run] at h; cases h; exact hu
  | cons l ls ih =>
    simp only [run] at h
    cases hst : step n nh routed tbl s l with
    | none => rw [hst] at h; cases h
    | some s1 =>
      rw [hst] at h
      exact ih (inv_step hi (ok l List.mem_cons_self) hst) (unrouted_step hi hu hst)
        (fun l' hl' => ok l' (List.mem_cons_of_mem _ hl')) h

end unrouted

end YgmVerif.DeliverBytes
