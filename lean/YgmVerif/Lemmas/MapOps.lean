import YgmVerif.Model.MapOps
/-!
Helper lemmas for `YgmVerif.MapOps`: how each primitive of the association structure acts on the
values of one key, and the instance `keyed` that plugs `MapOps.apply` into `Dist.Keyed`
(every operation touches the values of its own key only).
-/
namespace YgmVerif.MapOps

variable {K V A : Type} [DecidableEq K]

@[simp] theorem values_nil (k : K) : values ([] : Assoc K V) k = [] := rfl

theorem values_cons (p : K × V) (m : Assoc K V) (k : K) :
    values (p :: m) k = if p.1 = k then p.2 :: values m k else values m k := by
  unfold values
  by_cases h : p.1 = k <;> simp [h]

theorem values_append (m1 m2 : Assoc K V) (k : K) :
    values (m1 ++ m2) k = values m1 k ++ values m2 k := by
  unfold values; exact List.filterMap_append

theorem values_single_same (k : K) (v : V) : values [(k, v)] k = [v] := by
  simp [values_cons]

theorem values_single_other (k k' : K) (v : V) (h : k' ≠ k) : values [(k, v)] k' = [] := by
  have h' : ¬ k = k' := fun e => h e.symm
  simp [values_cons, h']

theorem contains_eq (m : Assoc K V) (k : K) : contains m k = !(values m k).isEmpty := by
  induction m with
  | nil => rfl
  | cons p m ih =>
    unfold contains at ih ⊢
    rw [values_cons, List.any_cons, ih]
    by_cases h : p.1 = k <;> simp [h]

theorem contains_false_iff (m : Assoc K V) (k : K) : contains m k = false ↔ values m k = [] := by
  rw [contains_eq]; cases values m k <;> simp

theorem contains_true_iff (m : Assoc K V) (k : K) : contains m k = true ↔ values m k ≠ [] := by
  rw [contains_eq]; cases values m k <;> simp

/-- the two cases of `find(key)`: absent / present -/
theorem contains_cases (m : Assoc K V) (k : K) :
    (contains m k = false ∧ values m k = [] ∧ (values m k).isEmpty = true) ∨
    (contains m k = true ∧ values m k ≠ [] ∧ (values m k).isEmpty = false) := by
  rw [contains_eq]; cases values m k <;> simp

theorem values_modifyFirst_same (f : V → V) (m : Assoc K V) (k : K) :
    values (modifyFirst k f m) k = modifyHead f (values m k) := by
  induction m with
  | nil => rfl
  | cons p m ih =>
    obtain ⟨k', v⟩ := p
    unfold modifyFirst
    by_cases h : k' = k
    · simp [h, values_cons, modifyHead]
    · simp [h, values_cons, ih]

theorem values_modifyFirst_other (f : V → V) (m : Assoc K V) (k k' : K) (hk : k' ≠ k) :
    values (modifyFirst k f m) k' = values m k' := by
  induction m with
  | nil => rfl
  | cons p m ih =>
    obtain ⟨k'', v⟩ := p
    unfold modifyFirst
    by_cases h : k'' = k
    · have hk' : ¬ k = k' := fun e => hk e.symm
      simp [h, values_cons, hk']
    · simp [h, values_cons, ih]

theorem values_eraseKey_same (m : Assoc K V) (k : K) : values (eraseKey m k) k = [] := by
  unfold values eraseKey
  rw [List.filterMap_eq_nil_iff]
  intro p hp
  simp only [List.mem_filter, decide_eq_true_eq] at hp
  simp [hp.2]

theorem values_eraseKey_other (m : Assoc K V) (k k' : K) (hk : k' ≠ k) :
    values (eraseKey m k) k' = values m k' := by
  induction m with
  | nil => rfl
  | cons p m ih =>
    by_cases h : p.1 = k
    · have e1 : eraseKey (p :: m) k = eraseKey m k := by simp [eraseKey, h]
      have h2 : ¬ p.1 = k' := fun e => hk (e.symm.trans h)
      rw [e1, ih, values_cons, if_neg h2]
    · have e1 : eraseKey (p :: m) k = p :: eraseKey m k := by simp [eraseKey, h]
      rw [e1, values_cons, values_cons, ih]

theorem localVisit_values_same {O C : Type} (f : V → V × List O × List C) (k : K) (m : Assoc K V) :
    values (localVisit f k m).1 k = (visitVals f (values m k)).1 := by
  induction m with
  | nil => rfl
  | cons p m ih =>
    obtain ⟨k', v⟩ := p
    unfold localVisit
    by_cases h : k' = k
    · simp [h, values_cons, visitVals, ← ih]
    · simp [h, values_cons, ih]

theorem localVisit_out {O C : Type} (f : V → V × List O × List C) (k : K) (m : Assoc K V) :
    (localVisit f k m).2 = (visitVals f (values m k)).2 := by
  induction m with
  | nil => rfl
  | cons p m ih =>
    obtain ⟨k', v⟩ := p
    unfold localVisit
    by_cases h : k' = k
    · simp [h, values_cons, visitVals, ← ih]
    · simp [h, values_cons, ih]

theorem localVisit_values_other {O C : Type} (f : V → V × List O × List C) (k k' : K)
    (m : Assoc K V) (hk : k' ≠ k) : values (localVisit f k m).1 k' = values m k' := by
  induction m with
  | nil => rfl
  | cons p m ih =>
    obtain ⟨k'', v⟩ := p
    unfold localVisit
    by_cases h : k'' = k
    · have hk' : ¬ k = k' := fun e => hk e.symm
      simp [h, values_cons, ih, hk']
    · simp [h, values_cons, ih]

theorem assign_values_same (nv : List V) (k : K) (m : Assoc K V) :
    values (assign k nv m) k = assignVals nv (values m k) := by
  induction m generalizing nv with
  | nil => cases nv <;> rfl
  | cons p m ih =>
    obtain ⟨k', v⟩ := p
    by_cases h : k' = k
    · cases nv with
      | nil => simp [assign, h, values_cons, assignVals, ih]
      | cons x nv' => simp [assign, h, values_cons, assignVals, ih]
    · simp [assign, h, values_cons, ih]

theorem assign_values_other (nv : List V) (k k' : K) (m : Assoc K V) (hk : k' ≠ k) :
    values (assign k nv m) k' = values m k' := by
  induction m generalizing nv with
  | nil => cases nv <;> rfl
  | cons p m ih =>
    obtain ⟨k'', v⟩ := p
    by_cases h : k'' = k
    · have h2 : ¬ k = k' := fun e => hk e.symm
      cases nv with
      | nil => simp [assign, h, values_cons, ih, h2]
      | cons x nv' => simp [assign, h, values_cons, ih, h2]
    · simp [assign, h, values_cons, ih]

theorem ensure_values_same (dflt : V) (m : Assoc K V) (k : K) :
    values (ensure dflt m k) k = ensureVals dflt (values m k) := by
  unfold ensure ensureVals
  rw [contains_eq]
  cases h : values m k with
  | nil => simp [values_append, h, values_single_same]
  | cons v r => simp [h]

theorem ensure_values_other (dflt : V) (m : Assoc K V) (k k' : K) (hk : k' ≠ k) :
    values (ensure dflt m k) k' = values m k' := by
  unfold ensure
  split
  · rfl
  · simp [values_append, values_single_other k k' dflt hk]

/-- every operation acts on the values of its own key as `applyK` says -/
theorem apply_same (u : User K V A) (dflt : V) (m : Assoc K V) (op : Op K V A) :
    values (apply u dflt m op).1 op.key = (applyK u dflt (values m op.key) op).1 := by
  cases op with
  | insert k v =>
    simp only [apply, applyK, Op.key]
    rcases contains_cases m k with ⟨hc, hv, he⟩ | ⟨hc, _, he⟩
    · simp [hc, hv, values_append, values_single_same]
    · simp [hc, he, values_modifyFirst_same]
  | insertMulti k v => simp [apply, applyK, Op.key, values_append, values_single_same]
  | insertIfMissing k v =>
    simp only [apply, applyK, Op.key]
    rcases contains_cases m k with ⟨hc, hv, he⟩ | ⟨hc, _, he⟩
    · simp [hc, hv, values_append, values_single_same]
    · simp [hc, he]
  | visit k vis a =>
    simp only [apply, applyK, Op.key, localVisit_values_same, ensure_values_same]
  | visitGroup k vis a =>
    simp only [apply, applyK, Op.key, assign_values_same, ensure_values_same]
  | visitIfExists k vis a => simp only [apply, applyK, Op.key, localVisit_values_same]
  | elseVisit k v vis a =>
    simp only [apply, applyK, Op.key]
    rcases contains_cases m k with ⟨hc, hv, he⟩ | ⟨hc, _, he⟩
    · simp [hc, hv, values_append, values_single_same]
    · simp [hc, he, localVisit_values_same]
  | reduce k v rop =>
    simp only [apply, applyK, Op.key]
    rcases contains_cases m k with ⟨hc, hv, he⟩ | ⟨hc, _, he⟩
    · simp [hc, hv, values_append, values_single_same]
    · simp [hc, he, values_modifyFirst_same]
  | erase k => simp [apply, applyK, Op.key, values_eraseKey_same]

/-- … and leaves every other key alone -/
theorem apply_other (u : User K V A) (dflt : V) (m : Assoc K V) (op : Op K V A) (k : K)
    (hk : k ≠ op.key) : values (apply u dflt m op).1 k = values m k := by
  cases op with
  | insert k' v =>
    simp only [apply, Op.key] at hk ⊢
    split
    · exact values_modifyFirst_other _ _ _ _ hk
    · simp [values_append, values_single_other k' k v hk]
  | insertMulti k' v =>
    simp only [apply, Op.key] at hk ⊢
    simp [values_append, values_single_other k' k v hk]
  | insertIfMissing k' v =>
    simp only [apply, Op.key] at hk ⊢
    split
    · rfl
    · simp [values_append, values_single_other k' k v hk]
  | visit k' vis a =>
    simp only [apply, Op.key] at hk ⊢
    rw [localVisit_values_other _ _ _ _ hk, ensure_values_other _ _ _ _ hk]
  | visitGroup k' vis a =>
    simp only [apply, Op.key] at hk ⊢
    rw [assign_values_other _ _ _ _ hk, ensure_values_other _ _ _ _ hk]
  | visitIfExists k' vis a =>
    simp only [apply, Op.key] at hk ⊢
    rw [localVisit_values_other _ _ _ _ hk]
  | elseVisit k' v vis a =>
    simp only [apply, Op.key] at hk ⊢
    split
    · rw [localVisit_values_other _ _ _ _ hk]
    · simp [values_append, values_single_other k' k v hk]
  | reduce k' v rop =>
    simp only [apply, Op.key] at hk ⊢
    split
    · exact values_modifyFirst_other _ _ _ _ hk
    · simp [values_append, values_single_other k' k v hk]
  | erase k' =>
    simp only [apply, Op.key] at hk ⊢
    exact values_eraseKey_other _ _ _ hk

/-- what an operation emits and logs depends on the values of its own key only -/
theorem apply_out (u : User K V A) (dflt : V) (m : Assoc K V) (op : Op K V A) :
    (apply u dflt m op).2 = (applyK u dflt (values m op.key) op).2 := by
  cases op with
  | insert k v => simp only [apply, applyK, Op.key]; split <;> rfl
  | insertMulti k v => rfl
  | insertIfMissing k v => simp only [apply, applyK, Op.key]; split <;> rfl
  | visit k vis a => simp only [apply, applyK, Op.key, localVisit_out, ensure_values_same]
  | visitGroup k vis a => simp only [apply, applyK, Op.key, ensure_values_same]
  | visitIfExists k vis a => simp only [apply, applyK, Op.key, localVisit_out]
  | elseVisit k v vis a =>
    simp only [apply, applyK, Op.key]
    rcases contains_cases m k with ⟨hc, hv, he⟩ | ⟨hc, _, he⟩
    · simp [hc, hv]
    · simp [hc, he, localVisit_out]
  | reduce k v rop => simp only [apply, applyK, Op.key]; split <;> rfl
  | erase k => rfl

omit [DecidableEq K] in
theorem visitVals_cbs_key {O : Type} (g : V → V × List O) (mk : V → Cb K V A) (k : K)
    (hmk : ∀ v, (mk v).key = k) (vs : List V) :
    ∀ cb ∈ (visitVals (fun v => ((g v).1, (g v).2, [mk v])) vs).2.2, cb.key = k := by
  induction vs with
  | nil => intro cb h; simp [visitVals] at h
  | cons v r ih =>
    intro cb h
    simp only [visitVals, List.mem_append, List.mem_singleton] at h
    rcases h with h | h
    · rw [h]; exact hmk v
    · exact ih cb h

omit [DecidableEq K] in
theorem applyK_cb_key (u : User K V A) (dflt : V) (vs : List V) (op : Op K V A)
    (cb : Cb K V A) (h : cb ∈ (applyK u dflt vs op).2.2) : cb.key = op.key := by
  cases op with
  | insert k v => simp [applyK] at h
  | insertMulti k v => simp [applyK] at h
  | insertIfMissing k v => simp [applyK] at h
  | visit k vis a =>
    exact visitVals_cbs_key (fun v => u.visitor vis k v a) (fun v => Cb.single vis k v a) k
      (fun _ => rfl) _ cb h
  | visitGroup k vis a =>
    simp only [applyK, List.mem_singleton] at h
    rw [h]; rfl
  | visitIfExists k vis a =>
    exact visitVals_cbs_key (fun v => u.visitor vis k v a) (fun v => Cb.single vis k v a) k
      (fun _ => rfl) _ cb h
  | elseVisit k v vis a =>
    simp only [applyK] at h
    split at h
    · simp at h
    · exact visitVals_cbs_key (fun old => u.visitor2 vis k old v a)
        (fun old => Cb.offered vis k old v a) k (fun _ => rfl) _ cb h
  | reduce k v rop => simp [applyK] at h
  | erase k => simp [applyK] at h

/-- `MapOps` is a keyed container in the sense of `Dist`: the part of the state that belongs to
a key is the list of its values -/
def keyed (u : User K V A) (dflt : V) :
    Dist.Keyed (Assoc K V) (Op K V A) (Cb K V A) K (List V) where
  apply := apply u dflt
  key := Op.key
  cbKey := Cb.key
  proj := values
  applyK := applyK u dflt
  proj_same := apply_same u dflt
  proj_other := fun s op k hk => apply_other u dflt s op k hk
  out_local := apply_out u dflt
  cb_key := applyK_cb_key u dflt

theorem keyed_container (u : User K V A) (dflt : V) :
    (keyed u dflt).toContainer = container u dflt := rfl

/-! counting / size helpers -/

theorem visitVals_length {O C : Type} (f : V → V × List O × List C) (vs : List V) :
    (visitVals f vs).1.length = vs.length := by
  induction vs with
  | nil => rfl
  | cons v r ih => simp [visitVals, ih]

omit [DecidableEq K] in
theorem visitVals_cbs {O : Type} (g : V → V × List O) (mk : V → Cb K V A) (vs : List V) :
    (visitVals (fun v => ((g v).1, (g v).2, [mk v])) vs).2.2 = vs.map mk := by
  induction vs with
  | nil => rfl
  | cons v r ih => simp [visitVals, ih]

theorem visitVals_vals {O C : Type} (f : V → V × List O × List C) (vs : List V) :
    (visitVals f vs).1 = vs.map (fun v => (f v).1) := by
  induction vs with
  | nil => rfl
  | cons v r ih => simp [visitVals, ih]

theorem assignVals_length (nv vs : List V) : (assignVals nv vs).length = vs.length := by
  induction vs generalizing nv with
  | nil => cases nv <;> rfl
  | cons v r ih => cases nv <;> simp [assignVals, ih]

end YgmVerif.MapOps
