import YgmVerif.Model.ArrayOps
import YgmVerif.Props.C10
/-! Helper lemmas for the array model (`ArrayOps`). -/
namespace YgmVerif.ArrayOps
open YgmVerif.Part

variable {α : Type}

/-- inversion of a successful `apply` -/
theorem apply_inv {a a' : Arr α} {m : Msg α} (h : apply a m = some a') :
    m.idx < a.len ∧ ∃ d vec, owner a.len a.ranks m.idx = some d ∧ a.vecs[d]? = some vec ∧
      start a.len a.ranks d ≤ m.idx ∧ localIndex a.len a.ranks d m.idx ≤ small a.len a.ranks ∧
      localIndex a.len a.ranks d m.idx < vec.length ∧
      a' = { a with vecs := a.vecs.set d (vec.modify (localIndex a.len a.ranks d m.idx) (m.f m.idx)) } := by
  unfold apply at h
  split at h
  case isFalse => simp at h
  case isTrue hlt =>
  split at h
  case h_1 => simp at h
  case h_2 d hd =>
  split at h
  case h_1 => simp at h
  case h_2 vec hvec =>
  unfold deliver at h
  split at h
  case isFalse => simp at h
  case isTrue hc =>
  simp only [Option.map_some, Option.some.injEq] at h
  exact ⟨hlt, d, vec, hd, hvec, hc.1, hc.2.1, hc.2.2, h.symm⟩

/-- what a successful `apply` did, slot by slot -/
theorem apply_slots {a a' : Arr α} {m : Msg α} (h : apply a m = some a') :
    m.idx < a.len ∧ a'.len = a.len ∧ a'.ranks = a.ranks ∧ a'.dv = a.dv ∧
    ∃ d, owner a.len a.ranks m.idx = some d ∧ start a.len a.ranks d ≤ m.idx ∧
      (∃ v, slot a d (localIndex a.len a.ranks d m.idx) = some v) ∧
      ∀ r l, slot a' r l =
        if r = d ∧ l = localIndex a.len a.ranks d m.idx then (slot a r l).map (m.f m.idx) else slot a r l := by
  obtain ⟨hlt, d, vec, hd, hvec, hc1, hc2, hc3, rfl⟩ := apply_inv h
  refine ⟨hlt, rfl, rfl, rfl, d, hd, hc1, ?_, ?_⟩
  · exact ⟨vec[localIndex a.len a.ranks d m.idx], by simp [slot, hvec, List.getElem?_eq_getElem hc3]⟩
  · intro r l
    have hdl : d < a.vecs.length := (List.getElem?_eq_some_iff.mp hvec).1
    simp only [slot, List.getElem?_set]
    by_cases hr : r = d
    · subst hr
      simp only [hdl, if_true, true_and, hvec, Option.bind_some, List.getElem?_modify]
      by_cases hl : l = localIndex a.len a.ranks r m.idx
      · subst hl; simp
      · have : ¬ (localIndex a.len a.ranks r m.idx = l) := fun h => hl h.symm
        simp [hl, this]
    · have : ¬ (d = r) := fun h => hr h.symm
      simp [hr, this]

theorem apply_wf {a a' : Arr α} {m : Msg α} (hw : WF a) (h : apply a m = some a') : WF a' := by
  obtain ⟨hlt, d, vec, hd, hvec, hc1, hc2, hc3, rfl⟩ := apply_inv h
  refine ⟨by simpa using hw.1, ?_⟩
  intro r hr
  have hdl : d < a.vecs.length := (List.getElem?_eq_some_iff.mp hvec).1
  have := hw.2 r hr
  simp only [List.getElem?_set]
  by_cases hrd : d = r
  · subst hrd
    simp only [hdl, if_true, Option.map_some, List.length_modify]
    simpa [hvec] using this
  · simpa [hrd] using this

/-- on a well-formed array no trap and no assertion is possible for a legal index -/
theorem apply_some_of_wf {a : Arr α} (m : Msg α) (hw : WF a) (hr : 0 < a.ranks) (hi : m.idx < a.len) :
    ∃ a', apply a m = some a' := by
  obtain ⟨d, hd, hdr, h1, h2⟩ := owner_spec a.len a.ranks m.idx hr hi
  have hlen := hw.2 d hdr
  have hdl : d < a.vecs.length := by rw [hw.1]; exact hdr
  have hvec : a.vecs[d]? = some a.vecs[d] := List.getElem?_eq_getElem hdl
  rw [hvec] at hlen
  simp only [Option.map_some, Option.some.injEq] at hlen
  unfold apply
  simp only [hi, if_true, hd, hvec]
  unfold deliver
  have hsz : localSize a.len a.ranks d ≤ small a.len a.ranks + 1 := by
    unfold localSize; split <;> omega
  have hc : start a.len a.ranks d ≤ m.idx ∧ localIndex a.len a.ranks d m.idx ≤ small a.len a.ranks ∧
      localIndex a.len a.ranks d m.idx < a.vecs[d].length := by
    unfold localIndex; rw [hlen]; omega
  simp [hc]

/-- two legal indices with the same owner and the same local index are equal -/
theorem slot_injective {len ranks i j d : Nat} (hi : start len ranks d ≤ i) (hj : start len ranks d ≤ j)
    (h : localIndex len ranks d i = localIndex len ranks d j) : i = j := by
  unfold localIndex at h; omega

/-- the blocks, concatenated in rank order, are `0, 1, …, start k - 1` -/
theorem flatMap_indicesOf (len ranks k : Nat) :
    (List.range k).flatMap (indicesOf len ranks) = List.range (start len ranks k) := by
  induction k with
  | zero => simp [start_zero]
  | succ k ih =>
    rw [List.range_succ, List.flatMap_append, ih, start_succ, List.range_add]
    simp [indicesOf, globalIndex]

theorem flatMap_congr' {β γ : Type} {f g : β → List γ} {l : List β} (h : ∀ x ∈ l, f x = g x) :
    l.flatMap f = l.flatMap g := by
  induction l with
  | nil => rfl
  | cons x xs ih =>
    simp only [List.flatMap_cons]
    rw [h x (by simp), ih (fun y hy => h y (by simp [hy]))]

theorem foldlM_option_append {β γ : Type} (f : β → γ → Option β) (b : β) (l1 l2 : List γ) :
    (l1 ++ l2).foldlM f b = (l1.foldlM f b).bind (fun b' => l2.foldlM f b') := by
  simp [List.foldlM_append]

end YgmVerif.ArrayOps
