import YgmVerif.Model.Cache
/-! Helper lemmas for `YgmVerif.Cache`: the sparse slot array, the `Option` monoid
`omerge`, the effect of every transition on what a rank holds for a key. -/
namespace YgmVerif.Cache

/-! ### slot array -/

theorem CMap.get_clear_self {V} (c : CMap V) (s : Nat) : (c.clear s).get s = none := by
  induction c with
  | nil => rfl
  | cons p c ih =>
    obtain ⟨t, e⟩ := p
    by_cases h : t = s
    · simp [CMap.clear, List.filter, h] at ih ⊢; exact ih
    · simp [CMap.clear, List.filter, h, CMap.get] at ih ⊢; exact ih

theorem CMap.get_clear_ne {V} (c : CMap V) {s t : Nat} (h : t ≠ s) : (c.clear s).get t = c.get t := by
  induction c with
  | nil => rfl
  | cons p c ih =>
    obtain ⟨u, e⟩ := p
    by_cases hu : u = s
    · have : u ≠ t := by omega
      simp [CMap.clear, List.filter, hu, CMap.get] at ih ⊢
      rw [ih]; simp [show ¬ s = t by omega]
    · simp [CMap.clear, List.filter, hu, CMap.get] at ih ⊢
      rw [ih]

theorem CMap.get_set_self {V} (c : CMap V) (s : Nat) (e : Key × V) : (c.set s e).get s = some e := by
  simp [CMap.set, CMap.get]

theorem CMap.get_set_ne {V} (c : CMap V) {s t : Nat} (e : Key × V) (h : t ≠ s) :
    (c.set s e).get t = c.get t := by
  simp [CMap.set, CMap.get, show ¬ s = t by omega, CMap.get_clear_ne c h]

/-- clearing a free slot changes nothing observable -/
theorem CMap.get_clear_of_none {V} (c : CMap V) {s : Nat} (h : c.get s = none) (t : Nat) :
    (c.clear s).get t = c.get t := by
  by_cases ht : t = s
  · subst ht; rw [CMap.get_clear_self, h]
  · exact CMap.get_clear_ne c ht

theorem nextOcc_none {V} (c : CMap V) (i n : Nat) (h : nextOcc c i n = none) :
    ∀ t, i ≤ t → t < n → CMap.get c t = none := by
  induction c with
  | nil => intros; rfl
  | cons q c ih =>
    obtain ⟨w, e2⟩ := q
    simp only [nextOcc] at h
    by_cases hw : i ≤ w ∧ w < n
    · rw [if_pos hw] at h; cases h3 : nextOcc c i n <;> rw [h3] at h <;> simp at h
    · rw [if_neg hw] at h
      intro t h1 h2
      have : ¬ w = t := by omega
      simp only [CMap.get, this, if_false]
      exact ih h t h1 h2

theorem nextOcc_some {V} (c : CMap V) (i n s : Nat) (h : nextOcc c i n = some s) :
    i ≤ s ∧ s < n ∧ (∃ e, c.get s = some e) ∧ ∀ t, i ≤ t → t < s → c.get t = none := by
  induction c generalizing s with
  | nil => simp [nextOcc] at h
  | cons p c ih =>
    obtain ⟨u, e⟩ := p
    simp only [nextOcc] at h
    by_cases hu : i ≤ u ∧ u < n
    · rw [if_pos hu] at h
      cases hr : nextOcc c i n with
      | none =>
        rw [hr] at h; simp at h; subst h
        refine ⟨hu.1, hu.2, ⟨e, by simp [CMap.get]⟩, ?_⟩
        intro t h1 h2
        have hne : ¬ u = t := by omega
        simp only [CMap.get, hne, if_false]
        have := nextOcc_none c i n hr
        exact this t h1 (by omega)
      | some b =>
        rw [hr] at h; simp at h
        obtain ⟨hb1, hb2, ⟨eb, hb3⟩, hb4⟩ := ih b hr
        by_cases hbu : b ≤ u
        · have : s = b := by omega
          subst this
          refine ⟨hb1, hb2, ?_, ?_⟩
          · by_cases hub : u = s
            · exact ⟨e, by simp [CMap.get, hub]⟩
            · exact ⟨eb, by simp [CMap.get, hub, hb3]⟩
          · intro t h1 h2
            have : ¬ u = t := by omega
            simp only [CMap.get, this, if_false]; exact hb4 t h1 h2
        · have : s = u := by omega
          subst this
          refine ⟨hu.1, hu.2, ⟨e, by simp [CMap.get]⟩, ?_⟩
          intro t h1 h2
          have : ¬ s = t := by omega
          simp only [CMap.get, this, if_false]; exact hb4 t h1 (by omega)
    · rw [if_neg hu] at h
      obtain ⟨h1, h2, ⟨eb, h3⟩, h4⟩ := ih s h
      refine ⟨h1, h2, ?_, ?_⟩
      · have : ¬ u = s := by omega
        exact ⟨eb, by simp [CMap.get, this, h3]⟩
      · intro t ht1 ht2
        have : ¬ u = t := by omega
        simp only [CMap.get, this, if_false]; exact h4 t ht1 ht2


/-! ### the `Option` monoid -/

section Monoid
universe u
variable {V : Type u} (op : V → V → V)

@[simp] theorem omerge_none_left (x : Option V) : omerge op none x = x := by cases x <;> rfl
@[simp] theorem omerge_none_right (x : Option V) : omerge op x none = x := by cases x <;> rfl
@[simp] theorem omerge_some_some (a b : V) : omerge op (some a) (some b) = some (op a b) := rfl

theorem omerge_comm [Std.Commutative op] (x y : Option V) : omerge op x y = omerge op y x := by
  cases x <;> cases y <;> simp
  exact Std.Commutative.comm _ _

theorem omerge_assoc [Std.Associative op] (x y z : Option V) :
    omerge op (omerge op x y) z = omerge op x (omerge op y z) := by
  cases x <;> cases y <;> cases z <;> simp
  exact Std.Associative.assoc _ _ _

instance [Std.Associative op] : Std.Associative (omerge op) := ⟨omerge_assoc op⟩
instance [Std.Commutative op] : Std.Commutative (omerge op) := ⟨omerge_comm op⟩

@[simp] theorem total_nil : total op ([] : List V) = none := rfl
@[simp] theorem total_cons (a : V) (l : List V) : total op (a :: l) = omerge op (some a) (total op l) := rfl

theorem total_append [Std.Associative op] (l₁ l₂ : List V) :
    total op (l₁ ++ l₂) = omerge op (total op l₁) (total op l₂) := by
  induction l₁ with
  | nil => simp
  | cons a l ih => simp [ih, omerge_assoc]

theorem total_perm [Std.Associative op] [Std.Commutative op] {l₁ l₂ : List V} (h : l₁.Perm l₂) :
    total op l₁ = total op l₂ := by
  induction h with
  | nil => rfl
  | cons a _ ih => simp [ih]
  | swap a b l => simp only [total_cons]; ac_rfl
  | trans _ _ ih₁ ih₂ => exact ih₁.trans ih₂

theorem total_eq_none {l : List V} (h : total op l = none) : l = [] := by
  cases l with
  | nil => rfl
  | cons a l => cases ht : total op l <;> simp [ht] at h

@[simp] theorem ototal_nil : ototal op ([] : List (Option V)) = none := rfl
@[simp] theorem ototal_cons (a : Option V) (l : List (Option V)) :
    ototal op (a :: l) = omerge op a (ototal op l) := rfl

end Monoid

@[simp] theorem valsOf_nil {V} (k : Key) : valsOf k ([] : List (Key × V)) = [] := rfl
theorem valsOf_cons {V} (k k' : Key) (v : V) (l : List (Key × V)) :
    valsOf k ((k', v) :: l) = if k' = k then v :: valsOf k l else valsOf k l := by
  by_cases h : k' = k <;> simp [valsOf, List.filter, h]
theorem valsOf_append {V} (k : Key) (l₁ l₂ : List (Key × V)) :
    valsOf k (l₁ ++ l₂) = valsOf k l₁ ++ valsOf k l₂ := by
  simp [valsOf]
theorem valsOf_perm {V} (k : Key) {l₁ l₂ : List (Key × V)} (h : l₁.Perm l₂) :
    (valsOf k l₁).Perm (valsOf k l₂) := (h.filter _).map _

@[simp] theorem msgValsOf_nil {V} (k : Key) : msgValsOf k ([] : List (Msg V)) = [] := rfl
theorem msgValsOf_cons {V} (k : Key) (m : Msg V) (l : List (Msg V)) :
    msgValsOf k (m :: l) = if m.key = k then m.val :: msgValsOf k l else msgValsOf k l := by
  by_cases h : m.key = k <;> simp [msgValsOf, List.filter, h]
theorem msgValsOf_append {V} (k : Key) (l₁ l₂ : List (Msg V)) :
    msgValsOf k (l₁ ++ l₂) = msgValsOf k l₁ ++ msgValsOf k l₂ := by
  simp [msgValsOf]

/-- `if c then some v else none` as a value held for `k` -/
def onKey {V} (k k' : Key) (v : V) : Option V := if k' = k then some v else none

theorem total_valsOf_cons {V} (op : V → V → V) (k k' : Key) (v : V) (l : List (Key × V)) :
    total op (valsOf k ((k', v) :: l)) = omerge op (onKey k k' v) (total op (valsOf k l)) := by
  rw [valsOf_cons]; unfold onKey; by_cases h : k' = k <;> simp [h]

theorem total_msgValsOf_cons {V} (op : V → V → V) (k : Key) (m : Msg V) (l : List (Msg V)) :
    total op (msgValsOf k (m :: l)) = omerge op (onKey k m.key m.val) (total op (msgValsOf k l)) := by
  rw [msgValsOf_cons]; unfold onKey; by_cases h : m.key = k <;> simp [h]

/-! ### well-formed slot array: an entry sits in the slot of its key -/

def WF {V} (n : Nat) (c : CMap V) : Prop := ∀ t k v, c.get t = some (k, v) → k % n = t

theorem WF.nil {V} (n : Nat) : WF n ([] : CMap V) := by intro t k v h; simp [CMap.get] at h

theorem WF.clear {V} {n : Nat} {c : CMap V} (h : WF n c) (s : Nat) : WF n (c.clear s) := by
  intro t k v ht
  by_cases hts : t = s
  · subst hts; rw [CMap.get_clear_self] at ht; cases ht
  · rw [CMap.get_clear_ne c hts] at ht; exact h t k v ht

theorem WF.set {V} {n : Nat} {c : CMap V} (h : WF n c) (k : Key) (w : V) : WF n (c.set (k % n) (k, w)) := by
  intro t k' v ht
  by_cases hts : t = k % n
  · subst hts; rw [CMap.get_set_self] at ht; cases ht; rfl
  · rw [CMap.get_set_ne c _ hts] at ht; exact h t k' v ht

theorem cachedOf_set_eq {V} (n : Nat) (c : CMap V) (s k key : Nat) (w : V) (h : key % n = s) :
    cachedOf n (c.set s (k, w)) key = onKey key k w := by
  unfold cachedOf onKey; rw [h, CMap.get_set_self]

theorem cachedOf_set_ne {V} (n : Nat) (c : CMap V) (s key : Nat) (e : Key × V) (h : key % n ≠ s) :
    cachedOf n (c.set s e) key = cachedOf n c key := by
  unfold cachedOf; rw [CMap.get_set_ne c e h]

theorem cachedOf_clear_eq {V} (n : Nat) (c : CMap V) (s key : Nat) (h : key % n = s) :
    cachedOf n (c.clear s) key = none := by
  unfold cachedOf; rw [h, CMap.get_clear_self]

theorem cachedOf_clear_ne {V} (n : Nat) (c : CMap V) (s key : Nat) (h : key % n ≠ s) :
    cachedOf n (c.clear s) key = cachedOf n c key := by
  unfold cachedOf; rw [CMap.get_clear_ne c h]

theorem cachedOf_of_get {V} (n : Nat) (c : CMap V) (key k : Nat) (v : V) (h : c.get (key % n) = some (k, v)) :
    cachedOf n c key = onKey key k v := by
  unfold cachedOf onKey; rw [h]

theorem cachedOf_of_none {V} (n : Nat) (c : CMap V) (key : Nat) (h : c.get (key % n) = none) :
    cachedOf n c key = none := by
  unfold cachedOf; rw [h]

theorem onKey_ne {V} {k k' : Key} (v : V) (h : k' ≠ k) : onKey k k' v = none := by simp [onKey, h]
theorem onKey_self {V} (k : Key) (v : V) : onKey k k v = some v := by simp [onKey]


/-! ### effect of the loop heads on what is held for a key -/

section Held
variable {V : Type} (cfg : Cfg V)

theorem enter_held [Std.Associative cfg.op] [Std.Commutative cfg.op] (c : CMap V) (k : Key) (w : V) (key : Key) :
    omerge cfg.op (cachedOf cfg.nslots (enter cfg c k w).1 key) (frameHeld cfg.op key (enter cfg c k w).2)
      = omerge cfg.op (cachedOf cfg.nslots (c.clear (slot cfg k)) key) (onKey key k w) := by
  unfold enter
  by_cases hf : cfg.full w = true
  · simp [hf, frameHeld, phaseHeld, onKey]
  · rw [if_neg hf]
    by_cases hs : key % cfg.nslots = slot cfg k
    · rw [cachedOf_set_eq _ _ _ _ _ _ hs, cachedOf_clear_eq _ _ _ _ hs]; simp [frameHeld, phaseHeld]
    · rw [cachedOf_set_ne _ _ _ _ _ hs, cachedOf_clear_ne _ _ _ _ hs]
      have : k ≠ key := by intro h; subst h; exact hs rfl
      simp [frameHeld, phaseHeld, onKey_ne _ this]

theorem enter_wf (c : CMap V) (k : Key) (w : V) (h : WF cfg.nslots c) : WF cfg.nslots (enter cfg c k w).1 := by
  unfold enter
  by_cases hf : cfg.full w = true
  · simp only [hf, if_true]; exact h.clear _
  · rw [if_neg hf]; exact h.set k w

theorem insLoop_held [Std.Associative cfg.op] [Std.Commutative cfg.op] (c : CMap V) (hwf : WF cfg.nslots c) (k : Key) (v : V) (key : Key) :
    omerge cfg.op (cachedOf cfg.nslots (insLoop cfg c k v).1 key) (frameHeld cfg.op key (insLoop cfg c k v).2)
      = omerge cfg.op (cachedOf cfg.nslots c key) (onKey key k v) := by
  unfold insLoop
  cases hg : c.get (slot cfg k) with
  | none =>
    simp only []
    rw [enter_held]
    congr 1
    unfold cachedOf; rw [CMap.get_clear_of_none c hg]
  | some e =>
    obtain ⟨k', v'⟩ := e
    simp only []
    by_cases hk : k' = k
    · subst hk
      simp only [if_true]
      rw [enter_held]
      by_cases hs : key % cfg.nslots = slot cfg k'
      · rw [cachedOf_clear_eq _ _ _ _ hs, cachedOf_of_get _ _ _ _ _ (hs ▸ hg)]
        unfold onKey; by_cases hkk : k' = key <;> simp [hkk]
      · rw [cachedOf_clear_ne _ _ _ _ hs]
        have : k' ≠ key := by intro h; subst h; exact hs rfl
        simp [onKey_ne _ this]
    · simp only [hk, if_false]
      by_cases hs : key % cfg.nslots = slot cfg k
      · rw [cachedOf_clear_eq _ _ _ _ hs, cachedOf_of_get _ _ _ _ _ (hs ▸ hg)]
        simp only [frameHeld, phaseHeld, omerge_none_left]
        show omerge cfg.op (onKey key k v) (onKey key k' v') = _
        exact omerge_comm _ _ _
      · rw [cachedOf_clear_ne _ _ _ _ hs]
        have h1 : k ≠ key := by intro h; subst h; exact hs rfl
        have h2 : k' ≠ key := by
          intro h; subst h
          exact hs (hwf _ _ _ hg)
        simp only [frameHeld, phaseHeld]
        show omerge cfg.op _ (omerge cfg.op (onKey key k v) (onKey key k' v')) = _
        simp [onKey_ne _ h1, onKey_ne _ h2]

theorem insLoop_wf (c : CMap V) (k : Key) (v : V) (h : WF cfg.nslots c) : WF cfg.nslots (insLoop cfg c k v).1 := by
  unfold insLoop
  cases hg : c.get (slot cfg k) with
  | none => exact enter_wf cfg c k v h
  | some e =>
    obtain ⟨k', v'⟩ := e
    simp only []
    by_cases hk : k' = k
    · simp only [hk, if_true]; exact enter_wf cfg c k _ h
    · simp only [hk, if_false]; exact h.clear _

theorem fallLoop_held [Std.Associative cfg.op] [Std.Commutative cfg.op] (c : CMap V) (hwf : WF cfg.nslots c) (i : Nat) (key : Key) :
    omerge cfg.op (cachedOf cfg.nslots (fallLoop cfg c i).1 key) (frameHeld cfg.op key (fallLoop cfg c i).2)
      = cachedOf cfg.nslots c key := by
  unfold fallLoop
  cases hn : nextOcc c i cfg.nslots with
  | none => simp [frameHeld, phaseHeld]
  | some j =>
    simp only []
    cases hg : c.get j with
    | none => simp [frameHeld, phaseHeld]
    | some e =>
      obtain ⟨k, v⟩ := e
      simp only []
      have hkj : k % cfg.nslots = j := hwf _ _ _ hg
      by_cases hs : key % cfg.nslots = j
      · rw [cachedOf_clear_eq _ _ _ _ hs, cachedOf_of_get _ _ _ _ _ (hs ▸ hg)]
        simp [frameHeld, phaseHeld, onKey]
      · rw [cachedOf_clear_ne _ _ _ _ hs]
        have : k ≠ key := by intro h; subst h; exact hs hkj
        simp [frameHeld, phaseHeld, this]

theorem fallLoop_wf (c : CMap V) (i : Nat) (h : WF cfg.nslots c) : WF cfg.nslots (fallLoop cfg c i).1 := by
  unfold fallLoop
  cases hn : nextOcc c i cfg.nslots with
  | none => exact h
  | some j =>
    simp only []
    cases hg : c.get j with
    | none => exact h
    | some e => obtain ⟨k, v⟩ := e; exact h.clear _

end Held


/-! ### effect of one transition -/

/-- what a label hands to the rank for key `k` -/
def recvOf {V} (k : Key) : Label V → Option V
  | .ins k' v => onKey k k' v
  | _ => none

/-- what a label takes away from the rank for key `k` (the packed message) -/
def emitOf {V} (k : Key) (s : St V) : Label V → Option V
  | .pack => match pending s with
    | some m => onKey k m.key m.val
    | none => none
  | _ => none

section Step
variable {V : Type} (cfg : Cfg V)

theorem held_mk (c : CMap V) (r : Bool) (st : List (Frame V)) (key : Key) :
    held cfg { cache := c, reg := r, stack := st } key
      = omerge cfg.op (cachedOf cfg.nslots c key) (stackHeld cfg.op key st) := rfl

theorem frameHeld_setPhase_sent [Std.Associative cfg.op] [Std.Commutative cfg.op] (f : Frame V) (m : Msg V) (key : Key) (h : f.phase = .pend m) :
    omerge cfg.op (frameHeld cfg.op key (f.setPhase .sent)) (onKey key m.key m.val) = frameHeld cfg.op key f := by
  cases f with
  | ins k v ph => simp only [Frame.phase] at h; subst h; simp [Frame.setPhase, frameHeld, phaseHeld, onKey]
  | tail ph => simp only [Frame.phase] at h; subst h; simp [Frame.setPhase, frameHeld, phaseHeld, onKey]
  | fall i ph => simp only [Frame.phase] at h; subst h; simp [Frame.setPhase, frameHeld, phaseHeld, onKey]

theorem frameHeld_ins_sent (k : Key) (v : V) (key : Key) :
    frameHeld cfg.op key (.ins k v .sent) = onKey key k v := by simp [frameHeld, phaseHeld, onKey]
theorem frameHeld_tail_sent (key : Key) : frameHeld cfg.op key (.tail .sent : Frame V) = none := rfl
theorem frameHeld_tail_fin (key : Key) : frameHeld cfg.op key (.tail .fin : Frame V) = none := rfl
theorem frameHeld_fall_sent (i : Nat) (key : Key) : frameHeld cfg.op key (.fall i .sent : Frame V) = none := rfl
theorem frameHeld_fall_fin (i : Nat) (key : Key) : frameHeld cfg.op key (.fall i .fin : Frame V) = none := rfl

/-- every transition conserves, per key: held after ⊕ packed = held before ⊕ received -/
theorem step_held [Std.Associative cfg.op] [Std.Commutative cfg.op] (s s' : St V) (l : Label V) (hwf : WF cfg.nslots s.cache)
    (h : step cfg s l = some s') (key : Key) :
    omerge cfg.op (held cfg s' key) (emitOf key s l) = omerge cfg.op (held cfg s key) (recvOf key l) := by
  obtain ⟨c, r, st⟩ := s
  cases l with
  | ins k v =>
    simp only [step] at h
    split at h
    · split at h
      · cases h
        simp only [held_mk, stackHeld, frameHeld, phaseHeld, emitOf, recvOf, omerge_none_right]
        show omerge cfg.op _ (omerge cfg.op (onKey key k v) _) = _
        ac_rfl
      · have hh := insLoop_held cfg c hwf k v key
        rcases hp : insLoop cfg c k v with ⟨c', f⟩
        rw [hp] at hh h
        cases h
        simp only [held_mk, stackHeld, emitOf, recvOf, omerge_none_right]
        simp only at hh
        rw [← omerge_assoc, hh]
        ac_rfl
    · cases h
  | pack =>
    simp only [step] at h
    cases st with
    | nil => simp at h
    | cons f rest =>
      simp only at h
      cases hph : f.phase with
      | pend m =>
        rw [hph] at h; cases h
        simp only [held_mk, stackHeld, emitOf, recvOf, pending, hph, omerge_none_right]
        rw [← frameHeld_setPhase_sent cfg f m key hph]
        ac_rfl
      | sent => rw [hph] at h; cases h
      | fin => rw [hph] at h; cases h
  | ret =>
    simp only [step] at h
    split at h
    · rename_i k v rest
      have hh := insLoop_held cfg c hwf k v key
      rcases hp : insLoop cfg c k v with ⟨c', f⟩
      rw [hp] at hh h
      cases h
      simp only [held_mk, stackHeld, emitOf, recvOf, omerge_none_right, frameHeld_ins_sent]
      simp only at hh
      rw [← omerge_assoc, hh]
      ac_rfl
    · cases h
      simp only [held_mk, stackHeld, emitOf, recvOf, omerge_none_right, frameHeld_tail_sent, frameHeld_tail_fin]
    · rename_i i rest
      have hh := fallLoop_held cfg c hwf i key
      rcases hp : fallLoop cfg c i with ⟨c', f⟩
      rw [hp] at hh h
      cases h
      simp only [held_mk, stackHeld, emitOf, recvOf, omerge_none_right, frameHeld_fall_sent, omerge_none_left]
      simp only at hh
      rw [← omerge_assoc, hh]
    · cases h
  | done =>
    simp only [step] at h
    split at h
    · cases h
      simp only [held_mk, stackHeld, emitOf, recvOf, omerge_none_right, frameHeld, phaseHeld, omerge_none_left]
    · cases h
  | fb =>
    simp only [step] at h
    split at h
    · rename_i hc
      have hst : st = [] := by
        cases st with
        | nil => rfl
        | cons a b => simp at hc
      subst hst
      have hh := fallLoop_held cfg c hwf 0 key
      rcases hp : fallLoop cfg c 0 with ⟨c', f⟩
      rw [hp] at hh h
      cases h
      simp only [held_mk, stackHeld, emitOf, recvOf, omerge_none_right]
      simp only at hh
      exact hh
    · cases h
  | fe =>
    simp only [step] at h
    split at h
    · cases h
      simp only [held_mk, stackHeld, emitOf, recvOf, omerge_none_right, frameHeld, phaseHeld, omerge_none_left]
    · cases h
  | bar =>
    simp only [step] at h
    split at h
    · cases h; simp only [emitOf, recvOf]
    · cases h

theorem step_wf (s s' : St V) (l : Label V) (hwf : WF cfg.nslots s.cache)
    (h : step cfg s l = some s') : WF cfg.nslots s'.cache := by
  obtain ⟨c, r, st⟩ := s
  cases l with
  | ins k v =>
    simp only [step] at h
    split at h
    · split at h
      · cases h; exact hwf
      · have hh := insLoop_wf cfg c k v hwf
        rcases hp : insLoop cfg c k v with ⟨c', f⟩
        rw [hp] at hh h
        cases h; exact hh
    · cases h
  | pack =>
    simp only [step] at h
    cases st with
    | nil => simp at h
    | cons f rest =>
      simp only at h
      cases hph : f.phase <;> rw [hph] at h <;> cases h
      exact hwf
  | ret =>
    simp only [step] at h
    split at h
    · rename_i k v rest
      have hh := insLoop_wf cfg c k v hwf
      rcases hp : insLoop cfg c k v with ⟨c', f⟩
      rw [hp] at hh h
      cases h; exact hh
    · cases h; exact hwf
    · rename_i i rest
      have hh := fallLoop_wf cfg c i hwf
      rcases hp : fallLoop cfg c i with ⟨c', f⟩
      rw [hp] at hh h
      cases h; exact hh
    · cases h
  | done =>
    simp only [step] at h
    split at h
    · cases h; exact hwf
    · cases h
  | fb =>
    simp only [step] at h
    split at h
    · have hh := fallLoop_wf cfg c 0 hwf
      rcases hp : fallLoop cfg c 0 with ⟨c', f⟩
      rw [hp] at hh h
      cases h; exact hh
    · cases h
  | fe =>
    simp only [step] at h
    split at h
    · cases h; exact hwf
    · cases h
  | bar =>
    simp only [step] at h
    split at h
    · cases h; exact hwf
    · cases h

end Step


/-! ### runs -/

section Run
variable {V : Type} (cfg : Cfg V)

theorem run_cons (s : St V) (l : Label V) (ls : List (Label V)) (s' : St V)
    (h : run cfg s (l :: ls) = some s') : ∃ s₁, step cfg s l = some s₁ ∧ run cfg s₁ ls = some s' := by
  simp only [run] at h
  cases hs : step cfg s l with
  | none => rw [hs] at h; cases h
  | some s₁ => rw [hs] at h; exact ⟨s₁, rfl, h⟩

theorem run_append (s : St V) (l₁ l₂ : List (Label V)) :
    run cfg s (l₁ ++ l₂) = (run cfg s l₁).bind (fun s₁ => run cfg s₁ l₂) := by
  induction l₁ generalizing s with
  | nil => rfl
  | cons l ls ih =>
    simp only [List.cons_append, run]
    cases step cfg s l with
    | none => rfl
    | some s₁ => exact ih s₁

theorem run_wf (s s' : St V) (ls : List (Label V)) (hwf : WF cfg.nslots s.cache)
    (h : run cfg s ls = some s') : WF cfg.nslots s'.cache := by
  induction ls generalizing s with
  | nil => simp only [run] at h; cases h; exact hwf
  | cons l ls ih =>
    obtain ⟨s₁, h1, h2⟩ := run_cons cfg s l ls s' h
    exact ih s₁ (step_wf cfg s s₁ l hwf h1) h2

theorem emitted_cons_total [Std.Associative cfg.op] [Std.Commutative cfg.op] (s s₁ : St V) (l : Label V) (ls : List (Label V)) (h : step cfg s l = some s₁) (key : Key) :
    total cfg.op (msgValsOf key (emitted cfg s (l :: ls)))
      = omerge cfg.op (emitOf key s l) (total cfg.op (msgValsOf key (emitted cfg s₁ ls))) := by
  simp only [emitted, h]
  cases l <;> simp only [emitOf, omerge_none_left]
  cases hp : pending s with
  | none => simp
  | some m => simp only [total_msgValsOf_cons]

theorem received_cons_total [Std.Associative cfg.op] [Std.Commutative cfg.op] (l : Label V) (ls : List (Label V)) (key : Key) :
    total cfg.op (valsOf key (received (l :: ls)))
      = omerge cfg.op (recvOf key l) (total cfg.op (valsOf key (received ls))) := by
  cases l <;> simp only [received, recvOf, omerge_none_left]
  exact total_valsOf_cons _ _ _ _ _

/-- ledger along a run: held at the end ⊕ everything packed = held at the start ⊕ everything received -/
theorem run_ledger [Std.Associative cfg.op] [Std.Commutative cfg.op] (s s' : St V) (ls : List (Label V)) (hwf : WF cfg.nslots s.cache)
    (h : run cfg s ls = some s') (key : Key) :
    omerge cfg.op (held cfg s' key) (total cfg.op (msgValsOf key (emitted cfg s ls)))
      = omerge cfg.op (held cfg s key) (total cfg.op (valsOf key (received ls))) := by
  induction ls generalizing s with
  | nil => simp only [run] at h; cases h; simp [emitted, received]
  | cons l ls ih =>
    obtain ⟨s₁, h1, h2⟩ := run_cons cfg s l ls s' h
    have ih' := ih s₁ (step_wf cfg s s₁ l hwf h1) h2
    have hs := step_held cfg s s₁ l hwf h1 key
    rw [emitted_cons_total cfg s s₁ l ls h1, received_cons_total]
    calc omerge cfg.op (held cfg s' key) (omerge cfg.op (emitOf key s l) (total cfg.op (msgValsOf key (emitted cfg s₁ ls))))
        = omerge cfg.op (omerge cfg.op (held cfg s' key) (total cfg.op (msgValsOf key (emitted cfg s₁ ls)))) (emitOf key s l) := by ac_rfl
      _ = omerge cfg.op (omerge cfg.op (held cfg s₁ key) (emitOf key s l)) (total cfg.op (valsOf key (received ls))) := by rw [ih']; ac_rfl
      _ = omerge cfg.op (held cfg s key) (omerge cfg.op (recvOf key l) (total cfg.op (valsOf key (received ls)))) := by rw [hs]; ac_rfl

theorem held_init (key : Key) : held cfg (St.init : St V) key = none := rfl

theorem held_quiet (s : St V) (h : quiet s) (key : Key) : held cfg s key = none := by
  obtain ⟨h1, h2⟩ := h
  unfold held cachedOf; rw [h1, h2]; rfl

end Run

/-! ### the flag invariant: nothing cached without a registered callback -/

section Flag
variable {V : Type} (cfg : Cfg V)

def InRange (n : Nat) (c : CMap V) : Prop := ∀ t e, c.get t = some e → t < n
def Tails (l : List (Frame V)) : Prop := ∀ f ∈ l, ∃ ph, f = Frame.tail ph
def Below (c : CMap V) (i : Nat) : Prop := ∀ t, t < i → c.get t = none

/-- with no callback registered, only bypass sends can be active, on top of at most one
flush-all loop that has left everything below its index empty -/
def FlagInv (s : St V) : Prop :=
  s.reg = false → ∃ ts, Tails ts ∧
    ((s.stack = ts ∧ cacheEmpty s.cache) ∨
     (∃ i ph, s.stack = ts ++ [Frame.fall i ph] ∧ Below s.cache i ∧ (ph = Phase.fin → cacheEmpty s.cache)))

theorem InRange.clear {n : Nat} {c : CMap V} (h : InRange n c) (s : Nat) : InRange n (c.clear s) := by
  intro t e ht
  by_cases hts : t = s
  · subst hts; rw [CMap.get_clear_self] at ht; cases ht
  · rw [CMap.get_clear_ne c hts] at ht; exact h t e ht

theorem InRange.set {n : Nat} {c : CMap V} (h : InRange n c) (hn : 0 < n) (k : Key) (e : Key × V) :
    InRange n (c.set (k % n) e) := by
  intro t e' ht
  by_cases hts : t = k % n
  · subst hts; exact Nat.mod_lt _ hn
  · rw [CMap.get_set_ne c _ hts] at ht; exact h t e' ht

theorem insLoop_inRange (hn : 0 < cfg.nslots) (c : CMap V) (k : Key) (v : V) (h : InRange cfg.nslots c) :
    InRange cfg.nslots (insLoop cfg c k v).1 := by
  have henter : ∀ w, InRange cfg.nslots (enter cfg c k w).1 := by
    intro w; unfold enter
    by_cases hf : cfg.full w = true
    · rw [if_pos hf]; exact h.clear _
    · rw [if_neg hf]; exact h.set hn k _
  unfold insLoop
  cases hg : c.get (slot cfg k) with
  | none => exact henter v
  | some e =>
    obtain ⟨k', v'⟩ := e
    simp only []
    by_cases hk : k' = k
    · simp only [hk, if_true]; exact henter _
    · simp only [hk, if_false]; exact h.clear _

theorem fallLoop_inRange (c : CMap V) (i : Nat) (h : InRange cfg.nslots c) :
    InRange cfg.nslots (fallLoop cfg c i).1 := by
  unfold fallLoop
  cases hn : nextOcc c i cfg.nslots with
  | none => exact h
  | some j =>
    simp only []
    cases hg : c.get j with
    | none => exact h
    | some e => obtain ⟨k, v⟩ := e; exact h.clear _

/-- the flush-all loop head keeps "everything below the index is free" and ends only on an empty cache -/
theorem fallLoop_flag (c : CMap V) (i : Nat) (hr : InRange cfg.nslots c) (hb : Below c i) :
    ∃ j ph, (fallLoop cfg c i).2 = Frame.fall j ph ∧ Below (fallLoop cfg c i).1 j ∧
      (ph = Phase.fin → cacheEmpty (fallLoop cfg c i).1) := by
  have hfin : (∀ t, i ≤ t → t < cfg.nslots → c.get t = none) → cacheEmpty c := by
    intro hnone t
    cases hg : c.get t with
    | none => rfl
    | some e =>
      have := hr t e hg
      by_cases hti : t < i
      · rw [hb t hti] at hg; cases hg
      · rw [hnone t (by omega) this] at hg; cases hg
  unfold fallLoop
  cases hn : nextOcc c i cfg.nslots with
  | none =>
    have hempty := hfin (nextOcc_none c i _ hn)
    exact ⟨cfg.nslots, .fin, rfl, fun t _ => hempty t, fun _ => hempty⟩
  | some j =>
    obtain ⟨h1, h2, ⟨e, h3⟩, h4⟩ := nextOcc_some c i _ j hn
    simp only []
    rw [h3]
    obtain ⟨k, v⟩ := e
    refine ⟨j + 1, _, rfl, ?_, fun h => by cases h⟩
    intro t ht
    by_cases htj : t = j
    · subst htj; exact CMap.get_clear_self c t
    · rw [CMap.get_clear_ne c htj]
      by_cases hti : t < i
      · exact hb t hti
      · exact h4 t (by omega) (by omega)

theorem step_inRange (hn : 0 < cfg.nslots) (s s' : St V) (l : Label V) (hr : InRange cfg.nslots s.cache)
    (h : step cfg s l = some s') : InRange cfg.nslots s'.cache := by
  obtain ⟨c, r, st⟩ := s
  cases l with
  | ins k v =>
    simp only [step] at h
    split at h
    · split at h
      · cases h; exact hr
      · have hh := insLoop_inRange cfg hn c k v hr
        rcases hp : insLoop cfg c k v with ⟨c', f⟩
        rw [hp] at hh h
        cases h; exact hh
    · cases h
  | pack =>
    simp only [step] at h
    cases st with
    | nil => simp at h
    | cons f rest =>
      simp only at h
      cases hph : f.phase <;> rw [hph] at h <;> cases h
      exact hr
  | ret =>
    simp only [step] at h
    split at h
    · rename_i k v rest
      have hh := insLoop_inRange cfg hn c k v hr
      rcases hp : insLoop cfg c k v with ⟨c', f⟩
      rw [hp] at hh h
      cases h; exact hh
    · cases h; exact hr
    · rename_i i rest
      have hh := fallLoop_inRange cfg c i hr
      rcases hp : fallLoop cfg c i with ⟨c', f⟩
      rw [hp] at hh h
      cases h; exact hh
    · cases h
  | done =>
    simp only [step] at h
    split at h
    · cases h; exact hr
    · cases h
  | fb =>
    simp only [step] at h
    split at h
    · have hh := fallLoop_inRange cfg c 0 hr
      rcases hp : fallLoop cfg c 0 with ⟨c', f⟩
      rw [hp] at hh h
      cases h; exact hh
    · cases h
  | fe =>
    simp only [step] at h
    split at h
    · cases h; exact hr
    · cases h
  | bar =>
    simp only [step] at h
    split at h
    · cases h; exact hr
    · cases h

end Flag


section Flag2
variable {V : Type} (cfg : Cfg V)

/-- shape of the stack while no callback is registered -/
theorem flag_top {ts : List (Frame V)} (hts : Tails ts) {f : Frame V} {rest : List (Frame V)} :
    (f :: rest = ts → ∃ ph ts', f = Frame.tail ph ∧ rest = ts' ∧ ts = f :: ts' ∧ Tails ts') ∧
    (∀ i ph, f :: rest = ts ++ [Frame.fall i ph] →
      (ts = [] ∧ f = Frame.fall i ph ∧ rest = []) ∨
      (∃ ph' ts', f = Frame.tail ph' ∧ ts = f :: ts' ∧ rest = ts' ++ [Frame.fall i ph] ∧ Tails ts')) := by
  constructor
  · intro h
    subst h
    obtain ⟨ph, hph⟩ := hts f (by simp)
    exact ⟨ph, rest, hph, rfl, rfl, fun g hg => hts g (by simp [hg])⟩
  · intro i ph h
    cases ts with
    | nil => simp at h; exact Or.inl ⟨rfl, h.1, h.2⟩
    | cons t ts' =>
      simp at h
      obtain ⟨h1, h2⟩ := h
      subst h1
      obtain ⟨ph', hph'⟩ := hts f (by simp)
      exact Or.inr ⟨ph', ts', hph', rfl, h2, fun g hg => hts g (by simp [hg])⟩

theorem Tails.nil : Tails ([] : List (Frame V)) := fun _ hf => by cases hf

theorem Tails.cons {ts : List (Frame V)} (h : Tails ts) (ph : Phase V) : Tails (Frame.tail ph :: ts) := by
  intro f hf
  simp at hf
  cases hf with
  | inl h1 => exact ⟨ph, h1⟩
  | inr h1 => exact h f h1

theorem step_flag (s s' : St V) (l : Label V) (hr : InRange cfg.nslots s.cache)
    (hi : FlagInv s) (h : step cfg s l = some s') : FlagInv s' := by
  obtain ⟨c, r, st⟩ := s
  cases l with
  | ins k v =>
    simp only [step] at h
    split at h
    · split at h
      · cases h
        intro hreg
        obtain ⟨ts, hts, hsh⟩ := hi hreg
        refine ⟨Frame.tail (Phase.pend ⟨true, k, v⟩) :: ts, hts.cons _, ?_⟩
        cases hsh with
        | inl h1 => exact Or.inl ⟨by simp only at h1 ⊢; rw [h1.1], h1.2⟩
        | inr h1 =>
          obtain ⟨i, ph, h2, h3, h4⟩ := h1
          exact Or.inr ⟨i, ph, by simp only at h2 ⊢; rw [h2]; rfl, h3, h4⟩
      · rcases hp : insLoop cfg c k v with ⟨c', f⟩
        rw [hp] at h
        cases h
        intro hreg; cases hreg
    · cases h
  | pack =>
    simp only [step] at h
    cases st with
    | nil => simp at h
    | cons f rest =>
      simp only at h
      cases hph : f.phase with
      | pend m =>
        rw [hph] at h; cases h
        intro hreg
        obtain ⟨ts, hts, hsh⟩ := hi hreg
        cases hsh with
        | inl h1 =>
          obtain ⟨ph, ts', hf, hrest, hts', htl⟩ := (flag_top hts).1 h1.1
          subst hf
          refine ⟨Frame.tail Phase.sent :: ts', htl.cons _, Or.inl ⟨?_, h1.2⟩⟩
          simp only [Frame.setPhase]; rw [hrest]
        | inr h1 =>
          obtain ⟨i, ph, h2, h3, h4⟩ := h1
          cases (flag_top hts).2 i ph h2 with
          | inl h5 =>
            obtain ⟨h5a, h5b, h5c⟩ := h5
            subst h5b
            refine ⟨[], Tails.nil, Or.inr ⟨i, Phase.sent, ?_, h3, fun hh => by cases hh⟩⟩
            simp only [Frame.setPhase, h5c, List.nil_append]
          | inr h5 =>
            obtain ⟨ph', ts', hf, hts', hrest, htl⟩ := h5
            subst hf
            refine ⟨Frame.tail Phase.sent :: ts', htl.cons _, Or.inr ⟨i, ph, ?_, h3, h4⟩⟩
            simp only [Frame.setPhase, hrest]; rfl
      | sent => rw [hph] at h; cases h
      | fin => rw [hph] at h; cases h
  | ret =>
    simp only [step] at h
    split at h
    · -- an eviction loop is active: a callback is registered
      rename_i k v rest
      rcases hp : insLoop cfg c k v with ⟨c', f⟩
      rw [hp] at h
      cases h
      intro hreg
      obtain ⟨ts, hts, hsh⟩ := hi hreg
      exfalso
      cases hsh with
      | inl h1 =>
        obtain ⟨ph, ts', hf, _⟩ := (flag_top hts).1 h1.1
        cases hf
      | inr h1 =>
        obtain ⟨i, ph, h2, _, _⟩ := h1
        cases (flag_top hts).2 i ph h2 with
        | inl h5 => cases h5.2.1
        | inr h5 => obtain ⟨ph', ts', hf, _⟩ := h5; cases hf
    · rename_i rest
      cases h
      intro hreg
      obtain ⟨ts, hts, hsh⟩ := hi hreg
      cases hsh with
      | inl h1 =>
        obtain ⟨ph, ts', hf, hrest, hts', htl⟩ := (flag_top hts).1 h1.1
        exact ⟨Frame.tail Phase.fin :: ts', htl.cons _, Or.inl ⟨by simp only; rw [hrest], h1.2⟩⟩
      | inr h1 =>
        obtain ⟨i, ph, h2, h3, h4⟩ := h1
        cases (flag_top hts).2 i ph h2 with
        | inl h5 => cases h5.2.1
        | inr h5 =>
          obtain ⟨ph', ts', hf, hts', hrest, htl⟩ := h5
          exact ⟨Frame.tail Phase.fin :: ts', htl.cons _, Or.inr ⟨i, ph, by simp only; rw [hrest]; rfl, h3, h4⟩⟩
    · rename_i i rest
      intro hreg
      have hreg0 : r = false := by
        rcases hp : fallLoop cfg c i with ⟨c', f⟩
        rw [hp] at h; cases h; exact hreg
      obtain ⟨ts, hts, hsh⟩ := hi hreg0
      have hb : Below c i ∧ rest = [] := by
        cases hsh with
        | inl h1 =>
          obtain ⟨ph, ts', hf, _⟩ := (flag_top hts).1 h1.1
          cases hf
        | inr h1 =>
          obtain ⟨i', ph, h2, h3, h4⟩ := h1
          cases (flag_top hts).2 i' ph h2 with
          | inl h5 =>
            obtain ⟨_, h5b, h5c⟩ := h5
            cases h5b; exact ⟨h3, h5c⟩
          | inr h5 => obtain ⟨ph', ts', hf, _⟩ := h5; cases hf
      obtain ⟨j, ph, hf, hbel, hfin⟩ := fallLoop_flag cfg c i hr hb.1
      rcases hp : fallLoop cfg c i with ⟨c', f⟩
      rw [hp] at h hf hbel hfin
      cases h
      simp only at hf hbel hfin
      refine ⟨[], Tails.nil, Or.inr ⟨j, ph, ?_, hbel, hfin⟩⟩
      simp only [hf, hb.2, List.nil_append]
    · cases h
  | done =>
    simp only [step] at h
    split at h
    · rename_i rest
      cases h
      intro hreg
      obtain ⟨ts, hts, hsh⟩ := hi hreg
      cases hsh with
      | inl h1 =>
        obtain ⟨ph, ts', hf, hrest, hts', htl⟩ := (flag_top hts).1 h1.1
        exact ⟨ts', htl, Or.inl ⟨hrest, h1.2⟩⟩
      | inr h1 =>
        obtain ⟨i, ph, h2, h3, h4⟩ := h1
        cases (flag_top hts).2 i ph h2 with
        | inl h5 => cases h5.2.1
        | inr h5 =>
          obtain ⟨ph', ts', hf, hts', hrest, htl⟩ := h5
          exact ⟨ts', htl, Or.inr ⟨i, ph, hrest, h3, h4⟩⟩
    · cases h
  | fb =>
    simp only [step] at h
    split at h
    · obtain ⟨j, ph, hf, hbel, hfin⟩ := fallLoop_flag cfg c 0 hr (fun t ht => by omega)
      rcases hp : fallLoop cfg c 0 with ⟨c', f⟩
      rw [hp] at h hf hbel hfin
      cases h
      simp only at hf hbel hfin
      intro _
      refine ⟨[], Tails.nil, Or.inr ⟨j, ph, ?_, hbel, hfin⟩⟩
      simp only [hf, List.nil_append]
    · cases h
  | fe =>
    simp only [step] at h
    split at h
    · rename_i i rest
      cases h
      intro hreg
      obtain ⟨ts, hts, hsh⟩ := hi hreg
      cases hsh with
      | inl h1 =>
        obtain ⟨ph, ts', hf, _⟩ := (flag_top hts).1 h1.1
        cases hf
      | inr h1 =>
        obtain ⟨i', ph, h2, h3, h4⟩ := h1
        cases (flag_top hts).2 i' ph h2 with
        | inl h5 =>
          obtain ⟨_, h5b, h5c⟩ := h5
          cases h5b
          exact ⟨[], Tails.nil, Or.inl ⟨h5c, h4 rfl⟩⟩
        | inr h5 => obtain ⟨ph', ts', hf, _⟩ := h5; cases hf
    · cases h
  | bar =>
    simp only [step] at h
    split at h
    · cases h; exact hi
    · cases h

theorem flagInv_init : FlagInv (St.init : St V) := by
  intro _
  exact ⟨[], Tails.nil, Or.inl ⟨rfl, fun _ => rfl⟩⟩

theorem run_flag (hn : 0 < cfg.nslots) (s s' : St V) (ls : List (Label V)) (hr : InRange cfg.nslots s.cache)
    (hi : FlagInv s) (h : run cfg s ls = some s') : FlagInv s' ∧ InRange cfg.nslots s'.cache := by
  induction ls generalizing s with
  | nil => simp only [run] at h; cases h; exact ⟨hi, hr⟩
  | cons l ls ih =>
    simp only [run] at h
    cases hs : step cfg s l with
    | none => rw [hs] at h; cases h
    | some s₁ =>
      rw [hs] at h
      exact ih s₁ (step_inRange cfg hn s s₁ l hr hs) (step_flag cfg s s₁ l hr hi hs) h

end Flag2


/-! ### the system of all ranks -/

section NetLemmas
variable {V : Type} (nc : NetCfg V)

theorem heldAll_set [Std.Associative nc.op] [Std.Commutative nc.op] (ranks : List (St V)) (r : Nat) (s s' : St V)
    (k : Key) (hget : ranks[r]? = some s) (e rc : Option V)
    (h : omerge nc.op (held (nc.at 0) s' k) e = omerge nc.op (held (nc.at 0) s k) rc) :
    omerge nc.op (heldAll nc (ranks.set r s') k) e = omerge nc.op (heldAll nc ranks k) rc := by
  induction ranks generalizing r with
  | nil => simp at hget
  | cons a rs ih =>
    cases r with
    | zero =>
      simp only [List.getElem?_cons_zero, Option.some.injEq] at hget
      subst hget
      simp only [heldAll, List.set_cons_zero, List.map_cons, ototal_cons]
      calc omerge nc.op (omerge nc.op (held (nc.at 0) s' k) (ototal nc.op (rs.map fun s => held (nc.at 0) s k))) e
          = omerge nc.op (omerge nc.op (held (nc.at 0) s' k) e) (ototal nc.op (rs.map fun s => held (nc.at 0) s k)) := by ac_rfl
        _ = omerge nc.op (omerge nc.op (held (nc.at 0) a k) (ototal nc.op (rs.map fun s => held (nc.at 0) s k))) rc := by rw [h]; ac_rfl
    | succ r =>
      simp only [List.getElem?_cons_succ] at hget
      have := ih r hget
      simp only [heldAll, List.set_cons_succ, List.map_cons, ototal_cons] at this ⊢
      rw [omerge_assoc, this, ← omerge_assoc]

theorem flightTot_cons (d : Nat) (m : Msg V) (fl : List (Nat × Msg V)) (k : Key) :
    flightTot nc ((d, m) :: fl) k = omerge nc.op (onKey k m.key m.val) (flightTot nc fl k) := by
  simp only [flightTot, List.map_cons]; exact total_msgValsOf_cons _ _ _ _

theorem flightTot_erase [Std.Associative nc.op] [Std.Commutative nc.op] (fl : List (Nat × Msg V)) (i d : Nat) (m : Msg V)
    (k : Key) (h : fl[i]? = some (d, m)) :
    flightTot nc fl k = omerge nc.op (onKey k m.key m.val) (flightTot nc (fl.eraseIdx i) k) := by
  induction fl generalizing i with
  | nil => simp at h
  | cons a fl ih =>
    cases i with
    | zero =>
      simp only [List.getElem?_cons_zero, Option.some.injEq] at h
      subst h
      simp only [List.eraseIdx_cons_zero]; exact flightTot_cons nc _ _ _ _
    | succ i =>
      simp only [List.getElem?_cons_succ] at h
      obtain ⟨d', m'⟩ := a
      simp only [List.eraseIdx_cons_succ, flightTot_cons]
      rw [ih i h]; ac_rfl

theorem storedOf_storeReduce (st : List (Key × V)) (k k' : Key) (v : V) :
    storedOf k (storeReduce nc.op st k' v) = omerge nc.op (storedOf k st) (onKey k k' v) := by
  induction st with
  | nil => simp [storeReduce, storedOf, onKey]
  | cons a st ih =>
    obtain ⟨k'', w⟩ := a
    simp only [storeReduce]
    by_cases h1 : k'' = k'
    · subst h1
      simp only [if_true, storedOf, onKey]
      by_cases h2 : k'' = k <;> simp [h2]
    · simp only [h1, if_false, storedOf]
      by_cases h2 : k'' = k
      · have : k' ≠ k := by intro h; subst h; exact h1 h2
        simp [h2, onKey_ne _ this]
      · simp only [h2, if_false]; exact ih

instance atAssoc [h : Std.Associative nc.op] (r : Nat) : Std.Associative (nc.at r).op := h
instance atComm [h : Std.Commutative nc.op] (r : Nat) : Std.Commutative (nc.at r).op := h

/-- `step_held` on rank `r`, stated with the rank-independent view of `held` -/
theorem step_held_at [Std.Associative nc.op] [Std.Commutative nc.op] (r : Nat) (s s' : St V) (l : Label V)
    (hwf : WF nc.nslots s.cache) (hs : step (nc.at r) s l = some s') (k : Key) :
    omerge nc.op (held (nc.at 0) s' k) (emitOf k s l) = omerge nc.op (held (nc.at 0) s k) (recvOf k l) :=
  step_held (nc.at r) s s' l hwf hs k

/-- what a system label contributes for key `k` -/
def userOf {V} (k : Key) : NetLabel V → Option V
  | .user _ k' v => onKey k k' v
  | _ => none

/-- all slot arrays well formed -/
def NetWF (n : Net V) : Prop := ∀ s ∈ n.ranks, WF nc.nslots s.cache

theorem mem_set_of {α} {l : List α} {i : Nat} {a b : α} (h : b ∈ l.set i a) : b = a ∨ b ∈ l := by
  induction l generalizing i with
  | nil => simp at h
  | cons x l ih =>
    cases i with
    | zero => simp only [List.set_cons_zero, List.mem_cons] at h ⊢; cases h with
      | inl h => exact Or.inl h
      | inr h => exact Or.inr (Or.inr h)
    | succ i => simp only [List.set_cons_succ, List.mem_cons] at h ⊢; cases h with
      | inl h => exact Or.inr (Or.inl h)
      | inr h => cases ih h with
        | inl h => exact Or.inl h
        | inr h => exact Or.inr (Or.inr h)

theorem mem_of_getElem? {α} {l : List α} {i : Nat} {a : α} (h : l[i]? = some a) : a ∈ l := by
  induction l generalizing i with
  | nil => simp at h
  | cons x l ih =>
    cases i with
    | zero => simp at h; simp [h]
    | succ i => simp only [List.getElem?_cons_succ] at h; exact List.mem_cons_of_mem _ (ih h)

theorem netStep_wf (n n' : Net V) (l : NetLabel V) (hwf : NetWF nc n) (h : netStep nc n l = some n') : NetWF nc n' := by
  have key : ∀ (r : Nat) (s s' : St V) (lab : Label V), n.ranks[r]? = some s → step (nc.at r) s lab = some s' →
      ∀ t ∈ n.ranks.set r s', WF nc.nslots t.cache := by
    intro r s s' lab hg hs t ht
    cases mem_set_of ht with
    | inl h1 => subst h1; exact step_wf (nc.at r) s t lab (hwf s (mem_of_getElem? hg)) hs
    | inr h1 => exact hwf t h1
  cases l with
  | user r k v =>
    simp only [netStep] at h
    cases hg : n.ranks[r]? with
    | none => rw [hg] at h; cases h
    | some s =>
      rw [hg] at h; simp only at h
      cases hs : step (nc.at r) s (.ins k v) with
      | none => rw [hs] at h; cases h
      | some s' => rw [hs] at h; cases h; exact key r s s' _ hg hs
  | deliver i =>
    simp only [netStep] at h
    cases hf : n.flight[i]? with
    | none => rw [hf] at h; cases h
    | some dm =>
      obtain ⟨d, m⟩ := dm
      rw [hf] at h; simp only at h
      split at h
      · cases h; exact hwf
      · cases hg : n.ranks[d]? with
        | none => rw [hg] at h; cases h
        | some s =>
          rw [hg] at h; simp only at h
          cases hs : step (nc.at d) s (.ins m.key m.val) with
          | none => rw [hs] at h; cases h
          | some s' => rw [hs] at h; cases h; exact key d s s' _ hg hs
  | loc r lab =>
    cases lab with
    | ins k v => simp [netStep] at h
    | pack =>
      simp only [netStep] at h
      cases hg : n.ranks[r]? with
      | none => rw [hg] at h; cases h
      | some s =>
        rw [hg] at h; simp only at h
        cases hs : step (nc.at r) s .pack with
        | none => rw [hs] at h; cases h
        | some s' =>
          rw [hs] at h; simp only at h
          cases hp : pending s with
          | none => rw [hp] at h; cases h; exact key r s s' _ hg hs
          | some m => rw [hp] at h; cases h; exact key r s s' _ hg hs
    | ret | done | fb | fe | bar =>
      simp only [netStep] at h
      cases hg : n.ranks[r]? with
      | none => rw [hg] at h; cases h
      | some s =>
        rw [hg] at h; simp only at h
        split at h
        · cases h
        · rename_i s' hs
          cases h; exact key r s s' _ hg hs

/-- **every step of the system conserves, per key, stored ⊎ held everywhere ⊎ in flight**, and a
contribution of the program adds exactly its value -/
theorem netStep_ledger [Std.Associative nc.op] [Std.Commutative nc.op] (n n' : Net V) (l : NetLabel V)
    (hwf : NetWF nc n) (h : netStep nc n l = some n') (k : Key) :
    netHeld nc n' k = omerge nc.op (netHeld nc n k) (userOf k l) := by
  cases l with
  | user r k' v =>
    simp only [netStep] at h
    cases hg : n.ranks[r]? with
    | none => rw [hg] at h; cases h
    | some s =>
      rw [hg] at h; simp only at h
      cases hs : step (nc.at r) s (.ins k' v) with
      | none => rw [hs] at h; cases h
      | some s' =>
        rw [hs] at h; cases h
        have hh := step_held_at nc r s s' _ (hwf s (mem_of_getElem? hg)) hs k
        simp only [emitOf, recvOf, omerge_none_right] at hh
        have := heldAll_set nc n.ranks r s s' k hg none (onKey k k' v) (by simpa using hh)
        simp only [omerge_none_right] at this
        simp only [netHeld, userOf, this]
        ac_rfl
  | deliver i =>
    simp only [netStep] at h
    cases hf : n.flight[i]? with
    | none => rw [hf] at h; cases h
    | some dm =>
      obtain ⟨d, m⟩ := dm
      rw [hf] at h; simp only at h
      have hfl := flightTot_erase nc n.flight i d m k hf
      split at h
      · cases h
        simp only [netHeld, userOf, omerge_none_right, storedOf_storeReduce, hfl]
        ac_rfl
      · cases hg : n.ranks[d]? with
        | none => rw [hg] at h; cases h
        | some s =>
          rw [hg] at h; simp only at h
          cases hs : step (nc.at d) s (.ins m.key m.val) with
          | none => rw [hs] at h; cases h
          | some s' =>
            rw [hs] at h; cases h
            have hh := step_held_at nc d s s' _ (hwf s (mem_of_getElem? hg)) hs k
            simp only [emitOf, recvOf, omerge_none_right] at hh
            have := heldAll_set nc n.ranks d s s' k hg none (onKey k m.key m.val) (by simpa using hh)
            simp only [omerge_none_right] at this
            simp only [netHeld, userOf, omerge_none_right, this, hfl]
            ac_rfl
  | loc r lab =>
    cases lab with
    | ins k' v => simp [netStep] at h
    | pack =>
      simp only [netStep] at h
      cases hg : n.ranks[r]? with
      | none => rw [hg] at h; cases h
      | some s =>
        rw [hg] at h; simp only at h
        cases hs : step (nc.at r) s .pack with
        | none => rw [hs] at h; cases h
        | some s' =>
          rw [hs] at h; simp only at h
          have hh := step_held_at nc r s s' _ (hwf s (mem_of_getElem? hg)) hs k
          cases hp : pending s with
          | none =>
            rw [hp] at h; cases h
            simp only [emitOf, hp, recvOf, omerge_none_right] at hh
            have := heldAll_set nc n.ranks r s s' k hg none none (by simpa using hh)
            simp only [omerge_none_right] at this
            simp only [netHeld, userOf, omerge_none_right, this]
          | some m =>
            rw [hp] at h; cases h
            simp only [emitOf, hp, recvOf, omerge_none_right] at hh
            have := heldAll_set nc n.ranks r s s' k hg (onKey k m.key m.val) none (by simpa using hh)
            simp only [omerge_none_right] at this
            simp only [netHeld, userOf, omerge_none_right, flightTot_cons, ← this]
            ac_rfl
    | ret | done | fb | fe | bar =>
      simp only [netStep] at h
      cases hg : n.ranks[r]? with
      | none => rw [hg] at h; cases h
      | some s =>
        rw [hg] at h; simp only at h
        split at h
        · cases h
        · rename_i s' hs
          cases h
          have hh := step_held_at nc r s s' _ (hwf s (mem_of_getElem? hg)) hs k
          simp only [emitOf, recvOf, omerge_none_right] at hh
          have := heldAll_set nc n.ranks r s s' k hg none none (by simpa using hh)
          simp only [omerge_none_right] at this
          simp only [netHeld, userOf, omerge_none_right, this]

theorem userContribs_cons_total (l : NetLabel V) (ls : List (NetLabel V)) (k : Key) :
    total nc.op (valsOf k (userContribs (l :: ls))) = omerge nc.op (userOf k l) (total nc.op (valsOf k (userContribs ls))) := by
  cases l <;> simp only [userContribs, userOf, omerge_none_left]
  exact total_valsOf_cons _ _ _ _ _

theorem heldAll_quiet (ranks : List (St V)) (h : ∀ s ∈ ranks, quiet s) (k : Key) : heldAll nc ranks k = none := by
  induction ranks with
  | nil => rfl
  | cons a rs ih =>
    simp only [heldAll, List.map_cons, ototal_cons]
    rw [held_quiet _ a (h a (by simp))]
    simp only [omerge_none_left]
    exact ih (fun s hs => h s (by simp [hs]))

end NetLemmas

end YgmVerif.Cache
