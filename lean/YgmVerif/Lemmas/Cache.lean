import YgmVerif.Model.Cache
/-! Helper lemmas for `YgmVerif.Cache`: the sparse slot array, the `Option` monoid
`omerge`, the effect of every transition on what a rank holds for a key. -/
namespace YgmVerif.Cache

/-! ### slot array -/

theorem CMap.get_clear_self {V} (c : CMap V) (s : Nat) : (c.clear s).get s = none := by
  induction c with
  | nil => rfl
  | cons p c ih =>
    obtain ⟨t, e⟩ := p
    by_cases h : t = s
    · simp [CMap.clear, List.filter, h] at ih ⊢; exact ih
    · simp [CMap.clear, List.filter, h, CMap.get] at ih ⊢; exact ih

theorem CMap.get_clear_ne {V} (c : CMap V) {s t : Nat} (h : t ≠ s) : (c.clear s).get t = c.get t := by
  induction c with
  | nil => rfl
  | cons p c ih =>
    obtain ⟨u, e⟩ := p
    by_cases hu : u = s
    · have : u ≠ t := by omega
      simp [CMap.clear, List.filter, hu, CMap.get] at ih ⊢
      rw [ih]; simp [show ¬ s = t by omega]
    · simp [CMap.clear, List.filter, hu, CMap.get] at ih ⊢
      rw [ih]

theorem CMap.get_set_self {V} (c : CMap V) (s : Nat) (e : Key × V) : (c.set s e).get s = some e := by
  simp [CMap.set, CMap.get]

theorem CMap.get_set_ne {V} (c : CMap V) {s t : Nat} (e : Key × V) (h : t ≠ s) :
    (c.set s e).get t = c.get t := by
  simp [CMap.set, CMap.get, show ¬ s = t by omega, CMap.get_clear_ne c h]

/-- clearing a free slot changes nothing observable -/
theorem CMap.get_clear_of_none {V} (c : CMap V) {s : Nat} (h : c.get s = none) (t : Nat) :
    (c.clear s).get t = c.get t := by
  by_cases ht : t = s
  · subst ht; rw [CMap.get_clear_self, h]
  · exact CMap.get_clear_ne c ht

theorem nextOcc_some {V} (c : CMap V) (i n s : Nat) (h : nextOcc c i n = some s) :
    i ≤ s ∧ s < n ∧ (∃ e, c.get s = some e) ∧ ∀ t, i ≤ t → t < s → c.get t = none := by
  induction c generalizing s with
  | nil => simp [nextOcc] at h
  | cons p c ih =>
    obtain ⟨u, e⟩ := p
    simp only [nextOcc] at h
    by_cases hu : i ≤ u ∧ u < n
    · rw [if_pos hu] at h
      cases hr : nextOcc c i n with
      | none =>
        rw [hr] at h; simp at h; subst h
        refine ⟨hu.1, hu.2, ⟨e, by simp [CMap.get]⟩, ?_⟩
        intro t h1 h2
        have hne : ¬ u = t := by omega
        simp only [CMap.get, hne, if_false]
        -- no occupied slot of `c` in range at all
        have : ∀ t, i ≤ t → t < n → c.get t = none := by
          clear ih h1 h2 hne
          induction c with
          | nil => intros; rfl
          | cons q c ih2 =>
            obtain ⟨w, e2⟩ := q
            simp only [nextOcc] at hr
            by_cases hw : i ≤ w ∧ w < n
            · rw [if_pos hw] at hr; cases h3 : nextOcc c i n <;> rw [h3] at hr <;> simp at hr
            · rw [if_neg hw] at hr
              intro t h1 h2
              have : ¬ w = t := by omega
              simp only [CMap.get, this, if_false]
              exact ih2 hr t h1 h2
        exact this t h1 (by omega)
      | some b =>
        rw [hr] at h; simp at h
        obtain ⟨hb1, hb2, ⟨eb, hb3⟩, hb4⟩ := ih b hr
        by_cases hbu : b ≤ u
        · have : s = b := by omega
          subst this
          refine ⟨hb1, hb2, ?_, ?_⟩
          · by_cases hub : u = s
            · exact ⟨e, by simp [CMap.get, hub]⟩
            · exact ⟨eb, by simp [CMap.get, hub, hb3]⟩
          · intro t h1 h2
            have : ¬ u = t := by omega
            simp only [CMap.get, this, if_false]; exact hb4 t h1 h2
        · have : s = u := by omega
          subst this
          refine ⟨hu.1, hu.2, ⟨e, by simp [CMap.get]⟩, ?_⟩
          intro t h1 h2
          have : ¬ s = t := by omega
          simp only [CMap.get, this, if_false]; exact hb4 t h1 (by omega)
    · rw [if_neg hu] at h
      obtain ⟨h1, h2, ⟨eb, h3⟩, h4⟩ := ih s h
      refine ⟨h1, h2, ?_, ?_⟩
      · have : ¬ u = s := by omega
        exact ⟨eb, by simp [CMap.get, this, h3]⟩
      · intro t ht1 ht2
        have : ¬ u = t := by omega
        simp only [CMap.get, this, if_false]; exact h4 t ht1 ht2

theorem nextOcc_none {V} (c : CMap V) (i n : Nat) (h : nextOcc c i n = none) :
    ∀ t, i ≤ t → t < n → c.get t = none := by
  induction c with
  | nil => intros; rfl
  | cons q c ih =>
    obtain ⟨w, e2⟩ := q
    simp only [nextOcc] at h
    by_cases hw : i ≤ w ∧ w < n
    · rw [if_pos hw] at h; cases h3 : nextOcc c i n <;> rw [h3] at h <;> simp at h
    · rw [if_neg hw] at h
      intro t h1 h2
      have : ¬ w = t := by omega
      simp only [CMap.get, this, if_false]
      exact ih h t h1 h2

end YgmVerif.Cache
