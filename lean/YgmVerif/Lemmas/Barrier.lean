import YgmVerif.Model.Barrier
/-!
Invariant proof for the barrier model: relation-style `Step` (one constructor per label), the 18-clause
invariant `Inv`, `Init → Inv`, `Inv ∧ Step → Inv`, and the final arithmetic (`exit_dead`).
-/
namespace YgmVerif.Barrier

@[simp] theorem upd_same {α} (f : Nat → α) (i : Nat) (v : α) : upd f i v i = v := by simp [upd]
theorem upd_other {α} (f : Nat → α) (i j : Nat) (v : α) (h : j ≠ i) : upd f i v j = f j := by
  simp [upd, h]

theorem sumTo_congr (n : Nat) (f g : Nat → Nat) (h : ∀ i, i < n → f i = g i) : sumTo n f = sumTo n g := by
  induction n with
  | zero => rfl
  | succ k ih =>
    simp only [sumTo]
    rw [ih (fun i hi => h i (by omega)), h k (by omega)]

/-- two summands that differ only at index `r` -/
theorem sumTo_change (n : Nat) (f f' : Nat → Nat) (r : Nat) (hr : r < n)
    (h : ∀ i, i < n → i ≠ r → f' i = f i) : sumTo n f' + f r = sumTo n f + f' r := by
  induction n with
  | zero => omega
  | succ k ih =>
    simp only [sumTo]
    by_cases hrk : r = k
    · subst hrk
      have : sumTo r f' = sumTo r f := sumTo_congr _ _ _ (fun i hi => h i (by omega) (by omega))
      omega
    · have h1 := ih (by omega) (fun i hi hne => h i (by omega) hne)
      have h2 := h k (by omega) (fun e => hrk e.symm)
      omega

theorem sumTo_le (n : Nat) (f g : Nat → Nat) (h : ∀ i, i < n → f i ≤ g i) : sumTo n f ≤ sumTo n g := by
  induction n with
  | zero => simp [sumTo]
  | succ m ihm =>
    simp only [sumTo]
    have := ihm (fun i hi => h i (by omega))
    have := h m (by omega)
    omega

theorem sandwich (n : Nat) (a x b : Nat → Nat)
    (hax : ∀ i, i < n → a i ≤ x i) (hxb : ∀ i, i < n → x i ≤ b i)
    (hs : sumTo n a = sumTo n b) : ∀ i, i < n → x i = a i ∧ x i = b i := by
  induction n with
  | zero => intro i hi; omega
  | succ k ih =>
    simp only [sumTo] at hs
    have h1 := sumTo_le k a x (fun i hi => hax i (by omega))
    have h2 := sumTo_le k x b (fun i hi => hxb i (by omega))
    have h3 := hax k (by omega)
    have h4 := hxb k (by omega)
    have hk : sumTo k a = sumTo k b := by omega
    intro i hi
    by_cases hik : i = k
    · subst hik; omega
    · exact ih (fun i hi => hax i (by omega)) (fun i hi => hxb i (by omega)) hk i (by omega)

/-- indicator sum = n forces every indicator to be 1 -/
theorem sumTo_ind_full (n : Nat) (p : Nat → Bool) (h : sumTo n (fun i => if p i then 1 else 0) = n) :
    ∀ i, i < n → p i = true := by
  induction n with
  | zero => intro i hi; omega
  | succ k ih =>
    simp only [sumTo] at h
    have hle : sumTo k (fun i => if p i then 1 else 0) ≤ k := by
      have := sumTo_le k (fun i => if p i then 1 else 0) (fun _ => 1) (fun i _ => by split <;> omega)
      have e : sumTo k (fun _ => 1) = k := by
        clear ih h this
        induction k with
        | zero => rfl
        | succ m ihm => simp only [sumTo]; omega
      omega
    intro i hi
    by_cases hik : i = k
    · subst hik
      by_cases hp : p i = true
      · exact hp
      · simp [hp] at h; omega
    · have hk : (if p k then 1 else 0) ≤ 1 := by split <;> omega
      exact ih (by omega) i (by omega)

theorem sumTo_ind_lt (n : Nat) (p : Nat → Bool) (r : Nat) (hr : r < n) (hp : p r = false) :
    sumTo n (fun i => if p i then 1 else 0) < n := by
  have hle : ∀ m, sumTo m (fun i => if p i then 1 else 0) ≤ m := by
    intro m
    induction m with
    | zero => simp [sumTo]
    | succ k ih => simp only [sumTo]; split <;> omega
  rcases Nat.lt_or_ge (sumTo n (fun i => if p i then 1 else 0)) n with h | h
  · exact h
  · have : sumTo n (fun i => if p i then 1 else 0) = n := by have := hle n; omega
    have := sumTo_ind_full n p this r hr
    rw [hp] at this; cases this

inductive Step (n : Nat) : Sys → Sys → Prop where
  | issue (s : Sys) (r : Nat) (hr : r < n) (h : s.inBar r = false ∨ s.busy r = true) :
      Step n s { s with sent := upd s.sent r (s.sent r + 1), und := s.und + 1 }
  | start (s : Sys) (r : Nat) (hr : r < n) (hu : 0 < s.und) (hb : s.busy r = false) :
      Step n s { s with busy := upd s.busy r true, und := s.und - 1 }
  | finish (s : Sys) (r : Nat) (hr : r < n) (hb : s.busy r = true) :
      Step n s { s with busy := upd s.busy r false, recvd := upd s.recvd r (s.recvd r + 1) }
  | regcb (s : Sys) (r : Nat) (hr : r < n) (h : s.inBar r = false ∨ s.busy r = true) :
      Step n s { s with cbs := upd s.cbs r (s.cbs r + 1) }
  | runcb (s : Sys) (r k j : Nat) (hr : r < n) (hc : 0 < s.cbs r) (hb : s.busy r = false) :
      Step n s { s with cbs := upd s.cbs r (s.cbs r - 1 + j), sent := upd s.sent r (s.sent r + k),
                        und := s.und + k }
  | enter (s : Sys) (r : Nat) (hr : r < n) (hi : s.inBar r = false) (he : s.exited r = false)
      (hb : s.busy r = false) :
      Step n s { s with inBar := upd s.inBar r true, prev := upd s.prev r (1, 2), cur := upd s.cur r (3, 4) }
  | contribute (s : Sys) (r : Nat) (hr : r < n) (hi : s.inBar r = true) (hb : s.busy r = false)
      (hc : s.cbs r = 0) (hg : s.rounds r = s.got r) :
      Step n s { s with
        rounds := upd s.rounds r (s.rounds r + 1),
        cnt := upd s.cnt (s.rounds r) (s.cnt (s.rounds r) + 1),
        accS := upd s.accS (s.rounds r) (s.accS (s.rounds r) + s.sent r),
        accR := upd s.accR (s.rounds r) (s.accR (s.rounds r) + s.recvd r),
        snapS := upd s.snapS (s.rounds r) (upd (s.snapS (s.rounds r)) r (s.sent r)),
        snapR := upd s.snapR (s.rounds r) (upd (s.snapR (s.rounds r)) r (s.recvd r)),
        gS := if s.cnt (s.rounds r) = 0 then upd s.gS (s.rounds r) s.sent else s.gS,
        gR := if s.cnt (s.rounds r) = 0 then upd s.gR (s.rounds r) s.recvd else s.gR,
        gDead := if s.cnt (s.rounds r) = 0 then upd s.gDead (s.rounds r) (Dead n s) else s.gDead,
        gNoExit := if s.cnt (s.rounds r) = 0 then upd s.gNoExit (s.rounds r) (NoneExited n s) else s.gNoExit }
  | result (s : Sys) (r : Nat) (hr : r < n) (hi : s.inBar r = true) (hg : s.rounds r = s.got r + 1)
      (hc : s.cnt (s.got r) = n) :
      Step n s { s with
        prev := upd s.prev r (s.cur r),
        cur := upd s.cur r (s.accR (s.got r), s.accS (s.got r)),
        got := upd s.got r (s.got r + 1) }
  | exit (s : Sys) (r : Nat) (hr : r < n) (hi : s.inBar r = true) (hg : s.rounds r = s.got r)
      (h1 : (s.cur r).1 = (s.cur r).2) (h2 : s.prev r = s.cur r) :
      Step n s { s with inBar := upd s.inBar r false, exited := upd s.exited r true }

def ExitEnabled (s : Sys) (r : Nat) : Prop :=
  s.inBar r = true ∧ s.rounds r = s.got r ∧ (s.cur r).1 = (s.cur r).2 ∧ s.prev r = s.cur r

/-- initial states: nobody in the barrier yet, arbitrary traffic history that balances -/
def Init (n : Nat) (s : Sys) : Prop :=
  (∀ r, r < n → s.rounds r = 0 ∧ s.got r = 0 ∧ s.inBar r = false ∧ s.exited r = false) ∧
  (∀ k, s.cnt k = 0 ∧ s.accR k = 0 ∧ s.accS k = 0) ∧
  s.und + sumTo n (fun r => b2n (s.busy r)) + sumTo n s.recvd = sumTo n s.sent

inductive Reachable (n : Nat) : Sys → Prop where
  | init (s : Sys) (h : Init n s) : Reachable n s
  | step (s s' : Sys) (h : Reachable n s) (st : Step n s s') : Reachable n s'


theorem sumTo_zero_all (n : Nat) (f : Nat → Nat) (h : sumTo n f = 0) : ∀ i, i < n → f i = 0 := by
  induction n with
  | zero => intro i hi; omega
  | succ k ih =>
    simp only [sumTo] at h
    intro i hi
    by_cases hik : i = k
    · subst hik; omega
    · exact ih (by omega) i (by omega)

structure Inv (n : Nat) (s : Sys) : Prop where
  ledger : s.und + sumTo n (fun r => b2n (s.busy r)) + sumTo n s.recvd = sumTo n s.sent
  rg : ∀ r, r < n → s.got r ≤ s.rounds r ∧ s.rounds r ≤ s.got r + 1
  cntI : ∀ k, s.cnt k = sumTo n (fun r => if k < s.rounds r then 1 else 0)
  accSI : ∀ k, s.accS k = sumTo n (fun r => if k < s.rounds r then s.snapS k r else 0)
  accRI : ∀ k, s.accR k = sumTo n (fun r => if k < s.rounds r then s.snapR k r else 0)
  monoNow : ∀ r, r < n → ∀ k, k < s.rounds r → s.snapS k r ≤ s.sent r ∧ s.snapR k r ≤ s.recvd r
  monoSnap : ∀ r, r < n → ∀ k, k + 1 < s.rounds r →
      s.snapS k r ≤ s.snapS (k+1) r ∧ s.snapR k r ≤ s.snapR (k+1) r
  gotC : ∀ r, r < n → ∀ k, k < s.got r → s.cnt k = n
  gLow : ∀ k, 0 < s.cnt (k+1) → ∀ r, r < n → s.snapS k r ≤ s.gS (k+1) r ∧ s.snapR k r ≤ s.gR (k+1) r
  gHigh : ∀ k, 0 < s.cnt k → ∀ r, r < n → k < s.rounds r →
      s.gS k r ≤ s.snapS k r ∧ s.gR k r ≤ s.snapR k r
  ord : ∀ k, 0 < s.cnt (k+1) → s.cnt k = n
  gNow : ∀ k, 0 < s.cnt k → ∀ r, r < n → s.gS k r ≤ s.sent r ∧ s.gR k r ≤ s.recvd r
  res : ∀ r, r < n → s.inBar r = true →
        (s.got r = 0 → s.cur r = (3,4)) ∧
        (s.got r = 1 → s.prev r = (3,4)) ∧
        (∀ k, s.got r = k + 1 → s.cur r = (s.accR k, s.accS k)) ∧
        (∀ k, s.got r = k + 2 → s.prev r = (s.accR k, s.accS k))
  fresh : ∀ r, r < n → s.inBar r = false → s.exited r = false → s.rounds r = 0 ∧ s.got r = 0
  cbI : ∀ r, r < n → s.inBar r = true → ∀ k, s.rounds r = k + 1 → 0 < s.cbs r →
        s.busy r = true ∨ s.snapR k r < s.recvd r
  hI : ∀ k, 0 < s.cnt (k+1) → sumTo n (s.gS (k+1)) = sumTo n (s.gR (k+1)) →
        (∀ r, r < n → s.gR (k+1) r = s.snapR k r) → s.gNoExit (k+1) → s.gDead (k+1)
  neI : ∀ k, 0 < s.cnt k → NoneExited n s → s.gNoExit k
  deadI : ∀ k, 0 < s.cnt k → s.gDead k → NoneExited n s → Dead n s

theorem all_rounds_gt {n : Nat} {s : Sys} (hi : Inv n s) (k : Nat) (h : s.cnt k = n) :
    ∀ r, r < n → k < s.rounds r := by
  intro r hr
  have := hi.cntI k
  rw [h] at this
  have e : sumTo n (fun r => if decide (k < s.rounds r) = true then 1 else 0) = n := by
    have e2 : sumTo n (fun r => if decide (k < s.rounds r) = true then 1 else 0)
        = sumTo n (fun r => if k < s.rounds r then 1 else 0) := by
      apply sumTo_congr; intro i _; simp
    rw [e2]; exact this.symm
  have := sumTo_ind_full n (fun r => decide (k < s.rounds r)) e r hr
  simpa using this

theorem none_rounds_gt {n : Nat} {s : Sys} (hi : Inv n s) (k : Nat) (h : s.cnt k = 0) :
    ∀ r, r < n → ¬ k < s.rounds r := by
  intro r hr hlt
  have := hi.cntI k
  rw [h] at this
  have := sumTo_zero_all n _ this.symm r hr
  simp [hlt] at this

/-- the final arithmetic: from the invariants, an enabled exit means the system is dead -/
theorem exit_dead {n : Nat} {s : Sys} (hi : Inv n s) (hne : NoneExited n s) (r : Nat) (hr : r < n)
    (hx : ExitEnabled s r) : Dead n s := by
  obtain ⟨hin, hrg, h1, h2⟩ := hx
  obtain ⟨r0, r1, r2, r3⟩ := hi.res r hr hin
  -- case analysis on got r
  rcases Nat.lt_or_ge (s.got r) 2 with hlt | hge
  · rcases Nat.lt_or_ge (s.got r) 1 with h0 | h1'
    · have hz : s.got r = 0 := by omega
      have := r0 hz; rw [this] at h1; simp at h1
    · have ho : s.got r = 1 := by omega
      have hp := r1 ho
      rw [hp] at h2
      rw [← h2] at h1; simp at h1
  · -- got r = k + 2
    obtain ⟨k, hk⟩ : ∃ k, s.got r = k + 2 := ⟨s.got r - 2, by omega⟩
    have hcur := r2 (k+1) (by omega)
    have hprev := r3 k hk
    have hc1 : s.cnt (k+1) = n := hi.gotC r hr (k+1) (by omega)
    have hc0 : s.cnt k = n := hi.gotC r hr k (by omega)
    have hall1 := all_rounds_gt hi (k+1) hc1
    have hall0 := all_rounds_gt hi k hc0
    have npos : 0 < n := by omega
    -- sums
    have eS1 : s.accS (k+1) = sumTo n (s.snapS (k+1)) := by
      rw [hi.accSI]; apply sumTo_congr; intro i hi'; simp [hall1 i hi']
    have eR1 : s.accR (k+1) = sumTo n (s.snapR (k+1)) := by
      rw [hi.accRI]; apply sumTo_congr; intro i hi'; simp [hall1 i hi']
    have eS0 : s.accS k = sumTo n (s.snapS k) := by
      rw [hi.accSI]; apply sumTo_congr; intro i hi'; simp [hall0 i hi']
    have eR0 : s.accR k = sumTo n (s.snapR k) := by
      rw [hi.accRI]; apply sumTo_congr; intro i hi'; simp [hall0 i hi']
    rw [hcur] at h1 h2; rw [hprev] at h2
    simp only at h1
    have h2a : s.accR k = s.accR (k+1) := by have := congrArg Prod.fst h2; simpa using this
    have h2b : s.accS k = s.accS (k+1) := by have := congrArg Prod.snd h2; simpa using this
    have cpos : 0 < s.cnt (k+1) := by omega
    have lowS : ∀ i, i < n → s.snapS k i ≤ s.gS (k+1) i := fun i hi' => (hi.gLow k cpos i hi').1
    have lowR : ∀ i, i < n → s.snapR k i ≤ s.gR (k+1) i := fun i hi' => (hi.gLow k cpos i hi').2
    have highS : ∀ i, i < n → s.gS (k+1) i ≤ s.snapS (k+1) i := fun i hi' => (hi.gHigh (k+1) cpos i hi' (hall1 i hi')).1
    have highR : ∀ i, i < n → s.gR (k+1) i ≤ s.snapR (k+1) i := fun i hi' => (hi.gHigh (k+1) cpos i hi' (hall1 i hi')).2
    have sS := sandwich n (s.snapS k) (s.gS (k+1)) (s.snapS (k+1)) lowS highS (by omega)
    have sR := sandwich n (s.snapR k) (s.gR (k+1)) (s.snapR (k+1)) lowR highR (by omega)
    have gSsum : sumTo n (s.gS (k+1)) = sumTo n (s.snapS k) := sumTo_congr _ _ _ (fun i hi' => (sS i hi').1)
    have gRsum : sumTo n (s.gR (k+1)) = sumTo n (s.snapR k) := sumTo_congr _ _ _ (fun i hi' => (sR i hi').1)
    have hd := hi.hI k cpos (by omega) (fun i hi' => (sR i hi').1) (hi.neI (k+1) cpos hne)
    exact hi.deadI (k+1) cpos hd hne


theorem b2n_false : b2n false = 0 := rfl
theorem b2n_true : b2n true = 1 := rfl

theorem sumTo_upd (n : Nat) (f : Nat → Nat) (r v : Nat) (hr : r < n) :
    sumTo n (upd f r v) + f r = sumTo n f + v := by
  have := sumTo_change n f (upd f r v) r hr (fun i _ hne => upd_other f r i v hne)
  simpa using this

theorem sumTo_b2n_upd (n : Nat) (f : Nat → Bool) (r : Nat) (v : Bool) (hr : r < n) :
    sumTo n (fun q => b2n (upd f r v q)) + b2n (f r) = sumTo n (fun q => b2n (f q)) + b2n v := by
  have := sumTo_change n (fun q => b2n (f q)) (fun q => b2n (upd f r v q)) r hr
    (fun i _ hne => by simp [upd_other f r i v hne])
  simpa using this

theorem step_ledger {n : Nat} {s s' : Sys} (hi : Inv n s) (st : Step n s s') :
    s'.und + sumTo n (fun r => b2n (s'.busy r)) + sumTo n s'.recvd = sumTo n s'.sent := by
  have hl := hi.ledger
  cases st with
  | issue r hr h =>
    simp only
    have := sumTo_upd n s.sent r (s.sent r + 1) hr
    omega
  | start r hr hu hb =>
    simp only
    have := sumTo_b2n_upd n s.busy r true hr
    rw [hb, b2n_false, b2n_true] at this
    omega
  | finish r hr hb =>
    simp only
    have a := sumTo_b2n_upd n s.busy r false hr
    rw [hb, b2n_false, b2n_true] at a
    have b := sumTo_upd n s.recvd r (s.recvd r + 1) hr
    omega
  | regcb r hr h => simpa using hl
  | runcb r k j hr hc hb =>
    simp only
    have := sumTo_upd n s.sent r (s.sent r + k) hr
    omega
  | enter r hr hi' he hb => simpa using hl
  | contribute r hr hi' hb hc hg => simpa using hl
  | result r hr hi' hg hc => simpa using hl
  | exit r hr hi' hg h1 h2 => simpa using hl

theorem step_rg {n : Nat} {s s' : Sys} (hi : Inv n s) (st : Step n s s') :
    ∀ r, r < n → s'.got r ≤ s'.rounds r ∧ s'.rounds r ≤ s'.got r + 1 := by
  intro q hq
  have h0 := hi.rg q hq
  cases st with
  | issue r hr h => simpa using h0
  | start r hr hu hb => simpa using h0
  | finish r hr hb => simpa using h0
  | regcb r hr h => simpa using h0
  | runcb r k j hr hc hb => simpa using h0
  | enter r hr hi' he hb => simpa using h0
  | contribute r hr hi' hb hc hg =>
    simp only
    by_cases e : q = r
    · subst e; simp; omega
    · simp [upd_other _ _ _ _ e]; exact h0
  | result r hr hi' hg hc =>
    simp only
    by_cases e : q = r
    · subst e; simp; omega
    · simp [upd_other _ _ _ _ e]; exact h0
  | exit r hr hi' hg h1 h2 => simpa using h0


theorem step_cntI {n : Nat} {s s' : Sys} (hi : Inv n s) (st : Step n s s') :
    ∀ k, s'.cnt k = sumTo n (fun r => if k < s'.rounds r then 1 else 0) := by
  intro k
  have h0 := hi.cntI k
  cases st with
  | issue r hr h => simpa using h0
  | start r hr hu hb => simpa using h0
  | finish r hr hb => simpa using h0
  | regcb r hr h => simpa using h0
  | runcb r k j hr hc hb => simpa using h0
  | enter r hr hi' he hb => simpa using h0
  | contribute r hr hi' hb hc hg =>
    simp only
    have hch := sumTo_change n (fun q => if k < s.rounds q then 1 else 0)
      (fun q => if k < upd s.rounds r (s.rounds r + 1) q then 1 else 0) r hr
      (fun i _ hne => by simp [upd_other _ _ _ _ hne])
    simp only [upd_same] at hch
    by_cases e : k = s.rounds r
    · subst e
      simp only [upd_same]
      simp at hch
      omega
    · rw [upd_other _ _ _ _ e]
      have e1 : (k < s.rounds r + 1) = (k < s.rounds r) := by
        apply propext; constructor <;> intro h <;> omega
      simp only [e1] at hch
      omega
  | result r hr hi' hg hc => simpa using h0
  | exit r hr hi' hg h1 h2 => simpa using h0

theorem step_accSI {n : Nat} {s s' : Sys} (hi : Inv n s) (st : Step n s s') :
    ∀ k, s'.accS k = sumTo n (fun r => if k < s'.rounds r then s'.snapS k r else 0) := by
  intro k
  have h0 := hi.accSI k
  cases st with
  | issue r hr h => simpa using h0
  | start r hr hu hb => simpa using h0
  | finish r hr hb => simpa using h0
  | regcb r hr h => simpa using h0
  | runcb r k j hr hc hb => simpa using h0
  | enter r hr hi' he hb => simpa using h0
  | contribute r hr hi' hb hc hg =>
    simp only
    by_cases e : k = s.rounds r
    · subst e
      simp only [upd_same]
      have hch := sumTo_change n (fun q => if s.rounds r < s.rounds q then s.snapS (s.rounds r) q else 0)
        (fun q => if s.rounds r < upd s.rounds r (s.rounds r + 1) q then upd (s.snapS (s.rounds r)) r (s.sent r) q else 0) r hr
        (fun i _ hne => by simp [upd_other _ _ _ _ hne])
      simp at hch
      omega
    · rw [upd_other _ _ _ _ e, upd_other _ _ _ _ e]
      rw [h0]
      apply sumTo_congr
      intro i _
      by_cases ei : i = r
      · subst ei; simp only [upd_same]
        have : (k < s.rounds i + 1) = (k < s.rounds i) := by
          apply propext; constructor <;> intro h <;> omega
        simp only [this]
      · rw [upd_other _ _ _ _ ei]
  | result r hr hi' hg hc => simpa using h0
  | exit r hr hi' hg h1 h2 => simpa using h0

theorem step_accRI {n : Nat} {s s' : Sys} (hi : Inv n s) (st : Step n s s') :
    ∀ k, s'.accR k = sumTo n (fun r => if k < s'.rounds r then s'.snapR k r else 0) := by
  intro k
  have h0 := hi.accRI k
  cases st with
  | issue r hr h => simpa using h0
  | start r hr hu hb => simpa using h0
  | finish r hr hb => simpa using h0
  | regcb r hr h => simpa using h0
  | runcb r k j hr hc hb => simpa using h0
  | enter r hr hi' he hb => simpa using h0
  | contribute r hr hi' hb hc hg =>
    simp only
    by_cases e : k = s.rounds r
    · subst e
      simp only [upd_same]
      have hch := sumTo_change n (fun q => if s.rounds r < s.rounds q then s.snapR (s.rounds r) q else 0)
        (fun q => if s.rounds r < upd s.rounds r (s.rounds r + 1) q then upd (s.snapR (s.rounds r)) r (s.recvd r) q else 0) r hr
        (fun i _ hne => by simp [upd_other _ _ _ _ hne])
      simp at hch
      omega
    · rw [upd_other _ _ _ _ e, upd_other _ _ _ _ e]
      rw [h0]
      apply sumTo_congr
      intro i _
      by_cases ei : i = r
      · subst ei; simp only [upd_same]
        have : (k < s.rounds i + 1) = (k < s.rounds i) := by
          apply propext; constructor <;> intro h <;> omega
        simp only [this]
      · rw [upd_other _ _ _ _ ei]
  | result r hr hi' hg hc => simpa using h0
  | exit r hr hi' hg h1 h2 => simpa using h0


theorem contrib_not_full {n : Nat} {s : Sys} (hi : Inv n s) (r : Nat) (hr : r < n)
    (h : s.cnt (s.rounds r) = n) : False := by
  have := all_rounds_gt hi (s.rounds r) h r hr
  omega

theorem step_monoNow {n : Nat} {s s' : Sys} (hi : Inv n s) (st : Step n s s') :
    ∀ r, r < n → ∀ k, k < s'.rounds r → s'.snapS k r ≤ s'.sent r ∧ s'.snapR k r ≤ s'.recvd r := by
  intro q hq k
  have h0 := hi.monoNow q hq k
  cases st with
  | issue r hr h =>
    simp only; intro hk; have := h0 hk
    by_cases e : q = r
    · subst e; simp; omega
    · simp [upd_other _ _ _ _ e]; exact this
  | start r hr hu hb => simpa using h0
  | finish r hr hb =>
    simp only; intro hk; have := h0 hk
    by_cases e : q = r
    · subst e; simp; omega
    · simp [upd_other _ _ _ _ e]; exact this
  | regcb r hr h => simpa using h0
  | runcb r k j hr hc hb =>
    simp only; intro hk; have := h0 hk
    by_cases e : q = r
    · subst e; simp; omega
    · simp [upd_other _ _ _ _ e]; exact this
  | enter r hr hi' he hb => simpa using h0
  | contribute r hr hi' hb hc hg =>
    simp only
    by_cases e : q = r
    · subst e
      simp only [upd_same]
      intro hk
      by_cases ek : k = s.rounds q
      · subst ek; simp
      · rw [upd_other _ _ _ _ ek, upd_other _ _ _ _ ek]; exact h0 (by omega)
    · rw [upd_other _ _ _ _ e]
      intro hk
      by_cases ek : k = s.rounds r
      · subst ek; simp only [upd_same]; rw [upd_other _ _ _ _ e, upd_other _ _ _ _ e]; exact h0 hk
      · rw [upd_other _ _ _ _ ek, upd_other _ _ _ _ ek]; exact h0 hk
  | result r hr hi' hg hc => simpa using h0
  | exit r hr hi' hg h1 h2 => simpa using h0

theorem step_monoSnap {n : Nat} {s s' : Sys} (hi : Inv n s) (st : Step n s s') :
    ∀ r, r < n → ∀ k, k + 1 < s'.rounds r →
      s'.snapS k r ≤ s'.snapS (k+1) r ∧ s'.snapR k r ≤ s'.snapR (k+1) r := by
  intro q hq k
  have h0 := hi.monoSnap q hq k
  cases st with
  | issue r hr h => simpa using h0
  | start r hr hu hb => simpa using h0
  | finish r hr hb => simpa using h0
  | regcb r hr h => simpa using h0
  | runcb r k j hr hc hb => simpa using h0
  | enter r hr hi' he hb => simpa using h0
  | contribute r hr hi' hb hc hg =>
    simp only
    by_cases e : q = r
    · subst e
      simp only [upd_same]
      intro hk
      have ek : k ≠ s.rounds q := by omega
      rw [upd_other _ _ _ _ ek, upd_other _ _ _ _ ek]
      by_cases ek1 : k + 1 = s.rounds q
      · rw [ek1]; simp only [upd_same]
        exact hi.monoNow q hq k (by omega)
      · rw [upd_other _ _ _ _ ek1, upd_other _ _ _ _ ek1]; exact h0 (by omega)
    · rw [upd_other _ _ _ _ e]
      intro hk
      have key : ∀ (f : Nat → Nat → Nat) (v : Nat) (j : Nat),
          upd f (s.rounds r) (upd (f (s.rounds r)) r v) j q = f j q := by
        intro f v j
        by_cases ej : j = s.rounds r
        · subst ej; simp only [upd_same]; rw [upd_other _ _ _ _ e]
        · rw [upd_other _ _ _ _ ej]
      rw [key, key, key, key]; exact h0 hk
  | result r hr hi' hg hc => simpa using h0
  | exit r hr hi' hg h1 h2 => simpa using h0

theorem step_gotC {n : Nat} {s s' : Sys} (hi : Inv n s) (st : Step n s s') :
    ∀ r, r < n → ∀ k, k < s'.got r → s'.cnt k = n := by
  intro q hq k
  have h0 := hi.gotC q hq k
  cases st with
  | issue r hr h => simpa using h0
  | start r hr hu hb => simpa using h0
  | finish r hr hb => simpa using h0
  | regcb r hr h => simpa using h0
  | runcb r k j hr hc hb => simpa using h0
  | enter r hr hi' he hb => simpa using h0
  | contribute r hr hi' hb hc hg =>
    simp only
    intro hk
    by_cases ek : k = s.rounds r
    · subst ek; exact (contrib_not_full hi r hr (h0 hk)).elim
    · rw [upd_other _ _ _ _ ek]; exact h0 hk
  | result r hr hi' hg hc =>
    simp only
    by_cases e : q = r
    · subst e; simp only [upd_same]; intro hk
      by_cases ek : k = s.got q
      · subst ek; exact hc
      · exact h0 (by omega)
    · rw [upd_other _ _ _ _ e]; exact h0
  | exit r hr hi' hg h1 h2 => simpa using h0

theorem step_ord {n : Nat} {s s' : Sys} (hi : Inv n s) (st : Step n s s') :
    ∀ k, 0 < s'.cnt (k+1) → s'.cnt k = n := by
  intro k
  have h0 := hi.ord k
  cases st with
  | issue r hr h => simpa using h0
  | start r hr hu hb => simpa using h0
  | finish r hr hb => simpa using h0
  | regcb r hr h => simpa using h0
  | runcb r k j hr hc hb => simpa using h0
  | enter r hr hi' he hb => simpa using h0
  | contribute r hr hi' hb hc hg =>
    simp only
    by_cases ek : k = s.rounds r
    · subst ek
      have ne1 : s.rounds r + 1 ≠ s.rounds r := by omega
      rw [upd_other _ _ _ _ ne1]
      intro hpos; exact (contrib_not_full hi r hr (h0 hpos)).elim
    · rw [upd_other _ _ _ _ ek]
      by_cases ek1 : k + 1 = s.rounds r
      · intro _; exact hi.gotC r hr k (by omega)
      · rw [upd_other _ _ _ _ ek1]; exact h0
  | result r hr hi' hg hc => simpa using h0
  | exit r hr hi' hg h1 h2 => simpa using h0


theorem step_gNow {n : Nat} {s s' : Sys} (hi : Inv n s) (st : Step n s s') :
    ∀ k, 0 < s'.cnt k → ∀ r, r < n → s'.gS k r ≤ s'.sent r ∧ s'.gR k r ≤ s'.recvd r := by
  intro k
  have h0 := hi.gNow k
  cases st with
  | issue r hr h =>
    simp only; intro hp q hq; have := h0 hp q hq
    by_cases e : q = r
    · subst e; simp; omega
    · simp [upd_other _ _ _ _ e]; exact this
  | start r hr hu hb => simpa using h0
  | finish r hr hb =>
    simp only; intro hp q hq; have := h0 hp q hq
    by_cases e : q = r
    · subst e; simp; omega
    · simp [upd_other _ _ _ _ e]; exact this
  | regcb r hr h => simpa using h0
  | runcb r k j hr hc hb =>
    simp only; intro hp q hq; have := h0 hp q hq
    by_cases e : q = r
    · subst e; simp; omega
    · simp [upd_other _ _ _ _ e]; exact this
  | enter r hr hi' he hb => simpa using h0
  | contribute r hr hi' hb hc hg =>
    simp only
    by_cases hc0 : s.cnt (s.rounds r) = 0
    · simp only [hc0, if_true]
      by_cases ek : k = s.rounds r
      · subst ek; simp only [upd_same]; intro _ q hq; omega
      · rw [upd_other _ _ _ _ ek, upd_other _ _ _ _ ek, upd_other _ _ _ _ ek]; exact h0
    · simp only [hc0, if_false]
      by_cases ek : k = s.rounds r
      · subst ek; intro _ q hq; exact h0 (by omega) q hq
      · rw [upd_other _ _ _ _ ek]; exact h0
  | result r hr hi' hg hc => simpa using h0
  | exit r hr hi' hg h1 h2 => simpa using h0

theorem snap_other {s : Sys} (f : Nat → Nat → Nat) (r q v j : Nat) (e : q ≠ r) :
    upd f (s.rounds r) (upd (f (s.rounds r)) r v) j q = f j q := by
  by_cases ej : j = s.rounds r
  · subst ej; simp only [upd_same]; rw [upd_other _ _ _ _ e]
  · rw [upd_other _ _ _ _ ej]

theorem step_gLow {n : Nat} {s s' : Sys} (hi : Inv n s) (st : Step n s s') :
    ∀ k, 0 < s'.cnt (k+1) → ∀ r, r < n →
      s'.snapS k r ≤ s'.gS (k+1) r ∧ s'.snapR k r ≤ s'.gR (k+1) r := by
  intro k
  have h0 := hi.gLow k
  cases st with
  | issue r hr h => simpa using h0
  | start r hr hu hb => simpa using h0
  | finish r hr hb => simpa using h0
  | regcb r hr h => simpa using h0
  | runcb r k j hr hc hb => simpa using h0
  | enter r hr hi' he hb => simpa using h0
  | contribute r hr hi' hb hc hg =>
    simp only
    by_cases ek : k = s.rounds r
    · -- a contribution to round k while round k+1 has started: impossible
      subst ek
      have ne1 : s.rounds r + 1 ≠ s.rounds r := by omega
      rw [upd_other _ _ _ _ ne1]
      intro hpos; exact (contrib_not_full hi r hr (hi.ord _ hpos)).elim
    · rw [upd_other _ _ _ _ ek, upd_other _ _ _ _ ek]
      by_cases ek1 : k + 1 = s.rounds r
      · -- contribution to round k+1
        have hfull : s.cnt k = n := hi.gotC r hr k (by omega)
        have hall := all_rounds_gt hi k hfull
        by_cases hc0 : s.cnt (s.rounds r) = 0
        · simp only [hc0, if_true]
          rw [ek1]; simp only [upd_same]
          intro _ q hq; exact hi.monoNow q hq k (hall q hq)
        · simp only [hc0, if_false]
          intro _ q hq; exact h0 (by rw [ek1]; omega) q hq
      · rw [upd_other _ _ _ _ ek1]
        by_cases hc0 : s.cnt (s.rounds r) = 0
        · simp only [hc0, if_true]
          rw [upd_other _ _ _ _ ek1, upd_other _ _ _ _ ek1]; exact h0
        · simp only [hc0, if_false]; exact h0
  | result r hr hi' hg hc => simpa using h0
  | exit r hr hi' hg h1 h2 => simpa using h0

theorem step_gHigh {n : Nat} {s s' : Sys} (hi : Inv n s) (st : Step n s s') :
    ∀ k, 0 < s'.cnt k → ∀ r, r < n → k < s'.rounds r →
      s'.gS k r ≤ s'.snapS k r ∧ s'.gR k r ≤ s'.snapR k r := by
  intro k
  have h0 := hi.gHigh k
  cases st with
  | issue r hr h => simpa using h0
  | start r hr hu hb => simpa using h0
  | finish r hr hb => simpa using h0
  | regcb r hr h => simpa using h0
  | runcb r k j hr hc hb => simpa using h0
  | enter r hr hi' he hb => simpa using h0
  | contribute r hr hi' hb hc hg =>
    simp only
    intro hpos q hq
    by_cases ek : k = s.rounds r
    · subst ek
      simp only [upd_same]
      by_cases e : q = r
      · subst e
        simp only [upd_same]
        intro _
        by_cases hc0 : s.cnt (s.rounds q) = 0
        · simp only [hc0, if_true, upd_same]; omega
        · simp only [hc0, if_false]; exact hi.gNow _ (by omega) q hq
      · rw [upd_other _ _ _ _ e, upd_other _ _ _ _ e, upd_other _ _ _ _ e]
        intro hlt
        by_cases hc0 : s.cnt (s.rounds r) = 0
        · exact (none_rounds_gt hi _ hc0 q hq hlt).elim
        · simp only [hc0, if_false]; exact h0 (by omega) q hq hlt
    · rw [upd_other _ _ _ _ ek] at hpos
      rw [upd_other _ _ _ _ ek, upd_other _ _ _ _ ek]
      have hg' : (if s.cnt (s.rounds r) = 0 then upd s.gS (s.rounds r) s.sent else s.gS) k = s.gS k := by
        split
        · rw [upd_other _ _ _ _ ek]
        · rfl
      have hg'' : (if s.cnt (s.rounds r) = 0 then upd s.gR (s.rounds r) s.recvd else s.gR) k = s.gR k := by
        split
        · rw [upd_other _ _ _ _ ek]
        · rfl
      rw [hg', hg'']
      by_cases e : q = r
      · subst e; simp only [upd_same]; intro hlt; exact h0 hpos q hq (by omega)
      · rw [upd_other _ _ _ _ e]; exact h0 hpos q hq
  | result r hr hi' hg hc => simpa using h0
  | exit r hr hi' hg h1 h2 => simpa using h0


theorem step_res {n : Nat} {s s' : Sys} (hi : Inv n s) (st : Step n s s') :
    ∀ r, r < n → s'.inBar r = true →
        (s'.got r = 0 → s'.cur r = (3,4)) ∧
        (s'.got r = 1 → s'.prev r = (3,4)) ∧
        (∀ k, s'.got r = k + 1 → s'.cur r = (s'.accR k, s'.accS k)) ∧
        (∀ k, s'.got r = k + 2 → s'.prev r = (s'.accR k, s'.accS k)) := by
  intro q hq
  have h0 := hi.res q hq
  cases st with
  | issue r hr h => simpa using h0
  | start r hr hu hb => simpa using h0
  | finish r hr hb => simpa using h0
  | regcb r hr h => simpa using h0
  | runcb r k j hr hc hb => simpa using h0
  | enter r hr hi' he hb =>
    simp only
    by_cases e : q = r
    · subst e
      have := hi.fresh q hq hi' he
      simp only [upd_same]
      intro _
      refine ⟨?_, ?_, ?_, ?_⟩ <;> intros <;> first | trivial | rfl | omega
    · rw [upd_other _ _ _ _ e, upd_other _ _ _ _ e, upd_other _ _ _ _ e]; exact h0
  | contribute r hr hi' hb hc hg =>
    simp only
    intro hin
    obtain ⟨a, b, c, d⟩ := h0 hin
    refine ⟨a, b, ?_, ?_⟩
    · intro k hk
      by_cases ek : k = s.rounds r
      · subst ek; exact (contrib_not_full hi r hr (hi.gotC q hq _ (by omega))).elim
      · rw [upd_other _ _ _ _ ek, upd_other _ _ _ _ ek]; exact c k hk
    · intro k hk
      by_cases ek : k = s.rounds r
      · subst ek; exact (contrib_not_full hi r hr (hi.gotC q hq _ (by omega))).elim
      · rw [upd_other _ _ _ _ ek, upd_other _ _ _ _ ek]; exact d k hk
  | result r hr hi' hg hc =>
    simp only
    by_cases e : q = r
    · subst e
      simp only [upd_same]
      intro hin
      obtain ⟨a, b, c, d⟩ := h0 hin
      refine ⟨fun h => by omega, fun h => a (by omega), ?_, ?_⟩
      · intro k hk
        have : k = s.got q := by omega
        subst this; rfl
      · intro k hk
        exact c k (by omega)
    · rw [upd_other _ _ _ _ e, upd_other _ _ _ _ e, upd_other _ _ _ _ e]; exact h0
  | exit r hr hi' hg h1 h2 =>
    simp only
    by_cases e : q = r
    · subst e; simp
    · rw [upd_other _ _ _ _ e]; exact h0

theorem step_fresh {n : Nat} {s s' : Sys} (hi : Inv n s) (st : Step n s s') :
    ∀ r, r < n → s'.inBar r = false → s'.exited r = false → s'.rounds r = 0 ∧ s'.got r = 0 := by
  intro q hq
  have h0 := hi.fresh q hq
  cases st with
  | issue r hr h => simpa using h0
  | start r hr hu hb => simpa using h0
  | finish r hr hb => simpa using h0
  | regcb r hr h => simpa using h0
  | runcb r k j hr hc hb => simpa using h0
  | enter r hr hi' he hb =>
    simp only
    by_cases e : q = r
    · subst e; simp
    · rw [upd_other _ _ _ _ e]; exact h0
  | contribute r hr hi' hb hc hg =>
    simp only
    by_cases e : q = r
    · subst e; intro h; rw [hi'] at h; cases h
    · rw [upd_other _ _ _ _ e]; exact h0
  | result r hr hi' hg hc =>
    simp only
    by_cases e : q = r
    · subst e; intro h; rw [hi'] at h; cases h
    · rw [upd_other _ _ _ _ e]; exact h0
  | exit r hr hi' hg h1 h2 =>
    simp only
    by_cases e : q = r
    · subst e; simp
    · rw [upd_other _ _ _ _ e, upd_other _ _ _ _ e]; exact h0

theorem step_cbI {n : Nat} {s s' : Sys} (hi : Inv n s) (st : Step n s s') :
    ∀ r, r < n → s'.inBar r = true → ∀ k, s'.rounds r = k + 1 → 0 < s'.cbs r →
        s'.busy r = true ∨ s'.snapR k r < s'.recvd r := by
  intro q hq
  have h0 := hi.cbI q hq
  cases st with
  | issue r hr h => simpa using h0
  | start r hr hu hb =>
    simp only
    by_cases e : q = r
    · subst e; simp
    · rw [upd_other _ _ _ _ e]; exact h0
  | finish r hr hb =>
    simp only
    by_cases e : q = r
    · subst e; simp only [upd_same]
      intro hin k hk _
      have := (hi.monoNow q hq k (by omega)).2
      right; omega
    · rw [upd_other _ _ _ _ e, upd_other _ _ _ _ e]; exact h0
  | regcb r hr h =>
    simp only
    by_cases e : q = r
    · subst e; simp only [upd_same]
      intro hin k hk _
      rcases h with h | h
      · rw [hin] at h; cases h
      · left; exact h
    · rw [upd_other _ _ _ _ e]; exact h0
  | runcb r k j hr hc hb =>
    simp only
    by_cases e : q = r
    · subst e; simp only [upd_same]
      intro hin k hk _
      exact h0 hin k hk hc
    · rw [upd_other _ _ _ _ e]; exact h0
  | enter r hr hi' he hb =>
    simp only
    by_cases e : q = r
    · subst e
      have := hi.fresh q hq hi' he
      intro _ k hk; omega
    · rw [upd_other _ _ _ _ e]; exact h0
  | contribute r hr hi' hb hc hg =>
    simp only
    by_cases e : q = r
    · subst e; intro _ k _ hpos; omega
    · rw [upd_other _ _ _ _ e]
      intro hin k hk hpos
      rw [snap_other s.snapR r q _ k e]
      exact h0 hin k hk hpos
  | result r hr hi' hg hc => simpa using h0
  | exit r hr hi' hg h1 h2 =>
    simp only
    by_cases e : q = r
    · subst e; simp
    · rw [upd_other _ _ _ _ e]; exact h0


theorem dead_at_first {n : Nat} {s : Sys} (hi : Inv n s) (r : Nat) (hr : r < n) (k : Nat)
    (hk : s.rounds r = k + 1) (hg : s.rounds r = s.got r) (hc0 : s.cnt (k+1) = 0)
    (hsum : sumTo n s.sent = sumTo n s.recvd) (hsnap : ∀ q, q < n → s.recvd q = s.snapR k q)
    (hne : NoneExited n s) : Dead n s := by
  have hl := hi.ledger
  have hz : sumTo n (fun q => b2n (s.busy q)) = 0 := by omega
  have hund : s.und = 0 := by omega
  have hfull : s.cnt k = n := hi.gotC r hr k (by omega)
  have hall := all_rounds_gt hi k hfull
  have hnone := none_rounds_gt hi (k+1) hc0
  refine ⟨hund, ?_⟩
  intro q hq
  have hb : s.busy q = false := by
    have := sumTo_zero_all n _ hz q hq
    simp only [b2n] at this
    cases hbq : s.busy q
    · rfl
    · rw [hbq] at this; simp at this
  have hrq : s.rounds q = k + 1 := by
    have a := hall q hq
    have b := hnone q hq
    omega
  have hex : s.exited q = false := hne q hq
  have hin : s.inBar q = true := by
    cases hiq : s.inBar q
    · have := hi.fresh q hq hiq hex; omega
    · rfl
  have hcb : s.cbs q = 0 := by
    rcases Nat.eq_zero_or_pos (s.cbs q) with h | h
    · exact h
    · rcases hi.cbI q hq hin k hrq h with h1 | h1
      · rw [hb] at h1; cases h1
      · have := hsnap q hq; omega
  exact ⟨hb, hcb, hin, hex⟩

theorem step_hI {n : Nat} {s s' : Sys} (hi : Inv n s) (st : Step n s s') :
    ∀ k, 0 < s'.cnt (k+1) → sumTo n (s'.gS (k+1)) = sumTo n (s'.gR (k+1)) →
        (∀ r, r < n → s'.gR (k+1) r = s'.snapR k r) → s'.gNoExit (k+1) → s'.gDead (k+1) := by
  intro k
  have h0 := hi.hI k
  cases st with
  | issue r hr h => simpa using h0
  | start r hr hu hb => simpa using h0
  | finish r hr hb => simpa using h0
  | regcb r hr h => simpa using h0
  | runcb r k j hr hc hb => simpa using h0
  | enter r hr hi' he hb => simpa using h0
  | contribute r hr hi' hb hc hg =>
    simp only
    by_cases ek : k = s.rounds r
    · subst ek
      have ne1 : s.rounds r + 1 ≠ s.rounds r := by omega
      rw [upd_other _ _ _ _ ne1]
      intro hpos; exact (contrib_not_full hi r hr (hi.ord _ hpos)).elim
    · have hsn : ∀ q, upd s.snapR (s.rounds r) (upd (s.snapR (s.rounds r)) r (s.recvd r)) k q = s.snapR k q := by
        intro q; rw [upd_other _ _ _ _ ek]
      by_cases ek1 : k + 1 = s.rounds r
      · by_cases hc0 : s.cnt (s.rounds r) = 0
        · simp only [hc0, if_true]
          rw [ek1]; simp only [upd_same]
          intro _ hsum hsnap hne
          apply dead_at_first hi r hr k ek1.symm hg (by rw [ek1]; exact hc0) hsum _ hne
          intro q hq; rw [← hsn q]; exact hsnap q hq
        · simp only [hc0, if_false]
          intro _ hsum hsnap hne
          apply h0 (by rw [ek1]; omega) hsum _ hne
          intro q hq; rw [← hsn q]; exact hsnap q hq
      · rw [upd_other _ _ _ _ ek1]
        have e1 : (if s.cnt (s.rounds r) = 0 then upd s.gS (s.rounds r) s.sent else s.gS) (k+1) = s.gS (k+1) := by
          split
          · rw [upd_other _ _ _ _ ek1]
          · rfl
        have e2 : (if s.cnt (s.rounds r) = 0 then upd s.gR (s.rounds r) s.recvd else s.gR) (k+1) = s.gR (k+1) := by
          split
          · rw [upd_other _ _ _ _ ek1]
          · rfl
        have e3 : (if s.cnt (s.rounds r) = 0 then upd s.gDead (s.rounds r) (Dead n s) else s.gDead) (k+1) = s.gDead (k+1) := by
          split
          · rw [upd_other _ _ _ _ ek1]
          · rfl
        have e4 : (if s.cnt (s.rounds r) = 0 then upd s.gNoExit (s.rounds r) (NoneExited n s) else s.gNoExit) (k+1) = s.gNoExit (k+1) := by
          split
          · rw [upd_other _ _ _ _ ek1]
          · rfl
        rw [e1, e2, e3, e4]
        intro hpos hsum hsnap hne
        apply h0 hpos hsum _ hne
        intro q hq; rw [← hsn q]; exact hsnap q hq
  | result r hr hi' hg hc => simpa using h0
  | exit r hr hi' hg h1 h2 => simpa using h0


theorem step_neI {n : Nat} {s s' : Sys} (hi : Inv n s) (st : Step n s s') :
    ∀ k, 0 < s'.cnt k → NoneExited n s' → s'.gNoExit k := by
  intro k
  have h0 := hi.neI k
  cases st with
  | issue r hr h => simpa [NoneExited] using h0
  | start r hr hu hb => simpa [NoneExited] using h0
  | finish r hr hb => simpa [NoneExited] using h0
  | regcb r hr h => simpa [NoneExited] using h0
  | runcb r k j hr hc hb => simpa [NoneExited] using h0
  | enter r hr hi' he hb => simpa [NoneExited] using h0
  | contribute r hr hi' hb hc hg =>
    simp only
    intro hp hne
    have hne' : NoneExited n s := hne
    by_cases ek : k = s.rounds r
    · subst ek
      by_cases hc0 : s.cnt (s.rounds r) = 0
      · simp only [hc0, if_true, upd_same]; exact hne'
      · simp only [hc0, if_false]; exact h0 (by omega) hne'
    · rw [upd_other _ _ _ _ ek] at hp
      have e4 : (if s.cnt (s.rounds r) = 0 then upd s.gNoExit (s.rounds r) (NoneExited n s) else s.gNoExit) k = s.gNoExit k := by
        split
        · rw [upd_other _ _ _ _ ek]
        · rfl
      rw [e4]; exact h0 hp hne'
  | result r hr hi' hg hc => simpa [NoneExited] using h0
  | exit r hr hi' hg h1 h2 =>
    simp only [NoneExited]
    intro _ hne
    have := hne r hr
    simp at this

theorem step_deadI {n : Nat} {s s' : Sys} (hi : Inv n s) (st : Step n s s') :
    ∀ k, 0 < s'.cnt k → s'.gDead k → NoneExited n s' → Dead n s' := by
  intro k
  have h0 := hi.deadI k
  cases st with
  | issue r hr h =>
    simp only [NoneExited]; intro hp hd hne
    have hd' := h0 hp hd hne
    obtain ⟨_, hall⟩ := hd'
    obtain ⟨hb, _, hin, _⟩ := hall r hr
    rcases h with h | h
    · rw [hin] at h; cases h
    · rw [hb] at h; cases h
  | start r hr hu hb =>
    simp only [NoneExited]; intro hp hd hne
    have hd' := h0 hp hd hne
    have := hd'.1; omega
  | finish r hr hb =>
    simp only [NoneExited]; intro hp hd hne
    have hd' := h0 hp hd hne
    have := (hd'.2 r hr).1; rw [hb] at this; cases this
  | regcb r hr h =>
    simp only [NoneExited]; intro hp hd hne
    have hd' := h0 hp hd hne
    obtain ⟨hb, _, hin, _⟩ := hd'.2 r hr
    rcases h with h | h
    · rw [hin] at h; cases h
    · rw [hb] at h; cases h
  | runcb r k j hr hc hb =>
    simp only [NoneExited]; intro hp hd hne
    have hd' := h0 hp hd hne
    have := (hd'.2 r hr).2.1; omega
  | enter r hr hi' he hb =>
    simp only [NoneExited]; intro hp hd hne
    have hd' := h0 hp hd hne
    have := (hd'.2 r hr).2.2.1; rw [hi'] at this; cases this
  | contribute r hr hi' hb hc hg =>
    simp only
    intro hp hd hne
    have hne' : NoneExited n s := hne
    show Dead n s
    by_cases ek : k = s.rounds r
    · subst ek
      by_cases hc0 : s.cnt (s.rounds r) = 0
      · simp only [hc0, if_true, upd_same] at hd; exact hd
      · simp only [hc0, if_false] at hd; exact h0 (by omega) hd hne'
    · rw [upd_other _ _ _ _ ek] at hp
      have e3 : (if s.cnt (s.rounds r) = 0 then upd s.gDead (s.rounds r) (Dead n s) else s.gDead) k = s.gDead k := by
        split
        · rw [upd_other _ _ _ _ ek]
        · rfl
      rw [e3] at hd; exact h0 hp hd hne'
  | result r hr hi' hg hc => simpa [NoneExited, Dead] using h0
  | exit r hr hi' hg h1 h2 =>
    simp only [NoneExited]
    intro _ _ hne
    have := hne r hr
    simp at this

theorem inv_step {n : Nat} {s s' : Sys} (hi : Inv n s) (st : Step n s s') : Inv n s' where
  ledger := step_ledger hi st
  rg := step_rg hi st
  cntI := step_cntI hi st
  accSI := step_accSI hi st
  accRI := step_accRI hi st
  monoNow := step_monoNow hi st
  monoSnap := step_monoSnap hi st
  gotC := step_gotC hi st
  gLow := step_gLow hi st
  gHigh := step_gHigh hi st
  ord := step_ord hi st
  gNow := step_gNow hi st
  res := step_res hi st
  fresh := step_fresh hi st
  cbI := step_cbI hi st
  hI := step_hI hi st
  neI := step_neI hi st
  deadI := step_deadI hi st

theorem sumTo_const_zero (n : Nat) : sumTo n (fun _ => 0) = 0 := by
  induction n with
  | zero => rfl
  | succ k ih => simp only [sumTo]; omega

theorem inv_init {n : Nat} {s : Sys} (h : Init n s) : Inv n s := by
  obtain ⟨hr, hk, hl⟩ := h
  have hz : ∀ k, sumTo n (fun r => if k < s.rounds r then (1:Nat) else 0) = 0 := by
    intro k
    have e : sumTo n (fun r => if k < s.rounds r then (1:Nat) else 0) = sumTo n (fun _ => 0) := by
      apply sumTo_congr; intro i hi; simp [(hr i hi).1]
    rw [e, sumTo_const_zero]
  refine { ledger := ?_, rg := ?_, cntI := ?_, accSI := ?_, accRI := ?_, monoNow := ?_, monoSnap := ?_,
           gotC := ?_, gLow := ?_, gHigh := ?_, ord := ?_, gNow := ?_, res := ?_, fresh := ?_, cbI := ?_,
           hI := ?_, neI := ?_, deadI := ?_ }
  · exact hl
  · intro r h; have := hr r h; omega
  · intro k; rw [(hk k).1, hz k]
  · intro k; rw [(hk k).2.2]
    have e : sumTo n (fun r => if k < s.rounds r then s.snapS k r else 0) = sumTo n (fun _ => 0) := by
      apply sumTo_congr; intro i hi; simp [(hr i hi).1]
    rw [e, sumTo_const_zero]
  · intro k; rw [(hk k).2.1]
    have e : sumTo n (fun r => if k < s.rounds r then s.snapR k r else 0) = sumTo n (fun _ => 0) := by
      apply sumTo_congr; intro i hi; simp [(hr i hi).1]
    rw [e, sumTo_const_zero]
  · intro r h k hlt; have := hr r h; omega
  · intro r h k hlt; have := hr r h; omega
  · intro r h k hlt; have := hr r h; omega
  · intro k hp; have := (hk (k+1)).1; omega
  · intro k hp; have := (hk k).1; omega
  · intro k hp; have := (hk (k+1)).1; omega
  · intro k hp; have := (hk k).1; omega
  · intro r h hin; have := (hr r h).2.2.1; rw [hin] at this; cases this
  · intro r h _ _; have := hr r h; exact ⟨this.1, this.2.1⟩
  · intro r h hin; have := (hr r h).2.2.1; rw [hin] at this; cases this
  · intro k hp; have := (hk (k+1)).1; omega
  · intro k hp; have := (hk k).1; omega
  · intro k hp; have := (hk k).1; omega

theorem reachable_inv {n : Nat} {s : Sys} (h : Reachable n s) : Inv n s := by
  induction h with
  | init s h => exact inv_init h
  | step s s' _ st ih => exact inv_step ih st

/-- C02 core: when some rank may leave the barrier and nobody has left yet, every rank has
entered, nothing is in flight, no handler is running, no callback is pending. -/
theorem exit_dead_reachable {n : Nat} {s : Sys} (h : Reachable n s)
    (hne : NoneExited n s) (r : Nat) (hr : r < n) (hx : ExitEnabled s r) : Dead n s :=
  exit_dead (reachable_inv h) hne r hr hx

end YgmVerif.Barrier
