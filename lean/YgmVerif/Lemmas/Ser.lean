import YgmVerif.Model.Ser
import YgmVerif.Lemmas.Out
/-! Helper lemmas for the serialize / deserialize model (`YgmVerif.Ser`). -/
namespace YgmVerif.Ser

/-! ### JSON string tokens -/

theorem hex4_ctrl : ∀ n, n < 32 → hex4 48 48 (hexDigit (n / 16)) (hexDigit (n % 16)) = some n := by decide

theorem consTo_nil (p : Option (Bytes × Bytes)) : consTo [] p = p := by
  cases p <;> simp [consTo]

theorem unescapeBody_escapeByte (c : UInt8) (tl : Bytes) :
    unescapeBody (escapeByte c ++ tl) = consTo [c] (unescapeBody tl) := by
  unfold escapeByte
  split
  · rename_i h; subst h; rw [unescapeBody.eq_def]; simp [simpleEsc]
  split
  · rename_i h; subst h; rw [unescapeBody.eq_def]; simp [simpleEsc]
  split
  · rename_i h; subst h; rw [unescapeBody.eq_def]; simp [simpleEsc]
  split
  · rename_i h; subst h; rw [unescapeBody.eq_def]; simp [simpleEsc]
  split
  · rename_i h; subst h; rw [unescapeBody.eq_def]; simp [simpleEsc]
  split
  · rename_i h; subst h; rw [unescapeBody.eq_def]; simp [simpleEsc]
  split
  · rename_i h; subst h; rw [unescapeBody.eq_def]; simp [simpleEsc]
  split
  · rename_i h1 h2 h3 h4 h5 h6 h7 h
    have hn : c.toNat < 32 := by simpa [UInt8.lt_iff_toNat_lt] using h
    have hx := hex4_ctrl c.toNat hn
    rw [unescapeBody.eq_def]
    simp only [List.cons_append, List.nil_append]
    simp only [show (92 : UInt8) ≠ 34 by decide, if_false, if_true, hx]
    have hs : ¬ (0xD800 ≤ c.toNat ∧ c.toNat ≤ 0xDBFF) := by omega
    simp only [hs, if_false]
    have hu : utf8 c.toNat = [c] := by
      unfold utf8
      simp [show c.toNat ≤ 0x7F by omega]
    rw [hu]
  · rename_i h1 h2 h3 h4 h5 h6 h7 h
    rw [unescapeBody.eq_def]
    simp only [List.cons_append, List.nil_append, h1, h2, h, if_false]

theorem unescapeBody_escapeBody (bs rest : Bytes) :
    unescapeBody (escapeBody bs ++ 34 :: rest) = some (bs, rest) := by
  induction bs with
  | nil => rw [unescapeBody.eq_def]; simp [escapeBody]
  | cons c cs ih =>
    have : escapeBody (c :: cs) ++ 34 :: rest = escapeByte c ++ (escapeBody cs ++ 34 :: rest) := by
      simp [escapeBody]
    rw [this, unescapeBody_escapeByte, ih]
    simp [consTo]

theorem unescape_escape (bs : Bytes) : unescape (escape bs) = some bs := by
  unfold escape unescape
  simp only [if_true]
  rw [show escapeBody bs ++ [34] = escapeBody bs ++ 34 :: [] from rfl, unescapeBody_escapeBody]

/-! ### cstr -/

theorem cstr_eq_self_iff (bs : Bytes) : cstr bs = bs ↔ (0 : UInt8) ∉ bs := by
  unfold cstr
  induction bs with
  | nil => simp
  | cons b bs ih =>
    by_cases h : b = 0
    · subst h; simp
    · simp only [List.takeWhile_cons, ne_eq, h, not_false_eq_true, decide_true, if_true,
        List.cons.injEq, true_and, List.mem_cons, not_or]
      rw [ih]
      constructor
      · intro h'; exact ⟨fun e => h e.symm, h'⟩
      · intro h'; exact h'.2

theorem cstr_no_nul (bs : Bytes) : (0 : UInt8) ∉ cstr bs := by
  unfold cstr
  induction bs with
  | nil => simp
  | cons b bs ih =>
    by_cases h : b = 0
    · subst h; simp
    · simp only [List.takeWhile_cons, ne_eq, h, not_false_eq_true, decide_true, if_true,
        List.mem_cons, not_or]
      exact ⟨fun e => h e.symm, ih⟩

/-! ### the ordered store -/

variable {E K X : Type}

theorem insertLB_perm (key : E → K) (lt : K → K → Bool) (x : E) (l : List E) :
    (insertLB key lt x l).Perm (x :: l) := by
  induction l with
  | nil => exact List.Perm.refl _
  | cons y ys ih =>
    unfold insertLB
    split
    · exact (List.Perm.cons y ih).trans (List.Perm.swap x y ys)
    · exact List.Perm.refl _

theorem foldl_insertLB_perm (key : E → K) (lt : K → K → Bool) (xs acc : List E) :
    (xs.foldl (fun acc x => insertLB key lt x acc) acc).Perm (acc ++ xs) := by
  induction xs generalizing acc with
  | nil => simp
  | cons x xs ih =>
    simp only [List.foldl_cons]
    refine (ih _).trans ?_
    have h1 : (insertLB key lt x acc ++ xs).Perm ((x :: acc) ++ xs) :=
      List.Perm.append_right xs (insertLB_perm key lt x acc)
    refine h1.trans ?_
    simp only [List.cons_append]
    exact (List.perm_middle (a := x) (l₁ := acc) (l₂ := xs)).symm

theorem rebuild_perm (d : Disc) (key : E → K) (lt : K → K → Bool) (xs : List E) :
    (rebuild d key lt xs).Perm xs := by
  cases d with
  | seq => exact List.Perm.refl _
  | tree => simpa [rebuild] using foldl_insertLB_perm key lt xs []

/-- inserting an element whose key is above every key present appends it -/
theorem insertLB_append (key : E → K) (lt : K → K → Bool) (x : E) (l : List E)
    (h : ∀ y ∈ l, lt (key y) (key x) = true) : insertLB key lt x l = l ++ [x] := by
  induction l with
  | nil => rfl
  | cons y ys ih =>
    unfold insertLB
    rw [if_pos (h y (by simp)), ih (fun z hz => h z (by simp [hz]))]
    rfl

/-- strictly increasing keys (what a store with unique keys iterates) -/
def StrictSorted (key : E → K) (lt : K → K → Bool) (l : List E) : Prop :=
  l.Pairwise (fun a b => lt (key a) (key b) = true)

/-- non-decreasing keys (what any `std::multimap` / `std::multiset` iterates) -/
def WeakSorted (key : E → K) (lt : K → K → Bool) (l : List E) : Prop :=
  l.Pairwise (fun a b => lt (key b) (key a) = false)

theorem foldl_insertLB_strict (key : E → K) (lt : K → K → Bool) (xs acc : List E)
    (h : StrictSorted key lt (acc ++ xs)) :
    xs.foldl (fun acc x => insertLB key lt x acc) acc = acc ++ xs := by
  induction xs generalizing acc with
  | nil => simp
  | cons x xs ih =>
    simp only [List.foldl_cons]
    have hx : ∀ y ∈ acc, lt (key y) (key x) = true := by
      intro y hy
      unfold StrictSorted at h
      rw [List.pairwise_append] at h
      exact h.2.2 y hy x (by simp)
    rw [insertLB_append key lt x acc hx, ih]
    · simp
    · simpa using h

theorem rebuild_strict (key : E → K) (lt : K → K → Bool) (xs : List E)
    (h : StrictSorted key lt xs) : rebuild .tree key lt xs = xs := by
  simpa [rebuild] using foldl_insertLB_strict key lt xs [] (by simpa using h)

theorem mem_insertLB (key : E → K) (lt : K → K → Bool) (x z : E) (l : List E) :
    z ∈ insertLB key lt x l ↔ z = x ∨ z ∈ l := by
  rw [(insertLB_perm key lt x l).mem_iff]; simp

theorem insertLB_weakSorted (key : E → K) (lt : K → K → Bool)
    (asymm : ∀ a b, lt a b = true → lt b a = false)
    (negTrans : ∀ a b c, lt a b = false → lt b c = false → lt a c = false)
    (x : E) (l : List E) (h : WeakSorted key lt l) : WeakSorted key lt (insertLB key lt x l) := by
  induction l with
  | nil => simp [insertLB, WeakSorted]
  | cons y ys ih =>
    unfold WeakSorted at h ⊢
    rw [List.pairwise_cons] at h
    unfold insertLB
    split
    · rename_i hlt
      rw [List.pairwise_cons]
      refine ⟨?_, ih h.2⟩
      intro z hz
      rcases (mem_insertLB key lt x z ys).mp hz with rfl | hz
      · exact asymm _ _ hlt
      · exact h.1 z hz
    · rename_i hlt
      have hyx : lt (key y) (key x) = false := by simpa using hlt
      rw [List.pairwise_cons]
      refine ⟨?_, List.pairwise_cons.mpr h⟩
      intro z hz
      rcases List.mem_cons.mp hz with rfl | hz
      · exact hyx
      · exact negTrans _ _ _ (h.1 z hz) hyx

theorem foldl_insertLB_weakSorted (key : E → K) (lt : K → K → Bool)
    (asymm : ∀ a b, lt a b = true → lt b a = false)
    (negTrans : ∀ a b c, lt a b = false → lt b c = false → lt a c = false)
    (xs acc : List E) (h : WeakSorted key lt acc) :
    WeakSorted key lt (xs.foldl (fun acc x => insertLB key lt x acc) acc) := by
  induction xs generalizing acc with
  | nil => simpa using h
  | cons x xs ih => exact ih _ (insertLB_weakSorted key lt asymm negTrans x acc h)

/-! ### all ranks -/

theorem zipWith_deser_seq (key : E → K) (lt : K → K → Bool) (n : Nat) (c tgt : List (Local E X))
    (hlen : tgt.length = c.length) :
    List.zipWith (deserializeRank .seq key lt) (c.map (serializeRank n)) tgt = c := by
  induction c generalizing tgt with
  | nil => simp
  | cons a as ih =>
    cases tgt with
    | nil => simp at hlen
    | cons t ts =>
      simp only [List.map_cons, List.zipWith_cons_cons, List.cons.injEq]
      exact ⟨rfl, ih ts (by simpa using hlen)⟩

theorem zipWith_deser_strict (key : E → K) (lt : K → K → Bool) (n : Nat) (c tgt : List (Local E X))
    (hlen : tgt.length = c.length) (hs : ∀ l ∈ c, StrictSorted key lt l.items) :
    List.zipWith (deserializeRank .tree key lt) (c.map (serializeRank n)) tgt = c := by
  induction c generalizing tgt with
  | nil => simp
  | cons a as ih =>
    cases tgt with
    | nil => simp at hlen
    | cons t ts =>
      simp only [List.map_cons, List.zipWith_cons_cons, List.cons.injEq]
      refine ⟨?_, ih ts (by simpa using hlen) (fun l hl => hs l (by simp [hl]))⟩
      simp only [deserializeRank, serializeRank]
      rw [rebuild_strict key lt a.items (hs a (by simp))]


theorem cons_eq_append_of_all_eq (x : E) : ∀ ys : List E, (∀ z ∈ ys, z = x) → x :: ys = ys ++ [x]
  | [], _ => rfl
  | y :: ys, h => by
    have hy : y = x := h y (by simp)
    subst hy
    rw [List.cons_append, ← cons_eq_append_of_all_eq y ys (fun z hz => h z (by simp [hz]))]

/-- elements that are their own keys, totally ordered: inserting a maximal element appends it,
even when equal elements are present -/
theorem insertLB_append_id (lt : E → E → Bool)
    (total : ∀ a b, lt a b = false → lt b a = false → a = b)
    (x : E) (l : List E) (hs : WeakSorted id lt l) (h : ∀ y ∈ l, lt x y = false) :
    insertLB id lt x l = l ++ [x] := by
  induction l with
  | nil => rfl
  | cons y ys ih =>
    unfold WeakSorted at hs
    rw [List.pairwise_cons] at hs
    unfold insertLB
    split
    · rw [ih hs.2 (fun z hz => h z (by simp [hz]))]; rfl
    · rename_i hlt
      have hyx : lt y x = false := by simpa using hlt
      have hxy : y = x := total _ _ hyx (h y (by simp))
      subst hxy
      have hall : ∀ z ∈ ys, z = y := fun z hz => total _ _ (hs.1 z hz) (h z (by simp [hz]))
      rw [List.cons_append, ← cons_eq_append_of_all_eq y ys hall]

theorem foldl_insertLB_id (lt : E → E → Bool)
    (total : ∀ a b, lt a b = false → lt b a = false → a = b)
    (xs acc : List E) (h : WeakSorted id lt (acc ++ xs)) :
    xs.foldl (fun acc x => insertLB id lt x acc) acc = acc ++ xs := by
  induction xs generalizing acc with
  | nil => simp
  | cons x xs ih =>
    simp only [List.foldl_cons]
    unfold WeakSorted at h
    have h' := h
    rw [List.pairwise_append] at h'
    have hx : ∀ y ∈ acc, lt x y = false := fun y hy => h'.2.2 y hy x (by simp)
    rw [insertLB_append_id lt total x acc h'.1 hx, ih]
    · simp
    · simpa [WeakSorted] using h

/-! ### pending operations -/

theorem afterBarrier_push (c : Local E X) (arr : List E) :
    (afterBarrier (fun (l : Local E X) x => { l with items := l.items ++ [x] }) c arr).items = c.items ++ arr := by
  unfold afterBarrier
  induction arr generalizing c with
  | nil => simp
  | cons a as ih => simp [List.foldl_cons, ih]

theorem afterBarrier_push_extra (c : Local E X) (arr : List E) :
    (afterBarrier (fun (l : Local E X) x => { l with items := l.items ++ [x] }) c arr).extra = c.extra := by
  unfold afterBarrier
  induction arr generalizing c with
  | nil => simp
  | cons a as ih => simp [List.foldl_cons, ih]

/-! ### `std::string` order -/

theorem bytesLt_cons (a b : UInt8) (as bs : Bytes) :
    bytesLt (a :: as) (b :: bs) = (decide (a < b) || (a == b && bytesLt as bs)) := rfl

theorem bytesLt_asymm : ∀ a b : Bytes, bytesLt a b = true → bytesLt b a = false
  | [], [], h => by simp [bytesLt] at h
  | [], _ :: _, _ => rfl
  | _ :: _, [], h => by simp [bytesLt] at h
  | a :: as, b :: bs, h => by
    rw [bytesLt_cons] at h ⊢
    simp only [Bool.or_eq_true, decide_eq_true_eq, Bool.and_eq_true, beq_iff_eq] at h
    simp only [Bool.or_eq_false_iff, decide_eq_false_iff_not, Bool.and_eq_false_iff, beq_eq_false_iff_ne]
    rcases h with h | ⟨h1, h2⟩
    · refine ⟨?_, Or.inl ?_⟩
      · rw [UInt8.lt_iff_toNat_lt] at h ⊢; omega
      · intro e; subst e; rw [UInt8.lt_iff_toNat_lt] at h; omega
    · subst h1
      refine ⟨?_, Or.inr (bytesLt_asymm as bs h2)⟩
      rw [UInt8.lt_iff_toNat_lt]; omega

theorem bytesLt_negTrans : ∀ a b c : Bytes, bytesLt a b = false → bytesLt b c = false → bytesLt a c = false
  | [], [], [], _, _ => rfl
  | [], [], _ :: _, _, h => by simp [bytesLt] at h
  | [], _ :: _, _, h, _ => by simp [bytesLt] at h
  | _ :: _, _, [], _, _ => rfl
  | _ :: _, [], _ :: _, _, h => by simp [bytesLt] at h
  | a :: as, b :: bs, c :: cs, h1, h2 => by
    rw [bytesLt_cons] at h1 h2 ⊢
    simp only [Bool.or_eq_false_iff, decide_eq_false_iff_not, Bool.and_eq_false_iff, beq_eq_false_iff_ne] at h1 h2 ⊢
    obtain ⟨h1a, h1b⟩ := h1
    obtain ⟨h2a, h2b⟩ := h2
    rw [UInt8.lt_iff_toNat_lt] at h1a h2a
    refine ⟨by rw [UInt8.lt_iff_toNat_lt]; omega, ?_⟩
    by_cases hac : a = c
    · subst hac
      have hab : a = b := UInt8.toNat_inj.mp (by omega)
      subst hab
      right
      rcases h1b with h | h
      · exact absurd rfl h
      rcases h2b with h' | h'
      · exact absurd rfl h'
      exact bytesLt_negTrans as bs cs h h'
    · exact Or.inl hac

theorem bytesLt_total : ∀ a b : Bytes, bytesLt a b = false → bytesLt b a = false → a = b
  | [], [], _, _ => rfl
  | [], _ :: _, h, _ => by simp [bytesLt] at h
  | _ :: _, [], _, h => by simp [bytesLt] at h
  | a :: as, b :: bs, h1, h2 => by
    rw [bytesLt_cons] at h1 h2
    simp only [Bool.or_eq_false_iff, decide_eq_false_iff_not, Bool.and_eq_false_iff, beq_eq_false_iff_ne] at h1 h2
    obtain ⟨h1a, h1b⟩ := h1
    obtain ⟨h2a, h2b⟩ := h2
    rw [UInt8.lt_iff_toNat_lt] at h1a h2a
    have hab : a = b := UInt8.toNat_inj.mp (by omega)
    subst hab
    rcases h1b with h | h
    · exact absurd rfl h
    rcases h2b with h' | h'
    · exact absurd rfl h'
    rw [bytesLt_total as bs h h']

/-! ### written tokens are clean -/

theorem hexDigit_ge : ∀ n, n < 32 → (32 : UInt8) ≤ hexDigit (n / 16) ∧ (32 : UInt8) ≤ hexDigit (n % 16) := by decide

/-- no raw control byte (in particular no raw newline or NUL) inside a written token -/
theorem escapeByte_clean (c : UInt8) : ∀ b ∈ escapeByte c, (32 : UInt8) ≤ b := by
  unfold escapeByte
  split
  · decide
  split
  · decide
  split
  · decide
  split
  · decide
  split
  · decide
  split
  · decide
  split
  · decide
  split
  · rename_i h
    have hn : c.toNat < 32 := by simpa [UInt8.lt_iff_toNat_lt] using h
    obtain ⟨h1, h2⟩ := hexDigit_ge c.toNat hn
    intro b hb
    simp only [List.mem_cons, List.not_mem_nil, or_false] at hb
    rcases hb with rfl | rfl | rfl | rfl | rfl | rfl
    · decide
    · decide
    · decide
    · decide
    · exact h1
    · exact h2
  · rename_i h
    intro b hb
    simp only [List.mem_singleton] at hb
    subst hb
    rw [UInt8.le_iff_toNat_le]
    rw [UInt8.lt_iff_toNat_lt] at h
    simp at h ⊢
    omega

theorem escapeBody_clean (bs : Bytes) : ∀ b ∈ escapeBody bs, (32 : UInt8) ≤ b := by
  intro b hb
  simp only [escapeBody, List.mem_flatten, List.mem_map] at hb
  obtain ⟨l, ⟨c, _, rfl⟩, hb⟩ := hb
  exact escapeByte_clean c b hb

/-! ### set inserts pending at the barrier -/

section setpending
variable {E K X : Type}
theorem mem_setInsert [DecidableEq E] (key : E → K) (lt : K → K → Bool) (l : Local E X) (x z : E) :
    z ∈ (setInsert key lt l x).items ↔ z ∈ l.items ∨ z = x := by
  unfold setInsert
  split
  · rename_i h
    constructor
    · intro hz; exact Or.inl hz
    · rintro (hz | rfl)
      · exact hz
      · exact h
  · simp only [mem_insertLB]
    constructor
    · rintro (h | h)
      · exact Or.inr h
      · exact Or.inl h
    · rintro (h | h)
      · exact Or.inr h
      · exact Or.inl h

theorem mem_afterBarrier_set [DecidableEq E] (key : E → K) (lt : K → K → Bool) (c : Local E X) (arr : List E) (z : E) :
    z ∈ (afterBarrier (setInsert key lt) c arr).items ↔ z ∈ c.items ∨ z ∈ arr := by
  unfold afterBarrier
  induction arr generalizing c with
  | nil => simp
  | cons a as ih =>
    simp only [List.foldl_cons, List.mem_cons]
    rw [ih, mem_setInsert]
    constructor
    · rintro ((h | h) | h)
      · exact Or.inl h
      · exact Or.inr (Or.inl h)
      · exact Or.inr (Or.inr h)
    · rintro (h | h | h)
      · exact Or.inl (Or.inl h)
      · exact Or.inl (Or.inr h)
      · exact Or.inr h

theorem nodup_setInsert [DecidableEq E] (key : E → K) (lt : K → K → Bool) (l : Local E X) (x : E)
    (h : l.items.Nodup) : (setInsert key lt l x).items.Nodup := by
  unfold setInsert
  split
  · exact h
  · rename_i hx
    exact ((insertLB_perm key lt x l.items).nodup_iff).mpr (List.nodup_cons.mpr ⟨hx, h⟩)

theorem nodup_afterBarrier_set [DecidableEq E] (key : E → K) (lt : K → K → Bool) (c : Local E X) (arr : List E)
    (h : c.items.Nodup) : (afterBarrier (setInsert key lt) c arr).items.Nodup := by
  unfold afterBarrier
  induction arr generalizing c with
  | nil => simpa using h
  | cons a as ih => exact ih _ (nodup_setInsert key lt c a h)
end setpending

/-! ### insert / erase sequences -/

section setops
variable {E K X : Type}

theorem mem_applySetOp [DecidableEq E] (key : E → K) (lt : K → K → Bool) (l : Local E X) (o : SetOp E) (x : E) :
    x ∈ (applySetOp key lt l o).items ↔
      (if o.elem = x then (match o with | .ins _ => True | .del _ => False) else x ∈ l.items) := by
  cases o with
  | ins y =>
    simp only [applySetOp, SetOp.elem, mem_setInsert]
    by_cases h : y = x
    · subst h; simp
    · simp [h]; intro e; exact absurd e.symm h
  | del y =>
    simp only [applySetOp, SetOp.elem, List.mem_filter]
    by_cases h : y = x
    · subst h; simp
    · simp [h]; intro _ e; exact h e.symm

theorem mem_after_setops [DecidableEq E] (key : E → K) (lt : K → K → Bool) (c : Local E X) (arr : List (SetOp E)) (x : E) :
    x ∈ (afterBarrier (applySetOp key lt) c arr).items ↔ survives x (decide (x ∈ c.items)) arr = true := by
  unfold afterBarrier survives
  induction arr generalizing c with
  | nil => simp
  | cons o os ih =>
    simp only [List.foldl_cons]
    rw [ih]
    congr 2
    have := mem_applySetOp key lt c o x
    by_cases h : o.elem = x
    · simp only [h, if_true] at this ⊢
      cases o <;> simp_all
    · simp only [h, if_false] at this ⊢
      simp [this]

theorem survives_filter [DecidableEq E] (x : E) (b : Bool) (ops : List (SetOp E)) :
    survives x b ops = survives x b (ops.filter (fun o => o.elem = x)) := by
  unfold survives
  induction ops generalizing b with
  | nil => rfl
  | cons o os ih =>
    by_cases h : o.elem = x
    · simp [h, ih]
    · simp only [List.foldl_cons, h, if_false, List.filter_cons, decide_false]
      exact ih b
end setops

end YgmVerif.Ser
