import YgmVerif.Model.Out
/-! Helper lemmas for the `multi_output` / `daily_output` model (`YgmVerif.Out`). -/
namespace YgmVerif.Out

/-! ### the buffered stream -/

/-- all bytes a stream has accepted so far: written chunks then the buffer -/
def Buf.all (st : Buf) : Bytes := st.written.flatten ++ st.buf

theorem flushBuffer_all (st : Buf) : (flushBuffer st).all = st.all := by
  unfold flushBuffer Buf.all
  split <;> simp

theorem bufferOutput_all (L : Nat) (st : Buf) (s : Bytes) :
    (bufferOutput L st s).all = st.all ++ (s ++ [nl]) := by
  unfold bufferOutput
  simp only
  split
  · rw [flushBuffer_all]; simp [Buf.all]
  · simp [Buf.all]

theorem feed_all (L : Nat) (st : Buf) (lines : List Bytes) :
    (feed L st lines).all = st.all ++ withNl lines := by
  induction lines generalizing st with
  | nil => simp [feed, withNl]
  | cons l ls ih =>
    have : feed L st (l :: ls) = feed L (bufferOutput L st l) ls := rfl
    rw [this, ih, bufferOutput_all]
    simp [withNl]

theorem flushBuffer_buf (st : Buf) : (flushBuffer st).buf = [] := by
  unfold flushBuffer
  split
  · rename_i h; exact List.eq_nil_of_length_eq_zero h
  · rfl

theorem bufferOutput_buf_le (L : Nat) (st : Buf) (s : Bytes) :
    (bufferOutput L st s).buf.length ≤ L := by
  unfold bufferOutput
  simp only
  split
  · rw [flushBuffer_buf]; simp
  · rename_i h; simp only at h ⊢; omega

/-- the written chunks are whole groups of lines -/
def Grouped (st : Buf) (done : List Bytes) : Prop :=
  ∃ (gs : List (List Bytes)) (g : List Bytes), gs.flatten ++ g = done ∧ st.written = gs.map withNl ∧ st.buf = withNl g ∧ ∀ x ∈ gs, x ≠ []

theorem withNl_eq_nil {g : List Bytes} (h : withNl g = []) : g = [] := by
  cases g with
  | nil => rfl
  | cons a as => simp [withNl] at h

theorem withNl_append (a b : List Bytes) : withNl (a ++ b) = withNl a ++ withNl b := by
  simp [withNl]

theorem flushBuffer_grouped (st : Buf) (done : List Bytes) (h : Grouped st done) :
    Grouped (flushBuffer st) done := by
  obtain ⟨gs, g, h1, h2, h3, h4⟩ := h
  unfold flushBuffer
  split
  · exact ⟨gs, g, h1, h2, h3, h4⟩
  · rename_i hne
    refine ⟨gs ++ [g], [], by simp [h1], by simp [h2, h3], rfl, ?_⟩
    intro x hx
    rcases List.mem_append.mp hx with hx | hx
    · exact h4 x hx
    · simp at hx; subst hx
      intro hg; subst hg; apply hne; rw [h3]; rfl

theorem bufferOutput_grouped (L : Nat) (st : Buf) (done : List Bytes) (s : Bytes) (h : Grouped st done) :
    Grouped (bufferOutput L st s) (done ++ [s]) := by
  have h' : Grouped ⟨st.buf ++ s ++ [nl], st.written⟩ (done ++ [s]) := by
    obtain ⟨gs, g, h1, h2, h3, h4⟩ := h
    refine ⟨gs, g ++ [s], by rw [← h1]; simp, h2, ?_, h4⟩
    simp [h3, withNl]
  unfold bufferOutput
  simp only
  split
  · exact flushBuffer_grouped _ _ h'
  · exact h'

theorem feed_grouped (L : Nat) (st : Buf) (done lines : List Bytes) (h : Grouped st done) :
    Grouped (feed L st lines) (done ++ lines) := by
  induction lines generalizing st done with
  | nil => simpa [feed] using h
  | cons l ls ih =>
    have : feed L st (l :: ls) = feed L (bufferOutput L st l) ls := rfl
    rw [this]
    have := ih (bufferOutput L st l) (done ++ [l]) (bufferOutput_grouped L st done l h)
    simpa using this

theorem splitNl_line (l rest : Bytes) (h : nl ∉ l) :
    splitNl (l ++ nl :: rest) = (l :: (splitNl rest).1, (splitNl rest).2) := by
  induction l with
  | nil => simp [splitNl]
  | cons c cs ih =>
    have hc : c ≠ nl := fun e => h (by simp [e])
    have hcs : nl ∉ cs := fun e => h (by simp [e])
    simp only [List.cons_append, splitNl, ih hcs, hc, if_false]

theorem splitNl_withNl (lines : List Bytes) (h : ∀ l ∈ lines, nl ∉ l) :
    splitNl (withNl lines) = (lines, []) := by
  induction lines with
  | nil => simp [withNl, splitNl]
  | cons l ls ih =>
    have : withNl (l :: ls) = l ++ nl :: withNl ls := by simp [withNl]
    rw [this, splitNl_line l _ (h l (by simp)), ih (fun x hx => h x (by simp [hx]))]

/-! ### routing -/

section routing
variable {S : Type} [DecidableEq S]

theorem linesFor_perm {a b : List (Write S)} (h : a.Perm b) (s : S) :
    (linesFor a s).Perm (linesFor b s) := (h.filter _).map _

theorem linesFor_append (a b : List (Write S)) (s : S) :
    linesFor (a ++ b) s = linesFor a s ++ linesFor b s := by
  simp [linesFor]

theorem linesFor_flatten (hist : List (List (Write S))) (s : S) :
    linesFor hist.flatten s = (hist.map (linesFor · s)).flatten := by
  induction hist with
  | nil => rfl
  | cons h t ih => simp [linesFor_append, ih]

theorem linesFor_destined_owner (hash : S → Nat) (n : Nat) (hist : List (List (Write S))) (s : S) :
    linesFor (destinedTo hash n hist (owner hash n s)) s = linesFor (allWrites hist) s := by
  unfold linesFor destinedTo
  rw [List.filter_filter]
  congr 1
  apply List.filter_congr
  intro w _
  by_cases h : w.1 = s <;> simp [h]

theorem linesFor_destined_other (hash : S → Nat) (n : Nat) (hist : List (List (Write S))) (s : S) (r : Nat)
    (hr : r ≠ owner hash n s) : linesFor (destinedTo hash n hist r) s = [] := by
  unfold linesFor destinedTo
  rw [List.filter_filter]
  simp only [List.map_eq_nil_iff, List.filter_eq_nil_iff]
  intro w _
  by_cases h : w.1 = s
  · subst h; simp; exact fun e => hr e.symm
  · simp [h]
end routing

/-! ### civil date arithmetic -/

theorem yoe_eq (doe c q t : Nat) (hc : c ≤ 3) (hq : q ≤ 24) (ht : t ≤ 1460)
    (hqt : q = 24 → c < 3 → t ≤ 1459)
    (hd : doe = 36524 * c + 1461 * q + t) :
    yoeOf doe = 100 * c + 4 * q + (if t ≥ 1095 then 3 else t / 365) := by
  unfold yoeOf
  by_cases hlast : doe = 146096
  · subst hlast
    have : c = 3 ∧ q = 24 ∧ t = 1460 := by omega
    obtain ⟨rfl, rfl, rfl⟩ := this
    decide
  have h1 : doe / 36524 = c := by omega
  have h2 : doe / 146096 = 0 := by omega
  rw [h1, h2]
  by_cases hδ : 24 * c + q + t < 1460
  · have h3 : doe / 1460 = 25 * c + q := by omega
    rw [h3]
    have h4 : doe - (25 * c + q) + c - 0 = 365 * (100 * c + 4 * q) + t := by omega
    rw [h4]
    split <;> omega
  · have h3 : doe / 1460 = 25 * c + q + 1 := by omega
    rw [h3]
    have h4 : doe - (25 * c + q + 1) + c - 0 = 365 * (100 * c + 4 * q) + (t - 1) := by omega
    rw [h4]
    split <;> omega

/-- every day of an era has a (century, 4-year cycle, day in cycle) decomposition -/
theorem doe_decomp (doe : Nat) (h : doe < 146097) :
    ∃ c q t, c ≤ 3 ∧ q ≤ 24 ∧ t ≤ 1460 ∧ (q = 24 → c < 3 → t ≤ 1459) ∧ doe = 36524 * c + 1461 * q + t := by
  by_cases hlast : doe = 146096
  · exact ⟨3, 24, 1460, by omega, by omega, by omega, by omega, by omega⟩
  · by_cases hq : doe % 36524 / 1461 = 25
    · exact ⟨doe / 36524, 24, doe % 36524 % 1461 + 1461, by omega, by omega, by omega, by omega, by omega⟩
    · exact ⟨doe / 36524, doe % 36524 / 1461, doe % 36524 % 1461, by omega, by omega, by omega, by omega, by omega⟩

/-- normal form of the year computation: year of era, and day of that year -/
theorem yoe_doy (doe c q t : Nat) (hc : c ≤ 3) (hq : q ≤ 24) (ht : t ≤ 1460)
    (hqt : q = 24 → c < 3 → t ≤ 1459) (hd : doe = 36524 * c + 1461 * q + t) :
    ∃ yy, yy ≤ 3 ∧ (yy = 3 ∨ t < 365 * (yy + 1)) ∧ 365 * yy ≤ t ∧
      yoeOf doe = 100 * c + 4 * q + yy ∧ yearStart (yoeOf doe) + (t - 365 * yy) = doe := by
  refine ⟨if t ≥ 1095 then 3 else t / 365, ?_, ?_, ?_, yoe_eq doe c q t hc hq ht hqt hd, ?_⟩
  · split <;> omega
  · split <;> omega
  · split <;> omega
  · rw [yoe_eq doe c q t hc hq ht hqt hd]
    unfold yearStart
    generalize hyy : (if t ≥ 1095 then 3 else t / 365) = yy
    have h3 : yy ≤ 3 := by rw [← hyy]; split <;> omega
    have h4 : 365 * yy ≤ t := by rw [← hyy]; split <;> omega
    have h1 : (100 * c + 4 * q + yy) / 4 = 25 * c + q := by omega
    have h2 : (100 * c + 4 * q + yy) / 100 = c := by omega
    rw [h1, h2]; omega

/-- the year of era is in range; `doe` lies at most 365 days after the start of its year -/
theorem yoe_spec (doe : Nat) (h : doe < 146097) :
    yoeOf doe < 400 ∧ yearStart (yoeOf doe) ≤ doe ∧ doe - yearStart (yoeOf doe) < 366 := by
  obtain ⟨c, q, t, hc, hq, ht, hqt, hd⟩ := doe_decomp doe h
  obtain ⟨yy, h3, h5, h4, hy, hs⟩ := yoe_doy doe c q t hc hq ht hqt hd
  refine ⟨by omega, by omega, ?_⟩
  omega

theorem mdOfDoy_aux (doy mp : Nat) (h : doy < 366) (hmp : mp = (5 * doy + 2) / 153) :
    let m := if mp < 10 then mp + 3 else mp - 9
    let d := doy - (153 * mp + 2) / 5 + 1
    1 ≤ m ∧ m ≤ 12 ∧ 1 ≤ d ∧ d ≤ 31 ∧ (153 * (if m > 2 then m - 3 else m + 9) + 2) / 5 + d - 1 = doy := by
  intro m d
  have hmp11 : mp ≤ 11 := by omega
  by_cases h10 : mp < 10
  · have hm : m = mp + 3 := by simp [m, h10]
    have e : (if m > 2 then m - 3 else m + 9) = mp := by rw [hm]; split <;> omega
    rw [e]; omega
  · have hm : m = mp - 9 := by simp [m, h10]
    have e : (if m > 2 then m - 3 else m + 9) = mp := by rw [hm]; split <;> omega
    rw [e]; omega

theorem mdOfDoy_spec (doy : Nat) (h : doy < 366) :
    1 ≤ (mdOfDoy doy).1 ∧ (mdOfDoy doy).1 ≤ 12 ∧ 1 ≤ (mdOfDoy doy).2 ∧ (mdOfDoy doy).2 ≤ 31 ∧
    (153 * (if (mdOfDoy doy).1 > 2 then (mdOfDoy doy).1 - 3 else (mdOfDoy doy).1 + 9) + 2) / 5 + (mdOfDoy doy).2 - 1 = doy :=
  mdOfDoy_aux doy _ h rfl

theorem civilFromDays_eq (z : Nat) : civilFromDays z =
    (if (mdOfDoy ((z + 719468) % 146097 - yearStart (yoeOf ((z + 719468) % 146097)))).1 ≤ 2
      then yoeOf ((z + 719468) % 146097) + (z + 719468) / 146097 * 400 + 1
      else yoeOf ((z + 719468) % 146097) + (z + 719468) / 146097 * 400,
     (mdOfDoy ((z + 719468) % 146097 - yearStart (yoeOf ((z + 719468) % 146097)))).1,
     (mdOfDoy ((z + 719468) % 146097 - yearStart (yoeOf ((z + 719468) % 146097)))).2) := rfl

theorem eraDaysFromCivil_eq (y m d : Nat) : eraDaysFromCivil y m d =
    (if m ≤ 2 then y - 1 else y) / 400 * 146097 +
      (yearStart ((if m ≤ 2 then y - 1 else y) % 400) + ((153 * (if m > 2 then m - 3 else m + 9) + 2) / 5 + d - 1)) := rfl

theorem civil_roundtrip (z : Nat) :
    eraDaysFromCivil (civilFromDays z).1 (civilFromDays z).2.1 (civilFromDays z).2.2 = z + 719468 := by
  have hdoe : (z + 719468) % 146097 < 146097 := Nat.mod_lt _ (by omega)
  obtain ⟨hy, hlo, hhi⟩ := yoe_spec _ hdoe
  obtain ⟨m1, m12, d1, d31, hmd⟩ := mdOfDoy_spec _ hhi
  rw [civilFromDays_eq, eraDaysFromCivil_eq]
  have hz := Nat.div_add_mod (z + 719468) 146097
  generalize (z + 719468) % 146097 = doe at *
  generalize (z + 719468) / 146097 = era at *
  generalize yoeOf doe = yoe at *
  generalize mdOfDoy (doe - yearStart yoe) = md at *
  simp only []
  rw [hmd]
  have e1 : (if md.1 ≤ 2 then (if md.1 ≤ 2 then yoe + era * 400 + 1 else yoe + era * 400) - 1
      else (if md.1 ≤ 2 then yoe + era * 400 + 1 else yoe + era * 400)) =
      yoe + era * 400 := by split <;> omega
  rw [e1]
  have e2 : (yoe + era * 400) / 400 = era := by omega
  have e3 : (yoe + era * 400) % 400 = yoe := by omega
  rw [e2, e3]
  omega

/-! ### decimal rendering and the date path -/

/-- value of a decimal digit string (inverse of `dec`) -/
def undec (bs : Bytes) : Nat := bs.foldl (fun acc b => acc * 10 + (b.toNat - 48)) 0

theorem digit_toNat (k : Nat) (h : k < 10) : (UInt8.ofNat (48 + k)).toNat = 48 + k := by
  simp [UInt8.toNat_ofNat']; omega

theorem undec_dec (n : Nat) : undec (dec n) = n := by
  induction n using Nat.strongRecOn with
  | _ n ih =>
    rw [dec]
    split
    · rename_i h; simp [undec]; omega
    · rename_i h
      have := ih (n / 10) (by omega)
      unfold undec at this ⊢
      rw [List.foldl_append, this]
      simp
      omega

theorem dec_injective {a b : Nat} (h : dec a = dec b) : a = b := by
  have := congrArg undec h
  rwa [undec_dec, undec_dec] at this

theorem dec_no_slash (n : Nat) : slash ∉ dec n := by
  induction n using Nat.strongRecOn with
  | _ n ih =>
    rw [dec]
    split
    · rename_i h
      simp only [List.mem_singleton]
      intro e
      have := congrArg UInt8.toNat e
      rw [digit_toNat n h] at this
      simp [slash] at this; omega
    · rename_i h
      simp only [List.mem_append, List.mem_singleton, not_or]
      refine ⟨ih (n / 10) (by omega), ?_⟩
      intro e
      have := congrArg UInt8.toNat e
      rw [digit_toNat (n % 10) (Nat.mod_lt _ (by omega))] at this
      simp [slash] at this; omega

/-- a separator that occurs in neither head splits uniquely -/
theorem sep_unique {α : Type} {s : α} : ∀ {a a' r r' : List α}, s ∉ a → s ∉ a' →
    a ++ s :: r = a' ++ s :: r' → a = a' ∧ r = r'
  | [], [], _, _, _, _, h => by simpa using h
  | [], x :: a', _, _, _, h2, h => by
      simp at h; exact absurd h.1 (fun e => h2 (by simp [e]))
  | x :: a, [], _, _, h1, _, h => by
      simp at h; exact absurd h.1 (fun e => h1 (by simp [e]))
  | x :: a, y :: a', r, r', h1, h2, h => by
      simp at h
      have := sep_unique (a := a) (a' := a') (r := r) (r' := r')
        (fun e => h1 (by simp [e])) (fun e => h2 (by simp [e])) h.2
      exact ⟨by rw [h.1, this.1], this.2⟩

theorem datePathOf_eq (c : Nat × Nat × Nat) : datePathOf c =
    dec c.1 ++ slash :: (dec c.2.1 ++ slash :: dec c.2.2) := by
  simp [datePathOf]

theorem datePathOf_injective {a b : Nat × Nat × Nat} (h : datePathOf a = datePathOf b) : a = b := by
  rw [datePathOf_eq, datePathOf_eq] at h
  obtain ⟨h1, h⟩ := sep_unique (dec_no_slash _) (dec_no_slash _) h
  obtain ⟨h2, h3⟩ := sep_unique (dec_no_slash _) (dec_no_slash _) h
  exact Prod.ext (dec_injective h1) (Prod.ext (dec_injective h2) (dec_injective h3))

end YgmVerif.Out
