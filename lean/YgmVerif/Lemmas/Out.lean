import YgmVerif.Model.Out
/-! Helper lemmas for the `multi_output` / `daily_output` model (`YgmVerif.Out`). -/
namespace YgmVerif.Out

/-! ### the buffered stream -/

/-- all bytes a stream has accepted so far: written chunks then the buffer -/
def Buf.all (st : Buf) : Bytes := st.written.flatten ++ st.buf

theorem flushBuffer_all (st : Buf) : (flushBuffer st).all = st.all := by
  unfold flushBuffer Buf.all
  split <;> simp

theorem bufferOutput_all (L : Nat) (st : Buf) (s : Bytes) :
    (bufferOutput L st s).all = st.all ++ (s ++ [nl]) := by
  unfold bufferOutput
  simp only
  split
  · rw [flushBuffer_all]; simp [Buf.all]
  · simp [Buf.all]

theorem feed_all (L : Nat) (st : Buf) (lines : List Bytes) :
    (feed L st lines).all = st.all ++ withNl lines := by
  induction lines generalizing st with
  | nil => simp [feed, withNl]
  | cons l ls ih =>
    have : feed L st (l :: ls) = feed L (bufferOutput L st l) ls := rfl
    rw [this, ih, bufferOutput_all]
    simp [withNl]

theorem flushBuffer_buf (st : Buf) : (flushBuffer st).buf = [] := by
  unfold flushBuffer
  split
  · rename_i h; exact List.eq_nil_of_length_eq_zero h
  · rfl

theorem bufferOutput_buf_le (L : Nat) (st : Buf) (s : Bytes) :
    (bufferOutput L st s).buf.length ≤ L := by
  unfold bufferOutput
  simp only
  split
  · rw [flushBuffer_buf]; simp
  · rename_i h; simp only at h ⊢; omega

/-- the written chunks are whole groups of lines -/
def Grouped (st : Buf) (done : List Bytes) : Prop :=
  ∃ (gs : List (List Bytes)) (g : List Bytes), gs.flatten ++ g = done ∧ st.written = gs.map withNl ∧ st.buf = withNl g ∧ ∀ x ∈ gs, x ≠ []

theorem withNl_eq_nil {g : List Bytes} (h : withNl g = []) : g = [] := by
  cases g with
  | nil => rfl
  | cons a as => simp [withNl] at h

theorem withNl_append (a b : List Bytes) : withNl (a ++ b) = withNl a ++ withNl b := by
  simp [withNl]

theorem flushBuffer_grouped (st : Buf) (done : List Bytes) (h : Grouped st done) :
    Grouped (flushBuffer st) done := by
  obtain ⟨gs, g, h1, h2, h3, h4⟩ := h
  unfold flushBuffer
  split
  · exact ⟨gs, g, h1, h2, h3, h4⟩
  · rename_i hne
    refine ⟨gs ++ [g], [], by simp [h1], by simp [h2, h3], rfl, ?_⟩
    intro x hx
    rcases List.mem_append.mp hx with hx | hx
    · exact h4 x hx
    · simp at hx; subst hx
      intro hg; subst hg; apply hne; rw [h3]; rfl

theorem bufferOutput_grouped (L : Nat) (st : Buf) (done : List Bytes) (s : Bytes) (h : Grouped st done) :
    Grouped (bufferOutput L st s) (done ++ [s]) := by
  have h' : Grouped ⟨st.buf ++ s ++ [nl], st.written⟩ (done ++ [s]) := by
    obtain ⟨gs, g, h1, h2, h3, h4⟩ := h
    refine ⟨gs, g ++ [s], by rw [← h1]; simp, h2, ?_, h4⟩
    simp [h3, withNl]
  unfold bufferOutput
  simp only
  split
  · exact flushBuffer_grouped _ _ h'
  · exact h'

theorem feed_grouped (L : Nat) (st : Buf) (done lines : List Bytes) (h : Grouped st done) :
    Grouped (feed L st lines) (done ++ lines) := by
  induction lines generalizing st done with
  | nil => simpa [feed] using h
  | cons l ls ih =>
    have : feed L st (l :: ls) = feed L (bufferOutput L st l) ls := rfl
    rw [this]
    have := ih (bufferOutput L st l) (done ++ [l]) (bufferOutput_grouped L st done l h)
    simpa using this

theorem splitNl_line (l rest : Bytes) (h : nl ∉ l) :
    splitNl (l ++ nl :: rest) = (l :: (splitNl rest).1, (splitNl rest).2) := by
  induction l with
  | nil => simp [splitNl]
  | cons c cs ih =>
    have hc : c ≠ nl := fun e => h (by simp [e])
    have hcs : nl ∉ cs := fun e => h (by simp [e])
    simp only [List.cons_append, splitNl, ih hcs, hc, if_false]

theorem splitNl_withNl (lines : List Bytes) (h : ∀ l ∈ lines, nl ∉ l) :
    splitNl (withNl lines) = (lines, []) := by
  induction lines with
  | nil => simp [withNl, splitNl]
  | cons l ls ih =>
    have : withNl (l :: ls) = l ++ nl :: withNl ls := by simp [withNl]
    rw [this, splitNl_line l _ (h l (by simp)), ih (fun x hx => h x (by simp [hx]))]

/-! ### routing -/

section routing
variable {S : Type} [DecidableEq S]

theorem linesFor_perm {a b : List (Write S)} (h : a.Perm b) (s : S) :
    (linesFor a s).Perm (linesFor b s) := (h.filter _).map _

theorem linesFor_append (a b : List (Write S)) (s : S) :
    linesFor (a ++ b) s = linesFor a s ++ linesFor b s := by
  simp [linesFor]

theorem linesFor_flatten (hist : List (List (Write S))) (s : S) :
    linesFor hist.flatten s = (hist.map (linesFor · s)).flatten := by
  induction hist with
  | nil => rfl
  | cons h t ih => simp [linesFor_append, ih]

theorem linesFor_destined_owner (hash : S → Nat) (n : Nat) (hist : List (List (Write S))) (s : S) :
    linesFor (destinedTo hash n hist (owner hash n s)) s = linesFor (allWrites hist) s := by
  unfold linesFor destinedTo
  rw [List.filter_filter]
  congr 1
  apply List.filter_congr
  intro w _
  by_cases h : w.1 = s <;> simp [h]

theorem linesFor_destined_other (hash : S → Nat) (n : Nat) (hist : List (List (Write S))) (s : S) (r : Nat)
    (hr : r ≠ owner hash n s) : linesFor (destinedTo hash n hist r) s = [] := by
  unfold linesFor destinedTo
  rw [List.filter_filter]
  simp only [List.map_eq_nil_iff, List.filter_eq_nil_iff]
  intro w _
  by_cases h : w.1 = s
  · subst h; simp; exact fun e => hr e.symm
  · simp [h]
end routing

/-! ### civil date arithmetic -/

theorem yoe_eq (doe c q t : Nat) (hc : c ≤ 3) (hq : q ≤ 24) (ht : t ≤ 1460)
    (hqt : q = 24 → c < 3 → t ≤ 1459)
    (hd : doe = 36524 * c + 1461 * q + t) :
    yoeOf doe = 100 * c + 4 * q + (if t ≥ 1095 then 3 else t / 365) := by
  unfold yoeOf
  by_cases hlast : doe = 146096
  · subst hlast
    have : c = 3 ∧ q = 24 ∧ t = 1460 := by omega
    obtain ⟨rfl, rfl, rfl⟩ := this
    decide
  have h1 : doe / 36524 = c := by omega
  have h2 : doe / 146096 = 0 := by omega
  rw [h1, h2]
  by_cases hδ : 24 * c + q + t < 1460
  · have h3 : doe / 1460 = 25 * c + q := by omega
    rw [h3]
    have h4 : doe - (25 * c + q) + c - 0 = 365 * (100 * c + 4 * q) + t := by omega
    rw [h4]
    split <;> omega
  · have h3 : doe / 1460 = 25 * c + q + 1 := by omega
    rw [h3]
    have h4 : doe - (25 * c + q + 1) + c - 0 = 365 * (100 * c + 4 * q) + (t - 1) := by omega
    rw [h4]
    split <;> omega

/-- every day of an era has a (century, 4-year cycle, day in cycle) decomposition -/
theorem doe_decomp (doe : Nat) (h : doe < 146097) :
    ∃ c q t, c ≤ 3 ∧ q ≤ 24 ∧ t ≤ 1460 ∧ (q = 24 → c < 3 → t ≤ 1459) ∧ doe = 36524 * c + 1461 * q + t := by
  by_cases hlast : doe = 146096
  · exact ⟨3, 24, 1460, by omega, by omega, by omega, by omega, by omega⟩
  · by_cases hq : doe % 36524 / 1461 = 25
    · exact ⟨doe / 36524, 24, doe % 36524 % 1461 + 1461, by omega, by omega, by omega, by omega, by omega⟩
    · exact ⟨doe / 36524, doe % 36524 / 1461, doe % 36524 % 1461, by omega, by omega, by omega, by omega, by omega⟩

/-- normal form of the year computation: year of era, and day of that year -/
theorem yoe_doy (doe c q t : Nat) (hc : c ≤ 3) (hq : q ≤ 24) (ht : t ≤ 1460)
    (hqt : q = 24 → c < 3 → t ≤ 1459) (hd : doe = 36524 * c + 1461 * q + t) :
    ∃ yy, yy ≤ 3 ∧ (yy = 3 ∨ t < 365 * (yy + 1)) ∧ 365 * yy ≤ t ∧
      yoeOf doe = 100 * c + 4 * q + yy ∧ yearStart (yoeOf doe) + (t - 365 * yy) = doe := by
  refine ⟨if t ≥ 1095 then 3 else t / 365, ?_, ?_, ?_, yoe_eq doe c q t hc hq ht hqt hd, ?_⟩
  · split <;> omega
  · split <;> omega
  · split <;> omega
  · rw [yoe_eq doe c q t hc hq ht hqt hd]
    unfold yearStart
    generalize hyy : (if t ≥ 1095 then 3 else t / 365) = yy
    have h3 : yy ≤ 3 := by rw [← hyy]; split <;> omega
    have h4 : 365 * yy ≤ t := by rw [← hyy]; split <;> omega
    have h1 : (100 * c + 4 * q + yy) / 4 = 25 * c + q := by omega
    have h2 : (100 * c + 4 * q + yy) / 100 = c := by omega
    rw [h1, h2]; omega

/-- the year of era is in range; `doe` lies at most 365 days after the start of its year -/
theorem yoe_spec (doe : Nat) (h : doe < 146097) :
    yoeOf doe < 400 ∧ yearStart (yoeOf doe) ≤ doe ∧ doe - yearStart (yoeOf doe) < 366 := by
  obtain ⟨c, q, t, hc, hq, ht, hqt, hd⟩ := doe_decomp doe h
  obtain ⟨yy, h3, h5, h4, hy, hs⟩ := yoe_doy doe c q t hc hq ht hqt hd
  refine ⟨by omega, by omega, ?_⟩
  omega

theorem mdOfDoy_aux (doy mp : Nat) (h : doy < 366) (hmp : mp = (5 * doy + 2) / 153) :
    let m := if mp < 10 then mp + 3 else mp - 9
    let d := doy - (153 * mp + 2) / 5 + 1
    1 ≤ m ∧ m ≤ 12 ∧ 1 ≤ d ∧ d ≤ 31 ∧ (153 * (if m > 2 then m - 3 else m + 9) + 2) / 5 + d - 1 = doy := by
  intro m d
  have hmp11 : mp ≤ 11 := by omega
  by_cases h10 : mp < 10
  · have hm : m = mp + 3 := by simp [m, h10]
    have e : (if m > 2 then m - 3 else m + 9) = mp := by rw [hm]; split <;> omega
    rw [e]; omega
  · have hm : m = mp - 9 := by simp [m, h10]
    have e : (if m > 2 then m - 3 else m + 9) = mp := by rw [hm]; split <;> omega
    rw [e]; omega

theorem mdOfDoy_spec (doy : Nat) (h : doy < 366) :
    1 ≤ (mdOfDoy doy).1 ∧ (mdOfDoy doy).1 ≤ 12 ∧ 1 ≤ (mdOfDoy doy).2 ∧ (mdOfDoy doy).2 ≤ 31 ∧
    (153 * (if (mdOfDoy doy).1 > 2 then (mdOfDoy doy).1 - 3 else (mdOfDoy doy).1 + 9) + 2) / 5 + (mdOfDoy doy).2 - 1 = doy :=
  mdOfDoy_aux doy _ h rfl

theorem civilFromDays_eq (z : Nat) : civilFromDays z =
    (if (mdOfDoy ((z + 719468) % 146097 - yearStart (yoeOf ((z + 719468) % 146097)))).1 ≤ 2
      then yoeOf ((z + 719468) % 146097) + (z + 719468) / 146097 * 400 + 1
      else yoeOf ((z + 719468) % 146097) + (z + 719468) / 146097 * 400,
     (mdOfDoy ((z + 719468) % 146097 - yearStart (yoeOf ((z + 719468) % 146097)))).1,
     (mdOfDoy ((z + 719468) % 146097 - yearStart (yoeOf ((z + 719468) % 146097)))).2) := rfl

theorem eraDaysFromCivil_eq (y m d : Nat) : eraDaysFromCivil y m d =
    (if m ≤ 2 then y - 1 else y) / 400 * 146097 +
      (yearStart ((if m ≤ 2 then y - 1 else y) % 400) + ((153 * (if m > 2 then m - 3 else m + 9) + 2) / 5 + d - 1)) := rfl

theorem civil_roundtrip (z : Nat) :
    eraDaysFromCivil (civilFromDays z).1 (civilFromDays z).2.1 (civilFromDays z).2.2 = z + 719468 := by
  have hdoe : (z + 719468) % 146097 < 146097 := Nat.mod_lt _ (by omega)
  obtain ⟨hy, hlo, hhi⟩ := yoe_spec _ hdoe
  obtain ⟨m1, m12, d1, d31, hmd⟩ := mdOfDoy_spec _ hhi
  rw [civilFromDays_eq, eraDaysFromCivil_eq]
  have hz := Nat.div_add_mod (z + 719468) 146097
  generalize (z + 719468) % 146097 = doe at *
  generalize (z + 719468) / 146097 = era at *
  generalize yoeOf doe = yoe at *
  generalize mdOfDoy (doe - yearStart yoe) = md at *
  simp only []
  rw [hmd]
  have e1 : (if md.1 ≤ 2 then (if md.1 ≤ 2 then yoe + era * 400 + 1 else yoe + era * 400) - 1
      else (if md.1 ≤ 2 then yoe + era * 400 + 1 else yoe + era * 400)) =
      yoe + era * 400 := by split <;> omega
  rw [e1]
  have e2 : (yoe + era * 400) / 400 = era := by omega
  have e3 : (yoe + era * 400) % 400 = yoe := by omega
  rw [e2, e3]
  omega

/-! ### decimal rendering and the date path -/

/-- value of a decimal digit string (inverse of `dec`) -/
def undec (bs : Bytes) : Nat := bs.foldl (fun acc b => acc * 10 + (b.toNat - 48)) 0

theorem digit_toNat (k : Nat) (h : k < 10) : (UInt8.ofNat (48 + k)).toNat = 48 + k := by
  simp [UInt8.toNat_ofNat']; omega

theorem undec_dec (n : Nat) : undec (dec n) = n := by
  induction n using Nat.strongRecOn with
  | _ n ih =>
    rw [dec]
    split
    · rename_i h; simp [undec]; omega
    · rename_i h
      have := ih (n / 10) (by omega)
      unfold undec at this ⊢
      rw [List.foldl_append, this]
      simp
      omega

theorem dec_injective {a b : Nat} (h : dec a = dec b) : a = b := by
  have := congrArg undec h
  rwa [undec_dec, undec_dec] at this

theorem dec_no_slash (n : Nat) : slash ∉ dec n := by
  induction n using Nat.strongRecOn with
  | _ n ih =>
    rw [dec]
    split
    · rename_i h
      simp only [List.mem_singleton]
      intro e
      have := congrArg UInt8.toNat e
      rw [digit_toNat n h] at this
      simp [slash] at this; omega
    · rename_i h
      simp only [List.mem_append, List.mem_singleton, not_or]
      refine ⟨ih (n / 10) (by omega), ?_⟩
      intro e
      have := congrArg UInt8.toNat e
      rw [digit_toNat (n % 10) (Nat.mod_lt _ (by omega))] at this
      simp [slash] at this; omega

/-- a separator that occurs in neither head splits uniquely -/
theorem sep_unique {α : Type} {s : α} : ∀ {a a' r r' : List α}, s ∉ a → s ∉ a' →
    a ++ s :: r = a' ++ s :: r' → a = a' ∧ r = r'
  | [], [], _, _, _, _, h => by simpa using h
  | [], x :: a', _, _, _, h2, h => by
      simp at h; exact absurd h.1 (fun e => h2 (by simp [e]))
  | x :: a, [], _, _, h1, _, h => by
      simp at h; exact absurd h.1 (fun e => h1 (by simp [e]))
  | x :: a, y :: a', r, r', h1, h2, h => by
      simp at h
      have := sep_unique (a := a) (a' := a') (r := r) (r' := r')
        (fun e => h1 (by simp [e])) (fun e => h2 (by simp [e])) h.2
      exact ⟨by rw [h.1, this.1], this.2⟩

theorem datePathOf_eq (c : Nat × Nat × Nat) : datePathOf c =
    dec c.1 ++ slash :: (dec c.2.1 ++ slash :: dec c.2.2) := by
  simp [datePathOf]

theorem datePathOf_injective {a b : Nat × Nat × Nat} (h : datePathOf a = datePathOf b) : a = b := by
  rw [datePathOf_eq, datePathOf_eq] at h
  obtain ⟨h1, h⟩ := sep_unique (dec_no_slash _) (dec_no_slash _) h
  obtain ⟨h2, h3⟩ := sep_unique (dec_no_slash _) (dec_no_slash _) h
  exact Prod.ext (dec_injective h1) (Prod.ext (dec_injective h2) (dec_injective h3))

/-! ### the calendar: successor day -/

/-- length of year-of-era `y` (a year starting on 1 March): 366 iff the following civil year is leap -/
def eraLen (y : Nat) : Nat :=
  if (y + 1) % 4 = 0 ∧ ((y + 1) % 100 ≠ 0 ∨ (y + 1) % 400 = 0) then 366 else 365

theorem yearStart_succ (y : Nat) (h : y < 399) : yearStart (y + 1) = yearStart y + eraLen y := by
  unfold yearStart eraLen
  split <;> omega

theorem yearStart_last : yearStart 399 + eraLen 399 = 146097 := by decide

theorem yearStart_le (a b : Nat) (hab : a < b) (hb : b ≤ 399) : yearStart a + eraLen a ≤ yearStart b := by
  induction b with
  | zero => omega
  | succ b ih =>
    rw [yearStart_succ b (by omega)]
    by_cases h : a = b
    · subst h; omega
    · have := ih (by omega) (by omega)
      have : 365 ≤ eraLen b := by unfold eraLen; split <;> omega
      omega

theorem yoe_spec' (doe : Nat) (h : doe < 146097) :
    yoeOf doe < 400 ∧ yearStart (yoeOf doe) ≤ doe ∧ doe < yearStart (yoeOf doe) + eraLen (yoeOf doe) := by
  obtain ⟨c, q, t, hc, hq, ht, hqt, hd⟩ := doe_decomp doe h
  obtain ⟨yy, h3, h5, h4, hy, hs⟩ := yoe_doy doe c q t hc hq ht hqt hd
  refine ⟨by omega, by omega, ?_⟩
  rw [hy] at hs ⊢
  unfold eraLen
  split
  · rcases h5 with h5 | h5 <;> omega
  · rename_i hl
    rcases h5 with h5 | h5
    · subst h5
      -- yy = 3: the year is long unless q = 24 and c < 3
      by_cases hq24 : q = 24
      · by_cases hc3 : c < 3
        · have := hqt hq24 hc3; omega
        · exfalso; apply hl; subst hq24; have : c = 3 := by omega
          subst this; decide
      · exfalso; apply hl; omega
    · omega

theorem yoe_unique (doe y : Nat) (h : doe < 146097) (hy : y < 400)
    (h1 : yearStart y ≤ doe) (h2 : doe < yearStart y + eraLen y) : yoeOf doe = y := by
  obtain ⟨g1, g2, g3⟩ := yoe_spec' doe h
  rcases Nat.lt_trichotomy (yoeOf doe) y with hlt | heq | hgt
  · have := yearStart_le (yoeOf doe) y hlt (by omega); omega
  · exact heq
  · have := yearStart_le y (yoeOf doe) hgt (by omega); omega

/-- days in month `m` of a March-based year of length `len` (February is its last month) -/
def dimM (len m : Nat) : Nat :=
  if m = 2 then len - 337 else if m = 4 ∨ m = 6 ∨ m = 9 ∨ m = 11 then 30 else 31

def mdOf (mp doy : Nat) : Nat × Nat := (if mp < 10 then mp + 3 else mp - 9, doy - (153 * mp + 2) / 5 + 1)

theorem mdOfDoy_eq (doy : Nat) : mdOfDoy doy = mdOf ((5 * doy + 2) / 153) doy := rfl

theorem mdOfDoy_zero : mdOfDoy 0 = (3, 1) := by decide

theorem mdOfDoy_last (len : Nat) (hlen : len = 365 ∨ len = 366) : mdOfDoy (len - 1) = (2, len - 337) := by
  rcases hlen with h | h <;> subst h <;> decide

theorem mdOf_succ (doy len mp mq : Nat) (hlen : len = 365 ∨ len = 366) (h : doy + 1 < len)
    (hmp : mp = (5 * doy + 2) / 153) (hmq : mq = (5 * (doy + 1) + 2) / 153) :
    mdOf mq (doy + 1) =
      if (mdOf mp doy).2 < dimM len (mdOf mp doy).1 then ((mdOf mp doy).1, (mdOf mp doy).2 + 1)
      else (if (mdOf mp doy).1 = 12 then 1 else (mdOf mp doy).1 + 1, 1) := by
  have hmp11 : mp ≤ 11 := by omega
  have hq : mq = mp ∨ mq = mp + 1 := by omega
  have hcases : mp = 0 ∨ mp = 1 ∨ mp = 2 ∨ mp = 3 ∨ mp = 4 ∨ mp = 5 ∨ mp = 6 ∨ mp = 7 ∨ mp = 8 ∨ mp = 9 ∨ mp = 10 ∨ mp = 11 := by omega
  rcases hcases with e | e | e | e | e | e | e | e | e | e | e | e <;> subst e <;>
    rcases hq with e' | e' <;> subst e' <;> simp only [mdOf, dimM] <;> simp <;> (try split) <;> (try (apply Prod.ext <;> simp)) <;> omega

theorem mdOf_le_dim (doy len mp : Nat) (hlen : len = 365 ∨ len = 366) (h : doy < len)
    (hmp : mp = (5 * doy + 2) / 153) : (mdOf mp doy).2 ≤ dimM len (mdOf mp doy).1 := by
  have hmp11 : mp ≤ 11 := by omega
  have hcases : mp = 0 ∨ mp = 1 ∨ mp = 2 ∨ mp = 3 ∨ mp = 4 ∨ mp = 5 ∨ mp = 6 ∨ mp = 7 ∨ mp = 8 ∨ mp = 9 ∨ mp = 10 ∨ mp = 11 := by omega
  rcases hcases with e | e | e | e | e | e | e | e | e | e | e | e <;> subst e <;>
    simp only [mdOf, dimM] <;> simp <;> omega

/-- civil date from a March-based year and the (month, day) of the day in it -/
def civOf (Y : Nat) (md : Nat × Nat) : Nat × Nat × Nat := (if md.1 ≤ 2 then Y + 1 else Y, md.1, md.2)

theorem yearEnd_le (y : Nat) (hy : y < 400) : yearStart y + eraLen y ≤ 146097 := by
  by_cases h : y = 399
  · subst h; exact Nat.le_of_eq yearStart_last
  · have := yearStart_le y 399 (by omega) (by omega)
    have h2 := yearStart_last
    omega

theorem civil_of_nf (z era y doy : Nat) (hy : y < 400) (hd : doy < eraLen y)
    (hz : z + 719468 = era * 146097 + (yearStart y + doy)) :
    civilFromDays z = civOf (y + era * 400) (mdOfDoy doy) := by
  have hle := yearEnd_le y hy
  have h1 : (z + 719468) / 146097 = era := by omega
  have h2 : (z + 719468) % 146097 = yearStart y + doy := by omega
  have h3 : yoeOf (yearStart y + doy) = y := yoe_unique _ y (by omega) hy (by omega) (by omega)
  rw [civilFromDays_eq, h1, h2, h3]
  have h4 : yearStart y + doy - yearStart y = doy := by omega
  rw [h4]
  rfl

theorem civil_nf (z : Nat) : ∃ era y doy, y < 400 ∧ doy < eraLen y ∧
    z + 719468 = era * 146097 + (yearStart y + doy) := by
  have hdoe : (z + 719468) % 146097 < 146097 := Nat.mod_lt _ (by omega)
  obtain ⟨g1, g2, g3⟩ := yoe_spec' _ hdoe
  refine ⟨(z + 719468) / 146097, yoeOf ((z + 719468) % 146097), (z + 719468) % 146097 - yearStart (yoeOf ((z + 719468) % 146097)), g1, by omega, ?_⟩
  have := Nat.div_add_mod (z + 719468) 146097
  omega

/-- in the civil year that contains month `m` of March-based year `y + 400*era`, month `m` has `dimM` days -/
theorem daysInMonth_civ (y era m : Nat) (hm1 : 1 ≤ m) (hm : m ≤ 12) :
    daysInMonth (if m ≤ 2 then y + era * 400 + 1 else y + era * 400) m = dimM (eraLen y) m := by
  unfold daysInMonth dimM
  by_cases h2 : m = 2
  · subst h2
    simp only [if_true, Nat.le_refl]
    unfold isLeap eraLen
    have e4 : (y + era * 400 + 1) % 4 = (y + 1) % 4 := by omega
    have e100 : (y + era * 400 + 1) % 100 = (y + 1) % 100 := by omega
    have e400 : (y + era * 400 + 1) % 400 = (y + 1) % 400 := by omega
    simp only [e4, e100, e400, decide_eq_true_eq]
    split <;> rfl
  · simp [h2]

theorem civil_succ_lemma (z : Nat) : civilFromDays (z + 1) = nextDay (civilFromDays z) := by
  obtain ⟨era, y, doy, hy, hd, hz⟩ := civil_nf z
  rw [civil_of_nf z era y doy hy hd hz]
  have hlen : eraLen y = 365 ∨ eraLen y = 366 := by unfold eraLen; split <;> simp
  have hdoy366 : doy < 366 := by omega
  obtain ⟨m1, m12, d1, d31, hmd⟩ := mdOfDoy_spec doy hdoy366
  have hdim := daysInMonth_civ y era (mdOfDoy doy).1 m1 m12
  by_cases hlast : doy + 1 < eraLen y
  · -- same March-based year
    rw [civil_of_nf (z + 1) era y (doy + 1) hy hlast (by omega)]
    have hs := mdOf_succ doy (eraLen y) _ _ hlen hlast rfl rfl
    rw [← mdOfDoy_eq, ← mdOfDoy_eq] at hs
    rw [hs]
    unfold nextDay civOf
    simp only []
    rw [hdim]
    generalize mdOfDoy doy = md at *
    by_cases hlt : md.2 < dimM (eraLen y) md.1
    · simp only [hlt, if_true]
    · simp only [hlt, if_false]
      -- the last day of a month that is not February (February's last day is the year's last day)
      have hne2 : md.1 ≠ 2 := by
        intro e
        unfold dimM at hlt
        rw [e] at hlt hmd
        simp at hlt hmd
        omega
      by_cases h12 : md.1 = 12
      · simp [h12]
      · have : md.1 < 12 := by omega
        simp only [h12, this, if_true, if_false]
        by_cases hle : md.1 ≤ 2
        · have : md.1 = 1 := by omega
          simp [this]
        · have : ¬ md.1 + 1 ≤ 2 := by omega
          simp [hle, this]
  · -- last day of the March-based year: 28/29 February
    have hd' : doy = eraLen y - 1 := by omega
    have hmdl := mdOfDoy_last (eraLen y) hlen
    rw [← hd'] at hmdl
    have hnext : civilFromDays (z + 1) = civOf (y + era * 400 + 1) (3, 1) := by
      by_cases h399 : y = 399
      · subst h399
        have h0 : (0 : Nat) < eraLen 0 := by decide
        have := civil_of_nf (z + 1) (era + 1) 0 0 (by omega) h0 (by
          have := yearStart_last
          have : yearStart 0 = 0 := by decide
          omega)
        rw [this, mdOfDoy_zero]
        congr 1
        omega
      · have hpos : 0 < eraLen (y + 1) := by unfold eraLen; split <;> omega
        have := civil_of_nf (z + 1) era (y + 1) 0 (by omega) hpos (by
          have := yearStart_succ y (by omega)
          omega)
        rw [this, mdOfDoy_zero]
        congr 1
        omega
    rw [hnext]
    unfold nextDay civOf
    simp only []
    rw [hdim, hmdl]
    simp [dimM]

end YgmVerif.Out
