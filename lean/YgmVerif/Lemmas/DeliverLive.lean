import YgmVerif.Lemmas.Deliver
/-! Location well-formedness of the message-movement model and "some step is always enabled":
the lemmas behind `Props/C01Live.lean` (deadlock freedom of the movement logic). -/
namespace YgmVerif.Deliver

/-- the routing function stays inside the communicator -/
def InRange (n : Nat) (nh : Nat → Nat → Nat) : Prop := ∀ r d, r < n → d < n → nh r d < n

/-- where entries can be: buffers and walks belong to ranks of the communicator, a walked buffer has a walker -/
structure LocOk (n : Nat) (s : St) : Prop where
  buf : ∀ e ∈ s.es, ∀ r hop, e.loc = .inBuf r hop → r < n ∧ hop < n
  walk : ∀ e ∈ s.es, ∀ r, e.loc = .inWalk r → s.walking r = true
  wire : ∀ e ∈ s.es, ∀ a d k, e.loc = .inWire a d k → d < n
  walkLt : ∀ r, s.walking r = true → r < n

theorem locOk_init (n : Nat) : LocOk n St.init := by
  refine ⟨?_, ?_, ?_, ?_⟩ <;> simp [St.init]

theorem upd_same {α} (f : Nat → α) (i : Nat) (v : α) : upd f i v i = v := by simp [upd]
theorem upd_other {α} (f : Nat → α) (i j : Nat) (v : α) (h : j ≠ i) : upd f i v j = f j := by simp [upd, h]

theorem locOk_step {n : Nat} {nh : Nat → Nat → Nat} {s s' : St} {l : Label}
    (hr : InRange n nh) (hd : DestLt n s) (hl : LocOk n s) (h : step n nh s l = some s') : LocOk n s' := by
  cases l with
  | async r uid dest direct =>
    simp only [step] at h; split at h
    · rename_i hc
      cases h
      refine ⟨?_, ?_, ?_, hl.walkLt⟩
      · intro e he r0 hop0 hloc
        rcases List.mem_append.1 he with h1 | h1
        · exact hl.buf e h1 r0 hop0 hloc
        · simp only [List.mem_singleton] at h1
          subst h1
          simp only [Loc.inBuf.injEq] at hloc
          refine ⟨by omega, ?_⟩
          rw [← hloc.2]
          by_cases hdir : direct = true
          · simp only [hdir, if_true]; exact hc.2.1
          · simp only [hdir]; exact hr r dest hc.1 hc.2.1
      · intro e he r0 hloc
        rcases List.mem_append.1 he with h1 | h1
        · exact hl.walk e h1 r0 hloc
        · simp only [List.mem_singleton] at h1
          subst h1; cases hloc
      · intro e he a d k hloc
        rcases List.mem_append.1 he with h1 | h1
        · exact hl.wire e h1 a d k hloc
        · simp only [List.mem_singleton] at h1
          subst h1; cases hloc
    · cases h
  | isend r hop =>
    simp only [step] at h; split at h
    · rename_i hc
      cases h
      refine ⟨?_, ?_, ?_, hl.walkLt⟩
      · intro e' he' r0 hop0 hloc
        obtain ⟨e, he, rfl⟩ := mem_relocate.1 he'
        by_cases hpe : inBufOf r hop e = true
        · simp only [hpe, if_true] at hloc; cases hloc
        · simp only [hpe] at hloc; exact hl.buf e he r0 hop0 hloc
      · intro e' he' r0 hloc
        obtain ⟨e, he, rfl⟩ := mem_relocate.1 he'
        by_cases hpe : inBufOf r hop e = true
        · simp only [hpe, if_true] at hloc; cases hloc
        · simp only [hpe] at hloc; exact hl.walk e he r0 hloc
      · intro e' he' a d k hloc
        obtain ⟨e, he, rfl⟩ := mem_relocate.1 he'
        by_cases hpe : inBufOf r hop e = true
        · simp only [hpe, if_true, Loc.inWire.injEq] at hloc
          have := (hl.buf e he r hop (inBufOf_iff.1 hpe)).2
          omega
        · simp only [hpe] at hloc; exact hl.wire e he a d k hloc
    · cases h
  | recvBegin r src seq =>
    simp only [step] at h; split at h
    · rename_i hc
      cases h
      refine ⟨?_, ?_, ?_, ?_⟩
      · intro e' he' r0 hop0 hloc
        obtain ⟨e, he, rfl⟩ := mem_relocate.1 he'
        by_cases hpe : inWireOf src r seq e = true
        · simp only [hpe, if_true] at hloc; cases hloc
        · simp only [hpe] at hloc; exact hl.buf e he r0 hop0 hloc
      · intro e' he' r0 hloc
        obtain ⟨e, he, rfl⟩ := mem_relocate.1 he'
        show upd s.walking r true r0 = true
        by_cases hpe : inWireOf src r seq e = true
        · simp only [hpe, if_true, Loc.inWalk.injEq] at hloc
          subst hloc; exact upd_same _ _ _
        · simp only [hpe] at hloc
          by_cases h0 : r0 = r
          · subst h0; exact upd_same _ _ _
          · rw [upd_other _ _ _ _ h0]; exact hl.walk e he r0 hloc
      · intro e' he' a d k hloc
        obtain ⟨e, he, rfl⟩ := mem_relocate.1 he'
        by_cases hpe : inWireOf src r seq e = true
        · simp only [hpe, if_true] at hloc; cases hloc
        · simp only [hpe] at hloc; exact hl.wire e he a d k hloc
      · intro r0 hw
        change upd s.walking r true r0 = true at hw
        by_cases h0 : r0 = r
        · subst h0; exact hc.1
        · rw [upd_other _ _ _ _ h0] at hw; exact hl.walkLt r0 hw
    · cases h
  | exec r uid =>
    simp only [step] at h; split at h
    · rename_i hc
      cases h
      refine ⟨?_, ?_, ?_, hl.walkLt⟩
      · intro e' he' r0 hop0 hloc
        obtain ⟨e, he, rfl⟩ := mem_relocate.1 he'
        split at hloc
        · cases hloc
        · exact hl.buf e he r0 hop0 hloc
      · intro e' he' r0 hloc
        obtain ⟨e, he, rfl⟩ := mem_relocate.1 he'
        split at hloc
        · cases hloc
        · exact hl.walk e he r0 hloc
      · intro e' he' a d k hloc
        obtain ⟨e, he, rfl⟩ := mem_relocate.1 he'
        split at hloc
        · cases hloc
        · exact hl.wire e he a d k hloc
    · cases h
  | fwd r uid =>
    simp only [step] at h
    split at h
    · rename_i e0 hf
      split at h
      · rename_i hc
        cases h
        have he0 := List.mem_of_find?_eq_some hf
        refine ⟨?_, ?_, ?_, hl.walkLt⟩
        · intro e' he' r0 hop0 hloc
          obtain ⟨e, he, rfl⟩ := mem_relocate.1 he'
          split at hloc
          · simp only [Loc.inBuf.injEq] at hloc
            have := hr r e0.dest hc.1 (hd e0 he0)
            omega
          · exact hl.buf e he r0 hop0 hloc
        · intro e' he' r0 hloc
          obtain ⟨e, he, rfl⟩ := mem_relocate.1 he'
          split at hloc
          · cases hloc
          · exact hl.walk e he r0 hloc
        · intro e' he' a d k hloc
          obtain ⟨e, he, rfl⟩ := mem_relocate.1 he'
          split at hloc
          · cases hloc
          · exact hl.wire e he a d k hloc
      · cases h
    · cases h
  | recvEnd r =>
    simp only [step] at h; split at h
    · rename_i hc
      cases h
      refine ⟨hl.buf, ?_, hl.wire, ?_⟩
      · intro e he r0 hloc
        show upd s.walking r false r0 = true
        by_cases h0 : r0 = r
        · subst h0
          exact absurd (List.any_eq_true.2 ⟨e, he, inWalkOf_iff.2 hloc⟩) hc.2.2
        · rw [upd_other _ _ _ _ h0]; exact hl.walk e he r0 hloc
      · intro r0 hw
        change upd s.walking r false r0 = true at hw
        by_cases h0 : r0 = r
        · subst h0; rw [upd_same] at hw; cases hw
        · rw [upd_other _ _ _ _ h0] at hw; exact hl.walkLt r0 hw
    · cases h

/-- the oldest physical message of a channel: if some message of channel (a, d) is in flight, one of them has
no older one in flight -/
theorem oldest_in_flight (es : List Entry) (a d : Nat) :
    ∀ k, (∃ e ∈ es, e.loc = .inWire a d k) →
      ∃ k', (∃ e ∈ es, e.loc = .inWire a d k') ∧ es.any (olderInFlight a d k') = false := by
  intro k
  induction k using Nat.strongRecOn with
  | ind k ih =>
    intro hex
    by_cases hold : es.any (olderInFlight a d k) = true
    · obtain ⟨e, he, ho⟩ := List.any_eq_true.1 hold
      unfold olderInFlight at ho
      split at ho
      · rename_i s0 d0 k0 hloc
        simp only [Bool.and_eq_true, beq_iff_eq, decide_eq_true_eq] at ho
        obtain ⟨⟨rfl, rfl⟩, hlt⟩ := ho
        exact ih k0 hlt ⟨e, he, hloc⟩
      · cases ho
    · exact ⟨k, hex, by simpa using hold⟩

/-- everything has executed and no rank is inside a receive -/
def settled (n : Nat) (s : St) : Prop := quiescent s = true ∧ ∀ r, r < n → s.walking r = false

/-- **deadlock freedom of the movement logic**: in a well-formed state that is not settled, some
non-`async` step is enabled -/
theorem not_stuck {n : Nat} {nh : Nat → Nat → Nat} {s : St}
    (hi : Inv s) (hl : LocOk n s) (hns : ¬ settled n s) :
    ∃ l, isAsync l = false ∧ (step n nh s l).isSome = true := by
  -- a rank that is walking can always go on
  have walker : ∀ r, s.walking r = true → ∃ l, isAsync l = false ∧ (step n nh s l).isSome = true := by
    intro r hw
    have hrn := hl.walkLt r hw
    by_cases hany : s.es.any (inWalkOf r) = true
    · obtain ⟨e, he, hq⟩ := List.any_eq_true.1 hany
      have hloc := inWalkOf_iff.1 hq
      by_cases hx : (e.dest == r || e.direct) = true
      · refine ⟨.exec r e.uid, rfl, ?_⟩
        have : s.es.any (fun e' => e'.uid == e.uid && inWalkOf r e' && (e'.dest == r || e'.direct)) = true :=
          List.any_eq_true.2 ⟨e, he, by simp [hq, hx]⟩
        simp only [step, hrn, hw, this, and_self, if_true, Option.isSome_some]
      · refine ⟨.fwd r e.uid, rfl, ?_⟩
        have hfind : ∃ e0, s.es.find? (fun e' => e'.uid == e.uid && inWalkOf r e') = some e0 := by
          cases hf : s.es.find? (fun e' => e'.uid == e.uid && inWalkOf r e') with
          | some e0 => exact ⟨e0, rfl⟩
          | none =>
            have := List.find?_eq_none.1 hf e he
            simp [hq] at this
        obtain ⟨e0, hf⟩ := hfind
        have hp0 := List.find?_some hf
        have he0 := List.mem_of_find?_eq_some hf
        simp only [Bool.and_eq_true, beq_iff_eq] at hp0
        have hee : e0 = e := eq_of_uid_eq hi.nodup he0 he hp0.1
        subst hee
        simp only [Bool.or_eq_true, beq_iff_eq, not_or, Bool.not_eq_true] at hx
        simp only [step, hf, hrn, hw, hx.2, ne_eq, hx.1, not_false_eq_true, and_self, if_true,
          Option.isSome_some]
    · refine ⟨.recvEnd r, rfl, ?_⟩
      simp only [step, hrn, hw, hany, Bool.false_eq_true, not_false_eq_true, and_self, if_true,
        Option.isSome_some]
  by_cases hq : quiescent s = true
  · -- some rank below n is walking
    have : ∃ r, r < n ∧ s.walking r = true := by
      by_cases hex : ∃ r, r < n ∧ s.walking r = true
      · exact hex
      · exfalso; apply hns; refine ⟨hq, ?_⟩
        intro r hr
        cases hwr : s.walking r with
        | false => rfl
        | true => exact absurd ⟨r, hr, hwr⟩ hex
    obtain ⟨r, _, hw⟩ := this
    exact walker r hw
  · -- an entry that is not done
    unfold quiescent at hq
    rw [List.all_eq_true] at hq
    have : ∃ e ∈ s.es, isDone e = false := by
      by_cases hex : ∃ e ∈ s.es, isDone e = false
      · exact hex
      · exfalso; apply hq; intro e he
        cases hde : isDone e with
        | false => exact absurd ⟨e, he, hde⟩ hex
        | true => unfold isDone at hde; exact hde
    obtain ⟨e, he, hnd⟩ := this
    cases hloc : e.loc with
    | done r => simp [isDone, hloc] at hnd
    | inBuf r hop =>
      refine ⟨.isend r hop, rfl, ?_⟩
      have h1 := (hl.buf e he r hop hloc).1
      have h2 : s.es.any (inBufOf r hop) = true := List.any_eq_true.2 ⟨e, he, inBufOf_iff.2 hloc⟩
      simp only [step, h1, h2, and_self, if_true, Option.isSome_some]
    | inWalk r => exact walker r (hl.walk e he r hloc)
    | inWire a d k =>
      have hdn := hl.wire e he a d k hloc
      cases hwd : s.walking d with
      | true => exact walker d hwd
      | false =>
        obtain ⟨k', ⟨e1, he1, hloc1⟩, hno⟩ := oldest_in_flight s.es a d k ⟨e, he, hloc⟩
        refine ⟨.recvBegin d a k', rfl, ?_⟩
        have h2 : s.es.any (inWireOf a d k') = true := List.any_eq_true.2 ⟨e1, he1, inWireOf_iff.2 hloc1⟩
        simp only [step, hdn, hwd, h2, hno, Bool.false_eq_true, not_false_eq_true, and_self, if_true,
          Option.isSome_some]

end YgmVerif.Deliver
