import YgmVerif.Model.BcastComm
import YgmVerif.Props.C05
import YgmVerif.Props.C02C01
/-!
Lemmas for the broadcast discipline on joint histories (`YgmVerif.BcastComm`):

* uid arithmetic (`legUid` / `bidOf` / `idxOf`), the legs by index (`legAt`);
* what the ghost readings of the label list are in an accepted run: `tagged` lists exactly the issued messages
  (`tagged_msgs`) with the context `Comm.St.cur` (`nextCur_eq`, `run_cur`), `execRec` lists exactly the records of
  `Deliver.executed` (`run_executed`);
* under the discipline an issued message with a broadcast id of `B` is the leg with its index (`issued_leg_shape`,
  `tagged_leg_rank`);
* counting lemmas;
* the program order of the stage-1 loop: labels that are not handler start / return or barrier entry / return of rank o
  leave `inBar o` / `busy o` alone (`step_keeps_ctl`), `async` needs "outside a barrier or inside a handler"
  (`step_async_guard`), hence the invariant `open_inv`: while a stage-1 loop is half-way its origin is outside the
  barrier or inside a handler.
-/
namespace YgmVerif.BcastComm
open YgmVerif
open YgmVerif.Comm (Label St Msg)
open YgmVerif.Bcast (Leg bcastLegs bcastExec)

/-! ### uids -/

theorem bidOf_legUid {n b i : Nat} (hi : i < n) : bidOf n (legUid n b i) = b := by
  unfold bidOf legUid
  rw [Nat.add_comm, Nat.add_mul_div_right _ _ (by omega : 0 < n), Nat.div_eq_of_lt hi, Nat.zero_add]

theorem idxOf_legUid {n b i : Nat} (hi : i < n) : idxOf n (legUid n b i) = i := by
  unfold idxOf legUid
  rw [Nat.add_comm, Nat.add_mul_mod_self_right, Nat.mod_eq_of_lt hi]

theorem legUid_bid_idx (n u : Nat) : legUid n (bidOf n u) (idxOf n u) = u := by
  unfold legUid bidOf idxOf
  exact Nat.div_add_mod' u n

theorem idxOf_lt {n : Nat} (hn : 0 < n) (u : Nat) : idxOf n u < n := Nat.mod_lt _ hn

theorem legUid_inj {n b i j : Nat} (h : legUid n b i = legUid n b j) : i = j := by
  unfold legUid at h; omega

/-! ### the legs by index -/

theorem map_getD_range {α : Type} (l : List α) (d : α) : (List.range l.length).map (fun i => l.getD i d) = l := by
  apply List.ext_getElem
  · simp
  · intro i h1 h2
    simp [List.getD_eq_getElem?_getD, List.getElem?_eq_getElem h2]

theorem legs_length {N p o : Nat} (ho : o < N * p) : (bcastLegs N p o).length = N * p :=
  (Bcast.bcast_legs_counted ho).1

theorem legAt_mem {N p o i : Nat} (ho : o < N * p) (hi : i < N * p) : legAt N p o i ∈ bcastLegs N p o := by
  have hl : i < (bcastLegs N p o).length := by rw [legs_length ho]; exact hi
  unfold legAt
  rw [List.getD_eq_getElem?_getD, List.getElem?_eq_getElem hl]
  exact List.getElem_mem hl

theorem exists_legAt_of_mem {N p o : Nat} (ho : o < N * p) {g : Leg} (hg : g ∈ bcastLegs N p o) :
    ∃ j, j < N * p ∧ legAt N p o j = g := by
  obtain ⟨j, hj, e⟩ := List.getElem_of_mem hg
  refine ⟨j, by rw [← legs_length ho]; exact hj, ?_⟩
  unfold legAt
  rw [List.getD_eq_getElem?_getD, List.getElem?_eq_getElem hj]
  exact e

/-- reading a component of the legs by index gives that component of `bcastLegs` -/
theorem map_legAt {α : Type} {N p o : Nat} (ho : o < N * p) (f : Leg → α) :
    (List.range (N * p)).map (fun i => f (legAt N p o i)) = (bcastLegs N p o).map f := by
  have h := map_getD_range (bcastLegs N p o) (0, 0, 0)
  rw [legs_length ho] at h
  have : (List.range (N * p)).map (fun i => f (legAt N p o i))
      = ((List.range (N * p)).map (fun i => (bcastLegs N p o).getD i (0, 0, 0))).map f := by
    rw [List.map_map]; rfl
  rw [this, h]

theorem map_legAt_dst {N p o : Nat} (ho : o < N * p) :
    (List.range (N * p)).map (fun i => (legAt N p o i).dst) = bcastExec N p o :=
  map_legAt ho Leg.dst

/-! ### `tagged`, `curNext`, `execRec` in an accepted run -/

theorem issuesOf_msgs (c : Nat → Option Nat) (l : Label) : (issuesOf c l).map Issue.msg = Comm.issued l := by
  cases l <;> try rfl
  case runcb r msgs j =>
    simp only [issuesOf, Comm.issued, List.map_map]
    have : (Issue.msg ∘ fun m : Msg => ((r, c r, m) : Issue)) = id := rfl
    rw [this, List.map_id]

/-- `tagged` lists exactly the messages the history issues, in issue order -/
theorem taggedFrom_msgs (c : Nat → Option Nat) (ls : List Label) :
    (taggedFrom c ls).map Issue.msg = ls.flatMap Comm.issued := by
  induction ls generalizing c with
  | nil => rfl
  | cons l ls ih =>
    simp only [taggedFrom, List.map_append, List.flatMap_cons]
    rw [ih, issuesOf_msgs]

theorem tagged_msgs (ls : List Label) : (tagged ls).map Issue.msg = ls.flatMap Comm.issued :=
  taggedFrom_msgs _ ls

theorem mem_issued_of_tagged {ls : List Label} {t : Issue} (h : t ∈ tagged ls) :
    t.msg ∈ ls.flatMap Comm.issued := by
  rw [← tagged_msgs]; exact List.mem_map.2 ⟨t, h, rfl⟩

theorem tagged_of_mem_issued {ls : List Label} {m : Msg} (h : m ∈ ls.flatMap Comm.issued) :
    ∃ t ∈ tagged ls, t.msg = m := by
  rw [← tagged_msgs] at h
  exact List.mem_map.1 h

/-- the context `tagged` records is the ghost `cur` of the joint model -/
theorem nextCur_eq (s : St) (l : Label) : Comm.nextCur s l = curNext s.cur l := by
  cases l <;> rfl

def curAfter (c : Nat → Option Nat) : List Label → (Nat → Option Nat)
  | [] => c
  | l :: ls => curAfter (curNext c l) ls

theorem run_cur {n : Nat} {nh : Nat → Nat → Nat} {s s' : St} (ls : List Label)
    (h : Comm.run n nh s ls = some s') : s'.cur = curAfter s.cur ls := by
  induction ls generalizing s with
  | nil => simp only [Comm.run] at h; cases h; rfl
  | cons l ls ih =>
    simp only [Comm.run] at h
    cases hst : Comm.step n nh s l with
    | none => rw [hst] at h; cases h
    | some s1 =>
      rw [hst] at h
      rw [ih h, (Comm.step_some hst).2.2.2, nextCur_eq]; rfl

theorem step_executed {n : Nat} {nh : Nat → Nat → Nat} {s s' : St} {l : Label}
    (h : Comm.step n nh s l = some s') : s'.d.executed = s.d.executed ++ execRec l := by
  obtain ⟨_, hD, _, _⟩ := Comm.step_some h
  obtain ⟨d', b', c'⟩ := s'
  simp only at hD ⊢
  cases l with
  | async r uid dest direct =>
    simp only [Comm.projD, Comm.dRun_single, Deliver.step] at hD
    split at hD
    · cases hD; simp [execRec]
    · cases hD
  | isend r hop =>
    simp only [Comm.projD, Comm.dRun_single, Deliver.step] at hD
    split at hD
    · cases hD; simp [execRec]
    · cases hD
  | recvBegin r src seq =>
    simp only [Comm.projD, Comm.dRun_single, Deliver.step] at hD
    split at hD
    · cases hD; simp [execRec]
    · cases hD
  | fwd r uid =>
    simp only [Comm.projD, Comm.dRun_single, Deliver.step] at hD
    split at hD
    · split at hD
      · cases hD; simp [execRec]
      · cases hD
    · cases hD
  | recvEnd r =>
    simp only [Comm.projD, Comm.dRun_single, Deliver.step] at hD
    split at hD
    · cases hD; simp [execRec]
    · cases hD
  | execBegin r uid => simp only [Comm.projD, Comm.dRun_nil] at hD; cases hD; simp [execRec]
  | execEnd r uid =>
    simp only [Comm.projD, Comm.dRun_single, Deliver.step] at hD
    split at hD
    · cases hD; rfl
    · cases hD
  | regcb r => simp only [Comm.projD, Comm.dRun_nil] at hD; cases hD; simp [execRec]
  | runcb r msgs j =>
    simp only [Comm.projD] at hD
    obtain ⟨_, _, _, _, _, h5⟩ := Comm.asyncs_run msgs s.d d' hD
    rw [h5]; simp [execRec]
  | enter r => simp only [Comm.projD, Comm.dRun_nil] at hD; cases hD; simp [execRec]
  | contribute r => simp only [Comm.projD, Comm.dRun_nil] at hD; cases hD; simp [execRec]
  | result r => simp only [Comm.projD, Comm.dRun_nil] at hD; cases hD; simp [execRec]
  | exit r => simp only [Comm.projD, Comm.dRun_nil] at hD; cases hD; simp [execRec]

/-- the records of `Deliver.executed` are exactly the handler returns `execEnd` of the history, in order -/
theorem run_executed_from {n : Nat} {nh : Nat → Nat → Nat} {s s' : St} (ls : List Label)
    (h : Comm.run n nh s ls = some s') : s'.d.executed = s.d.executed ++ ls.flatMap execRec := by
  induction ls generalizing s with
  | nil => simp only [Comm.run] at h; cases h; simp
  | cons l ls ih =>
    simp only [Comm.run] at h
    cases hst : Comm.step n nh s l with
    | none => rw [hst] at h; cases h
    | some s1 =>
      rw [hst] at h
      rw [ih h, step_executed hst, List.flatMap_cons, List.append_assoc]

theorem run_executed {n : Nat} {nh : Nat → Nat → Nat} {s : St} {ls : List Label}
    (h : Comm.run n nh Comm.init ls = some s) : s.d.executed = ls.flatMap execRec := by
  have := run_executed_from ls h
  simpa [Comm.init, Deliver.St.init] using this

/-- issued messages have pairwise different uids (`Deliver.async` refuses a uid already in use) -/
theorem issued_uids_nodup {n : Nat} {nh : Nat → Nat → Nat} {s : St} {ls : List Label}
    (h : Comm.run n nh Comm.init ls = some s) : ((ls.flatMap Comm.issued).map (·.1)).Nodup := by
  have hk := Comm.C02C01_entries_are_the_asyncs n nh ls s h
  have hn := (Comm.run_link h).1.nodup
  rw [← hk, List.map_map]
  exact hn

theorem issued_nodup {n : Nat} {nh : Nat → Nat → Nat} {s : St} {ls : List Label}
    (h : Comm.run n nh Comm.init ls = some s) : (ls.flatMap Comm.issued).Nodup :=
  Deliver.nodup_of_nodup_map _ (issued_uids_nodup h)

/-! ### under the discipline -/

/-- an issued message with a broadcast id `b ∈ B` is the leg with its index -/
theorem issued_leg_shape {N p : Nat} {origin : Nat → Nat} {B : List Nat} {ls : List Label}
    (hw : WellIssued N p origin B ls) {m : Msg} (hm : m ∈ ls.flatMap Comm.issued) {b : Nat}
    (hb : bidOf (N * p) m.1 = b) (hB : b ∈ B) :
    m = legMsg N p (origin b) b (idxOf (N * p) m.1) := by
  obtain ⟨t, ht, rfl⟩ := tagged_of_mem_issued hm
  have hok := hw t ht (by show bidOf (N * p) t.msg.1 ∈ B; rw [hb]; exact hB)
  have hb' : bidOf (N * p) t.uid = b := hb
  rw [hb'] at hok
  obtain ⟨_, h2, h3, _⟩ := hok
  obtain ⟨r, c, u, d, dr⟩ := t
  simp only [Issue.msg, Issue.uid, Issue.dest, Issue.direct] at *
  unfold legMsg
  rw [← hb, legUid_bid_idx, hb, ← h2, ← h3]

/-- … and was issued by the source of that leg -/
theorem tagged_leg_rank {N p : Nat} {origin : Nat → Nat} {B : List Nat} {ls : List Label}
    (hw : WellIssued N p origin B ls) {t : Issue} (ht : t ∈ tagged ls) {b : Nat}
    (hb : bidOf (N * p) t.uid = b) (hB : b ∈ B) :
    t.rank = (legAt N p (origin b) (idxOf (N * p) t.uid)).src := by
  have hok := hw t ht (by rw [hb]; exact hB)
  rw [hb] at hok
  exact hok.1

/-! ### counting -/

theorem countP_add_countP_not {α : Type} (q : α → Bool) (l : List α) :
    l.countP q + l.countP (fun a => !q a) = l.length := by
  induction l with
  | nil => rfl
  | cons x xs ih =>
    simp only [List.countP_cons, List.length_cons]
    cases q x <;> simp <;> omega

theorem countP_or_disjoint {α : Type} (q1 q2 : α → Bool) (l : List α)
    (h : ∀ a ∈ l, q1 a = true → q2 a = false) :
    l.countP (fun a => q1 a || q2 a) = l.countP q1 + l.countP q2 := by
  induction l with
  | nil => rfl
  | cons x xs ih =>
    simp only [List.countP_cons]
    rw [ih (fun a ha => h a (List.mem_cons_of_mem _ ha))]
    have := h x List.mem_cons_self
    cases h1 : q1 x with
    | false => cases q2 x <;> simp <;> omega
    | true => rw [this h1]; simp; omega

/-- if every class `b ∈ B` (pairwise different) has `c` members, the union has `c * |B|` -/
theorem countP_contains {α : Type} (f : α → Nat) (l : List α) (c : Nat) :
    ∀ (B : List Nat), B.Nodup → (∀ b ∈ B, l.countP (fun a => f a == b) = c) →
      l.countP (fun a => B.contains (f a)) = c * B.length
  | [], _, _ => by simp
  | b :: B, hn, hc => by
    rw [List.nodup_cons] at hn
    have ih := countP_contains f l c B hn.2 (fun b' hb' => hc b' (List.mem_cons_of_mem _ hb'))
    have e : (fun a => (b :: B).contains (f a)) = (fun a => (f a == b) || B.contains (f a)) := by
      funext a; rw [List.contains_cons]
    rw [e, countP_or_disjoint, ih, hc b List.mem_cons_self, List.length_cons, Nat.mul_succ, Nat.add_comm]
    intro a _ h1
    have : f a = b := by simpa using h1
    rw [this]
    cases hh : B.contains b with
    | false => rfl
    | true => exact absurd (List.contains_iff_mem.1 hh) hn.1

/-! ### program order of the stage-1 loop -/

theorem issuedUids_append (a c : List Label) :
    ((a ++ c).flatMap Comm.issued).map (·.1) =
      (a.flatMap Comm.issued).map (·.1) ++ (c.flatMap Comm.issued).map (·.1) := by
  rw [List.flatMap_append, List.map_append]

theorem started_append {N p o b : Nat} {a : List Label} (c : List Label) (h : Started N p o b a) :
    Started N p o b (a ++ c) := by
  intro i hi hst
  rw [issuedUids_append]
  exact List.mem_append_left _ (h i hi hst)

theorem not_begun_nil (N p o b : Nat) : ¬ Begun N p o b [] := by
  rintro ⟨i, _, _, h⟩
  simp at h

/-- a label that is not a handler start / return or barrier entry / return of rank `o` leaves `inBar o`, `busy o` alone -/
theorem step_keeps_ctl {n : Nat} {nh : Nat → Nat → Nat} {s s' : St} {l : Label} {o : Nat}
    (h : Comm.step n nh s l = some s') (hc : isControlOf o l = false) :
    s'.b.inBar o = s.b.inBar o ∧ s'.b.busy o = s.b.busy o := by
  obtain ⟨_, _, hB, _⟩ := Comm.step_some h
  obtain ⟨d', b', c'⟩ := s'
  simp only at hB ⊢
  cases l with
  | async r uid dest direct =>
    simp only [Comm.projB, Comm.bRun_single, BarrierME.step] at hB
    split at hB
    · cases hB; exact ⟨rfl, rfl⟩
    · cases hB
  | isend r hop => simp only [Comm.projB, Comm.bRun_nil] at hB; cases hB; exact ⟨rfl, rfl⟩
  | recvBegin r src seq => simp only [Comm.projB, Comm.bRun_nil] at hB; cases hB; exact ⟨rfl, rfl⟩
  | fwd r uid => simp only [Comm.projB, Comm.bRun_nil] at hB; cases hB; exact ⟨rfl, rfl⟩
  | recvEnd r => simp only [Comm.projB, Comm.bRun_nil] at hB; cases hB; exact ⟨rfl, rfl⟩
  | execBegin r uid =>
    have hro : r ≠ o := by simpa [isControlOf] using hc
    simp only [Comm.projB, Comm.bRun_single, BarrierME.step] at hB
    split at hB
    · cases hB; exact ⟨rfl, Barrier.upd_other _ _ _ _ (fun e => hro e.symm)⟩
    · cases hB
  | execEnd r uid =>
    have hro : r ≠ o := by simpa [isControlOf] using hc
    simp only [Comm.projB, Comm.bRun_single, BarrierME.step] at hB
    split at hB
    · cases hB; exact ⟨rfl, Barrier.upd_other _ _ _ _ (fun e => hro e.symm)⟩
    · cases hB
  | regcb r =>
    simp only [Comm.projB, Comm.bRun_single, BarrierME.step] at hB
    split at hB
    · cases hB; exact ⟨rfl, rfl⟩
    · cases hB
  | runcb r msgs j =>
    simp only [Comm.projB, Comm.bRun_single, BarrierME.step] at hB
    split at hB
    · cases hB; exact ⟨rfl, rfl⟩
    · cases hB
  | enter r =>
    have hro : r ≠ o := by simpa [isControlOf] using hc
    simp only [Comm.projB, Comm.bRun_single, BarrierME.step] at hB
    split at hB
    · cases hB; exact ⟨Barrier.upd_other _ _ _ _ (fun e => hro e.symm), rfl⟩
    · cases hB
  | contribute r =>
    simp only [Comm.projB, Comm.bRun_single, BarrierME.step] at hB
    split at hB
    · cases hB; exact ⟨rfl, rfl⟩
    · cases hB
  | result r =>
    simp only [Comm.projB, Comm.bRun_single, BarrierME.step] at hB
    split at hB
    · cases hB; exact ⟨rfl, rfl⟩
    · cases hB
  | exit r =>
    have hro : r ≠ o := by simpa [isControlOf] using hc
    simp only [Comm.projB, Comm.bRun_single, BarrierME.step] at hB
    split at hB
    · cases hB; exact ⟨Barrier.upd_other _ _ _ _ (fun e => hro e.symm), rfl⟩
    · cases hB

/-- `async` is only callable outside a barrier or from inside a handler (`BarrierME.issue`) -/
theorem step_async_guard {n : Nat} {nh : Nat → Nat → Nat} {s s' : St} {o uid dest : Nat} {direct : Bool}
    (h : Comm.step n nh s (.async o uid dest direct) = some s') : s.b.inBar o = false ∨ s.b.busy o = true := by
  obtain ⟨_, _, hB, _⟩ := Comm.step_some h
  simp only [Comm.projB, Comm.bRun_single, BarrierME.step] at hB
  split at hB
  · rename_i hc; exact hc.2
  · cases hB

/-- **invariant**: while the stage-1 loop of `b` is half-way, the origin is outside a barrier or inside a handler -/
theorem open_inv {N p o b : Nat} {nh : Nat → Nat → Nat} :
    ∀ (post pre : List Label) (s s' : St), Comm.run (N * p) nh s post = some s' →
      Stage1OrderFrom N p o b pre post →
      (Open N p o b pre → s.b.inBar o = false ∨ s.b.busy o = true) →
      (Open N p o b (pre ++ post) → s'.b.inBar o = false ∨ s'.b.busy o = true)
  | [], pre, s, s', hrun, _, hI => by
    simp only [Comm.run] at hrun; cases hrun
    rw [List.append_nil]; exact hI
  | l :: post, pre, s, s', hrun, hord, hI => by
    simp only [Comm.run] at hrun
    cases hst : Comm.step (N * p) nh s l with
    | none => rw [hst] at hrun; cases hrun
    | some s1 =>
      rw [hst] at hrun
      obtain ⟨h1, h2, h3⟩ := hord
      have e : pre ++ l :: post = (pre ++ [l]) ++ post := by simp
      rw [e]
      refine open_inv post (pre ++ [l]) s1 s' hrun h3 ?_
      intro hop
      by_cases hpre : Open N p o b pre
      · obtain ⟨k1, k2⟩ := step_keeps_ctl hst (h1 hpre)
        rw [k1, k2]; exact hI hpre
      · have hnb : ¬ Begun N p o b pre := by
          intro hb
          have hs : Started N p o b pre := Decidable.not_not.1 (fun hns => hpre ⟨hb, hns⟩)
          exact hop.2 (started_append _ hs)
        rcases h2 hnb hop.1 with ha | hs
        · cases l with
          | async r uid dest direct =>
            have hro : r = o := by simpa [isAsyncOf] using ha
            subst hro
            have hg := step_async_guard hst
            obtain ⟨k1, k2⟩ := step_keeps_ctl (o := r) hst rfl
            rw [k1, k2]; exact hg
          | _ => simp [isAsyncOf] at ha
        · exact absurd hs hop.2

end YgmVerif.BcastComm
