import YgmVerif.Model.DSet
/-!
Helper lemmas for the disjoint_set message system: the order `(rank, item)`, ancestors,
`sameTree`, connectivity in the union graph, and the effect of the primitive state
transformers (`visit`, `send`, `reparent`, `bump`, `logMerge`, `callback`).
-/
namespace YgmVerif.DSet

/-! ### vocabulary -/

def isRoot (s : State) (x : Item) : Prop := parent s x = x

instance (s : State) (x : Item) : Decidable (isRoot s x) := by unfold isRoot; infer_instance

/-- `(rank x, x) <lex (rank y, y)` -/
def lexLt (s : State) (x y : Item) : Prop := rank s x < rank s y ∨ (rank s x = rank s y ∧ x < y)

/-- `c` is `t` itself, or a non-root strictly below `t` -/
def Below (s : State) (c t : Item) : Prop := c = t ∨ (¬ isRoot s c ∧ lexLt s c t)

/-- ancestors: reflexive-transitive closure of the parent function -/
inductive Anc (s : State) : Item → Item → Prop
  | refl (x : Item) : Anc s x x
  | step {x a : Item} : Anc s (parent s x) a → Anc s x a

/-- two items have a common ancestor -/
def sameTree (s : State) (x y : Item) : Prop := ∃ r, Anc s x r ∧ Anc s y r

/-- connected in the (undirected) graph with edge list `E` -/
inductive Conn (E : List (Item × Item)) : Item → Item → Prop
  | refl (x : Item) : Conn E x x
  | edge {a b : Item} : (a, b) ∈ E → Conn E a b
  | symm {a b : Item} : Conn E a b → Conn E b a
  | trans {a b c : Item} : Conn E a b → Conn E b c → Conn E a c

/-- an edge list (newest first) in which every edge joins two items not connected by the
older edges: a forest -/
def Forest : List (Item × Item) → Prop
  | [] => True
  | e :: es => ¬ Conn es e.1 e.2 ∧ Forest es

/-! ### lexLt -/

theorem lexLt_irrefl (s : State) (x : Item) : ¬ lexLt s x x := by
  unfold lexLt; intro h; rcases h with h | ⟨_, h⟩ <;> omega

theorem lexLt_trans {s : State} {x y z : Item} (h1 : lexLt s x y) (h2 : lexLt s y z) : lexLt s x z := by
  unfold lexLt at *
  rcases h1 with h1 | ⟨h1, h1'⟩ <;> rcases h2 with h2 | ⟨h2, h2'⟩
  · left; omega
  · left; omega
  · left; omega
  · right; exact ⟨by omega, by omega⟩

theorem lexLt_ne {s : State} {x y : Item} (h : lexLt s x y) : x ≠ y := by
  intro e; subst e; exact lexLt_irrefl s x h

theorem lexLt_asymm {s : State} {x y : Item} (h1 : lexLt s x y) (h2 : lexLt s y x) : False :=
  lexLt_irrefl s x (lexLt_trans h1 h2)

theorem lexLt_rank_le {s : State} {x y : Item} (h : lexLt s x y) : rank s x ≤ rank s y := by
  unfold lexLt at h; omega

theorem lexLtB_iff (s : State) (x y : Item) : lexLtB s x y = true ↔ lexLt s x y := by
  unfold lexLtB lexLt; simp

/-! ### transformers: what they read back -/

@[simp] theorem ent_send (s : State) (m : Msg) : (send s m).ent = s.ent := rfl
@[simp] theorem dom_send (s : State) (m : Msg) : (send s m).dom = s.dom := rfl
@[simp] theorem msgs_send (s : State) (m : Msg) : (send s m).msgs = s.msgs ++ [m] := rfl
@[simp] theorem cbs_send (s : State) (m : Msg) : (send s m).cbs = s.cbs := rfl
@[simp] theorem mergeLog_send (s : State) (m : Msg) : (send s m).mergeLog = s.mergeLog := rfl
@[simp] theorem issued_send (s : State) (m : Msg) : (send s m).issued = s.issued := rfl
@[simp] theorem plain_send (s : State) (m : Msg) : (send s m).plainIssued = s.plainIssued := rfl
@[simp] theorem aborted_send (s : State) (m : Msg) : (send s m).aborted = s.aborted := rfl

@[simp] theorem ent_visit (s : State) (t : Item) : (visit s t).ent = s.ent := by unfold visit; split <;> rfl
@[simp] theorem msgs_visit (s : State) (t : Item) : (visit s t).msgs = s.msgs := by unfold visit; split <;> rfl
@[simp] theorem cbs_visit (s : State) (t : Item) : (visit s t).cbs = s.cbs := by unfold visit; split <;> rfl
@[simp] theorem mergeLog_visit (s : State) (t : Item) : (visit s t).mergeLog = s.mergeLog := by unfold visit; split <;> rfl
@[simp] theorem issued_visit (s : State) (t : Item) : (visit s t).issued = s.issued := by unfold visit; split <;> rfl
@[simp] theorem plain_visit (s : State) (t : Item) : (visit s t).plainIssued = s.plainIssued := by unfold visit; split <;> rfl
@[simp] theorem aborted_visit (s : State) (t : Item) : (visit s t).aborted = s.aborted := by unfold visit; split <;> rfl
theorem mem_dom_visit (s : State) (t y : Item) : y ∈ (visit s t).dom ↔ y = t ∨ y ∈ s.dom := by
  unfold visit; split
  · constructor
    · exact Or.inr
    · rintro (h | h)
      · subst h; assumption
      · exact h
  · simp
theorem self_mem_dom_visit (s : State) (t : Item) : t ∈ (visit s t).dom := (mem_dom_visit s t t).2 (Or.inl rfl)

@[simp] theorem dom_reparent (s : State) (x z : Item) : (reparent s x z).dom = s.dom := rfl
@[simp] theorem msgs_reparent (s : State) (x z : Item) : (reparent s x z).msgs = s.msgs := rfl
@[simp] theorem cbs_reparent (s : State) (x z : Item) : (reparent s x z).cbs = s.cbs := rfl
@[simp] theorem mergeLog_reparent (s : State) (x z : Item) : (reparent s x z).mergeLog = s.mergeLog := rfl
@[simp] theorem issued_reparent (s : State) (x z : Item) : (reparent s x z).issued = s.issued := rfl
@[simp] theorem plain_reparent (s : State) (x z : Item) : (reparent s x z).plainIssued = s.plainIssued := rfl
@[simp] theorem aborted_reparent (s : State) (x z : Item) : (reparent s x z).aborted = s.aborted := rfl
@[simp] theorem rank_reparent (s : State) (x z y : Item) : rank (reparent s x z) y = rank s y := by
  unfold rank reparent; simp only; split
  · next h => subst h; rfl
  · rfl
theorem parent_reparent (s : State) (x z y : Item) :
    parent (reparent s x z) y = if y = x then z else parent s y := by
  unfold parent reparent; simp only; split <;> rfl

@[simp] theorem dom_bump (s : State) (p : Item) (r : Int) : (bump s p r).dom = s.dom := rfl
@[simp] theorem msgs_bump (s : State) (p : Item) (r : Int) : (bump s p r).msgs = s.msgs := rfl
@[simp] theorem cbs_bump (s : State) (p : Item) (r : Int) : (bump s p r).cbs = s.cbs := rfl
@[simp] theorem mergeLog_bump (s : State) (p : Item) (r : Int) : (bump s p r).mergeLog = s.mergeLog := rfl
@[simp] theorem issued_bump (s : State) (p : Item) (r : Int) : (bump s p r).issued = s.issued := rfl
@[simp] theorem plain_bump (s : State) (p : Item) (r : Int) : (bump s p r).plainIssued = s.plainIssued := rfl
@[simp] theorem aborted_bump (s : State) (p : Item) (r : Int) : (bump s p r).aborted = s.aborted := rfl
@[simp] theorem parent_bump (s : State) (p : Item) (r : Int) (y : Item) : parent (bump s p r) y = parent s y := by
  unfold parent bump; simp only; split
  · next h => subst h; rfl
  · rfl
theorem rank_bump (s : State) (p : Item) (r : Int) (y : Item) :
    rank (bump s p r) y = if y = p then r else rank s y := by
  unfold rank bump; simp only; split <;> rfl

@[simp] theorem ent_logMerge (s : State) (ex : Bool) (t op : Item) : (logMerge s ex t op).ent = s.ent := rfl
@[simp] theorem dom_logMerge (s : State) (ex : Bool) (t op : Item) : (logMerge s ex t op).dom = s.dom := rfl
@[simp] theorem msgs_logMerge (s : State) (ex : Bool) (t op : Item) : (logMerge s ex t op).msgs = s.msgs := rfl
@[simp] theorem cbs_logMerge (s : State) (ex : Bool) (t op : Item) : (logMerge s ex t op).cbs = s.cbs := rfl
@[simp] theorem mergeLog_logMerge (s : State) (ex : Bool) (t op : Item) : (logMerge s ex t op).mergeLog = (ex, t, op) :: s.mergeLog := rfl
@[simp] theorem issued_logMerge (s : State) (ex : Bool) (t op : Item) : (logMerge s ex t op).issued = s.issued := rfl
@[simp] theorem plain_logMerge (s : State) (ex : Bool) (t op : Item) : (logMerge s ex t op).plainIssued = s.plainIssued := rfl
@[simp] theorem aborted_logMerge (s : State) (ex : Bool) (t op : Item) : (logMerge s ex t op).aborted = s.aborted := rfl

@[simp] theorem ent_callback (s : State) (a b : Item) : (callback s a b).ent = s.ent := rfl
@[simp] theorem dom_callback (s : State) (a b : Item) : (callback s a b).dom = s.dom := rfl
@[simp] theorem msgs_callback (s : State) (a b : Item) : (callback s a b).msgs = s.msgs := rfl
@[simp] theorem cbs_callback (s : State) (a b : Item) : (callback s a b).cbs = (a, b) :: s.cbs := rfl
@[simp] theorem mergeLog_callback (s : State) (a b : Item) : (callback s a b).mergeLog = s.mergeLog := rfl
@[simp] theorem issued_callback (s : State) (a b : Item) : (callback s a b).issued = s.issued := rfl
@[simp] theorem plain_callback (s : State) (a b : Item) : (callback s a b).plainIssued = s.plainIssued := rfl
@[simp] theorem aborted_callback (s : State) (a b : Item) : (callback s a b).aborted = s.aborted := rfl

/-- two states with the same map read the same -/
theorem rank_of_ent {s s' : State} (h : s'.ent = s.ent) (x : Item) : rank s' x = rank s x := by unfold rank; rw [h]
theorem parent_of_ent {s s' : State} (h : s'.ent = s.ent) (x : Item) : parent s' x = parent s x := by unfold parent; rw [h]

/-! ### ancestors -/

theorem Anc.trans {s : State} {x y z : Item} (h1 : Anc s x y) (h2 : Anc s y z) : Anc s x z := by
  induction h1 with
  | refl _ => exact h2
  | step _ ih => exact Anc.step (ih h2)

theorem Anc.to_parent (s : State) (x : Item) : Anc s x (parent s x) := Anc.step (Anc.refl _)

theorem Anc.of_root {s : State} {r a : Item} (hr : isRoot s r) (h : Anc s r a) : a = r := by
  generalize hx : r = x at h
  induction h with
  | refl _ => rfl
  | step _ ih =>
    subst hx
    have : parent s r = r := hr
    rw [this] at ih
    exact ih rfl

/-- the ancestors of an item form a chain (the parent is a function) -/
theorem Anc.chain {s : State} {x a b : Item} (h1 : Anc s x a) (h2 : Anc s x b) : Anc s a b ∨ Anc s b a := by
  induction h1 with
  | refl _ => exact Or.inl h2
  | step h ih =>
    cases h2 with
    | refl _ => exact Or.inr (Anc.step h)
    | step h2' => exact ih h2'

/-- ancestor relations only depend on the parent function -/
theorem Anc.congr {s s' : State} (h : ∀ x, parent s' x = parent s x) {x a : Item} (ha : Anc s x a) : Anc s' x a := by
  induction ha with
  | refl _ => exact Anc.refl _
  | step _ ih => exact Anc.step (by rw [h]; exact ih)

theorem sameTree.refl (s : State) (x : Item) : sameTree s x x := ⟨x, Anc.refl x, Anc.refl x⟩
theorem sameTree.symm {s : State} {x y : Item} (h : sameTree s x y) : sameTree s y x := by
  obtain ⟨r, h1, h2⟩ := h; exact ⟨r, h2, h1⟩
theorem sameTree.trans {s : State} {x y z : Item} (h1 : sameTree s x y) (h2 : sameTree s y z) : sameTree s x z := by
  obtain ⟨r, hx, hy⟩ := h1
  obtain ⟨r', hy', hz⟩ := h2
  rcases Anc.chain hy hy' with h | h
  · exact ⟨r', hx.trans h, hz⟩
  · exact ⟨r, hx, hz.trans h⟩
theorem sameTree.of_anc {s : State} {x a : Item} (h : Anc s x a) : sameTree s x a := ⟨a, h, Anc.refl a⟩
theorem sameTree.to_parent (s : State) (x : Item) : sameTree s x (parent s x) := sameTree.of_anc (Anc.to_parent s x)
theorem sameTree.congr {s s' : State} (h : ∀ x, parent s' x = parent s x) {x y : Item} (hs : sameTree s x y) : sameTree s' x y := by
  obtain ⟨r, h1, h2⟩ := hs; exact ⟨r, h1.congr h, h2.congr h⟩

/-! ### connectivity -/

theorem Conn.mono {E E' : List (Item × Item)} (h : ∀ e, e ∈ E → e ∈ E') {a b : Item} (c : Conn E a b) : Conn E' a b := by
  induction c with
  | refl _ => exact Conn.refl _
  | edge he => exact Conn.edge (h _ he)
  | symm _ ih => exact Conn.symm ih
  | trans _ _ ih1 ih2 => exact Conn.trans ih1 ih2

/-- an equivalence relation containing the edges contains connectivity -/
theorem Conn.rec_equiv {E : List (Item × Item)} (R : Item → Item → Prop)
    (hr : ∀ x, R x x) (hs : ∀ x y, R x y → R y x) (ht : ∀ x y z, R x y → R y z → R x z)
    (he : ∀ a b, (a, b) ∈ E → R a b) {a b : Item} (c : Conn E a b) : R a b := by
  induction c with
  | refl _ => exact hr _
  | edge h => exact he _ _ h
  | symm _ ih => exact hs _ _ ih
  | trans _ _ ih1 ih2 => exact ht _ _ _ ih1 ih2

/-! ### list helpers -/

theorem filter_length_lt {α : Type} (l : List α) (P Q : α → Bool)
    (hPQ : ∀ y ∈ l, P y = true → Q y = true) (hex : ∃ y ∈ l, Q y = true ∧ P y = false) :
    (l.filter P).length < (l.filter Q).length := by
  induction l with
  | nil => obtain ⟨y, hy, _⟩ := hex; cases hy
  | cons a l ih =>
    have hle : ∀ (l : List α), (∀ y ∈ l, P y = true → Q y = true) → (l.filter P).length ≤ (l.filter Q).length := by
      intro l
      induction l with
      | nil => intro _; simp
      | cons b l ihl =>
        intro h
        have h1 := ihl (fun y hy => h y (List.mem_cons_of_mem _ hy))
        have h2 := h b (List.mem_cons_self)
        simp only [List.filter_cons]
        cases hp : P b <;> cases hq : Q b <;> simp_all <;> omega
    obtain ⟨y, hy, hq, hp⟩ := hex
    simp only [List.filter_cons]
    rcases List.mem_cons.mp hy with rfl | hy'
    · have := hle l (fun y hy => hPQ y (List.mem_cons_of_mem _ hy))
      simp [hq, hp]; omega
    · have := ih (fun y hy => hPQ y (List.mem_cons_of_mem _ hy)) ⟨y, hy', hq, hp⟩
      have h2 := hPQ a (List.mem_cons_self)
      cases hpa : P a <;> cases hqa : Q a <;> simp_all <;> omega

theorem mem_of_getElem?_eraseIdx {α : Type} (l : List α) (i : Nat) (m : α) (h : l[i]? = some m) (x : α) :
    x ∈ l ↔ x = m ∨ x ∈ l.eraseIdx i := by
  induction l generalizing i with
  | nil => simp at h
  | cons a l ih =>
    cases i with
    | zero => simp at h; subst h; simp
    | succ i =>
      simp at h
      simp only [List.eraseIdx_cons_succ, List.mem_cons]
      rw [ih i h]
      constructor
      · rintro (h1 | h1 | h1)
        · exact Or.inr (Or.inl h1)
        · exact Or.inl h1
        · exact Or.inr (Or.inr h1)
      · rintro (h1 | h1 | h1)
        · exact Or.inr (Or.inl h1)
        · exact Or.inl h1
        · exact Or.inr (Or.inr h1)


theorem filter_flip {α : Type} [DecidableEq α] (l : List α) (P Q : α → Bool) (t : α) (hnd : l.Nodup) (ht : t ∈ l)
    (hP : P t = true) (hQ : Q t = false) (hrest : ∀ y, y ≠ t → P y = Q y) :
    (l.filter Q).length + 1 = (l.filter P).length := by
  induction l with
  | nil => cases ht
  | cons a l ih =>
    have hnd' := (List.nodup_cons.mp hnd)
    simp only [List.filter_cons]
    by_cases hat : a = t
    · subst hat
      have : l.filter Q = l.filter P := by
        apply List.filter_congr
        intro y hy
        have : y ≠ a := by intro e; subst e; exact hnd'.1 hy
        exact (hrest y this).symm
      simp [hP, hQ, this]
    · have htl : t ∈ l := by
        rcases List.mem_cons.mp ht with h | h
        · exact absurd h.symm hat
        · exact h
      have := ih hnd'.2 htl
      have hpa := hrest a hat
      cases hq : Q a <;> simp_all <;> omega

/-! ### the invariant -/

/-- what must hold of a message while it is in flight -/
def MsgOk (s : State) : Msg → Prop
  | .walk _ t c op oi ork oa ob =>
      Below s c t ∧ Below s oi op ∧ ork ≤ rank s op ∧ -1 ≤ ork ∧ (0 ≤ ork → op ∈ s.dom)
      ∧ sameTree s c t ∧ sameTree s oi op
      ∧ ((sameTree s t oa ∧ sameTree s op ob) ∨ (sameTree s t ob ∧ sameTree s op oa))
      ∧ (oa, ob) ∈ s.issued
  | .setp x z => ¬ isRoot s x ∧ lexLt s x z ∧ z ∈ s.dom ∧ sameTree s x z
  | .resolve p x k => ¬ isRoot s x ∧ rank s x = k ∧ lexLt s x p ∧ sameTree s x p

def isExec : Msg → Prop
  | .walk ex _ _ _ _ _ _ _ => ex = true
  | _ => True

/-- the part of the invariant that only talks about the parent map -/
structure InvA (s : State) : Prop where
  lex : ∀ x, ¬ isRoot s x → lexLt s x (parent s x)
  rank_nonneg : ∀ x, 0 ≤ rank s x
  nondom : ∀ x, x ∉ s.dom → s.ent x = ⟨0, x⟩
  closed : ∀ x, x ∈ s.dom → parent s x ∈ s.dom
  nodup : s.dom.Nodup

/-- the invariant; `pend` = messages taken out of `msgs` whose handler is still running -/
structure InvP (pend : List Msg) (s : State) : Prop where
  a : InvA s
  msgs : ∀ m, m ∈ pend ++ s.msgs → MsgOk s m
  noabort : s.aborted = false
  sound : ∀ x, Conn s.issued x (parent s x)
  done : ∀ a b, (a, b) ∈ s.issued →
    sameTree s a b ∨ ∃ ex t c op oi ork, Msg.walk ex t c op oi ork a b ∈ pend ++ s.msgs
  count : s.mergeLog.length + numSets s = s.dom.length
  cbs_eq : s.cbs.length = (s.mergeLog.filter (·.1)).length
  cbs_tree : ∀ e, e ∈ s.cbs → sameTree s e.1 e.2
  cbs_issued : ∀ e, e ∈ s.cbs → e ∈ s.issued
  forest : Forest s.cbs
  exec : s.plainIssued = 0 → (∀ m, m ∈ pend ++ s.msgs → isExec m) ∧ (∀ e, e ∈ s.mergeLog → e.1 = true)
  span : s.plainIssued = 0 → ∀ x, Conn s.cbs x (parent s x)

abbrev Inv (s : State) : Prop := InvP [] s

/-- `s'` extends `s`: ranks grow, non-roots stay non-roots with their rank, nothing is split -/
structure Ext (s s' : State) : Prop where
  rank_le : ∀ x, rank s x ≤ rank s' x
  nonroot : ∀ x, ¬ isRoot s x → ¬ isRoot s' x ∧ rank s' x = rank s x
  dom : ∀ x, x ∈ s.dom → x ∈ s'.dom
  tree : ∀ x y, sameTree s x y → sameTree s' x y
  issued : ∀ e, e ∈ s.issued → e ∈ s'.issued

theorem lexLt.mono {s s' : State} (e : Ext s s') {x y : Item} (hx : ¬ isRoot s x) (h : lexLt s x y) : lexLt s' x y := by
  have h1 := (e.nonroot x hx).2
  have h2 := e.rank_le y
  unfold lexLt at *
  rcases h with h | ⟨h, h'⟩
  · left; omega
  · by_cases hh : rank s' y = rank s y
    · right; exact ⟨by omega, h'⟩
    · left; omega

theorem Below.mono {s s' : State} (e : Ext s s') {c t : Item} (h : Below s c t) : Below s' c t := by
  rcases h with h | ⟨h1, h2⟩
  · exact Or.inl h
  · exact Or.inr ⟨(e.nonroot c h1).1, lexLt.mono e h1 h2⟩

theorem MsgOk.mono {s s' : State} (e : Ext s s') {m : Msg} (h : MsgOk s m) : MsgOk s' m := by
  cases m with
  | walk ex t c op oi ork oa ob =>
    obtain ⟨h1, h2, h3, h4, h5, h6, h7, h8, h9⟩ := h
    refine ⟨h1.mono e, h2.mono e, ?_, h4, fun h => e.dom _ (h5 h), e.tree _ _ h6, e.tree _ _ h7, ?_, e.issued _ h9⟩
    · have := e.rank_le op; omega
    · rcases h8 with ⟨a, b⟩ | ⟨a, b⟩
      · exact Or.inl ⟨e.tree _ _ a, e.tree _ _ b⟩
      · exact Or.inr ⟨e.tree _ _ a, e.tree _ _ b⟩
  | setp x z =>
    obtain ⟨h1, h2, h3, h4⟩ := h
    exact ⟨(e.nonroot x h1).1, lexLt.mono e h1 h2, e.dom _ h3, e.tree _ _ h4⟩
  | resolve p x k =>
    obtain ⟨h1, h2, h3, h4⟩ := h
    exact ⟨(e.nonroot x h1).1, by rw [(e.nonroot x h1).2]; exact h2, lexLt.mono e h1 h3, e.tree _ _ h4⟩

/-- states that read the same map -/
theorem Ext.of_ent {s s' : State} (hent : s'.ent = s.ent) (hdom : ∀ x, x ∈ s.dom → x ∈ s'.dom)
    (hiss : ∀ e, e ∈ s.issued → e ∈ s'.issued) : Ext s s' where
  rank_le x := by rw [rank_of_ent hent]; exact Int.le_refl _
  nonroot x h := by unfold isRoot at *; rw [parent_of_ent hent, rank_of_ent hent]; exact ⟨h, rfl⟩
  dom := hdom
  tree x y h := h.congr (parent_of_ent hent)
  issued := hiss

/-! ### ancestors under re-parenting: nothing is ever split -/

theorem anc_lexLe {s : State} (hlex : ∀ x, ¬ isRoot s x → lexLt s x (parent s x)) {w y : Item} (h : Anc s w y) :
    w = y ∨ lexLt s w y := by
  induction h with
  | refl _ => exact Or.inl rfl
  | @step x a _ ih =>
    by_cases hr : isRoot s x
    · have : parent s x = x := hr
      rw [this] at ih; exact ih
    · have h1 := hlex x hr
      rcases ih with ih | ih
      · right; rw [← ih]; exact h1
      · right; exact lexLt_trans h1 ih

/-- a path that never meets `x` is not affected by re-parenting `x` -/
theorem Anc.avoid {s : State} (x z : Item) {w a : Item} (hav : ∀ y, Anc s w y → y ≠ x) (h : Anc s w a) :
    Anc (reparent s x z) w a := by
  induction h with
  | refl _ => exact Anc.refl _
  | @step u a _ ih =>
    have hu : u ≠ x := hav u (Anc.refl u)
    apply Anc.step
    rw [parent_reparent, if_neg hu]
    exact ih (fun y hy => hav y (Anc.step hy))

theorem Anc.reparent_root {s : State} {x : Item} (z : Item) (hroot : isRoot s x) {u a : Item} (h : Anc s u a) :
    Anc (reparent s x z) u a := by
  induction h with
  | refl _ => exact Anc.refl _
  | @step u a _ ih =>
    by_cases hu : u = x
    · subst hu
      have : parent s u = u := hroot
      rw [this] at ih; exact ih
    · apply Anc.step
      rw [parent_reparent, if_neg hu]; exact ih

theorem sameTree.reparent_root {s : State} {x : Item} (z : Item) (hroot : isRoot s x) {u v : Item} (h : sameTree s u v) :
    sameTree (reparent s x z) u v := by
  obtain ⟨r, h1, h2⟩ := h
  exact ⟨r, h1.reparent_root z hroot, h2.reparent_root z hroot⟩

/-- **no-split**: moving a non-root `x` below an item `z` of its own tree that is above it in the
`(rank, item)` order keeps every pair of items that shared a tree in a common tree -/
theorem sameTree.reparent_nonroot {s : State} (hlex : ∀ x, ¬ isRoot s x → lexLt s x (parent s x))
    {x z : Item} (hnr : ¬ isRoot s x) (hlt : lexLt s x z) (hst : sameTree s x z) {u v : Item}
    (h : sameTree s u v) : sameTree (reparent s x z) u v := by
  have key : ∀ u a, Anc s u a → sameTree (reparent s x z) u a := by
    intro u a hua
    induction hua with
    | refl _ => exact sameTree.refl _ _
    | @step u a _ ih =>
      refine sameTree.trans ?_ ih
      by_cases hu : u = x
      · subst hu
        obtain ⟨r, hxr, hzr⟩ := hst
        have hzav : ∀ y, Anc s z y → y ≠ u := by
          intro y hy e
          subst e
          rcases anc_lexLe hlex hy with h | h
          · subst h; exact lexLt_irrefl s _ hlt
          · exact lexLt_asymm hlt h
        have hpav : ∀ y, Anc s (parent s u) y → y ≠ u := by
          intro y hy e
          subst e
          have h1 := hlex _ hnr
          rcases anc_lexLe hlex hy with h | h
          · rw [h] at h1; exact lexLt_irrefl s _ h1
          · exact lexLt_asymm h1 h
        have hpr : Anc s (parent s u) r := by
          cases hxr with
          | refl _ => exact absurd rfl (hzav _ hzr)
          | step h => exact h
        refine ⟨r, ?_, hpr.avoid u z hpav⟩
        apply Anc.step
        rw [parent_reparent, if_pos rfl]
        exact hzr.avoid u z hzav
      · have := sameTree.to_parent (reparent s x z) u
        rw [parent_reparent, if_neg hu] at this
        exact this
  obtain ⟨r, h1, h2⟩ := h
  exact (key u r h1).trans (key v r h2).symm

theorem Ext.on_reparent {s : State} (A : InvA s) {x z : Item} (hlt : lexLt s x z)
    (h : isRoot s x ∨ (¬ isRoot s x ∧ sameTree s x z)) : Ext s (reparent s x z) where
  rank_le y := by rw [rank_reparent]; exact Int.le_refl _
  nonroot y hy := by
    refine ⟨?_, rank_reparent s x z y⟩
    unfold isRoot at *
    rw [parent_reparent]
    split
    · next e => subst e; exact (lexLt_ne hlt).symm
    · exact hy
  dom y hy := hy
  tree u v huv := by
    rcases h with h | ⟨h1, h2⟩
    · exact huv.reparent_root z h
    · exact sameTree.reparent_nonroot A.lex h1 hlt h2 huv
  issued e he := he

theorem Ext.on_bump {s : State} {p : Item} {r : Int} (hroot : isRoot s p) (hle : rank s p ≤ r) : Ext s (bump s p r) where
  rank_le y := by rw [rank_bump]; split
                  · next e => subst e; exact hle
                  · exact Int.le_refl _
  nonroot y hy := by
    refine ⟨by unfold isRoot at *; rw [parent_bump]; exact hy, ?_⟩
    rw [rank_bump, if_neg]
    intro e; subst e; exact hy hroot
  dom y hy := hy
  tree u v huv := huv.congr (parent_bump s p r)
  issued e he := he


theorem Ext.trans {s s' s'' : State} (e1 : Ext s s') (e2 : Ext s' s'') : Ext s s'' where
  rank_le x := Int.le_trans (e1.rank_le x) (e2.rank_le x)
  nonroot x hx := by
    have h1 := e1.nonroot x hx
    have h2 := e2.nonroot x h1.1
    exact ⟨h2.1, by rw [h2.2, h1.2]⟩
  dom x hx := e2.dom x (e1.dom x hx)
  tree x y h := e2.tree x y (e1.tree x y h)
  issued x hx := e2.issued x (e1.issued x hx)

/-! ### InvA under the transformers -/

theorem InvA.of_ent {s s' : State} (A : InvA s) (hent : s'.ent = s.ent) (hdom : s'.dom = s.dom) : InvA s' where
  lex x hx := by
    unfold isRoot lexLt at *
    simp only [parent_of_ent hent, rank_of_ent hent] at *
    exact A.lex x hx
  rank_nonneg x := by rw [rank_of_ent hent]; exact A.rank_nonneg x
  nondom x hx := by rw [hent]; exact A.nondom x (by rw [← hdom]; exact hx)
  closed x hx := by rw [parent_of_ent hent, hdom]; exact A.closed x (by rw [← hdom]; exact hx)
  nodup := by rw [hdom]; exact A.nodup

theorem InvA.root_of_not_mem {s : State} (A : InvA s) {x : Item} (hx : x ∉ s.dom) : isRoot s x := by
  unfold isRoot parent; rw [A.nondom x hx]

theorem InvA.mem_of_nonroot {s : State} (A : InvA s) {x : Item} (hx : ¬ isRoot s x) : x ∈ s.dom := by
  apply Classical.byContradiction; intro h; exact hx (A.root_of_not_mem h)

theorem InvA.on_visit {s : State} (A : InvA s) (t : Item) : InvA (visit s t) := by
  by_cases ht : t ∈ s.dom
  · have : DSet.visit s t = s := by unfold DSet.visit; rw [if_pos ht]
    rw [this]; exact A
  · have hd : (DSet.visit s t).dom = t :: s.dom := by unfold DSet.visit; rw [if_neg ht]
    have hent := ent_visit s t
    refine ⟨?_, ?_, ?_, ?_, ?_⟩
    · intro x hx
      unfold isRoot lexLt at *
      simp only [parent_of_ent hent, rank_of_ent hent] at *
      exact A.lex x hx
    · intro x; rw [rank_of_ent hent]; exact A.rank_nonneg x
    · intro x hx; rw [hent]; apply A.nondom; intro h; apply hx; rw [hd]; exact List.mem_cons_of_mem _ h
    · intro x hx
      rw [parent_of_ent hent, hd]
      rw [hd] at hx
      rcases List.mem_cons.mp hx with h | h
      · subst h
        have : parent s x = x := A.root_of_not_mem ht
        rw [this]; exact List.mem_cons_self
      · exact List.mem_cons_of_mem _ (A.closed x h)
    · rw [hd]; exact List.nodup_cons.mpr ⟨ht, A.nodup⟩

theorem InvA.on_reparent {s : State} (A : InvA s) {x z : Item} (hx : x ∈ s.dom) (hz : z ∈ s.dom) (hlt : lexLt s x z) :
    InvA (reparent s x z) where
  lex y hy := by
    unfold isRoot at hy
    rw [parent_reparent] at hy ⊢
    unfold lexLt
    simp only [rank_reparent]
    split
    · next e => subst e; exact hlt
    · next e => rw [if_neg e] at hy; exact A.lex y hy
  rank_nonneg y := by rw [rank_reparent]; exact A.rank_nonneg y
  nondom y hy := by
    have : y ≠ x := by intro e; subst e; exact hy hx
    show (if y = x then _ else s.ent y) = _
    rw [if_neg this]; exact A.nondom y hy
  closed y hy := by
    rw [parent_reparent]; split
    · exact hz
    · exact A.closed y hy
  nodup := A.nodup

theorem InvA.on_bump {s : State} (A : InvA s) {p : Item} {r : Int} (hp : p ∈ s.dom) (hroot : isRoot s p)
    (hle : rank s p ≤ r) : InvA (bump s p r) where
  lex y hy := by
    have e := Ext.on_bump hroot hle
    have hy' : ¬ isRoot s y := by unfold isRoot at *; rw [parent_bump] at hy; exact hy
    have := lexLt.mono e hy' (A.lex y hy')
    rw [parent_bump]; exact this
  rank_nonneg y := by
    rw [rank_bump]; split
    · have := A.rank_nonneg p; omega
    · exact A.rank_nonneg y
  nondom y hy := by
    have : y ≠ p := by intro e; subst e; exact hy hp
    show (if y = p then _ else s.ent y) = _
    rw [if_neg this]; exact A.nondom y hy
  closed y hy := by rw [parent_bump]; exact A.closed y hy
  nodup := A.nodup

/-! ### num_sets under the transformers -/

theorem numSets_congr {s s' : State} (hdom : s'.dom = s.dom)
    (h : ∀ y, y ∈ s.dom → (parent s' y = y ↔ parent s y = y)) : numSets s' = numSets s := by
  unfold numSets
  rw [hdom]
  congr 1
  apply List.filter_congr
  intro y hy
  have := h y hy
  by_cases h1 : parent s y = y
  · simp [h1, this.2 h1]
  · have h2 : ¬ parent s' y = y := fun h' => h1 (this.1 h')
    simp [h1, h2]

theorem numSets_reparent_root {s : State} (A : InvA s) {x z : Item} (hx : x ∈ s.dom) (hroot : isRoot s x) (hne : z ≠ x) :
    numSets (reparent s x z) + 1 = numSets s := by
  unfold numSets
  show ((s.dom.filter _).length + 1 = _)
  apply filter_flip s.dom _ _ x A.nodup hx
  · have : parent s x = x := hroot
    simp [this]
  · rw [parent_reparent, if_pos rfl]; simpa using hne
  · intro y hy
    rw [parent_reparent, if_neg hy]

/-! ### sound: trees stay inside components -/

theorem conn_of_anc {s : State} {E : List (Item × Item)} (hs : ∀ x, Conn E x (parent s x)) {x a : Item} (h : Anc s x a) :
    Conn E x a := by
  induction h with
  | refl _ => exact Conn.refl _
  | step _ ih => exact Conn.trans (hs _) ih

theorem conn_of_sameTree {s : State} {E : List (Item × Item)} (hs : ∀ x, Conn E x (parent s x)) {x y : Item} (h : sameTree s x y) :
    Conn E x y := by
  obtain ⟨r, h1, h2⟩ := h
  exact Conn.trans (conn_of_anc hs h1) (Conn.symm (conn_of_anc hs h2))

theorem not_sameTree_root_above {s : State} (A : InvA s) {t op : Item} (hroot : isRoot s t) (hlt : lexLt s t op) :
    ¬ sameTree s t op := by
  rintro ⟨r, h1, h2⟩
  have hr : r = t := Anc.of_root hroot h1
  subst hr
  rcases anc_lexLe A.lex h2 with h | h
  · subst h; exact lexLt_irrefl s _ hlt
  · exact lexLt_asymm hlt h

/-! ### the invariant under the transformers -/

theorem InvP.transfer {pend : List Msg} {s s' : State} (h : InvP pend s) (e : Ext s s') (A' : InvA s')
    (hnew : ∀ m, m ∈ s'.msgs → m ∈ s.msgs ∨ (MsgOk s' m ∧ (s.plainIssued = 0 → isExec m)))
    (hkeep : ∀ m, m ∈ s.msgs → m ∈ s'.msgs)
    (hab : s'.aborted = false)
    (hsound : ∀ x, Conn s'.issued x (parent s' x))
    (hcount : s'.mergeLog.length + numSets s' = s'.dom.length)
    (hcbs : s'.cbs = s.cbs) (hlog : s'.mergeLog = s.mergeLog) (hiss : s'.issued = s.issued)
    (hplain : s'.plainIssued = s.plainIssued)
    (hspan : s'.plainIssued = 0 → ∀ x, Conn s'.cbs x (parent s' x)) : InvP pend s' where
  span := hspan
  a := A'
  msgs m hm := by
    rcases List.mem_append.mp hm with hm | hm
    · exact (h.msgs m (List.mem_append_left _ hm)).mono e
    · rcases hnew m hm with h1 | h1
      · exact (h.msgs m (List.mem_append_right _ h1)).mono e
      · exact h1.1
  noabort := hab
  sound := hsound
  done a b hab' := by
    rw [hiss] at hab'
    rcases h.done a b hab' with h1 | ⟨ex, t, c, op, oi, ork, hm⟩
    · exact Or.inl (e.tree _ _ h1)
    · refine Or.inr ⟨ex, t, c, op, oi, ork, ?_⟩
      rcases List.mem_append.mp hm with hm | hm
      · exact List.mem_append_left _ hm
      · exact List.mem_append_right _ (hkeep _ hm)
  count := hcount
  cbs_eq := by rw [hcbs, hlog]; exact h.cbs_eq
  cbs_tree x hx := by rw [hcbs] at hx; exact e.tree _ _ (h.cbs_tree x hx)
  cbs_issued x hx := by rw [hcbs] at hx; rw [hiss]; exact h.cbs_issued x hx
  forest := by rw [hcbs]; exact h.forest
  exec hp := by
    rw [hplain] at hp
    obtain ⟨h1, h2⟩ := h.exec hp
    refine ⟨?_, by rw [hlog]; exact h2⟩
    intro m hm
    rcases List.mem_append.mp hm with hm | hm
    · exact h1 m (List.mem_append_left _ hm)
    · rcases hnew m hm with h3 | h3
      · exact h1 m (List.mem_append_right _ h3)
      · exact h3.2 hp

theorem InvP.on_visit {pend : List Msg} {s : State} (h : InvP pend s) (t : Item) : InvP pend (visit s t) := by
  have hent := ent_visit s t
  refine h.transfer (Ext.of_ent hent (fun x hx => (mem_dom_visit s t x).2 (Or.inr hx)) (by simp)) (h.a.on_visit t)
    (fun m hm => Or.inl (by simpa using hm)) (fun m hm => by simpa using hm) (by simp [h.noabort]) ?_ ?_ (by simp) (by simp) (by simp) (by simp)
    (fun hp x => by rw [parent_of_ent hent, cbs_visit]; exact h.span (by simpa using hp) x)
  · intro x; rw [parent_of_ent hent, issued_visit]; exact h.sound x
  · by_cases ht : t ∈ s.dom
    · have : DSet.visit s t = s := by unfold DSet.visit; rw [if_pos ht]
      rw [this]; exact h.count
    · have hroot : parent s t = t := h.a.root_of_not_mem ht
      have hc := h.count
      unfold numSets at *
      unfold DSet.visit
      rw [if_neg ht]
      simp only [List.filter_cons]
      have : (parent { s with dom := t :: s.dom } t = t) := hroot
      simp only [List.length_cons]
      have hp : ∀ y, parent { s with dom := t :: s.dom } y = parent s y := fun _ => rfl
      simp only [hp, hroot, decide_true, if_true, List.length_cons]
      show s.mergeLog.length + _ = _
      omega

theorem InvP.on_send {pend : List Msg} {s : State} (h : InvP pend s) {m : Msg} (hm : MsgOk s m)
    (hx : s.plainIssued = 0 → isExec m) : InvP pend (send s m) := by
  have e : Ext s (DSet.send s m) := Ext.of_ent rfl (fun _ h => h) (fun _ h => h)
  refine h.transfer e (h.a.of_ent rfl rfl) ?_ (fun m' hm' => by simp; exact Or.inl hm') h.noabort h.sound h.count rfl rfl rfl rfl h.span
  intro m' hm'
  simp only [msgs_send, List.mem_append, List.mem_singleton] at hm'
  rcases hm' with h1 | h1
  · exact Or.inl h1
  · subst h1; exact Or.inr ⟨hm.mono e, hx⟩

theorem InvP.on_reparent_nonroot {pend : List Msg} {s : State} (h : InvP pend s) {x z : Item}
    (hx : ¬ isRoot s x) (hz : z ∈ s.dom) (hlt : lexLt s x z) (hst : sameTree s x z) :
    InvP pend (reparent s x z) := by
  have hxd := h.a.mem_of_nonroot hx
  have e := Ext.on_reparent h.a hlt (Or.inr ⟨hx, hst⟩)
  refine h.transfer e (h.a.on_reparent hxd hz hlt) (fun m hm => Or.inl hm) (fun m hm => hm) h.noabort ?_ ?_ rfl rfl rfl rfl ?_
  rotate_left 2
  · intro hp y
    rw [parent_reparent]; split
    · next e' => subst e'; exact conn_of_sameTree (h.span hp) hst
    · exact h.span hp y
  · intro y
    rw [parent_reparent]; split
    · next e' => subst e'; exact conn_of_sameTree h.sound hst
    · exact h.sound y
  · have : numSets (DSet.reparent s x z) = numSets s := by
      apply numSets_congr (s := s) (s' := DSet.reparent s x z) rfl
      intro y _
      rw [parent_reparent]; split
      · next e' =>
        subst e'
        constructor
        · intro h'; exact absurd h'.symm (lexLt_ne hlt)
        · intro h'; exact absurd h' hx
      · exact Iff.rfl
    show s.mergeLog.length + _ = s.dom.length
    rw [this]; exact h.count

theorem InvP.on_bump {pend : List Msg} {s : State} (h : InvP pend s) {p : Item} {r : Int} (hp : p ∈ s.dom)
    (hroot : isRoot s p) (hle : rank s p ≤ r) : InvP pend (bump s p r) := by
  refine h.transfer (Ext.on_bump hroot hle) (h.a.on_bump hp hroot hle) (fun m hm => Or.inl hm) (fun m hm => hm) h.noabort ?_ ?_ rfl rfl rfl rfl
    (fun hp y => by rw [parent_bump]; exact h.span hp y)
  · intro y; rw [parent_bump]; exact h.sound y
  · have : numSets (DSet.bump s p r) = numSets s := numSets_congr (s := s) (s' := DSet.bump s p r) rfl (fun y _ => by rw [parent_bump])
    show s.mergeLog.length + _ = s.dom.length
    rw [this]; exact h.count


/-- facts shared by the two kinds of root merge: `t` is a root, it gets the parent `op` -/
theorem merge_core {pend : List Msg} {s : State} (h : InvP pend s) {t op oa ob : Item}
    (ht : t ∈ s.dom) (hroot : isRoot s t) (hop : op ∈ s.dom) (hlt : lexLt s t op)
    (hside : (sameTree s t oa ∧ sameTree s op ob) ∨ (sameTree s t ob ∧ sameTree s op oa))
    (hiss : (oa, ob) ∈ s.issued) :
    Ext s (reparent s t op) ∧ InvA (reparent s t op) ∧
    (∀ x, Conn s.issued x (parent (reparent s t op) x)) ∧
    numSets (reparent s t op) + 1 = numSets s ∧
    sameTree (reparent s t op) oa ob ∧ ¬ Conn s.cbs oa ob := by
  have e := Ext.on_reparent h.a hlt (Or.inl hroot)
  have hnot := not_sameTree_root_above h.a hroot hlt
  have hconn : Conn s.issued t op := by
    rcases hside with ⟨h1, h2⟩ | ⟨h1, h2⟩
    · exact Conn.trans (conn_of_sameTree h.sound h1) (Conn.trans (Conn.edge hiss) (Conn.symm (conn_of_sameTree h.sound h2)))
    · exact Conn.trans (conn_of_sameTree h.sound h1) (Conn.trans (Conn.symm (Conn.edge hiss)) (Conn.symm (conn_of_sameTree h.sound h2)))
  refine ⟨e, h.a.on_reparent ht hop hlt, ?_, numSets_reparent_root h.a ht hroot (lexLt_ne hlt).symm, ?_, ?_⟩
  · intro y
    rw [parent_reparent]; split
    · next e' => subst e'; exact hconn
    · exact h.sound y
  · have hto : sameTree (reparent s t op) t op := by
      have := sameTree.to_parent (reparent s t op) t
      rw [parent_reparent, if_pos rfl] at this; exact this
    rcases hside with ⟨h1, h2⟩ | ⟨h1, h2⟩
    · exact (e.tree _ _ h1).symm.trans (hto.trans (e.tree _ _ h2))
    · exact ((e.tree _ _ h1).symm.trans (hto.trans (e.tree _ _ h2))).symm
  · intro hc
    have hst : sameTree s oa ob :=
      Conn.rec_equiv (sameTree s) (sameTree.refl s) (fun _ _ h => h.symm) (fun _ _ _ h1 h2 => h1.trans h2)
        (fun a b hab => h.cbs_tree (a, b) hab) hc
    rcases hside with ⟨h1, h2⟩ | ⟨h1, h2⟩
    · exact hnot (h1.trans (hst.trans h2.symm))
    · exact hnot (h1.trans (hst.symm.trans h2.symm))

theorem InvP.on_merge_plain {pend : List Msg} {s : State} (h : InvP pend s) {t op oa ob : Item}
    (ht : t ∈ s.dom) (hroot : isRoot s t) (hop : op ∈ s.dom) (hlt : lexLt s t op)
    (hside : (sameTree s t oa ∧ sameTree s op ob) ∨ (sameTree s t ob ∧ sameTree s op oa))
    (hiss : (oa, ob) ∈ s.issued) (hex : s.plainIssued ≠ 0) :
    InvP pend (logMerge (reparent s t op) false t op) ∧ sameTree (logMerge (reparent s t op) false t op) oa ob := by
  obtain ⟨e1, A1, hs1, hn1, hst1, _⟩ := merge_core h ht hroot hop hlt hside hiss
  have e2 : Ext (reparent s t op) (logMerge (reparent s t op) false t op) := Ext.of_ent rfl (fun _ h => h) (fun _ h => h)
  have e := e1.trans e2
  refine ⟨⟨A1.of_ent rfl rfl, fun m hm => (h.msgs m hm).mono e, h.noabort, hs1, ?_, ?_, ?_, fun x hx => e.tree _ _ (h.cbs_tree x hx),
    h.cbs_issued, h.forest, fun hp => absurd hp hex, fun hp => absurd hp hex⟩, e2.tree _ _ hst1⟩
  · intro a b hab
    rcases h.done a b hab with h1 | h1
    · exact Or.inl (e.tree _ _ h1)
    · exact Or.inr h1
  · have hc := h.count
    show (s.mergeLog.length + 1) + numSets (reparent s t op) = s.dom.length
    omega
  · show s.cbs.length = (((false, t, op) :: s.mergeLog).filter (·.1)).length
    simp only [List.filter_cons]
    exact h.cbs_eq

theorem InvP.on_merge_exec {pend : List Msg} {s : State} (h : InvP pend s) {t op oa ob : Item}
    (ht : t ∈ s.dom) (hroot : isRoot s t) (hop : op ∈ s.dom) (hlt : lexLt s t op)
    (hside : (sameTree s t oa ∧ sameTree s op ob) ∨ (sameTree s t ob ∧ sameTree s op oa))
    (hiss : (oa, ob) ∈ s.issued) :
    InvP pend (callback (logMerge (reparent s t op) true t op) oa ob) ∧
      sameTree (callback (logMerge (reparent s t op) true t op) oa ob) oa ob := by
  obtain ⟨e1, A1, hs1, hn1, hst1, hnc⟩ := merge_core h ht hroot hop hlt hside hiss
  have e2 : Ext (reparent s t op) (callback (logMerge (reparent s t op) true t op) oa ob) :=
    Ext.of_ent rfl (fun _ h => h) (fun _ h => h)
  have e := e1.trans e2
  refine ⟨⟨A1.of_ent rfl rfl, fun m hm => (h.msgs m hm).mono e, h.noabort, hs1, ?_, ?_, ?_, ?_, ?_, ⟨hnc, h.forest⟩, ?_, ?_⟩, e2.tree _ _ hst1⟩
  · intro a b hab
    rcases h.done a b hab with h1 | h1
    · exact Or.inl (e.tree _ _ h1)
    · exact Or.inr h1
  · have hc := h.count
    show (s.mergeLog.length + 1) + numSets (reparent s t op) = s.dom.length
    omega
  · show (s.cbs.length + 1) = (((true, t, op) :: s.mergeLog).filter (·.1)).length
    simp only [List.filter_cons, if_true, List.length_cons]
    rw [h.cbs_eq]
  · intro x hx
    rcases List.mem_cons.mp hx with hx | hx
    · subst hx; exact e2.tree _ _ hst1
    · exact e.tree _ _ (h.cbs_tree x hx)
  · intro x hx
    rcases List.mem_cons.mp hx with hx | hx
    · subst hx; exact hiss
    · exact h.cbs_issued x hx
  · intro hp
    obtain ⟨h1, h2⟩ := h.exec hp
    refine ⟨h1, ?_⟩
    intro x hx
    rcases List.mem_cons.mp hx with hx | hx
    · subst hx; rfl
    · exact h2 x hx
  · intro hp y
    have hp' : s.plainIssued = 0 := hp
    have hmono : ∀ {u v : Item}, Conn s.cbs u v → Conn ((oa, ob) :: s.cbs) u v :=
      fun c => Conn.mono (fun _ h => List.mem_cons_of_mem _ h) c
    show Conn ((oa, ob) :: s.cbs) y (parent (reparent s t op) y)
    rw [parent_reparent]; split
    · next e' =>
      subst e'
      have hedge : Conn ((oa, ob) :: s.cbs) oa ob := Conn.edge List.mem_cons_self
      rcases hside with ⟨h1, h2⟩ | ⟨h1, h2⟩
      · exact Conn.trans (hmono (conn_of_sameTree (h.span hp') h1)) (Conn.trans hedge (Conn.symm (hmono (conn_of_sameTree (h.span hp') h2))))
      · exact Conn.trans (hmono (conn_of_sameTree (h.span hp') h1)) (Conn.trans (Conn.symm hedge) (Conn.symm (hmono (conn_of_sameTree (h.span hp') h2))))
    · exact hmono (h.span hp' y)

theorem InvP.on_issue {s : State} (h : Inv s) (ex : Bool) (a b : Item) : Inv (issue s ex a b) := by
  have e : Ext s (issue s ex a b) := Ext.of_ent rfl (fun _ h => h) (fun _ h => List.mem_cons_of_mem _ h)
  have hm : MsgOk (issue s ex a b) (.walk ex a a b b (-1) a b) := by
    refine ⟨Or.inl rfl, Or.inl rfl, ?_, Int.le_refl _, fun h => absurd h (by omega), sameTree.refl _ _, sameTree.refl _ _,
      Or.inl ⟨sameTree.refl _ _, sameTree.refl _ _⟩, List.mem_cons_self⟩
    have := h.a.rank_nonneg b
    have h2 : rank (issue s ex a b) b = rank s b := rfl
    omega
  refine ⟨h.a.of_ent rfl rfl, ?_, h.noabort, fun x => Conn.mono (fun _ h => List.mem_cons_of_mem _ h) (h.sound x), ?_, h.count, h.cbs_eq,
    fun x hx => e.tree _ _ (h.cbs_tree x hx), fun x hx => List.mem_cons_of_mem _ (h.cbs_issued x hx), h.forest, ?_, ?_⟩
  rotate_right 1
  · intro hp x
    have hp' : (if ex then s.plainIssued else s.plainIssued + 1) = 0 := hp
    have hz : s.plainIssued = 0 := by
      cases ex
      · simp at hp'
      · simpa using hp'
    exact h.span hz x
  · intro m hm'
    have hm'' : m ∈ s.msgs ++ [Msg.walk ex a a b b (-1) a b] := hm'
    rcases List.mem_append.mp hm'' with h1 | h1
    · exact (h.msgs m (by simpa using h1)).mono e
    · rw [List.mem_singleton.mp h1]; exact hm
  · intro a' b' hab
    have hab' : (a', b') ∈ (a, b) :: s.issued := hab
    rcases List.mem_cons.mp hab' with h1 | h1
    · refine Or.inr ⟨ex, a, a, b, b, -1, ?_⟩
      have : (a', b') = (a, b) := h1
      cases this
      show _ ∈ [] ++ (s.msgs ++ [_])
      simp
    · rcases h.done a' b' h1 with h2 | ⟨ex', t, c, op, oi, ork, hw⟩
      · exact Or.inl (e.tree _ _ h2)
      · refine Or.inr ⟨ex', t, c, op, oi, ork, ?_⟩
        show _ ∈ [] ++ (s.msgs ++ [_])
        have : Msg.walk ex' t c op oi ork a' b' ∈ s.msgs := by simpa using hw
        simp [this]
  · intro hp
    have hp' : (if ex then s.plainIssued else s.plainIssued + 1) = 0 := hp
    have hex : ex = true ∧ s.plainIssued = 0 := by
      cases ex
      · simp at hp'
      · simpa using hp'
    obtain ⟨h1, h2⟩ := h.exec hex.2
    refine ⟨?_, h2⟩
    intro m hm'
    have hm'' : m ∈ s.msgs ++ [Msg.walk ex a a b b (-1) a b] := hm'
    rcases List.mem_append.mp hm'' with h3 | h3
    · exact h1 m (by simpa using h3)
    · rw [List.mem_singleton.mp h3]; exact hex.1

/-- the handler of `m` has finished: `m` is no longer needed as a witness -/
theorem InvP.drop {m : Msg} {s : State} (h : InvP [m] s)
    (hd : ∀ ex t c op oi ork a b, m = .walk ex t c op oi ork a b →
      sameTree s a b ∨ ∃ ex t c op oi ork, Msg.walk ex t c op oi ork a b ∈ s.msgs) : Inv s where
  a := h.a
  msgs m' hm' := h.msgs m' (List.mem_append_right _ (by simpa using hm'))
  noabort := h.noabort
  sound := h.sound
  done a b hab := by
    rcases h.done a b hab with h1 | ⟨ex, t, c, op, oi, ork, hw⟩
    · exact Or.inl h1
    · rcases List.mem_append.mp hw with h2 | h2
      · rcases hd ex t c op oi ork a b (List.mem_singleton.mp h2).symm with h3 | ⟨ex', t', c', op', oi', ork', h3⟩
        · exact Or.inl h3
        · exact Or.inr ⟨ex', t', c', op', oi', ork', by simpa using h3⟩
      · exact Or.inr ⟨ex, t, c, op, oi, ork, by simpa using h2⟩
  count := h.count
  cbs_eq := h.cbs_eq
  cbs_tree := h.cbs_tree
  cbs_issued := h.cbs_issued
  forest := h.forest
  exec hp := by
    obtain ⟨h1, h2⟩ := h.exec hp
    exact ⟨fun m' hm' => h1 m' (List.mem_append_right _ (by simpa using hm')), h2⟩
  span := h.span

/-- taking the `i`-th message out of flight to run its handler -/
theorem InvP.take {s : State} (h : Inv s) {i : Nat} {m : Msg} (hm : s.msgs[i]? = some m) :
    InvP [m] { s with msgs := s.msgs.eraseIdx i } := by
  have e : Ext s { s with msgs := s.msgs.eraseIdx i } := Ext.of_ent rfl (fun _ h => h) (fun _ h => h)
  have hmem := mem_of_getElem?_eraseIdx s.msgs i m hm
  have hsub : ∀ m', m' ∈ [m] ++ s.msgs.eraseIdx i → m' ∈ s.msgs := by
    intro m' hm'
    apply (hmem m').2
    simpa using hm'
  refine ⟨h.a.of_ent rfl rfl, fun m' hm' => (h.msgs m' (by simpa using hsub m' hm')).mono e, h.noabort, h.sound, ?_, h.count, h.cbs_eq,
    fun x hx => e.tree _ _ (h.cbs_tree x hx), h.cbs_issued, h.forest, ?_, h.span⟩
  · intro a b hab
    rcases h.done a b hab with h1 | ⟨ex, t, c, op, oi, ork, hw⟩
    · exact Or.inl (e.tree _ _ h1)
    · refine Or.inr ⟨ex, t, c, op, oi, ork, ?_⟩
      have : Msg.walk ex t c op oi ork a b ∈ s.msgs := by simpa using hw
      have := (hmem _).1 this
      show _ ∈ [m] ++ s.msgs.eraseIdx i
      simpa using this
  · intro hp
    obtain ⟨h1, h2⟩ := h.exec hp
    exact ⟨fun m' hm' => h1 m' (by simpa using hsub m' hm'), h2⟩


/-! ### the handlers preserve the invariant -/

theorem walkCase_spec (r : Int) (p t op oi : Item) (ork : Int) :
    match walkCase r p t op oi ork with
    | .stop => p = op ∨ p = oi
    | .switch => ¬ (p = op ∨ p = oi) ∧ (r > ork ∨ (r = ork ∧ p = t ∧ ¬ t < op))
    | .mergeTie => ¬ (p = op ∨ p = oi) ∧ r = ork ∧ p = t ∧ t < op
    | .climb => ¬ (p = op ∨ p = oi) ∧ r ≤ ork ∧ p ≠ t
    | .mergeLow => ¬ (p = op ∨ p = oi) ∧ r < ork ∧ p = t := by
  unfold walkCase
  by_cases h1 : p = op ∨ p = oi
  · rw [if_pos h1]; exact h1
  · rw [if_neg h1]
    by_cases h2 : r > ork
    · rw [if_pos h2]; exact ⟨h1, Or.inl h2⟩
    · rw [if_neg h2]
      by_cases h3 : r = ork
      · rw [if_pos h3]
        by_cases h4 : p = t
        · rw [if_pos h4]
          by_cases h5 : t < op
          · rw [if_pos h5]; exact ⟨h1, h3, h4, h5⟩
          · rw [if_neg h5]; exact ⟨h1, Or.inr ⟨h3, h4, h5⟩⟩
        · rw [if_neg h4]; exact ⟨h1, by omega, h4⟩
      · rw [if_neg h3]
        by_cases h4 : p = t
        · rw [if_pos h4]; exact ⟨h1, by omega, h4⟩
        · rw [if_neg h4]; exact ⟨h1, by omega, h4⟩

theorem onResolve_eq (s : State) (p x : Item) (k : Int) :
    onResolve s p x k =
      if rank (visit s p) p < k then { visit s p with aborted := true }
      else if rank (visit s p) p > k then visit s p
      else if parent (visit s p) p = p then increaseRank (visit s p) p (k + 1)
      else send (visit s p) (.setp x (parent (visit s p) p)) := rfl

theorem onWalk_eq (s : State) (ex : Bool) (t c op oi : Item) (ork : Int) (oa ob : Item) :
    onWalk s ex t c op oi ork oa ob =
      match walkCase (rank (visit s t) t) (parent (visit s t) t) t op oi ork with
      | .stop => splitChild (visit s t) t c
      | .switch => send (splitChild (visit s t) t c) (.walk ex op oi (parent (visit s t) t) t (rank (visit s t) t) oa ob)
      | .climb => send (splitChild (visit s t) t c) (.walk ex (parent (visit s t) t) t op oi ork oa ob)
      | .mergeTie =>
        if ex then callback (logMerge (reparent (splitChild (visit s t) t c) t op) ex t op) oa ob
        else send (logMerge (reparent (splitChild (visit s t) t c) t op) ex t op) (.resolve op t (rank (visit s t) t))
      | .mergeLow =>
        if ex then callback (logMerge (reparent (splitChild (visit s t) t c) t op) ex t op) oa ob
        else logMerge (reparent (splitChild (visit s t) t c) t op) ex t op := rfl

theorem ent_splitChild (s : State) (t c : Item) : (splitChild s t c).ent = s.ent := by
  unfold splitChild; split <;> rfl
theorem dom_splitChild (s : State) (t c : Item) : (splitChild s t c).dom = s.dom := by
  unfold splitChild; split <;> rfl

theorem InvP.on_splitChild {pend : List Msg} {s : State} (h : InvP pend s) {t c : Item} (ht : t ∈ s.dom)
    (hb : Below s c t) (hst : sameTree s c t) : InvP pend (splitChild s t c) := by
  unfold splitChild
  split
  · next hc =>
    rcases hb with hb | ⟨hb1, hb2⟩
    · exact absurd hb hc
    · refine h.on_send (m := .setp c (parent s t)) ?_ (fun _ => trivial)
      refine ⟨hb1, ?_, h.a.closed t ht, hst.trans (sameTree.to_parent s t)⟩
      by_cases hr : isRoot s t
      · have : parent s t = t := hr
        rw [this]; exact hb2
      · exact lexLt_trans hb2 (h.a.lex t hr)
  · exact h

theorem Inv.on_setp {s : State} {x z : Item} (h : InvP [.setp x z] s) : Inv (onSetp s x z) := by
  unfold onSetp
  have h1 := h.on_visit x
  obtain ⟨m1, m2, m3, m4⟩ := h1.msgs (.setp x z) (by simp)
  exact (h1.on_reparent_nonroot m1 m3 m2 m4).drop (by intro _ _ _ _ _ _ _ _ e; cases e)

theorem Inv.on_resolve {s : State} {p x : Item} {k : Int} (h : InvP [.resolve p x k] s) : Inv (onResolve s p x k) := by
  rw [onResolve_eq]
  have h1 := h.on_visit p
  have hp : p ∈ (visit s p).dom := self_mem_dom_visit s p
  obtain ⟨m1, m2, m3, m4⟩ := h1.msgs (.resolve p x k) (by simp)
  have hle := lexLt_rank_le m3
  split
  · omega
  · split
    · exact h1.drop (by intro _ _ _ _ _ _ _ _ e; cases e)
    · split
      · next hroot =>
        unfold increaseRank
        have hr : rank (visit s p) p = k := by omega
        rw [if_pos (by omega)]
        exact (h1.on_bump hp hroot (by omega)).drop (by intro _ _ _ _ _ _ _ _ e; cases e)
      · next hnr =>
        have hnr' : ¬ isRoot (visit s p) p := hnr
        refine (h1.on_send (m := .setp x (parent (visit s p) p)) ?_ (fun _ => trivial)).drop (by intro _ _ _ _ _ _ _ _ e; cases e)
        exact ⟨m1, lexLt_trans m3 (h1.a.lex p hnr'), h1.a.closed p hp, m4.trans (sameTree.to_parent _ p)⟩

theorem Inv.on_walk {s : State} {ex : Bool} {t c op oi : Item} {ork : Int} {oa ob : Item}
    (h : InvP [.walk ex t c op oi ork oa ob] s) : Inv (onWalk s ex t c op oi ork oa ob) := by
  rw [onWalk_eq]
  have h0 := h.on_visit t
  have ht0 : t ∈ (visit s t).dom := self_mem_dom_visit s t
  obtain ⟨b1, b2, b3, b4, b5, b6, b7, b8, b9⟩ := h0.msgs (.walk ex t c op oi ork oa ob) (by simp)
  have h1 := h0.on_splitChild ht0 b1 b6
  -- everything the handler reads is read in `visit s t`; `splitChild` only adds a message
  have hent := ent_splitChild (visit s t) t c
  have hdom := dom_splitChild (visit s t) t c
  generalize hs0 : visit s t = s0 at *
  generalize hs1 : splitChild s0 t c = s1 at *
  have hr : ∀ x, rank s1 x = rank s0 x := rank_of_ent hent
  have hp : ∀ x, parent s1 x = parent s0 x := parent_of_ent hent
  have ht1 : t ∈ s1.dom := by rw [hdom]; exact ht0
  obtain ⟨c1, c2, c3, c4, c5, c6, c7, c8, c9⟩ := h1.msgs (.walk ex t c op oi ork oa ob) (by simp)
  have hexec : s1.plainIssued = 0 → ex = true := fun hz => (h1.exec hz).1 (.walk ex t c op oi ork oa ob) (by simp)
  have hspec := walkCase_spec (rank s0 t) (parent s0 t) t op oi ork
  have hnn := h1.a.rank_nonneg t
  have htp : sameTree s1 t (parent s1 t) := sameTree.to_parent s1 t
  rw [← hr t, ← hp t] at hspec ⊢
  -- `t` relative to its parent, in the form messages need
  have hbelow : Below s1 t (parent s1 t) := by
    by_cases hroot : isRoot s1 t
    · exact Or.inl hroot.symm
    · exact Or.inr ⟨hroot, h1.a.lex t hroot⟩
  have hrle : rank s1 t ≤ rank s1 (parent s1 t) := by
    rcases hbelow with hb | ⟨_, hb⟩
    · rw [← hb]; exact Int.le_refl _
    · exact lexLt_rank_le hb
  cases hcase : walkCase (rank s1 t) (parent s1 t) t op oi ork <;> rw [hcase] at hspec <;> simp only [] at hspec ⊢
  · -- stop
    apply h1.drop
    intro _ _ _ _ _ _ a b e
    cases e
    left
    have hto : sameTree s1 t op := by
      rcases hspec with hs | hs
      · rw [← hs]; exact htp
      · rw [← hs] at c7; exact htp.trans c7
    rcases c8 with ⟨h1', h2'⟩ | ⟨h1', h2'⟩
    · exact h1'.symm.trans (hto.trans h2')
    · exact (h1'.symm.trans (hto.trans h2')).symm
  · -- switch
    refine (h1.on_send (m := .walk ex op oi (parent s1 t) t (rank s1 t) oa ob) ?_ hexec).drop ?_
    · refine ⟨c2, hbelow, hrle, by omega, fun _ => h1.a.closed t ht1, c7, htp, ?_, c9⟩
      rcases c8 with ⟨h1', h2'⟩ | ⟨h1', h2'⟩
      · exact Or.inr ⟨h2', htp.symm.trans h1'⟩
      · exact Or.inl ⟨h2', htp.symm.trans h1'⟩
    · intro _ _ _ _ _ _ a b e
      cases e
      exact Or.inr ⟨ex, op, oi, parent s1 t, t, rank s1 t, by simp⟩
  · -- mergeTie
    obtain ⟨hne, hrk, hroot, hlt⟩ := hspec
    have hroot' : isRoot s1 t := hroot
    have hlex : lexLt s1 t op := by
      unfold lexLt
      by_cases hh : rank s1 t < rank s1 op
      · exact Or.inl hh
      · exact Or.inr ⟨by omega, hlt⟩
    have hop : op ∈ s1.dom := c5 (by omega)
    cases ex
    · -- plain: attach, then ask `op` to resolve the ranks
      have hpl : s1.plainIssued ≠ 0 := fun hz => by have := hexec hz; cases this
      obtain ⟨h2, hst2⟩ := h1.on_merge_plain ht1 hroot' hop hlex c8 c9 hpl
      simp only [Bool.false_eq_true, if_false]
      refine (h2.on_send (m := .resolve op t (rank s1 t)) ?_ (fun _ => trivial)).drop ?_
      · have hpar : parent (logMerge (reparent s1 t op) false t op) t = op := by
          show parent (reparent s1 t op) t = op
          rw [parent_reparent, if_pos rfl]
        refine ⟨?_, ?_, ?_, ?_⟩
        · unfold isRoot; rw [hpar]; exact (lexLt_ne hlex).symm
        · show rank (reparent s1 t op) t = rank s1 t
          exact rank_reparent s1 t op t
        · have r1 : ∀ y, rank (logMerge (reparent s1 t op) false t op) y = rank s1 y := fun y => rank_reparent s1 t op y
          unfold lexLt at hlex ⊢
          rw [r1, r1]; exact hlex
        · have := sameTree.to_parent (logMerge (reparent s1 t op) false t op) t
          rw [hpar] at this; exact this
      · intro _ _ _ _ _ _ a b e
        cases e
        left
        exact (Ext.of_ent (s := logMerge (reparent s1 t op) false t op)
          (s' := send (logMerge (reparent s1 t op) false t op) (.resolve op t (rank s1 t))) rfl (fun _ h => h) (fun _ h => h)).tree _ _ hst2
    · obtain ⟨h2, hst2⟩ := h1.on_merge_exec ht1 hroot' hop hlex c8 c9
      simp only [if_true]
      apply h2.drop
      intro _ _ _ _ _ _ a b e
      cases e
      exact Or.inl hst2
  · -- climb
    obtain ⟨hne, hrk, hnr⟩ := hspec
    refine (h1.on_send (m := .walk ex (parent s1 t) t op oi ork oa ob) ?_ hexec).drop ?_
    · refine ⟨hbelow, c2, c3, c4, c5, htp, c7, ?_, c9⟩
      rcases c8 with ⟨h1', h2'⟩ | ⟨h1', h2'⟩
      · exact Or.inl ⟨htp.symm.trans h1', h2'⟩
      · exact Or.inr ⟨htp.symm.trans h1', h2'⟩
    · intro _ _ _ _ _ _ a b e
      cases e
      exact Or.inr ⟨ex, parent s1 t, t, op, oi, ork, by simp⟩
  · -- mergeLow
    obtain ⟨hne, hrk, hroot⟩ := hspec
    have hroot' : isRoot s1 t := hroot
    have hlex : lexLt s1 t op := Or.inl (by omega)
    have hop : op ∈ s1.dom := c5 (by omega)
    cases ex
    · have hpl : s1.plainIssued ≠ 0 := fun hz => by have := hexec hz; cases this
      obtain ⟨h2, hst2⟩ := h1.on_merge_plain ht1 hroot' hop hlex c8 c9 hpl
      simp only [Bool.false_eq_true, if_false]
      apply h2.drop
      intro _ _ _ _ _ _ a b e
      cases e
      exact Or.inl hst2
    · obtain ⟨h2, hst2⟩ := h1.on_merge_exec ht1 hroot' hop hlex c8 c9
      simp only [if_true]
      apply h2.drop
      intro _ _ _ _ _ _ a b e
      cases e
      exact Or.inl hst2

theorem Inv.on_deliver {s : State} (h : Inv s) (i : Nat) : Inv (deliver s i) := by
  unfold deliver
  split
  · exact h
  · next m hm =>
    have hp := InvP.take h hm
    cases m with
    | walk ex t c op oi ork oa ob => exact Inv.on_walk hp
    | setp x z => exact Inv.on_setp hp
    | resolve p x k => exact Inv.on_resolve hp


/-! ### lookups terminate -/

/-- the measure: number of present items strictly above `x` in the `(rank, item)` order -/
def above (s : State) (x : Item) : Nat := (s.dom.filter (fun y => lexLtB s x y)).length

theorem above_le (s : State) (x : Item) : above s x ≤ s.dom.length := List.length_filter_le _ _

theorem above_parent_lt {s : State} (A : InvA s) {x : Item} (hx : ¬ isRoot s x) : above s (parent s x) < above s x := by
  have hlt := A.lex x hx
  apply filter_length_lt
  · intro y _ hy
    exact (lexLtB_iff s x y).2 (lexLt_trans hlt ((lexLtB_iff s _ y).1 hy))
  · refine ⟨parent s x, A.closed x (A.mem_of_nonroot hx), (lexLtB_iff s x _).2 hlt, ?_⟩
    cases h : lexLtB s (parent s x) (parent s x)
    · rfl
    · exact absurd ((lexLtB_iff s _ _).1 h) (lexLt_irrefl s _)

theorem find_anc (s : State) : ∀ (n : Nat) (x : Item), Anc s x (find s n x)
  | 0, x => Anc.refl x
  | n + 1, x => by
    unfold find
    split
    · exact Anc.refl x
    · exact Anc.step (find_anc s n _)

theorem find_isRoot {s : State} (A : InvA s) : ∀ (n : Nat) (x : Item), above s x < n → isRoot s (find s n x)
  | 0, x, h => absurd h (Nat.not_lt_zero _)
  | n + 1, x, h => by
    unfold find
    split
    · next hr => exact hr
    · next hr =>
      have := above_parent_lt A (x := x) hr
      exact find_isRoot A n _ (by omega)

theorem root_isRoot' {s : State} (A : InvA s) (x : Item) : isRoot s (root s x) :=
  find_isRoot A _ x (Nat.lt_succ_of_le (above_le s x))

theorem root_anc (s : State) (x : Item) : Anc s x (root s x) := find_anc s _ x

theorem root_unique' {s : State} (A : InvA s) {x r : Item} (h : Anc s x r) (hr : isRoot s r) : r = root s x := by
  rcases Anc.chain h (root_anc s x) with h1 | h1
  · exact (Anc.of_root hr h1).symm
  · exact Anc.of_root (root_isRoot' A x) h1

theorem sameTree_iff_root_eq' {s : State} (A : InvA s) (x y : Item) : sameTree s x y ↔ root s x = root s y := by
  constructor
  · rintro ⟨c, h1, h2⟩
    have hc := root_anc s c
    have e1 := root_unique' A (h1.trans hc) (root_isRoot' A c)
    have e2 := root_unique' A (h2.trans hc) (root_isRoot' A c)
    rw [← e1, ← e2]
  · intro h
    exact ⟨root s x, root_anc s x, by rw [h]; exact root_anc s y⟩

theorem anc_mem_dom {s : State} (A : InvA s) {x a : Item} (h : Anc s x a) (hx : x ∈ s.dom) : a ∈ s.dom := by
  induction h with
  | refl _ => exact hx
  | step _ ih => exact ih (A.closed _ hx)

theorem anc_antisymm {s : State} (A : InvA s) {x y : Item} (h1 : Anc s x y) (h2 : Anc s y x) : x = y := by
  rcases anc_lexLe A.lex h1 with h | h
  · exact h
  · rcases anc_lexLe A.lex h2 with h' | h'
    · exact h'.symm
    · exact absurd (lexLt_trans h h') (lexLt_irrefl s x)

/-! ### all_find / all_compress keep the invariant -/

theorem Inv.on_compress {s : State} (h : Inv s) (x : Item) : Inv (compress s x) := by
  have h0 := h.on_visit x
  have hx : x ∈ (visit s x).dom := self_mem_dom_visit s x
  show Inv (if parent (visit s x) x = x then visit s x else reparent (visit s x) x (root (visit s x) x))
  split
  · exact h0
  · next hnr =>
    have hnr' : ¬ isRoot (visit s x) x := hnr
    have hanc := root_anc (visit s x) x
    have hlt : lexLt (visit s x) x (root (visit s x) x) := by
      rcases anc_lexLe h0.a.lex hanc with e | e
      · have hr := root_isRoot' h0.a x
        rw [← e] at hr
        exact absurd hr hnr'
      · exact e
    exact h0.on_reparent_nonroot hnr' (anc_mem_dom h0.a hanc hx) hlt (sameTree.of_anc hanc)

theorem Inv.on_foldl_compress (l : List Item) : ∀ {s : State}, Inv s → Inv (l.foldl compress s) := by
  induction l with
  | nil => intro s h; exact h
  | cons a l ih => intro s h; exact ih (h.on_compress a)

theorem Inv.on_compressAll {s : State} (h : Inv s) : Inv (compressAll s) := Inv.on_foldl_compress _ h

theorem Inv.init : Inv init where
  a := ⟨fun _ hx => absurd rfl hx, fun _ => Int.le_refl _, fun _ _ => rfl, fun _ hx => (nomatch hx), List.nodup_nil⟩
  msgs _ hm := nomatch hm
  noabort := rfl
  sound x := Conn.refl x
  done _ _ hab := nomatch hab
  count := rfl
  cbs_eq := rfl
  cbs_tree _ he := nomatch he
  cbs_issued _ he := nomatch he
  forest := trivial
  exec _ := ⟨fun _ hm => (nomatch hm), fun _ he => (nomatch he)⟩
  span _ x := Conn.refl x

/-! ### reachable states -/

/-- `clear()` re-establishes the initial invariant -/
theorem Inv.on_clear {s : State} (h : Inv s) : Inv (clear s) where
  a := Inv.init.a.of_ent rfl rfl
  msgs _ hm := nomatch hm
  noabort := h.noabort
  sound x := Conn.refl x
  done _ _ hab := nomatch hab
  count := rfl
  cbs_eq := rfl
  cbs_tree _ he := nomatch he
  cbs_issued _ he := nomatch he
  forest := trivial
  exec _ := ⟨fun _ hm => (nomatch hm), fun _ he => (nomatch he)⟩
  span _ x := Conn.refl x

/-- one step of the system: a rank calls `async_union[_and_execute]`, any in-flight message is
delivered, (`all_find` / `all_compress`) an item is pointed at its representative, or — only
when nothing is in flight, because `clear()` starts with a barrier — the container is cleared -/
inductive Step : State → State → Prop
  | issue (s : State) (ex : Bool) (a b : Item) : Step s (issue s ex a b)
  | deliver (s : State) (i : Nat) : Step s (deliver s i)
  | compress (s : State) (x : Item) : Step s (compress s x)
  | clear (s : State) (hq : s.msgs = []) : Step s (clear s)

inductive Steps : State → State → Prop
  | refl (s : State) : Steps s s
  | tail {s s' s'' : State} : Steps s s' → Step s' s'' → Steps s s''

/-- reachable from the empty container by any number of steps in any order -/
def Reach (s : State) : Prop := Steps init s

theorem Inv.on_step {s s' : State} (h : Inv s) (st : Step s s') : Inv s' := by
  cases st with
  | issue ex a b => exact InvP.on_issue h ex a b
  | deliver i => exact h.on_deliver i
  | compress x => exact h.on_compress x
  | clear hq => exact h.on_clear

theorem Inv.on_steps {s s' : State} (h : Inv s) (st : Steps s s') : Inv s' := by
  induction st with
  | refl => exact h
  | tail _ st ih => exact ih.on_step st

theorem Reach.inv {s : State} (h : Reach s) : Inv s := Inv.init.on_steps h

/-! ### the ghost list of issued unions only grows -/

theorem issued_splitChild (s : State) (t c : Item) : (splitChild s t c).issued = s.issued := by
  unfold splitChild; split <;> rfl

theorem issued_deliver (s : State) (i : Nat) : (deliver s i).issued = s.issued := by
  unfold deliver
  split
  · rfl
  · next m _ =>
    cases m with
    | walk ex t c op oi ork oa ob =>
      show (onWalk _ ex t c op oi ork oa ob).issued = _
      rw [onWalk_eq]
      cases walkCase _ _ t op oi ork <;> cases ex <;> simp [issued_splitChild]
    | setp x z => simp [handle, onSetp]
    | resolve p x k =>
      show (onResolve _ p x k).issued = _
      rw [onResolve_eq]
      unfold increaseRank
      repeat' split
      all_goals simp

theorem issued_compress (s : State) (x : Item) : (compress s x).issued = s.issued := by
  show (if parent (visit s x) x = x then visit s x else reparent (visit s x) x (root (visit s x) x)).issued = _
  split <;> simp

/-- a step other than `clear`, together with the unions it issues -/
inductive UStep : State → List (Item × Item) → State → Prop
  | issue (s : State) (ex : Bool) (a b : Item) : UStep s [(a, b)] (issue s ex a b)
  | deliver (s : State) (i : Nat) : UStep s [] (deliver s i)
  | compress (s : State) (x : Item) : UStep s [] (compress s x)

/-- `USteps s l s'`: from `s` to `s'` without a `clear`; `l` = the unions issued on the way, newest first -/
inductive USteps : State → List (Item × Item) → State → Prop
  | refl (s : State) : USteps s [] s
  | tail {s s' s'' : State} {l e : List (Item × Item)} : USteps s l s' → UStep s' e s'' → USteps s (e ++ l) s''

theorem UStep.toStep {s s' : State} {e : List (Item × Item)} (st : UStep s e s') : Step s s' := by
  cases st with
  | issue ex a b => exact Step.issue s ex a b
  | deliver i => exact Step.deliver s i
  | compress x => exact Step.compress s x

theorem USteps.toSteps {s s' : State} {l : List (Item × Item)} (st : USteps s l s') : Steps s s' := by
  induction st with
  | refl => exact Steps.refl _
  | tail _ st ih => exact Steps.tail ih st.toStep

theorem Steps.trans {s s' s'' : State} (h1 : Steps s s') (h2 : Steps s' s'') : Steps s s'' := by
  induction h2 with
  | refl => exact h1
  | tail _ st ih => exact Steps.tail ih st

/-- the ghost field `issued` is exactly the list of unions issued since the start of the segment -/
theorem issued_usteps {s s' : State} {l : List (Item × Item)} (st : USteps s l s') : s'.issued = l ++ s.issued := by
  induction st with
  | refl => rfl
  | tail _ st ih =>
    cases st with
    | issue ex a b => show (_ :: _) = _; rw [ih]; rfl
    | deliver i => rw [issued_deliver, ih]; rfl
    | compress x => rw [issued_compress, ih]; rfl

theorem issued_mono {s s' : State} {l : List (Item × Item)} (st : USteps s l s') : ∀ e, e ∈ s.issued → e ∈ s'.issued := by
  intro e he; rw [issued_usteps st]; exact List.mem_append_right _ he

end YgmVerif.DSet
