import YgmVerif.Model.DSet
namespace YgmVerif.DSet
end YgmVerif.DSet
