import YgmVerif.Props.CommLive
/-!
# C03 on the product model — message-side work is bounded; only the barrier's polling rounds can repeat

In the product `Comm` a history without further user actions (no `async`, no `regcb`, callbacks that issue nothing) can still be
infinite: ranks inside `barrier()` keep posting all-reduce rounds while the totals do not balance — that is how the real code
waits.  This file shows that this is the ONLY thing that can repeat:

**`C03_message_work_bounded`** — along every such continuation of a reachable state, the number of steps that are NOT barrier
loop steps (`isend`, `recvBegin`, `fwd`, `recvEnd`, `execBegin`, `execEnd`, `runcb`) is at most
`M s = total(s.d) + s.b.und + Σ_r s.b.cbs r`; barrier-loop steps (`enter`, `contribute`, `result`, `exit`) leave `M` unchanged.

Hence under WEAK FAIRNESS of the message side (an enabled message-side step is eventually taken — what the polling inside the
barrier loop provides, and what the `flush` acceptor and simmpi's livelock detectors watch on real runs) every run reaches the
state where `M`'s message part is exhausted; by `C03_joint_never_stuck` nothing blocks before that, and from there
`C03_joint_quiescent_barrier_ends` finishes the barrier within `n·(2K+6)` loop steps.  That is the complete model-level argument
for "barrier() returns"; the fairness assumption is the environment hypothesis that remains.
-/
namespace YgmVerif.Comm
open YgmVerif
open YgmVerif.Barrier (sumTo upd b2n sumTo_upd)
open YgmVerif.Deliver (InRange LocOk Progress total)

/-- no user action: nothing is issued or registered; callbacks that run issue nothing and register nothing -/
def quietLabel : Label → Bool
  | .async .. => false
  | .regcb _ => false
  | .runcb _ msgs j => msgs.isEmpty && j == 0
  | _ => true

/-- steps of the barrier loops (and entering a barrier): they move no message -/
def loopLabel : Label → Bool
  | .enter _ => true
  | .contribute _ => true
  | .result _ => true
  | .exit _ => true
  | _ => false

def M (n : Nat) (hops : Nat → Nat → Nat) (s : St) : Nat := total n hops s.d + s.b.und + sumTo n s.b.cbs

def workCount (ls : List Label) : Nat := (ls.filter (fun l => !loopLabel l)).length

/-- one quiet joint step: a loop step leaves `M` unchanged, any other step lowers it -/
theorem step_M {n : Nat} {nh hops : Nat → Nat → Nat} {s s' : St} {l : Label}
    (hi : Deliver.Inv s.d) (hd : Deliver.DestLt n s.d) (hp : Progress n nh hops)
    (hq : quietLabel l = true) (hst : step n nh s l = some s') :
    (loopLabel l = true → M n hops s' = M n hops s) ∧ (loopLabel l = false → M n hops s' + 1 ≤ M n hops s) := by
  obtain ⟨_, hD, hB, _⟩ := step_some hst
  -- a Deliver-only label: the barrier side is untouched, the potential pays
  have donly : ∀ dl, projD l = [dl] → projB l = [] → Deliver.isAsync dl = false → M n hops s' + 1 ≤ M n hops s := by
    intro dl h1 h2 hna
    rw [h1, dRun_single] at hD
    rw [h2, bRun_nil] at hB
    have hBe := Option.some.inj hB
    have := Deliver.step_total hi hd hp hna hD
    simp only [M, ← hBe]; omega
  -- a barrier-only label whose step leaves und and cbs alone
  cases l with
  | async r uid dest direct => simp [quietLabel] at hq
  | regcb r => simp [quietLabel] at hq
  | isend r hop => exact ⟨fun h => by simp [loopLabel] at h, fun _ => donly _ rfl rfl rfl⟩
  | recvBegin r src seq => exact ⟨fun h => by simp [loopLabel] at h, fun _ => donly _ rfl rfl rfl⟩
  | fwd r uid => exact ⟨fun h => by simp [loopLabel] at h, fun _ => donly _ rfl rfl rfl⟩
  | recvEnd r => exact ⟨fun h => by simp [loopLabel] at h, fun _ => donly _ rfl rfl rfl⟩
  | execBegin r uid =>
    refine ⟨fun h => by simp [loopLabel] at h, fun _ => ?_⟩
    simp only [projD, dRun_nil] at hD
    simp only [projB, bRun_single, BarrierME.step] at hB
    have hDe := Option.some.inj hD
    split at hB
    · rename_i hc
      have hBe := Option.some.inj hB
      simp only [M, ← hDe, ← hBe]; omega
    · cases hB
  | execEnd r uid =>
    refine ⟨fun h => by simp [loopLabel] at h, fun _ => ?_⟩
    simp only [projD, dRun_single] at hD
    simp only [projB, bRun_single, BarrierME.step] at hB
    have := Deliver.step_total hi hd hp (l := .exec r uid) rfl hD
    split at hB
    · have hBe := Option.some.inj hB
      simp only [M, ← hBe]; omega
    · cases hB
  | runcb r msgs j =>
    refine ⟨fun h => by simp [loopLabel] at h, fun _ => ?_⟩
    simp only [quietLabel, Bool.and_eq_true, List.isEmpty_iff, beq_iff_eq] at hq
    obtain ⟨hm, hj⟩ := hq
    subst hm; subst hj
    simp only [projD, asyncLabels, List.map_nil, dRun_nil] at hD
    simp only [projB, List.length_nil, bRun_single, BarrierME.step] at hB
    have hDe := Option.some.inj hD
    split at hB
    · rename_i hc
      have hBe := Option.some.inj hB
      have := sumTo_upd n s.b.cbs r (s.b.cbs r - 1 + 0) hc.1
      simp only [M, ← hDe, ← hBe]
      omega
    · cases hB
  | enter r =>
    refine ⟨fun _ => ?_, fun h => by simp [loopLabel] at h⟩
    simp only [projD, dRun_nil] at hD
    simp only [projB, bRun_single, BarrierME.step] at hB
    have hDe := Option.some.inj hD
    split at hB
    · have hBe := Option.some.inj hB
      simp only [M, ← hDe, ← hBe]
    · cases hB
  | contribute r =>
    refine ⟨fun _ => ?_, fun h => by simp [loopLabel] at h⟩
    simp only [projD, dRun_nil] at hD
    simp only [projB, bRun_single, BarrierME.step] at hB
    have hDe := Option.some.inj hD
    split at hB
    · have hBe := Option.some.inj hB
      simp only [M, ← hDe, ← hBe]
    · cases hB
  | result r =>
    refine ⟨fun _ => ?_, fun h => by simp [loopLabel] at h⟩
    simp only [projD, dRun_nil] at hD
    simp only [projB, bRun_single, BarrierME.step] at hB
    have hDe := Option.some.inj hD
    split at hB
    · have hBe := Option.some.inj hB
      simp only [M, ← hDe, ← hBe]
    · cases hB
  | exit r =>
    refine ⟨fun _ => ?_, fun h => by simp [loopLabel] at h⟩
    simp only [projD, dRun_nil] at hD
    simp only [projB, bRun_single, BarrierME.step] at hB
    have hDe := Option.some.inj hD
    split at hB
    · have hBe := Option.some.inj hB
      simp only [M, ← hDe, ← hBe]
    · cases hB

/-- **message-side work is bounded**: along every quiet continuation of a reachable state the number of non-loop steps is at most
`M s`; only the barrier's polling rounds can repeat -/
theorem C03_message_work_bounded (n : Nat) (nh hops : Nat → Nat → Nat) (hr : InRange n nh) (hp : Progress n nh hops)
    (ls0 : List Label) (s : St) (h0 : run n nh init ls0 = some s)
    (ls : List Label) (hq : ∀ l ∈ ls, quietLabel l = true) (s' : St) (h : run n nh s ls = some s') :
    workCount ls + M n hops s' ≤ M n hops s := by
  induction ls generalizing ls0 s with
  | nil => simp only [run] at h; cases h; simp [workCount]
  | cons l ls ih =>
    simp only [run] at h
    cases hst : step n nh s l with
    | none => rw [hst] at h; cases h
    | some s1 =>
      rw [hst] at h
      obtain ⟨hi, hd, _⟩ := deliver_facts hr h0
      have hl := hq l List.mem_cons_self
      have hm := step_M (hops := hops) hi hd hp hl hst
      have h1 : run n nh init (ls0 ++ [l]) = some s1 := run_append ls0 [l] h0 (by simp only [run, hst])
      have h2 := ih (ls0 ++ [l]) s1 h1 (fun l' hl' => hq l' (List.mem_cons_of_mem _ hl')) h
      cases hll : loopLabel l with
      | true =>
        have := hm.1 hll
        have hc : workCount (l :: ls) = workCount ls := by simp [workCount, hll]
        rw [hc]; omega
      | false =>
        have := hm.2 hll
        have hc : workCount (l :: ls) = workCount ls + 1 := by simp [workCount, hll]
        rw [hc]; omega

/-! non-vacuity: 2 ranks, one message 0 → 1 buffered, both ranks inside the barrier: M = 6 (potential of the buffered message) + 1
(undelivered) = 7; after the five message-side steps and any number of polling rounds it is 0 -/
private def hopsD (x d : Nat) : Nat := if x = d then 0 else 1
private def pre : List Label := [.async 0 7 1 false, .enter 0, .enter 1]
example : ((run 2 (fun _ d => d) init pre).map (fun s => M 2 hopsD s)) = some 7 := by decide
example : ((run 2 (fun _ d => d) init (pre ++ [.contribute 0, .isend 0 1, .contribute 1, .recvBegin 1 0 0, .result 0, .execBegin 1 7,
    .execEnd 1 7, .result 1, .recvEnd 1])).map (fun s => M 2 hopsD s)) = some 0 := by decide

end YgmVerif.Comm
