import YgmVerif.Lemmas.Comm
import YgmVerif.Props.C01
import YgmVerif.Props.C02ME
/-!
# C02 + C01, end to end — when barrier() returns, every async issued so far has executed exactly once on its destination

The theorems are about the PRODUCT system `YgmVerif.Comm` (Model/Comm.lean): a `Deliver` state (which message is
where) and a `BarrierME` state (the counters the barrier reduces) stepped TOGETHER by joint labels, started from the
one initial state `init` (program start: nothing issued, nobody in a barrier).  For every number of ranks `n`, every
next-hop function `nh` (every layout, every routing scheme) and every accepted joint history:

* the component histories are recoverable (`C02C01_projD`, `C02C01_projB`), so C01 and C02ME hold for the components;
* the linking invariant (`C02C01_link`): BarrierME's `und` = number of entries whose handler has not started,
  #busy ranks = number of entries being executed, Σ sent = number of entries, Σ recvd = number of executed entries;
* MAIN (`C02C01_exit_implies_all_executed`): if the exit rule of `comm::barrier` is enabled for a rank in its barrier
  `e` and no rank has completed barrier `e` yet, then every message issued so far by ANY rank — from main context,
  from a handler (transitively) or from a pre-barrier callback — has been executed, exactly once, on its destination;
* the README hello-world (`C02C01_hello_world`): a program that only calls `async` once and lets the communicator be
  destroyed (the destructor calls `barrier()`) has its message executed on the destination before any rank leaves.
-/
namespace YgmVerif.Comm
open YgmVerif
open YgmVerif.Barrier (sumTo b2n)
open YgmVerif.Deliver (isDone)

/-! ### the component histories are recoverable -/

/-- a joint history is a history of the message-movement model -/
theorem C02C01_projD (n : Nat) (nh : Nat → Nat → Nat) (ls : List Label) (s : St)
    (hrun : run n nh init ls = some s) :
    Deliver.run n nh Deliver.St.init (ls.flatMap projD) = some s.d :=
  run_projD ls hrun

/-- a joint history is a history of the multi-epoch barrier model -/
theorem C02C01_projB (n : Nat) (nh : Nat → Nat → Nat) (ls : List Label) (s : St)
    (hrun : run n nh init ls = some s) :
    BarrierME.run n BarrierME.init (ls.flatMap projB) = some s.b :=
  run_projB ls hrun

/-- the entries of the message-movement component are exactly the messages the joint history issued (by `async` from
main context or a handler, or by a callback), in order, each once: no loss, no duplication, no invention -/
theorem C02C01_entries_are_the_asyncs (n : Nat) (nh : Nat → Nat → Nat) (ls : List Label) (s : St)
    (hrun : run n nh init ls = some s) : s.d.es.map Deliver.key = ls.flatMap issued := by
  rw [← flatMap_projD_newKeys]
  exact Deliver.C01_entries_are_the_asyncs n nh _ _ (run_projD ls hrun)

/-! ### (1) the linking invariant -/

theorem run_link {n : Nat} {nh : Nat → Nat → Nat} {ls : List Label} {s : St}
    (hrun : run n nh init ls = some s) : Deliver.Inv s.d ∧ Link n s :=
  inv_run ls Deliver.inv_init (link_init n) hrun

/-- **linking invariant.**  In every reachable joint state:
`und` (BarrierME's abstract number of undelivered messages) = number of entries that are neither `done` nor being
executed; the number of busy ranks = number of entries being executed; Σ m_send_count = number of entries;
Σ m_recv_count = number of `done` entries = number of recorded handler executions; a rank is busy iff the ghost `cur`
names a message, and that message is in the buffer the rank is walking. -/
theorem C02C01_link (n : Nat) (nh : Nat → Nat → Nat) (ls : List Label) (s : St)
    (hrun : run n nh init ls = some s) :
    s.b.und = s.d.es.countP (pending s.cur) ∧
    sumTo n (fun r => b2n (s.b.busy r)) = s.d.es.countP (beingExec s.cur) ∧
    sumTo n s.b.sent = s.d.es.length ∧
    sumTo n s.b.recvd = s.d.es.countP isDone ∧
    s.d.executed.length = s.d.es.countP isDone ∧
    (∀ r, s.b.busy r = (s.cur r).isSome) ∧
    (∀ r u, s.cur r = some u → r < n ∧ s.d.walking r = true ∧
      ∃ e ∈ s.d.es, e.uid = u ∧ e.loc = .inWalk r ∧ (e.dest = r ∨ e.direct = true)) := by
  have hl := (run_link hrun).2
  have hb := BarrierME.run_inv _ (run_projB ls hrun)
  exact ⟨hl.und, link_busy_count hb hl, hl.sent, hl.recvd, hl.execLen, hl.busyCur, hl.curWalk⟩

/-- the three classes partition the entries (so the linking invariant accounts for every message) -/
theorem C02C01_partition (s : St) :
    s.d.es.countP (pending s.cur) + s.d.es.countP (beingExec s.cur) + s.d.es.countP isDone = s.d.es.length :=
  count_partition s.cur s.d.es

/-- nothing undelivered and no handler running means every entry is `done` -/
theorem quiescent_of_idle {n : Nat} {s : St} (hl : Link n s) (hu : s.b.und = 0)
    (hb : ∀ q, q < n → s.b.busy q = false) : Deliver.quiescent s.d = true := by
  have h0 : s.d.es.countP (pending s.cur) = 0 := by rw [← hl.und]; exact hu
  have hall := List.countP_eq_zero.1 h0
  show s.d.es.all (fun e => match e.loc with | .done _ => true | _ => false) = true
  apply List.all_eq_true.2
  intro e he
  have hp : pending s.cur e = false := by
    have := hall e he
    cases hh : pending s.cur e with
    | false => rfl
    | true => exact absurd hh this
  have hne : beingExec s.cur e = false := by
    cases hbe : beingExec s.cur e with
    | false => rfl
    | true =>
      obtain ⟨r, _, hcr⟩ := (beingExec_iff _ _).1 hbe
      have hr := (hl.curWalk r e.uid hcr).1
      have h1 := hl.busyCur r
      rw [hb r hr, hcr] at h1
      cases h1
  unfold pending at hp
  rw [hne] at hp
  have : isDone e = true := by
    cases hd : isDone e with
    | true => rfl
    | false => rw [hd] at hp; cases hp
  exact this

/-! ### (2) MAIN -/

/-- **C02 + C01, main theorem.**  For every number of ranks, every routing function and every joint history accepted
from program start (every interleaving of async / send / receive / forward / handler begin / handler end / callback
registration / callback run / barrier entry / count contribution / result consumption / barrier return of all ranks,
over any number of overlapping barrier epochs): if the exit rule of `comm::barrier` is enabled for rank `r`, which is
in its barrier number `e`, and no rank has completed barrier `e` yet (this is the FIRST return of barrier `e`), then

* every entry of the message-movement component is `done` (nothing in a send buffer, on the wire, in a receive walk,
  no handler running);
* the recorded handler executions `(rank, uid)` are a permutation of `(dest, uid)` of ALL messages issued so far by any
  rank — from main context, from handlers (hence transitively) and from pre-barrier callbacks: each executed exactly
  once, on its destination. -/
theorem C02C01_exit_implies_all_executed (n : Nat) (nh : Nat → Nat → Nat) (ls : List Label) (s : St)
    (hrun : run n nh init ls = some s) (r : Nat) (hr : r < n)
    (hx : BarrierME.exitEnabled s.b r = true) (hne : ∀ q, q < n → s.b.epoch q ≤ s.b.epoch r) :
    Deliver.quiescent s.d = true ∧
    List.Perm s.d.executed ((ls.flatMap issued).map (fun m => (m.2.1, m.1))) := by
  have hB := run_projB ls hrun
  have hD := run_projD ls hrun
  have hq := BarrierME.C02ME_exit_implies_quiescent n s.b _ hB r hr hx _ rfl hne
  have hquiet := quiescent_of_idle (run_link hrun).2 hq.1 (fun q hq' => (hq.2 q hq').2.2.1)
  refine ⟨hquiet, ?_⟩
  have hperm := Deliver.C01_exactly_once n nh _ s.d hD hquiet
  have hkeys := C02C01_entries_are_the_asyncs n nh ls s hrun
  have : s.d.es.map (fun e => (e.dest, e.uid)) = (ls.flatMap issued).map (fun m => (m.2.1, m.1)) := by
    rw [← hkeys, List.map_map]; rfl
  rw [← this]; exact hperm

/-- the `exit` label itself (barrier() returns) is only ever accepted, as the first return of its barrier, when every
message issued so far has executed exactly once on its destination -/
theorem C02C01_first_exit_step (n : Nat) (nh : Nat → Nat → Nat) (ls : List Label) (s s' : St) (r : Nat)
    (hrun : run n nh init ls = some s) (hne : ∀ q, q < n → s.b.epoch q ≤ s.b.epoch r)
    (hstep : step n nh s (.exit r) = some s') :
    Deliver.quiescent s.d = true ∧
    List.Perm s.d.executed ((ls.flatMap issued).map (fun m => (m.2.1, m.1))) := by
  have hB := (step_some hstep).2.2.1
  simp only [projB, bRun_single, BarrierME.step] at hB
  split at hB
  · rename_i hc
    refine C02C01_exit_implies_all_executed n nh ls s hrun r hc.1 ?_ hne
    rw [BarrierME.exitEnabled_iff]; exact ⟨hc.2.1, hc.2.2.1, hc.2.2.2.1, hc.2.2.2.2⟩
  · cases hB

/-- contrapositive: while any issued message has not executed (it sits in a send buffer, on the wire, in a receive
walk, or its handler is still running), no rank can be the first to leave its barrier -/
theorem C02C01_no_exit_while_unexecuted (n : Nat) (nh : Nat → Nat → Nat) (ls : List Label) (s : St)
    (hrun : run n nh init ls = some s) (r : Nat) (hr : r < n) (hne : ∀ q, q < n → s.b.epoch q ≤ s.b.epoch r)
    (e : Deliver.Entry) (he : e ∈ s.d.es) (hnd : isDone e = false) :
    BarrierME.exitEnabled s.b r = false := by
  cases hx : BarrierME.exitEnabled s.b r with
  | false => rfl
  | true =>
    have hq := (C02C01_exit_implies_all_executed n nh ls s hrun r hr hx hne).1
    have : isDone e = true := (List.all_eq_true.1 hq) e he
    rw [hnd] at this; cases this

/-- **every later return of the same barrier**: once the first rank may leave barrier `e` (state `s1`, history `ls1`),
whatever happens afterwards (`ls2`: other ranks leave barrier `e`, the ranks that left issue new messages, enter the
next barrier, …), every message issued before that first return stays executed on its destination, and no message is
ever executed twice — so the guarantee holds when barrier() returns on ANY rank, not only on the first one. -/
theorem C02C01_later_exits (n : Nat) (nh : Nat → Nat → Nat) (ls1 ls2 : List Label) (s1 s2 : St)
    (h1 : run n nh init ls1 = some s1) (h2 : run n nh s1 ls2 = some s2) (r : Nat) (hr : r < n)
    (hx : BarrierME.exitEnabled s1.b r = true) (hne : ∀ q, q < n → s1.b.epoch q ≤ s1.b.epoch r) :
    (∀ m ∈ ls1.flatMap issued, (m.2.1, m.1) ∈ s2.d.executed) ∧ (s2.d.executed.map (·.2)).Nodup := by
  have hmain := C02C01_exit_implies_all_executed n nh ls1 s1 h1 r hr hx hne
  obtain ⟨t, ht⟩ := dRun_executed _ (run_projD ls2 h2)
  refine ⟨?_, Deliver.C01_at_most_once n nh _ s2.d (run_projD _ (run_append ls1 ls2 h1 h2))⟩
  intro m hm
  rw [ht]
  apply List.mem_append_left
  exact hmain.2.mem_iff.2 (List.mem_map.2 ⟨m, hm, rfl⟩)

/-! ### the README hello-world -/

def bIsExit : BarrierME.Label → Bool
  | .exit _ => true
  | _ => false

theorem bStep_epoch {n : Nat} {s s' : BarrierME.Sys} {l : BarrierME.Label} (hl : bIsExit l = false)
    (h : BarrierME.step n s l = some s') : s'.epoch = s.epoch := by
  cases l with
  | exit r => cases hl
  | issue r => simp only [BarrierME.step] at h; split at h <;> cases h; rfl
  | start r => simp only [BarrierME.step] at h; split at h <;> cases h; rfl
  | finish r => simp only [BarrierME.step] at h; split at h <;> cases h; rfl
  | regcb r => simp only [BarrierME.step] at h; split at h <;> cases h; rfl
  | runcb r k j => simp only [BarrierME.step] at h; split at h <;> cases h; rfl
  | enter r => simp only [BarrierME.step] at h; split at h <;> cases h; rfl
  | contribute r => simp only [BarrierME.step] at h; split at h <;> cases h; rfl
  | result r => simp only [BarrierME.step] at h; split at h <;> cases h; rfl

theorem bRun_epoch {n : Nat} {s s' : BarrierME.Sys} (ls : List BarrierME.Label)
    (hl : ∀ l ∈ ls, bIsExit l = false) (h : BarrierME.run n s ls = some s') : s'.epoch = s.epoch := by
  induction ls generalizing s with
  | nil => simp only [BarrierME.run] at h; cases h; rfl
  | cons l ls ih =>
    simp only [BarrierME.run] at h
    cases hst : BarrierME.step n s l with
    | none => rw [hst] at h; cases h
    | some s1 =>
      rw [hst] at h
      rw [ih (fun l' hl' => hl l' (List.mem_cons_of_mem _ hl')) h]
      exact bStep_epoch (hl l List.mem_cons_self) hst

theorem projB_noExit (l : Label) (h : isExit l = false) : ∀ l' ∈ projB l, bIsExit l' = false := by
  cases l <;> simp [projB, bIsExit] <;> simp [isExit] at h

/-- as long as no barrier() has returned anywhere, every rank is in epoch 0 (its first barrier) -/
theorem epoch_zero_of_noExit {n : Nat} {nh : Nat → Nat → Nat} {ls : List Label} {s : St}
    (hrun : run n nh init ls = some s) (hfirst : ∀ l ∈ ls, isExit l = false) : ∀ q, s.b.epoch q = 0 := by
  have hB := run_projB ls hrun
  have := bRun_epoch (ls.flatMap projB) (by
    intro l' hl'
    obtain ⟨l, hl, hin⟩ := List.mem_flatMap.1 hl'
    exact projB_noExit l (hfirst l hl) l' hin) hB
  intro q; rw [this]; rfl

/-- **hello-world** (README): `n` ranks, the whole program issues ONE message `(uid, dest)` (by an `async` on any rank;
`hone`), nobody calls `barrier()` explicitly, so the first barrier any rank is in is the one called by the
communicator's destructor, and no barrier() has returned yet (`hfirst`).  Whenever the exit rule of that barrier becomes
enabled on some rank — i.e. before ANY rank can leave the destructor — the message has been executed, exactly once, on
its destination, and every rank has entered the destructor's barrier. -/
theorem C02C01_hello_world (n : Nat) (nh : Nat → Nat → Nat) (ls : List Label) (s : St)
    (hrun : run n nh init ls = some s) (uid dest : Nat) (direct : Bool)
    (hone : ls.flatMap issued = [(uid, dest, direct)])
    (hfirst : ∀ l ∈ ls, isExit l = false)
    (r : Nat) (hr : r < n) (hx : BarrierME.exitEnabled s.b r = true) :
    s.d.executed = [(dest, uid)] ∧ ∀ q, q < n → s.b.inBar q = true ∧ s.b.epoch q = 0 := by
  have hz := epoch_zero_of_noExit hrun hfirst
  have hne : ∀ q, q < n → s.b.epoch q ≤ s.b.epoch r := by intro q _; rw [hz q, hz r]; exact Nat.le_refl _
  have hmain := C02C01_exit_implies_all_executed n nh ls s hrun r hr hx hne
  have hq := BarrierME.C02ME_exit_implies_quiescent n s.b _ (run_projB ls hrun) r hr hx _ rfl hne
  refine ⟨?_, fun q hq' => ⟨(hq.2 q hq').2.1, hz q⟩⟩
  have hp := hmain.2
  rw [hone] at hp
  exact List.perm_singleton.1 hp

/-! ### (3) non-vacuity -/

/-- 2 nodes x 2 ranks, "NR-like" routing (as in Props/C01.lean): rank 0 reaches rank 3 via rank 2 -/
private def nhDemo (me d : Nat) : Nat := if me / 2 = d / 2 then d else (d / 2) * 2 + me % 2

private def round4 : List Label :=
  [.contribute 0, .contribute 1, .contribute 2, .contribute 3, .result 0, .result 1, .result 2, .result 3]

/-- rank 0 issues uid 7 to rank 3 (forwarded by rank 2) and uid 8 to rank 1; all ranks enter the barrier and
contribute round 0 while both messages are still in rank 0's send buffers -/
private def demoA1 : List Label :=
  [.async 0 7 3 false, .async 0 8 1 false, .enter 0, .enter 1, .enter 2, .enter 3,
   .contribute 0, .contribute 1, .contribute 2, .contribute 3,
   .isend 0 2, .recvBegin 2 0 0, .fwd 2 7, .recvEnd 2, .isend 2 3,
   .result 0, .result 1, .result 2, .result 3]

/-- delivery and execution, then two more reduction rounds -/
private def demoA2 : List Label :=
  [.recvBegin 3 2 0, .execBegin 3 7, .execEnd 3 7, .recvEnd 3,
   .isend 0 1, .recvBegin 1 0 1, .execBegin 1 8, .execEnd 1 8, .recvEnd 1] ++ round4 ++ round4

set_option maxRecDepth 16384 in
/-- the whole history is accepted; at its end the exit rule holds on every rank, nothing is undelivered, both
messages have executed on their destinations, and rank 0 may leave -/
example : ((run 4 nhDemo init (demoA1 ++ demoA2)).map (fun s =>
    (s.d.executed, Deliver.quiescent s.d, s.b.und,
     BarrierME.exitEnabled s.b 0, BarrierME.exitEnabled s.b 3, (step 4 nhDemo s (.exit 0)).isSome))) =
    some ([(3, 7), (1, 8)], true, 0, true, true, true) := by decide

set_option maxRecDepth 16384 in
/-- after round 0 (result (0,2)) with uid 7 on the wire to rank 3 and uid 8 still buffered: und = 2 = number of pending
entries, nobody may leave and `exit` is refused -/
example : ((run 4 nhDemo init demoA1).map (fun s =>
    (s.b.und, s.d.es.countP (pending s.cur), s.b.cur 0, BarrierME.exitEnabled s.b 0,
     (step 4 nhDemo s (.exit 0)).isNone))) = some (2, 2, (0, 2), false, true) := by decide

set_option maxRecDepth 16384 in
/-- while the handler of uid 7 runs on rank 3: und = 1 (uid 8), one busy rank, one entry being executed; the walk
cannot be closed and the same message cannot be started again -/
example : ((run 4 nhDemo init (demoA1 ++ [.recvBegin 3 2 0, .execBegin 3 7])).map (fun s =>
    (s.b.und, s.b.busy 3, s.d.es.countP (beingExec s.cur), s.cur 3,
     (step 4 nhDemo s (.recvEnd 3)).isNone, (step 4 nhDemo s (.execBegin 3 7)).isNone))) =
    some (1, true, 1, some 7, true, true) := by decide

/-- a handler cannot start on a rank the message is not addressed to (rank 2 must forward uid 7) -/
example : (run 4 nhDemo init
    [.async 0 7 3 false, .isend 0 2, .recvBegin 2 0 0, .execBegin 2 7]).isNone = true := by decide

/-- `execEnd` must name the message that was started -/
example : (run 4 nhDemo init
    [.async 0 7 2 false, .async 0 8 2 false, .isend 0 2, .recvBegin 2 0 0, .execBegin 2 7, .execEnd 2 8]).isNone =
    true := by decide

private def round2 : List Label := [.contribute 0, .contribute 1, .result 0, .result 1]

/-- two ranks, direct routing; a pre-barrier callback of rank 0 issues uid 1 to rank 1 from INSIDE the barrier; its
handler on rank 1 (also inside the barrier) issues uid 2 back to rank 0 -/
private def demoB : List Label :=
  [.regcb 0, .enter 0, .enter 1, .runcb 0 [(1, 1, false)] 0, .contribute 0, .contribute 1,
   .isend 0 1, .recvBegin 1 0 0, .execBegin 1 1, .async 1 2 0 false, .execEnd 1 1, .recvEnd 1,
   .isend 1 0, .result 0, .result 1,
   .recvBegin 0 1 0, .execBegin 0 2, .execEnd 0 2, .recvEnd 0] ++ round2 ++ round2

set_option maxRecDepth 16384 in
/-- transitively issued messages are covered: both have executed when the exit rule becomes enabled -/
example : ((run 2 (fun _ d => d) init demoB).map (fun s =>
    (s.d.executed, Deliver.quiescent s.d, BarrierME.exitEnabled s.b 0, BarrierME.exitEnabled s.b 1))) =
    some ([(1, 1), (0, 2)], true, true, true) := by decide

example : demoB.flatMap issued = [(1, 1, false), (2, 0, false)] := by decide

/-- hello-world on two ranks: rank 0 calls `async(1, …)` and both communicators are destroyed -/
private def hello : List Label :=
  [.async 0 1 1 false, .enter 0, .enter 1, .contribute 0, .isend 0 1, .recvBegin 1 0 0, .execBegin 1 1,
   .execEnd 1 1, .recvEnd 1, .contribute 1, .result 0, .result 1] ++ round2

set_option maxRecDepth 16384 in
/-- the hypotheses of `C02C01_hello_world` are satisfiable and its conclusion is what the run shows -/
example : ((run 2 (fun _ d => d) init hello).map (fun s =>
    (BarrierME.exitEnabled s.b 0, s.d.executed))) = some (true, [(1, 1)]) ∧
    hello.flatMap issued = [(1, 1, false)] ∧ hello.all (fun l => !isExit l) = true := by decide

end YgmVerif.Comm
