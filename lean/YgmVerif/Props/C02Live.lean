import YgmVerif.Props.C02ME
/-!
# C02 / C03 (liveness of the barrier protocol's own logic) — once every rank is inside barrier(), it can always move

`Props/C02ME.lean` is the safety half (no rank leaves before global quiescence).  A barrier that never lets anybody out
would satisfy it.  This file proves, over the same executable `BarrierME.step` that whole multi-barrier histories of real
runs are replayed through, that the protocol has no deadlock of its own:

* `C02ME_never_stuck` — in every reachable state in which every rank is inside `barrier()` some step is enabled: a running
  handler can finish, a pending pre-barrier callback can run, an undelivered message can start its handler, and otherwise
  the rank that is FURTHEST BEHIND in the global sequence of reduction rounds can contribute, consume its result (all n
  contributions of that round are there — `cntI`: MPI matches the k-th all-reduce of every rank) or leave.
* `C02ME_waiting_rank_is_served` — a rank that waits for the result of round k is never waiting for itself: either the
  result is available or some OTHER rank that has not contributed to round k yet has an enabled step of its own.

Not proved here: a bound on the number of rounds after quiescence (two further balanced rounds; explored by simmpi, every run
must end with all barriers returned) and that MPI makes progress on a posted all-reduce (trusted base).
-/
namespace YgmVerif.BarrierME
open YgmVerif.Barrier (sumTo upd b2n)

/-- a function on ranks 0..n-1 attains its minimum -/
theorem exists_min (n : Nat) (hn : 0 < n) (f : Nat → Nat) : ∃ q, q < n ∧ ∀ r, r < n → f q ≤ f r := by
  induction n with
  | zero => omega
  | succ k ih =>
    by_cases hk : k = 0
    · subst hk
      refine ⟨0, by omega, ?_⟩
      intro r hr
      have h0 : r = 0 := by omega
      subst h0; exact Nat.le_refl _
    · obtain ⟨q, hq, hmin⟩ := ih (by omega)
      by_cases hc : f q ≤ f k
      · refine ⟨q, by omega, ?_⟩
        intro r hr
        by_cases hrk : r = k
        · subst hrk; exact hc
        · exact hmin r (by omega)
      · refine ⟨k, by omega, ?_⟩
        intro r hr
        by_cases hrk : r = k
        · subst hrk; exact Nat.le_refl _
        · have := hmin r (by omega); omega

theorem sumTo_ones (n : Nat) (f : Nat → Nat) (h : ∀ i, i < n → f i = 1) : sumTo n f = n := by
  induction n with
  | zero => rfl
  | succ k ih =>
    simp only [sumTo]
    rw [ih (fun i hi => h i (by omega)), h k (by omega)]

/-- the round a rank waits for is complete as soon as every rank has posted its contribution to it -/
theorem cnt_full {n : Nat} {s : Sys} (hi : Inv n s) (k : Nat) (h : ∀ r, r < n → k < s.rounds r) : s.cnt k = n := by
  rw [hi.cntI k]
  exact sumTo_ones n _ (fun i hin => by simp [h i hin])

/-- a rank inside the barrier with nothing to do locally and no reduction outstanding can contribute or leave -/
theorem idle_rank_moves {n : Nat} {s : Sys} {q : Nat} (hq : q < n) (hin : s.inBar q = true)
    (hb : s.busy q = false) (hc : s.cbs q = 0) (hrg : s.rounds q = s.got q) :
    (step n s (.contribute q)).isSome = true ∨ (step n s (.exit q)).isSome = true := by
  by_cases hrule : (s.cur q).1 = (s.cur q).2 ∧ s.prev q = s.cur q
  · right
    simp only [step, hq, hin, hrg, hrule.1, hrule.2, and_self, if_true, Option.isSome_some]
  · left
    simp only [step, hq, hin, hb, hc, hrg, hrule, not_false_eq_true, and_self, if_true, Option.isSome_some]

/-- a step of a rank's own barrier loop -/
def isLoop : Label → Bool
  | .contribute _ => true
  | .result _ => true
  | .exit _ => true
  | _ => false

/-- every rank idle inside barrier(): the rank furthest behind in the global sequence of rounds moves -/
theorem C02ME_idle_never_stuck (n : Nat) (hn : 0 < n) (s : Sys) (hi : Inv n s)
    (hall : ∀ r, r < n → s.inBar r = true) (hnb : ∀ r, r < n → s.busy r = false)
    (hnc : ∀ r, r < n → s.cbs r = 0) : ∃ l, isLoop l = true ∧ (step n s l).isSome = true := by
  obtain ⟨q, hq, hmin⟩ := exists_min n hn s.rounds
  have hrg := hi.rg q hq
  by_cases he : s.rounds q = s.got q
  · rcases idle_rank_moves hq (hall q hq) (hnb q hq) (hnc q hq) he with h | h
    · exact ⟨_, rfl, h⟩
    · exact ⟨_, rfl, h⟩
  · have hr1 : s.rounds q = s.got q + 1 := by omega
    have hfull : s.cnt (s.got q) = n := cnt_full hi (s.got q) (fun r hr => by have := hmin r hr; omega)
    exact ⟨.result q, rfl, by simp only [step, hq, hall q hq, hr1, hfull, and_self, if_true, Option.isSome_some]⟩

/-- **no deadlock inside the barrier**: when every rank is inside barrier() some step is enabled -/
theorem C02ME_never_stuck (n : Nat) (hn : 0 < n) (s : Sys) (ls : List Label) (hrun : run n init ls = some s)
    (hall : ∀ r, r < n → s.inBar r = true) : ∃ l, (step n s l).isSome = true := by
  have hi := run_inv ls hrun
  by_cases hbusy : ∃ r, r < n ∧ s.busy r = true
  · obtain ⟨r, hr, hb⟩ := hbusy
    exact ⟨.finish r, by simp only [step, hr, hb, and_self, if_true, Option.isSome_some]⟩
  have hnb : ∀ r, r < n → s.busy r = false := by
    intro r hr
    cases hbr : s.busy r with
    | false => rfl
    | true => exact absurd ⟨r, hr, hbr⟩ hbusy
  by_cases hcb : ∃ r, r < n ∧ 0 < s.cbs r
  · obtain ⟨r, hr, hc⟩ := hcb
    exact ⟨.runcb r 0 0, by simp only [step, hr, hc, hnb r hr, and_self, if_true, Option.isSome_some]⟩
  have hnc : ∀ r, r < n → s.cbs r = 0 := by
    intro r hr
    by_cases h0 : s.cbs r = 0
    · exact h0
    · exact absurd ⟨r, hr, by omega⟩ hcb
  by_cases hund : 0 < s.und
  · exact ⟨.start 0, by simp only [step, hn, hund, hnb 0 hn, and_self, if_true, Option.isSome_some]⟩
  -- every rank idle inside the barrier: the rank furthest behind moves
  obtain ⟨q, hq, hmin⟩ := exists_min n hn s.rounds
  have hrg := hi.rg q hq
  by_cases he : s.rounds q = s.got q
  · rcases idle_rank_moves hq (hall q hq) (hnb q hq) (hnc q hq) he with h | h
    · exact ⟨_, h⟩
    · exact ⟨_, h⟩
  · have hr1 : s.rounds q = s.got q + 1 := by omega
    have hfull : s.cnt (s.got q) = n := cnt_full hi (s.got q) (fun r hr => by have := hmin r hr; omega)
    exact ⟨.result q, by simp only [step, hq, hall q hq, hr1, hfull, and_self, if_true, Option.isSome_some]⟩

/-- the label is a step of rank q's own barrier loop (not a message arrival) -/
def ownStep (q : Nat) : Label → Bool
  | .finish a => a == q
  | .runcb a _ _ => a == q
  | .result a => a == q
  | .contribute a => a == q
  | .exit a => a == q
  | _ => false

/-- **a waiting rank is served**: a rank that has posted its contribution to round k and waits for the result either has
the result available, or some OTHER rank that has NOT yet contributed to round k can take a step of its own barrier
loop (finish its handler, run a callback, consume an older result, contribute, or leave) -/
theorem C02ME_waiting_rank_is_served (n : Nat) (s : Sys) (ls : List Label) (hrun : run n init ls = some s)
    (hall : ∀ r, r < n → s.inBar r = true) (r : Nat) (hr : r < n) (hw : s.rounds r = s.got r + 1) :
    (step n s (.result r)).isSome = true ∨
    ∃ q, q < n ∧ q ≠ r ∧ s.rounds q ≤ s.got r ∧ ∃ l, ownStep q l = true ∧ (step n s l).isSome = true := by
  have hi := run_inv ls hrun
  by_cases hfull : s.cnt (s.got r) = n
  · left
    simp only [step, hr, hall r hr, hw, hfull, and_self, if_true, Option.isSome_some]
  · right
    obtain ⟨q, hq, hmin⟩ := exists_min n (by omega) s.rounds
    have hql : s.rounds q ≤ s.got r := by
      by_cases hle : s.rounds q ≤ s.got r
      · exact hle
      · exact absurd (cnt_full hi (s.got r) (fun x hx => by have := hmin x hx; omega)) hfull
    refine ⟨q, hq, by intro h; subst h; omega, hql, ?_⟩
    cases hb : s.busy q with
    | true => exact ⟨.finish q, by simp [ownStep], by simp only [step, hq, hb, and_self, if_true, Option.isSome_some]⟩
    | false =>
      by_cases hc : 0 < s.cbs q
      · exact ⟨.runcb q 0 0, by simp [ownStep],
          by simp only [step, hq, hc, hb, and_self, if_true, Option.isSome_some]⟩
      · have hc0 : s.cbs q = 0 := by omega
        have hrg := hi.rg q hq
        by_cases he : s.rounds q = s.got q
        · rcases idle_rank_moves hq (hall q hq) hb hc0 he with h | h
          · exact ⟨_, by simp [ownStep], h⟩
          · exact ⟨_, by simp [ownStep], h⟩
        · have hr1 : s.rounds q = s.got q + 1 := by omega
          have hf : s.cnt (s.got q) = n := cnt_full hi (s.got q) (fun x hx => by have := hmin x hx; omega)
          exact ⟨.result q, by simp [ownStep],
            by simp only [step, hq, hall q hq, hr1, hf, and_self, if_true, Option.isSome_some]⟩

/-! non-vacuity: two ranks, one message 0 → 1, both enter; after rank 0 contributed it waits for rank 1, which can move -/
example : ((run 2 init [.issue 0, .enter 0, .enter 1, .contribute 0]).map
    (fun s => ((step 2 s (.result 0)).isSome, (step 2 s (.start 1)).isSome, (step 2 s (.contribute 1)).isSome))) =
    some (false, true, true) := by decide

end YgmVerif.BarrierME
