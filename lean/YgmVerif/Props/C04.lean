import YgmVerif.Lemmas.Router
/-!
# C04 — routing schemes deliver along their promised hop structure

Theorems about `YgmVerif.Router` (model of layout.hpp, comm_router.hpp and of the hop
iteration of `comm::async` / `comm::handle_next_receive`).  Everything is for all
`p > 0` ranks per node and all ranks `s`, `d` (the bound `s, d < N*p` is only needed
where a statement mentions the communicator size).

`route sch p s d` lists the receivers of the successive MPI sends; `hops s route`
the (sender, receiver) pairs; `hopKinds` the off-node (`true`) / on-node (`false`)
pattern.  A message to oneself (`s = d`) is a real one-hop route `[d]` in the code
(an MPI self-send), hence `s ∉ route` is stated for `s ≠ d`.
-/
namespace YgmVerif.Router

/-- indices used by `next_hop` without bounds check are in range -/
theorem nextHop_indices_in_range {N p me d : Nat} (hd : d < N * p) :
    node p d < N ∧ channel p me d < p :=
  ⟨node_lt hd, channel_lt (pos_of_lt_mul hd) me d⟩

/-- every next hop is a rank of the communicator -/
theorem nextHop_lt (sch : Scheme) {N p me d : Nat} (hme : me < N * p) (hd : d < N * p) :
    nextHop sch p me d < N * p := by
  have hp := pos_of_lt_mul hd
  by_cases h : node p me = node p d
  · rw [nextHop_local sch h]; exact hd
  · cases sch with
    | NONE => exact hd
    | NR => rw [nextHop_NR_remote h]; exact mk_lt (node_lt hd) (loc_lt hp me)
    | NLNR =>
      by_cases hc : loc p me = channel p me d
      · rw [nextHop_NLNR_chan h hc]; exact mk_lt (node_lt hd) (loc_lt hp me)
      · rw [nextHop_NLNR_nochan hp h hc]; exact mk_lt (node_lt hme) (channel_lt hp me d)

/-- NONE: one direct hop -/
theorem route_none (p s d : Nat) : route .NONE p s d = [d] := route_none_eq p s d

/-- NR: at most two hops, an off-node hop followed by an on-node hop -/
theorem route_NR_shape {p : Nat} (hp : 0 < p) (s d : Nat) :
    (route .NR p s d).length ≤ 2 ∧
    hopKinds p s (route .NR p s d) ∈ [[false], [true], [true, false]] := by
  rw [route_NR_eq hp]
  have hi := loc_lt hp s
  by_cases h : node p s = node p d
  · simp [h, hopKinds, hops, offNode]
  · by_cases hl : loc p s = loc p d
    · simp [h, hl, hopKinds, hops, offNode]
    · simp [h, hl, hopKinds, hops, offNode, node_mk hi]

/-- NLNR: at most three hops, on-node then off-node then on-node -/
theorem route_NLNR_shape {p : Nat} (hp : 0 < p) (s d : Nat) :
    (route .NLNR p s d).length ≤ 3 ∧
    hopKinds p s (route .NLNR p s d) ∈
      [[false], [true], [false, true], [true, false], [false, true, false]] := by
  rw [route_NLNR_eq hp]
  have hi := loc_lt hp s
  have hcl := channel_lt hp s d
  by_cases h : node p s = node p d
  · rw [if_pos h]; simp [h, hopKinds, hops, offNode]
  · rw [if_neg h]
    by_cases hc : loc p s = channel p s d
    · rw [if_pos hc]
      by_cases hl : loc p s = loc p d
      · rw [if_pos hl]; simp [h, hopKinds, hops, offNode]
      · rw [if_neg hl]; simp [h, hopKinds, hops, offNode, node_mk hi]
    · rw [if_neg hc]
      by_cases hl : channel p s d = loc p d
      · rw [if_pos hl]; simp [h, hopKinds, hops, offNode, node_mk hcl]
      · rw [if_neg hl]; simp [h, hopKinds, hops, offNode, node_mk hcl]

/-- every route ends at the destination -/
theorem route_ends_at_dest (sch : Scheme) {p : Nat} (hp : 0 < p) (s d : Nat) :
    (route sch p s d).getLast? = some d := by
  cases sch with
  | NONE => simp [route_none_eq]
  | NR => rw [route_NR_eq hp]; repeat' split
          all_goals simp
  | NLNR =>
    rw [route_NLNR_eq hp]; repeat' split
    all_goals simp

/-- a route never revisits a rank, the source included -/
theorem route_nodup (sch : Scheme) {p : Nat} (hp : 0 < p) (s d : Nat) :
    (route sch p s d).Nodup ∧ (s ≠ d → s ∉ route sch p s d) := by
  have hi := loc_lt hp s
  have hcl := channel_lt hp s d
  cases sch with
  | NONE => simp [route_none_eq]
  | NR =>
    rw [route_NR_eq hp]
    by_cases h : node p s = node p d
    · rw [if_pos h]; simp
    · rw [if_neg h]
      by_cases hl : loc p s = loc p d
      · rw [if_pos hl]; simp
      · have hne : mk p (node p d) (loc p s) ≠ d := by
          intro e; have := congrArg (loc p) e; rw [loc_mk hi] at this; exact hl this
        have hs : s ≠ mk p (node p d) (loc p s) := by
          intro e; have := congrArg (node p) e; rw [node_mk hi] at this; exact h this
        rw [if_neg hl]; simp [hne, hs]
  | NLNR =>
    rw [route_NLNR_eq hp]
    by_cases h : node p s = node p d
    · rw [if_pos h]; simp
    · rw [if_neg h]
      by_cases hc : loc p s = channel p s d
      · rw [if_pos hc]
        by_cases hl : loc p s = loc p d
        · rw [if_pos hl]; simp
        · have hne : mk p (node p d) (loc p s) ≠ d := by
            intro e; have := congrArg (loc p) e; rw [loc_mk hi] at this; exact hl this
          have hs : s ≠ mk p (node p d) (loc p s) := by
            intro e; have := congrArg (node p) e; rw [node_mk hi] at this; exact h this
          rw [if_neg hl]
          simp [hne, hs]
      · -- m = channel rank of the source node, q = its partner on the destination node
        rw [if_neg hc]
        have hm_d : mk p (node p s) (channel p s d) ≠ d := by
          intro e; have := congrArg (node p) e; rw [node_mk hcl] at this; exact h this
        have hs_m : s ≠ mk p (node p s) (channel p s d) := by
          intro e; have := congrArg (loc p) e; rw [loc_mk hcl] at this; exact hc this
        have hs_q : s ≠ mk p (node p d) (channel p s d) := by
          intro e; have := congrArg (node p) e; rw [node_mk hcl] at this; exact h this
        have hm_q : mk p (node p s) (channel p s d) ≠ mk p (node p d) (channel p s d) := by
          intro e; have := congrArg (node p) e; rw [node_mk hcl, node_mk hcl] at this; exact h this
        by_cases hl : channel p s d = loc p d
        · rw [if_pos hl]
          simp [hm_d, hs_m]
        · have hq_d : mk p (node p d) (channel p s d) ≠ d := by
            intro e; have := congrArg (loc p) e; rw [loc_mk hcl] at this; exact hl this
          rw [if_neg hl]
          simp [hm_d, hs_m, hs_q, hm_q, hq_d]

/-- the route stays inside the communicator -/
theorem route_lt (sch : Scheme) {N p s d : Nat} (hs : s < N * p) (hd : d < N * p) :
    ∀ r ∈ route sch p s d, r < N * p := by
  have hp := pos_of_lt_mul hd
  have hi := loc_lt hp s
  have hcl := channel_lt hp s d
  have hb := node_lt hd
  have ha := node_lt hs
  cases sch with
  | NONE => simp [route_none_eq, hd]
  | NR =>
    rw [route_NR_eq hp]; repeat' split
    all_goals simp [hd, mk_lt hb hi]
  | NLNR =>
    rw [route_NLNR_eq hp]; repeat' split
    all_goals simp [hd, mk_lt hb hi, mk_lt ha hcl, mk_lt hb hcl]

/-- NR and NLNR: both ends of every off-node hop have the same on-node index -/
theorem offnode_same_local (sch : Scheme) (hsch : sch ≠ .NONE) {p : Nat} (hp : 0 < p) (s d : Nat) :
    ∀ h ∈ hops s (route sch p s d), offNode p h = true → loc p h.1 = loc p h.2 := by
  have hi := loc_lt hp s
  have hcl := channel_lt hp s d
  cases sch with
  | NONE => exact absurd rfl hsch
  | NR =>
    rw [route_NR_eq hp]
    by_cases h : node p s = node p d
    · rw [if_pos h]; simp [hops, offNode, h]
    · rw [if_neg h]
      by_cases hl : loc p s = loc p d
      · rw [if_pos hl]; simp [hops, offNode, hl]
      · rw [if_neg hl]; simp [hops, offNode, node_mk hi, loc_mk hi]
  | NLNR =>
    rw [route_NLNR_eq hp]
    by_cases h : node p s = node p d
    · rw [if_pos h]; simp [hops, offNode, h]
    · rw [if_neg h]
      by_cases hc : loc p s = channel p s d
      · rw [if_pos hc]
        by_cases hl : loc p s = loc p d
        · rw [if_pos hl]; simp [hops, offNode, hl]
        · rw [if_neg hl]
          simp [hops, offNode, node_mk hi, loc_mk hi]
      · rw [if_neg hc]
        by_cases hl : channel p s d = loc p d
        · rw [if_pos hl]
          simp only [hops, List.zip_cons_cons, List.zip_nil_right, List.mem_cons, List.not_mem_nil,
            or_false, offNode]
          rintro x (rfl | rfl)
          · simp [node_mk hcl]
          · intro _; show loc p (mk p (node p s) (channel p s d)) = loc p d
            rw [loc_mk hcl]; exact hl
        · rw [if_neg hl]
          simp [hops, offNode, node_mk hcl, loc_mk hcl]

/-- closed form of the off-node hops of NR: none on-node, otherwise the single pair
(source, rank with the source's on-node index on the destination's node) -/
theorem offHops_NR {p : Nat} (hp : 0 < p) (s d : Nat) :
    offHops .NR p s d =
      if node p s = node p d then [] else [(s, mk p (node p d) (loc p s))] := by
  have hi := loc_lt hp s
  unfold offHops
  rw [route_NR_eq hp]
  by_cases h : node p s = node p d
  · rw [if_pos h, if_pos h]; simp [hops, offNode, h]
  · rw [if_neg h, if_neg h]
    by_cases hl : loc p s = loc p d
    · have : mk p (node p d) (loc p s) = d := by rw [hl]; exact mk_node_loc p d
      rw [if_pos hl, this]
      simp [hops, offNode, h]
    · rw [if_neg hl]; simp [hops, offNode, node_mk hi, h]

/-- closed form of the off-node hops of NLNR: the single pair of channel ranks
`(node s, c) → (node d, c)` with `c = (node d + node s) % p` -/
theorem offHops_NLNR {p : Nat} (hp : 0 < p) (s d : Nat) :
    offHops .NLNR p s d =
      if node p s = node p d then []
      else [(mk p (node p s) (channel p s d), mk p (node p d) (channel p s d))] := by
  have hi := loc_lt hp s
  have hcl := channel_lt hp s d
  unfold offHops
  rw [route_NLNR_eq hp]
  by_cases h : node p s = node p d
  · simp [h, hops, offNode]
  · by_cases hc : loc p s = channel p s d
    · have hs : mk p (node p s) (channel p s d) = s := by rw [← hc]; exact mk_node_loc p s
      by_cases hl : loc p s = loc p d
      · have hd : mk p (node p d) (channel p s d) = d := by rw [← hc, hl]; exact mk_node_loc p d
        rw [if_neg h, if_pos hc, if_pos hl, if_neg h, hs, hd]
        simp [hops, offNode, h]
      · rw [if_neg h, if_pos hc, if_neg hl, if_neg h, hs, ← hc]
        simp [hops, offNode, node_mk hi, h]
    · by_cases hl : channel p s d = loc p d
      · have hd : mk p (node p d) (channel p s d) = d := by rw [hl]; exact mk_node_loc p d
        rw [if_neg h, if_neg hc, if_pos hl, if_neg h, hd]
        simp [hops, offNode, node_mk hcl, h]
      · rw [if_neg h, if_neg hc, if_neg hl, if_neg h]
        simp [hops, offNode, node_mk hcl, h]

/-- the off-node rank pairs NLNR uses are off-node rank pairs NR uses (on the same layout) -/
theorem NLNR_pairs_subset_NR {N p s d : Nat} (hs : s < N * p) (hd : d < N * p) :
    ∀ h ∈ offHops .NLNR p s d,
      ∃ s' d', s' < N * p ∧ d' < N * p ∧ h ∈ offHops .NR p s' d' := by
  have hp := pos_of_lt_mul hd
  have hcl := channel_lt hp s d
  intro h hh
  rw [offHops_NLNR hp] at hh
  by_cases hn : node p s = node p d
  · simp [hn] at hh
  · simp only [hn, if_false, List.mem_singleton] at hh
    subst hh
    -- NR traffic from the source node's channel rank to the destination
    refine ⟨mk p (node p s) (channel p s d), d, mk_lt (node_lt hs) hcl, hd, ?_⟩
    rw [offHops_NR hp, node_mk hcl, loc_mk hcl]
    simp [hn]

/-- under NLNR all traffic from node `a` to node `b ≠ a` crosses on one single ordered
rank pair, whatever the source on `a` and the destination on `b` -/
theorem NLNR_single_pair {p : Nat} (hp : 0 < p) (s d s' d' : Nat)
    (hs : node p s = node p s') (hd : node p d = node p d') (hne : node p s ≠ node p d) :
    offHops .NLNR p s d = offHops .NLNR p s' d' ∧
    offHops .NLNR p s d =
      [(mk p (node p s) ((node p d + node p s) % p), mk p (node p d) ((node p d + node p s) % p))] := by
  have hne' : node p s' ≠ node p d' := by rw [← hs, ← hd]; exact hne
  rw [offHops_NLNR hp, offHops_NLNR hp, if_neg hne, if_neg hne']
  refine ⟨?_, rfl⟩
  unfold channel
  rw [← hs, ← hd]

theorem route_length_pos (sch : Scheme) (p s d : Nat) : 0 < (route sch p s d).length := by
  simp [route, routeFuel, routeFrom]

set_option linter.unusedVariables false in
/-- every forwarding step gets strictly closer to the destination: the number of sends still
needed (`hopsLeft`) decreases along `nextHop`.  In particular `route` does not depend on its
fuel.  (The bounds `hx`, `hd` are not needed; they are part of the interface C01 uses.) -/
theorem route_progress (sch : Scheme) {N p x d : Nat} (hp : 0 < p) (hx : x < N * p) (hd : d < N * p)
    (hne : x ≠ d) : hopsLeft sch p (nextHop sch p x d) d < hopsLeft sch p x d := by
  unfold hopsLeft
  rw [if_neg hne]
  by_cases hh : nextHop sch p x d = d
  · rw [if_pos hh]; exact route_length_pos sch p x d
  · rw [if_neg hh]
    have hi := loc_lt hp x
    have hcl := channel_lt hp x d
    have h1 : node p x ≠ node p d := fun e => hh (nextHop_local sch e)
    cases sch with
    | NONE => exact absurd rfl hh
    | NR =>
      have hl : loc p x ≠ loc p d := by
        intro e; apply hh; rw [nextHop_NR_remote h1, e]; exact mk_node_loc p d
      rw [nextHop_NR_remote h1, route_local_eq _ (node_mk hi), route_NR_eq hp, if_neg h1, if_neg hl]
      simp
    | NLNR =>
      by_cases hc : loc p x = channel p x d
      · have hl : loc p x ≠ loc p d := by
          intro e; apply hh; rw [nextHop_NLNR_chan h1 hc, e]; exact mk_node_loc p d
        rw [nextHop_NLNR_chan h1 hc, route_local_eq _ (node_mk hi), route_NLNR_eq hp, if_neg h1,
          if_pos hc, if_neg hl]
        simp
      · rw [nextHop_NLNR_nochan hp h1 hc]
        have hm_node : node p (mk p (node p x) (channel p x d)) = node p x := node_mk hcl
        have hm_loc : loc p (mk p (node p x) (channel p x d)) = channel p x d := loc_mk hcl
        have hm_chan : channel p (mk p (node p x) (channel p x d)) d = channel p x d := by
          show (node p d + node p (mk p (node p x) (channel p x d))) % p = channel p x d
          rw [hm_node]; rfl
        rw [route_NLNR_eq hp (mk p (node p x) (channel p x d)) d, hm_node, hm_loc, hm_chan,
          if_neg h1, if_pos rfl, route_NLNR_eq hp x d, if_neg h1, if_neg hc]
        by_cases hl : channel p x d = loc p d
        · rw [if_pos hl, if_pos hl]; simp
        · rw [if_neg hl, if_neg hl]; simp

/-! ### non-vacuity: concrete layouts where every branch is taken (2 nodes × 3 ranks, 3 × 2) -/

example : route .NLNR 3 0 5 = [1, 4, 5] ∧ route .NLNR 3 0 4 = [1, 4] ∧ route .NLNR 3 1 3 = [4, 3]
    ∧ route .NLNR 3 1 4 = [4] ∧ route .NLNR 3 0 2 = [2] ∧ route .NLNR 3 2 2 = [2] := by decide
example : route .NR 3 0 5 = [3, 5] ∧ route .NR 3 0 3 = [3] ∧ route .NONE 3 0 5 = [5] := by decide
example : hopKinds 3 0 (route .NLNR 3 0 5) = [false, true, false]
    ∧ hopKinds 3 0 (route .NR 3 0 5) = [true, false] := by decide
example : offHops .NLNR 3 0 5 = [(1, 4)] ∧ offHops .NLNR 3 2 3 = [(1, 4)]
    ∧ offHops .NR 3 1 5 = [(1, 4)] := by decide
example : offHops .NLNR 2 1 4 = [(0, 4)] ∧ offHops .NLNR 2 5 0 = [(4, 0)] := by decide
example : hopsLeft .NLNR 3 0 5 = 3 ∧ hopsLeft .NLNR 3 1 5 = 2 ∧ hopsLeft .NLNR 3 4 5 = 1
    ∧ hopsLeft .NLNR 3 5 5 = 0 := by decide

end YgmVerif.Router
