import YgmVerif.Model.Bytes
/-!
# C07 — sends aggregate up to the buffer capacity; back-pressure bounds in-flight data

Theorems about the executable functions of `YgmVerif.Bytes` (the driver's `bytes` mode runs them on the
real sequence of asyncs and compares every predicted physical send and both byte counters with the real
ones exported by the hooks), for every capacity, every message size and every buffer population.
-/
namespace YgmVerif.Bytes

theorem total_cons (h x : Nat) (q : Q) : total ((h, x) :: q) = x + total q := by
  simp [total]

theorem total_append (a b : Q) : total (a ++ b) = total a + total b := by
  simp [total, List.map_append, List.sum_append]

theorem total_add (hop b : Nat) (q : Q) : total (add hop b q) = total q + b := by
  induction q with
  | nil => simp [add, total]
  | cons p rest ih =>
    obtain ⟨h, x⟩ := p
    simp only [add]
    split
    · simp only [total_cons]; omega
    · simp only [total_cons, ih]; omega

/-- buffers leave whole and in dest-queue order: what was sent followed by what remains is the queue -/
theorem flushToCap_split (cap : Nat) (q : Q) : (flushToCap cap q).2 ++ (flushToCap cap q).1 = q := by
  induction q with
  | nil => simp [flushToCap]
  | cons p rest ih =>
    obtain ⟨h, x⟩ := p
    simp only [flushToCap]
    split
    · simp only [List.cons_append, ih]
    · simp

/-- **after flush_to_capacity at most the capacity remains unsent** -/
theorem flushToCap_le (cap : Nat) (q : Q) : total (flushToCap cap q).1 ≤ cap := by
  induction q with
  | nil => simp [flushToCap, total]
  | cons p rest ih =>
    obtain ⟨h, x⟩ := p
    simp only [flushToCap]
    split
    · exact ih
    · rename_i hc; simp only; omega

/-- **nothing goes on the wire while the capacity is not exceeded** -/
theorem flushToCap_none (cap : Nat) (q : Q) (h : total q ≤ cap) : flushToCap cap q = (q, []) := by
  cases q with
  | nil => simp [flushToCap]
  | cons p rest =>
    obtain ⟨hh, x⟩ := p
    simp only [flushToCap]
    split
    · omega
    · rfl

/-- it sends no more than necessary: before every buffer it sends, more than the capacity was unsent -/
theorem flushToCap_needed (cap : Nat) (q : Q) (pre : Q) (p : Nat × Nat) (post : Q)
    (h : (flushToCap cap q).2 = pre ++ p :: post) : total q - total pre > cap := by
  induction q generalizing pre with
  | nil => simp [flushToCap] at h
  | cons a rest ih =>
    obtain ⟨hh, x⟩ := a
    simp only [flushToCap] at h
    split at h
    · rename_i hc
      simp only at h
      cases pre with
      | nil =>
        have e0 : total ([] : Q) = 0 := rfl
        rw [e0]; omega
      | cons b pre' =>
        simp only [List.cons_append, List.cons.injEq] at h
        have := ih pre' h.2
        rw [← h.1]
        simp only [total_cons] at this ⊢
        omega
    · simp at h

/-- **unsent bytes never exceed the capacity plus one message**: a main-context async leaves at most the
capacity unsent, and inside the call (after buffering, before flushing) at most capacity + the message -/
theorem C07_unsent_bound (cap : Nat) (s : St) (hop b : Nat) (hpre : total s.q ≤ cap) :
    total (add hop b s.q) ≤ cap + b ∧ total (asyncMain cap s hop b).1.q ≤ cap := by
  refine ⟨by rw [total_add]; omega, ?_⟩
  simp only [asyncMain]
  exact flushToCap_le cap _

/-- the same at the end of every received buffer (handlers only buffer; the walk's trailing
flush_to_capacity restores the bound) -/
theorem C07_walkEnd_bound (cap : Nat) (s : St) : total (walkEnd cap s).1.q ≤ cap := by
  simp only [walkEnd]; exact flushToCap_le cap _

/-- **no early send**: an async that does not push the unsent bytes over the capacity sends nothing -/
theorem C07_no_early_send (cap : Nat) (s : St) (hop b : Nat) (h : total s.q + b ≤ cap) :
    (asyncMain cap s hop b).2 = [] ∧ (asyncMain cap s hop b).1.q = add hop b s.q := by
  simp only [asyncMain]
  rw [flushToCap_none cap _ (by rw [total_add]; exact h)]
  exact ⟨rfl, rfl⟩

/-- running a list of main-context asyncs to one hop -/
def asyncsTo (cap : Nat) (hop : Nat) : St → List Nat → St × Q
  | s, [] => (s, [])
  | s, b :: bs =>
    let (s1, sent1) := asyncMain cap s hop b
    let (s2, sent2) := asyncsTo cap hop s1 bs
    (s2, sent1 ++ sent2)

/-- **messages to one destination that fit within the capacity travel as a single physical send**:
`k` asyncs to one next hop from empty buffers with total ≤ capacity put nothing on the wire, leave one
buffer holding all the bytes, and the next flush point sends exactly that one buffer -/
theorem asyncsTo_cons (cap hop : Nat) (s : St) (b : Nat) (bs : List Nat) :
    asyncsTo cap hop s (b :: bs) =
      ((asyncsTo cap hop (asyncMain cap s hop b).1 bs).1,
       (asyncMain cap s hop b).2 ++ (asyncsTo cap hop (asyncMain cap s hop b).1 bs).2) := by
  simp [asyncsTo]

theorem asyncsTo_same (cap hop p0 : Nat) (bs : List Nat) (x : Nat) (h : x + bs.sum ≤ cap) :
    asyncsTo cap hop { q := [(hop, x)], pending := p0 } bs = ({ q := [(hop, x + bs.sum)], pending := p0 }, []) := by
  induction bs generalizing x with
  | nil => simp [asyncsTo]
  | cons b rest ih =>
    simp only [List.sum_cons] at h
    have e1 : asyncMain cap { q := [(hop, x)], pending := p0 } hop b = ({ q := [(hop, x + b)], pending := p0 }, []) := by
      simp only [asyncMain, add, if_true]
      rw [flushToCap_none cap _ (by simp [total]; omega)]
      simp [total]
    rw [asyncsTo_cons, e1]
    simp only
    rw [ih (x + b) (by omega)]
    simp [List.sum_cons, Nat.add_assoc]

theorem C07_aggregate_single_send (cap hop : Nat) (bs : List Nat) (hne : bs ≠ []) (h : bs.sum ≤ cap) (p0 : Nat) :
    (asyncsTo cap hop { q := [], pending := p0 } bs).2 = [] ∧
    (asyncsTo cap hop { q := [], pending := p0 } bs).1.q = [(hop, bs.sum)] ∧
    (flushFront (asyncsTo cap hop { q := [], pending := p0 } bs).1).2 = [(hop, bs.sum)] := by
  cases bs with
  | nil => exact absurd rfl hne
  | cons b rest =>
    simp only [List.sum_cons] at h
    have e1 : asyncMain cap { q := [], pending := p0 } hop b = ({ q := [(hop, b)], pending := p0 }, []) := by
      simp only [asyncMain, add]
      rw [flushToCap_none cap _ (by simp [total]; omega)]
      simp [total]
    rw [asyncsTo_cons, e1]
    simp only
    rw [asyncsTo_same cap hop p0 rest b h]
    simp [flushFront, List.sum_cons]

/-- **back-pressure bound**: an async that the halt check let through (`pending ≤ cap`) on a rank whose
buffers respect the capacity leaves at most 2·cap + one message posted-but-incomplete -/
theorem C07_producer_pending_bound (cap : Nat) (s : St) (hop b : Nat)
    (hq : total s.q ≤ cap) (hp : s.pending ≤ cap) :
    (asyncMain cap s hop b).1.pending ≤ 2 * cap + b := by
  simp only [asyncMain]
  have hs := flushToCap_split cap (add hop b s.q)
  have ht : total (flushToCap cap (add hop b s.q)).2 ≤ total (add hop b s.q) := by
    have := congrArg total hs
    rw [total_append] at this; omega
  rw [total_add] at ht
  omega

/-- completions only decrease the posted bytes, so the bound holds between asyncs for every completion delay -/
theorem C07_sendDone_le (s s' : St) (b : Nat) (h : sendDone s b = some s') : s'.pending ≤ s.pending ∧ s'.q = s.q := by
  simp only [sendDone] at h
  split at h
  · cases h; simp
  · cases h

/-- the step-wise loop the acceptor replays (`flushStep` until it is disabled) is `flushToCap` -/
theorem flushStep_none_iff (cap : Nat) (s : St) : flushStep cap s = none ↔ total s.q ≤ cap := by
  simp only [flushStep]; split <;> simp <;> omega

theorem flushToCap_step (cap : Nat) (h x : Nat) (rest : Q) (hgt : total ((h, x) :: rest) > cap) :
    flushToCap cap ((h, x) :: rest) = ((flushToCap cap rest).1, (h, x) :: (flushToCap cap rest).2) := by
  simp [flushToCap, hgt]

/-! non-vacuity -/
example : (asyncsTo 1024 3 { q := [], pending := 0 } [500, 500, 24]).2 = [] ∧
    (asyncsTo 1024 3 { q := [], pending := 0 } [500, 500, 24]).1.q = [(3, 1024)] := by decide
example : (asyncsTo 1024 3 { q := [], pending := 0 } [500, 500, 25]).2 = [(3, 1025)] := by decide
example : (asyncMain 100 { q := [(1, 60), (2, 30)], pending := 40 } 5 50).2 = [(1, 60)] := by decide

/-! ### flush points: any buffered destination, whole -/

theorem removeHop_total (hop : Nat) (q : Q) (x : Nat) (q' : Q) (h : removeHop hop q = some (x, q')) :
    total q = x + total q' := by
  induction q generalizing x q' with
  | nil => simp [removeHop] at h
  | cons a rest ih =>
    obtain ⟨ha, xa⟩ := a
    simp only [removeHop] at h
    split at h
    · simp only [Option.some.injEq, Prod.mk.injEq] at h
      obtain ⟨rfl, rfl⟩ := h
      simp [total]
    · cases hr : removeHop hop rest with
      | none => simp [hr] at h
      | some p =>
        obtain ⟨b, q2⟩ := p
        simp only [hr, Option.some.injEq, Prod.mk.injEq] at h
        obtain ⟨rfl, rfl⟩ := h
        have := ih b q2 hr
        simp only [total, List.map_cons, List.sum_cons] at this ⊢
        omega

/-- **a flush point conserves bytes and never raises the unsent total**: the bytes leave `unsent` and enter `pending`,
one physical send carries the whole buffer of that destination -/
theorem C07_flushHop_conserves (s : St) (hop : Nat) (s' : St) (sent : Q) (h : flushHop s hop = some (s', sent)) :
    total s.q = total sent + total s'.q ∧ s'.pending = s.pending + total sent ∧ sent.length = 1 ∧
    total s'.q ≤ total s.q := by
  unfold flushHop at h
  cases hr : removeHop hop s.q with
  | none => simp [hr] at h
  | some p =>
    obtain ⟨x, q'⟩ := p
    simp only [hr, Option.some.injEq, Prod.mk.injEq] at h
    obtain ⟨rfl, rfl⟩ := h
    have := removeHop_total hop s.q x q' hr
    simp [total] at this ⊢
    omega

/-- on the destination at the front of the queue a flush point is `flushFront` (what comm.ipp does today) -/
theorem C07_flushHop_front (hop x : Nat) (rest : Q) (p : Nat) :
    flushHop { q := (hop, x) :: rest, pending := p } hop = some (flushFront { q := (hop, x) :: rest, pending := p }) := by
  simp [flushHop, removeHop, flushFront]

theorem removeHop_none (hop : Nat) (q : Q) (h : ∀ e ∈ q, e.1 ≠ hop) : removeHop hop q = none := by
  induction q with
  | nil => rfl
  | cons a rest ih =>
    obtain ⟨ha, xa⟩ := a
    have h1 : ha ≠ hop := h (ha, xa) List.mem_cons_self
    have h2 := ih (fun e he => h e (List.mem_cons_of_mem _ he))
    simp [removeHop, h1, h2]

/-- a destination that has nothing buffered cannot be sent to at a flush point -/
theorem C07_flushHop_needs_buffer (s : St) (hop : Nat) (h : ∀ e ∈ s.q, e.1 ≠ hop) : flushHop s hop = none := by
  simp [flushHop, removeHop_none hop s.q h]

example : (flushHop { q := [(1, 60), (2, 30)], pending := 40 } 2).map (fun p => (p.1.q, p.1.pending, p.2)) = some ([(1, 60)], 70, [(2, 30)]) := by decide
example : (flushHop { q := [(1, 60), (2, 30)], pending := 40 } 3).isNone = true := by decide

end YgmVerif.Bytes
