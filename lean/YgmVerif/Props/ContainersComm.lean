import YgmVerif.Model.ContainersComm
import YgmVerif.Props.DistComm
import YgmVerif.Props.C13
import YgmVerif.Props.C14
import YgmVerif.Props.C15
import YgmVerif.Props.C17
/-!
# C13 / C14 end to end over the joint messaging model

`Props/C13.lean`, `Props/C14.lean` state their results for "the final state is `run a ms'` for SOME permutation `ms'` of
the issued messages" — exactly-once atomic execution on the owner is ASSUMED there.  Here it is DISCHARGED from
`Props/C02C01.lean` / `Props/DistComm.lean`: the container is run over `YgmVerif.Comm` (message movement × multi-epoch
barrier), an operation is a message `opOf uid`, the memory of a rank changes only at `execEnd`.
-/
namespace YgmVerif.ContainersComm
open YgmVerif
open YgmVerif.Comm (Label St)
open YgmVerif.DistComm

/-! ## C13 array -/

section Array
variable {α : Type}
open ArrayOps Part

/-- the sequential array model and the per-rank container agree: executing `E` by `ArrayOps.run` (issue + route by
`owner` + handler on the owner) gives on every rank the state `Dist.execGlobal` computes with the handler alone -/
theorem execGlobal_arr {a a' : Arr α} {E : List (ArrayOps.Msg α)} (h : ArrayOps.run a E = some a') (r : Nat) :
    Dist.execGlobal (arrContainer a.len a.ranks) (arrOwner a.len a.ranks) (arrInit a) E r = arrInit a' r := by
  induction E generalizing a with
  | nil => simp [run_nil] at h; subst h; rfl
  | cons m E ih =>
    rw [run_cons] at h
    cases h1 : ArrayOps.apply a m with
    | none => simp [h1] at h
    | some a1 =>
      simp only [h1, Option.bind_some] at h
      obtain ⟨hlt, d, vec, hd, hvec, hc1, hc2, hc3, rfl⟩ := apply_inv h1
      have hdl : d < a.vecs.length := (List.getElem?_eq_some_iff.mp hvec).1
      have := ih h
      simp only [Dist.execGlobal]
      rw [← this]
      congr 1
      funext q
      have hown : arrOwner a.len a.ranks m = d := by simp [arrOwner, hd]
      rw [hown]
      by_cases hq : q = d
      · subst hq
        have hv : a.vecs[q] = vec := by
          have := hvec; rw [List.getElem?_eq_getElem hdl] at this; exact Option.some.inj this
        simp [arrContainer, arrInit, ArrayOps.deliver, hc1, hc2, hdl, hv, hc3]
      · have : ¬ d = q := fun e => hq e.symm
        simp [arrInit, hq, this]

/-- **C13 end to end** (`ygm::container::array`).  For every number of ranks `n`, every routing function, every
joint history accepted from program start in which every message carries an array update `opOf uid` with a legal
index, sent point-to-point to `owner(index)` — issued by main programs, by handlers (e.g. a visitor that updates the
array again) or by pre-barrier callbacks, in any interleaving: at the FIRST return of a barrier

* the handlers executed so far, in their execution order `E = execOps`, are a permutation of ALL updates issued so
  far (each executed exactly once) and `ArrayOps.run a0 E` — the sequential model of `Props/C13.lean` — succeeds
  (no trap in `owner`, no `ASSERT_RELEASE` in a handler) with a well-formed result `a'`;
* the memory of EVERY rank `q` induced by the history is exactly `m_local_vec` of `q` in `a'`;
* for every index `i`: the updates addressed to `i` that were executed are a permutation of the updates addressed to `i`
  that were issued, element `i` is the fold of exactly these, each applied once (`final_is_fold`, now about the
  history instead of an assumed permutation), and it sits on rank `owner i` at `local_index i`. -/
theorem C13_array_after_barrier (a0 : Arr α) (hw : WF a0) (hr0 : 0 < a0.ranks) (opOf : Nat → ArrayOps.Msg α)
    (n : Nat) (nh : Nat → Nat → Nat) (ls : List Label) (s : St) (hrun : Comm.run n nh Comm.init ls = some s)
    (ha : Addressed (arrOwner a0.len a0.ranks) opOf ls)
    (hidx : ∀ m ∈ ls.flatMap Comm.issued, (opOf m.1).idx < a0.len)
    (r : Nat) (hr : r < n) (hx : BarrierME.exitEnabled s.b r = true) (hne : ∀ q, q < n → s.b.epoch q ≤ s.b.epoch r) :
    ∃ a', ArrayOps.run a0 (execOps opOf s) = some a' ∧ WF a' ∧ a'.len = a0.len ∧ a'.ranks = a0.ranks ∧
      (execOps opOf s).Perm (issuedOps opOf ls) ∧
      (∀ q, memOf (arrContainer a0.len a0.ranks) opOf n nh (arrInit a0) ls q = (q, a'.vecs[q]?)) ∧
      ∀ i, i < a0.len →
        (updatesOf (execOps opOf s) i).Perm (updatesOf (issuedOps opOf ls) i) ∧
        ArrayOps.get a' i = (ArrayOps.get a0 i).map (fun v0 => (updatesOf (execOps opOf s) i).foldl (fun v m => m.f i v) v0) ∧
        ∃ d, Part.owner a0.len a0.ranks i = some d ∧ d < a0.ranks ∧
          (memOf (arrContainer a0.len a0.ranks) opOf n nh (arrInit a0) ls d).2.bind
            (·[localIndex a0.len a0.ranks d i]?) = ArrayOps.get a' i := by
  have hperm := execOps_perm_issuedOps opOf n nh ls s hrun r hr hx hne
  have hall : ∀ m ∈ execOps opOf s, m.idx < a0.len := by
    intro m hm
    have := hperm.mem_iff.1 hm
    unfold issuedOps at this
    obtain ⟨x, hx', rfl⟩ := List.mem_map.1 this
    exact hidx x hx'
  obtain ⟨a', h1, hw', hl', hr'⟩ := run_some (execOps opOf s) hw hr0 hall
  have hmem : ∀ q, memOf (arrContainer a0.len a0.ranks) opOf n nh (arrInit a0) ls q = (q, a'.vecs[q]?) := by
    intro q
    unfold memOf
    rw [mem_eq_execGlobal (arrContainer a0.len a0.ranks) (arrOwner a0.len a0.ranks) opOf n nh (arrInit a0) ls s hrun ha q,
      execGlobal_arr h1 q]
    rfl
  refine ⟨a', h1, hw', hl', hr', hperm, hmem, ?_⟩
  intro i hi
  refine ⟨hperm.filter _, final_is_fold hr0 h1 i hi, ?_⟩
  obtain ⟨d, hd, hdr, _, _⟩ := owner_spec a0.len a0.ranks i hr0 hi
  refine ⟨d, hd, hdr, ?_⟩
  rw [hmem d]
  unfold ArrayOps.get
  rw [hl', hr', hd]
  rfl

/-- **C13 end to end, order-independent form**: if the issued updates addressed to one element commute pairwise (one
operator family of `Op.eval_comm`, an associative-commutative operator, …), then at the first return of a barrier
every element is the fold of the updates addressed to it IN ISSUE ORDER (hence in any order): the result does not
depend on the interleaving, the routing or the number of ranks. -/
theorem C13_array_after_barrier_commuting (a0 : Arr α) (hw : WF a0) (hr0 : 0 < a0.ranks)
    (opOf : Nat → ArrayOps.Msg α)
    (n : Nat) (nh : Nat → Nat → Nat) (ls : List Label) (s : St) (hrun : Comm.run n nh Comm.init ls = some s)
    (ha : Addressed (arrOwner a0.len a0.ranks) opOf ls)
    (hidx : ∀ m ∈ ls.flatMap Comm.issued, (opOf m.1).idx < a0.len)
    (hc : ∀ x ∈ issuedOps opOf ls, ∀ y ∈ issuedOps opOf ls, x.idx = y.idx →
      ∀ v, y.f y.idx (x.f x.idx v) = x.f x.idx (y.f y.idx v))
    (r : Nat) (hr : r < n) (hx : BarrierME.exitEnabled s.b r = true) (hne : ∀ q, q < n → s.b.epoch q ≤ s.b.epoch r) :
    ∃ a', ArrayOps.run a0 (execOps opOf s) = some a' ∧
      (∀ q, memOf (arrContainer a0.len a0.ranks) opOf n nh (arrInit a0) ls q = (q, a'.vecs[q]?)) ∧
      ∀ i, i < a0.len →
        ArrayOps.get a' i = (ArrayOps.get a0 i).map (fun v0 => (updatesOf (issuedOps opOf ls) i).foldl (fun v m => m.f i v) v0) := by
  obtain ⟨a', h1, _, _, _, hperm, hmem, hfold⟩ :=
    C13_array_after_barrier a0 hw hr0 opOf n nh ls s hrun ha hidx r hr hx hne
  refine ⟨a', h1, hmem, ?_⟩
  intro i hi
  obtain ⟨hp, hf, _⟩ := hfold i hi
  rw [hf]
  congr 1
  funext v0
  apply List.Perm.foldl_eq' hp
  intro x hx' y hy z
  unfold updatesOf at hx' hy
  simp only [List.mem_filter, beq_iff_eq] at hx' hy
  have := hc x (hperm.mem_iff.1 hx'.1) y (hperm.mem_iff.1 hy.1) (by omega) z
  rw [hx'.2, hy.2] at this
  exact this

/-- **C13 end to end for `async_binary_op_update_value` with an associative-commutative operator**: every message
`uid` carries `(index, value) = upd uid`; at the first return of a barrier element `i` is its initial value combined
with the values addressed to `i`, in issue order -/
theorem C13_array_after_barrier_assoc_comm (op : α → α → α) (hassoc : ∀ x y z, op (op x y) z = op x (op y z))
    (hcomm : ∀ x y, op x y = op y x)
    (a0 : Arr α) (hw : WF a0) (hr0 : 0 < a0.ranks) (upd : Nat → Nat × α)
    (n : Nat) (nh : Nat → Nat → Nat) (ls : List Label) (s : St) (hrun : Comm.run n nh Comm.init ls = some s)
    (ha : Addressed (arrOwner a0.len a0.ranks) (fun u => binMsg op (upd u)) ls)
    (hidx : ∀ m ∈ ls.flatMap Comm.issued, (upd m.1).1 < a0.len)
    (r : Nat) (hr : r < n) (hx : BarrierME.exitEnabled s.b r = true) (hne : ∀ q, q < n → s.b.epoch q ≤ s.b.epoch r) :
    ∃ a', ArrayOps.run a0 (execOps (fun u => binMsg op (upd u)) s) = some a' ∧
      ∀ i, i < a0.len →
        ArrayOps.get a' i = (ArrayOps.get a0 i).map (fun v0 =>
          ((((ls.flatMap Comm.issued).map (fun m => upd m.1)).filter (fun p => p.1 == i)).map (·.2)).foldl op v0) := by
  obtain ⟨a', h1, _, hfold⟩ :=
    C13_array_after_barrier_commuting a0 hw hr0 (fun u => binMsg op (upd u)) n nh ls s hrun ha hidx
      (by
        intro x hx' y hy _ v
        unfold issuedOps at hx' hy
        obtain ⟨p, _, rfl⟩ := List.mem_map.1 hx'
        obtain ⟨q, _, rfl⟩ := List.mem_map.1 hy
        exact binop_updates_commute op hassoc hcomm _ _ v)
      r hr hx hne
  refine ⟨a', h1, ?_⟩
  intro i hi
  rw [hfold i hi]
  congr 1
  funext v0
  unfold updatesOf issuedOps
  rw [List.filter_map, List.foldl_map, List.filter_map, List.foldl_map, List.foldl_map]
  rfl

/-! ### non-vacuity (C13) -/

section ArrayExample

/-- 5 elements on 3 ranks: blocks [0,1], [2,3], [4] -/
private def arr0 : Arr UInt64 := fresh 5 3 10

/-- which update each message carries (one commuting family: plus / minus / inc) -/
private def arrOp : Nat → ArrayOps.Msg UInt64
  | 1 => Op.msg 4 (.plus 2)
  | 2 => Op.msg 4 (.plus 3)
  | 3 => Op.msg 0 .inc
  | _ => Op.msg 2 (.minus 1)

private def round3 : List Label :=
  [.contribute 0, .contribute 1, .contribute 2, .result 0, .result 1, .result 2]

/-- ranks 0 and 1 both update element 4 (owner: rank 2) before the barrier; the handler of the first update, running
on rank 2 INSIDE the barrier, issues an update of element 0 (owner: rank 0); a pre-barrier callback of rank 1 issues an
update of element 2 (its own element: a self-send) -/
private def arrDemo : List Label :=
  [.regcb 1, .async 0 1 2 false, .async 1 2 2 false, .enter 0, .enter 1, .enter 2,
   .runcb 1 [(4, 1, false)] 0,
   .isend 0 2, .recvBegin 2 0 0, .execBegin 2 1, .async 2 3 0 false, .execEnd 2 1, .recvEnd 2,
   .isend 1 2, .recvBegin 2 1 0, .execBegin 2 2, .execEnd 2 2, .recvEnd 2,
   .isend 1 1, .recvBegin 1 1 1, .execBegin 1 4, .execEnd 1 4, .recvEnd 1,
   .isend 2 0, .recvBegin 0 2 0, .execBegin 0 3, .execEnd 0 3, .recvEnd 0] ++ round3 ++ round3

set_option maxRecDepth 32768 in
/-- the history is accepted; at its end the exit rule holds on every rank and nobody has left barrier 0 -/
example : ((Comm.run 3 (fun _ d => d) Comm.init arrDemo).map (fun s =>
    (s.d.executed, BarrierME.exitEnabled s.b 0, BarrierME.exitEnabled s.b 2, (List.range 3).map s.b.epoch,
     (Comm.step 3 (fun _ d => d) s (.exit 0)).isSome))) =
    some ([(2, 1), (2, 2), (1, 4), (0, 3)], true, true, [0, 0, 0], true) := by decide

set_option maxRecDepth 32768 in
/-- the hypotheses of `C13_array_after_barrier` about the history hold -/
example : Addressed (arrOwner arr0.len arr0.ranks) arrOp arrDemo ∧
    (∀ m ∈ arrDemo.flatMap Comm.issued, (arrOp m.1).idx < arr0.len) := by decide

set_option maxRecDepth 32768 in
/-- the induced memories: element 4 = 10 + 2 + 3 on rank 2, element 0 = 11 on rank 0, element 2 = 9 on rank 1 -/
example : (List.range 3).map (memOf (arrContainer arr0.len arr0.ranks) arrOp 3 (fun _ d => d) (arrInit arr0) arrDemo) =
    [(0, some [11, 10]), (1, some [9, 10]), (2, some [15])] := by decide

/-- the end-to-end theorem applied to the demo (every hypothesis about the history discharged by `decide`) -/
example (s : St) (hrun : Comm.run 3 (fun _ d => d) Comm.init arrDemo = some s)
    (hx : BarrierME.exitEnabled s.b 0 = true) (hne : ∀ q, q < 3 → s.b.epoch q ≤ s.b.epoch 0) :
    ∃ a', ArrayOps.run arr0 (execOps arrOp s) = some a' ∧
      (∀ q, memOf (arrContainer arr0.len arr0.ranks) arrOp 3 (fun _ d => d) (arrInit arr0) arrDemo q = (q, a'.vecs[q]?)) ∧
      ∀ i, i < arr0.len → ArrayOps.get a' i = (ArrayOps.get arr0 i).map (fun v0 =>
        (updatesOf (issuedOps arrOp arrDemo) i).foldl (fun v m => m.f i v) v0) :=
  C13_array_after_barrier_commuting arr0 (fresh_wf 5 3 10) (by decide) arrOp 3 (fun _ d => d) arrDemo s hrun
    (by decide) (by decide)
    (by
      intro x hx' y hy _ v
      have key : ∀ m ∈ issuedOps arrOp arrDemo, ∃ o : Op, o.family = some 0 ∧ m.f = o.eval := by
        intro m hm
        simp only [issuedOps, arrDemo, round3, List.flatMap_cons, List.flatMap_nil, Comm.issued, List.cons_append,
          List.nil_append, List.append_nil, List.map_cons, List.map_nil, List.mem_cons, List.not_mem_nil,
          or_false, arrOp, Op.msg] at hm
        rcases hm with rfl | rfl | rfl | rfl
        · exact ⟨.plus 2, rfl, rfl⟩
        · exact ⟨.plus 3, rfl, rfl⟩
        · exact ⟨.minus 1, rfl, rfl⟩
        · exact ⟨.inc, rfl, rfl⟩
      obtain ⟨o1, f1, e1⟩ := key x hx'
      obtain ⟨o2, f2, e2⟩ := key y hy
      rw [e1, e2]
      exact Op.eval_comm o1 o2 _ _ v (by rw [f1, f2]) (by rw [f1]; simp))
    0 (by decide) hx hne

/-- an update sent to a rank that does not own its index violates the issuing discipline -/
example : ¬ Addressed (arrOwner arr0.len arr0.ranks) arrOp [.async 0 1 1 false] := by decide

/-- a handler run on the wrong rank trips the handler's assertion: the state records it (`none`), it is not hidden -/
example : ((arrContainer 5 3).apply (arrInit arr0 1) (arrOp 1)).1 = (1, none) := by decide

end ArrayExample

end Array

/-! ## C14 bag -/

section Bag
variable {α : Type}
open BagOps

theorem getD_modify {β : Type} (L : List β) (d q : Nat) (f : β → β) (dflt : β) (hd : d < L.length) :
    (L.modify d f).getD q dflt = if q = d then f (L.getD q dflt) else L.getD q dflt := by
  simp only [List.getD_eq_getElem?_getD, List.getElem?_modify]
  by_cases h : q = d
  · subst h
    simp [List.getElem?_eq_getElem hd]
  · have : ¬ d = q := fun e => h e.symm
    simp [h, this]

/-- the sequential bag model and the per-rank container agree: `BagOps.deliverAll b E` gives on every rank the state
`Dist.execGlobal` computes with the remote lambda alone -/
theorem execGlobal_bag {b b' : Bag α} {E : List (BagOps.Msg α)} (h : deliverAll b E = some b') (r : Nat) :
    Dist.execGlobal bagContainer bagOwner (bagInit b) E r = bagInit b' r := by
  induction E generalizing b with
  | nil => simp only [deliverAll, Option.some.injEq] at h; subst h; rfl
  | cons m E ih =>
    simp only [deliverAll] at h
    cases h1 : deliver b m with
    | none => simp [h1] at h
    | some b1 =>
      simp only [h1, Option.bind_some] at h
      obtain ⟨hd, rfl⟩ := deliver_inv h1
      have := ih h
      simp only [Dist.execGlobal]
      rw [← this]
      congr 1
      funext q
      simp only [bagInit, bagContainer, bagOwner]
      rw [getD_modify _ _ _ _ _ hd]
      by_cases hq : q = m.dest <;> simp [hq]

theorem foldl_append_items (g : List α) (L : List (BagOps.Msg α)) :
    L.foldl (fun st m => st ++ m.items) g = g ++ L.flatMap (·.items) := by
  induction L generalizing g with
  | nil => simp
  | cons m L ih => simp [List.foldl_cons, ih, List.flatMap_cons, List.append_assoc]

theorem flatten_eq_flatMap_getD (L : List (List α)) :
    L.flatten = (List.range L.length).flatMap (fun q => L.getD q []) := by
  induction L with
  | nil => rfl
  | cons l L ih =>
    rw [List.length_cons, List.range_succ_eq_map, List.flatMap_cons, List.flatMap_map, List.flatten_cons, ih]
    rfl

/-- **C14 end to end** (`ygm::container::bag`).  For every number of ranks `n`, every routing function, every joint
history accepted from program start in which every message carries a bag insert `opOf uid` = (destination, items) —
`async_insert(item)` with the round-robin destination, `async_insert(item, dest)`, `async_insert(vector, dest)`; the
destination is whatever the message says — sent point-to-point to that destination, from main programs, handlers or
pre-barrier callbacks: at the FIRST return of a barrier

* the executed inserts, in execution order, are a permutation of ALL inserts issued so far and `BagOps.deliverAll`
  (the sequential model of `Props/C14.lean`) succeeds on them;
* the memory of every rank `q` induced by the history is `m_local_bag` of `q` in the result, and it is, as a multiset,
  the initial local bag plus the items of exactly the inserts addressed to `q`;
* the multiset union of the local bags is the initial content plus exactly the items inserted so far (nothing lost,
  nothing duplicated, nothing invented), and the local sizes are the initial sizes plus what was addressed there. -/
theorem C14_bag_after_barrier (b0 : Bag α) (n : Nat) (hb : b0.bags.length = n) (opOf : Nat → BagOps.Msg α)
    (nh : Nat → Nat → Nat) (ls : List Label) (s : St) (hrun : Comm.run n nh Comm.init ls = some s)
    (ha : Addressed bagOwner opOf ls)
    (r : Nat) (hr : r < n) (hx : BarrierME.exitEnabled s.b r = true) (hne : ∀ q, q < n → s.b.epoch q ≤ s.b.epoch r) :
    ∃ b', deliverAll b0 (execOps opOf s) = some b' ∧ b'.bags.length = n ∧
      (execOps opOf s).Perm (issuedOps opOf ls) ∧
      (∀ q, memOf bagContainer opOf n nh (bagInit b0) ls q = b'.bags.getD q []) ∧
      (∀ q, (memOf bagContainer opOf n nh (bagInit b0) ls q).Perm
        (b0.bags.getD q [] ++ ((issuedOps opOf ls).filter (fun m => m.dest = q)).flatMap (·.items))) ∧
      ((List.range n).flatMap (memOf bagContainer opOf n nh (bagInit b0) ls)).Perm
        (items b0 ++ (issuedOps opOf ls).flatMap (·.items)) ∧
      (items b').Perm (items b0 ++ (issuedOps opOf ls).flatMap (·.items)) ∧
      (∀ q, (memOf bagContainer opOf n nh (bagInit b0) ls q).length =
        (b0.bags.getD q []).length + recv (issuedOps opOf ls) q) := by
  have hperm := execOps_perm_issuedOps opOf n nh ls s hrun r hr hx hne
  have hdest : ∀ m ∈ execOps opOf s, m.dest < b0.bags.length := by
    intro m hm
    unfold execOps at hm
    obtain ⟨p, hp, rfl⟩ := List.mem_map.1 hm
    have h1 := executed_owned bagOwner opOf n nh ls s hrun ha p hp
    have h2 := executed_rank_lt n nh ls s hrun p hp
    unfold bagOwner at h1
    rw [hb, h1]; exact h2
  obtain ⟨b', h1⟩ := deliverAll_some b0 (execOps opOf s) hdest
  obtain ⟨_, _, e3, e4, e5, _⟩ := deliverAll_spec h1
  have hmem : ∀ q, memOf bagContainer opOf n nh (bagInit b0) ls q = b'.bags.getD q [] := by
    intro q
    unfold memOf
    rw [mem_eq_execGlobal bagContainer bagOwner opOf n nh (bagInit b0) ls s hrun ha q, execGlobal_bag h1 q]
    rfl
  have hitems : (items b').Perm (items b0 ++ (issuedOps opOf ls).flatMap (·.items)) :=
    e4.trans (List.Perm.append_left _ (hperm.flatMap_right _))
  refine ⟨b', h1, by rw [e3, hb], hperm, hmem, ?_, ?_, hitems, ?_⟩
  · intro q
    rw [state_is_fold bagContainer opOf n nh (bagInit b0) ls s hrun q,
      opsExecutedOn_eq_filter bagOwner opOf n nh ls s hrun ha q]
    show (List.foldl (fun (st : List α) (m : BagOps.Msg α) => st ++ m.items) (bagInit b0 q) _).Perm _
    rw [foldl_append_items]
    exact List.Perm.append_left _ ((hperm.filter _).flatMap_right _)
  · have : (List.range n).flatMap (memOf bagContainer opOf n nh (bagInit b0) ls) = items b' := by
      unfold items
      rw [flatten_eq_flatMap_getD, e3, hb]
      apply flatMap_congr_mem
      intro q _
      exact hmem q
    rw [this]; exact hitems
  · intro q
    rw [hmem q, e5 q, recv_perm hperm q]

/-! ### non-vacuity (C14) -/

section BagExample

private def bag0 : Bag Nat := { ranks := 3, bags := [[1], [], [2]], rr := [0, 0, 0] }

/-- which insert each message carries: `async_insert(7, 1)`, `async_insert({8, 9}, 1)`, `async_insert(5, 0)` -/
private def bagOp : Nat → BagOps.Msg Nat
  | 1 => insertTo 1 7
  | 2 => insertVec 1 [8, 9]
  | _ => insertTo 0 5

private def bround3 : List Label :=
  [.contribute 0, .contribute 1, .contribute 2, .result 0, .result 1, .result 2]

/-- rank 0 inserts 7 at rank 1, rank 2 inserts the vector {8, 9} at rank 1; the handler of the first insert (running on
rank 1 inside the barrier) inserts 5 at rank 0 -/
private def bagDemo : List Label :=
  [.async 0 1 1 false, .async 2 2 1 false, .enter 0, .enter 1, .enter 2,
   .isend 2 1, .isend 0 1, .recvBegin 1 0 0, .execBegin 1 1, .async 1 3 0 false, .execEnd 1 1, .recvEnd 1,
   .recvBegin 1 2 0, .execBegin 1 2, .execEnd 1 2, .recvEnd 1,
   .isend 1 0, .recvBegin 0 1 0, .execBegin 0 3, .execEnd 0 3, .recvEnd 0] ++ bround3 ++ bround3

set_option maxRecDepth 32768 in
/-- accepted; the exit rule holds at the end, nobody has left barrier 0; the issuing discipline holds -/
example : ((Comm.run 3 (fun _ d => d) Comm.init bagDemo).map (fun s =>
    (s.d.executed, BarrierME.exitEnabled s.b 1, (List.range 3).map s.b.epoch))) =
    some ([(1, 1), (1, 2), (0, 3)], true, [0, 0, 0]) ∧ Addressed bagOwner bagOp bagDemo := by decide

set_option maxRecDepth 32768 in
/-- the induced local bags -/
example : (List.range 3).map (memOf bagContainer bagOp 3 (fun _ d => d) (bagInit bag0) bagDemo) =
    [[1, 5], [7, 8, 9], [2]] := by decide

/-- the end-to-end theorem applied to the demo -/
example (s : St) (hrun : Comm.run 3 (fun _ d => d) Comm.init bagDemo = some s)
    (hx : BarrierME.exitEnabled s.b 1 = true) (hne : ∀ q, q < 3 → s.b.epoch q ≤ s.b.epoch 1) :
    ((List.range 3).flatMap (memOf bagContainer bagOp 3 (fun _ d => d) (bagInit bag0) bagDemo)).Perm
      ([1, 2] ++ [7, 8, 9, 5]) := by
  obtain ⟨_, _, _, _, _, _, h, _⟩ :=
    C14_bag_after_barrier bag0 3 rfl bagOp (fun _ d => d) bagDemo s hrun (by decide) 1 (by decide) hx hne
  exact h

/-- an insert delivered to a rank other than the one the message names violates the issuing discipline -/
example : ¬ Addressed bagOwner bagOp [.async 0 1 2 false] := by decide

end BagExample

end Bag

end YgmVerif.ContainersComm

/-! ## C15 counting_set over the joint messaging model -/

namespace YgmVerif.CSetComm
open YgmVerif
open YgmVerif.Barrier (upd upd_same upd_other b2n)
open YgmVerif.Cache (csetCfg Frame Phase)

/-! ### the cache of one rank: container calls in progress keep a callback registered -/

def isFall : Frame Nat → Bool
  | .fall _ _ => true
  | _ => false

/-- the flush-all loop is entered with no container call active, so its frame is the bottom of the stack -/
def fallOnlyLast : List (Frame Nat) → Bool
  | [] => true
  | [_] => true
  | f :: g :: rest => !isFall f && fallOnlyLast (g :: rest)

def hasFall (st : List (Frame Nat)) : Bool := st.any isFall

/-- callbacks the cache needs the communicator to hold for it: one if the flag says "registered", one for the
continuation of a flush-all loop in progress -/
def owed (s : Cache.St Nat) : Nat := b2n s.reg + b2n (hasFall s.stack)

/-- a container call in progress implies a registered callback or a flush-all loop in progress -/
def KInv (s : Cache.St Nat) : Prop :=
  fallOnlyLast s.stack = true ∧ (s.stack ≠ [] → s.reg = true ∨ hasFall s.stack = true)

theorem kinv_init : KInv (Cache.St.init : Cache.St Nat) := ⟨rfl, fun h => absurd rfl h⟩

theorem isFall_setPhase (f : Frame Nat) (ph : Phase Nat) : isFall (f.setPhase ph) = isFall f := by
  cases f <;> rfl

theorem insLoop_notFall (cfg : Cache.Cfg Nat) (c : Cache.CMap Nat) (k v : Nat) :
    isFall (Cache.insLoop cfg c k v).2 = false := by
  unfold Cache.insLoop Cache.enter
  split
  · split <;> rfl
  · split
    · split <;> rfl
    · rfl

theorem fallLoop_isFall (cfg : Cache.Cfg Nat) (c : Cache.CMap Nat) (i : Nat) :
    isFall (Cache.fallLoop cfg c i).2 = true := by
  unfold Cache.fallLoop
  split
  · rfl
  · split <;> rfl

theorem fol_replace {f f' : Frame Nat} (rest : List (Frame Nat)) (h : isFall f' = isFall f) :
    fallOnlyLast (f' :: rest) = fallOnlyLast (f :: rest) := by
  cases rest with
  | nil => rfl
  | cons g rest => simp [fallOnlyLast, h]

theorem fol_cons_nonfall {f : Frame Nat} (st : List (Frame Nat)) (h : isFall f = false) :
    fallOnlyLast (f :: st) = fallOnlyLast st := by
  cases st with
  | nil => rfl
  | cons g rest => simp [fallOnlyLast, h]

theorem fol_cons_fall {f : Frame Nat} {st : List (Frame Nat)} (h : isFall f = true)
    (hf : fallOnlyLast (f :: st) = true) : st = [] := by
  cases st with
  | nil => rfl
  | cons g rest => simp [fallOnlyLast, h] at hf

theorem fol_tail {f : Frame Nat} {st : List (Frame Nat)} (hf : fallOnlyLast (f :: st) = true) :
    fallOnlyLast st = true := by
  cases st with
  | nil => rfl
  | cons g rest => simp [fallOnlyLast] at hf; exact hf.2

theorem hasFall_cons (f : Frame Nat) (st : List (Frame Nat)) : hasFall (f :: st) = (isFall f || hasFall st) := by
  simp [hasFall]

/-- what one cache step does to the flag and to the frame kinds (counting_set configuration) -/
theorem step_kinv (ns : Nat) (s s' : Cache.St Nat) (lab : Cache.Label Nat) (hk : KInv s)
    (h : Cache.step (csetCfg ns) s lab = some s') :
    KInv s' ∧
    (match lab with
     | .ins _ _ => s'.reg = true ∧ hasFall s'.stack = hasFall s.stack
     | .fb => s.reg = true ∧ hasFall s.stack = false ∧ s'.reg = false ∧ hasFall s'.stack = true
     | .fe => s'.reg = s.reg ∧ hasFall s.stack = true ∧ hasFall s'.stack = false
     | _ => s'.reg = s.reg ∧ hasFall s'.stack = hasFall s.stack) := by
  obtain ⟨hf, hj⟩ := hk
  cases lab with
  | ins k v =>
    simp only [Cache.step] at h
    split at h
    · have : (csetCfg ns).isOwner k = false := rfl
      simp only [this, Bool.false_eq_true, if_false] at h
      have hnf := insLoop_notFall (csetCfg ns) s.cache k v
      cases hil : Cache.insLoop (csetCfg ns) s.cache k v with
      | mk c f =>
        rw [hil] at h hnf
        simp only [Option.some.injEq] at h
        subst h
        simp only at hnf ⊢
        refine ⟨⟨by rw [fol_cons_nonfall _ hnf]; exact hf, fun _ => Or.inl rfl⟩, trivial, ?_⟩
        rw [hasFall_cons, hnf]; rfl
    · cases h
  | pack =>
    simp only [Cache.step] at h
    split at h
    · rename_i f rest hst
      split at h
      · simp only [Option.some.injEq] at h
        subst h
        simp only [hst] at hf hj ⊢
        have e := isFall_setPhase f Phase.sent
        refine ⟨⟨by rw [fol_replace rest e]; exact hf, fun _ => ?_⟩, trivial, ?_⟩
        · have := hj (by simp)
          rw [hasFall_cons] at this ⊢
          rw [e]; exact this
        · rw [hasFall_cons, hasFall_cons, e]
      · cases h
    · cases h
  | ret =>
    simp only [Cache.step] at h
    split at h
    · rename_i k v rest hst
      have hnf := insLoop_notFall (csetCfg ns) s.cache k v
      cases hil : Cache.insLoop (csetCfg ns) s.cache k v with
      | mk c f =>
        rw [hil] at h hnf
        simp only [Option.some.injEq] at h
        subst h
        simp only [hst] at hf hj ⊢
        simp only at hnf
        have e : isFall f = isFall (Frame.ins k v Phase.sent) := by rw [hnf]; rfl
        refine ⟨⟨by rw [fol_replace rest e]; exact hf, fun _ => ?_⟩, trivial, ?_⟩
        · have := hj (by simp)
          rw [hasFall_cons] at this ⊢
          rw [e]; exact this
        · rw [hasFall_cons, hasFall_cons, e]
    · rename_i rest hst
      simp only [Option.some.injEq] at h
      subst h
      simp only [hst] at hf hj ⊢
      have e : isFall (Frame.tail Phase.fin : Frame Nat) = isFall (Frame.tail Phase.sent) := rfl
      refine ⟨⟨by rw [fol_replace rest e]; exact hf, fun _ => ?_⟩, trivial, ?_⟩
      · have := hj (by simp)
        rw [hasFall_cons] at this ⊢
        rw [e]; exact this
      · rw [hasFall_cons, hasFall_cons, e]
    · rename_i i rest hst
      have hfl := fallLoop_isFall (csetCfg ns) s.cache i
      cases hil : Cache.fallLoop (csetCfg ns) s.cache i with
      | mk c f =>
        rw [hil] at h hfl
        simp only [Option.some.injEq] at h
        subst h
        simp only [hst] at hf hj ⊢
        simp only at hfl
        have e : isFall f = isFall (Frame.fall i Phase.sent) := by rw [hfl]; rfl
        refine ⟨⟨by rw [fol_replace rest e]; exact hf, fun _ => ?_⟩, trivial, ?_⟩
        · have := hj (by simp)
          rw [hasFall_cons] at this ⊢
          rw [e]; exact this
        · rw [hasFall_cons, hasFall_cons, e]
    · cases h
  | done =>
    simp only [Cache.step] at h
    split at h
    · rename_i rest hst
      simp only [Option.some.injEq] at h
      subst h
      simp only [hst] at hf hj ⊢
      refine ⟨⟨fol_tail hf, fun _ => ?_⟩, trivial, ?_⟩
      · have := hj (by simp)
        rw [hasFall_cons] at this
        simpa [isFall] using this
      · rw [hasFall_cons]; rfl
    · cases h
  | fb =>
    simp only [Cache.step] at h
    split at h
    · rename_i hc
      have hfl := fallLoop_isFall (csetCfg ns) s.cache 0
      cases hil : Cache.fallLoop (csetCfg ns) s.cache 0 with
      | mk c f =>
        rw [hil] at h hfl
        simp only [Option.some.injEq] at h
        subst h
        simp only at hfl ⊢
        have hemp : s.stack = [] := by
          cases hst : s.stack with
          | nil => rfl
          | cons a b => rw [hst] at hc; simp at hc
        refine ⟨⟨rfl, fun _ => Or.inr ?_⟩, hc.2, by rw [hemp]; rfl, trivial, ?_⟩
        · rw [hasFall_cons, hfl]; rfl
        · rw [hasFall_cons, hfl]; rfl
    · cases h
  | fe =>
    simp only [Cache.step] at h
    split at h
    · rename_i i rest hst
      simp only [Option.some.injEq] at h
      subst h
      simp only [hst] at hf hj ⊢
      have hr : rest = [] := fol_cons_fall (f := Frame.fall i Phase.fin) rfl hf
      subst hr
      exact ⟨⟨rfl, fun h => absurd rfl h⟩, trivial, rfl, rfl⟩
    · cases h
  | bar =>
    simp only [Cache.step] at h
    split at h
    · simp only [Option.some.injEq] at h
      subst h
      exact ⟨⟨hf, hj⟩, rfl, rfl⟩
    · cases h

/-! ### the component histories are recoverable -/

theorem step_some {P : Par} {S S' : St} {l : Label} (h : step P S l = some S') :
    guard P S l = true ∧ Comm.run P.n P.nh S.c (projC P l) = some S'.c ∧ kStep P S l = some S'.k := by
  unfold step at h
  split at h
  · rename_i hg
    split at h
    · rename_i c' k' hc hk
      cases h
      exact ⟨hg, hc, hk⟩
    · cases h
  · cases h

theorem kStep_cases {P : Par} {S : St} {l : Label} {k' : Nat → Cache.St Nat} (h : kStep P S l = some k') :
    (projK l = none ∧ k' = S.k) ∨
    ∃ q lab s', projK l = some (q, lab) ∧ Cache.step (csetCfg P.nslots) (S.k q) lab = some s' ∧ k' = upd S.k q s' := by
  unfold kStep at h
  split at h
  · rename_i hp
    exact Or.inl ⟨hp, (Option.some.inj h).symm⟩
  · rename_i q lab hp
    cases hs : Cache.step (csetCfg P.nslots) (S.k q) lab with
    | none => rw [hs] at h; cases h
    | some s' =>
      rw [hs] at h
      exact Or.inr ⟨q, lab, s', hp, hs, (Option.some.inj h).symm⟩

/-- **a joint history is a history of the joint messaging model `Comm`** (so C01, C02ME, C02C01, DistComm apply) -/
theorem run_projC {P : Par} {S S' : St} (jls : List Label) (h : run P S jls = some S') :
    Comm.run P.n P.nh S.c (jls.flatMap (projC P)) = some S'.c := by
  induction jls generalizing S with
  | nil => simp only [run] at h; cases h; rfl
  | cons l jls ih =>
    simp only [run] at h
    cases hst : step P S l with
    | none => rw [hst] at h; cases h
    | some S1 =>
      rw [hst] at h
      rw [List.flatMap_cons]
      exact Comm.run_append _ _ (step_some hst).2.1 (ih h)

theorem projR_cons (r : Nat) (l : Label) (jls : List Label) :
    projR r (l :: jls) = (match projK l with
      | some (q, lab) => if q = r then [lab] else []
      | none => []) ++ projR r jls := by
  unfold projR
  rw [List.filterMap_cons]
  cases projK l with
  | none => rfl
  | some p =>
    obtain ⟨q, lab⟩ := p
    by_cases hq : q = r <;> simp [hq]

/-- **the history of every rank is a history of the count-cache model `Cache`** (so the C15 theorems apply) -/
theorem run_projK {P : Par} {S S' : St} (jls : List Label) (h : run P S jls = some S') (r : Nat) :
    Cache.run (csetCfg P.nslots) (S.k r) (projR r jls) = some (S'.k r) := by
  induction jls generalizing S with
  | nil => simp only [run] at h; cases h; rfl
  | cons l jls ih =>
    simp only [run] at h
    cases hst : step P S l with
    | none => rw [hst] at h; cases h
    | some S1 =>
      rw [hst] at h
      have := ih h
      rw [projR_cons]
      rcases kStep_cases (step_some hst).2.2 with ⟨hp, hk⟩ | ⟨q, lab, s', hp, hs, hk⟩
      · rw [hp]
        rw [hk] at this
        simpa using this
      · rw [hp]
        by_cases hq : q = r
        · subst hq
          rw [hk, upd_same] at this
          simp only [if_true, List.singleton_append, Cache.run, hs]
          exact this
        · rw [hk, upd_other _ _ _ _ (fun e => hq e.symm)] at this
          simpa [hq] using this

/-! ### what the `Comm` side of a cache label does to the callback counter -/

theorem comm_run_single {n : Nat} {nh : Nat → Nat → Nat} {c c' : Comm.St} {l : Comm.Label}
    (h : Comm.run n nh c [l] = some c') : Comm.step n nh c l = some c' := by
  simp only [Comm.run] at h
  cases hs : Comm.step n nh c l with
  | none => rw [hs] at h; cases h
  | some c1 => rw [hs] at h; simpa using h

theorem comm_cbs_allowed {n : Nat} {nh : Nat → Nat → Nat} {c c' : Comm.St} {l : Comm.Label}
    (ha : allowed l = true) (h : Comm.step n nh c l = some c') : c'.b.cbs = c.b.cbs := by
  have hB := (Comm.step_some h).2.2.1
  cases l with
  | async r uid dest direct => cases ha
  | regcb r => cases ha
  | runcb r msgs j => cases ha
  | isend r hop => simp only [Comm.projB, BarrierME.run] at hB; rw [← Option.some.inj hB]
  | recvBegin r src seq => simp only [Comm.projB, BarrierME.run] at hB; rw [← Option.some.inj hB]
  | fwd r uid => simp only [Comm.projB, BarrierME.run] at hB; rw [← Option.some.inj hB]
  | recvEnd r => simp only [Comm.projB, BarrierME.run] at hB; rw [← Option.some.inj hB]
  | execBegin r uid =>
    simp only [Comm.projB, Comm.bRun_single, BarrierME.step] at hB
    split at hB
    · rw [← Option.some.inj hB]
    · cases hB
  | execEnd r uid =>
    simp only [Comm.projB, Comm.bRun_single, BarrierME.step] at hB
    split at hB
    · rw [← Option.some.inj hB]
    · cases hB
  | enter r =>
    simp only [Comm.projB, Comm.bRun_single, BarrierME.step] at hB
    split at hB
    · rw [← Option.some.inj hB]
    · cases hB
  | contribute r =>
    simp only [Comm.projB, Comm.bRun_single, BarrierME.step] at hB
    split at hB
    · rw [← Option.some.inj hB]
    · cases hB
  | result r =>
    simp only [Comm.projB, Comm.bRun_single, BarrierME.step] at hB
    split at hB
    · rw [← Option.some.inj hB]
    · cases hB
  | exit r =>
    simp only [Comm.projB, Comm.bRun_single, BarrierME.step] at hB
    split at hB
    · rw [← Option.some.inj hB]
    · cases hB

theorem comm_cbs_async {n : Nat} {nh : Nat → Nat → Nat} {c c' : Comm.St} {r uid dest : Nat} {direct : Bool}
    (h : Comm.step n nh c (.async r uid dest direct) = some c') : c'.b.cbs = c.b.cbs := by
  have hB := (Comm.step_some h).2.2.1
  simp only [Comm.projB, Comm.bRun_single, BarrierME.step] at hB
  split at hB
  · rw [← Option.some.inj hB]
  · cases hB

theorem comm_cbs_regcb {n : Nat} {nh : Nat → Nat → Nat} {c c' : Comm.St} {r : Nat}
    (h : Comm.step n nh c (.regcb r) = some c') : c'.b.cbs = upd c.b.cbs r (c.b.cbs r + 1) := by
  have hB := (Comm.step_some h).2.2.1
  simp only [Comm.projB, Comm.bRun_single, BarrierME.step] at hB
  split at hB
  · rw [← Option.some.inj hB]
  · cases hB

theorem comm_cbs_runcb {n : Nat} {nh : Nat → Nat → Nat} {c c' : Comm.St} {r j : Nat} {msgs : List Comm.Msg}
    (h : Comm.step n nh c (.runcb r msgs j) = some c') :
    0 < c.b.cbs r ∧ c'.b.cbs = upd c.b.cbs r (c.b.cbs r - 1 + j) := by
  have hB := (Comm.step_some h).2.2.1
  simp only [Comm.projB, Comm.bRun_single, BarrierME.step] at hB
  split at hB
  · rename_i hc
    rw [← Option.some.inj hB]
    exact ⟨hc.2.1, rfl⟩
  · cases hB

/-! ### the linking invariant: the communicator holds a callback for every cache that needs one -/

def JInv (S : St) : Prop := ∀ q, KInv (S.k q) ∧ owed (S.k q) ≤ S.c.b.cbs q

theorem jinv_init : JInv init := fun _ => ⟨kinv_init, Nat.le_refl _⟩

theorem b2n_le_one (b : Bool) : b2n b ≤ 1 := by cases b <;> decide

theorem step_jinv {P : Par} {S S' : St} {l : Label} (hi : JInv S) (h : step P S l = some S') : JInv S' := by
  obtain ⟨hg, hc, hk⟩ := step_some h
  rcases kStep_cases hk with ⟨hp, hk'⟩ | ⟨q, lab, s', hp, hs, hk'⟩
  · -- a `Comm` label alone
    cases l with
    | comm l0 =>
      have := comm_cbs_allowed hg (comm_run_single hc)
      intro q
      rw [hk', this]; exact hi q
    | _ => cases hp
  · obtain ⟨hkq, hrel⟩ := step_kinv P.nslots (S.k q) s' lab (hi q).1 hs
    have hoq := (hi q).2
    -- other ranks: cache untouched, counter untouched or only that of `q` changed
    have other : ∀ x, x ≠ q → S'.k x = S.k x := fun x hx => by rw [hk', upd_other _ _ _ _ hx]
    have same : S'.k q = s' := by rw [hk', upd_same]
    cases l with
    | comm l0 => cases hp
    | ins r k first =>
      simp only [projK, Option.some.injEq, Prod.mk.injEq] at hp
      obtain ⟨rfl, rfl⟩ := hp
      simp only at hrel
      simp only [guard, Bool.and_eq_true, decide_eq_true_eq, beq_iff_eq] at hg
      cases hreg : (S.k r).reg with
      | true =>
        have hf : first = false := by rw [hg.2, hreg]; rfl
        subst hf
        simp only [projC, Bool.false_eq_true, if_false, Comm.run, Option.some.injEq] at hc
        intro x
        by_cases hx : x = r
        · subst hx
          rw [same, ← hc]
          refine ⟨hkq, ?_⟩
          unfold owed at hoq ⊢
          rw [hrel.1, hrel.2]; rw [hreg] at hoq; exact hoq
        · rw [other x hx, ← hc]; exact hi x
      | false =>
        have hf : first = true := by rw [hg.2, hreg]; rfl
        subst hf
        simp only [projC, if_true] at hc
        have hcb := comm_cbs_regcb (comm_run_single hc)
        intro x
        by_cases hx : x = r
        · subst hx
          rw [same, hcb, upd_same]
          refine ⟨hkq, ?_⟩
          unfold owed at hoq ⊢
          rw [hrel.1, hrel.2]; rw [hreg] at hoq
          simp [b2n] at hoq ⊢
          omega
        · rw [other x hx, hcb, upd_other _ _ _ _ hx]; exact hi x
    | pack r uid =>
      simp only [projK, Option.some.injEq, Prod.mk.injEq] at hp
      obtain ⟨rfl, rfl⟩ := hp
      simp only at hrel
      have hcb := comm_cbs_async (comm_run_single hc)
      intro x
      by_cases hx : x = r
      · subst hx
        rw [same, hcb]
        refine ⟨hkq, ?_⟩
        unfold owed at hoq ⊢
        rw [hrel.1, hrel.2]; exact hoq
      · rw [other x hx, hcb]; exact hi x
    | cbpack r uid =>
      simp only [projK, Option.some.injEq, Prod.mk.injEq] at hp
      obtain ⟨rfl, rfl⟩ := hp
      simp only at hrel
      obtain ⟨hpos, hcb⟩ := comm_cbs_runcb (comm_run_single hc)
      intro x
      by_cases hx : x = r
      · subst hx
        rw [same, hcb, upd_same]
        refine ⟨hkq, ?_⟩
        unfold owed at hoq ⊢
        rw [hrel.1, hrel.2]; omega
      · rw [other x hx, hcb, upd_other _ _ _ _ hx]; exact hi x
    | ret r =>
      simp only [projK, Option.some.injEq, Prod.mk.injEq] at hp
      obtain ⟨rfl, rfl⟩ := hp
      simp only at hrel
      simp only [projC, Comm.run, Option.some.injEq] at hc
      intro x
      by_cases hx : x = r
      · subst hx
        rw [same, ← hc]
        refine ⟨hkq, ?_⟩
        unfold owed at hoq ⊢
        rw [hrel.1, hrel.2]; exact hoq
      · rw [other x hx, ← hc]; exact hi x
    | done r =>
      simp only [projK, Option.some.injEq, Prod.mk.injEq] at hp
      obtain ⟨rfl, rfl⟩ := hp
      simp only at hrel
      simp only [projC, Comm.run, Option.some.injEq] at hc
      intro x
      by_cases hx : x = r
      · subst hx
        rw [same, ← hc]
        refine ⟨hkq, ?_⟩
        unfold owed at hoq ⊢
        rw [hrel.1, hrel.2]; exact hoq
      · rw [other x hx, ← hc]; exact hi x
    | fb r =>
      simp only [projK, Option.some.injEq, Prod.mk.injEq] at hp
      obtain ⟨rfl, rfl⟩ := hp
      simp only at hrel
      obtain ⟨hpos, hcb⟩ := comm_cbs_runcb (comm_run_single hc)
      intro x
      by_cases hx : x = r
      · subst hx
        rw [same, hcb, upd_same]
        refine ⟨hkq, ?_⟩
        unfold owed at hoq ⊢
        rw [hrel.2.2.1, hrel.2.2.2]; rw [hrel.1, hrel.2.1] at hoq
        simp [b2n] at hoq ⊢
        first | done | omega
      · rw [other x hx, hcb, upd_other _ _ _ _ hx]; exact hi x
    | fe r =>
      simp only [projK, Option.some.injEq, Prod.mk.injEq] at hp
      obtain ⟨rfl, rfl⟩ := hp
      simp only at hrel
      obtain ⟨hpos, hcb⟩ := comm_cbs_runcb (comm_run_single hc)
      intro x
      by_cases hx : x = r
      · subst hx
        rw [same, hcb, upd_same]
        refine ⟨hkq, ?_⟩
        unfold owed at hoq ⊢
        rw [hrel.1, hrel.2.2]; rw [hrel.2.1] at hoq
        simp [b2n] at hoq ⊢
        omega
      · rw [other x hx, hcb, upd_other _ _ _ _ hx]; exact hi x

theorem run_jinv {P : Par} {S S' : St} (jls : List Label) (hi : JInv S) (h : run P S jls = some S') : JInv S' := by
  induction jls generalizing S with
  | nil => simp only [run] at h; cases h; exact hi
  | cons l jls ih =>
    simp only [run] at h
    cases hst : step P S l with
    | none => rw [hst] at h; cases h
    | some S1 => rw [hst] at h; exact ih (step_jinv hi hst) h

/-! ### what the history issued, rank by rank -/

theorem run_ranks {P : Par} {S S' : St} (jls : List Label) (h : run P S jls = some S') :
    (∀ p ∈ insList jls, p.1 < P.n) ∧ (∀ p ∈ sentList jls, p.1 < P.n) := by
  induction jls generalizing S with
  | nil => exact ⟨fun p hp => (List.not_mem_nil hp).elim, fun p hp => (List.not_mem_nil hp).elim⟩
  | cons l jls ih =>
    simp only [run] at h
    cases hst : step P S l with
    | none => rw [hst] at h; cases h
    | some S1 =>
      rw [hst] at h
      obtain ⟨i1, i2⟩ := ih h
      have hg := (step_some hst).1
      unfold insList sentList at *
      cases l <;> simp only [List.filterMap_cons, List.mem_cons] <;>
        simp only [guard, Bool.and_eq_true, decide_eq_true_eq] at hg
      all_goals first
        | exact ⟨i1, i2⟩
        | exact ⟨fun p hp => by rcases hp with rfl | hp; exact hg.1; exact i1 p hp, i2⟩
        | exact ⟨i1, fun p hp => by rcases hp with rfl | hp; exact hg.1; exact i2 p hp⟩
        | exact ⟨i1, fun p hp => by rcases hp with rfl | hp; exact hg.1.1; exact i2 p hp⟩

/-- **the messages emitted by the caches are the asyncs of `Comm`**: the messages the joint history issues in `Comm` are
exactly the packed messages, each addressed point-to-point to the owner of its key -/
theorem issued_projC {P : Par} {S S' : St} (jls : List Label) (h : run P S jls = some S') :
    (jls.flatMap (projC P)).flatMap Comm.issued =
      (sentList jls).map (fun p => (p.2, P.owner (P.opOf p.2).key, false)) := by
  induction jls generalizing S with
  | nil => rfl
  | cons l jls ih =>
    simp only [run] at h
    cases hst : step P S l with
    | none => rw [hst] at h; cases h
    | some S1 =>
      rw [hst] at h
      have := ih h
      have hg := (step_some hst).1
      rw [List.flatMap_cons, List.flatMap_append, this]
      unfold sentList
      cases l with
      | comm l0 =>
        simp only [guard] at hg
        cases l0 <;> first | rfl | cases hg
      | ins r k first => cases first <;> rfl
      | pack r uid => rfl
      | cbpack r uid => rfl
      | ret r => rfl
      | done r => rfl
      | fb r => rfl
      | fe r => rfl

theorem emitted_cons {s s' : Cache.St Nat} {cfg : Cache.Cfg Nat} {lab : Cache.Label Nat} (ls : List (Cache.Label Nat))
    (hs : Cache.step cfg s lab = some s') :
    Cache.emitted cfg s (lab :: ls) = (match lab, Cache.pending s with
      | .pack, some m => [m]
      | _, _ => []) ++ Cache.emitted cfg s' ls := by
  simp only [Cache.emitted, hs]
  split <;> simp_all

/-- per rank, the messages `Cache.emitted` lists (what `pack` serialised, oldest first) are the messages `opOf uid` of
the `Comm.async` / `Comm.runcb` labels of that rank, in order -/
theorem emitted_projR {P : Par} {S S' : St} (jls : List Label) (h : run P S jls = some S') (r : Nat) :
    Cache.emitted (csetCfg P.nslots) (S.k r) (projR r jls) =
      ((sentList jls).filter (fun p => p.1 == r)).map (fun p => P.opOf p.2) := by
  induction jls generalizing S with
  | nil => rfl
  | cons l jls ih =>
    simp only [run] at h
    cases hst : step P S l with
    | none => rw [hst] at h; cases h
    | some S1 =>
      rw [hst] at h
      have ih' := ih h
      obtain ⟨hg, _, hk⟩ := step_some hst
      rw [projR_cons]
      rcases kStep_cases hk with ⟨hp, hk'⟩ | ⟨q, lab, s', hp, hs, hk'⟩
      · rw [hp]
        rw [hk'] at ih'
        cases l with
        | comm l0 => simpa [sentList] using ih'
        | _ => cases hp
      · rw [hp]
        by_cases hq : q = r
        · subst hq
          rw [hk', upd_same] at ih'
          simp only [if_true, List.singleton_append]
          rw [emitted_cons _ hs, ih']
          cases l with
          | comm l0 => cases hp
          | ins r' k first =>
            simp only [projK, Option.some.injEq, Prod.mk.injEq] at hp
            obtain ⟨rfl, rfl⟩ := hp
            simp [sentList]
          | pack r' uid =>
            simp only [projK, Option.some.injEq, Prod.mk.injEq] at hp
            obtain ⟨rfl, rfl⟩ := hp
            simp only [guard, Bool.and_eq_true, decide_eq_true_eq, beq_iff_eq] at hg
            simp [sentList, hg.2]
          | cbpack r' uid =>
            simp only [projK, Option.some.injEq, Prod.mk.injEq] at hp
            obtain ⟨rfl, rfl⟩ := hp
            simp only [guard, Bool.and_eq_true, decide_eq_true_eq, beq_iff_eq] at hg
            simp [sentList, hg.1.2]
          | ret r' =>
            simp only [projK, Option.some.injEq, Prod.mk.injEq] at hp
            obtain ⟨rfl, rfl⟩ := hp
            simp [sentList]
          | done r' =>
            simp only [projK, Option.some.injEq, Prod.mk.injEq] at hp
            obtain ⟨rfl, rfl⟩ := hp
            simp [sentList]
          | fb r' =>
            simp only [projK, Option.some.injEq, Prod.mk.injEq] at hp
            obtain ⟨rfl, rfl⟩ := hp
            simp [sentList]
          | fe r' =>
            simp only [projK, Option.some.injEq, Prod.mk.injEq] at hp
            obtain ⟨rfl, rfl⟩ := hp
            simp [sentList]
        · rw [hk', upd_other _ _ _ _ (fun e => hq e.symm)] at ih'
          simp only [hq, if_false, List.nil_append]
          rw [ih']
          cases l with
          | comm l0 => cases hp
          | ins r' k first => simp [sentList]
          | pack r' uid =>
            simp only [projK, Option.some.injEq, Prod.mk.injEq] at hp
            obtain ⟨rfl, rfl⟩ := hp
            simp [sentList, hq]
          | cbpack r' uid =>
            simp only [projK, Option.some.injEq, Prod.mk.injEq] at hp
            obtain ⟨rfl, rfl⟩ := hp
            simp [sentList, hq]
          | ret r' => simp [sentList]
          | done r' => simp [sentList]
          | fb r' => simp [sentList]
          | fe r' => simp [sentList]

/-- per rank, the contributions `Cache.received` lists are the `async_insert` calls of that rank, each with count 1 -/
theorem received_projR (jls : List Label) (r : Nat) :
    Cache.received (projR r jls) = ((insList jls).filter (fun p => p.1 == r)).map (fun p => (p.2, 1)) := by
  induction jls with
  | nil => rfl
  | cons l jls ih =>
    rw [projR_cons]
    cases l with
    | comm l0 => simpa [insList, projK] using ih
    | ins q k first =>
      by_cases hq : q = r
      · subst hq
        simp only [projK, if_true, List.singleton_append, Cache.received, ih]
        simp [insList]
      · simp only [projK, hq, if_false, List.nil_append, ih]
        simp [insList, hq]
    | pack q uid =>
      by_cases hq : q = r <;> simp only [projK, hq, if_true, if_false, List.singleton_append, List.nil_append,
        Cache.received, ih] <;> simp [insList]
    | cbpack q uid =>
      by_cases hq : q = r <;> simp only [projK, hq, if_true, if_false, List.singleton_append, List.nil_append,
        Cache.received, ih] <;> simp [insList]
    | ret q =>
      by_cases hq : q = r <;> simp only [projK, hq, if_true, if_false, List.singleton_append, List.nil_append,
        Cache.received, ih] <;> simp [insList]
    | done q =>
      by_cases hq : q = r <;> simp only [projK, hq, if_true, if_false, List.singleton_append, List.nil_append,
        Cache.received, ih] <;> simp [insList]
    | fb q =>
      by_cases hq : q = r <;> simp only [projK, hq, if_true, if_false, List.singleton_append, List.nil_append,
        Cache.received, ih] <;> simp [insList]
    | fe q =>
      by_cases hq : q = r <;> simp only [projK, hq, if_true, if_false, List.singleton_append, List.nil_append,
        Cache.received, ih] <;> simp [insList]

/-! ### the owner side -/

theorem cnt_foldl (L : List (Cache.Msg Nat)) (g : Nat → Nat) (k : Nat) :
    (L.foldl (fun st m => (cntContainer.apply st m).1) g) k = g k + Cache.ownerCount L k := by
  induction L generalizing g with
  | nil => simp [Cache.ownerCount]
  | cons m L ih =>
    rw [List.foldl_cons, ih]
    unfold Cache.ownerCount
    rw [Cache.msgValsOf_cons]
    by_cases hm : m.key = k
    · simp [cntContainer, hm]; omega
    · simp [cntContainer, hm]

theorem ownerCount_perm {l₁ l₂ : List (Cache.Msg Nat)} (h : l₁.Perm l₂) (k : Nat) :
    Cache.ownerCount l₁ k = Cache.ownerCount l₂ k :=
  Cache.perm_sum ((h.filter _).map _)

/-- at the first return of a barrier every cache is quiet: no container call active, no callback registered, nothing
cached — and the `Cache` model's own label `bar` ("barrier() returns on this rank") is enabled -/
theorem caches_quiet_at_exit (P : Par) (hn : 0 < P.nslots) (jls : List Label) (S : St)
    (hrun : run P init jls = some S) (r : Nat) (hr : r < P.n)
    (hx : BarrierME.exitEnabled S.c.b r = true) (hne : ∀ q, q < P.n → S.c.b.epoch q ≤ S.c.b.epoch r)
    (q : Nat) (hq : q < P.n) :
    (S.k q).stack = [] ∧ (S.k q).reg = false ∧ Cache.quiet (S.k q) ∧
      Cache.step (csetCfg P.nslots) (S.k q) .bar = some (S.k q) := by
  have hC : Comm.run P.n P.nh Comm.init (jls.flatMap (projC P)) = some S.c := run_projC jls hrun
  have hdead := BarrierME.C02ME_exit_implies_quiescent P.n S.c.b _ (Comm.run_projB _ hC) r hr hx _ rfl hne
  have hcb : S.c.b.cbs q = 0 := (hdead.2 q hq).2.2.2
  obtain ⟨⟨_, hj⟩, how⟩ := run_jinv jls jinv_init hrun q
  rw [hcb] at how
  unfold owed at how
  have hreg : (S.k q).reg = false := by
    cases h : (S.k q).reg with
    | false => rfl
    | true => rw [h] at how; simp [b2n] at how
  have hfall : hasFall (S.k q).stack = false := by
    cases h : hasFall (S.k q).stack with
    | false => rfl
    | true => rw [h] at how; simp [b2n] at how
  have hst : (S.k q).stack = [] := by
    cases h : (S.k q).stack with
    | nil => rfl
    | cons a b =>
      rcases hj (by rw [h]; simp) with h1 | h1
      · rw [hreg] at h1; cases h1
      · rw [hfall] at h1; cases h1
  have hK : Cache.run (csetCfg P.nslots) Cache.St.init (projR q jls) = some (S.k q) := run_projK jls hrun q
  have hquiet := (Cache.barrier_leaves_nothing_cached P.nslots hn (projR q jls) (S.k q) hK hst hreg 0).1
  refine ⟨hst, hreg, hquiet, ?_⟩
  simp [Cache.step, hst, hreg]

/-- **C15 end to end** (`ygm::container::counting_set`).  For every number of ranks, every routing function, every cache
size, every key partitioner and every history of the PRODUCT of the joint messaging model with one count cache per
rank — `async_insert` from main programs and from handlers at any nesting depth, evictions, overflow flushes, the
pre-barrier flush-all callback with handlers running during its sends, any interleaving of all ranks, any number of
barriers —: at the FIRST return of a barrier, for every key `k`,

* `count(k)` on `owner k` — the value the owner's map holds in the memory induced by the history (changed only by the
  handlers `execEnd`, each adding the count its message carries) — is exactly the NUMBER of `async_insert(k)` calls
  issued so far on all ranks from any context;
* no other rank holds a count for `k`;
* the handlers executed so far are a permutation of all packed messages (none in a buffer, on the wire or cached). -/
theorem C15_count_after_barrier (P : Par) (hn : 0 < P.nslots) (jls : List Label) (S : St)
    (hrun : run P init jls = some S) (r : Nat) (hr : r < P.n)
    (hx : BarrierME.exitEnabled S.c.b r = true) (hne : ∀ q, q < P.n → S.c.b.epoch q ≤ S.c.b.epoch r) (k : Nat) :
    DistComm.memOf cntContainer P.opOf P.n P.nh (fun _ _ => 0) (jls.flatMap (projC P)) (P.owner k) k
      = ((insList jls).filter (fun p => p.2 = k)).length ∧
    (∀ q, q ≠ P.owner k →
      DistComm.memOf cntContainer P.opOf P.n P.nh (fun _ _ => 0) (jls.flatMap (projC P)) q k = 0) ∧
    (DistComm.execOps P.opOf S.c).Perm ((sentList jls).map (fun p => P.opOf p.2)) := by
  have hC : Comm.run P.n P.nh Comm.init (jls.flatMap (projC P)) = some S.c := run_projC jls hrun
  have hiss := issued_projC jls hrun
  have ha : DistComm.Addressed (fun m => P.owner m.key) P.opOf (jls.flatMap (projC P)) := by
    intro m hm
    rw [hiss] at hm
    obtain ⟨p, _, rfl⟩ := List.mem_map.1 hm
    exact ⟨rfl, rfl⟩
  have hperm := DistComm.execOps_perm_issuedOps P.opOf P.n P.nh _ S.c hC r hr hx hne
  have hio : DistComm.issuedOps P.opOf (jls.flatMap (projC P)) = (sentList jls).map (fun p => P.opOf p.2) := by
    unfold DistComm.issuedOps
    rw [hiss, List.map_map]; rfl
  rw [hio] at hperm
  -- the induced memory of a rank, at key k
  have hmem : ∀ q, DistComm.memOf cntContainer P.opOf P.n P.nh (fun _ _ => 0) (jls.flatMap (projC P)) q k =
      Cache.ownerCount ((DistComm.execOps P.opOf S.c).filter (fun o => P.owner o.key = q)) k := by
    intro q
    unfold DistComm.memOf
    rw [DistComm.mem_eq_execGlobal cntContainer (fun m => P.owner m.key) P.opOf P.n P.nh (fun _ _ => 0) _ S.c hC ha q,
      Dist.execGlobal_rank, Dist.run_state_eq_foldl, cnt_foldl]
    simp
  -- the packed messages, rank by rank, are what the caches emitted; every cache is quiet
  let runs := (List.range P.n).map (fun q => projR q jls)
  have hAQ : Cache.AllQuiet P.nslots runs := by
    intro ls hls
    obtain ⟨q, hq, rfl⟩ := List.mem_map.1 hls
    have hq' := List.mem_range.1 hq
    exact ⟨S.k q, run_projK jls hrun q, (caches_quiet_at_exit P hn jls S hrun r hr hx hne q hq').2.2.1⟩
  have hones : ∀ ls ∈ runs, Cache.AllOnes ls := by
    intro ls hls p hp
    obtain ⟨q, _, rfl⟩ := List.mem_map.1 hls
    rw [received_projR] at hp
    obtain ⟨x, _, rfl⟩ := List.mem_map.1 hp
    rfl
  have hcount := Cache.count_eq_number_of_inserts P.nslots runs hAQ hones k
  obtain ⟨hri, hrs⟩ := run_ranks jls hrun
  have hmsgs : ((sentList jls).map (fun p => P.opOf p.2)).Perm (Cache.allMsgs P.nslots runs) := by
    have hp := DistComm.perm_flatMap_filter (fun p : Nat × Nat => p.1) (List.range P.n) (sentList jls)
      List.nodup_range (fun p hp => List.mem_range.2 (hrs p hp))
    have := hp.map (fun p => P.opOf p.2)
    rw [List.map_flatMap] at this
    refine this.trans (List.Perm.of_eq ?_)
    unfold Cache.allMsgs
    rw [List.flatMap_map]
    apply DistComm.flatMap_congr_mem
    intro q _
    exact (emitted_projR jls hrun q).symm
  have hins : ((insList jls).map (fun p => (p.2, 1))).Perm (Cache.allIns runs) := by
    have hp := DistComm.perm_flatMap_filter (fun p : Nat × Nat => p.1) (List.range P.n) (insList jls)
      List.nodup_range (fun p hp => List.mem_range.2 (hri p hp))
    have := hp.map (fun p : Nat × Nat => (p.2, 1))
    rw [List.map_flatMap] at this
    refine this.trans (List.Perm.of_eq ?_)
    unfold Cache.allIns
    rw [List.flatMap_map]
    apply DistComm.flatMap_congr_mem
    intro q _
    exact (received_projR jls q).symm
  have hlen : (Cache.valsOf k (Cache.allIns runs)).length = ((insList jls).filter (fun p => p.2 = k)).length := by
    rw [← (Cache.valsOf_perm k hins).length_eq]
    unfold Cache.valsOf
    rw [List.length_map, List.filter_map, List.length_map]
    rfl
  have hall : Cache.ownerCount (DistComm.execOps P.opOf S.c) k = ((insList jls).filter (fun p => p.2 = k)).length := by
    rw [ownerCount_perm hperm k, ownerCount_perm hmsgs k, hcount, hlen]
  refine ⟨?_, ?_, hperm⟩
  · rw [hmem, ← hall]
    unfold Cache.ownerCount Cache.msgValsOf
    rw [List.filter_filter]
    congr 2
    apply List.filter_congr
    intro o _
    by_cases ho : o.key = k <;> simp [ho]
  · intro q hq
    rw [hmem]
    unfold Cache.ownerCount Cache.msgValsOf
    rw [List.filter_filter]
    have : (DistComm.execOps P.opOf S.c).filter (fun a => decide (a.key = k) && decide (P.owner a.key = q)) = [] := by
      apply List.filter_eq_nil_iff.2
      intro o _
      by_cases ho : o.key = k
      · simp [ho]; exact fun e => hq e.symm
      · simp [ho]
    rw [this]; rfl

/-! ### non-vacuity (C15) -/

section CSetExample

/-- which (key, count) each packed message carries -/
private def csOp : Nat → Cache.Msg Nat
  | 1 => ⟨true, 1, 1⟩
  | 2 => ⟨true, 3, 1⟩
  | _ => ⟨true, 3, 2⟩

/-- 2 ranks, a 2-slot cache (keys 1 and 3 collide in slot 1), keys owned by `key % 2`, direct routing -/
private def csPar : Par := { n := 2, nslots := 2, nh := fun _ d => d, owner := fun k => k % 2, opOf := csOp }

private def csRound2 : List Label :=
  [.comm (.contribute 0), .comm (.contribute 1), .comm (.result 0), .comm (.result 1)]

/-- rank 0 inserts key 1 (registers the callback) and then key 3, which EVICTS key 1: the eviction's message (uid 1) is
an `async` to rank 1.  Rank 1 inserts key 3.  Both enter the barrier.  While the handler of uid 1 runs on rank 1 (inside
the barrier) it inserts key 3 again (a handler-context insert, combined in the cache).  The pre-barrier callbacks flush:
rank 0 sends (3, 1) as uid 2, rank 1 sends (3, 2) to itself as uid 3. -/
private def csDemo : List Label :=
  [.ins 0 1 true, .done 0, .ins 0 3 false, .pack 0 1, .ret 0, .done 0, .ins 1 3 true, .done 1,
   .comm (.enter 0), .comm (.enter 1),
   .comm (.isend 0 1), .comm (.recvBegin 1 0 0), .comm (.execBegin 1 1), .ins 1 3 false, .done 1,
   .comm (.execEnd 1 1), .comm (.recvEnd 1),
   .fb 0, .cbpack 0 2, .ret 0, .fe 0, .fb 1, .cbpack 1 3, .ret 1, .fe 1,
   .comm (.isend 0 1), .comm (.recvBegin 1 0 1), .comm (.execBegin 1 2), .comm (.execEnd 1 2), .comm (.recvEnd 1),
   .comm (.isend 1 1), .comm (.recvBegin 1 1 0), .comm (.execBegin 1 3), .comm (.execEnd 1 3), .comm (.recvEnd 1)]
  ++ csRound2 ++ csRound2

set_option maxRecDepth 65536 in
/-- the joint history is accepted; at its end the exit rule holds, nobody has left barrier 0, all three messages
have executed on rank 1 and both caches are back in their initial (quiet) state -/
example : ((run csPar init csDemo).map (fun S =>
    (S.c.d.executed, BarrierME.exitEnabled S.c.b 0, BarrierME.exitEnabled S.c.b 1, (List.range 2).map S.c.b.epoch,
     decide (S.k 0 = Cache.St.init), decide (S.k 1 = Cache.St.init)))) =
    some ([(1, 1), (1, 2), (1, 3)], true, true, [0, 0], true, true) := by decide

set_option maxRecDepth 65536 in
/-- what the theorem says about it: count(3) = 3 = number of `async_insert(3)` (one on rank 0, two on rank 1, one of
them from a handler), count(1) = 1, both on rank 1; rank 0 holds nothing -/
example :
    DistComm.memOf cntContainer csOp 2 (fun _ d => d) (fun _ _ => 0) (csDemo.flatMap (projC csPar)) 1 3 = 3 ∧
    ((insList csDemo).filter (fun p => p.2 = 3)).length = 3 ∧
    DistComm.memOf cntContainer csOp 2 (fun _ d => d) (fun _ _ => 0) (csDemo.flatMap (projC csPar)) 1 1 = 1 ∧
    DistComm.memOf cntContainer csOp 2 (fun _ d => d) (fun _ _ => 0) (csDemo.flatMap (projC csPar)) 0 3 = 0 ∧
    sentList csDemo = [(0, 1), (0, 2), (1, 3)] := by decide

/-- the end-to-end theorem applied to the demo -/
example (S : St) (hrun : run csPar init csDemo = some S) (hx : BarrierME.exitEnabled S.c.b 0 = true)
    (hne : ∀ q, q < 2 → S.c.b.epoch q ≤ S.c.b.epoch 0) :
    DistComm.memOf cntContainer csOp 2 (fun _ d => d) (fun _ _ => 0) (csDemo.flatMap (projC csPar)) 1 3
      = ((insList csDemo).filter (fun p => p.2 = 3)).length :=
  (C15_count_after_barrier csPar (by decide) csDemo S hrun 0 (by decide) hx hne 3).1

set_option maxRecDepth 65536 in
/-- the joint guards bite: a packed message must carry what the cache copied out (uid 2 carries (3, 1), not the evicted
(1, 1)); the flush-all callback cannot begin while an insert is in progress; no reduction round can start while the
flush-all loop is in progress (its continuation is a pending callback) -/
example :
    (run csPar init [.ins 0 1 true, .done 0, .ins 0 3 false, .pack 0 2]).isNone = true ∧
    (run csPar init [.ins 0 1 true, .fb 0]).isNone = true ∧
    (run csPar init [.ins 0 1 true, .done 0, .comm (.enter 0), .fb 0, .comm (.contribute 0)]).isNone = true ∧
    (run csPar init [.ins 0 1 true, .done 0, .comm (.enter 0), .comm (.contribute 0)]).isNone = true := by decide

end CSetExample

end YgmVerif.CSetComm

/-! ## C17 disjoint_set over the joint messaging model -/

namespace YgmVerif.DSetComm
open YgmVerif
open YgmVerif.Barrier (upd upd_same upd_other)

/-- a handler body only APPENDS to the in-flight list (what it sends) -/
theorem handle_msgs_append (s : DSet.State) (m : DSet.Msg) : ∃ new, (DSet.handle s m).msgs = s.msgs ++ new := by
  cases m with
  | setp x z => exact ⟨[], by simp [DSet.handle, DSet.onSetp]⟩
  | resolve p x k =>
    simp only [DSet.handle, DSet.onResolve]
    split
    · exact ⟨[], by simp⟩
    · split
      · exact ⟨[], by simp⟩
      · split
        · refine ⟨[], ?_⟩
          unfold DSet.increaseRank
          split <;> simp
        · exact ⟨[DSet.Msg.setp x (DSet.parent (DSet.visit s p) p)], by simp⟩
  | walk ex t c op oi ork oa ob =>
    simp only [DSet.handle, DSet.onWalk, DSet.splitChild]
    split <;> split <;> (try split) <;> simp <;> exact ⟨_, rfl⟩

theorem handle_msgs (s : DSet.State) (m : DSet.Msg) : (DSet.handle s m).msgs = s.msgs ++ sent s m := by
  obtain ⟨new, h⟩ := handle_msgs_append s m
  unfold sent
  rw [h, List.drop_left]

theorem flatMap_upd_perm {β : Type} (f g : Nat → List β) (r : Nat) (x : List β)
    (hne : ∀ q, q ≠ r → g q = f q) (hr : (g r).Perm (x ++ f r)) :
    ∀ (L : List Nat), L.Nodup → r ∈ L → (L.flatMap g).Perm (x ++ L.flatMap f) := by
  intro L
  induction L with
  | nil => intro _ h; cases h
  | cons a L ih =>
    intro hnd hmem
    obtain ⟨ha, hnd'⟩ := List.nodup_cons.1 hnd
    simp only [List.flatMap_cons]
    by_cases har : a = r
    · subst har
      have : L.flatMap g = L.flatMap f := by
        apply DistComm.flatMap_congr_mem
        intro q hq
        exact hne q (fun e => ha (e ▸ hq))
      rw [this, ← List.append_assoc]
      exact List.Perm.append_right _ hr
    · have hmem' : r ∈ L := by
        rcases List.mem_cons.1 hmem with h | h
        · exact absurd h.symm har
        · exact h
      rw [hne a har]
      exact (List.Perm.append_left _ (ih hnd' hmem')).trans (List.perm_append_comm_assoc _ _ _)

theorem map_erase_perm {α β : Type} [BEq α] [LawfulBEq α] [BEq β] [LawfulBEq β] (f : α → β) (l : List α) (a : α)
    (h : a ∈ l) : ((l.map f).erase (f a)).Perm ((l.erase a).map f) := by
  have h1 : (l.map f).Perm (f a :: (l.erase a).map f) := (List.perm_cons_erase h).map f
  have h2 := h1.erase (f a)
  rw [List.erase_cons_head] at h2
  exact h2

/-! ### the component histories are recoverable -/

theorem step_some {P : Par} {S S' : St} {l : Label} (h : step P S l = some S') :
    guard P S l = true ∧ Comm.run P.n P.nh S.c (projC P l) = some S'.c ∧
      S'.ds = (next P S l).1 ∧ S'.fl = (next P S l).2.1 ∧ S'.outbox = (next P S l).2.2 := by
  unfold step at h
  split at h
  · rename_i hg
    split at h
    · rename_i c' hc
      cases h
      exact ⟨hg, hc, rfl, rfl, rfl⟩
    · cases h
  · cases h

/-- **a joint history is a history of the joint messaging model `Comm`** -/
theorem run_projC {P : Par} {S S' : St} (jls : List Label) (h : run P S jls = some S') :
    Comm.run P.n P.nh S.c (jls.flatMap (projC P)) = some S'.c := by
  induction jls generalizing S with
  | nil => simp only [run] at h; cases h; rfl
  | cons l jls ih =>
    simp only [run] at h
    cases hst : step P S l with
    | none => rw [hst] at h; cases h
    | some S1 =>
      rw [hst] at h
      rw [List.flatMap_cons]
      exact Comm.run_append _ _ (step_some hst).2.1 (ih h)

/-- **every joint history projects to a run of the disjoint_set message system `DSet`** (a simulation: `union` is
`DSet.Step.issue`, `begin` is `DSet.Step.deliver` of that very message, every other label leaves `DSet` where it is), and
the ghost `issued` of `DSet` is the list of unions of the history -/
theorem run_projDS {P : Par} {S S' : St} (jls : List Label) (h : run P S jls = some S') :
    DSet.Steps S.ds S'.ds ∧ S'.ds.issued = (unions jls).reverse ++ S.ds.issued := by
  induction jls generalizing S with
  | nil => simp only [run] at h; cases h; exact ⟨DSet.Steps.refl _, rfl⟩
  | cons l jls ih =>
    simp only [run] at h
    cases hst : step P S l with
    | none => rw [hst] at h; cases h
    | some S1 =>
      rw [hst] at h
      obtain ⟨i1, i2⟩ := ih h
      have hds := (step_some hst).2.2.1
      cases l with
      | comm l0 =>
        simp only [next] at hds
        rw [hds] at i1 i2
        exact ⟨i1, by simpa [unions] using i2⟩
      | hsend r uid =>
        simp only [next] at hds
        rw [hds] at i1 i2
        exact ⟨i1, by simpa [unions] using i2⟩
      | union r uid ex a b =>
        simp only [next] at hds
        rw [hds] at i1 i2
        refine ⟨DSet.Steps.trans (DSet.Steps.tail (DSet.Steps.refl _) (DSet.Step.issue S.ds ex a b)) i1, ?_⟩
        rw [i2]
        simp [unions, DSet.issue]
      | begin r uid =>
        simp only [next] at hds
        rw [hds] at i1 i2
        refine ⟨DSet.Steps.trans (DSet.Steps.tail (DSet.Steps.refl _) (DSet.Step.deliver S.ds _)) i1, ?_⟩
        rw [i2, DSet.issued_deliver]
        simp [unions]

/-! ### what the `Comm` side does to `und` and `busy` -/

theorem comm_run_single {n : Nat} {nh : Nat → Nat → Nat} {c c' : Comm.St} {l : Comm.Label}
    (h : Comm.run n nh c [l] = some c') : Comm.step n nh c l = some c' :=
  CSetComm.comm_run_single h

theorem comm_async {n : Nat} {nh : Nat → Nat → Nat} {c c' : Comm.St} {r uid dest : Nat} {direct : Bool}
    (h : Comm.step n nh c (.async r uid dest direct) = some c') :
    c'.b.und = c.b.und + 1 ∧ c'.b.busy = c.b.busy := by
  have hB := (Comm.step_some h).2.2.1
  simp only [Comm.projB, Comm.bRun_single, BarrierME.step] at hB
  split at hB
  · rw [← Option.some.inj hB]; exact ⟨rfl, rfl⟩
  · cases hB

theorem comm_execBegin {n : Nat} {nh : Nat → Nat → Nat} {c c' : Comm.St} {r uid : Nat}
    (h : Comm.step n nh c (.execBegin r uid) = some c') :
    0 < c.b.und ∧ c'.b.und = c.b.und - 1 ∧ c'.b.busy = upd c.b.busy r true := by
  have hB := (Comm.step_some h).2.2.1
  simp only [Comm.projB, Comm.bRun_single, BarrierME.step] at hB
  split at hB
  · rename_i hc
    rw [← Option.some.inj hB]; exact ⟨hc.2.1, rfl, rfl⟩
  · cases hB

theorem comm_allowed {n : Nat} {nh : Nat → Nat → Nat} {c c' : Comm.St} {l : Comm.Label}
    (ha : allowed l = true) (h : Comm.step n nh c l = some c') :
    c'.b.und = c.b.und ∧ (c'.b.busy = c.b.busy ∨ ∃ r uid, l = .execEnd r uid ∧ c'.b.busy = upd c.b.busy r false) := by
  have hB := (Comm.step_some h).2.2.1
  cases l with
  | async r uid dest direct => cases ha
  | runcb r msgs j => cases ha
  | execBegin r uid => cases ha
  | isend r hop => simp only [Comm.projB, BarrierME.run] at hB; rw [← Option.some.inj hB]; exact ⟨rfl, Or.inl rfl⟩
  | recvBegin r src seq =>
    simp only [Comm.projB, BarrierME.run] at hB; rw [← Option.some.inj hB]; exact ⟨rfl, Or.inl rfl⟩
  | fwd r uid => simp only [Comm.projB, BarrierME.run] at hB; rw [← Option.some.inj hB]; exact ⟨rfl, Or.inl rfl⟩
  | recvEnd r => simp only [Comm.projB, BarrierME.run] at hB; rw [← Option.some.inj hB]; exact ⟨rfl, Or.inl rfl⟩
  | execEnd r uid =>
    simp only [Comm.projB, Comm.bRun_single, BarrierME.step] at hB
    split at hB
    · rw [← Option.some.inj hB]; exact ⟨rfl, Or.inr ⟨r, uid, rfl, rfl⟩⟩
    · cases hB
  | regcb r =>
    simp only [Comm.projB, Comm.bRun_single, BarrierME.step] at hB
    split at hB
    · rw [← Option.some.inj hB]; exact ⟨rfl, Or.inl rfl⟩
    · cases hB
  | enter r =>
    simp only [Comm.projB, Comm.bRun_single, BarrierME.step] at hB
    split at hB
    · rw [← Option.some.inj hB]; exact ⟨rfl, Or.inl rfl⟩
    · cases hB
  | contribute r =>
    simp only [Comm.projB, Comm.bRun_single, BarrierME.step] at hB
    split at hB
    · rw [← Option.some.inj hB]; exact ⟨rfl, Or.inl rfl⟩
    · cases hB
  | result r =>
    simp only [Comm.projB, Comm.bRun_single, BarrierME.step] at hB
    split at hB
    · rw [← Option.some.inj hB]; exact ⟨rfl, Or.inl rfl⟩
    · cases hB
  | exit r =>
    simp only [Comm.projB, Comm.bRun_single, BarrierME.step] at hB
    split at hB
    · rw [← Option.some.inj hB]; exact ⟨rfl, Or.inl rfl⟩
    · cases hB

/-! ### the linking invariant: DSet's in-flight multiset is Comm's -/

/-- `DSet`'s in-flight list is, as a multiset, the messages of the uids issued in `Comm` whose handler has not started
together with what the running handlers still have to send; the number of the former is `BarrierME`'s `und`; a rank that
runs no handler has nothing left to send -/
def JInv (P : Par) (S : St) : Prop :=
  S.ds.msgs.Perm (S.fl.map P.opOf ++ (List.range P.n).flatMap S.outbox) ∧
  S.fl.length = S.c.b.und ∧
  ∀ q, S.c.b.busy q = false → S.outbox q = []

theorem jinv_init (P : Par) : JInv P init := by
  refine ⟨?_, rfl, fun _ _ => rfl⟩
  show ([] : List DSet.Msg).Perm ([] ++ (List.range P.n).flatMap (fun _ => []))
  simp

theorem step_jinv {P : Par} {S S' : St} {l : Label} (hi : JInv P S) (h : step P S l = some S') : JInv P S' := by
  obtain ⟨hg, hc, hds, hfl, hob⟩ := step_some h
  obtain ⟨ia, ib, ic⟩ := hi
  cases l with
  | comm l0 =>
    simp only [next] at hds hfl hob
    simp only [guard, Bool.and_eq_true] at hg
    obtain ⟨hu, hb⟩ := comm_allowed hg.1 (comm_run_single hc)
    refine ⟨by rw [hds, hfl, hob]; exact ia, by rw [hfl, hu]; exact ib, ?_⟩
    intro q hq
    rw [hob]
    rcases hb with hb | ⟨r, uid, rfl, hb⟩
    · rw [hb] at hq; exact ic q hq
    · by_cases hqr : q = r
      · subst hqr
        have := hg.2
        simpa using this
      · rw [hb, upd_other _ _ _ _ hqr] at hq; exact ic q hq
  | union r uid ex a b =>
    simp only [next] at hds hfl hob
    simp only [guard, Bool.and_eq_true, decide_eq_true_eq, beq_iff_eq] at hg
    obtain ⟨hu, hb⟩ := comm_async (comm_run_single hc)
    refine ⟨?_, by rw [hfl, hu, List.length_append, ib]; rfl, fun q hq => by rw [hob]; rw [hb] at hq; exact ic q hq⟩
    rw [hds, hfl, hob]
    show (S.ds.msgs ++ [DSet.Msg.walk ex a a b b (-1) a b]).Perm _
    rw [← hg.2, List.map_append, List.map_singleton, List.append_assoc]
    refine (List.Perm.append_right _ ia).trans ?_
    rw [List.append_assoc]
    exact List.Perm.append_left _ List.perm_append_comm
  | hsend r uid =>
    simp only [next] at hds hfl hob
    simp only [guard, Bool.and_eq_true, decide_eq_true_eq, beq_iff_eq] at hg
    obtain ⟨hu, hb⟩ := comm_async (comm_run_single hc)
    have hcons : S.outbox r = P.opOf uid :: (S.outbox r).tail := by
      cases ho : S.outbox r with
      | nil => rw [ho] at hg; simp at hg
      | cons x xs => rw [ho] at hg; simp at hg; rw [hg.2]; rfl
    refine ⟨?_, by rw [hfl, hu, List.length_append, ib]; rfl, ?_⟩
    · rw [hds, hfl, hob, List.map_append, List.map_singleton, List.append_assoc]
      refine ia.trans (List.Perm.append_left _ ?_)
      apply flatMap_upd_perm (upd S.outbox r (S.outbox r).tail) S.outbox r [P.opOf uid]
      · intro q hq; rw [upd_other _ _ _ _ hq]
      · rw [upd_same]; exact List.Perm.of_eq hcons
      · exact List.nodup_range
      · exact List.mem_range.2 hg.1
    · intro q hq
      rw [hb] at hq
      rw [hob]
      by_cases hqr : q = r
      · subst hqr
        rw [upd_same, ic q hq]; rfl
      · rw [upd_other _ _ _ _ hqr]; exact ic q hq
  | begin r uid =>
    simp only [next] at hds hfl hob
    simp only [guard, Bool.and_eq_true, decide_eq_true_eq, List.contains_iff_mem] at hg
    obtain ⟨⟨hrn, hmemfl⟩, hmemm⟩ := hg
    obtain ⟨hpos, hu, hb⟩ := comm_execBegin (comm_run_single hc)
    have hlt : S.ds.msgs.idxOf (P.opOf uid) < S.ds.msgs.length := List.idxOf_lt_length_of_mem hmemm
    have hget : S.ds.msgs[S.ds.msgs.idxOf (P.opOf uid)]? = some (P.opOf uid) := by
      rw [List.getElem?_eq_getElem hlt, List.getElem_idxOf hlt]
    have hmsgs : S'.ds.msgs = S.ds.msgs.erase (P.opOf uid) ++
        sent { S.ds with msgs := S.ds.msgs.eraseIdx (S.ds.msgs.idxOf (P.opOf uid)) } (P.opOf uid) := by
      rw [hds]
      unfold DSet.deliver
      rw [hget]
      simp only
      rw [handle_msgs, List.erase_eq_eraseIdx_of_idxOf rfl]
    refine ⟨?_, ?_, ?_⟩
    · rw [hmsgs, hfl, hob]
      have h1 : (S.ds.msgs.erase (P.opOf uid)).Perm
          ((S.fl.erase uid).map P.opOf ++ (List.range P.n).flatMap S.outbox) := by
        have := ia.erase (P.opOf uid)
        rw [List.erase_append_left _ (List.mem_map.2 ⟨uid, hmemfl, rfl⟩)] at this
        exact this.trans (List.Perm.append_right _ (map_erase_perm P.opOf S.fl uid hmemfl))
      have h2 := flatMap_upd_perm S.outbox (upd S.outbox r (S.outbox r ++
          sent { S.ds with msgs := S.ds.msgs.eraseIdx (S.ds.msgs.idxOf (P.opOf uid)) } (P.opOf uid))) r
          (sent { S.ds with msgs := S.ds.msgs.eraseIdx (S.ds.msgs.idxOf (P.opOf uid)) } (P.opOf uid))
          (fun q hq => by rw [upd_other _ _ _ _ hq]) (by rw [upd_same]; exact List.perm_append_comm)
          (List.range P.n) List.nodup_range (List.mem_range.2 hrn)
      refine (List.Perm.append_right _ h1).trans ?_
      rw [List.append_assoc]
      refine List.Perm.append_left _ ?_
      exact List.perm_append_comm.trans h2.symm
    · rw [hfl, hu, List.length_erase_of_mem hmemfl, ib]
    · intro q hq
      rw [hob]
      rw [hb] at hq
      by_cases hqr : q = r
      · subst hqr; rw [upd_same] at hq; cases hq
      · rw [upd_other _ _ _ _ hqr] at hq ⊢; exact ic q hq

theorem run_jinv {P : Par} {S S' : St} (jls : List Label) (hi : JInv P S) (h : run P S jls = some S') :
    JInv P S' := by
  induction jls generalizing S with
  | nil => simp only [run] at h; cases h; exact hi
  | cons l jls ih =>
    simp only [run] at h
    cases hst : step P S l with
    | none => rw [hst] at h; cases h
    | some S1 => rw [hst] at h; exact ih (step_jinv hi hst) h

/-- **C17 end to end** (`ygm::container::disjoint_set`).  For every number of ranks, every routing function, every item
partitioner and every history of the PRODUCT of the joint messaging model with the disjoint_set message system —
`async_union` / `async_union_and_execute` from any rank, every handler (`simul_parent_walk_functor`,
`update_parent_lambda`, `resolve_merge_lambda`) running between `execBegin` and `execEnd` of its message and issuing its
own messages as `async`s, any interleaving, any number of barriers —: at the FIRST return of a barrier

* nothing of the disjoint_set is in flight (`DSet`'s quiescence, the hypothesis `hq` of `DSet.complete` /
  `DSet.connectivity`, is DERIVED from the barrier);
* the state is a reachable state of `DSet` (so every theorem of `Props/C17.lean` applies), no assertion fired;
* two items have the same representative IFF they are connected by the unions issued so far. -/
theorem C17_connectivity_after_barrier (P : Par) (jls : List Label) (S : St)
    (hrun : run P init jls = some S) (r : Nat) (hr : r < P.n)
    (hx : BarrierME.exitEnabled S.c.b r = true) (hne : ∀ q, q < P.n → S.c.b.epoch q ≤ S.c.b.epoch r) :
    S.ds.msgs = [] ∧ DSet.Reach S.ds ∧ S.ds.aborted = false ∧ S.ds.issued = (unions jls).reverse ∧
    (∀ x y, DSet.root S.ds x = DSet.root S.ds y ↔ DSet.Conn (unions jls).reverse x y) ∧
    (∀ x y, DSet.Conn (unions jls).reverse x y → DSet.sameTree S.ds x y) := by
  have hC : Comm.run P.n P.nh Comm.init (jls.flatMap (projC P)) = some S.c := run_projC jls hrun
  have hdead := BarrierME.C02ME_exit_implies_quiescent P.n S.c.b _ (Comm.run_projB _ hC) r hr hx _ rfl hne
  obtain ⟨ia, ib, ic⟩ := run_jinv jls (jinv_init P) hrun
  obtain ⟨hsteps, hiss⟩ := run_projDS jls hrun
  have hreach : DSet.Reach S.ds := hsteps
  have hfl : S.fl = [] := List.eq_nil_of_length_eq_zero (by rw [ib]; exact hdead.1)
  have hob : (List.range P.n).flatMap S.outbox = [] := by
    apply List.flatMap_eq_nil_iff.2
    intro q hq
    exact ic q (hdead.2 q (List.mem_range.1 hq)).2.2.1
  have hq : S.ds.msgs = [] := by
    rw [hfl, hob] at ia
    exact List.Perm.eq_nil ia
  have hiss' : S.ds.issued = (unions jls).reverse := by rw [hiss]; simp [init, DSet.init]
  refine ⟨hq, hreach, DSet.no_abort hreach, hiss', ?_, ?_⟩
  · intro x y
    rw [← hiss']
    exact DSet.connectivity hreach hq x y
  · intro x y hxy
    rw [← hiss'] at hxy
    exact DSet.complete hreach hq hxy

end YgmVerif.DSetComm
